import GqlProofs.PlanFx4
/-! # Phase two of M: forcing converts pending effects into recorded ones (plus new pending ones, plus dropped ones) -/
namespace GqlModel.Plan
open GqlModel.Exec GqlModel.Coerce

/-- the outcome of a forcing step / dethunk pass: the effects `Pin` that were pending are now M's new effects, what is pending in the
result, and what was dropped; never an escape -/
def PendOut {α : Type} (pendOf : α → Fx) (Pin : Fx) (mst : MSt) (out : Res α × MSt) : Prop :=
  match out.1 with
  | .ok x => ∃ dM D, MExt mst out.2 dM ∧ Fx.Perm Pin (dM.app ((pendOf x).app D))
  | .fail => False
  | .fuelOut => True

theorem pendOut_ret {α : Type} (pendOf : α → Fx) (mst : MSt) (x : α) : PendOut pendOf (pendOf x) mst ((Res.ok x : Res α), mst) :=
  ⟨Fx.nil, Fx.nil, MExt.refl mst, by simpa using Fx.Perm.refl (pendOf x)⟩

theorem perm_seq {Pin Pmid Pout d1 d2 D1 D2 : Fx} (h1 : Fx.Perm Pin (d1.app (Pmid.app D1)))
    (h2 : Fx.Perm Pmid (d2.app (Pout.app D2))) : Fx.Perm Pin ((d2.app d1).app (Pout.app (D1.app D2))) := by
  have s1 : Fx.Perm (d1.app (Pmid.app D1)) (Pmid.app (d1.app D1)) := by
    simpa [Fx.flat] using Fx.rearr [d1, Pmid, D1] [0, 1, 2] [1, 0, 2] (by decide)
  have s2 : Fx.Perm (Pmid.app (d1.app D1)) ((d2.app (Pout.app D2)).app (d1.app D1)) := Fx.Perm.app h2 (Fx.Perm.refl _)
  have s3 : Fx.Perm ((d2.app (Pout.app D2)).app (d1.app D1)) ((d2.app d1).app (Pout.app (D1.app D2))) := by
    simpa [Fx.flat] using Fx.rearr [d2, Pout, D2, d1, D1] [0, 1, 2, 3, 4] [0, 3, 1, 4, 2] (by decide)
  exact h1.trans (s1.trans (s2.trans s3))

/-- a step (from `Pin`, leaving `Pmid` pending in an intermediate result) followed by a pass over that result -/
theorem pendOut_seq {α : Type} {pendOf : α → Fx} {Pin Pmid d1 D1 : Fx} {mst mst1 : MSt} {out : Res α × MSt}
    (m1 : MExt mst mst1 d1) (h1 : Fx.Perm Pin (d1.app (Pmid.app D1))) (h2 : PendOut pendOf Pmid mst1 out) :
    PendOut pendOf Pin mst out := by
  unfold PendOut at *
  cases hr : out.1 with
  | ok x =>
    rw [hr] at h2
    obtain ⟨d2, D2, m2, p2⟩ := h2
    exact ⟨d2.app d1, D1.app D2, m1.trans m2, perm_seq h1 p2⟩
  | fail => rw [hr] at h2; exact h2
  | fuelOut => trivial

/-- replacing the part `Pold` of what is pending: `Pin ~ Pold ++ R`, `Pold` is worked off into `Pnew`, so `Pnew ++ R` is pending -/
theorem perm_replace {Pin Pold Pnew R d D : Fx} (hs : Fx.Perm Pin (Pold.app R)) (h : Fx.Perm Pold (d.app (Pnew.app D))) :
    Fx.Perm Pin (d.app ((Pnew.app R).app D)) := by
  have s1 : Fx.Perm (Pold.app R) ((d.app (Pnew.app D)).app R) := Fx.Perm.app h (Fx.Perm.refl R)
  have s2 : Fx.Perm ((d.app (Pnew.app D)).app R) (d.app ((Pnew.app R).app D)) := by
    simpa [Fx.flat] using Fx.rearr [d, Pnew, D, R] [0, 1, 2, 3] [0, 1, 3, 2] (by decide)
  exact hs.trans (s1.trans s2)

section pendsplit
variable {c : Ctx} {F : Nat}

/-- the entry that `lookupF` finds, and the rest -/
theorem pendF_split {k : String} {x : PVal} : ∀ {fs : List (String × PVal)}, lookupF fs k = some x →
    ∃ R, Fx.Perm (pendF c F fs) ((pend c F x).app R) ∧ ∀ x', Fx.Perm (pendF c F (setF fs k x')) ((pend c F x').app R)
  | [], h => by simp [lookupF] at h
  | (k', y) :: rest, h => by
    by_cases hk : (k' == k) = true
    · simp only [lookupF, List.find?_cons, hk, Option.map_some, Option.some.injEq] at h
      subst h
      refine ⟨pendF c F rest, by simp only [pendF]; exact Fx.Perm.refl _, fun x' => ?_⟩
      simp only [setF, hk, if_true, pendF]
      exact Fx.Perm.refl _
    · have hk' : (k' == k) = false := by simpa using hk
      have hl : lookupF rest k = some x := by simpa [lookupF, List.find?_cons, hk'] using h
      obtain ⟨R, h1, h2⟩ := pendF_split hl
      refine ⟨(pend c F y).app R, ?_, fun x' => ?_⟩
      · simp only [pendF]
        have s1 := Fx.Perm.app (Fx.Perm.refl (pend c F y)) h1
        have s2 : Fx.Perm ((pend c F y).app ((pend c F x).app R)) ((pend c F x).app ((pend c F y).app R)) := by
          simpa [Fx.flat] using Fx.rearr [pend c F y, pend c F x, R] [0, 1, 2] [1, 0, 2] (by decide)
        exact s1.trans s2
      · simp only [setF, hk, Bool.false_eq_true, if_false, pendF]
        have s1 := Fx.Perm.app (Fx.Perm.refl (pend c F y)) (h2 x')
        have s2 : Fx.Perm ((pend c F y).app ((pend c F x').app R)) ((pend c F x').app ((pend c F y).app R)) := by
          simpa [Fx.flat] using Fx.rearr [pend c F y, pend c F x', R] [0, 1, 2] [1, 0, 2] (by decide)
        exact s1.trans s2

theorem pendL_split {x : PVal} : ∀ {xs : List PVal} (i : Nat), xs[i]? = some x →
    ∃ R, Fx.Perm (pendL c F xs) ((pend c F x).app R) ∧ ∀ x', Fx.Perm (pendL c F (xs.set i x')) ((pend c F x').app R)
  | [], _, h => by simp at h
  | y :: rest, 0, h => by
    simp only [List.getElem?_cons_zero, Option.some.injEq] at h
    subst h
    exact ⟨pendL c F rest, by simp only [pendL]; exact Fx.Perm.refl _, fun x' => by
      simp only [List.set_cons_zero, pendL]; exact Fx.Perm.refl _⟩
  | y :: rest, i + 1, h => by
    simp only [List.getElem?_cons_succ] at h
    obtain ⟨R, h1, h2⟩ := pendL_split i h
    refine ⟨(pend c F y).app R, ?_, fun x' => ?_⟩
    · simp only [pendL]
      have s1 := Fx.Perm.app (Fx.Perm.refl (pend c F y)) h1
      have s2 : Fx.Perm ((pend c F y).app ((pend c F x).app R)) ((pend c F x).app ((pend c F y).app R)) := by
        simpa [Fx.flat] using Fx.rearr [pend c F y, pend c F x, R] [0, 1, 2] [1, 0, 2] (by decide)
      exact s1.trans s2
    · simp only [List.set_cons_succ, pendL]
      have s1 := Fx.Perm.app (Fx.Perm.refl (pend c F y)) (h2 x')
      have s2 : Fx.Perm ((pend c F y).app ((pend c F x').app R)) ((pend c F x').app ((pend c F y).app R)) := by
        simpa [Fx.flat] using Fx.rearr [pend c F y, pend c F x', R] [0, 1, 2] [1, 0, 2] (by decide)
      exact s1.trans s2

/-- the value at an address, and the rest of the tree -/
theorem pend_split : ∀ (a : Path) {root old : PVal}, root.getAt a = some old →
    ∃ R, Fx.Perm (pend c F root) ((pend c F old).app R) ∧ ∀ nv, Fx.Perm (pend c F (root.setAt a nv)) ((pend c F nv).app R)
  | [], root, old, h => by
    rw [getAt_nil] at h
    simp only [Option.some.injEq] at h
    subst h
    exact ⟨Fx.nil, by simpa using Fx.Perm.refl _, fun nv => by rw [setAt_nil]; simpa using Fx.Perm.refl _⟩
  | seg :: rest, root, old, h => by
    cases root with
    | leaf _ => cases seg <;> simp [PVal.getAt] at h
    | deferred _ => cases seg <;> simp [PVal.getAt] at h
    | obj fs =>
      cases seg with
      | idx i => simp [PVal.getAt] at h
      | key k =>
        simp only [PVal.getAt] at h
        cases hl : lookupF fs k with
        | none => simp [hl] at h
        | some x =>
          simp only [hl] at h
          obtain ⟨R1, a1, a2⟩ := pend_split rest h
          obtain ⟨R2, b1, b2⟩ := pendF_split (c := c) (F := F) hl
          refine ⟨R1.app R2, ?_, fun nv => ?_⟩
          · simp only [pend]
            have s1 : Fx.Perm ((pend c F x).app R2) (((pend c F old).app R1).app R2) := Fx.Perm.app a1 (Fx.Perm.refl R2)
            exact b1.trans (by simpa using s1)
          · simp only [PVal.setAt, hl, pend]
            have s1 : Fx.Perm ((pend c F (x.setAt rest nv)).app R2) (((pend c F nv).app R1).app R2) :=
              Fx.Perm.app (a2 nv) (Fx.Perm.refl R2)
            exact (b2 _).trans (by simpa using s1)
    | list xs =>
      cases seg with
      | key k => simp [PVal.getAt] at h
      | idx i =>
        simp only [PVal.getAt] at h
        cases hl : xs[i]? with
        | none => simp [hl] at h
        | some x =>
          simp only [hl] at h
          obtain ⟨R1, a1, a2⟩ := pend_split rest h
          obtain ⟨R2, b1, b2⟩ := pendL_split (c := c) (F := F) i hl
          refine ⟨R1.app R2, ?_, fun nv => ?_⟩
          · simp only [pend]
            have s1 : Fx.Perm ((pend c F x).app R2) (((pend c F old).app R1).app R2) := Fx.Perm.app a1 (Fx.Perm.refl R2)
            exact b1.trans (by simpa using s1)
          · simp only [PVal.setAt, hl, pend]
            have s1 : Fx.Perm ((pend c F (x.setAt rest nv)).app R2) (((pend c F nv).app R1).app R2) :=
              Fx.Perm.app (a2 nv) (Fx.Perm.refl R2)
            exact (b2 _).trans (by simpa using s1)

end pendsplit

end GqlModel.Plan
