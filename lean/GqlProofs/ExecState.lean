import GqlProofs.ExecFuel
import GqlProofs.ExecErr
/-! The state (errors, log, known-finding marks) is write-only: what a call of the four functions returns, and what
it appends to the state, does not depend on the state it is given. Hence the value computed for a field is independent
of whatever its siblings recorded (C04: a failure in one field does not alter the value of a sibling). -/
namespace GqlModel.Exec

/-- `d.app st`: the state `st` after the additions `d` -/
def St.app (d st : St) : St := ⟨d.errs ++ st.errs, d.log ++ st.log, d.kfThunk ++ st.kfThunk⟩

theorem St.empty_app (st : St) : St.empty.app st = st := by cases st; rfl
theorem St.app_assoc (a b st : St) : a.app (b.app st) = (a.app b).app st := by
  simp [St.app, List.append_assoc]
theorem addErr_app (d st : St) (p : Path) (b : Bool) : addErr (d.app st) p b = (addErr d p b).app st := by
  simp [addErr, St.app]

structure StP (c : Ctx) (fuel : Nat) : Prop where
  groups : ∀ dfr rt src path groups acc, ∃ r d, ∀ st,
    execGroups c fuel dfr rt src path groups acc st = (r, St.app d st)
  field : ∀ dfr rt src p fd nodes, ∃ r d, ∀ st,
    execField c fuel dfr rt src p fd nodes st = (r, St.app d st)
  complete : ∀ dfr t rt fname nodes p v, ∃ r d, ∀ st,
    complete c fuel dfr t rt fname nodes p v st = (r, St.app d st)
  items : ∀ dfr item rt fname nodes p xs i acc, ∃ r d, ∀ st,
    completeItems c fuel dfr item rt fname nodes p xs i acc st = (r, St.app d st)

theorem stP_zero (c : Ctx) : StP c 0 := by
  refine ⟨?_, ?_, ?_, ?_⟩
  · intro dfr rt src path groups acc
    exact ⟨.fuelOut, St.empty, fun st => by simp [execGroups, St.empty_app]⟩
  · intro dfr rt src p fd nodes
    exact ⟨.fuelOut, St.empty, fun st => by simp [execField, St.empty_app]⟩
  · intro dfr t rt fname nodes p v
    exact ⟨.fuelOut, St.empty, fun st => by simp [complete, St.empty_app]⟩
  · intro dfr item rt fname nodes p xs i acc
    exact ⟨.fuelOut, St.empty, fun st => by simp [completeItems, St.empty_app]⟩

theorem stP_groups (c : Ctx) (fuel : Nat) (ih : StP c fuel) :
    ∀ dfr rt src path groups acc, ∃ r d, ∀ st,
    execGroups c (fuel + 1) dfr rt src path groups acc st = (r, St.app d st) := by
  intro dfr rt src path groups acc
  cases groups with
  | nil => exact ⟨.ok acc, St.empty, fun st => by simp [execGroups, St.empty_app]⟩
  | cons g rest =>
    obtain ⟨key, nodes⟩ := g
    cases hh : nodes.head? with
    | none =>
      obtain ⟨r, d, h⟩ := ih.groups dfr rt src path rest acc
      exact ⟨r, d, fun st => by simp only [execGroups, hh]; exact h st⟩
    | some node =>
      cases hfd : fieldDef? c.schema rt node.name with
      | none =>
        obtain ⟨r, d, h⟩ := ih.groups dfr rt src path rest acc
        exact ⟨r, d, fun st => by simp only [execGroups, hh, hfd]; exact h st⟩
      | some fd =>
        obtain ⟨r1, d1, h1⟩ := ih.field dfr rt src (path ++ [.key key]) fd nodes
        cases r1 with
        | ok v =>
          obtain ⟨r2, d2, h2⟩ := ih.groups dfr rt src path rest (acc ++ [(key, v)])
          refine ⟨r2, d2.app d1, fun st => ?_⟩
          simp only [execGroups, hh, hfd, h1 st, h2, St.app_assoc]
        | fail => exact ⟨.fail, d1, fun st => by simp only [execGroups, hh, hfd, h1 st]⟩
        | fuelOut => exact ⟨.fuelOut, d1, fun st => by simp only [execGroups, hh, hfd, h1 st]⟩

theorem stP_items (c : Ctx) (fuel : Nat) (ih : StP c fuel) :
    ∀ dfr item rt fname nodes p xs i acc, ∃ r d, ∀ st,
    completeItems c (fuel + 1) dfr item rt fname nodes p xs i acc st = (r, St.app d st) := by
  intro dfr item rt fname nodes p xs i acc
  cases xs with
  | nil => exact ⟨.ok acc, St.empty, fun st => by simp [completeItems, St.empty_app]⟩
  | cons x xs =>
    obtain ⟨r1, d1, h1⟩ := ih.complete dfr item rt fname nodes (p ++ [.idx i]) x
    cases r1 with
    | ok j =>
      obtain ⟨r2, d2, h2⟩ := ih.items dfr item rt fname nodes p xs (i + 1) (acc ++ [j])
      exact ⟨r2, d2.app d1, fun st => by simp only [completeItems, h1 st, h2, St.app_assoc]⟩
    | fail =>
      by_cases hnn : item.isNonNull = true
      · exact ⟨.fail, d1, fun st => by simp only [completeItems, h1 st, hnn, if_true]⟩
      · obtain ⟨r2, d2, h2⟩ := ih.items dfr item rt fname nodes p xs (i + 1) (acc ++ [.null])
        exact ⟨r2, d2.app d1, fun st => by
          simp only [completeItems, h1 st, hnn, Bool.false_eq_true, if_false, h2, St.app_assoc]⟩
    | fuelOut => exact ⟨.fuelOut, d1, fun st => by simp only [completeItems, h1 st]⟩

theorem stP_field (c : Ctx) (fuel : Nat) (ih : StP c fuel) :
    ∀ dfr rt src p fd nodes, ∃ r d, ∀ st,
    execField c (fuel + 1) dfr rt src p fd nodes st = (r, St.app d st) := by
  intro dfr rt src p fd nodes
  by_cases hn : (fd.name == "__typename") = true
  · exact ⟨.ok (.str rt), St.empty, fun st => by simp only [execField, hn, if_true, St.empty_app]⟩
  · -- the state after logging the invocation
    let ent : LogEntry := LogEntry.mk p rt fd.name
      (match nodes.head? with
        | some n => Coerce.getArgumentValues c.schema fd.args n.args c.vars
        | none => []) src nodes.length dfr
    let dl : St := ⟨[], [ent], []⟩
    have hlog : ∀ st : St, ({ st with log := ent :: st.log } : St) = dl.app st := fun st => by cases st; rfl
    cases hout : c.world.outcome src fd.name with
    | fail =>
      by_cases hnn : fd.type.isNonNull = true
      · refine ⟨.fail, addErr dl p dfr, fun st => ?_⟩
        simp only [execField, hn, Bool.false_eq_true, if_false, hout, hnn, if_true]
        show (Res.fail, addErr ({ st with log := ent :: st.log } : St) p dfr) = _
        rw [← addErr_app, ← hlog]
      · refine ⟨.ok .null, addErr dl p dfr, fun st => ?_⟩
        simp only [execField, hn, Bool.false_eq_true, if_false, hout, hnn]
        show (Res.ok JVal.null, addErr ({ st with log := ent :: st.log } : St) p dfr) = _
        rw [← addErr_app, ← hlog]
    | value v =>
      obtain ⟨r1, d1, h1⟩ := ih.complete dfr fd.type rt fd.name nodes p v
      have h1' : ∀ st : St, complete c fuel dfr fd.type rt fd.name nodes p v { st with log := ent :: st.log }
          = (r1, (d1.app dl).app st) := fun st => by rw [hlog, h1, St.app_assoc]
      have hunf : ∀ st : St, execField c (fuel + 1) dfr rt src p fd nodes st =
          (match complete c fuel dfr fd.type rt fd.name nodes p v { st with log := ent :: st.log } with
          | (.ok j, st) => (.ok j, st)
          | (.fail, st) => if fd.type.isNonNull then (.fail, st) else (.ok .null, st)
          | (.fuelOut, st) => (.fuelOut, st)) := fun st => by
        simp only [execField, hn, Bool.false_eq_true, if_false, hout]
        rfl
      cases r1 with
      | ok j => exact ⟨.ok j, d1.app dl, fun st => by rw [hunf, h1' st]⟩
      | fail =>
        by_cases hnn : fd.type.isNonNull = true
        · exact ⟨.fail, d1.app dl, fun st => by rw [hunf, h1' st]; simp only [hnn, if_true]⟩
        · exact ⟨.ok .null, d1.app dl, fun st => by
            rw [hunf, h1' st]; simp only [hnn, Bool.false_eq_true, if_false]⟩
      | fuelOut => exact ⟨.fuelOut, d1.app dl, fun st => by rw [hunf, h1' st]⟩

/-- the known-finding mark of a failing deferred value -/
def kfMark (t : GType) (p : Path) (st : St) : St :=
  { st with kfThunk := if t.isNonNull then p :: st.kfThunk else st.kfThunk }

theorem kfMark_app (t : GType) (p : Path) (d st : St) : kfMark t p (d.app st) = (kfMark t p d).app st := by
  unfold kfMark St.app
  cases t.isNonNull <;> simp

theorem stP_complete (c : Ctx) (fuel : Nat) (ih : StP c fuel) :
    ∀ dfr t rt fname nodes p v, ∃ r d, ∀ st,
    complete c (fuel + 1) dfr t rt fname nodes p v st = (r, St.app d st) := by
  intro dfr t rt fname nodes p v
  -- a failure recorded right here
  have hhere : ∃ r d, ∀ st : St, ((Res.fail : Res JVal), addErr st p dfr) = (r, St.app d st) :=
    ⟨.fail, addErr St.empty p dfr, fun st => by rw [← addErr_app, St.empty_app]⟩
  have hgroups : ∀ ot, ∃ r d, ∀ st : St,
      (match execGroups c fuel dfr ot v p (collectMerged c ot nodes) [] st with
        | (.ok fs, st) => ((Res.ok (JVal.obj fs) : Res JVal), st)
        | (.fail, st) => (.fail, st)
        | (.fuelOut, st) => (.fuelOut, st)) = (r, St.app d st) := by
    intro ot
    obtain ⟨r1, d1, h1⟩ := ih.groups dfr ot v p (collectMerged c ot nodes) []
    cases r1 with
    | ok fs => exact ⟨.ok (.obj fs), d1, fun st => by rw [h1]⟩
    | fail => exact ⟨.fail, d1, fun st => by rw [h1]⟩
    | fuelOut => exact ⟨.fuelOut, d1, fun st => by rw [h1]⟩
  cases hnf : v.notFunc with
  | false =>
    have hbad : ∃ r d, ∀ st : St, ((Res.fail : Res JVal), kfMark t p (addErr st p true)) = (r, St.app d st) :=
      ⟨.fail, kfMark t p (addErr St.empty p true), fun st => by rw [← kfMark_app, ← addErr_app, St.empty_app]⟩
    cases v with
    | thunk tr =>
      cases tr with
      | err =>
        obtain ⟨r, d, h⟩ := hbad
        exact ⟨r, d, fun st => by rw [← h st]; simp only [complete]; rfl⟩
      | ok v' =>
        obtain ⟨r1, d1, h1⟩ := ih.complete true t rt fname nodes p v'
        cases r1 with
        | ok j => exact ⟨.ok j, d1, fun st => by simp only [complete, h1 st]⟩
        | fail =>
          refine ⟨.fail, kfMark t p d1, fun st => ?_⟩
          simp only [complete, h1 st]
          rw [← kfMark_app]; rfl
        | fuelOut => exact ⟨.fuelOut, d1, fun st => by simp only [complete, h1 st]⟩
    | badFunc =>
      obtain ⟨r, d, h⟩ := hbad
      exact ⟨r, d, fun st => by rw [← h st]; simp only [complete]; rfl⟩
    | _ => simp [GoVal.notFunc] at hnf
  | true =>
    suffices h : ∃ r d, ∀ st, completeBody c fuel dfr t rt fname nodes p v st = (r, St.app d st) by
      obtain ⟨r, d, h⟩ := h
      exact ⟨r, d, fun st => by rw [complete_succ_notFunc c _ _ _ _ _ _ _ _ _ hnf]; exact h st⟩
    cases t with
    | nonNull inner =>
      obtain ⟨r1, d1, h1⟩ := ih.complete dfr inner rt fname nodes p v
      cases r1 with
      | ok j =>
        by_cases hj : j = .null
        · subst hj
          refine ⟨.fail, addErr d1 p dfr, fun st => ?_⟩
          simp only [completeBody, h1 st]
          rw [addErr_app]
        · refine ⟨.ok j, d1, fun st => ?_⟩
          simp only [completeBody, h1 st]
          cases j <;> first | exact absurd rfl hj | rfl
      | fail => exact ⟨.fail, d1, fun st => by simp only [completeBody, h1 st]⟩
      | fuelOut => exact ⟨.fuelOut, d1, fun st => by simp only [completeBody, h1 st]⟩
    | list item =>
      by_cases hnull : v.nullish = true
      · exact ⟨.ok .null, St.empty, fun st => by simp only [completeBody, hnull, if_true, St.empty_app]⟩
      · cases v with
        | list xs =>
          obtain ⟨r1, d1, h1⟩ := ih.items dfr item rt fname nodes p xs 0 []
          cases r1 with
          | ok js => exact ⟨.ok (.list js), d1, fun st => by
              simp only [completeBody, hnull, Bool.false_eq_true, if_false, h1 st]⟩
          | fail => exact ⟨.fail, d1, fun st => by
              simp only [completeBody, hnull, Bool.false_eq_true, if_false, h1 st]⟩
          | fuelOut => exact ⟨.fuelOut, d1, fun st => by
              simp only [completeBody, hnull, Bool.false_eq_true, if_false, h1 st]⟩
        | _ =>
          obtain ⟨r, d, h⟩ := hhere
          exact ⟨r, d, fun st => by rw [← h st]; simp only [completeBody, hnull, Bool.false_eq_true, if_false]⟩
    | named n =>
      by_cases hnull : v.nullish = true
      · exact ⟨.ok .null, St.empty, fun st => by simp only [completeBody, hnull, if_true, St.empty_app]⟩
      · by_cases hleaf : c.schema.isLeaf n = true
        · cases hs : serializeLeaf c.schema n v with
          | some j => exact ⟨.ok j, St.empty, fun st => by
              simp only [completeBody, hnull, Bool.false_eq_true, if_false, hleaf, if_true, hs, St.empty_app]⟩
          | none =>
            obtain ⟨r, d, h⟩ := hhere
            exact ⟨r, d, fun st => by
              rw [← h st]; simp only [completeBody, hnull, Bool.false_eq_true, if_false, hleaf, if_true, hs]⟩
        · by_cases habs : c.schema.isAbstract n = true
          · cases hrt : runtimeTypeOf c n v with
            | none =>
              obtain ⟨r, d, h⟩ := hhere
              exact ⟨r, d, fun st => by
                rw [← h st]; simp only [completeBody, hnull, Bool.false_eq_true, if_false, hleaf, habs, if_true, hrt]⟩
            | some ot =>
              by_cases hposs : (!(c.schema.isObject ot && c.schema.isPossibleType n ot)) = true
              · obtain ⟨r, d, h⟩ := hhere
                exact ⟨r, d, fun st => by
                  rw [← h st]
                  simp only [completeBody, hnull, Bool.false_eq_true, if_false, hleaf, habs, if_true, hrt, hposs]⟩
              · obtain ⟨r, d, h⟩ := hgroups ot
                exact ⟨r, d, fun st => by
                  rw [← h st]
                  simp only [completeBody, hnull, Bool.false_eq_true, if_false, hleaf, habs, if_true, hrt, hposs]
                  rfl⟩
          · by_cases hobj : c.schema.isObject n = true
            · by_cases hito : (objectHasIsTypeOf c.schema n && !c.world.isTypeOfAns n v) = true
              · obtain ⟨r, d, h⟩ := hhere
                exact ⟨r, d, fun st => by
                  rw [← h st]
                  simp only [completeBody, hnull, Bool.false_eq_true, if_false, hleaf, habs, hobj, if_true, hito]⟩
              · obtain ⟨r, d, h⟩ := hgroups n
                exact ⟨r, d, fun st => by
                  rw [← h st]
                  simp only [completeBody, hnull, Bool.false_eq_true, if_false, hleaf, habs, hobj, if_true, hito]
                  rfl⟩
            · obtain ⟨r, d, h⟩ := hhere
              exact ⟨r, d, fun st => by
                rw [← h st]; simp only [completeBody, hnull, Bool.false_eq_true, if_false, hleaf, habs, hobj]⟩

theorem stP (c : Ctx) : ∀ fuel, StP c fuel
  | 0 => stP_zero c
  | fuel + 1 =>
    have ih := stP c fuel
    ⟨stP_groups c fuel ih, stP_field c fuel ih, stP_complete c fuel ih, stP_items c fuel ih⟩

/-- what `execField` returns does not depend on the state it is given -/
theorem execField_result_state_independent (c : Ctx) (fuel : Nat) (dfr : Bool) (rt : String) (src : GoVal) (p : Path)
    (fd : FieldDefS) (nodes : List FieldNode) (st st0 : St) :
    (execField c fuel dfr rt src p fd nodes st).1 = (execField c fuel dfr rt src p fd nodes st0).1 := by
  obtain ⟨r, d, h⟩ := (stP c fuel).field dfr rt src p fd nodes
  rw [h st, h st0]

/-- the value a successful selection set holds for a field is the value that field's execution yields ON ITS OWN, from
any state whatsoever — independent of what its siblings did, failed at, or recorded -/
theorem execGroups_field_values (c : Ctx) : ∀ fuel dfr rt src path groups acc st fs st',
    execGroups c fuel dfr rt src path groups acc st = (.ok fs, st') →
    ∀ k nodes node fd, (k, nodes) ∈ groups → nodes.head? = some node → fieldDef? c.schema rt node.name = some fd →
      ∃ v, (k, v) ∈ fs ∧ ∀ st0, (execField c fuel dfr rt src (path ++ [.key k]) fd nodes st0).1 = .ok v
  | 0, dfr, rt, src, path, groups, acc, st, fs, st', h => by simp [execGroups] at h
  | fuel + 1, dfr, rt, src, path, [], acc, st, fs, st', h => by intro k nodes node fd hm; cases hm
  | fuel + 1, dfr, rt, src, path, (key, nodes0) :: rest, acc, st, fs, st', h => by
    simp only [execGroups] at h
    -- lifting a statement about the recursive call (fuel) to this call (fuel + 1)
    have hlift : ∀ acc1 st1, execGroups c fuel dfr rt src path rest acc1 st1 = (.ok fs, st') →
        ∀ k nodes node fd, (k, nodes) ∈ rest → nodes.head? = some node → fieldDef? c.schema rt node.name = some fd →
          ∃ v, (k, v) ∈ fs ∧ ∀ st0, (execField c (fuel + 1) dfr rt src (path ++ [.key k]) fd nodes st0).1 = .ok v := by
      intro acc1 st1 h1 k nodes node fd hm hnode hfd
      obtain ⟨v, hv, hall⟩ := execGroups_field_values c fuel _ _ _ _ _ _ _ _ _ h1 k nodes node fd hm hnode hfd
      refine ⟨v, hv, fun st0 => ?_⟩
      rcases hf : execField c fuel dfr rt src (path ++ [.key k]) fd nodes st0 with ⟨r1, st2⟩
      have := hall st0
      rw [hf] at this
      simp only at this
      subst this
      rw [(fuelP c fuel).field _ _ _ _ _ _ _ _ _ hf (by simp)]
    intro k nodes node fd hm hnode hfd
    split at h
    · rename_i hh
      rcases List.mem_cons.mp hm with hm | hm
      · cases hm; rw [hh] at hnode; cases hnode
      · exact hlift _ _ h k nodes node fd hm hnode hfd
    · rename_i node0 hh
      split at h
      · rename_i hfd0
        rcases List.mem_cons.mp hm with hm | hm
        · cases hm; rw [hh] at hnode; cases hnode; rw [hfd0] at hfd; cases hfd
        · exact hlift _ _ h k nodes node fd hm hnode hfd
      · rename_i fd0 hfd0
        rcases hf : execField c fuel dfr rt src (path ++ [.key key]) fd0 nodes0 st with ⟨r1, st1⟩
        rw [hf] at h
        cases r1 with
        | ok v0 =>
          simp only at h
          rcases List.mem_cons.mp hm with hm | hm
          · cases hm
            rw [hh] at hnode; cases hnode
            rw [hfd0] at hfd; cases hfd
            obtain ⟨_, -, -, hok⟩ := (errP c fuel).groups _ _ _ _ _ _ _ _ _ h
            obtain ⟨⟨more, hmore⟩, -⟩ := hok fs rfl
            refine ⟨v0, by rw [hmore]; simp, fun st0 => ?_⟩
            rcases hf0 : execField c fuel dfr rt src (path ++ [.key key]) fd nodes0 st0 with ⟨r2, st2⟩
            have := execField_result_state_independent c fuel dfr rt src (path ++ [.key key]) fd nodes0 st st0
            rw [hf, hf0] at this
            simp only at this
            subst this
            rw [(fuelP c fuel).field _ _ _ _ _ _ _ _ _ hf0 (by simp)]
          · exact hlift _ _ h k nodes node fd hm hnode hfd
        | fail => simp at h
        | fuelOut => simp at h

end GqlModel.Exec
