import GqlProofs.ExecFuel
/-! The state (errors, log, known-finding marks) is write-only: what a call of the four functions returns, and what
it appends to the state, does not depend on the state it is given. Hence the value computed for a field is independent
of whatever its siblings recorded (C04: a failure in one field does not alter the value of a sibling). -/
namespace GqlModel.Exec

/-- `d.app st`: the state `st` after the additions `d` -/
def St.app (d st : St) : St := ⟨d.errs ++ st.errs, d.log ++ st.log, d.kfThunk ++ st.kfThunk⟩

theorem St.empty_app (st : St) : St.empty.app st = st := by cases st; rfl
theorem St.app_assoc (a b st : St) : a.app (b.app st) = (a.app b).app st := by
  simp [St.app, List.append_assoc]
theorem addErr_app (d st : St) (p : Path) (b : Bool) : addErr (d.app st) p b = (addErr d p b).app st := by
  simp [addErr, St.app]

structure StP (c : Ctx) (fuel : Nat) : Prop where
  groups : ∀ dfr rt src path groups acc, ∃ r d, ∀ st,
    execGroups c fuel dfr rt src path groups acc st = (r, St.app d st)
  field : ∀ dfr rt src p fd nodes, ∃ r d, ∀ st,
    execField c fuel dfr rt src p fd nodes st = (r, St.app d st)
  complete : ∀ dfr t rt fname nodes p v, ∃ r d, ∀ st,
    complete c fuel dfr t rt fname nodes p v st = (r, St.app d st)
  items : ∀ dfr item rt fname nodes p xs i acc, ∃ r d, ∀ st,
    completeItems c fuel dfr item rt fname nodes p xs i acc st = (r, St.app d st)

theorem stP_zero (c : Ctx) : StP c 0 := by
  refine ⟨?_, ?_, ?_, ?_⟩
  · intro dfr rt src path groups acc
    exact ⟨.fuelOut, St.empty, fun st => by simp [execGroups, St.empty_app]⟩
  · intro dfr rt src p fd nodes
    exact ⟨.fuelOut, St.empty, fun st => by simp [execField, St.empty_app]⟩
  · intro dfr t rt fname nodes p v
    exact ⟨.fuelOut, St.empty, fun st => by simp [complete, St.empty_app]⟩
  · intro dfr item rt fname nodes p xs i acc
    exact ⟨.fuelOut, St.empty, fun st => by simp [completeItems, St.empty_app]⟩

theorem stP_groups (c : Ctx) (fuel : Nat) (ih : StP c fuel) :
    ∀ dfr rt src path groups acc, ∃ r d, ∀ st,
    execGroups c (fuel + 1) dfr rt src path groups acc st = (r, St.app d st) := by
  intro dfr rt src path groups acc
  cases groups with
  | nil => exact ⟨.ok acc, St.empty, fun st => by simp [execGroups, St.empty_app]⟩
  | cons g rest =>
    obtain ⟨key, nodes⟩ := g
    cases hh : nodes.head? with
    | none =>
      obtain ⟨r, d, h⟩ := ih.groups dfr rt src path rest acc
      exact ⟨r, d, fun st => by simp only [execGroups, hh]; exact h st⟩
    | some node =>
      cases hfd : fieldDef? c.schema rt node.name with
      | none =>
        obtain ⟨r, d, h⟩ := ih.groups dfr rt src path rest acc
        exact ⟨r, d, fun st => by simp only [execGroups, hh, hfd]; exact h st⟩
      | some fd =>
        obtain ⟨r1, d1, h1⟩ := ih.field dfr rt src (path ++ [.key key]) fd nodes
        cases r1 with
        | ok v =>
          obtain ⟨r2, d2, h2⟩ := ih.groups dfr rt src path rest (acc ++ [(key, v)])
          refine ⟨r2, d2.app d1, fun st => ?_⟩
          simp only [execGroups, hh, hfd, h1 st, h2, St.app_assoc]
        | fail => exact ⟨.fail, d1, fun st => by simp only [execGroups, hh, hfd, h1 st]⟩
        | fuelOut => exact ⟨.fuelOut, d1, fun st => by simp only [execGroups, hh, hfd, h1 st]⟩

theorem stP_items (c : Ctx) (fuel : Nat) (ih : StP c fuel) :
    ∀ dfr item rt fname nodes p xs i acc, ∃ r d, ∀ st,
    completeItems c (fuel + 1) dfr item rt fname nodes p xs i acc st = (r, St.app d st) := by
  intro dfr item rt fname nodes p xs i acc
  cases xs with
  | nil => exact ⟨.ok acc, St.empty, fun st => by simp [completeItems, St.empty_app]⟩
  | cons x xs =>
    obtain ⟨r1, d1, h1⟩ := ih.complete dfr item rt fname nodes (p ++ [.idx i]) x
    cases r1 with
    | ok j =>
      obtain ⟨r2, d2, h2⟩ := ih.items dfr item rt fname nodes p xs (i + 1) (acc ++ [j])
      exact ⟨r2, d2.app d1, fun st => by simp only [completeItems, h1 st, h2, St.app_assoc]⟩
    | fail =>
      by_cases hnn : item.isNonNull = true
      · exact ⟨.fail, d1, fun st => by simp only [completeItems, h1 st, hnn, if_true]⟩
      · obtain ⟨r2, d2, h2⟩ := ih.items dfr item rt fname nodes p xs (i + 1) (acc ++ [.null])
        exact ⟨r2, d2.app d1, fun st => by
          simp only [completeItems, h1 st, hnn, Bool.false_eq_true, if_false, h2, St.app_assoc]⟩
    | fuelOut => exact ⟨.fuelOut, d1, fun st => by simp only [completeItems, h1 st]⟩

theorem stP_field (c : Ctx) (fuel : Nat) (ih : StP c fuel) :
    ∀ dfr rt src p fd nodes, ∃ r d, ∀ st,
    execField c (fuel + 1) dfr rt src p fd nodes st = (r, St.app d st) := by
  intro dfr rt src p fd nodes
  by_cases hn : (fd.name == "__typename") = true
  · exact ⟨.ok (.str rt), St.empty, fun st => by simp only [execField, hn, if_true, St.empty_app]⟩
  · -- the state after logging the invocation
    let ent : LogEntry := LogEntry.mk p rt fd.name
      (match nodes.head? with
        | some n => Coerce.getArgumentValues c.schema fd.args n.args c.vars
        | none => []) src nodes.length dfr
    let dl : St := ⟨[], [ent], []⟩
    have hlog : ∀ st : St, ({ st with log := ent :: st.log } : St) = dl.app st := fun st => by cases st; rfl
    cases hout : c.world.outcome src fd.name with
    | fail =>
      by_cases hnn : fd.type.isNonNull = true
      · refine ⟨.fail, addErr dl p dfr, fun st => ?_⟩
        simp only [execField, hn, Bool.false_eq_true, if_false, hout, hnn, if_true]
        rw [← addErr_app, ← hlog]
      · refine ⟨.ok .null, addErr dl p dfr, fun st => ?_⟩
        simp only [execField, hn, Bool.false_eq_true, if_false, hout, hnn]
        rw [← addErr_app, ← hlog]
    | value v =>
      obtain ⟨r1, d1, h1⟩ := ih.complete dfr fd.type rt fd.name nodes p v
      have h1' : ∀ st : St, complete c fuel dfr fd.type rt fd.name nodes p v { st with log := ent :: st.log }
          = (r1, (d1.app dl).app st) := fun st => by rw [hlog, h1, St.app_assoc]
      cases r1 with
      | ok j =>
        exact ⟨.ok j, d1.app dl, fun st => by
          simp only [execField, hn, Bool.false_eq_true, if_false, hout]; rw [h1' st]⟩
      | fail =>
        by_cases hnn : fd.type.isNonNull = true
        · exact ⟨.fail, d1.app dl, fun st => by
            simp only [execField, hn, Bool.false_eq_true, if_false, hout]; rw [h1' st]; simp only [hnn, if_true]⟩
        · exact ⟨.ok .null, d1.app dl, fun st => by
            simp only [execField, hn, Bool.false_eq_true, if_false, hout]; rw [h1' st]
            simp only [hnn, Bool.false_eq_true, if_false]⟩
      | fuelOut =>
        exact ⟨.fuelOut, d1.app dl, fun st => by
          simp only [execField, hn, Bool.false_eq_true, if_false, hout]; rw [h1' st]⟩

end GqlModel.Exec
