import GqlProofs.ParserLoc
import GqlModel.DescLoc
/-! # The description child of a described node is the node's first token

For every production with `Description?` in front (`GqlModel/Grammar.lean`): if the node has a description, the token
the node starts with is a STRING / BLOCK_STRING token carrying exactly that value, and the node's `loc.start` is that
token's start.  `parser.go` gives the description's `StringValue` the location `[t.start, t.stop)` of that token
(`parseStringLiteral`), which is what `GqlModel.descLoc` computes (`descLoc_eq`). -/
namespace GqlModel.Parser
open GqlModel GqlModel.Grammar

/-- the description of a node derived from position `p` and located at `l` is the node's FIRST token -/
def DescriptionIsFirstToken (p : Pos) (desc : Option String) (l : Loc) : Prop :=
  ∀ s, desc = some s → ∃ t r, p.ts = t :: r ∧ (t.kind = .string ∨ t.kind = .blockString) ∧ t.value = s ∧ l.start = t.start

theorem ddescription_first {p : Pos} {desc : Option String} {p' : Pos} (h : DDescription p desc p') (l : Loc)
    (hl : l.start = p.start) : DescriptionIsFirstToken p desc l := by
  intro s hs
  cases h with
  | none => cases hs
  | string ht =>
    cases ht
    cases hs
    exact ⟨_, _, rfl, Or.inl ‹_›, rfl, hl⟩
  | blockString ht =>
    cases ht
    cases hs
    exact ⟨_, _, rfl, Or.inr ‹_›, rfl, hl⟩

theorem dinputValueDef_desc {p : Pos} {d : InputValueDef} {p' : Pos} (h : DInputValueDef p d p') :
    DescriptionIsFirstToken p d.description d.loc := by
  cases h with | mk hde => exact ddescription_first hde _ rfl

theorem dfieldDef_desc {p : Pos} {d : FieldDef} {p' : Pos} (h : DFieldDef p d p') :
    DescriptionIsFirstToken p d.description d.loc := by
  cases h with | mk hde => exact ddescription_first hde _ rfl

theorem denumValueDef_desc {p : Pos} {d : EnumValueDef} {p' : Pos} (h : DEnumValueDef p d p') :
    DescriptionIsFirstToken p d.description d.loc := by
  cases h with | mk hde => exact ddescription_first hde _ rfl

theorem dobjectDef_desc {p : Pos} {d : ObjectDef} {p' : Pos} (h : DObjectDef p d p') :
    DescriptionIsFirstToken p d.description d.loc := by
  cases h with | mk hde => exact ddescription_first hde _ rfl

theorem ddefinition_desc {p : Pos} {d : Definition} {p' : Pos} (h : DDefinition p d p') :
    DescriptionIsFirstToken p d.ownDescription d.loc := by
  cases h with
  | scalar hde => exact ddescription_first hde _ rfl
  | interface hde => exact ddescription_first hde _ rfl
  | union hde => exact ddescription_first hde _ rfl
  | enum hde => exact ddescription_first hde _ rfl
  | inputObject hde => exact ddescription_first hde _ rfl
  | directive hde => exact ddescription_first hde _ rfl
  | object ho => exact dobjectDef_desc ho
  | query => intro s hs; cases hs
  | operation => intro s hs; cases hs
  | fragment => intro s hs; cases hs
  | schema => intro s hs; cases hs
  | extend => intro s hs; cases hs

/-- looking the node's start offset up in the whole token list finds the description token, provided no EARLIER token
starts at the same offset (true of every lexer output: start offsets increase) -/
theorem tokenExtentAt_first (pre : List Token) (t : Token) (r : List Token) (hd : ∀ u ∈ pre, u.start ≠ t.start) :
    tokenExtentAt (pre ++ t :: r) t.start = some ⟨t.start, t.stop⟩ := by
  unfold tokenExtentAt
  induction pre with
  | nil => simp
  | cons u us ih =>
    have hu : u.start ≠ t.start := hd u (by simp)
    simp only [List.cons_append, List.find?_cons, hu, decide_false]
    exact ih (fun v hv => hd v (by simp [hv]))

/-- `descLoc` returns the extent of the description token -/
theorem descLoc_eq {p : Pos} {desc : Option String} {l : Loc} (h : DescriptionIsFirstToken p desc l)
    (pre : List Token) (hd : ∀ u ∈ pre, u.start ≠ l.start) (s : String) (hs : desc = some s) :
    ∃ t r, p.ts = t :: r ∧ (t.kind = .string ∨ t.kind = .blockString) ∧ t.value = s ∧
      descLoc (pre ++ p.ts) desc l = [some ⟨t.start, t.stop⟩] := by
  obtain ⟨t, r, hp, hk, hv, hst⟩ := h s hs
  refine ⟨t, r, hp, hk, hv, ?_⟩
  subst hs
  simp only [descLoc, hp, hst]
  rw [tokenExtentAt_first pre t r (by rw [← hst]; exact hd)]

/-- `scalar Date "the doc" type T { "field doc" a: Int }` with its EOF token -/
def descSample : List Token :=
  [⟨.name, 0, 6, "scalar"⟩, ⟨.name, 7, 11, "Date"⟩, ⟨.string, 12, 21, "the doc"⟩, ⟨.name, 22, 26, "type"⟩, ⟨.name, 27, 28, "T"⟩,
   ⟨.braceL, 29, 30, ""⟩, ⟨.string, 31, 42, "field doc"⟩, ⟨.name, 43, 44, "a"⟩, ⟨.colon, 44, 45, ""⟩, ⟨.name, 46, 49, "Int"⟩,
   ⟨.braceR, 50, 51, ""⟩, ⟨.eof, 51, 51, ""⟩]

end GqlModel.Parser
