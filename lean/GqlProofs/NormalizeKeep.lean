import GqlProofs.Normalize

/-!
# C06 — what the normaliser leaves alone for validation's sake (D-06m, D-06n)

`normalized_transparent` is about EXECUTION. Validation runs on the rewritten document, so a rewriting that is
transparent for execution can still change what validation says. Two rules look at literals as written:

* UniqueInputFieldNames — an object literal naming a field twice must stay in the document (D-06m):
  `tryExtract_dup` — such a literal is never extracted.
* OverlappingFieldsCanBeMerged — compares the argument lists of fields with one response key AS WRITTEN, also across the
  operation and the fragment definitions it spreads; fragment definitions are not rewritten, so an operation field whose
  response key occurs on a field inside ANY fragment definition keeps its argument list (D-06n):
  `normSel_kept` … — the (response key, argument list) pairs of the fields whose key is in `keep` are the same before
  and after the walk, in the same order; `fragKeys_mem` — `fragKeys doc` contains the key of every field of every
  fragment definition.
-/

namespace GqlModel.Normalize
open GqlModel

theorem tryExtract_dup (s : Schema) (st : NState) (v : Value) (t : GType) (h : dupFields v = true) :
    tryExtract s st v t = (v, st) := by
  unfold tryExtract
  split
  · rfl
  · simp only [h, if_true]

/-! ## (response key, argument list) of every field, in document order -/

mutual
def selKeyArgs : Selection → List (String × List Argument)
  | .field alias name args _ sel _ => (respKey alias name, args) :: optKeyArgs sel
  | .inline _ _ ss _ => setKeyArgs ss
  | .spread _ _ _ => []
def optKeyArgs : Option SelectionSet → List (String × List Argument)
  | none => []
  | some ss => setKeyArgs ss
def setKeyArgs : SelectionSet → List (String × List Argument)
  | .mk sels _ => listKeyArgs sels
def listKeyArgs : List Selection → List (String × List Argument)
  | [] => []
  | x :: xs => selKeyArgs x ++ listKeyArgs xs
end

mutual
theorem selKeyArgs_keys : ∀ x : Selection, (selKeyArgs x).map (·.1) = selKeys x
  | .field _ _ _ _ sel _ => by simp only [selKeyArgs, selKeys, List.map_cons, optKeyArgs_keys sel]
  | .inline _ _ ss _ => by simp only [selKeyArgs, selKeys, setKeyArgs_keys ss]
  | .spread _ _ _ => rfl
theorem optKeyArgs_keys : ∀ x : Option SelectionSet, (optKeyArgs x).map (·.1) = optKeys x
  | none => rfl
  | some ss => by simp only [optKeyArgs, optKeys, setKeyArgs_keys ss]
theorem setKeyArgs_keys : ∀ x : SelectionSet, (setKeyArgs x).map (·.1) = setKeys x
  | .mk sels _ => by simp only [setKeyArgs, setKeys, listKeyArgs_keys sels]
theorem listKeyArgs_keys : ∀ xs : List Selection, (listKeyArgs xs).map (·.1) = listKeys xs
  | [] => rfl
  | x :: xs => by simp only [listKeyArgs, listKeys, List.map_append, selKeyArgs_keys x, listKeyArgs_keys xs]
end

/-- the pairs whose key is in `keep` -/
def keptOf (keep : List String) (l : List (String × List Argument)) : List (String × List Argument) :=
  l.filter (fun p => keep.contains p.1)

theorem keptOf_append (keep : List String) (a b : List (String × List Argument)) :
    keptOf keep (a ++ b) = keptOf keep a ++ keptOf keep b := by simp only [keptOf, List.filter_append]

mutual
/-- fields whose response key is in `keep` have the same argument lists before and after the walk -/
theorem normSel_kept (s : Schema) (keep : List String) : ∀ (x : Selection) (P : String) (st : NState),
    keptOf keep (selKeyArgs (normSel s keep P x st).1) = keptOf keep (selKeyArgs x)
  | .field al nm args dirs sel loc, P, st => by
    cases hfd : fieldDefN s P nm.value with
    | none => simp only [normSel, hfd]
    | some fd =>
      have hhead : ∀ (st' : NState),
          keptOf keep [(respKey al nm, (normArgs s (argDefsFor keep (respKey al nm) fd) args st').1)] =
            keptOf keep [(respKey al nm, args)] := by
        intro st'
        rcases argDefsFor_cases keep (respKey al nm) fd with ⟨_, hD⟩ | ⟨hk, _⟩
        · rw [hD, normArgs_nil]
        · simp only [keptOf, List.filter_cons, hk, Bool.false_eq_true, if_false, List.filter_nil]
      by_cases ho : s.isObject fd.type.namedName = true
      · simp only [normSel, hfd, ho, if_true, selKeyArgs]
        rw [← List.singleton_append, keptOf_append, hhead, normOpt_kept s keep sel fd.type.namedName _,
          ← keptOf_append, List.singleton_append]
      · simp only [normSel, hfd, ho, Bool.false_eq_true, if_false, selKeyArgs]
        rw [← List.singleton_append, keptOf_append, hhead, ← keptOf_append, List.singleton_append]
  | .inline tc dirs ss loc, P, st => by
    simp only [normSel, selKeyArgs]; exact normSet_kept s keep ss _ st
  | .spread n d l, P, st => by simp only [normSel]
theorem normOpt_kept (s : Schema) (keep : List String) : ∀ (x : Option SelectionSet) (P : String) (st : NState),
    keptOf keep (optKeyArgs (normOpt s keep P x st).1) = keptOf keep (optKeyArgs x)
  | none, P, st => by simp only [normOpt]
  | some ss, P, st => by simp only [normOpt, optKeyArgs]; exact normSet_kept s keep ss P st
theorem normSet_kept (s : Schema) (keep : List String) : ∀ (x : SelectionSet) (P : String) (st : NState),
    keptOf keep (setKeyArgs (normSet s keep P x st).1) = keptOf keep (setKeyArgs x)
  | .mk sels loc, P, st => by simp only [normSet, setKeyArgs]; exact normList_kept s keep sels P st
theorem normList_kept (s : Schema) (keep : List String) : ∀ (xs : List Selection) (P : String) (st : NState),
    keptOf keep (listKeyArgs (normList s keep P xs st).1) = keptOf keep (listKeyArgs xs)
  | [], P, st => by simp only [normList]
  | x :: xs, P, st => by
    simp only [normList, listKeyArgs, keptOf_append]
    rw [normSel_kept s keep x P st, normList_kept s keep xs P _]
end

/-- `fragKeys doc` holds the response key of every field inside every fragment definition -/
theorem fragKeys_mem (doc : Document) (name : Name) (tc : TypeRef) (dirs : List Directive) (sel : SelectionSet) (loc : Loc)
    (hd : Definition.fragment name tc dirs sel loc ∈ doc.defs) (p : String × List Argument) (hp : p ∈ setKeyArgs sel) :
    (fragKeys doc).contains p.1 = true := by
  rw [List.contains_iff_mem]
  unfold fragKeys
  rw [List.mem_flatMap]
  refine ⟨_, hd, ?_⟩
  simp only [defFragKeys, ← setKeyArgs_keys sel]
  exact List.mem_map.mpr ⟨p, hp, rfl⟩

end GqlModel.Normalize
