import GqlProofs.RoundTripLex3
import GqlProofs.RoundTripQuote
import GqlProofs.RoundTripBlock
import GqlProofs.LexerQuote
/-! # C08 byte level — STRING and BLOCK_STRING tokens of printed text (spec tokeniser) -/
namespace GqlModel.RoundTrip
open GqlModel GqlModel.Lexer GqlModel.Lexer.Spec GqlModel.Printer

/-- **STRING**: the printed form of a string value `cs` (any characters), followed by anything that is not a quote,
is one STRING token whose value is the UTF-8 encoding of `cs` -/
theorem token_string_lit (cs : Chars) (rest : List UInt8) (hr : rest.head? ≠ some 34) :
    token (utf8 (quoteC cs) ++ rest) = .ok (.string, (utf8 (quoteC cs)).length, utf8 cs) := by
  rw [utf8_quoteC]
  have e : Lexer.quoteString (utf8 cs) ++ rest = 34 :: (quoteBody (utf8 cs) ++ 34 :: rest) := by
    simp [Lexer.quoteString]
  rw [e]
  have hnb : ¬ ((quoteBody (utf8 cs) ++ 34 :: rest).head? = some 34 ∧
      ((quoteBody (utf8 cs) ++ 34 :: rest).drop 1).head? = some 34) := by
    match hs : utf8 cs with
    | [] => simpa [quoteBody] using hr
    | b :: bs =>
      obtain ⟨x, xs, hx, hne⟩ := quoteByte_head b
      simp [quoteBody, hx, hne]
  rw [token_quote, if_neg hnb, stringBody_quoteBody]
  simp [Lexer.quoteString]

/-- **BLOCK_STRING**: a block-safe description `t` printed in block form under `j` enclosing `indent`s is one
BLOCK_STRING token whose value is the UTF-8 encoding of `t`, whatever follows -/
theorem token_block_lit (j : Nat) (t : Chars) (rest : List UInt8) (h : descBlockSafeC t = true) :
    token (utf8 (indentIter j (descText t)) ++ rest) =
      .ok (.blockString, (utf8 (indentIter j (descText t))).length, utf8 t) := by
  have hs : Block.blockSafeB (utf8 t) = true := by rw [blockSafe_utf8]; exact h
  rw [utf8_descText]
  have e : Block.blockText (2 * j) (utf8 t) ++ rest =
      34 :: (34 :: 34 :: (Block.blockRaw (2 * j) (utf8 t) ++ 34 :: 34 :: 34 :: rest)) := by
    simp [Block.blockText]
  rw [e, token_quote]
  simp only [List.head?_cons, List.drop_succ_cons, List.drop_zero, and_self, if_true]
  rw [Block.blockBody_blockRaw _ _ _ hs]
  simp only
  rw [Block.blockStringValue_blockRaw _ _ hs]
  simp [Block.blockText]

end GqlModel.RoundTrip
