import GqlProofs.PlanCollect
import GqlProofs.PlanTree
import GqlProofs.ExecFuel
/-! # Phase one of M (memo-free instance) against the algorithm S, on worlds without func values

With no func value anywhere in the world the algorithm never forces anything and M never wraps anything: the four functions
`mGroups / mField / mComplete / mItems` (instance `recompute`) and `execGroups / execField / complete / completeItems` produce the same
results, the same error list and the same invocation log WITH THE SAME FUEL, provided the planned field lists stand for the
algorithm's groups (`FpOK`, from `GqlProofs/PlanCollect.lean`). -/
namespace GqlModel.Plan
open GqlModel.Exec GqlModel.Coerce

/-! ## worlds without func values -/

mutual
/-- no `func` value (deferred value or a func of another signature) anywhere inside -/
def funcFree : GoVal → Bool
  | .thunk _ => false
  | .badFunc => false
  | .list xs => funcFreeList xs
  | _ => true
def funcFreeList : List GoVal → Bool
  | [] => true
  | x :: xs => funcFree x && funcFreeList xs
end

def outcomeFuncFree : Outcome → Bool
  | .value v => funcFree v
  | .fail => true

/-- no resolver outcome of the world contains a func value -/
def worldFuncFree (w : World) : Bool :=
  w.objects.all (fun o => o.2.fields.all (fun f => outcomeFuncFree f.2)) && w.rootFields.all (fun f => outcomeFuncFree f.2)

theorem funcFreeList_iff {xs : List GoVal} : funcFreeList xs = true ↔ ∀ x ∈ xs, funcFree x = true := by
  induction xs with
  | nil => simp [funcFreeList]
  | cons x xs ih => simp [funcFreeList, ih]

theorem funcFree_notFunc {v : GoVal} (h : funcFree v = true) : v.notFunc = true := by
  cases v <;> simp [funcFree, GoVal.notFunc] at h ⊢

theorem funcFree_funcOf {v : GoVal} (h : funcFree v = true) : funcOf v = none := by
  cases v <;> simp [funcFree, funcOf] at h ⊢

theorem outcome_funcFree {w : World} (hw : worldFuncFree w = true) (src : GoVal) (f : String) :
    outcomeFuncFree (w.outcome src f) = true := by
  unfold worldFuncFree at hw
  simp only [Bool.and_eq_true, List.all_eq_true] at hw
  have key : ∀ tbl : List (String × Outcome), (∀ e ∈ tbl, outcomeFuncFree e.2 = true) →
      outcomeFuncFree (match tbl.find? (fun (p : String × Outcome) => p.1 == f) with
        | some (_, o) => o
        | none => Outcome.value GoVal.nil) = true := by
    intro tbl htbl
    cases hf : tbl.find? (fun p => p.1 == f) with
    | none => rfl
    | some e => obtain ⟨k, o⟩ := e; exact htbl _ (List.mem_of_find?_eq_some hf)
  unfold World.outcome
  apply key
  intro e he
  cases src with
  | ref id =>
    simp only at he
    cases ho : w.obj? id with
    | none => simp [ho] at he
    | some o =>
      simp only [ho] at he
      unfold World.obj? at ho
      cases hfo : w.objects.find? (fun p => p.1 == id) with
      | none => simp [hfo] at ho
      | some x =>
        simp only [hfo, Option.map_some, Option.some.injEq] at ho
        subst ho
        exact hw.1 x (List.mem_of_find?_eq_some hfo) e he
  | _ => exact hw.2 e he

/-! ## finished values -/

theorem toJ?_leaf (j : JVal) : (PVal.leaf j).toJ? = some j := by simp [PVal.toJ?]

theorem toJ?_null {v : PVal} (h : v.toJ? = some .null) : v = .leaf .null := by
  cases v with
  | leaf j => simp only [PVal.toJ?, Option.some.injEq] at h; rw [h]
  | list xs => simp only [PVal.toJ?] at h; cases hx : PVal.listToJ? xs <;> simp [hx] at h
  | obj fs => simp only [PVal.toJ?] at h; cases hx : PVal.fieldsToJ? fs <;> simp [hx] at h
  | deferred cl => simp [PVal.toJ?] at h

theorem toJ?_list {xs : List PVal} {js : List JVal} (h : PVal.listToJ? xs = some js) : (PVal.list xs).toJ? = some (.list js) := by
  simp [PVal.toJ?, h]

theorem toJ?_obj {fs : List (String × PVal)} {js : List (String × JVal)} (h : PVal.fieldsToJ? fs = some js) :
    (PVal.obj fs).toJ? = some (.obj js) := by
  simp [PVal.toJ?, h]

theorem listToJ?_append {xs : List PVal} {js : List JVal} {v : PVal} {j : JVal} (h : PVal.listToJ? xs = some js)
    (hv : v.toJ? = some j) : PVal.listToJ? (xs ++ [v]) = some (js ++ [j]) := by
  induction xs generalizing js with
  | nil => simp only [PVal.listToJ?, Option.some.injEq] at h; subst h; simp [PVal.listToJ?, hv]
  | cons x xs ih =>
    simp only [PVal.listToJ?] at h
    cases hx : x.toJ? with
    | none => simp [hx] at h
    | some jx =>
      cases hxs : PVal.listToJ? xs with
      | none => simp [hx, hxs] at h
      | some jxs =>
        simp only [hx, hxs, Option.some.injEq] at h
        subst h
        simp [PVal.listToJ?, hx, ih hxs]

theorem fieldsToJ?_append {fs : List (String × PVal)} {js : List (String × JVal)} {k : String} {v : PVal} {j : JVal}
    (h : PVal.fieldsToJ? fs = some js) (hv : v.toJ? = some j) :
    PVal.fieldsToJ? (fs ++ [(k, v)]) = some (js ++ [(k, j)]) := by
  induction fs generalizing js with
  | nil => simp only [PVal.fieldsToJ?, Option.some.injEq] at h; subst h; simp [PVal.fieldsToJ?, hv]
  | cons x xs ih =>
    obtain ⟨kx, x⟩ := x
    simp only [PVal.fieldsToJ?] at h
    cases hx : x.toJ? with
    | none => simp [hx] at h
    | some jx =>
      cases hxs : PVal.fieldsToJ? xs with
      | none => simp [hx, hxs] at h
      | some jxs =>
        simp only [hx, hxs, Option.some.injEq] at h
        subst h
        simp [PVal.fieldsToJ?, hx, ih hxs]

/-! ## the relation between the two runs -/

/-- same errors, same invocations (M additionally logs thunk calls: none here) -/
def SRel (st : St) (mst : MSt) : Prop := mst.errs = st.errs ∧ mst.events = st.log.map Event.call

inductive ResRel {α β : Type} (R : α → β → Prop) : Res α → Res β → Prop
  | ok {a : α} {b : β} : R a b → ResRel R (.ok a) (.ok b)
  | fail : ResRel R .fail .fail
  | fuelOut : ResRel R .fuelOut .fuelOut

def Corr {α β : Type} (R : α → β → Prop) (x : Res α × St) (y : Res β × MSt) : Prop := ResRel R x.1 y.1 ∧ SRel x.2 y.2

theorem SRel.addErr {st : St} {mst : MSt} (h : SRel st mst) (p : Path) (d : Bool) : SRel (addErr st p d) (mst.addErr p d) := by
  unfold SRel Exec.addErr MSt.addErr at *; simp [h.1, h.2]

theorem corr_fuelOut {α β : Type} {R : α → β → Prop} {st : St} {mst : MSt} (h : SRel st mst) :
    Corr R ((.fuelOut : Res α), st) ((.fuelOut : Res β), mst) := ⟨.fuelOut, h⟩
theorem corr_fail {α β : Type} {R : α → β → Prop} {st : St} {mst : MSt} (h : SRel st mst) :
    Corr R ((.fail : Res α), st) ((.fail : Res β), mst) := ⟨.fail, h⟩
theorem corr_ok {α β : Type} {R : α → β → Prop} {st : St} {mst : MSt} (h : SRel st mst) {a : α} {b : β} (hab : R a b) :
    Corr R ((.ok a : Res α), st) ((.ok b : Res β), mst) := ⟨.ok hab, h⟩

section exec
variable (c : Ctx) (pv : Option Vars) (rank : String → Nat)

local notation "alt0" => recompute c.schema c.frags pv

/-- the four phase-one functions against the algorithm's, same fuel -/
structure ExecP (fuel : Nat) : Prop where
  groups : ∀ dfr rt src path sid fps accS acc st mst, (∀ fp ∈ fps, FpOK c.schema rt (NodeOK c pv rank) fp) →
    PVal.fieldsToJ? acc = some accS → SRel st mst →
    Corr (fun fs pfs => PVal.fieldsToJ? pfs = some fs)
      (execGroups c fuel dfr rt src path (groupsOf fps) accS st) (mGroups c alt0 fuel dfr rt src path sid fps acc mst)
  field : ∀ dfr rt src p fid fp fd st mst, FpOK c.schema rt (NodeOK c pv rank) fp → fp.fieldDef = some fd → SRel st mst →
    Corr (fun j v => v.toJ? = some j)
      (execField c fuel dfr rt src p fd fp.fieldNodes st) (mField c alt0 fuel dfr rt src p fid fp fd mst)
  complete : ∀ dfr t rt fname fid fp p v st mst, (∀ x ∈ fp.nodes, NodeOK c pv rank x.1 x.2) → funcFree v = true → SRel st mst →
    Corr (fun j v => v.toJ? = some j)
      (complete c fuel dfr t rt fname fp.fieldNodes p v st) (mComplete c alt0 fuel dfr t rt fid fp p v mst)
  items : ∀ dfr item rt fname fid fp p xs i accS acc st mst, (∀ x ∈ fp.nodes, NodeOK c pv rank x.1 x.2) →
    funcFreeList xs = true → PVal.listToJ? acc = some accS → SRel st mst →
    Corr (fun js vs => PVal.listToJ? vs = some js)
      (completeItems c fuel dfr item rt fname fp.fieldNodes p xs i accS st) (mItems c alt0 fuel dfr item rt fid fp p xs i acc mst)

variable {c pv rank}

theorem execP_zero : ExecP c pv rank 0 := by
  refine ⟨?_, ?_, ?_, ?_⟩
  · intro dfr rt src path sid fps accS acc st mst _ _ h; simp only [execGroups, mGroups]; exact corr_fuelOut h
  · intro dfr rt src p fid fp fd st mst _ _ h; simp only [execField, mField]; exact corr_fuelOut h
  · intro dfr t rt fname fid fp p v st mst _ _ h; simp only [complete, mComplete]; exact corr_fuelOut h
  · intro dfr item rt fname fid fp p xs i accS acc st mst _ _ _ h; simp only [completeItems, mItems]; exact corr_fuelOut h

theorem execP_groups (fuel : Nat) (ih : ExecP c pv rank fuel) :
    ∀ dfr rt src path sid fps accS acc st mst, (∀ fp ∈ fps, FpOK c.schema rt (NodeOK c pv rank) fp) →
    PVal.fieldsToJ? acc = some accS → SRel st mst →
    Corr (fun fs pfs => PVal.fieldsToJ? pfs = some fs)
      (execGroups c (fuel + 1) dfr rt src path (groupsOf fps) accS st) (mGroups c alt0 (fuel + 1) dfr rt src path sid fps acc mst) := by
  intro dfr rt src path sid fps accS acc st mst hok hacc h
  cases fps with
  | nil => simp only [groupsOf, List.map_nil, execGroups, mGroups]; exact corr_ok h hacc
  | cons fp rest =>
    have hfp := hok fp List.mem_cons_self
    have hrest : ∀ fp' ∈ rest, FpOK c.schema rt (NodeOK c pv rank) fp' := fun fp' hm => hok fp' (List.mem_cons_of_mem _ hm)
    obtain ⟨n0, ch0, tl, hnodes, hname, hdef, hargs⟩ := hfp.head
    have hhead : fp.fieldNodes.head? = some n0 := by simp [FieldPlan.fieldNodes, hnodes]
    have hg : groupsOf (fp :: rest) = (fp.key, fp.fieldNodes) :: groupsOf rest := rfl
    rw [hg]
    simp only [execGroups, mGroups, hhead, hfp.pred, Pred.eval, List.all_nil, Bool.not_true, Bool.false_eq_true, if_false]
    rw [← hdef]
    cases hfd : fp.fieldDef with
    | none => exact ih.groups _ _ _ _ _ _ _ _ _ _ hrest hacc h
    | some fd =>
      simp only
      have hf := ih.field dfr rt src (path ++ [.key fp.key]) (sid ++ [(rt, fp.key)]) fp fd st mst hfp hfd h
      generalize hS : execField c fuel dfr rt src (path ++ [.key fp.key]) fd fp.fieldNodes st = xS at hf ⊢
      generalize hM : mField c alt0 fuel dfr rt src (path ++ [.key fp.key]) (sid ++ [(rt, fp.key)]) fp fd mst = xM at hf ⊢
      obtain ⟨rS, stS⟩ := xS
      obtain ⟨rM, stM⟩ := xM
      obtain ⟨hr, hst⟩ := hf
      simp only at hr hst
      cases hr with
      | ok hab => simp only; exact ih.groups _ _ _ _ _ _ _ _ _ _ hrest (fieldsToJ?_append hacc hab) hst
      | fail => exact corr_fail hst
      | fuelOut => exact corr_fuelOut hst

theorem execP_field (hw : worldFuncFree c.world = true) (fuel : Nat) (ih : ExecP c pv rank fuel) :
    ∀ dfr rt src p fid fp fd st mst, FpOK c.schema rt (NodeOK c pv rank) fp → fp.fieldDef = some fd → SRel st mst →
    Corr (fun j v => v.toJ? = some j)
      (execField c (fuel + 1) dfr rt src p fd fp.fieldNodes st) (mField c alt0 (fuel + 1) dfr rt src p fid fp fd mst) := by
  intro dfr rt src p fid fp fd st mst hfp hfd h
  obtain ⟨n0, ch0, tl, hnodes, hname, hdef, hargs⟩ := hfp.head
  have hhead : fp.fieldNodes.head? = some n0 := by simp [FieldPlan.fieldNodes, hnodes]
  have hlen : fp.fieldNodes.length = fp.nodes.length := by simp [FieldPlan.fieldNodes]
  have hargs' : plannedArgs c.schema fp.args c.vars = getArgumentValues c.schema fd.args n0.args c.vars := by
    rw [hargs, ← hdef, hfd]
    exact plannedArgs_eq c.schema fd.args n0.args c.vars
  simp only [execField, mField, hhead, hlen, hargs']
  by_cases hn : (fd.name == "__typename") = true
  · simp only [hn, if_true]; exact corr_ok h (toJ?_leaf _)
  · simp only [hn, Bool.false_eq_true, if_false]
    generalize hle : LogEntry.mk p rt fd.name (getArgumentValues c.schema fd.args n0.args c.vars) src fp.nodes.length dfr = le
    have h' : SRel { st with log := le :: st.log } (mst.logEv (.call le)) := by
      unfold SRel MSt.logEv at *; simp [h.1, h.2]
    have hof := outcome_funcFree hw src fd.name
    cases hout : c.world.outcome src fd.name with
    | fail =>
      simp only
      by_cases hnn : fd.type.isNonNull = true
      · simp only [hnn, if_true]; exact corr_fail (h'.addErr p dfr)
      · simp only [hnn, Bool.false_eq_true, if_false]; exact corr_ok (h'.addErr p dfr) (toJ?_leaf _)
    | value v =>
      simp only
      rw [hout] at hof
      have hc := ih.complete dfr fd.type rt fd.name fid fp p v _ _ hfp.nodes hof h'
      generalize hS : complete c fuel dfr fd.type rt fd.name fp.fieldNodes p v { st with log := le :: st.log } = xS at hc ⊢
      generalize hM : mComplete c alt0 fuel dfr fd.type rt fid fp p v (mst.logEv (.call le)) = xM at hc ⊢
      obtain ⟨rS, stS⟩ := xS
      obtain ⟨rM, stM⟩ := xM
      obtain ⟨hr, hst⟩ := hc
      simp only at hr hst
      cases hr with
      | ok hab => exact corr_ok hst hab
      | fail =>
        simp only
        by_cases hnn : fd.type.isNonNull = true
        · simp only [hnn, if_true]; exact corr_fail hst
        · simp only [hnn, Bool.false_eq_true, if_false]; exact corr_ok hst (toJ?_leaf _)
      | fuelOut => exact corr_fuelOut hst

theorem execP_items (fuel : Nat) (ih : ExecP c pv rank fuel) :
    ∀ dfr item rt fname fid fp p xs i accS acc st mst, (∀ x ∈ fp.nodes, NodeOK c pv rank x.1 x.2) →
    funcFreeList xs = true → PVal.listToJ? acc = some accS → SRel st mst →
    Corr (fun js vs => PVal.listToJ? vs = some js)
      (completeItems c (fuel + 1) dfr item rt fname fp.fieldNodes p xs i accS st)
      (mItems c alt0 (fuel + 1) dfr item rt fid fp p xs i acc mst) := by
  intro dfr item rt fname fid fp p xs i accS acc st mst hn hxs hacc h
  cases xs with
  | nil => simp only [completeItems, mItems]; exact corr_ok h hacc
  | cons x xs =>
    simp only [funcFreeList, Bool.and_eq_true] at hxs
    simp only [completeItems, mItems]
    have hc := ih.complete dfr item rt fname fid fp (p ++ [.idx i]) x st mst hn hxs.1 h
    generalize hS : complete c fuel dfr item rt fname fp.fieldNodes (p ++ [.idx i]) x st = xS at hc ⊢
    generalize hM : mComplete c alt0 fuel dfr item rt fid fp (p ++ [.idx i]) x mst = xM at hc ⊢
    obtain ⟨rS, stS⟩ := xS
    obtain ⟨rM, stM⟩ := xM
    obtain ⟨hr, hst⟩ := hc
    simp only at hr hst
    cases hr with
    | ok hab => simp only; exact ih.items _ _ _ _ _ _ _ _ _ _ _ _ _ hn hxs.2 (listToJ?_append hacc hab) hst
    | fail =>
      simp only
      by_cases hnn : item.isNonNull = true
      · simp only [hnn, if_true]; exact corr_fail hst
      · simp only [hnn, Bool.false_eq_true, if_false]
        exact ih.items _ _ _ _ _ _ _ _ _ _ _ _ _ hn hxs.2 (listToJ?_append hacc (toJ?_leaf _)) hst
    | fuelOut => exact corr_fuelOut hst

theorem execP_complete (hac : Acyclic c.frags rank) (hfr : FragsOK c pv) (fuel : Nat) (ih : ExecP c pv rank fuel) :
    ∀ dfr t rt fname fid fp p v st mst, (∀ x ∈ fp.nodes, NodeOK c pv rank x.1 x.2) → funcFree v = true → SRel st mst →
    Corr (fun j v => v.toJ? = some j)
      (complete c (fuel + 1) dfr t rt fname fp.fieldNodes p v st) (mComplete c alt0 (fuel + 1) dfr t rt fid fp p v mst) := by
  intro dfr t rt fname fid fp p v st mst hn hv h
  rw [complete_succ_notFunc c fuel dfr t rt fname fp.fieldNodes p v st (funcFree_notFunc hv)]
  simp only [mComplete, funcFree_funcOf hv]
  -- the object / abstract tail
  have hgroups : ∀ ot,
      Corr (fun j v => v.toJ? = some j)
        (match execGroups c fuel dfr ot v p (collectMerged c ot fp.fieldNodes) [] st with
          | (.ok fs, st) => ((Res.ok (JVal.obj fs) : Res JVal), st)
          | (.fail, st) => (.fail, st)
          | (.fuelOut, st) => (.fuelOut, st))
        (match mGroups c alt0 fuel dfr ot v p fid (alt0 mst.memo fid fp ot).1 [] { mst with memo := (alt0 mst.memo fid fp ot).2 } with
          | (.ok fs, st) => ((Res.ok (PVal.obj fs) : Res PVal), st)
          | (.fail, st) => (.fail, st)
          | (.fuelOut, st) => (.fuelOut, st)) := by
    intro ot
    obtain ⟨hgo, hfps⟩ := planMerged_sim (rt := ot) hac hfr fp.nodes hn
    have hsub : (alt0 mst.memo fid fp ot).1 = planMerged c.schema c.frags pv ot fp.nodes := rfl
    have hmst : ({ mst with memo := (alt0 mst.memo fid fp ot).2 } : MSt) = mst := rfl
    rw [hsub, hmst]
    have hg := ih.groups dfr ot v p fid (planMerged c.schema c.frags pv ot fp.nodes) [] [] st mst hfps rfl h
    rw [hgo] at hg
    have hfn : fp.fieldNodes = fp.nodes.map (·.1) := rfl
    rw [hfn]
    generalize hS : execGroups c fuel dfr ot v p (collectMerged c ot (fp.nodes.map (·.1))) [] st = xS at hg ⊢
    generalize hM : mGroups c alt0 fuel dfr ot v p fid (planMerged c.schema c.frags pv ot fp.nodes) [] mst = xM at hg ⊢
    obtain ⟨rS, stS⟩ := xS
    obtain ⟨rM, stM⟩ := xM
    obtain ⟨hr, hst⟩ := hg
    simp only at hr hst
    cases hr with
    | ok hab => exact corr_ok hst (toJ?_obj hab)
    | fail => exact corr_fail hst
    | fuelOut => exact corr_fuelOut hst
  cases t with
  | nonNull inner =>
    simp only [completeBody]
    have hc := ih.complete dfr inner rt fname fid fp p v st mst hn hv h
    generalize hS : complete c fuel dfr inner rt fname fp.fieldNodes p v st = xS at hc ⊢
    generalize hM : mComplete c alt0 fuel dfr inner rt fid fp p v mst = xM at hc ⊢
    obtain ⟨rS, stS⟩ := xS
    obtain ⟨rM, stM⟩ := xM
    obtain ⟨hr, hst⟩ := hc
    simp only at hr hst
    cases hr with
    | @ok j x hab =>
      by_cases hj : j = .null
      · subst hj
        have hx := toJ?_null hab
        subst hx
        simp only
        exact corr_fail (hst.addErr p dfr)
      · have hx : x ≠ .leaf .null := by
          intro hx; subst hx; simp only [PVal.toJ?, Option.some.injEq] at hab; exact hj hab.symm
        split
        · rename_i heq
          simp only [Prod.mk.injEq, Res.ok.injEq] at heq
          exact absurd heq.1 hj
        · split
          · rename_i heq
            simp only [Prod.mk.injEq, Res.ok.injEq] at heq
            exact absurd heq.1 hx
          · exact corr_ok hst hab
    | fail => exact corr_fail hst
    | fuelOut => exact corr_fuelOut hst
  | list item =>
    simp only [completeBody]
    by_cases hnull : v.nullish = true
    · simp only [hnull, if_true]; exact corr_ok h (toJ?_leaf _)
    · simp only [hnull, Bool.false_eq_true, if_false]
      cases v with
      | list xs =>
        simp only [listOf]
        simp only [funcFree] at hv
        have hi := ih.items dfr item rt fname fid fp p xs 0 [] [] st mst hn hv rfl h
        generalize hS : completeItems c fuel dfr item rt fname fp.fieldNodes p xs 0 [] st = xS at hi ⊢
        generalize hM : mItems c alt0 fuel dfr item rt fid fp p xs 0 [] mst = xM at hi ⊢
        obtain ⟨rS, stS⟩ := xS
        obtain ⟨rM, stM⟩ := xM
        obtain ⟨hr, hst⟩ := hi
        simp only at hr hst
        cases hr with
        | ok hab => exact corr_ok hst (toJ?_list hab)
        | fail => exact corr_fail hst
        | fuelOut => exact corr_fuelOut hst
      | _ => simp only [listOf]; exact corr_fail (h.addErr p dfr)
  | named n =>
    simp only [completeBody]
    by_cases hnull : v.nullish = true
    · simp only [hnull, if_true]; exact corr_ok h (toJ?_leaf _)
    · simp only [hnull, Bool.false_eq_true, if_false]
      by_cases hleaf : c.schema.isLeaf n = true
      · simp only [hleaf, if_true]
        cases hs : serializeLeaf c.schema n v with
        | none => simp only; exact corr_fail (h.addErr p dfr)
        | some j => simp only; exact corr_ok h (toJ?_leaf _)
      · simp only [hleaf, Bool.false_eq_true, if_false]
        by_cases habs : c.schema.isAbstract n = true
        · simp only [habs, if_true]
          cases hrt : runtimeTypeOf c n v with
          | none => simp only; exact corr_fail (h.addErr p dfr)
          | some ot =>
            simp only
            by_cases hposs : (!(c.schema.isObject ot && c.schema.isPossibleType n ot)) = true
            · simp only [hposs, if_true]; exact corr_fail (h.addErr p dfr)
            · simp only [hposs, Bool.false_eq_true, if_false]
              exact hgroups ot
        · simp only [habs, Bool.false_eq_true, if_false]
          by_cases hobj : c.schema.isObject n = true
          · simp only [hobj, if_true]
            by_cases hito : (objectHasIsTypeOf c.schema n && !c.world.isTypeOfAns n v) = true
            · simp only [hito, if_true]; exact corr_fail (h.addErr p dfr)
            · simp only [hito, Bool.false_eq_true, if_false]
              exact hgroups n
          · simp only [hobj, Bool.false_eq_true, if_false]; exact corr_fail (h.addErr p dfr)

theorem execP (hw : worldFuncFree c.world = true) (hac : Acyclic c.frags rank) (hfr : FragsOK c pv) :
    ∀ fuel, ExecP c pv rank fuel
  | 0 => execP_zero
  | fuel + 1 =>
    have ih := execP hw hac hfr fuel
    ⟨execP_groups fuel ih, execP_field hw fuel ih, execP_complete hac hfr fuel ih, execP_items fuel ih⟩

end exec

end GqlModel.Plan
