import GqlModel.Cancel
/-! Helper lemmas for C16: the inductive invariant of the caller / executor / channel / context system. -/
namespace GqlModel.Cancel

theorem valOk_mono (rs : List Resolver) (e : CtxErr) (k : Nat) (v : Val)
    (h : valOk rs none k v = true) : valOk rs (some e) k v = true := by
  unfold valOk at *
  cases hr : rs[k]? with
  | none => simp [hr] at h
  | some r => simp [hr] at h ⊢; exact Or.inl h

theorem valsOkFrom_mono (rs : List Resolver) (e : CtxErr) :
    ∀ (k : Nat) (vs : List Val), valsOkFrom rs none k vs = true → valsOkFrom rs (some e) k vs = true
  | _, [], _ => rfl
  | k, v :: vs, h => by
    simp only [valsOkFrom, Bool.and_eq_true] at h ⊢
    exact ⟨valOk_mono rs e k v h.1, valsOkFrom_mono rs e (k + 1) vs h.2⟩

theorem valsOkFrom_append (rs : List Resolver) (ctx : Option CtxErr) :
    ∀ (k : Nat) (vs : List Val) (v : Val),
      valsOkFrom rs ctx k (vs ++ [v]) = (valsOkFrom rs ctx k vs && valOk rs ctx (k + vs.length) v)
  | k, [], v => by simp [valsOkFrom]
  | k, w :: vs, v => by
    simp only [List.cons_append, valsOkFrom, valsOkFrom_append rs ctx (k + 1) vs v, List.length_cons, Bool.and_assoc]
    congr 3; omega

/-- with a live context the only acceptable values are the plain ones -/
theorem valsOkFrom_none (rs : List Resolver) :
    ∀ (k : Nat) (vs : List Val), valsOkFrom rs none k vs = true → vs = ((rs.drop k).take vs.length).map Resolver.plain
  | _, [], _ => by simp
  | k, v :: vs, h => by
    simp only [valsOkFrom, Bool.and_eq_true] at h
    obtain ⟨h1, h2⟩ := h
    have ih := valsOkFrom_none rs (k + 1) vs h2
    unfold valOk at h1
    cases hr : rs[k]? with
    | none => simp [hr] at h1
    | some r =>
      simp [hr] at h1
      have hk : k < rs.length := by
        cases Nat.lt_or_ge k rs.length with
        | inl h => exact h
        | inr h => simp [List.getElem?_eq_none h] at hr
      have hd : rs.drop k = r :: rs.drop (k + 1) := by
        rw [List.drop_eq_getElem_cons hk]; congr 1
        rw [List.getElem?_eq_getElem hk] at hr; exact Option.some.inj hr
      rw [hd]; simp only [List.length_cons, List.take_succ_cons, List.map_cons]
      rw [← ih, h1]

theorem complete_none (rs : List Resolver) (vals : List Val) (h : complete rs none vals = true) :
    vals = rs.map Resolver.plain := by
  simp only [complete, Bool.and_eq_true, beq_iff_eq] at h
  have := valsOkFrom_none rs 0 vals h.2
  rw [h.1] at this
  simpa using this

/-- inductive invariant -/
def Inv (rs : List Resolver) (s : St) : Prop :=
  (match s.exec with
   | .running acc => acc.length ≤ rs.length ∧ valsOkFrom rs s.ctx 0 acc = true ∧ s.chan = [] ∧
       (∀ v, s.caller ≠ .returned (.normal v))
   | .sent => ∃ vals, complete rs s.ctx vals = true ∧
       ((s.chan = [vals] ∧ ∀ v, s.caller ≠ .returned (.normal v)) ∨
        (s.chan = [] ∧ s.caller = .returned (.normal vals)))) ∧
  (∀ e, s.caller = .returned (.ctxError e) → s.ctx = some e)

theorem inv_init (rs : List Resolver) : Inv rs init := by
  refine ⟨⟨Nat.zero_le _, rfl, rfl, ?_⟩, ?_⟩ <;> simp [init]

theorem inv_step (rs : List Resolver) (cap : Nat) {s t : St} (a : Act) (h : Inv rs s)
    (hs : step rs cap s a = some t) : Inv rs t := by
  obtain ⟨exec, chan, ctx, caller⟩ := s
  obtain ⟨h1, h2⟩ := h
  simp only at h1 h2
  cases a with
  | resolverStep k saw =>
    cases exec with
    | sent => simp [step] at hs
    | running acc =>
      obtain ⟨hl, hv, hc, hn⟩ := h1
      simp only [step] at hs
      split at hs
      · simp at hs
      · rename_i hk
        have hk : k = acc.length := Decidable.not_not.mp hk
        subst hk
        cases hr : rs[acc.length]? with
        | none => simp [hr] at hs
        | some r =>
          have hlt : acc.length < rs.length := by
            cases Nat.lt_or_ge acc.length rs.length with
            | inl h => exact h
            | inr h => simp [List.getElem?_eq_none h] at hr
          simp only [hr] at hs
          cases saw with
          | true =>
            cases ctx with
            | none => simp at hs
            | some e =>
              simp only [if_true] at hs
              split at hs
              · rename_i hobs
                injection hs with hs; subst hs
                refine ⟨⟨by simp; omega, ?_, hc, hn⟩, h2⟩
                rw [valsOkFrom_append, hv]
                simp [valOk, hr, hobs]
              · simp at hs
          | false =>
            simp only [Bool.false_eq_true, if_false] at hs
            injection hs with hs; subst hs
            refine ⟨⟨by simp; omega, ?_, hc, hn⟩, h2⟩
            rw [valsOkFrom_append, hv]
            simp [valOk, hr]
  | finish =>
    cases exec with
    | sent => simp [step] at hs
    | running acc =>
      obtain ⟨hl, hv, hc, hn⟩ := h1
      subst hc
      simp only [step] at hs
      split at hs
      · simp at hs
      · rename_i hlen
        have hlen : acc.length = rs.length := Decidable.not_not.mp hlen
        have hcomp : complete rs ctx acc = true := by simp [complete, hlen, hv]
        split at hs
        · injection hs with hs; subst hs
          exact ⟨⟨acc, hcomp, Or.inl ⟨by simp, hn⟩⟩, h2⟩
        · split at hs
          · rename_i hw
            injection hs with hs; subst hs
            refine ⟨⟨acc, hcomp, Or.inr ⟨rfl, rfl⟩⟩, ?_⟩
            intro e he; simp at he
          · simp at hs
  | ctxDone e =>
    cases ctx with
    | some _ => simp [step] at hs
    | none =>
      simp only [step] at hs
      injection hs with hs; subst hs
      refine ⟨?_, ?_⟩
      · cases exec with
        | running acc =>
          obtain ⟨hl, hv, hc, hn⟩ := h1
          exact ⟨hl, valsOkFrom_mono rs e 0 acc hv, hc, hn⟩
        | sent =>
          obtain ⟨vals, hcomp, hrest⟩ := h1
          refine ⟨vals, ?_, hrest⟩
          simp only [complete, Bool.and_eq_true] at hcomp ⊢
          exact ⟨hcomp.1, valsOkFrom_mono rs e 0 vals hcomp.2⟩
      · intro e' he'
        have := h2 e' he'
        simp at this
  | selectCtx =>
    cases caller with
    | returned o => simp [step] at hs
    | waiting =>
      cases ctx with
      | none => simp [step] at hs
      | some e =>
        simp only [step] at hs
        injection hs with hs; subst hs
        refine ⟨?_, ?_⟩
        · cases exec with
          | running acc =>
            obtain ⟨hl, hv, hc, hn⟩ := h1
            exact ⟨hl, hv, hc, by intro v; simp⟩
          | sent =>
            obtain ⟨vals, hcomp, hrest⟩ := h1
            refine ⟨vals, hcomp, ?_⟩
            rcases hrest with ⟨hc, _⟩ | ⟨_, hc⟩
            · exact Or.inl ⟨hc, by intro v; simp⟩
            · simp at hc
        · intro e' he'
          simp at he'; subst he'; rfl
  | selectResult =>
    cases caller with
    | returned o => simp [step] at hs
    | waiting =>
      cases chan with
      | nil => simp [step] at hs
      | cons r rest =>
        simp only [step] at hs
        injection hs with hs; subst hs
        refine ⟨?_, ?_⟩
        · cases exec with
          | running acc =>
            obtain ⟨_, _, hc, _⟩ := h1
            simp at hc
          | sent =>
            obtain ⟨vals, hcomp, hrest⟩ := h1
            rcases hrest with ⟨hc, _⟩ | ⟨hc, _⟩
            · simp at hc
              obtain ⟨rfl, rfl⟩ := hc
              exact ⟨r, hcomp, Or.inr ⟨rfl, rfl⟩⟩
            · simp at hc
        · intro e he; simp at he

theorem inv_run (rs : List Resolver) (cap : Nat) :
    ∀ (acts : List Act) (s t : St), Inv rs s → run rs cap s acts = some t → Inv rs t
  | [], s, t, h, hr => by simp [run] at hr; subst hr; exact h
  | a :: as, s, t, h, hr => by
    simp only [run] at hr
    cases hs : step rs cap s a with
    | none => simp [hs] at hr
    | some u =>
      simp only [hs] at hr
      exact inv_run rs cap as u t (inv_step rs cap a h hs) hr

theorem run_append (rs : List Resolver) (cap : Nat) :
    ∀ (as bs : List Act) (s t : St), run rs cap s as = some t → run rs cap s (as ++ bs) = run rs cap t bs
  | [], bs, s, t, h => by simp [run] at h; subst h; rfl
  | a :: as, bs, s, t, h => by
    simp only [run, List.cons_append] at h ⊢
    cases hs : step rs cap s a with
    | none => simp [hs] at h
    | some u =>
      simp only [hs] at h ⊢
      exact run_append rs cap as bs u t h

/-- the context stays live along a schedule without `ctxDone` -/
theorem ctx_none_run (rs : List Resolver) (cap : Nat) :
    ∀ (acts : List Act) (s t : St), (∀ a ∈ acts, a.isCtxDone = false) → s.ctx = none →
      run rs cap s acts = some t → t.ctx = none
  | [], s, t, _, h, hr => by simp [run] at hr; subst hr; exact h
  | a :: as, s, t, hno, h, hr => by
    simp only [run] at hr
    cases hs : step rs cap s a with
    | none => simp [hs] at hr
    | some u =>
      simp only [hs] at hr
      refine ctx_none_run rs cap as u t (fun b hb => hno b (List.mem_cons_of_mem _ hb)) ?_ hr
      have ha := hno a (List.mem_cons_self ..)
      obtain ⟨exec, chan, ctx, caller⟩ := s
      simp only at h; subst h
      cases a with
      | resolverStep k saw =>
        cases exec <;> simp only [step] at hs
        · split at hs
          · simp at hs
          · split at hs
            · simp at hs
            · cases saw <;> simp at hs; subst hs; rfl
        · simp at hs
      | finish =>
        cases exec <;> simp only [step] at hs
        · split at hs
          · simp at hs
          · split at hs
            · injection hs with hs; subst hs; rfl
            · split at hs
              · injection hs with hs; subst hs; rfl
              · simp at hs
        · simp at hs
      | ctxDone e => simp [Act.isCtxDone] at ha
      | selectCtx => cases caller <;> simp [step] at hs
      | selectResult => cases caller <;> cases chan <;> simp [step] at hs; subst hs; rfl

end GqlModel.Cancel
