import GqlProofs.PlanInv
import GqlProofs.PlanTree
/-! # The memo of lazily planned sub-selections is transparent

M's executor instantiated with `abstractAlternative` (memo) and with `recompute` (no memo) computes the same results, errors and
events from related states, for EVERY schema, document, world and fuel — provided the memo it starts from is `Valid`: every entry
`((fid, rt), sub)` holds the sub-selection planned for `rt` from the field plan AT address `fid`. Validity is preserved. -/
namespace GqlModel.Plan
open GqlModel.Exec GqlModel.Coerce

section memo
variable (c : Ctx) (pv : Option Vars) (rootType : String) (root : List FieldPlan)

/-- every memo entry is what planning it again would give -/
def Valid (m : Memo) : Prop :=
  ∀ e ∈ m, ∃ fp, At c.schema c.frags pv rootType root e.1.1 fp ∧ e.2 = planMerged c.schema c.frags pv e.1.2 fp.nodes

/-- a closure remembers a field plan together with its address -/
def ClOK (cl : Closure) : Prop := At c.schema c.frags pv rootType root cl.fid cl.fp

def StRel (st st0 : MSt) : Prop := st.errs = st0.errs ∧ st.events = st0.events

def Agree {α : Type} (good : α → Prop) (x x0 : Res α × MSt) : Prop :=
  x.1 = x0.1 ∧ StRel x.2 x0.2 ∧ Valid c pv rootType root x.2.memo ∧ ∀ a, x.1 = .ok a → good a

variable {c pv rootType root}

theorem valid_nil : Valid c pv rootType root [] := fun _ h => by cases h

theorem Memo.find?_some {m : Memo} {fid : FpId} {rt : String} {sub : List FieldPlan} (h : m.find? fid rt = some sub) :
    ((fid, rt), sub) ∈ m := by
  unfold Memo.find? at h
  cases hf : List.find? (fun e => e.1.1 == fid && e.1.2 == rt) m with
  | none => simp [hf] at h
  | some e =>
    simp only [hf, Option.map_some, Option.some.injEq] at h
    have hm := List.mem_of_find?_eq_some hf
    have hp := List.find?_some hf
    simp only [Bool.and_eq_true, beq_iff_eq] at hp
    obtain ⟨⟨a, b⟩, d⟩ := e
    simp only at h hp
    obtain ⟨rfl, rfl⟩ := hp
    subst h
    exact hm

/-- **the memo returns what recomputation returns**, and stays valid -/
theorem alt_agree (hr : KeysNodup root) {m : Memo} (hv : Valid c pv rootType root m) {fid : FpId} {fp : FieldPlan}
    (hat : At c.schema c.frags pv rootType root fid fp) (rt : String) :
    (abstractAlternative c.schema c.frags pv m fid fp rt).1 = planMerged c.schema c.frags pv rt fp.nodes ∧
    Valid c pv rootType root (abstractAlternative c.schema c.frags pv m fid fp rt).2 := by
  unfold abstractAlternative
  cases hf : m.find? fid rt with
  | some sub =>
    simp only
    obtain ⟨fp', hat', hsub⟩ := hv _ (Memo.find?_some hf)
    simp only at hat' hsub
    have := At.functional hr hat' hat
    subst this
    exact ⟨hsub, hv⟩
  | none =>
    refine ⟨rfl, ?_⟩
    intro e he
    have he' : e ∈ m ++ [((fid, rt), planMerged c.schema c.frags pv rt fp.nodes)] := he
    rcases List.mem_append.1 he' with he | he
    · exact hv e he
    · simp only [List.mem_singleton] at he
      subst he
      exact ⟨fp, hat, rfl⟩

theorem StRel.addErr {st st0 : MSt} (h : StRel st st0) (p : Path) (d : Bool) : StRel (st.addErr p d) (st0.addErr p d) := by
  unfold StRel MSt.addErr at *; simp [h.1, h.2]

theorem StRel.logEv {st st0 : MSt} (h : StRel st st0) (e : Event) : StRel (st.logEv e) (st0.logEv e) := by
  unfold StRel MSt.logEv at *; simp [h.1, h.2]

theorem StRel.setMemo {st st0 : MSt} (h : StRel st st0) (m m0 : Memo) :
    StRel { st with memo := m } { st0 with memo := m0 } := h

@[simp] theorem memo_addErr (st : MSt) (p : Path) (d : Bool) : (st.addErr p d).memo = st.memo := rfl
@[simp] theorem memo_logEv (st : MSt) (e : Event) : (st.logEv e).memo = st.memo := rfl

local notation "altM" => abstractAlternative c.schema c.frags pv
local notation "alt0" => recompute c.schema c.frags pv
local notation "AtP" => At c.schema c.frags pv rootType root
local notation "OK" => PVal.AllCl (ClOK c pv rootType root)

variable (c pv rootType root)

/-- the four phase-one functions agree (memo vs recomputation) at this fuel -/
structure MemoP (fuel : Nat) : Prop where
  groups : ∀ dfr rt src path sid fps acc st st0, StRel st st0 → Valid c pv rootType root st.memo →
    (∀ fp ∈ fps, AtP (sid ++ [(rt, fp.key)]) fp) → (∀ p ∈ acc, OK p.2) →
    Agree c pv rootType root (fun fs => ∀ p ∈ fs, OK p.2)
      (mGroups c altM fuel dfr rt src path sid fps acc st) (mGroups c alt0 fuel dfr rt src path sid fps acc st0)
  field : ∀ dfr rt src p fid fp fd st st0, StRel st st0 → Valid c pv rootType root st.memo → AtP fid fp →
    Agree c pv rootType root (fun v => OK v)
      (mField c altM fuel dfr rt src p fid fp fd st) (mField c alt0 fuel dfr rt src p fid fp fd st0)
  complete : ∀ dfr t rt fid fp p v st st0, StRel st st0 → Valid c pv rootType root st.memo → AtP fid fp →
    Agree c pv rootType root (fun v => OK v)
      (mComplete c altM fuel dfr t rt fid fp p v st) (mComplete c alt0 fuel dfr t rt fid fp p v st0)
  items : ∀ dfr item rt fid fp p xs i acc st st0, StRel st st0 → Valid c pv rootType root st.memo → AtP fid fp →
    (∀ x ∈ acc, OK x) →
    Agree c pv rootType root (fun ys => ∀ x ∈ ys, OK x)
      (mItems c altM fuel dfr item rt fid fp p xs i acc st) (mItems c alt0 fuel dfr item rt fid fp p xs i acc st0)

variable {c pv rootType root}

theorem agree_fuelOut {α : Type} {good : α → Prop} {st st0 : MSt} (h : StRel st st0) (hv : Valid c pv rootType root st.memo) :
    Agree c pv rootType root good ((.fuelOut : Res α), st) (.fuelOut, st0) :=
  ⟨rfl, h, hv, fun _ h => by cases h⟩

theorem agree_fail {α : Type} {good : α → Prop} {st st0 : MSt} (h : StRel st st0) (hv : Valid c pv rootType root st.memo) :
    Agree c pv rootType root good ((.fail : Res α), st) (.fail, st0) :=
  ⟨rfl, h, hv, fun _ h => by cases h⟩

theorem agree_ok {α : Type} {good : α → Prop} {st st0 : MSt} (h : StRel st st0) (hv : Valid c pv rootType root st.memo)
    {a : α} (ha : good a) : Agree c pv rootType root good ((.ok a : Res α), st) (.ok a, st0) :=
  ⟨rfl, h, hv, fun b hb => by cases hb; exact ha⟩

theorem memoP_zero : MemoP c pv rootType root 0 := by
  refine ⟨?_, ?_, ?_, ?_⟩
  · intro dfr rt src path sid fps acc st st0 h hv _ _; simp only [mGroups]; exact agree_fuelOut h hv
  · intro dfr rt src p fid fp fd st st0 h hv _; simp only [mField]; exact agree_fuelOut h hv
  · intro dfr t rt fid fp p v st st0 h hv _; simp only [mComplete]; exact agree_fuelOut h hv
  · intro dfr item rt fid fp p xs i acc st st0 h hv _ _; simp only [mItems]; exact agree_fuelOut h hv

theorem memoP_groups (fuel : Nat) (ih : MemoP c pv rootType root fuel) :
    ∀ dfr rt src path sid fps acc st st0, StRel st st0 → Valid c pv rootType root st.memo →
    (∀ fp ∈ fps, AtP (sid ++ [(rt, fp.key)]) fp) → (∀ p ∈ acc, OK p.2) →
    Agree c pv rootType root (fun fs => ∀ p ∈ fs, OK p.2)
      (mGroups c altM (fuel + 1) dfr rt src path sid fps acc st) (mGroups c alt0 (fuel + 1) dfr rt src path sid fps acc st0) := by
  intro dfr rt src path sid fps acc st st0 h hv hat hacc
  cases fps with
  | nil => simp only [mGroups]; exact agree_ok h hv hacc
  | cons fp rest =>
    have hrest : ∀ fp' ∈ rest, AtP (sid ++ [(rt, fp'.key)]) fp' := fun fp' hm => hat fp' (List.mem_cons_of_mem _ hm)
    simp only [mGroups]
    by_cases hp : (!(fp.pred.eval c.schema c.vars)) = true
    · simp only [hp, if_true]; exact ih.groups _ _ _ _ _ _ _ _ _ h hv hrest hacc
    · simp only [hp, Bool.false_eq_true, if_false]
      cases hfd : fp.fieldDef with
      | none => exact ih.groups _ _ _ _ _ _ _ _ _ h hv hrest hacc
      | some fd =>
        simp only
        have hf := ih.field dfr rt src (path ++ [.key fp.key]) (sid ++ [(rt, fp.key)]) fp fd st st0 h hv
          (hat fp List.mem_cons_self)
        generalize hM : mField c altM fuel dfr rt src (path ++ [.key fp.key]) (sid ++ [(rt, fp.key)]) fp fd st = xM at hf ⊢
        generalize h0 : mField c alt0 fuel dfr rt src (path ++ [.key fp.key]) (sid ++ [(rt, fp.key)]) fp fd st0 = x0 at hf ⊢
        obtain ⟨r1, st1⟩ := xM
        obtain ⟨r1', st1'⟩ := x0
        obtain ⟨hr, hst, hval, hgood⟩ := hf
        simp only at hr hst hval hgood
        subst hr
        cases r1 with
        | ok v =>
          simp only
          apply ih.groups _ _ _ _ _ _ _ _ _ hst hval hrest
          intro p hp
          rcases List.mem_append.1 hp with hp | hp
          · exact hacc p hp
          · simp only [List.mem_singleton] at hp; subst hp; exact hgood v rfl
        | fail => exact agree_fail hst hval
        | fuelOut => exact agree_fuelOut hst hval

theorem memoP_field (fuel : Nat) (ih : MemoP c pv rootType root fuel) :
    ∀ dfr rt src p fid fp fd st st0, StRel st st0 → Valid c pv rootType root st.memo → AtP fid fp →
    Agree c pv rootType root (fun v => OK v)
      (mField c altM (fuel + 1) dfr rt src p fid fp fd st) (mField c alt0 (fuel + 1) dfr rt src p fid fp fd st0) := by
  intro dfr rt src p fid fp fd st st0 h hv hat
  simp only [mField]
  by_cases hn : (fd.name == "__typename") = true
  · simp only [hn, if_true]; exact agree_ok h hv (allCl_leaf _)
  · simp only [hn, Bool.false_eq_true, if_false]
    generalize hev : Event.call (LogEntry.mk p rt fd.name (plannedArgs c.schema fp.args c.vars) src fp.nodes.length dfr) = ev
    have h' := h.logEv ev
    have hv' : Valid c pv rootType root (st.logEv ev).memo := hv
    cases hout : c.world.outcome src fd.name with
    | fail =>
      simp only
      by_cases hnn : fd.type.isNonNull = true
      · simp only [hnn, if_true]; exact agree_fail (h'.addErr p dfr) hv'
      · simp only [hnn, Bool.false_eq_true, if_false]; exact agree_ok (h'.addErr p dfr) hv' (allCl_leaf _)
    | value v =>
      simp only
      have hc := ih.complete dfr fd.type rt fid fp p v _ _ h' hv' hat
      generalize hM : mComplete c altM fuel dfr fd.type rt fid fp p v (st.logEv ev) = xM at hc ⊢
      generalize h0 : mComplete c alt0 fuel dfr fd.type rt fid fp p v (st0.logEv ev) = x0 at hc ⊢
      obtain ⟨r1, st1⟩ := xM
      obtain ⟨r1', st1'⟩ := x0
      obtain ⟨hr, hst, hval, hgood⟩ := hc
      simp only at hr hst hval hgood
      subst hr
      cases r1 with
      | ok j => exact agree_ok hst hval (hgood j rfl)
      | fail =>
        simp only
        by_cases hnn : fd.type.isNonNull = true
        · simp only [hnn, if_true]; exact agree_fail hst hval
        · simp only [hnn, Bool.false_eq_true, if_false]; exact agree_ok hst hval (allCl_leaf _)
      | fuelOut => exact agree_fuelOut hst hval

theorem memoP_items (fuel : Nat) (ih : MemoP c pv rootType root fuel) :
    ∀ dfr item rt fid fp p xs i acc st st0, StRel st st0 → Valid c pv rootType root st.memo → AtP fid fp →
    (∀ x ∈ acc, OK x) →
    Agree c pv rootType root (fun ys => ∀ x ∈ ys, OK x)
      (mItems c altM (fuel + 1) dfr item rt fid fp p xs i acc st) (mItems c alt0 (fuel + 1) dfr item rt fid fp p xs i acc st0) := by
  intro dfr item rt fid fp p xs i acc st st0 h hv hat hacc
  cases xs with
  | nil => simp only [mItems]; exact agree_ok h hv hacc
  | cons x xs =>
    simp only [mItems]
    have hc := ih.complete dfr item rt fid fp (p ++ [.idx i]) x st st0 h hv hat
    generalize hM : mComplete c altM fuel dfr item rt fid fp (p ++ [.idx i]) x st = xM at hc ⊢
    generalize h0 : mComplete c alt0 fuel dfr item rt fid fp (p ++ [.idx i]) x st0 = x0 at hc ⊢
    obtain ⟨r1, st1⟩ := xM
    obtain ⟨r1', st1'⟩ := x0
    obtain ⟨hr, hst, hval, hgood⟩ := hc
    simp only at hr hst hval hgood
    subst hr
    have happ : ∀ (y : PVal), OK y → ∀ x ∈ acc ++ [y], OK x := by
      intro y hy x hx
      rcases List.mem_append.1 hx with hx | hx
      · exact hacc x hx
      · simp only [List.mem_singleton] at hx; subst hx; exact hy
    cases r1 with
    | ok j => simp only; exact ih.items _ _ _ _ _ _ _ _ _ _ _ hst hval hat (happ j (hgood j rfl))
    | fail =>
      simp only
      by_cases hnn : item.isNonNull = true
      · simp only [hnn, if_true]; exact agree_fail hst hval
      · simp only [hnn, Bool.false_eq_true, if_false]
        exact ih.items _ _ _ _ _ _ _ _ _ _ _ hst hval hat (happ _ (allCl_leaf _))
    | fuelOut => exact agree_fuelOut hst hval

theorem memoP_complete (hr : KeysNodup root) (fuel : Nat) (ih : MemoP c pv rootType root fuel) :
    ∀ dfr t rt fid fp p v st st0, StRel st st0 → Valid c pv rootType root st.memo → AtP fid fp →
    Agree c pv rootType root (fun v => OK v)
      (mComplete c altM (fuel + 1) dfr t rt fid fp p v st) (mComplete c alt0 (fuel + 1) dfr t rt fid fp p v st0) := by
  intro dfr t rt fid fp p v st st0 h hv hat
  -- the object / abstract tail: plan (or look up) the sub-selection, run it
  have hgroups : ∀ ot,
      Agree c pv rootType root (fun v => OK v)
        (match mGroups c altM fuel dfr ot v p fid (altM st.memo fid fp ot).1 [] { st with memo := (altM st.memo fid fp ot).2 } with
          | (.ok fs, st) => ((Res.ok (PVal.obj fs) : Res PVal), st)
          | (.fail, st) => (.fail, st)
          | (.fuelOut, st) => (.fuelOut, st))
        (match mGroups c alt0 fuel dfr ot v p fid (alt0 st0.memo fid fp ot).1 [] { st0 with memo := (alt0 st0.memo fid fp ot).2 } with
          | (.ok fs, st) => ((Res.ok (PVal.obj fs) : Res PVal), st)
          | (.fail, st) => (.fail, st)
          | (.fuelOut, st) => (.fuelOut, st)) := by
    intro ot
    obtain ⟨hsub, hval'⟩ := alt_agree hr hv hat ot
    have hsub0 : (alt0 st0.memo fid fp ot).1 = planMerged c.schema c.frags pv ot fp.nodes := rfl
    rw [hsub, hsub0]
    have hg := ih.groups dfr ot v p fid (planMerged c.schema c.frags pv ot fp.nodes) []
      { st with memo := (altM st.memo fid fp ot).2 } { st0 with memo := (alt0 st0.memo fid fp ot).2 }
      (h.setMemo _ _) hval' (fun fp' hm => .step hat hm) (fun _ hm => by cases hm)
    generalize hM : mGroups c altM fuel dfr ot v p fid (planMerged c.schema c.frags pv ot fp.nodes) []
      { st with memo := (altM st.memo fid fp ot).2 } = xM at hg ⊢
    generalize h0 : mGroups c alt0 fuel dfr ot v p fid (planMerged c.schema c.frags pv ot fp.nodes) []
      { st0 with memo := (alt0 st0.memo fid fp ot).2 } = x0 at hg ⊢
    obtain ⟨r1, st1⟩ := xM
    obtain ⟨r1', st1'⟩ := x0
    obtain ⟨hr1, hst, hval, hgood⟩ := hg
    simp only at hr1 hst hval hgood
    subst hr1
    cases r1 with
    | ok fs => exact agree_ok hst hval (allCl_obj.2 (hgood fs rfl))
    | fail => exact agree_fail hst hval
    | fuelOut => exact agree_fuelOut hst hval
  simp only [mComplete]
  cases hfo : funcOf v with
  | some r => simp only; exact agree_ok h hv (allCl_deferred.2 hat)
  | none =>
    simp only
    cases t with
    | nonNull inner =>
      simp only
      have hc := ih.complete dfr inner rt fid fp p v st st0 h hv hat
      generalize hM : mComplete c altM fuel dfr inner rt fid fp p v st = xM at hc ⊢
      generalize h0 : mComplete c alt0 fuel dfr inner rt fid fp p v st0 = x0 at hc ⊢
      obtain ⟨r1, st1⟩ := xM
      obtain ⟨r1', st1'⟩ := x0
      obtain ⟨hr1, hst, hval, hgood⟩ := hc
      simp only at hr1 hst hval hgood
      subst hr1
      cases r1 with
      | ok j =>
        by_cases hj : j = .leaf .null
        · subst hj; simp only; exact agree_fail (hst.addErr p dfr) hval
        · split
          · rename_i heq
            simp only [Prod.mk.injEq, Res.ok.injEq] at heq
            exact absurd heq.1 hj
          · split
            · rename_i heq
              simp only [Prod.mk.injEq, Res.ok.injEq] at heq
              exact absurd heq.1 hj
            · exact agree_ok hst hval (hgood j rfl)
      | fail => exact agree_fail hst hval
      | fuelOut => exact agree_fuelOut hst hval
    | list item =>
      simp only
      by_cases hnull : v.nullish = true
      · simp only [hnull, if_true]; exact agree_ok h hv (allCl_leaf _)
      · simp only [hnull, Bool.false_eq_true, if_false]
        cases hl : listOf v with
        | none => simp only; exact agree_fail (h.addErr p dfr) hv
        | some xs =>
          simp only
          have hi := ih.items dfr item rt fid fp p xs 0 [] st st0 h hv hat (fun _ hm => by cases hm)
          generalize hM : mItems c altM fuel dfr item rt fid fp p xs 0 [] st = xM at hi ⊢
          generalize h0 : mItems c alt0 fuel dfr item rt fid fp p xs 0 [] st0 = x0 at hi ⊢
          obtain ⟨r1, st1⟩ := xM
          obtain ⟨r1', st1'⟩ := x0
          obtain ⟨hr1, hst, hval, hgood⟩ := hi
          simp only at hr1 hst hval hgood
          subst hr1
          cases r1 with
          | ok js => exact agree_ok hst hval (allCl_list.2 (hgood js rfl))
          | fail => exact agree_fail hst hval
          | fuelOut => exact agree_fuelOut hst hval
    | named n =>
      simp only
      by_cases hnull : v.nullish = true
      · simp only [hnull, if_true]; exact agree_ok h hv (allCl_leaf _)
      · simp only [hnull, Bool.false_eq_true, if_false]
        by_cases hleaf : c.schema.isLeaf n = true
        · simp only [hleaf, if_true]
          cases hs : serializeLeaf c.schema n v with
          | none => simp only; exact agree_fail (h.addErr p dfr) hv
          | some j => simp only; exact agree_ok h hv (allCl_leaf _)
        · simp only [hleaf, Bool.false_eq_true, if_false]
          by_cases habs : c.schema.isAbstract n = true
          · simp only [habs, if_true]
            cases hrt : runtimeTypeOf c n v with
            | none => simp only; exact agree_fail (h.addErr p dfr) hv
            | some ot =>
              simp only
              by_cases hposs : (!(c.schema.isObject ot && c.schema.isPossibleType n ot)) = true
              · simp only [hposs, if_true]; exact agree_fail (h.addErr p dfr) hv
              · simp only [hposs, Bool.false_eq_true, if_false]
                exact hgroups ot
          · simp only [habs, Bool.false_eq_true, if_false]
            by_cases hobj : c.schema.isObject n = true
            · simp only [hobj, if_true]
              by_cases hito : (objectHasIsTypeOf c.schema n && !c.world.isTypeOfAns n v) = true
              · simp only [hito, if_true]; exact agree_fail (h.addErr p dfr) hv
              · simp only [hito, Bool.false_eq_true, if_false]
                exact hgroups n
            · simp only [hobj, Bool.false_eq_true, if_false]; exact agree_fail (h.addErr p dfr) hv

theorem memoP (hr : KeysNodup root) : ∀ fuel, MemoP c pv rootType root fuel
  | 0 => memoP_zero
  | fuel + 1 =>
    have ih := memoP hr fuel
    ⟨memoP_groups fuel ih, memoP_field fuel ih, memoP_complete hr fuel ih, memoP_items fuel ih⟩

end memo

end GqlModel.Plan
