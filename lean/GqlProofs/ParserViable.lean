import GqlProofs.ParserLocal
import GqlProofs.ParserComplete
/-! Viability of the text before the blamed token (C18, "not earlier"), Value sub-grammar: when `parseValueLiteral`
rejects at the end of its input, the input can be completed to a value.  Derivations are re-based onto a longer token
list by `…app` (values have no look-ahead conditions, so appending is unconditional). -/
namespace GqlModel.Parser
open GqlModel GqlModel.Grammar

set_option linter.unusedSimpArgs false
set_option linter.unusedVariables false

/-- the same position with `X` appended to the tokens ahead -/
def _root_.GqlModel.Grammar.Pos.app (p : Pos) (X : List Token) : Pos := ⟨p.e, p.ts ++ X⟩

theorem start_app {p : Pos} (h : p.ts ≠ []) (X : List Token) : (p.app X).start = p.start := by
  obtain ⟨e, ts⟩ := p
  cases ts with
  | nil => exact absurd rfl h
  | cons t r => rfl

theorem tok_app {k : TokenKind} {p : Pos} {t : Token} {p' : Pos} (h : Tok k p t p') (X : List Token) :
    Tok k (p.app X) t (p'.app X) := by
  cases h with
  | mk e t r hk => exact .mk e t (r ++ X) hk

theorem kw_app {s : String} {p p' : Pos} (h : Kw s p p') (X : List Token) : Kw s (p.app X) (p'.app X) := by
  cases h with
  | mk ht hv => exact .mk (tok_app ht X) hv

theorem dname_app {p : Pos} {n : Name} {p' : Pos} (h : DName p n p') (X : List Token) : DName (p.app X) n (p'.app X) := by
  cases h with
  | mk ht =>
    have := DName.mk (tok_app ht X)
    rw [start_app (tok_ne ht)] at this
    exact this

theorem dvariable_app {p : Pos} {r : Name × Loc} {p' : Pos} (h : DVariable p r p') (X : List Token) :
    DVariable (p.app X) r (p'.app X) := by
  cases h with
  | mk hd hn =>
    have := DVariable.mk (tok_app hd X) (dname_app hn X)
    rw [start_app (tok_ne hd)] at this
    exact this

mutual
theorem DValue.app : ∀ {c p v p'}, DValue c p v p' → ∀ X, DValue c (p.app X) v (p'.app X)
  | _, _, _, _, .var h, X => .var (dvariable_app h X)
  | c, _, _, _, .int h, X => by have := DValue.int (c := c) (tok_app h X); rw [start_app (tok_ne h)] at this; exact this
  | c, _, _, _, .float h, X => by have := DValue.float (c := c) (tok_app h X); rw [start_app (tok_ne h)] at this; exact this
  | c, _, _, _, .string h, X => by have := DValue.string (c := c) (tok_app h X); rw [start_app (tok_ne h)] at this; exact this
  | c, _, _, _, .blockString h, X => by
      have := DValue.blockString (c := c) (tok_app h X); rw [start_app (tok_ne h)] at this; exact this
  | c, _, _, _, .tru h, X => by have := DValue.tru (c := c) (kw_app h X); rw [start_app (kw_ne h)] at this; exact this
  | c, _, _, _, .fls h, X => by have := DValue.fls (c := c) (kw_app h X); rw [start_app (kw_ne h)] at this; exact this
  | c, _, _, _, .enum h h1 h2 h3, X => by
      have := DValue.enum (c := c) (tok_app h X) h1 h2 h3; rw [start_app (tok_ne h)] at this; exact this
  | c, _, _, _, .list ho hvs hc, X => by
      have := DValue.list (tok_app ho X) (DValues.app hvs X) (tok_app hc X); rw [start_app (tok_ne ho)] at this; exact this
  | c, _, _, _, .obj ho hfs hc, X => by
      have := DValue.obj (tok_app ho X) (DObjFields.app hfs X) (tok_app hc X); rw [start_app (tok_ne ho)] at this; exact this
theorem DValues.app : ∀ {c p vs p'}, DValues c p vs p' → ∀ X, DValues c (p.app X) vs (p'.app X)
  | _, _, _, _, .nil, X => .nil
  | _, _, _, _, .cons hv hvs, X => .cons (DValue.app hv X) (DValues.app hvs X)
theorem DObjFields.app : ∀ {c p fs p'}, DObjFields c p fs p' → ∀ X, DObjFields c (p.app X) fs (p'.app X)
  | _, _, _, _, .nil, X => .nil
  | _, _, _, _, .cons hf hfs, X => .cons (DObjField.app hf X) (DObjFields.app hfs X)
theorem DObjField.app : ∀ {c p f p'}, DObjField c p f p' → ∀ X, DObjField c (p.app X) f (p'.app X)
  | _, _, _, _, .mk hn hc hv, X => by
      have := DObjField.mk (dname_app hn X) (tok_app hc X) (DValue.app hv X)
      rw [start_app (dname_ne hn)] at this; exact this
end

/-! ## errors raised at the end of the input -/

theorem expect_err0 {k : TokenKind} {σ : PState} {pos : Nat} {b : Bool} (h : expect k σ = .error (.syntax pos b 0)) : σ.toks = [] := by
  unfold expect at h
  split at h
  · simp at h
  · simp at h; exact h.2.2

theorem unexpected_err0 {α} {σ : PState} {pos : Nat} {b : Bool} (h : (unexpected : P α) σ = .error (.syntax pos b 0)) : σ.toks = [] := by
  simp at h; exact h.2.2

/-- completing the loop of `reverse` that failed at the end of the input (the closing token is added by the caller) -/
theorem many_cpl {α} {close : TokenKind} {item : P α} {D : Pos → α → Pos → Prop} {L : Pos → List α → Pos → Prop}
    (hnil : ∀ p, L p [] p) (hcons : ∀ {p x p1 xs p2}, D p x p1 → L p1 xs p2 → L p (x :: xs) p2)
    (hs : SndN item D) (happ : ∀ {p x p'}, D p x p' → ∀ X, D (p.app X) x (p'.app X))
    (hcpl : ∀ σ pos b, item σ = .error (.syntax pos b 0) → ∃ comp, ∀ X, ∃ x e', D ⟨σ.prevEnd, σ.toks ++ comp ++ X⟩ x ⟨e', X⟩) :
    ∀ (k : Nat) (σ : PState) (pos : Nat) (b : Bool), many close item k σ = .error (.syntax pos b 0) →
      ∃ comp, ∀ X, ∃ xs e', L ⟨σ.prevEnd, σ.toks ++ comp ++ X⟩ xs ⟨e', X⟩ := by
  intro k
  induction k with
  | zero => intro σ pos b h; simp [many] at h
  | succ k ih =>
    intro σ pos b h
    simp only [many] at h
    rcases bind_error.mp h with h1 | ⟨sk, σ1, h1, h2⟩
    · unfold skip at h1; split at h1 <;> simp at h1
    · cases sk
      · have hσ1 : σ1 = σ := by unfold skip at h1; split at h1 <;> simp at h1; exact h1.symm
        subst hσ1
        simp only [Bool.false_eq_true, if_false] at h2
        rcases bind_error.mp h2 with h3 | ⟨x, σ2, h3, h4⟩
        · obtain ⟨comp, hc⟩ := hcpl _ _ _ h3
          refine ⟨comp, fun X => ?_⟩
          obtain ⟨x, e', hx⟩ := hc X
          exact ⟨[x], e', hcons hx (hnil _)⟩
        · rcases bind_error.mp h4 with h5 | ⟨xs, σ3, _, h6⟩
          · obtain ⟨comp, hc⟩ := ih _ _ _ h5
            obtain ⟨hD, hat⟩ := hs _ _ _ h3
            refine ⟨comp, fun X => ?_⟩
            obtain ⟨xs, e', hxs⟩ := hc X
            have := happ hD (comp ++ X)
            simp only [Pos.app, PState.pos, ← List.append_assoc] at this
            exact ⟨x :: xs, e', hcons this hxs⟩
          · simp at h6
      · simp at h2

theorem parseName_err0 {σ : PState} {pos : Nat} {b : Bool} (h : parseName σ = .error (.syntax pos b 0)) : σ.toks = [] := by
  simp only [parseName] at h
  rcases bind_error.mp h with h1 | ⟨t, σ1, _, h2⟩
  · exact expect_err0 h1
  · simp [bind_error] at h2

/-- a name / colon / closing token used in completions -/
def nameTok : Token := sampleTok .name
def intTok : Token := sampleTok .int

/-- **Value completion**: a value parse that fails at the end of the input can be completed to a value -/
theorem parseValueLiteral_cpl (c : Bool) : ∀ (n : Nat) (σ : PState) (pos : Nat) (b : Bool),
    parseValueLiteral c n σ = .error (.syntax pos b 0) →
      ∃ comp, ∀ X, ∃ v e', DValue c ⟨σ.prevEnd, σ.toks ++ comp ++ X⟩ v ⟨e', X⟩ := by
  intro n
  induction n with
  | zero => intro σ pos b h; simp [parseValueLiteral] at h
  | succ n ih =>
    intro σ pos b h
    cases hts : σ.toks with
    | nil =>
      -- nothing there at all: any scalar will do
      refine ⟨[intTok], fun X => ?_⟩
      have := DValue.int (c := c) (Tok.mk σ.prevEnd intTok X rfl)
      exact ⟨_, _, by simpa using this⟩
    | cons t r =>
      have hcur : σ.cur = t := cur_cons hts
      have hlen : σ.toks.length = r.length + 1 := by rw [hts]; simp
      simp only [parseValueLiteral] at h
      rw [bind_eq_of_ok (cur_run σ), hcur] at h
      have hfield : ∀ σf posf bf, parseObjectFieldWith (parseValueLiteral c n) σf = .error (.syntax posf bf 0) →
          ∃ comp, ∀ X, ∃ f e', DObjField c ⟨σf.prevEnd, σf.toks ++ comp ++ X⟩ f ⟨e', X⟩ := by
        intro σf posf bf hf
        simp only [parseObjectFieldWith] at hf
        rw [bind_eq_of_ok (cur_run σf)] at hf
        rcases bind_error.mp hf with g1 | ⟨nm, σ1, g1, g2⟩
        · -- no name: supply a whole field
          have he := parseName_err0 g1
          refine ⟨[nameTok, sampleTok .colon, intTok], fun X => ?_⟩
          rw [he]
          exact ⟨_, _, .mk (.mk (Tok.mk σf.prevEnd nameTok _ rfl)) (Tok.mk _ (sampleTok .colon) _ rfl)
            (DValue.int (c := c) (Tok.mk _ intTok X rfl))⟩
        · obtain ⟨hN, hat1⟩ := parseName_snd _ _ _ g1
          rcases bind_error.mp g2 with g3 | ⟨cl, σ2, g3, g4⟩
          · -- name, then the end: `: 1`
            have he := expect_err0 g3
            refine ⟨[sampleTok .colon, intTok], fun X => ?_⟩
            have hN' := dname_app hN ([sampleTok .colon, intTok] ++ X)
            simp only [Pos.app, PState.pos, he, List.nil_append] at hN'
            have := DObjField.mk hN' (Tok.mk _ (sampleTok .colon) _ rfl) (DValue.int (c := c) (Tok.mk _ intTok X rfl))
            exact ⟨_, _, by simpa [List.append_assoc] using this⟩
          · obtain ⟨hC, hat2⟩ := (expect_ok (by decide)).mp g3
            rcases bind_error.mp g4 with g5 | ⟨v, σ3, _, g6⟩
            · obtain ⟨comp, hc⟩ := ih _ _ _ g5
              refine ⟨comp, fun X => ?_⟩
              obtain ⟨v, e', hv⟩ := hc X
              have hN' := dname_app hN (comp ++ X)
              have hC' := tok_app hC (comp ++ X)
              simp only [Pos.app, PState.pos, ← List.append_assoc] at hN' hC'
              exact ⟨_, _, .mk hN' hC' hv⟩
            · simp [bind_error] at g6
      cases hk : t.kind <;> simp only [hk] at h
      case bracketL =>
        rcases bind_error.mp h with h1 | ⟨vs, σ1, _, h2⟩
        · simp only [reverse] at h1
          rcases bind_error.mp h1 with g1 | ⟨o, σa, g1, g2⟩
          · have := expect_err0 g1; rw [hts] at this; cases this
          · obtain ⟨hO, hat⟩ := (expect_ok (by decide)).mp g1
            rw [bind_eq_of_ok (cur_run σa)] at g2
            simp only [Bool.false_eq_true, false_and, if_false] at g2
            rw [bind_eq_of_ok (loopFuel_run σa)] at g2
            rcases bind_error.mp g2 with g3 | ⟨nodes, σ2, _, g4⟩
            · obtain ⟨comp, hc⟩ := many_cpl (L := DValues c) (fun _ => .nil) (fun hx hxs => .cons hx hxs)
                (parseValueLiteral_snd c n) (fun h X => DValue.app h X) ih _ _ _ _ g3
              refine ⟨comp ++ [sampleTok .bracketR], fun X => ?_⟩
              obtain ⟨vs, e', hvs⟩ := hc (sampleTok .bracketR :: X)
              have hO' := tok_app hO (comp ++ sampleTok .bracketR :: X)
              simp only [List.append_assoc] at hvs
              simp only [Pos.app, PState.pos] at hO'
              have := DValue.list hO' hvs (Tok.mk e' (sampleTok .bracketR) X rfl)
              exact ⟨_, _, by simpa [List.append_assoc, hts] using this⟩
            · simp at g4
        · simp [bind_error] at h2
      case braceL =>
        rcases bind_error.mp h with g1 | ⟨o, σa, g1, g2⟩
        · have := expect_err0 g1; rw [hts] at this; cases this
        · obtain ⟨hO, hat⟩ := (expect_ok (by decide)).mp g1
          rw [bind_eq_of_ok (loopFuel_run σa)] at g2
          rcases bind_error.mp g2 with g3 | ⟨nodes, σ2, _, g4⟩
          · obtain ⟨comp, hc⟩ := many_cpl (L := DObjFields c) (fun _ => .nil) (fun hx hxs => .cons hx hxs)
              (parseObjectFieldWith_snd (parseValueLiteral_snd c n)) (fun h X => DObjField.app h X) hfield _ _ _ _ g3
            refine ⟨comp ++ [sampleTok .braceR], fun X => ?_⟩
            obtain ⟨fs, e', hfs⟩ := hc (sampleTok .braceR :: X)
            have hO' := tok_app hO (comp ++ sampleTok .braceR :: X)
            simp only [List.append_assoc] at hfs
            simp only [Pos.app, PState.pos] at hO'
            have := DValue.obj hO' hfs (Tok.mk e' (sampleTok .braceR) X rfl)
            exact ⟨_, _, by simpa [List.append_assoc, hts] using this⟩
          · simp [bind_error] at g4
      case dollar =>
        split at h
        · simp [hts] at h
        · rename_i hc
          have hcf : c = false := by cases c <;> simp_all
          subst hcf
          rcases bind_error.mp h with g1 | ⟨rv, σ1, _, g2⟩
          · simp only [parseVariable] at g1
            rw [bind_eq_of_ok (cur_run σ)] at g1
            rcases bind_error.mp g1 with q1 | ⟨d, σa, q1, q2⟩
            · have := expect_err0 q1; rw [hts] at this; cases this
            · obtain ⟨hD, hat⟩ := (expect_ok (by decide)).mp q1
              rcases bind_error.mp q2 with q3 | ⟨nm, σb, _, q4⟩
              · have he := parseName_err0 q3
                refine ⟨[nameTok], fun X => ?_⟩
                have hD' := tok_app hD ([nameTok] ++ X)
                simp only [Pos.app, PState.pos, he, List.nil_append] at hD'
                have := DValue.var (.mk hD' (.mk (Tok.mk _ nameTok X rfl)))
                exact ⟨_, _, by simpa [List.append_assoc, hts] using this⟩
              · simp [bind_error] at q4
          · simp at g2
      case name =>
        repeat' split at h
        all_goals simp [bind_error, hts] at h
      all_goals simp [bind_error, hts] at h

/-! ## `parser.ParseValue`: the reported token is the first at which the text stops being the beginning of a value -/

/-- `ts` is the beginning of a value (followed by anything) -/
def ViableValuePrefix (c : Bool) (ts : List Token) : Prop := ∃ rest v p', DValue c ⟨0, ts ++ rest⟩ v p'

/-- not later: with the blamed token the text is no longer the beginning of a value -/
theorem parseValue_not_later (c : Bool) (toks : List Token) (eofPos pos : Nat) (b : Bool) (l : Nat)
    (h : parseValue c (initState toks eofPos) = .error (.syntax pos b l)) (hl : 0 < l) :
    ¬ ViableValuePrefix c (toks.take (toks.length - l + 1)) := by
  rintro ⟨rest, v, p', hd⟩
  obtain ⟨l', g, _, _⟩ := action_error_local (parseValue c) h hl rest eofPos
  have := parseValue_cmp c (initState (toks.take (toks.length - l + 1) ++ rest) eofPos) v p' (by simpa [initState, PState.pos] using hd)
  rw [this] at g
  cases g

/-- not earlier: the tokens before the blamed one are the beginning of a value -/
theorem parseValue_not_earlier (c : Bool) (toks : List Token) (eofPos pos : Nat) (b : Bool) (l : Nat)
    (h : parseValue c (initState toks eofPos) = .error (.syntax pos b l)) :
    ViableValuePrefix c (toks.take (toks.length - l)) := by
  let T := toks.take (toks.length - l)
  cases hr : parseValue c (initState T eofPos) with
  | ok r =>
    obtain ⟨v, σ1⟩ := r
    exact ⟨[], v, σ1.pos, by simpa [initState, PState.pos, T] using (parseValue_snd c _ _ _ hr).1⟩
  | error e =>
    cases e with
    | fuel =>
      exact absurd hr ((inferInstance : NFb T.length (parseValue c)).nf (initState T eofPos) (Nat.le_refl _))
    | «syntax» pos' b' l' =>
      have hl0 : l' = 0 := action_truncated (parseValue c) h eofPos pos' b' l' hr
      subst hl0
      obtain ⟨comp, hc⟩ := parseValueLiteral_cpl c _ _ _ _ hr
      obtain ⟨v, e', hv⟩ := hc []
      exact ⟨comp, v, ⟨e', []⟩, by simpa [initState] using hv⟩

end GqlModel.Parser
