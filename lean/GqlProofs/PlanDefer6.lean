import GqlProofs.PlanDefer5
import GqlProofs.PlanSerial2
import GqlProofs.PlanBfs2
/-! # With deferred values: the roots and the request level -/
namespace GqlModel.Plan
open GqlModel.Exec GqlModel.Coerce

/-! ## the breadth-first pass keeps the root a map -/

theorem setAt_obj (fs : List (String × PVal)) (seg : PathSeg) (rest : Path) (v : PVal) :
    ∃ gs, (PVal.obj fs).setAt (seg :: rest) v = .obj gs := by
  cases seg with
  | key k =>
    simp only [PVal.setAt]
    cases lookupF fs k with
    | none => exact ⟨_, rfl⟩
    | some x => exact ⟨_, rfl⟩
  | idx i => exact ⟨_, rfl⟩

theorem bfsEntries_obj {frc : Closure → MSt → Res PVal × MSt} (p : Path) :
    ∀ (segs : List PathSeg) (root : PVal) (q : List Path) (mst : MSt), (∃ fs, root = .obj fs) →
    ∀ x, (bfsEntries frc p segs root q mst).1 = .ok x → ∃ gs, x.1 = .obj gs
  | [], root, q, mst, h, x, hx => by
    simp only [bfsEntries, Res.ok.injEq] at hx; subst hx; exact h
  | seg :: rest, root, q, mst, h, x, hx => by
    simp only [bfsEntries] at hx
    cases hg : root.getAt (p ++ [seg]) with
    | none => simp only [hg] at hx; exact bfsEntries_obj p rest root q mst h x hx
    | some y =>
      simp only [hg] at hx
      cases y with
      | deferred cl =>
        simp only at hx
        generalize frc cl mst = z at hx
        obtain ⟨r1, mst1⟩ := z
        cases r1 with
        | ok v =>
          simp only at hx
          obtain ⟨fs, rfl⟩ := h
          have hne : ∃ s0 r0, p ++ [seg] = s0 :: r0 := by
            cases p with
            | nil => exact ⟨seg, [], rfl⟩
            | cons a b => exact ⟨a, b ++ [seg], rfl⟩
          obtain ⟨s0, r0, hpe⟩ := hne
          rw [hpe] at hx
          exact bfsEntries_obj p rest _ _ mst1 (setAt_obj fs s0 r0 v) x hx
        | fail => simp only at hx; cases hx
        | fuelOut => simp only at hx; cases hx
      | leaf _ => exact bfsEntries_obj p rest root _ mst h x hx
      | list _ => exact bfsEntries_obj p rest root _ mst h x hx
      | obj _ => exact bfsEntries_obj p rest root _ mst h x hx

theorem bfsLoop_obj {frc : Closure → MSt → Res PVal × MSt} :
    ∀ (n : Nat) (root : PVal) (q : List Path) (mst : MSt), (∃ fs, root = .obj fs) →
    ∀ x, (bfsLoop frc n root q mst).1 = .ok x → ∃ gs, x = .obj gs
  | 0, root, q, mst, _, x, hx => by simp only [bfsLoop] at hx; cases hx
  | n + 1, root, [], mst, h, x, hx => by simp only [bfsLoop, Res.ok.injEq] at hx; subst hx; exact h
  | n + 1, root, p :: q, mst, h, x, hx => by
    simp only [bfsLoop] at hx
    cases hg : root.getAt p with
    | none => simp only [hg] at hx; exact bfsLoop_obj n root q mst h x hx
    | some cont =>
      simp only [hg] at hx
      have he := bfsEntries_obj (frc := frc) p (childSegs cont) root q mst h
      generalize bfsEntries frc p (childSegs cont) root q mst = z at he hx
      obtain ⟨r1, mst1⟩ := z
      cases r1 with
      | ok y =>
        obtain ⟨root', q'⟩ := y
        simp only at hx
        exact bfsLoop_obj n root' q' mst1 (he _ rfl) x hx
      | fail => simp only at hx; cases hx
      | fuelOut => simp only at hx; cases hx

section roots
variable {c : Ctx} {pv : Option Vars} {rank : String → Nat} {F : Nat}

local notation "alt0" => recompute c.schema c.frags pv

theorem svf_toJ_eq {pfs : List (String × PVal)} {fs js : List (String × JVal)} (h : SVf c pv rank F pfs fs)
    (hj : PVal.fieldsToJ? pfs = some js) : js = fs := by
  have hnd := noDefFields_of_toJ? pfs js hj
  have := svf_toJ h hnd
  rw [hj] at this
  exact Option.some.inj this

/-- outcome of a root walk of M against the algorithm's -/
def RootRel (c : Ctx) (pv : Option Vars) (rank : String → Nat) (F : Nat) (settled : Bool)
    (rS : Res (List (String × JVal))) (rM : Res (List (String × PVal))) : Prop :=
  rM = .fuelOut ∨
  match rS with
  | .ok fs => ∃ pfs, rM = .ok pfs ∧ SVf c pv rank F pfs fs ∧ (settled = true → PVal.fieldsToJ? pfs = some fs)
  | .fail => rM = .fail
  | .fuelOut => False

/-- the root of a mutation: every top-level value is settled when the next field starts, and it is the algorithm's value -/
theorem mRootMut_gen (hac : Acyclic c.frags rank) (hfr : FragsOK c pv) (rt : String) :
    ∀ (fuel : Nat), fuel ≤ F → ∀ (fps : List FieldPlan) (accS : List (String × JVal)) (acc : List (String × PVal))
    (st : St) (mst : MSt) (rS : Res (List (String × JVal))) (stS : St),
    (∀ fp ∈ fps, FpOK c.schema rt (NodeOK c pv rank) fp) → SVf c pv rank F acc accS → PVal.fieldsToJ? acc = some accS →
    execGroups c fuel false rt .nil [] (groupsOf fps) accS st = (rS, stS) → rS ≠ .fuelOut → stS.kfThunk = st.kfThunk →
    RootRel c pv rank F true rS (mRootMut c alt0 F fuel rt fps acc mst).1
  | 0, _, fps, accS, acc, st, mst, rS, stS, _, _, _, h, hr, _ => by
    simp only [execGroups, Prod.mk.injEq] at h; exact absurd h.1.symm hr
  | fuel + 1, hle, [], accS, acc, st, mst, rS, stS, _, hacc, haccJ, h, hr, _ => by
    simp only [groupsOf, List.map_nil, execGroups, Prod.mk.injEq] at h
    obtain ⟨rfl, rfl⟩ := h
    simp only [mRootMut]
    exact .inr ⟨acc, rfl, hacc, fun _ => haccJ⟩
  | fuel + 1, hle, fp :: rest, accS, acc, st, mst, rS, stS, hok, hacc, haccJ, h, hr, hkf => by
    have hle' : fuel ≤ F := Nat.le_of_succ_le hle
    have hfp := hok fp List.mem_cons_self
    have hrest : ∀ fp' ∈ rest, FpOK c.schema rt (NodeOK c pv rank) fp' := fun fp' hm => hok fp' (List.mem_cons_of_mem _ hm)
    obtain ⟨n0, ch0, tl, hnodes, hname, hdef, hargs⟩ := hfp.head
    have hhead : fp.fieldNodes.head? = some n0 := by simp [FieldPlan.fieldNodes, hnodes]
    have hg : groupsOf (fp :: rest) = (fp.key, fp.fieldNodes) :: groupsOf rest := rfl
    rw [hg] at h
    simp only [execGroups, hhead] at h
    rw [← hdef] at h
    simp only [mRootMut, hfp.pred, Pred.eval, List.all_nil, Bool.not_true, Bool.false_eq_true, if_false]
    cases hfd : fp.fieldDef with
    | none =>
      simp only [hfd] at h
      exact mRootMut_gen hac hfr rt fuel hle' rest accS acc st mst rS stS hrest hacc haccJ h hr hkf
    | some fd =>
      simp only [hfd, List.nil_append] at h
      have hk1 := kfExt_field c fuel false rt .nil [.key fp.key] fd fp.fieldNodes st
      rcases hS : execField c fuel false rt .nil [.key fp.key] fd fp.fieldNodes st with ⟨r1, st1⟩
      rw [hS] at h hk1
      simp only at hk1
      have hnd := (nodupP (c := c) (alt := alt0) (altND_recompute _ _ _) fuel).field false rt .nil [.key fp.key] [(rt, fp.key)] fp fd mst
      rcases hM1 : mField c alt0 fuel false rt .nil [.key fp.key] [(rt, fp.key)] fp fd mst with ⟨rM1, mst1⟩
      rw [hM1] at hnd
      cases r1 with
      | ok j =>
        simp only at h
        have hk2 := kfExt_groups c fuel false rt .nil [] (groupsOf rest) (accS ++ [(fp.key, j)]) st1
        rw [h] at hk2
        simp only at hk2
        obtain ⟨hkA, hkB⟩ := KfExt.same hk1 hk2 hkf
        have hf := (genP (F := F) hac hfr fuel hle').field false rt .nil [.key fp.key] [(rt, fp.key)] fp fd st mst _ _
          hfp hfd hS (by simp) hkA
        simp only [hM1] at hf
        obtain ⟨x, hx, hsv⟩ := hf
        subst hx
        simp only [hM1]
        -- force everything the field deferred, now
        have hd1 := (dfsV (frcSV_forceAll (c := c) (pv := pv) (rank := rank) (F := F) hac hfr) F).val x j mst1 hsv
        have hd2 := (dfsS (frcFlat_forceAll (c := c) (alt := alt0) (altND_recompute _ _ _) F) F).val x mst1 (hnd x rfl)
        generalize dfsVal (forceAll c alt0 F) F x mst1 = z at hd1 hd2 ⊢
        obtain ⟨r2, mst2⟩ := z
        cases r2 with
        | fail => exact absurd hd1 id
        | fuelOut => exact .inl rfl
        | ok x' =>
          simp only
          have hsv' : SV c pv rank F x' j := hd1
          have hj' : x'.toJ? = some j := sv_toJ hsv' (hd2 x' rfl)
          exact mRootMut_gen hac hfr rt fuel hle' rest _ _ st1 mst2 rS stS hrest (svf_append hsv' hacc)
            (fieldsToJ?_append haccJ hj') h hr hkB
      | fail =>
        simp only [Prod.mk.injEq] at h
        obtain ⟨rfl, rfl⟩ := h
        have hf := (genP (F := F) hac hfr fuel hle').field false rt .nil [.key fp.key] [(rt, fp.key)] fp fd st mst _ _
          hfp hfd hS (by simp) hkf
        simp only [hM1] at hf
        subst hf
        simp only [hM1]
        exact .inr rfl
      | fuelOut =>
        simp only [Prod.mk.injEq] at h
        exact absurd h.1.symm hr

/-- the walk of a plan against the algorithm's walk of the root groups, with deferred values, outside D-04c -/
theorem runPlan_gen (hac : Acyclic c.frags rank) (hfr : FragsOK c pv) (q : Plan)
    (sel : SelectionSet) (hroot : q.root = planSelectionSet c.schema c.frags pv q.rootType sel)
    (hreg : Regime pv c.vars (setDynamic sel)) (rS : Res (List (String × JVal))) (stS : St)
    (h : execGroups c F false q.rootType .nil [] (collect c q.rootType sel ([], [])).1 [] St.empty = (rS, stS))
    (hr : rS ≠ .fuelOut) (hkf : stS.kfThunk = []) (mst : MSt) :
    RootRel c pv rank F true rS (runPlan c alt0 q F mst).1 := by
  obtain ⟨hgo, hfps⟩ := planSelectionSet_sim (rt := q.rootType) hac hfr sel hreg
  rw [← hgo, ← hroot] at h
  rw [← hroot] at hfps
  unfold runPlan
  by_cases hmut : q.isMutation = true
  · simp only [hmut, if_true]
    have hm := mRootMut_gen (F := F) hac hfr q.rootType F (Nat.le_refl _) q.root [] [] St.empty mst rS stS hfps .nil rfl h hr hkf
    generalize mRootMut c alt0 F F q.rootType q.root [] mst = z at hm ⊢
    obtain ⟨r1, mst1⟩ := z
    rcases hm with hm | hm
    · simp only at hm; subst hm; exact .inl rfl
    · cases rS with
      | ok fs =>
        simp only at hm
        obtain ⟨pfs, hp, hsv, hj⟩ := hm
        subst hp
        simp only
        have hnd : ∀ x ∈ pfs, NoDef x.2 := allCl_obj.1 (noDef_of_toJ? (.obj pfs) (.obj fs) (toJ?_obj (hj trivial)))
        rcases (dfsId (frc := forceAll c alt0 F) F).fields (sortedKeys pfs) pfs mst1 hnd with h2 | h2 <;> rw [h2]
        · exact .inl rfl
        · exact .inr ⟨pfs, rfl, hsv, fun _ => hj trivial⟩
      | fail =>
        simp only at hm
        subst hm
        exact .inr rfl
      | fuelOut => exact absurd rfl hr
  · have hmut' : q.isMutation = false := by simpa using hmut
    simp only [hmut', Bool.false_eq_true, if_false]
    have hg := (genP (F := F) hac hfr F (Nat.le_refl _)).groups false q.rootType .nil [] [] q.root [] [] St.empty mst rS stS
      hfps .nil h hr hkf
    generalize hz0 : mGroups c alt0 F false q.rootType .nil [] [] q.root [] mst = z at hg ⊢
    obtain ⟨r1, mst1⟩ := z
    cases rS with
    | ok fs =>
      simp only at hg
      obtain ⟨pfs, hp, hsv⟩ := hg
      subst hp
      have hz : (mGroups c alt0 F false q.rootType .nil [] [] q.root [] mst).1 = .ok pfs := by rw [hz0]
      simp only
      have hb := bfsLoop_sv (frcSV_forceAll (c := c) (pv := pv) (rank := rank) (F := F) hac hfr) (.obj fs) F (.obj pfs) [[]] mst1
        (.obj hsv)
      have ho := bfsLoop_obj (frc := forceAll c alt0 F) F (.obj pfs) [[]] mst1 ⟨pfs, rfl⟩
      -- the phase-one result is a map with distinct keys all the way down, so the breadth-first pass settles it
      have hkn : KeysNodup q.root := by rw [hroot]; exact keysNodup_planSelectionSet _ _ _ _ _
      have hnd1 := (nodupP (c := c) (alt := alt0) (altND_recompute _ _ _) F).groups false q.rootType .nil [] [] q.root [] mst
        (by simpa [KeysNodup] using hkn) (fun _ h => by cases h) pfs (by rw [hz])
      have hs := bfsLoop_settles (frcFlat_forceAll (c := c) (alt := alt0) (altND_recompute _ _ _) F) F pfs mst1 (ndv_obj.2 hnd1)
      generalize bfsLoop (forceAll c alt0 F) F (.obj pfs) [[]] mst1 = z2 at hb ho hs ⊢
      obtain ⟨r2, mst2⟩ := z2
      cases r2 with
      | ok root' =>
        obtain ⟨gs, rfl⟩ := ho root' rfl
        have hsv' : SV c pv rank F (.obj gs) (.obj fs) := hb
        have hno : NoDef (.obj gs) := hs _ rfl
        cases hsv' with
        | obj hf => exact .inr ⟨gs, rfl, hf, fun _ => svf_toJ hf (by simpa [NoDef, PVal.AllCl] using hno)⟩
      | fail => exact absurd hb id
      | fuelOut => exact .inl rfl
    | fail =>
      simp only at hg
      subst hg
      exact .inr rfl
    | fuelOut => exact absurd rfl hr

end roots

/-! ## the request level -/

/-- **with deferred values, outside D-04c** (`kf = []`), on an acyclic fragment table: M answers in the algorithm's class (data / no
data), M's data contains no closure, and read as a JSON value it IS the algorithm's data. -/
theorem run_data_eq_execute (s : Schema) (doc : Document) (opName : String) (inputs : Vars) (w : World) (fuel : Nat)
    (rank : String → Nat) (hac : Acyclic doc.fragments rank)
    (d : Option (List (String × JVal))) (errs : List (Path × Bool)) (log : List LogEntry)
    (hS : execute s doc opName inputs w fuel = .result d errs log [])
    (hM : run s doc opName inputs w fuel ≠ .fuelOut) :
    ∃ md merrs mev, run s doc opName inputs w fuel = .result md merrs mev ∧
      (d = none ↔ md = none) ∧
      (∀ fs pfs, d = some fs → md = some pfs → PVal.fieldsToJ? pfs = some fs) := by
  obtain ⟨c, root, sel, rS, stS, hctx, hrun, _, _, hkf, hdata⟩ := execute_result hS
  -- unfold the request context
  unfold requestCtx at hctx
  cases hsel : selectOperation doc opName with
  | error e => simp [hsel] at hctx
  | ok dd =>
    have hmem := selectOperation_mem hsel
    cases dd with
    | operation op name varDefs dirs sel0 loc =>
      simp only [hsel] at hctx
      cases hroot : s.rootFor op.toString with
      | none => simp [hroot] at hctx
      | some root0 =>
        simp only [hroot] at hctx
        cases hvars : getVariableValues s varDefs inputs with
        | error e => simp [hvars] at hctx
        | ok vars =>
          simp only [hvars, Option.some.injEq, Prod.mk.injEq] at hctx
          obtain ⟨rfl, rfl, rfl⟩ := hctx
          have hp : planQuery s doc opName = .ok
              (Plan.mk s varDefs sel0 doc.fragments root0 (op == .mutation) (docDynamic doc) none
                (if docDynamic doc then [] else planSelectionSet s doc.fragments none root0 sel0)) := by
            unfold planQuery; rw [hsel]; simp only [hroot]
          have hrunM := run_eq_ref s doc opName inputs w fuel _ hp
          rw [hrunM] at hM ⊢
          unfold executePlanRef at hM ⊢
          simp only [hvars, rootGroups] at hM hrun ⊢
          have hrS : rS ≠ .fuelOut := by
            rcases hdata with ⟨fs, h1, _⟩ | ⟨h1, _⟩ <;> rw [h1] <;> simp
          -- the relation of the two root0 walks, for the plan that is walked
          have key : ∀ (pv : Option Vars) (q : Plan), q.rootType = root0 → q.isMutation = (op == .mutation) →
              q.root = planSelectionSet s doc.fragments pv root0 sel0 →
              FragsOK { schema := s, frags := doc.fragments, vars := vars, world := w } pv →
              Regime pv vars (setDynamic sel0) →
              MResponse.of (runPlan { schema := s, frags := doc.fragments, vars := vars, world := w }
                (recompute s doc.fragments pv) q fuel { errs := [], events := [], memo := [] }) ≠ .fuelOut →
              ∃ md merrs mev, MResponse.of (runPlan { schema := s, frags := doc.fragments, vars := vars, world := w }
                  (recompute s doc.fragments pv) q fuel { errs := [], events := [], memo := [] }) = .result md merrs mev ∧
                (d = none ↔ md = none) ∧
                (∀ fs pfs, d = some fs → md = some pfs → PVal.fieldsToJ? pfs = some fs) := by
            intro pv q hqr hqm hqroot hfr hreg hne
            have hrel := runPlan_gen (c := { schema := s, frags := doc.fragments, vars := vars, world := w }) (pv := pv)
              (rank := rank) (F := fuel) hac hfr q sel0 (by rw [hqroot, hqr]) hreg rS stS (by rw [hqr]; exact hrun) hrS
              hkf.symm { errs := [], events := [], memo := [] }
            generalize runPlan { schema := s, frags := doc.fragments, vars := vars, world := w }
              (recompute s doc.fragments pv) q fuel { errs := [], events := [], memo := [] } = out at hrel hne ⊢
            obtain ⟨rM, mstM⟩ := out
            rcases hrel with hrel | hrel
            · simp only at hrel; subst hrel; exact absurd rfl hne
            · rcases hdata with ⟨fs, rfl, rfl⟩ | ⟨rfl, rfl⟩
              · simp only at hrel
                obtain ⟨pfs, rfl, hsv, hj⟩ := hrel
                refine ⟨some pfs, _, _, rfl, by simp, ?_⟩
                intro fs' pfs' h1 h2
                simp only [Option.some.injEq] at h1 h2
                subst h1; subst h2
                exact hj trivial
              · simp only at hrel
                subst hrel
                refine ⟨none, _, _, rfl, by simp, ?_⟩
                intro _ _ h1; cases h1
          by_cases hd : docDynamic doc = true
          · simp only [hd, if_true] at hM ⊢
            exact key (some vars)
              (Plan.specialise (Plan.mk s varDefs sel0 doc.fragments root0 (op == .mutation) true none []) vars)
              rfl rfl rfl (fun _ _ _ _ => .inl rfl) (.inl rfl) hM
          · have hd' : docDynamic doc = false := by simpa using hd
            simp only [hd', Bool.false_eq_true, if_false] at hM ⊢
            exact key none
              (Plan.mk s varDefs sel0 doc.fragments root0 (op == .mutation) false none (planSelectionSet s doc.fragments none root0 sel0))
              rfl rfl rfl (fun n tc body hf => .inr ⟨rfl, static_of_docDynamic_frag hd' hf⟩)
              (.inr ⟨rfl, static_of_docDynamic_op hd' hmem⟩) hM
    | _ => simp [hsel] at hctx

end GqlModel.Plan
