import GqlProofs.LexerQuote
/-! Further facts: gaps of an ASCII input are ASCII; follow-set (maximal munch) facts for numbers. -/
namespace GqlModel.Lexer
open GqlModel.Utf8 GqlModel.Lexer.Spec

theorem hasHigh_take {l : Bytes} (n : Nat) (h : hasHigh l = false) : hasHigh (l.take n) = false := by
  simp only [hasHigh, List.any_eq_false] at h ⊢
  intro b hb; exact h b (List.mem_of_mem_take hb)

theorem hasHigh_drop {l : Bytes} (n : Nat) (h : hasHigh l = false) : hasHigh (l.drop n) = false := by
  simp only [hasHigh, List.any_eq_false] at h ⊢
  intro b hb; exact h b (List.mem_of_mem_drop hb)

/-- every gap and the error gap of the spec scan are pieces of the input -/
theorem lexLoopG_gaps_ascii : ∀ (f : Nat) (rest : Bytes) (off : Nat), hasHigh rest = false →
    (∀ gt ∈ (lexLoopG f rest off).tokens, hasHigh gt.1 = false) ∧
    (∀ ge, (lexLoopG f rest off).err = some ge → hasHigh ge.1 = false) := by
  intro f
  induction f with
  | zero => intro rest off _; simp [lexLoopG]
  | succ f ih =>
    intro rest off h
    match hd : rest.drop (ignoredLen false rest) with
    | [] =>
      rw [lexLoopG_eof f rest off hd]
      simp only [List.mem_singleton, forall_eq, reduceCtorEq, false_imp_iff, implies_true, and_true]
      exact hasHigh_take _ h
    | c :: r =>
      match ht : token (c :: r) with
      | .error (o, ek) =>
        rw [lexLoopG_err f rest off hd ht]
        simp only [List.not_mem_nil, false_imp_iff, implies_true, Option.some.injEq, true_and]
        intro ge hge; rw [← hge]; exact hasHigh_take _ h
      | .ok (kind, len, v) =>
        rw [lexLoopG_ok f rest off hd ht]
        have hsub : hasHigh ((c :: r).drop len) = false := by rw [← hd]; exact hasHigh_drop _ (hasHigh_drop _ h)
        obtain ⟨h1, h2⟩ := ih ((c :: r).drop len) (off + ignoredLen false rest + len) hsub
        refine ⟨?_, h2⟩
        intro gt hgt
        rcases List.mem_cons.mp hgt with rfl | hm
        · exact hasHigh_take _ h
        · exact h1 gt hm

/-! ### numbers: the byte after a number token cannot continue it -/

theorem spanLen_next (p : UInt8 → Bool) : ∀ (l : Bytes) (d : UInt8), (l.drop (spanLen p l)).head? = some d → p d = false := by
  intro l
  induction l with
  | nil => intro d h; simp [spanLen] at h
  | cons c r ih =>
    intro d h
    simp only [spanLen] at h
    cases hp : p c
    · simp only [hp, Bool.false_eq_true, if_false, List.drop_zero, List.head?_cons, Option.some.injEq] at h
      rw [← h]; exact hp
    · simp only [hp, if_true, List.drop_succ_cons] at h
      exact ih d h

theorem digitsLen_next (l : Bytes) (d : UInt8) (h : (l.drop (digitsLen l)).head? = some d) : ¬ isDigitByte d := by
  have := spanLen_next _ l d h
  simpa using this

theorem integerPart_follow {bs : Bytes} {i : Nat} (h : integerPart bs = .ok i) (d : UInt8)
    (hd : (bs.drop i).head? = some d) : ¬ isDigitByte d := by
  unfold integerPart at h
  match bs with
  | [] => simp at h
  | c :: r =>
    simp only at h
    by_cases hm : c = 45
    · simp only [hm, if_true, List.drop_succ_cons, List.drop_zero] at h
      match r with
      | [] => simp at h
      | c2 :: r2 =>
        simp only at h
        by_cases h0 : c2 = 48
        · simp only [h0, if_true] at h
          match r2 with
          | [] => simp only [Except.ok.injEq] at h; subst h; simp at hd
          | d2 :: r3 =>
            simp only at h
            by_cases hdd : isDigitByte d2
            · simp [hdd] at h
            · simp only [hdd, if_false, Except.ok.injEq] at h; subst h
              simp only [List.drop_succ_cons, List.drop_zero, List.head?_cons, Option.some.injEq] at hd
              rw [← hd]; exact hdd
        · simp only [h0, if_false] at h
          by_cases hdd : isDigitByte c2
          · simp only [hdd, if_true, Except.ok.injEq] at h; subst h
            rw [Nat.add_comm, List.drop_succ_cons] at hd
            exact digitsLen_next _ d hd
          · simp [hdd] at h
    · simp only [hm, if_false, List.drop_zero] at h
      by_cases h0 : c = 48
      · simp only [h0, if_true] at h
        match r with
        | [] => simp only [Except.ok.injEq] at h; subst h; simp at hd
        | d2 :: r3 =>
          simp only at h
          by_cases hdd : isDigitByte d2
          · simp [hdd] at h
          · simp only [hdd, if_false, Except.ok.injEq] at h; subst h
            simp only [List.drop_succ_cons, List.drop_zero, List.head?_cons, Option.some.injEq] at hd
            rw [← hd]; exact hdd
      · simp only [h0, if_false] at h
        by_cases hdd : isDigitByte c
        · simp only [hdd, if_true, Except.ok.injEq, Nat.zero_add] at h; subst h
          exact digitsLen_next _ d hd
        · simp [hdd] at h

theorem fractionalPart_follow {bs : Bytes} {fl : Nat} (h : fractionalPart bs = .ok fl) (d : UInt8)
    (hd : (bs.drop fl).head? = some d) : (fl = 0 → d ≠ 46) ∧ (0 < fl → ¬ isDigitByte d) := by
  unfold fractionalPart at h
  match bs with
  | [] => simp at hd
  | c :: r =>
    simp only at h
    by_cases hdot : c = 46
    · simp only [hdot, if_true] at h
      by_cases hz : digitsLen r = 0
      · simp [hz] at h
      · simp only [hz, if_false, Except.ok.injEq] at h; subst h
        rw [Nat.add_comm, List.drop_succ_cons] at hd
        exact ⟨fun h0 => by omega, fun _ => digitsLen_next _ d hd⟩
    · simp only [hdot, if_false, Except.ok.injEq] at h; subst h
      simp only [List.drop_zero, List.head?_cons, Option.some.injEq] at hd
      subst hd
      exact ⟨fun _ => hdot, fun h0 => by omega⟩

theorem exp_follow_aux (c : UInt8) (r : Bytes) (sign x : Nat) (d : UInt8)
    (h : (if digitsLen (r.drop sign) = 0 then .error (1 + sign, .expectedDigit)
          else .ok (1 + sign + digitsLen (r.drop sign)) : Except (Nat × ErrKind) Nat) = .ok x)
    (hd : ((c :: r).drop x).head? = some d) : 0 < x ∧ ¬ isDigitByte d := by
  by_cases hz : digitsLen (r.drop sign) = 0
  · simp [hz] at h
  · simp only [hz, if_false, Except.ok.injEq] at h; subst h
    refine ⟨by omega, ?_⟩
    have e : 1 + sign + digitsLen (r.drop sign) = (sign + digitsLen (r.drop sign)) + 1 := by omega
    rw [e, List.drop_succ_cons, ← List.drop_drop] at hd
    exact digitsLen_next _ d hd

theorem exponentPart_follow {bs : Bytes} {x : Nat} (h : exponentPart bs = .ok x) (d : UInt8)
    (hd : (bs.drop x).head? = some d) : (x = 0 → d ≠ 69 ∧ d ≠ 101) ∧ (0 < x → ¬ isDigitByte d) := by
  unfold exponentPart at h
  match bs with
  | [] => simp at hd
  | c :: r =>
    simp only at h
    by_cases he : c = 69 ∨ c = 101
    · simp only [he, if_true] at h
      have := exp_follow_aux c r _ x d h hd
      exact ⟨fun h0 => by omega, fun _ => this.2⟩
    · simp only [he, if_false, Except.ok.injEq] at h; subst h
      simp only [List.drop_zero, List.head?_cons, Option.some.injEq] at hd
      subst hd
      exact ⟨fun _ => ⟨fun h1 => he (Or.inl h1), fun h1 => he (Or.inr h1)⟩, fun h0 => by omega⟩

/-- the byte after a number lexeme is not a digit; after an Int it is none of `.`, `e`, `E` -/
theorem number_follow {bs : Bytes} {k : TokenKind} {len : Nat} (h : number bs = .ok (k, len)) (d : UInt8)
    (hd : (bs.drop len).head? = some d) : ¬ isDigitByte d ∧ (k = .int → d ≠ 46 ∧ d ≠ 69 ∧ d ≠ 101) := by
  unfold number at h
  match hi : integerPart bs with
  | .error e => rw [hi] at h; simp at h
  | .ok i =>
    rw [hi] at h; simp only at h
    match hf : fractionalPart (bs.drop i) with
    | .error (o, e) => rw [hf] at h; simp at h
    | .ok fl =>
      rw [hf] at h; simp only at h
      match hx : exponentPart (bs.drop (i + fl)) with
      | .error (o, e) => rw [hx] at h; simp at h
      | .ok x =>
        rw [hx] at h; simp only [Except.ok.injEq, Prod.mk.injEq] at h
        obtain ⟨hk, hlen⟩ := h
        subst hlen
        have hdx : ((bs.drop (i + fl)).drop x).head? = some d := by rw [List.drop_drop]; exact hd
        have ex := exponentPart_follow hx d hdx
        by_cases hx0 : x = 0
        · subst hx0
          have hdf : ((bs.drop i).drop fl).head? = some d := by rw [List.drop_drop]; simpa using hd
          have ef := fractionalPart_follow hf d hdf
          by_cases hf0 : fl = 0
          · subst hf0
            have ei := integerPart_follow hi d (by simpa using hd)
            exact ⟨ei, fun _ => ⟨ef.1 rfl, (ex.1 rfl).1, (ex.1 rfl).2⟩⟩
          · refine ⟨ef.2 (by omega), fun hkk => ?_⟩
            rw [← hk, if_neg (by omega)] at hkk; cases hkk
        · refine ⟨ex.2 (by omega), fun hkk => ?_⟩
          rw [← hk, if_neg (by omega)] at hkk; cases hkk

end GqlModel.Lexer
