import GqlProofs.ExecGroupsInv
/-! C13 / C20: shape of the resolver invocation log. Every call of the four mutually recursive functions appends a
segment to the log; the segment of `execGroups` is the concatenation, in group order, of one block per group whose
entries all lie under `path ++ [key]`; within a segment all paths are pairwise distinct. -/
namespace GqlModel.Exec

theorem List.nodup_reverse' {α : Type} {l : List α} : l.reverse.Nodup ↔ l.Nodup := (List.reverse_perm l).nodup_iff

/-- `q` strictly extends `p` -/
def Path.Below (p q : Path) : Prop := ∃ seg rest, q = p ++ seg :: rest

theorem Path.Below.prefix {p q : Path} (h : Path.Below p q) : p <+: q := by
  obtain ⟨seg, rest, rfl⟩ := h
  exact List.prefix_append _ _

theorem Path.Below.ne {p q : Path} (h : Path.Below p q) : q ≠ p := by
  obtain ⟨seg, rest, rfl⟩ := h
  intro he
  have := congrArg List.length he
  simp at this

theorem Path.below_of_prefix_snoc {p q : Path} {s : PathSeg} (h : (p ++ [s]) <+: q) : Path.Below p q := by
  obtain ⟨t, rfl⟩ := h
  exact ⟨s, t, by simp⟩

theorem Path.prefix_of_prefix_snoc {p q : Path} {s : PathSeg} (h : (p ++ [s]) <+: q) : p <+: q :=
  (Path.below_of_prefix_snoc h).prefix

/-- two different segments after the same prefix lead to different paths -/
theorem Path.seg_eq_of_prefix {p q : Path} {s1 s2 : PathSeg} (h1 : (p ++ [s1]) <+: q) (h2 : (p ++ [s2]) <+: q) :
    s1 = s2 := by
  obtain ⟨t1, rfl⟩ := h1
  obtain ⟨t2, h2⟩ := h2
  simp only [List.append_assoc, List.append_cancel_left_eq, List.singleton_append, List.cons.injEq] at h2
  exact h2.1.symm

/-- the log segment of a selection set (oldest first): one block per group, in group order -/
def Blocks (path : Path) : List String → List LogEntry → Prop
  | [], log => log = []
  | k :: ks, log => ∃ b rest, log = b ++ rest ∧ (∀ e, e ∈ b → (path ++ [.key k]) <+: e.path) ∧
      (b.map (·.path)).Nodup ∧ Blocks path ks rest

theorem Blocks.mem {path : Path} : ∀ {ks : List String} {log : List LogEntry}, Blocks path ks log →
    ∀ e, e ∈ log → ∃ k, k ∈ ks ∧ (path ++ [.key k]) <+: e.path
  | [], log, h, e, he => by simp only [Blocks] at h; subst h; cases he
  | k :: ks, log, h, e, he => by
    obtain ⟨b, rest, rfl, hb, -, hr⟩ := h
    rcases List.mem_append.mp he with he | he
    · exact ⟨k, List.mem_cons_self, hb e he⟩
    · obtain ⟨k', hk', hp⟩ := Blocks.mem hr e he
      exact ⟨k', List.mem_cons_of_mem _ hk', hp⟩

theorem Blocks.nodup {path : Path} : ∀ {ks : List String} {log : List LogEntry}, Blocks path ks log → ks.Nodup →
    (log.map (·.path)).Nodup
  | [], log, h, _ => by simp only [Blocks] at h; subst h; simp
  | k :: ks, log, h, hn => by
    obtain ⟨b, rest, rfl, hb, hbn, hr⟩ := h
    rw [List.nodup_cons] at hn
    rw [List.map_append, List.nodup_append]
    refine ⟨hbn, Blocks.nodup hr hn.2, ?_⟩
    intro q1 h1 q2 h2 heq
    subst heq
    obtain ⟨e1, he1, rfl⟩ := List.mem_map.mp h1
    obtain ⟨e2, he2, hq⟩ := List.mem_map.mp h2
    obtain ⟨k', hk', hp⟩ := Blocks.mem hr e2 he2
    have := Path.seg_eq_of_prefix (hb e1 he1) (hq ▸ hp)
    simp only [PathSeg.key.injEq] at this
    subst this
    exact hn.1 hk'

theorem Blocks.nil (path : Path) : ∀ (ks : List String), Blocks path ks []
  | [] => rfl
  | _ :: ks => ⟨[], [], rfl, by simp, by simp, Blocks.nil path ks⟩

theorem Blocks.cons_empty {path : Path} {ks : List String} {log : List LogEntry} (k : String)
    (h : Blocks path ks log) : Blocks path (k :: ks) log :=
  ⟨[], log, rfl, by simp, by simp, h⟩

structure LogP (c : Ctx) (fuel : Nat) : Prop where
  groups : ∀ dfr rt src path groups acc st r st',
    execGroups c fuel dfr rt src path groups acc st = (r, st') →
    ∃ new, st'.log = new ++ st.log ∧ Blocks path (groups.map (·.1)) new.reverse
  field : ∀ dfr rt src p fd nodes st r st',
    execField c fuel dfr rt src p fd nodes st = (r, st') →
    ∃ new, st'.log = new ++ st.log ∧ (∀ e, e ∈ new → p <+: e.path) ∧ (new.map (·.path)).Nodup
  complete : ∀ dfr t rt fname nodes p v st r st',
    complete c fuel dfr t rt fname nodes p v st = (r, st') →
    ∃ new, st'.log = new ++ st.log ∧ (∀ e, e ∈ new → Path.Below p e.path) ∧ (new.map (·.path)).Nodup
  items : ∀ dfr item rt fname nodes p xs i acc st r st',
    completeItems c fuel dfr item rt fname nodes p xs i acc st = (r, st') →
    ∃ new, st'.log = new ++ st.log ∧ (∀ e, e ∈ new → ∃ j, i ≤ j ∧ (p ++ [.idx j]) <+: e.path) ∧
      (new.map (·.path)).Nodup

theorem logP_zero (c : Ctx) : LogP c 0 := by
  refine ⟨?_, ?_, ?_, ?_⟩
  · intro dfr rt src path groups acc st r st' h
    simp only [execGroups, Prod.mk.injEq] at h
    exact ⟨[], by simp [← h.2], by simpa using Blocks.nil path _⟩
  · intro dfr rt src p fd nodes st r st' h
    simp only [execField, Prod.mk.injEq] at h
    exact ⟨[], by simp [← h.2], by simp, by simp⟩
  · intro dfr t rt fname nodes p v st r st' h
    simp only [complete, Prod.mk.injEq] at h
    exact ⟨[], by simp [← h.2], by simp, by simp⟩
  · intro dfr item rt fname nodes p xs i acc st r st' h
    simp only [completeItems, Prod.mk.injEq] at h
    exact ⟨[], by simp [← h.2], by simp, by simp⟩

theorem logP_groups (c : Ctx) (fuel : Nat) (ih : LogP c fuel) :
    ∀ dfr rt src path groups acc st r st',
    execGroups c (fuel + 1) dfr rt src path groups acc st = (r, st') →
    ∃ new, st'.log = new ++ st.log ∧ Blocks path (groups.map (·.1)) new.reverse := by
  intro dfr rt src path groups acc st r st' h
  cases groups with
  | nil =>
    simp only [execGroups, Prod.mk.injEq] at h
    exact ⟨[], by simp [← h.2], rfl⟩
  | cons g rest =>
    obtain ⟨key, nodes⟩ := g
    simp only [execGroups] at h
    split at h
    · obtain ⟨new, h1, h2⟩ := ih.groups _ _ _ _ _ _ _ _ _ h
      exact ⟨new, h1, Blocks.cons_empty key h2⟩
    · split at h
      · obtain ⟨new, h1, h2⟩ := ih.groups _ _ _ _ _ _ _ _ _ h
        exact ⟨new, h1, Blocks.cons_empty key h2⟩
      · rename_i fd hfd
        rcases hf : execField c fuel dfr rt src (path ++ [.key key]) fd nodes st with ⟨r1, st1⟩
        rw [hf] at h
        obtain ⟨new1, hl1, hp1, hn1⟩ := ih.field _ _ _ _ _ _ _ _ _ hf
        have hblock : ∀ (st2 : St), st2 = st1 → ∃ new, st2.log = new ++ st.log ∧
            Blocks path (key :: rest.map (·.1)) new.reverse := by
          intro st2 h2
          subst h2
          refine ⟨new1, hl1, new1.reverse, [], by simp, ?_, ?_, Blocks.nil _ _⟩
          · intro e he; exact hp1 e (List.mem_reverse.mp he)
          · rw [List.map_reverse]; exact List.nodup_reverse'.mpr hn1
        cases r1 with
        | ok v =>
          simp only at h
          obtain ⟨new2, hl2, hb2⟩ := ih.groups _ _ _ _ _ _ _ _ _ h
          refine ⟨new2 ++ new1, by rw [hl2, hl1, List.append_assoc], ?_⟩
          simp only [List.map_cons, List.reverse_append]
          refine ⟨new1.reverse, new2.reverse, rfl, ?_, ?_, hb2⟩
          · intro e he; exact hp1 e (List.mem_reverse.mp he)
          · rw [List.map_reverse]; exact List.nodup_reverse'.mpr hn1
        | fail =>
          simp only [Prod.mk.injEq] at h
          exact hblock st' h.2.symm
        | fuelOut =>
          simp only [Prod.mk.injEq] at h
          exact hblock st' h.2.symm

theorem logP_field (c : Ctx) (fuel : Nat) (ih : LogP c fuel) :
    ∀ dfr rt src p fd nodes st r st',
    execField c (fuel + 1) dfr rt src p fd nodes st = (r, st') →
    ∃ new, st'.log = new ++ st.log ∧ (∀ e, e ∈ new → p <+: e.path) ∧ (new.map (·.path)).Nodup := by
  intro dfr rt src p fd nodes st r st' h
  simp only [execField] at h
  split at h
  · simp only [Prod.mk.injEq] at h
    exact ⟨[], by simp [← h.2], by simp, by simp⟩
  · -- one entry at `p`, then the segment of `complete` strictly below `p`
    have hone : ∀ (e : LogEntry) (st0 st2 : St), e.path = p → st0.log = e :: st.log → st2.log = st0.log →
        ∃ new, st2.log = new ++ st.log ∧ (∀ e, e ∈ new → p <+: e.path) ∧ (new.map (·.path)).Nodup := by
      intro e st0 st2 hp h0 h2
      refine ⟨[e], by rw [h2, h0]; rfl, ?_, by simp⟩
      intro e' he'; simp only [List.mem_singleton] at he'; subst he'; rw [hp]; exact List.prefix_refl _
    split at h
    · split at h
      · simp only [Prod.mk.injEq] at h
        exact hone _ _ st' rfl rfl (by rw [← h.2])
      · simp only [Prod.mk.injEq] at h
        exact hone _ _ st' rfl rfl (by rw [← h.2])
    · rename_i v hv
      generalize hst0 : ({ st with log := _ :: st.log } : St) = st0 at h
      obtain ⟨ent, hentp, h0⟩ : ∃ ent : LogEntry, ent.path = p ∧ st0.log = ent :: st.log := by
        rw [← hst0]; exact ⟨_, rfl, rfl⟩
      rcases hc : complete c fuel dfr fd.type rt fd.name nodes p v st0 with ⟨r1, st1⟩
      rw [hc] at h
      obtain ⟨cnew, hl, hb, hn⟩ := ih.complete _ _ _ _ _ _ _ _ _ _ hc
      have hfin : ∀ (st2 : St), st2.log = st1.log →
          ∃ new, st2.log = new ++ st.log ∧ (∀ e, e ∈ new → p <+: e.path) ∧ (new.map (·.path)).Nodup := by
        intro st2 h2
        refine ⟨cnew ++ [ent], by rw [h2, hl, h0]; simp, ?_, ?_⟩
        · intro e he
          rcases List.mem_append.mp he with he | he
          · exact (hb e he).prefix
          · simp only [List.mem_singleton] at he; subst he; rw [hentp]; exact List.prefix_refl _
        · rw [List.map_append, List.nodup_append]
          refine ⟨hn, by simp, ?_⟩
          intro q1 h1 q2 h2 heq
          simp only [List.map_cons, List.map_nil, List.mem_singleton] at h2
          obtain ⟨e1, he1, rfl⟩ := List.mem_map.mp h1
          exact (hb e1 he1).ne (heq.trans (h2.trans hentp))
      cases r1 with
      | ok j => simp only [Prod.mk.injEq] at h; exact hfin st' (by rw [← h.2])
      | fail =>
        simp only at h
        split at h <;> simp only [Prod.mk.injEq] at h <;> exact hfin st' (by rw [← h.2])
      | fuelOut => simp only [Prod.mk.injEq] at h; exact hfin st' (by rw [← h.2])

theorem logP_items (c : Ctx) (fuel : Nat) (ih : LogP c fuel) :
    ∀ dfr item rt fname nodes p xs i acc st r st',
    completeItems c (fuel + 1) dfr item rt fname nodes p xs i acc st = (r, st') →
    ∃ new, st'.log = new ++ st.log ∧ (∀ e, e ∈ new → ∃ j, i ≤ j ∧ (p ++ [.idx j]) <+: e.path) ∧
      (new.map (·.path)).Nodup := by
  intro dfr item rt fname nodes p xs i acc st r st' h
  cases xs with
  | nil =>
    simp only [completeItems, Prod.mk.injEq] at h
    exact ⟨[], by simp [← h.2], by simp, by simp⟩
  | cons x xs =>
    simp only [completeItems] at h
    rcases hc : complete c fuel dfr item rt fname nodes (p ++ [.idx i]) x st with ⟨r1, st1⟩
    rw [hc] at h
    obtain ⟨new1, hl1, hb1, hn1⟩ := ih.complete _ _ _ _ _ _ _ _ _ _ hc
    have hp1 : ∀ e, e ∈ new1 → ∃ j, i ≤ j ∧ (p ++ [.idx j]) <+: e.path :=
      fun e he => ⟨i, Nat.le_refl _, (hb1 e he).prefix⟩
    have hstop : ∀ (st2 : St), st2 = st1 → ∃ new, st2.log = new ++ st.log ∧
        (∀ e, e ∈ new → ∃ j, i ≤ j ∧ (p ++ [.idx j]) <+: e.path) ∧ (new.map (·.path)).Nodup := by
      intro st2 h2; subst h2; exact ⟨new1, hl1, hp1, hn1⟩
    have hgo : ∀ acc', completeItems c fuel dfr item rt fname nodes p xs (i + 1) acc' st1 = (r, st') →
        ∃ new, st'.log = new ++ st.log ∧
        (∀ e, e ∈ new → ∃ j, i ≤ j ∧ (p ++ [.idx j]) <+: e.path) ∧ (new.map (·.path)).Nodup := by
      intro acc' h
      obtain ⟨new2, hl2, hp2, hn2⟩ := ih.items _ _ _ _ _ _ _ _ _ _ _ _ h
      refine ⟨new2 ++ new1, by rw [hl2, hl1, List.append_assoc], ?_, ?_⟩
      · intro e he
        rcases List.mem_append.mp he with he | he
        · obtain ⟨j, hj, hp⟩ := hp2 e he
          exact ⟨j, by omega, hp⟩
        · exact hp1 e he
      · rw [List.map_append, List.nodup_append]
        refine ⟨hn2, hn1, ?_⟩
        intro q1 h1 q2 h2 heq
        subst heq
        obtain ⟨e2, he2, rfl⟩ := List.mem_map.mp h1
        obtain ⟨e1, he1, hq⟩ := List.mem_map.mp h2
        obtain ⟨j, hj, hp⟩ := hp2 e2 he2
        have := Path.seg_eq_of_prefix hp (hq ▸ (hb1 e1 he1).prefix)
        simp only [PathSeg.idx.injEq] at this
        omega
    cases r1 with
    | ok j => exact hgo _ h
    | fail =>
      simp only at h
      split at h
      · simp only [Prod.mk.injEq] at h; exact hstop st' h.2.symm
      · exact hgo _ h
    | fuelOut => simp only [Prod.mk.injEq] at h; exact hstop st' h.2.symm

theorem logP_complete (c : Ctx) (fuel : Nat) (ih : LogP c fuel) :
    ∀ dfr t rt fname nodes p v st r st',
    complete c (fuel + 1) dfr t rt fname nodes p v st = (r, st') →
    ∃ new, st'.log = new ++ st.log ∧ (∀ e, e ∈ new → Path.Below p e.path) ∧ (new.map (·.path)).Nodup := by
  intro dfr t rt fname nodes p v st r st' h
  have hnone : ∀ (st2 : St), st2.log = st.log →
      ∃ new, st2.log = new ++ st.log ∧ (∀ e, e ∈ new → Path.Below p e.path) ∧ (new.map (·.path)).Nodup :=
    fun st2 h2 => ⟨[], by simp [h2], by simp, by simp⟩
  have hgroups : ∀ ot, ∀ (rr : Res (List (String × JVal)) × St),
      execGroups c fuel dfr ot v p (collectMerged c ot nodes) [] st = rr →
      ∃ new, rr.2.log = new ++ st.log ∧ (∀ e, e ∈ new → Path.Below p e.path) ∧ (new.map (·.path)).Nodup := by
    intro ot rr hg
    obtain ⟨r1, st1⟩ := rr
    obtain ⟨new, hl, hb⟩ := ih.groups _ _ _ _ _ _ _ _ _ hg
    refine ⟨new, hl, ?_, ?_⟩
    · intro e he
      obtain ⟨k, -, hp⟩ := hb.mem e (List.mem_reverse.mpr he)
      exact Path.below_of_prefix_snoc hp
    · have := hb.nodup (collectMerged_keys_nodup c ot nodes)
      rw [List.map_reverse] at this
      exact List.nodup_reverse'.mp this
  simp only [complete] at h
  split at h
  · -- thunk
    split at h
    · simp only [Prod.mk.injEq] at h; exact hnone st' (by rw [← h.2]; rfl)
    · rename_i v'
      rcases hc : complete c fuel true t rt fname nodes p v' st with ⟨r1, st1⟩
      rw [hc] at h
      obtain ⟨new, hl, hb, hn⟩ := ih.complete _ _ _ _ _ _ _ _ _ _ hc
      refine ⟨new, ?_, hb, hn⟩
      rw [← hl]
      cases r1 <;> simp only [Prod.mk.injEq] at h <;> rw [← h.2]
  · simp only [Prod.mk.injEq] at h; exact hnone st' (by rw [← h.2]; rfl)
  · split at h
    · -- nonNull
      rename_i inner
      rcases hc : complete c fuel dfr inner rt fname nodes p v st with ⟨r1, st1⟩
      rw [hc] at h
      obtain ⟨new, hl, hb, hn⟩ := ih.complete _ _ _ _ _ _ _ _ _ _ hc
      refine ⟨new, ?_, hb, hn⟩
      rw [← hl]
      split at h
      · rename_i heq
        simp only [Prod.mk.injEq] at h heq
        rw [← h.2, ← heq.2]; rfl
      · simp only [Prod.mk.injEq] at h; rw [← h.2]
    · -- list
      rename_i item
      split at h
      · simp only [Prod.mk.injEq] at h; exact hnone st' (by rw [← h.2])
      · split at h
        · rename_i xs _ _ _
          rcases hi : completeItems c fuel dfr item rt fname nodes p xs 0 [] st with ⟨r1, st1⟩
          rw [hi] at h
          obtain ⟨new, hl, hp, hn⟩ := ih.items _ _ _ _ _ _ _ _ _ _ _ _ hi
          refine ⟨new, ?_, ?_, hn⟩
          · rw [← hl]; cases r1 <;> simp only [Prod.mk.injEq] at h <;> rw [← h.2]
          · intro e he
            obtain ⟨j, -, hpj⟩ := hp e he
            exact Path.below_of_prefix_snoc hpj
        · simp only [Prod.mk.injEq] at h; exact hnone st' (by rw [← h.2]; rfl)
    · -- named
      rename_i n
      split at h
      · simp only [Prod.mk.injEq] at h; exact hnone st' (by rw [← h.2])
      · split at h
        · split at h
          · simp only [Prod.mk.injEq] at h; exact hnone st' (by rw [← h.2])
          · simp only [Prod.mk.injEq] at h; exact hnone st' (by rw [← h.2]; rfl)
        · split at h
          · split at h
            · simp only [Prod.mk.injEq] at h; exact hnone st' (by rw [← h.2]; rfl)
            · rename_i ot hot
              split at h
              · simp only [Prod.mk.injEq] at h; exact hnone st' (by rw [← h.2]; rfl)
              · have := hgroups ot _ rfl
                rcases hg : execGroups c fuel dfr ot v p (collectMerged c ot nodes) [] st with ⟨r1, st1⟩
                rw [hg] at h this
                cases r1 <;> simp only [Prod.mk.injEq] at h <;> rw [← h.2] <;> exact this
          · split at h
            · split at h
              · simp only [Prod.mk.injEq] at h; exact hnone st' (by rw [← h.2]; rfl)
              · have := hgroups n _ rfl
                rcases hg : execGroups c fuel dfr n v p (collectMerged c n nodes) [] st with ⟨r1, st1⟩
                rw [hg] at h this
                cases r1 <;> simp only [Prod.mk.injEq] at h <;> rw [← h.2] <;> exact this
            · simp only [Prod.mk.injEq] at h; exact hnone st' (by rw [← h.2]; rfl)

theorem logP (c : Ctx) : ∀ fuel, LogP c fuel
  | 0 => logP_zero c
  | fuel + 1 =>
    have ih := logP c fuel
    ⟨logP_groups c fuel ih, logP_field c fuel ih, logP_complete c fuel ih, logP_items c fuel ih⟩

theorem eq_of_nodup_map_path {log : List LogEntry} (hn : (log.map (·.path)).Nodup) {e e' : LogEntry}
    (he : e ∈ log) (he' : e' ∈ log) (hp : e'.path = e.path) : e' = e := by
  induction log with
  | nil => cases he
  | cons a log ih =>
    rw [List.map_cons, List.nodup_cons] at hn
    rcases List.mem_cons.mp he with h1 | h1 <;> rcases List.mem_cons.mp he' with h2 | h2
    · rw [h1, h2]
    · exfalso; apply hn.1; rw [← h1, ← hp]; exact List.mem_map.mpr ⟨_, h2, rfl⟩
    · exfalso; apply hn.1; rw [← h2, hp]; exact List.mem_map.mpr ⟨_, h1, rfl⟩
    · exact ih hn.2 h1 h2

end GqlModel.Exec
