import GqlProofs.LexerRelex
import GqlModel.LexerGrammar
/-! `Spec.stringBody` (the executable reading) is sound and complete for the derivation relation `StrChars`. -/
namespace GqlModel.Lexer
open GqlModel.Utf8 GqlModel.Lexer.Spec

theorem stringBody_strChar {l v : Bytes} (h : StrChar l v) (tail : Bytes) :
    stringBody (l ++ tail) = adv l.length v (stringBody tail) := by
  cases h with
  | plain c h1 h2 h3 h4 h5 =>
    simp only [List.singleton_append, List.length_singleton]
    have g2 : ¬ (c = 10 ∨ c = 13) := by intro h; rcases h with h | h <;> contradiction
    have g3 : ¬ (c.toNat < 32 ∧ c ≠ 9) := by
      intro h; rcases h5 with h5 | h5
      · omega
      · exact h.2 h5
    rw [stringBody_cons, if_neg h1, if_neg g2, if_neg g3, if_neg h2]
  | esc e b he =>
    simp only [List.cons_append, List.nil_append, List.length_cons, List.length_nil]
    rw [stringBody_cons]
    simp (decide := true) only [if_false, if_true, he]
  | uni h1 h2 h3 h4 u hu =>
    simp only [List.cons_append, List.nil_append, List.length_cons, List.length_nil]
    rw [stringBody_cons]
    have e : escapedCharacter 117 = none := by decide
    simp (decide := true) only [if_false, if_true, e, hu]

/-- completeness: a derivable body followed by the closing quote scans to its value -/
theorem stringBody_complete {body v : Bytes} (h : StrChars body v) (rest : Bytes) :
    stringBody (body ++ 34 :: rest) = .ok (body.length + 1, v) := by
  induction h with
  | nil => simp [stringBody_cons]
  | cons hc _ ih =>
    rw [List.append_assoc, stringBody_strChar hc, ih]
    simp only [adv_ok, List.length_append]
    congr 2; omega

/-- soundness: whatever the scan accepts is a derivable body followed by the closing quote, with that value -/
theorem stringBody_sound : ∀ (n : Nat) (bs : Bytes), bs.length ≤ n → ∀ len v, stringBody bs = .ok (len, v) →
    ∃ body rest, bs = body ++ 34 :: rest ∧ len = body.length + 1 ∧ StrChars body v := by
  intro n
  induction n with
  | zero => intro bs h len v hs; match bs with
    | [] => simp [stringBody] at hs
  | succ n ih =>
    intro bs hl len v hs
    match bs with
    | [] => simp [stringBody] at hs
    | c :: r =>
      simp only [List.length_cons] at hl
      rw [stringBody_cons] at hs
      by_cases h34 : c = 34
      · rw [if_pos h34] at hs
        simp only [Except.ok.injEq, Prod.mk.injEq] at hs
        obtain ⟨rfl, rfl⟩ := hs
        exact ⟨[], r, by simp [h34], rfl, .nil⟩
      rw [if_neg h34] at hs
      by_cases hlt : c = 10 ∨ c = 13
      · rw [if_pos hlt] at hs; simp at hs
      rw [if_neg hlt] at hs
      by_cases hctl : c.toNat < 32 ∧ c ≠ 9
      · rw [if_pos hctl] at hs; simp at hs
      rw [if_neg hctl] at hs
      by_cases hbs : c = 92
      · rw [if_pos hbs] at hs
        subst hbs
        match r with
        | [] => simp at hs
        | e :: r1 =>
          simp only [List.length_cons] at hl
          simp only at hs
          cases hesc : escapedCharacter e with
          | some b =>
            rw [hesc] at hs; simp only at hs
            obtain ⟨len', v', hx, rfl, rfl⟩ := adv_eq_ok hs
            obtain ⟨body, rest, rfl, rfl, hd⟩ := ih r1 (by omega) len' v' hx
            exact ⟨[92, e] ++ body, rest, by simp, by simp, .cons (.esc e b hesc) hd⟩
          | none =>
            rw [hesc] at hs; simp only at hs
            by_cases hu : e = 117
            · rw [if_pos hu] at hs
              subst hu
              match r1 with
              | h1 :: h2 :: h3 :: h4 :: r2 =>
                simp only [List.length_cons] at hl
                simp only at hs
                cases huc : escapedUnicode h1 h2 h3 h4 with
                | none => rw [huc] at hs; simp at hs
                | some u =>
                  rw [huc] at hs; simp only at hs
                  obtain ⟨len', v', hx, rfl, rfl⟩ := adv_eq_ok hs
                  obtain ⟨body, rest, rfl, rfl, hd⟩ := ih r2 (by omega) len' v' hx
                  exact ⟨[92, 117, h1, h2, h3, h4] ++ body, rest, by simp, by simp, .cons (.uni h1 h2 h3 h4 u huc) hd⟩
              | [] => simp at hs
              | [_] => simp at hs
              | [_, _] => simp at hs
              | [_, _, _] => simp at hs
            · rw [if_neg hu] at hs; simp at hs
      · rw [if_neg hbs] at hs
        obtain ⟨len', v', hx, rfl, rfl⟩ := adv_eq_ok hs
        obtain ⟨body, rest, rfl, rfl, hd⟩ := ih r (by omega) len' v' hx
        have h5 : 32 ≤ c.toNat ∨ c = 9 := by
          by_cases h9 : c = 9
          · exact Or.inr h9
          · left; have : ¬ c.toNat < 32 := fun h => hctl ⟨h, h9⟩; omega
        exact ⟨[c] ++ body, rest, by simp, by simp,
          .cons (.plain c h34 hbs (fun h => hlt (Or.inl h)) (fun h => hlt (Or.inr h)) h5) hd⟩

/-! ### numbers: what `Spec.number` accepts is an IntValue / FloatValue of the grammar -/

theorem spanLen_take_all (p : UInt8 → Bool) : ∀ (l : Bytes), ∀ x ∈ l.take (spanLen p l), p x = true := by
  intro l
  induction l with
  | nil => intro x hx; simp [spanLen] at hx
  | cons c r ih =>
    intro x hx
    simp only [spanLen] at hx
    cases hp : p c
    · simp [hp] at hx
    · simp only [hp, if_true, List.take_succ_cons, List.mem_cons] at hx
      rcases hx with rfl | hx
      · exact hp
      · exact ih x hx

theorem digitsLen_take_all (l : Bytes) : AllDigits (l.take (digitsLen l)) := by
  intro x hx
  have := spanLen_take_all _ l x hx
  simpa using this

theorem integerPart_sound {bs : Bytes} {i : Nat} (h : integerPart bs = .ok i) : IsIntegerPart (bs.take i) := by
  unfold integerPart at h
  match bs with
  | [] => simp at h
  | c :: r =>
    simp only at h
    by_cases hm : c = 45
    · simp only [hm, if_true, List.drop_succ_cons, List.drop_zero] at h
      match r with
      | [] => simp at h
      | c2 :: r2 =>
        simp only at h
        by_cases h0 : c2 = 48
        · simp only [h0, if_true] at h
          have hi : i = 2 := by
            match r2 with
            | [] => simpa using h.symm
            | d2 :: r3 =>
              simp only at h
              by_cases hdd : isDigitByte d2
              · simp [hdd] at h
              · simpa [hdd] using h.symm
          subst hi
          exact ⟨[45], [48], by simp [hm, h0], Or.inr rfl, Or.inl rfl⟩
        · simp only [h0, if_false] at h
          by_cases hdd : isDigitByte c2
          · simp only [hdd, if_true, Except.ok.injEq] at h; subst h
            refine ⟨[45], (c2 :: r2).take (digitsLen (c2 :: r2)), ?_, Or.inr rfl, Or.inr ?_⟩
            · rw [Nat.add_comm, List.take_succ_cons, hm]; rfl
            · have hall := digitsLen_take_all (c2 :: r2)
              rw [digitsLen_cons, if_pos hdd, List.take_succ_cons] at hall ⊢
              exact ⟨c2, _, rfl, hdd, h0, fun x hx => hall x (List.mem_cons_of_mem _ hx)⟩
          · simp [hdd] at h
    · simp only [hm, if_false, List.drop_zero] at h
      by_cases h0 : c = 48
      · simp only [h0, if_true] at h
        have hi : i = 1 := by
          match r with
          | [] => simpa using h.symm
          | d2 :: r3 =>
            simp only at h
            by_cases hdd : isDigitByte d2
            · simp [hdd] at h
            · simpa [hdd] using h.symm
        subst hi
        exact ⟨[], [48], by simp [h0], Or.inl rfl, Or.inl rfl⟩
      · simp only [h0, if_false] at h
        by_cases hdd : isDigitByte c
        · simp only [hdd, if_true, Except.ok.injEq, Nat.zero_add] at h; subst h
          refine ⟨[], (c :: r).take (digitsLen (c :: r)), by simp, Or.inl rfl, Or.inr ?_⟩
          have hall := digitsLen_take_all (c :: r)
          rw [digitsLen_cons, if_pos hdd, List.take_succ_cons] at hall ⊢
          exact ⟨c, _, rfl, hdd, h0, fun x hx => hall x (List.mem_cons_of_mem _ hx)⟩
        · simp [hdd] at h

theorem fractionalPart_sound {bs : Bytes} {fl : Nat} (h : fractionalPart bs = .ok fl) :
    (fl = 0 ∧ bs.take fl = []) ∨ IsFractionalPart (bs.take fl) := by
  unfold fractionalPart at h
  match bs with
  | [] => simp only [Except.ok.injEq] at h; subst h; exact Or.inl ⟨rfl, rfl⟩
  | c :: r =>
    simp only at h
    by_cases hd : c = 46
    · simp only [hd, if_true] at h
      by_cases hz : digitsLen r = 0
      · simp [hz] at h
      · simp only [hz, if_false, Except.ok.injEq] at h; subst h
        right
        refine ⟨r.take (digitsLen r), ?_, ?_, digitsLen_take_all r⟩
        · rw [Nat.add_comm, List.take_succ_cons, hd]
        · intro hnil
          have := congrArg List.length hnil
          have hle := digitsLen_le r
          simp only [List.length_take, List.length_nil] at this; omega
    · simp only [hd, if_false, Except.ok.injEq] at h; subst h; exact Or.inl ⟨rfl, rfl⟩

theorem exponentPart_sound {bs : Bytes} {x : Nat} (h : exponentPart bs = .ok x) :
    (x = 0 ∧ bs.take x = []) ∨ IsExponentPart (bs.take x) := by
  unfold exponentPart at h
  match bs with
  | [] => simp only [Except.ok.injEq] at h; subst h; exact Or.inl ⟨rfl, rfl⟩
  | c :: r =>
    simp only at h
    by_cases he : c = 69 ∨ c = 101
    · simp only [he, if_true] at h
      right
      match r with
      | [] => simp [digitsLen, spanLen] at h
      | s :: r2 =>
        simp only at h
        by_cases hs : s = 43 ∨ s = 45
        · simp only [hs, if_true, List.drop_succ_cons, List.drop_zero] at h
          by_cases hz : digitsLen r2 = 0
          · simp [hz] at h
          · simp only [hz, if_false, Except.ok.injEq] at h; subst h
            refine ⟨c, [s], r2.take (digitsLen r2), ?_, he, ?_, ?_, digitsLen_take_all r2⟩
            · rw [show 1 + 1 + digitsLen r2 = (digitsLen r2 + 1) + 1 by omega, List.take_succ_cons, List.take_succ_cons]; rfl
            · rcases hs with rfl | rfl <;> simp
            · intro hnil
              have := congrArg List.length hnil
              have hle := digitsLen_le r2
              simp only [List.length_take, List.length_nil] at this; omega
        · simp only [hs, if_false, List.drop_zero] at h
          by_cases hz : digitsLen (s :: r2) = 0
          · simp [hz] at h
          · simp only [hz, if_false, Except.ok.injEq] at h; subst h
            refine ⟨c, [], (s :: r2).take (digitsLen (s :: r2)), ?_, he, Or.inl rfl, ?_, digitsLen_take_all (s :: r2)⟩
            · rw [show 1 + 0 + digitsLen (s :: r2) = digitsLen (s :: r2) + 1 by omega, List.take_succ_cons]; rfl
            · intro hnil
              have := congrArg List.length hnil
              have hle := digitsLen_le (s :: r2)
              simp only [List.length_take, List.length_nil] at this; omega
    · simp only [he, if_false, Except.ok.injEq] at h; subst h; exact Or.inl ⟨rfl, rfl⟩

/-- soundness of the number scan for the grammar -/
theorem number_sound {bs : Bytes} {k : TokenKind} {len : Nat} (h : number bs = .ok (k, len)) :
    (k = .int ∧ IsIntValue (bs.take len)) ∨ (k = .float ∧ IsFloatValue (bs.take len)) := by
  unfold number at h
  match hi : integerPart bs with
  | .error e => rw [hi] at h; simp at h
  | .ok i =>
    rw [hi] at h; simp only at h
    match hf : fractionalPart (bs.drop i) with
    | .error (o, e) => rw [hf] at h; simp at h
    | .ok fl =>
      rw [hf] at h; simp only at h
      match hx : exponentPart (bs.drop (i + fl)) with
      | .error (o, e) => rw [hx] at h; simp at h
      | .ok x =>
        rw [hx] at h; simp only [Except.ok.injEq, Prod.mk.injEq] at h
        obtain ⟨hk, hlen⟩ := h
        subst hlen
        have hI := integerPart_sound hi
        have hF := fractionalPart_sound hf
        have hX := exponentPart_sound hx
        have hsplit : bs.take (i + fl + x) = bs.take i ++ (bs.drop i).take fl ++ (bs.drop (i + fl)).take x := by
          rw [List.take_add, List.take_add]
        by_cases hz : fl = 0 ∧ x = 0
        · left
          obtain ⟨rfl, rfl⟩ := hz
          exact ⟨by rw [← hk]; simp, by simpa [IsIntValue] using hI⟩
        · right
          refine ⟨by rw [← hk, if_neg hz], bs.take i, (bs.drop i).take fl, (bs.drop (i + fl)).take x, hsplit, hI, ?_⟩
          rcases hF with ⟨hf0, hfe⟩ | hF
          · rcases hX with ⟨hx0, hxe⟩ | hX
            · exact absurd ⟨hf0, hx0⟩ hz
            · exact Or.inr (Or.inl ⟨hfe, hX⟩)
          · rcases hX with ⟨hx0, hxe⟩ | hX
            · exact Or.inl ⟨hF, hxe⟩
            · exact Or.inr (Or.inr ⟨hF, hX⟩)

end GqlModel.Lexer
