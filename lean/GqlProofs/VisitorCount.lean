import GqlProofs.VisitorParallel
/-! # C19: how many callbacks one traversal makes (on top of C14's model of `visitor.Visit`)

`countV pol` is a visitor whose state is the number of times it has been called and whose decisions
(continue / skip / break) are given by an arbitrary policy — an abstraction of a validation rule as far as the
NUMBER of its callbacks is concerned. -/
namespace GqlModel.Visitor

/-- a visitor that counts its own callbacks and answers with the policy's action -/
def countV (pol : Policy) : Visitor Nat where
  enter := fun n id _ => (n + 1, pol id .enter)
  leave := fun n id _ => (n + 1, pol id .leave)

mutual
theorem count_node (pol : Policy) : ∀ (n : Node) (c : Ctx) (st : Nat),
    (visitNode (countV pol) n c st).1 ≤ st + 2 * n.pre.length
  | .mk id slots, c, st => by
    simp only [visitNode, countV, Node.pre, List.length_cons]
    cases pol id .enter with
    | brk => simp only; omega
    | skip => simp only; omega
    | cont =>
      simp only
      have hs := count_slots pol slots id c.path (c.anc ++ [c.parent]) (st + 1)
      rcases hV : visitSlots (countV pol) id c.path (c.anc ++ [c.parent]) slots (st + 1) with ⟨st2, b⟩
      rw [hV] at hs
      simp only at hs
      have e : countV pol = { enter := fun n id _ => (n + 1, pol id .enter), leave := fun n id _ => (n + 1, pol id .leave) } := rfl
      rw [← e, hV]
      cases b with
      | true => simp only; omega
      | false =>
        simp only
        cases pol id .leave <;> simp only <;> omega
theorem count_slots (pol : Policy) : ∀ (ss : List Slot) (pid : Nat) (path : List Key) (anc : List (Option Nat)) (st : Nat),
    (visitSlots (countV pol) pid path anc ss st).1 ≤ st + 2 * (Slot.preList ss).length
  | [], pid, path, anc, st => by simp [visitSlots, Slot.preList]
  | .absent _ :: rest, pid, path, anc, st => by
    simpa [visitSlots, Slot.preList] using count_slots pol rest pid path anc st
  | .one k n :: rest, pid, path, anc, st => by
    have h1 := count_node pol n ⟨some (.name k), some pid, path ++ [.name k], anc⟩ st
    rcases hV : visitNode (countV pol) n ⟨some (.name k), some pid, path ++ [.name k], anc⟩ st with ⟨st1, b⟩
    rw [hV] at h1
    simp only at h1
    simp only [visitSlots, hV, Slot.preList, List.length_append]
    cases b with
    | true => simp only; omega
    | false =>
      have h2 := count_slots pol rest pid path anc st1
      simp only; omega
  | .many k n ns :: rest, pid, path, anc, st => by
    have h1 := count_elems pol (n :: ns) 0 (path ++ [.name k]) (anc ++ [some pid]) st
    rcases hV : visitElems (countV pol) (path ++ [.name k]) (anc ++ [some pid]) (n :: ns) 0 st with ⟨st1, b⟩
    rw [hV] at h1
    simp only [Node.preList] at h1
    simp only [visitSlots, hV, Slot.preList, List.length_append]
    cases b with
    | true => simp only at h1 ⊢; simp only [List.length_append] at h1; omega
    | false =>
      have h2 := count_slots pol rest pid path anc st1
      simp only at h1 ⊢; simp only [List.length_append] at h1; omega
theorem count_elems (pol : Policy) : ∀ (ns : List Node) (i : Nat) (path : List Key) (anc : List (Option Nat)) (st : Nat),
    (visitElems (countV pol) path anc ns i st).1 ≤ st + 2 * (Node.preList ns).length
  | [], i, path, anc, st => by simp [visitElems, Node.preList]
  | n :: ns, i, path, anc, st => by
    have h1 := count_node pol n ⟨some (.idx i), none, path ++ [.idx i], anc⟩ st
    rcases hV : visitNode (countV pol) n ⟨some (.idx i), none, path ++ [.idx i], anc⟩ st with ⟨st1, b⟩
    rw [hV] at h1
    simp only at h1
    simp only [visitElems, hV, Node.preList, List.length_append]
    cases b with
    | true => simp only; omega
    | false =>
      have h2 := count_elems pol ns (i + 1) path anc st1
      simp only; omega
end

/-- one traversal calls a visitor at most twice per node, whatever it skips or breaks -/
theorem walk_count_le (pol : Policy) (root : Node) : (walk (countV pol) root 0).1 ≤ 2 * root.pre.length := by
  have := count_node pol root ⟨none, none, [], []⟩ 0
  simpa [walk] using this

mutual
theorem events_len_node : ∀ (n : Node) (c : Ctx), (n.events c).length = 2 * n.pre.length
  | .mk id slots, c => by
    simp only [Node.events, Node.pre, List.length_cons, List.length_append, List.length_nil]
    rw [events_len_slots slots id c.path (c.anc ++ [c.parent])]; omega
theorem events_len_slots : ∀ (ss : List Slot) (pid : Nat) (path : List Key) (anc : List (Option Nat)),
    (Slot.eventsList pid path anc ss).length = 2 * (Slot.preList ss).length
  | [], pid, path, anc => by simp [Slot.eventsList, Slot.preList]
  | .absent _ :: rest, pid, path, anc => by
    simpa [Slot.eventsList, Slot.preList] using events_len_slots rest pid path anc
  | .one k n :: rest, pid, path, anc => by
    simp only [Slot.eventsList, Slot.preList, List.length_append]
    rw [events_len_node n, events_len_slots rest]; omega
  | .many k n ns :: rest, pid, path, anc => by
    simp only [Slot.eventsList, Slot.preList, List.length_append]
    rw [events_len_elems (n :: ns), events_len_slots rest]
    simp only [Node.preList, List.length_append]; omega
theorem events_len_elems : ∀ (ns : List Node) (i : Nat) (path : List Key) (anc : List (Option Nat)),
    (Node.eventsElems path anc ns i).length = 2 * (Node.preList ns).length
  | [], i, path, anc => by simp [Node.eventsElems, Node.preList]
  | n :: ns, i, path, anc => by
    simp only [Node.eventsElems, Node.preList, List.length_append]
    rw [events_len_node n, events_len_elems ns]; omega
end

/-- … and exactly twice per node when it always continues -/
theorem walk_count_allCont (root : Node) : (walk (countV (fun _ _ => .cont)) root 0).1 = 2 * root.pre.length := by
  have hc : AlwaysCont (countV (fun _ _ => .cont)) := ⟨fun _ _ _ => rfl, fun _ _ _ => rfl⟩
  unfold walk
  rw [node_fold _ hc]
  simp only
  have key : ∀ (evs : List Ev) (st : Nat), evs.foldl (applyEv (countV (fun _ _ => .cont))) st = st + evs.length := by
    intro evs
    induction evs with
    | nil => intro st; rfl
    | cons e rest ih =>
      intro st
      simp only [List.foldl_cons, List.length_cons]
      rw [ih]
      cases hp : e.phase <;> simp [applyEv, hp, countV] <;> omega
  rw [key, events_len_node]; omega

end GqlModel.Visitor
