import GqlProofs.RoundTripWF1
import GqlProofs.RoundTripLex1
import GqlProofs.LexerGrammar
import GqlProofs.LexerLoop
/-! # C08 `parse_ok_WF`, lexer half: every token the lexer model produces is well-formed

For every successful `readToken` of M (whatever the input — D-03a included: each call scans one lexeme of the spec's
`token` at the position it was resumed at): a NAME token's value is a GraphQL name, an INT / FLOAT token's value is a
number text of the grammar.  Through `LTok.toToken` (ASCII bytes ↦ the same characters) this is `TokWF`. -/
namespace GqlModel.RoundTrip
open GqlModel GqlModel.Lexer GqlModel.Lexer.Spec GqlModel.Reader

/-! ## ASCII bytes as characters -/

def charOf (b : UInt8) : Char := Char.ofNat b.toNat

theorem charOf_toNat (b : UInt8) (h : b.toNat < 128) : (charOf b).toNat = b.toNat := by
  have t : ∀ k : Fin 128, (Char.ofNat k.val).toNat = k.val := by decide +kernel
  exact t ⟨b.toNat, h⟩

theorem enc_charOf (b : UInt8) (h : b.toNat < 128) : String.utf8EncodeChar (charOf b) = [b] := by
  rw [enc_ascii _ (by rw [charOf_toNat b h]; exact h), charOf_toNat b h]
  simp

theorem utf8_map_charOf : ∀ bs : List UInt8, (∀ b ∈ bs, b.toNat < 128) → utf8 (bs.map charOf) = bs
  | [], _ => rfl
  | b :: bs, h => by
    simp only [List.map_cons, utf8_cons, enc_charOf b (h b (by simp)),
      utf8_map_charOf bs (fun x hx => h x (by simp [hx]))]
    rfl

/-- the characters of the `Token` value of an ASCII byte value -/
theorem chars_of_ascii (bs : List UInt8) (h : ∀ b ∈ bs, b.toNat < 128) : (bytesToString bs).toList = bs.map charOf := by
  have := bytesToString_utf8 (bs.map charOf)
  rw [utf8_map_charOf bs h] at this
  rw [this, String.toList_ofList]

theorem charOf_eq_iff (b : UInt8) (h : b.toNat < 128) (c : Char) : charOf b = c ↔ b.toNat = c.toNat := by
  constructor
  · intro e; rw [← e, charOf_toNat b h]
  · intro e; rw [← Char.ofNat_toNat c, ← e]; rfl

/-! ## class transfer -/

theorem nameStart_char {b : UInt8} (h : isNameStartByte b) : b.toNat < 128 ∧ Reader.isNameStart (charOf b) = true := by
  unfold isNameStartByte at h
  bnorm at h
  have hl : b.toNat < 128 := by omega
  refine ⟨hl, ?_⟩
  simp only [Reader.isNameStart, charOf_toNat b hl, Bool.or_eq_true, Bool.and_eq_true, decide_eq_true_eq]
  omega

theorem digit_char {b : UInt8} (h : isDigitByte b) : b.toNat < 128 ∧ Reader.isDigit (charOf b) = true := by
  unfold isDigitByte at h
  have hl : b.toNat < 128 := by omega
  refine ⟨hl, ?_⟩
  simp only [Reader.isDigit, charOf_toNat b hl, Bool.and_eq_true, decide_eq_true_eq]
  omega

theorem nameCont_char {b : UInt8} (h : isNameContByte b) : b.toNat < 128 ∧ Reader.isNameCont (charOf b) = true := by
  rcases h with h | h
  · exact ⟨(nameStart_char h).1, by simp [Reader.isNameCont, (nameStart_char h).2]⟩
  · exact ⟨(digit_char h).1, by simp [Reader.isNameCont, (digit_char h).2]⟩

theorem allDigits_char {ds : List UInt8} (h : AllDigits ds) :
    (∀ b ∈ ds, b.toNat < 128) ∧ (ds.map charOf).all Reader.isDigit = true := by
  refine ⟨fun b hb => (digit_char (h b hb)).1, ?_⟩
  rw [List.all_eq_true]
  intro c hc
  obtain ⟨b, hb, rfl⟩ := List.mem_map.mp hc
  exact (digit_char (h b hb)).2

/-! ## names -/

theorem spanLen_take_all (p : UInt8 → Bool) : ∀ l : List UInt8, ∀ b ∈ l.take (spanLen p l), p b = true
  | [], b, hb => by simp [spanLen] at hb
  | c :: r, b, hb => by
    simp only [spanLen] at hb
    by_cases hc : p c = true
    · simp only [hc, if_true, List.take_succ_cons, List.mem_cons] at hb
      rcases hb with rfl | hb
      · exact hc
      · exact spanLen_take_all p r b hb
    · simp [hc] at hb

theorem name_value_wf (c : UInt8) (r : List UInt8) (hs : isNameStartByte c) :
    isNameC (bytesToString ((c :: r).take (nameLen (c :: r)))).toList = true := by
  have hcont : isNameContByte c := Or.inl hs
  have hall : ∀ b ∈ (c :: r).take (nameLen (c :: r)), isNameContByte b := by
    intro b hb
    have := spanLen_take_all (fun x => decide (isNameContByte x)) (c :: r) b hb
    simpa using this
  have hasc : ∀ b ∈ (c :: r).take (nameLen (c :: r)), b.toNat < 128 := fun b hb => (nameCont_char (hall b hb)).1
  rw [chars_of_ascii _ hasc]
  have hlen : nameLen (c :: r) = nameLen r + 1 := by rw [nameLen_cons, if_pos hcont]
  rw [hlen] at hall ⊢
  simp only [List.take_succ_cons, List.map_cons, isNameC, Bool.and_eq_true]
  refine ⟨(nameStart_char hs).2, ?_⟩
  rw [List.all_eq_true]
  intro x hx
  obtain ⟨b, hb, rfl⟩ := List.mem_map.mp hx
  exact (nameCont_char (hall b (by simp [hb]))).2

/-! ## numbers -/

theorem intPart_char {l : List UInt8} (h : IsIntegerPart l) :
    (∀ b ∈ l, b.toNat < 128) ∧ isIntLit (l.map charOf) = true := by
  obtain ⟨sign, body, rfl, hsign, hbody⟩ := h
  have hb : (∀ b ∈ body, b.toNat < 128) ∧ isIntBody (body.map charOf) = true ∧
      (∃ d ds, body = d :: ds ∧ charOf d ≠ '-') := by
    rcases hbody with rfl | ⟨d, ds, rfl, hd, h0, hds⟩
    · exact ⟨by intro b hb; simp at hb; subst hb; decide, by decide, 48, [], rfl, by decide⟩
    · obtain ⟨hdl, hdc⟩ := digit_char hd
      obtain ⟨hdsl, hdsc⟩ := allDigits_char hds
      have hne0 : charOf d ≠ '0' := by
        intro e
        have := (charOf_eq_iff d hdl '0').mp e
        apply h0; bnorm; exact this
      have hnem : charOf d ≠ '-' := by
        intro e
        have h1 := (charOf_eq_iff d hdl '-').mp e
        have h2 : ('-' : Char).toNat = 45 := rfl
        unfold isDigitByte at hd; omega
      refine ⟨?_, ?_, d, ds, rfl, hnem⟩
      · intro b hb
        rcases List.mem_cons.mp hb with rfl | hb
        · exact hdl
        · exact hdsl b hb
      · simp only [List.map_cons, isIntBody, hne0, if_false, hdc, hdsc, Bool.and_self]
  obtain ⟨hbl, hbc, d, ds, rfl, hdm⟩ := hb
  rcases hsign with rfl | rfl
  · refine ⟨by simpa using hbl, ?_⟩
    simp only [List.nil_append, List.map_cons, isIntLit, hdm, if_false]
    exact hbc
  · refine ⟨?_, ?_⟩
    · intro b hb
      rcases List.mem_append.mp hb with hb | hb
      · simp at hb; subst hb; decide
      · exact hbl b hb
    · have e : charOf 45 = '-' := by decide
      simp only [List.singleton_append, List.map_cons, isIntLit, e, if_true]
      exact hbc

theorem fracPart_char {l : List UInt8} (h : IsFractionalPart l) :
    (∀ b ∈ l, b.toNat < 128) ∧ isFracPart (l.map charOf) = true ∧ l ≠ [] := by
  obtain ⟨ds, rfl, hne, hds⟩ := h
  obtain ⟨hl, hc⟩ := allDigits_char hds
  refine ⟨?_, ?_, by simp⟩
  · intro b hb
    rcases List.mem_cons.mp hb with rfl | hb
    · decide
    · exact hl b hb
  · have e : charOf 46 = '.' := by decide
    have hne' : (ds.map charOf).isEmpty = false := by cases ds <;> simp_all
    simp only [List.map_cons, isFracPart, e, hne', hc, decide_true, Bool.not_false, Bool.and_self]

theorem expPart_char {l : List UInt8} (h : IsExponentPart l) :
    (∀ b ∈ l, b.toNat < 128) ∧ isExpPart (l.map charOf) = true ∧ l ≠ [] := by
  obtain ⟨e, sign, ds, rfl, he, hsign, hne, hds⟩ := h
  obtain ⟨hl, hc⟩ := allDigits_char hds
  have hec : (charOf e = 'e' ∨ charOf e = 'E') ∧ e.toNat < 128 := by
    rcases he with rfl | rfl
    · exact ⟨Or.inr (by decide), by decide⟩
    · exact ⟨Or.inl (by decide), by decide⟩
  have hne' : (ds.map charOf).isEmpty = false := by cases ds <;> simp_all
  have hE : (decide (charOf e = 'e') || decide (charOf e = 'E')) = true := by
    rcases hec.1 with h | h <;> simp [h]
  refine ⟨?_, ?_, by simp⟩
  · intro b hb
    rcases List.mem_cons.mp hb with rfl | hb
    · exact hec.2
    · rcases List.mem_append.mp hb with hb | hb
      · rcases hsign with rfl | rfl | rfl
        · simp at hb
        · simp at hb; subst hb; decide
        · simp at hb; subst hb; decide
      · exact hl b hb
  · rcases hsign with rfl | rfl | rfl
    · -- no sign: the first digit is neither `+` nor `-`
      match ds, hne, hds, hc, hl with
      | d :: ds', _, hds, hc, hl =>
        have hd := hds d (by simp)
        obtain ⟨hdl, _⟩ := digit_char hd
        have hns : ¬ (charOf d = '+' ∨ charOf d = '-') := by
          intro hh
          unfold isDigitByte at hd
          rcases hh with hh | hh
          · have := (charOf_eq_iff d hdl '+').mp hh
            have h2 : ('+' : Char).toNat = 43 := rfl
            omega
          · have := (charOf_eq_iff d hdl '-').mp hh
            have h2 : ('-' : Char).toNat = 45 := rfl
            omega
        simp only [List.nil_append, List.map_cons, isExpPart, hE, hns, if_false, Bool.true_and]
        exact hc
    · have e1 : charOf 43 = '+' := by decide
      simp only [List.singleton_append, List.map_cons, isExpPart, hE, e1, true_or, if_true, hne', hc, Bool.not_false,
        Bool.and_self]
    · have e1 : charOf 45 = '-' := by decide
      simp only [List.singleton_append, List.map_cons, isExpPart, hE, e1, or_true, if_true, hne', hc, Bool.not_false,
        Bool.and_self]

theorem int_value_wf {l : List UInt8} (h : IsIntValue l) : isIntLit (bytesToString l).toList = true := by
  obtain ⟨hl, hc⟩ := intPart_char h
  rw [chars_of_ascii l hl]; exact hc

theorem float_value_wf {l : List UInt8} (h : IsFloatValue l) : IsFloatLit (bytesToString l).toList := by
  obtain ⟨i, f, x, rfl, hi, hfx⟩ := h
  obtain ⟨hil, hic⟩ := intPart_char hi
  have key : (∀ b ∈ f, b.toNat < 128) ∧ (∀ b ∈ x, b.toNat < 128) ∧
      (f.map charOf = [] ∨ isFracPart (f.map charOf) = true) ∧ (x.map charOf = [] ∨ isExpPart (x.map charOf) = true) ∧
      (f.map charOf ≠ [] ∨ x.map charOf ≠ []) := by
    rcases hfx with ⟨hf, rfl⟩ | ⟨rfl, hx⟩ | ⟨hf, hx⟩
    · obtain ⟨h1, h2, h3⟩ := fracPart_char hf
      exact ⟨h1, by simp, Or.inr h2, Or.inl rfl, Or.inl (by simpa using h3)⟩
    · obtain ⟨h1, h2, h3⟩ := expPart_char hx
      exact ⟨by simp, h1, Or.inl rfl, Or.inr h2, Or.inr (by simpa using h3)⟩
    · obtain ⟨h1, h2, h3⟩ := fracPart_char hf
      obtain ⟨g1, g2, g3⟩ := expPart_char hx
      exact ⟨h1, g1, Or.inr h2, Or.inr g2, Or.inl (by simpa using h3)⟩
  obtain ⟨hfl, hxl, hfc, hxc, hne⟩ := key
  have hall : ∀ b ∈ i ++ f ++ x, b.toNat < 128 := by
    intro b hb
    simp only [List.mem_append] at hb
    rcases hb with (hb | hb) | hb
    · exact hil b hb
    · exact hfl b hb
    · exact hxl b hb
  rw [chars_of_ascii _ hall]
  exact ⟨i.map charOf, f.map charOf, x.map charOf, by simp, hic, hfc, hxc, hne⟩

/-! ## one token -/

theorem punct_ne_int (c : UInt8) : punctuatorByte c ≠ some .int := by
  unfold punctuatorByte
  iterate 13 (refine ite_some_ne _ _ _ _ (by decide) ?_)
  simp

theorem punct_ne_float (c : UInt8) : punctuatorByte c ≠ some .float := by
  unfold punctuatorByte
  iterate 13 (refine ite_some_ne _ _ _ _ (by decide) ?_)
  simp

/-- well-formedness of a token value as bytes, by kind -/
def LTokWF (k : TokenKind) (v : List UInt8) : Prop :=
  match k with
  | .name => isNameC (bytesToString v).toList = true
  | .int => isIntLit (bytesToString v).toList = true
  | .float => IsFloatLit (bytesToString v).toList
  | _ => True

theorem token_value_wf {c : UInt8} {r : List UInt8} {k : TokenKind} {len : Nat} {v : List UInt8}
    (h : token (c :: r) = .ok (k, len, v)) : LTokWF k v := by
  by_cases hctl : isCtrl c
  · rw [token_ctrl c r hctl] at h; simp at h
  cases hp : punctuatorByte c with
  | some k' =>
    rw [token_punct c r hctl hp] at h
    simp only [Except.ok.injEq, Prod.mk.injEq] at h
    obtain ⟨rfl, _, _⟩ := h
    have h1 := punctuatorByte_ne_name hp
    have h2 : k' ≠ .int ∧ k' ≠ .float :=
      ⟨fun e => punct_ne_int c (e ▸ hp), fun e => punct_ne_float c (e ▸ hp)⟩
    cases k' <;> first | trivial | exact absurd rfl h1 | exact absurd rfl h2.1 | exact absurd rfl h2.2
  | none =>
    by_cases hdot : c = 46
    · subst hdot; rw [token_dot] at h
      split at h
      · simp only [Except.ok.injEq, Prod.mk.injEq] at h; obtain ⟨rfl, _, _⟩ := h; trivial
      · simp at h
    by_cases hns : isNameStartByte c
    · rw [token_name c r hctl hp hdot hns] at h
      simp only [Except.ok.injEq, Prod.mk.injEq] at h
      obtain ⟨rfl, _, rfl⟩ := h
      exact name_value_wf c r hns
    by_cases hnum : c = 45 ∨ isDigitByte c
    · rw [token_number c r hctl hp hdot hns hnum] at h
      match hn : number (c :: r) with
      | .ok (k', len') =>
        rw [hn] at h; simp only [Except.ok.injEq, Prod.mk.injEq] at h
        obtain ⟨rfl, _, rfl⟩ := h
        rcases number_sound hn with ⟨rfl, hv⟩ | ⟨rfl, hv⟩
        · exact int_value_wf hv
        · exact float_value_wf hv
      | .error e => rw [hn] at h; simp at h
    by_cases hq : c = 34
    · subst hq; rw [token_quote] at h
      split at h
      · split at h
        · simp only [Except.ok.injEq, Prod.mk.injEq] at h; obtain ⟨rfl, _, _⟩ := h; trivial
        · simp at h
      · split at h
        · simp only [Except.ok.injEq, Prod.mk.injEq] at h; obtain ⟨rfl, _, _⟩ := h; trivial
        · simp at h
    · rw [token_other c r hctl hp hdot hns hnum hq] at h; simp at h

/-- every successful `readToken` of the model returns a well-formed token -/
theorem readToken_wf (body : List UInt8) (off : Nat) (t : LTok) (h : readToken body off = .ok t) : LTokWF t.kind t.value := by
  obtain ⟨k, _, _, hm⟩ := readToken_spec body off
  match hd : (body.drop off).drop (ignoredLen false (body.drop off)) with
  | [] =>
    rw [hd] at hm; simp only at hm
    rw [hm] at h; cases h; trivial
  | c :: r =>
    rw [hd] at hm; simp only at hm
    match ht : token (c :: r) with
    | .ok (kind, len, v) =>
      rw [ht] at hm; simp only at hm
      rw [hm] at h; cases h
      exact token_value_wf ht
    | .error (o, ek) =>
      rw [ht] at hm; simp only at hm
      obtain ⟨q, hq, _⟩ := hm
      rw [hq] at h; cases h

theorem lexLoop_wf (body : List UInt8) : ∀ (f p : Nat), ∀ t ∈ (lexLoop f body p).tokens, LTokWF t.kind t.value
  | 0, p, t, ht => by simp [lexLoop] at ht
  | f + 1, p, t, ht => by
    simp only [lexLoop] at ht
    match hr : readToken body p with
    | .error e => rw [hr] at ht; simp at ht
    | .ok t0 =>
      rw [hr] at ht; simp only at ht
      by_cases hk : t0.kind = .eof
      · simp only [hk, if_true, List.mem_cons, List.mem_nil_iff, or_false] at ht
        subst ht; exact readToken_wf body p _ hr
      · simp only [hk, if_false, List.mem_cons] at ht
        rcases ht with rfl | ht
        · exact readToken_wf body p _ hr
        · exact lexLoop_wf body f _ t ht

/-- **lexer half of `parse_ok_WF`**: the tokens handed to the parser are well-formed -/
theorem lexAll_tokWF (src : List UInt8) : ∀ t ∈ (Lexer.lexAll src).tokens.map LTok.toToken, TokWF t := by
  intro t ht
  obtain ⟨lt, hlt, rfl⟩ := List.mem_map.mp ht
  have := lexLoop_wf src _ 0 lt hlt
  simp only [TokWF, LTok.toToken]
  cases hk : lt.kind <;> simp only [LTokWF, hk] at this ⊢ <;> first | exact this | trivial

end GqlModel.RoundTrip
