import GqlProofs.ExecPairBasic
import GqlProofs.ExecConforms
import GqlProofs.ExecResolved
/-! C04 two-world theorem, the paired induction: the same call in two worlds that agree except on ONE resolver, which
the first world invokes only at position `p = pos ++ rel`. If both calls succeed, their values and state deltas agree
outside a position on the way to `p` that is `p` itself or holds `null` in one of them (`Good`). -/
namespace GqlModel.Exec
open GqlModel.Coerce

/-! ## frames of canonical runs -/

theorem groups_log_prefix {c : Ctx} {fuel : Nat} {dfr : Bool} {rt : String} {src : GoVal} {path : Path} {groups : Groups}
    {r : Res (List (String × JVal))} {d : St}
    (h : execGroups c fuel dfr rt src path groups [] St.empty = (r, d)) :
    ∀ e, e ∈ d.log → ∃ k, k ∈ groups.keys ∧ (path ++ [.key k]) <+: e.path := by
  obtain ⟨new, hl, hb⟩ := (logP c fuel).groups _ _ _ _ _ _ _ _ _ h
  intro e he
  rw [hl] at he
  simp only [St.empty, List.append_nil] at he
  exact hb.mem e (List.mem_reverse.mpr he)

theorem field_log_prefix {c : Ctx} {fuel : Nat} {dfr : Bool} {rt : String} {src : GoVal} {pf : Path} {fd : FieldDefS}
    {nodes : List FieldNode} {r : Res JVal} {d : St}
    (h : execField c fuel dfr rt src pf fd nodes St.empty = (r, d)) : ∀ e, e ∈ d.log → pf <+: e.path := by
  obtain ⟨new, hl, hp, -⟩ := (logP c fuel).field _ _ _ _ _ _ _ _ _ h
  intro e he
  rw [hl] at he
  simp only [St.empty, List.append_nil] at he
  exact hp e he

theorem complete_log_below {c : Ctx} {fuel : Nat} {dfr : Bool} {t : GType} {rt fname : String} {nodes : List FieldNode}
    {pos : Path} {v : GoVal} {r : Res JVal} {d : St}
    (h : complete c fuel dfr t rt fname nodes pos v St.empty = (r, d)) : ∀ e, e ∈ d.log → Path.Below pos e.path := by
  obtain ⟨new, hl, hp, -⟩ := (logP c fuel).complete _ _ _ _ _ _ _ _ _ _ h
  intro e he
  rw [hl] at he
  simp only [St.empty, List.append_nil] at he
  exact hp e he

theorem items_log_prefix {c : Ctx} {fuel : Nat} {dfr : Bool} {item : GType} {rt fname : String} {nodes : List FieldNode}
    {pl : Path} {xs : List GoVal} {i : Nat} {r : Res (List JVal)} {d : St}
    (h : completeItems c fuel dfr item rt fname nodes pl xs i [] St.empty = (r, d)) :
    ∀ e, e ∈ d.log → ∃ j, i ≤ j ∧ (pl ++ [.idx j]) <+: e.path := by
  obtain ⟨new, hl, hp, -⟩ := (logP c fuel).items _ _ _ _ _ _ _ _ _ _ _ _ h
  intro e he
  rw [hl] at he
  simp only [St.empty, List.append_nil] at he
  exact hp e he

theorem field_errs_prefix {c : Ctx} {fuel : Nat} {dfr : Bool} {rt : String} {src : GoVal} {pf : Path} {fd : FieldDefS}
    {nodes : List FieldNode} {j : JVal} {d : St}
    (h : execField c fuel dfr rt src pf fd nodes St.empty = (.ok j, d)) : ∀ e, e ∈ d.errs → pf <+: e.1 := by
  obtain ⟨new, hl, -, hok⟩ := (errP c fuel).field _ _ _ _ _ _ _ _ _ h
  intro e he
  rw [hl] at he
  simp only [St.empty, List.append_nil] at he
  exact (hok j rfl e he).prefix

theorem complete_errs_prefix {c : Ctx} {fuel : Nat} {dfr : Bool} {t : GType} {rt fname : String} {nodes : List FieldNode}
    {pos : Path} {v : GoVal} {r : Res JVal} {d : St}
    (h : complete c fuel dfr t rt fname nodes pos v St.empty = (r, d)) (hr : r ≠ .fuelOut) :
    ∀ e, e ∈ d.errs → pos <+: e.1 := by
  obtain ⟨new, hl, hfail, hok⟩ := (errP c fuel).complete _ _ _ _ _ _ _ _ _ _ h
  intro e he
  rw [hl] at he
  simp only [St.empty, List.append_nil] at he
  cases r with
  | ok j => exact (hok j rfl e he).prefix
  | fail => exact (hfail rfl).2 e he
  | fuelOut => exact absurd rfl hr

/-! ## the paired invariant -/

/-- every invocation of the differing resolver in `l` happens at position `p` -/
def TouchAt (id0 : Nat) (f0 : String) (p : Path) (l : List LogEntry) : Prop :=
  ∀ e, e ∈ l → Touches id0 f0 e → e.path = p

theorem exists_touch_of_not_untouched {id0 : Nat} {f0 : String} {l : List LogEntry}
    (h : ¬ ∀ e, e ∈ l → ¬ Touches id0 f0 e) : ∃ e, e ∈ l ∧ Touches id0 f0 e := by
  rcases Classical.not_forall.mp h with ⟨e, he⟩
  rcases Classical.not_imp.mp he with ⟨h1, h2⟩
  exact ⟨e, h1, Classical.not_not.mp h2⟩

structure PairP (c : Ctx) (w2 : World) (id0 : Nat) (f0 : String) (fuel : Nat) : Prop where
  groups : ∀ dfr rt src path groups rel r1 d1 r2 d2, groups.keys.Nodup →
    execGroups c fuel dfr rt src path groups [] St.empty = (r1, d1) →
    execGroups (c.withWorld w2) fuel dfr rt src path groups [] St.empty = (r2, d2) →
    TouchAt id0 f0 (path ++ rel) d1.log →
    ∀ fs1 fs2, r1 = .ok fs1 → r2 = .ok fs2 → Good path rel (.obj fs1) (.obj fs2) d1 d2
  field : ∀ dfr rt src pf fd nodes rel r1 d1 r2 d2,
    execField c fuel dfr rt src pf fd nodes St.empty = (r1, d1) →
    execField (c.withWorld w2) fuel dfr rt src pf fd nodes St.empty = (r2, d2) →
    TouchAt id0 f0 (pf ++ rel) d1.log →
    ∀ j1 j2, r1 = .ok j1 → r2 = .ok j2 → Good pf rel j1 j2 d1 d2
  complete : ∀ dfr t rt fname nodes pos v rel r1 d1 r2 d2,
    complete c fuel dfr t rt fname nodes pos v St.empty = (r1, d1) →
    complete (c.withWorld w2) fuel dfr t rt fname nodes pos v St.empty = (r2, d2) →
    TouchAt id0 f0 (pos ++ rel) d1.log →
    ∀ j1 j2, r1 = .ok j1 → r2 = .ok j2 → Good pos rel j1 j2 d1 d2
  items : ∀ dfr item rt fname nodes pl xs i rel r1 d1 r2 d2,
    completeItems c fuel dfr item rt fname nodes pl xs i [] St.empty = (r1, d1) →
    completeItems (c.withWorld w2) fuel dfr item rt fname nodes pl xs i [] St.empty = (r2, d2) →
    TouchAt id0 f0 (pl ++ rel) d1.log →
    ∀ js1 js2, r1 = .ok js1 → r2 = .ok js2 → ∀ pre : List JVal, pre.length = i →
      Good pl rel (.list (pre ++ js1)) (.list (pre ++ js2)) d1 d2

variable {c : Ctx} {w2 : World} {id0 : Nat} {f0 : String}

theorem pairP_zero : PairP c w2 id0 f0 0 := by
  refine ⟨?_, ?_, ?_, ?_⟩
  · intro dfr rt src path groups rel r1 d1 r2 d2 _ h1 _ _ fs1 fs2 hr1 _
    simp only [execGroups, Prod.mk.injEq] at h1; rw [← h1.1] at hr1; cases hr1
  · intro dfr rt src pf fd nodes rel r1 d1 r2 d2 h1 _ _ j1 j2 hr1 _
    simp only [execField, Prod.mk.injEq] at h1; rw [← h1.1] at hr1; cases hr1
  · intro dfr t rt fname nodes pos v rel r1 d1 r2 d2 h1 _ _ j1 j2 hr1 _
    simp only [complete, Prod.mk.injEq] at h1; rw [← h1.1] at hr1; cases hr1
  · intro dfr item rt fname nodes pl xs i rel r1 d1 r2 d2 h1 _ _ js1 js2 hr1 _
    simp only [completeItems, Prod.mk.injEq] at h1; rw [← h1.1] at hr1; cases hr1

theorem pairP_groups (ha : AgreeExcept c.world w2 id0 f0) (fuel : Nat) (ih : PairP c w2 id0 f0 fuel) :
    ∀ dfr rt src path groups rel r1 d1 r2 d2, groups.keys.Nodup →
    execGroups c (fuel + 1) dfr rt src path groups [] St.empty = (r1, d1) →
    execGroups (c.withWorld w2) (fuel + 1) dfr rt src path groups [] St.empty = (r2, d2) →
    TouchAt id0 f0 (path ++ rel) d1.log →
    ∀ fs1 fs2, r1 = .ok fs1 → r2 = .ok fs2 → Good path rel (.obj fs1) (.obj fs2) d1 d2 := by
  intro dfr rt src path groups rel r1 d1 r2 d2 hn h1 h2 ht fs1 fs2 hr1 hr2
  subst hr1 hr2
  by_cases hu : ∀ e, e ∈ d1.log → ¬ Touches id0 f0 e
  · have := (wP ha (fuel + 1)).groups _ _ _ _ _ _ _ _ _ h1 hu
    rw [this] at h2
    simp only [Prod.mk.injEq, Res.ok.injEq] at h2
    obtain ⟨rfl, rfl⟩ := h2
    exact Good.same _ _ _ _
  · obtain ⟨e0, he0, ht0⟩ := exists_touch_of_not_untouched hu
    obtain ⟨k0, -, hp0⟩ := groups_log_prefix h1 e0 he0
    obtain ⟨rel', rfl⟩ := rel_cons_of_prefix (ht e0 he0 ht0) hp0
    cases groups with
    | nil => simp only [execGroups, Prod.mk.injEq] at h1; rw [← h1.2] at he0; cases he0
    | cons g rest =>
      obtain ⟨k, nodes⟩ := g
      have hn' : Groups.keys rest |>.Nodup := (List.nodup_cons.mp hn).2
      have hk_rest : k ∉ Groups.keys rest := (List.nodup_cons.mp hn).1
      simp only [execGroups, Ctx.withWorld_schema] at h1 h2
      cases hh : nodes.head? with
      | none =>
        simp only [hh] at h1 h2
        exact ih.groups _ _ _ _ _ _ _ _ _ _ hn' h1 h2 ht fs1 fs2 rfl rfl
      | some node =>
        cases hfd : fieldDef? c.schema rt node.name with
        | none =>
          simp only [hh, hfd] at h1 h2
          exact ih.groups _ _ _ _ _ _ _ _ _ _ hn' h1 h2 ht fs1 fs2 rfl rfl
        | some fd =>
          simp only [hh, hfd] at h1 h2
          rcases hf1 : execField c fuel dfr rt src (path ++ [.key k]) fd nodes St.empty with ⟨rf1, df1⟩
          rcases hf2 : execField (c.withWorld w2) fuel dfr rt src (path ++ [.key k]) fd nodes St.empty with ⟨rf2, df2⟩
          rw [hf1] at h1
          rw [hf2] at h2
          cases rf1 with
          | fail => simp at h1
          | fuelOut => simp at h1
          | ok v1 =>
          cases rf2 with
          | fail => simp at h2
          | fuelOut => simp at h2
          | ok v2 =>
          simp only at h1 h2
          rw [execGroups_canon] at h1 h2
          rcases hr1 : execGroups c fuel dfr rt src path rest [] St.empty with ⟨rr1, dr1⟩
          rcases hr2 : execGroups (c.withWorld w2) fuel dfr rt src path rest [] St.empty with ⟨rr2, dr2⟩
          rw [hr1] at h1
          rw [hr2] at h2
          cases rr1 with
          | fail => simp [Res.mapOk] at h1
          | fuelOut => simp [Res.mapOk] at h1
          | ok m1 =>
          cases rr2 with
          | fail => simp [Res.mapOk] at h2
          | fuelOut => simp [Res.mapOk] at h2
          | ok m2 =>
          simp only [Res.mapOk, List.nil_append, List.singleton_append, Prod.mk.injEq, Res.ok.injEq] at h1 h2
          obtain ⟨rfl, rfl⟩ := h1
          obtain ⟨rfl, rfl⟩ := h2
          have htl : ∀ e, e ∈ dr1.log → Touches id0 f0 e → e.path = path ++ .key k0 :: rel' :=
            fun e he => ht e (by simp only [St.app]; exact List.mem_append_left _ he)
          have htf : ∀ e, e ∈ df1.log → Touches id0 f0 e → e.path = path ++ .key k0 :: rel' :=
            fun e he => ht e (by simp only [St.app]; exact List.mem_append_right _ he)
          by_cases hk : k = k0
          · subst hk
            have hG := ih.field _ _ _ _ _ _ rel' _ _ _ _ hf1 hf2
              (fun e he h => by rw [htf e he h]; simp) v1 v2 rfl rfl
            have hu' : ∀ e, e ∈ dr1.log → ¬ Touches id0 f0 e := by
              intro e he h
              obtain ⟨k'', hk'', hp⟩ := groups_log_prefix hr1 e he
              rw [htl e he h] at hp
              have hp' : (path ++ [PathSeg.key k]) <+: path ++ PathSeg.key k :: rel' := ⟨rel', by simp⟩
              have := Path.seg_eq_of_prefix hp hp'
              simp only [PathSeg.key.injEq] at this
              subst this
              exact hk_rest hk''
            have := (wP ha fuel).groups _ _ _ _ _ _ _ _ _ hr1 hu'
            rw [this] at hr2
            simp only [Prod.mk.injEq, Res.ok.injEq] at hr2
            obtain ⟨rfl, rfl⟩ := hr2
            exact (Good.obj_cons_div hG).app_left dr1
          · have hu' : ∀ e, e ∈ df1.log → ¬ Touches id0 f0 e := by
              intro e he h
              have hp := field_log_prefix hf1 e he
              rw [htf e he h] at hp
              have hp' : (path ++ [PathSeg.key k0]) <+: path ++ PathSeg.key k0 :: rel' := ⟨rel', by simp⟩
              have := Path.seg_eq_of_prefix hp hp'
              simp only [PathSeg.key.injEq] at this
              exact hk this
            have := (wP ha fuel).field _ _ _ _ _ _ _ _ _ hf1 hu'
            rw [this] at hf2
            simp only [Prod.mk.injEq, Res.ok.injEq] at hf2
            obtain ⟨rfl, rfl⟩ := hf2
            have hG := ih.groups _ _ _ _ _ _ _ _ _ _ hn' hr1 hr2 htl m1 m2 rfl rfl
            exact (Good.obj_cons_same hG hk).app_same df1

theorem pairP_items (ha : AgreeExcept c.world w2 id0 f0) (fuel : Nat) (ih : PairP c w2 id0 f0 fuel) :
    ∀ dfr item rt fname nodes pl xs i rel r1 d1 r2 d2,
    completeItems c (fuel + 1) dfr item rt fname nodes pl xs i [] St.empty = (r1, d1) →
    completeItems (c.withWorld w2) (fuel + 1) dfr item rt fname nodes pl xs i [] St.empty = (r2, d2) →
    TouchAt id0 f0 (pl ++ rel) d1.log →
    ∀ js1 js2, r1 = .ok js1 → r2 = .ok js2 → ∀ pre : List JVal, pre.length = i →
      Good pl rel (.list (pre ++ js1)) (.list (pre ++ js2)) d1 d2 := by
  intro dfr item rt fname nodes pl xs i rel r1 d1 r2 d2 h1 h2 ht js1 js2 hr1 hr2 pre hpre
  subst hr1 hr2
  by_cases hu : ∀ e, e ∈ d1.log → ¬ Touches id0 f0 e
  · have := (wP ha (fuel + 1)).items _ _ _ _ _ _ _ _ _ _ _ _ h1 hu
    rw [this] at h2
    simp only [Prod.mk.injEq, Res.ok.injEq] at h2
    obtain ⟨rfl, rfl⟩ := h2
    exact Good.same _ _ _ _
  · obtain ⟨e0, he0, ht0⟩ := exists_touch_of_not_untouched hu
    obtain ⟨i0, -, hp0⟩ := items_log_prefix h1 e0 he0
    obtain ⟨rel', rfl⟩ := rel_cons_of_prefix (ht e0 he0 ht0) hp0
    cases xs with
    | nil => simp only [completeItems, Prod.mk.injEq] at h1; rw [← h1.2] at he0; cases he0
    | cons x xs =>
      simp only [completeItems] at h1 h2
      rcases hc1 : complete c fuel dfr item rt fname nodes (pl ++ [.idx i]) x St.empty with ⟨rc1, dc1⟩
      rcases hc2 : complete (c.withWorld w2) fuel dfr item rt fname nodes (pl ++ [.idx i]) x St.empty with ⟨rc2, dc2⟩
      rw [hc1] at h1
      rw [hc2] at h2
      -- the rest of the list, once the values stored for the head are known
      have hfin : ∀ y1 y2,
          completeItems c fuel dfr item rt fname nodes pl xs (i + 1) ([] ++ [y1]) dc1 = (.ok js1, d1) →
          completeItems (c.withWorld w2) fuel dfr item rt fname nodes pl xs (i + 1) ([] ++ [y2]) dc2 = (.ok js2, d2) →
          (i = i0 → Good (pl ++ [.idx i]) rel' y1 y2 dc1 dc2) → (i ≠ i0 → y1 = y2 ∧ dc1 = dc2) →
          Good pl (.idx i0 :: rel') (.list (pre ++ js1)) (.list (pre ++ js2)) d1 d2 := by
        intro y1 y2 h1 h2 hdiv hsame
        rw [completeItems_canon] at h1 h2
        rcases hr1 : completeItems c fuel dfr item rt fname nodes pl xs (i + 1) [] St.empty with ⟨rr1, dr1⟩
        rcases hr2 : completeItems (c.withWorld w2) fuel dfr item rt fname nodes pl xs (i + 1) [] St.empty with ⟨rr2, dr2⟩
        rw [hr1] at h1
        rw [hr2] at h2
        cases rr1 with
        | fail => simp [Res.mapOk] at h1
        | fuelOut => simp [Res.mapOk] at h1
        | ok m1 =>
        cases rr2 with
        | fail => simp [Res.mapOk] at h2
        | fuelOut => simp [Res.mapOk] at h2
        | ok m2 =>
        simp only [Res.mapOk, List.nil_append, List.singleton_append, Prod.mk.injEq, Res.ok.injEq] at h1 h2
        obtain ⟨rfl, rfl⟩ := h1
        obtain ⟨rfl, rfl⟩ := h2
        have htl : ∀ e, e ∈ dr1.log → Touches id0 f0 e → e.path = pl ++ .idx i0 :: rel' :=
          fun e he => ht e (by simp only [St.app]; exact List.mem_append_left _ he)
        by_cases hi : i = i0
        · subst hi
          have hu' : ∀ e, e ∈ dr1.log → ¬ Touches id0 f0 e := by
            intro e he h
            obtain ⟨j, hj, hp⟩ := items_log_prefix hr1 e he
            rw [htl e he h] at hp
            have hp' : (pl ++ [PathSeg.idx i]) <+: pl ++ PathSeg.idx i :: rel' := ⟨rel', by simp⟩
            have := Path.seg_eq_of_prefix hp hp'
            simp only [PathSeg.idx.injEq] at this
            omega
          have := (wP ha fuel).items _ _ _ _ _ _ _ _ _ _ _ _ hr1 hu'
          rw [this] at hr2
          simp only [Prod.mk.injEq, Res.ok.injEq] at hr2
          obtain ⟨rfl, rfl⟩ := hr2
          exact (Good.list_div (hdiv rfl) hpre).app_left dr1
        · obtain ⟨rfl, rfl⟩ := hsame hi
          have hG := ih.items _ _ _ _ _ _ _ _ _ _ _ _ _ hr1 hr2 htl m1 m2 rfl rfl (pre ++ [y1]) (by simp [hpre])
          simp only [List.append_assoc, List.singleton_append] at hG
          exact hG.app_same dc1
      have htc : ∀ e, e ∈ dc1.log → Touches id0 f0 e → e.path = pl ++ .idx i0 :: rel' := by
        intro e he h
        -- `dc1.log` is part of `d1.log` whenever the rest is executed; use the frame of the whole call instead
        obtain ⟨new, hl, -⟩ := (logP c (fuel + 1)).items dfr item rt fname nodes pl (x :: xs) i [] St.empty (.ok js1) d1 (by
          simp only [completeItems, hc1]; exact h1)
        cases rc1 with
        | ok j =>
          simp only at h1
          obtain ⟨new2, hl2, -⟩ := (logP c fuel).items _ _ _ _ _ _ _ _ _ _ _ _ h1
          exact ht e (by rw [hl2]; exact List.mem_append_right _ he) h
        | fail =>
          simp only at h1
          split at h1
          · simp at h1
          · obtain ⟨new2, hl2, -⟩ := (logP c fuel).items _ _ _ _ _ _ _ _ _ _ _ _ h1
            exact ht e (by rw [hl2]; exact List.mem_append_right _ he) h
        | fuelOut => simp at h1
      by_cases hi : i = i0
      · -- the head is the item on the way to `p`
        have habs : ∀ y1 y2, rc1 ≠ .fuelOut → rc2 ≠ .fuelOut → (y1 = .null ∨ y2 = .null) →
            Good (pl ++ [.idx i]) rel' y1 y2 dc1 dc2 := fun y1 y2 hn1 hn2 hy =>
          Good.absorb (complete_errs_prefix hc1 hn1) (complete_errs_prefix hc2 hn2)
            (fun e he => (complete_log_below hc1 e he).prefix) (fun e he => (complete_log_below hc2 e he).prefix)
            (Or.inr hy)
        have hne : ∀ h : i ≠ i0, False := fun h => h hi
        cases rc1 with
        | fuelOut => simp at h1
        | ok j1 =>
          cases rc2 with
          | fuelOut => simp at h2
          | ok j2 =>
            simp only at h1 h2
            refine hfin j1 j2 h1 h2 (fun _ => ?_) (fun h => (hne h).elim)
            exact ih.complete _ _ _ _ _ _ _ rel' _ _ _ _ hc1 hc2
              (fun e he h => by rw [htc e he h, ← hi]; simp) j1 j2 rfl rfl
          | fail =>
            simp only at h1 h2
            split at h2
            · simp at h2
            · exact hfin j1 .null h1 h2 (fun _ => habs _ _ (by simp) (by simp) (Or.inr rfl)) (fun h => (hne h).elim)
        | fail =>
          simp only at h1
          split at h1
          · simp at h1
          · cases rc2 with
            | fuelOut => simp at h2
            | ok j2 =>
              simp only at h2
              exact hfin .null j2 h1 h2 (fun _ => habs _ _ (by simp) (by simp) (Or.inl rfl)) (fun h => (hne h).elim)
            | fail =>
              simp only at h2
              split at h2
              · simp at h2
              · exact hfin .null .null h1 h2 (fun _ => habs _ _ (by simp) (by simp) (Or.inl rfl)) (fun h => (hne h).elim)
      · -- the head is not on the way to `p`: untouched
        have hu' : ∀ e, e ∈ dc1.log → ¬ Touches id0 f0 e := by
          intro e he h
          have hp := (complete_log_below hc1 e he).prefix
          rw [htc e he h] at hp
          have hp' : (pl ++ [PathSeg.idx i0]) <+: pl ++ PathSeg.idx i0 :: rel' := ⟨rel', by simp⟩
          have := Path.seg_eq_of_prefix hp hp'
          simp only [PathSeg.idx.injEq] at this
          exact hi this
        have := (wP ha fuel).complete _ _ _ _ _ _ _ _ _ _ hc1 hu'
        rw [this] at hc2
        simp only [Prod.mk.injEq] at hc2
        obtain ⟨rfl, rfl⟩ := hc2
        cases rc1 with
        | fuelOut => simp at h1
        | ok j1 =>
          simp only at h1 h2
          exact hfin j1 j1 h1 h2 (fun h => (hi h).elim) (fun _ => ⟨rfl, rfl⟩)
        | fail =>
          simp only at h1 h2
          split at h1
          · simp at h1
          · rename_i hnn
            simp only [hnn, Bool.false_eq_true, if_false] at h2
            exact hfin .null .null h1 h2 (fun h => (hi h).elim) (fun _ => ⟨rfl, rfl⟩)

/-- a field that has a resolver logs its own invocation, whatever happens afterwards -/
theorem execField_logs_self (c : Ctx) (fuel : Nat) (dfr : Bool) (rt : String) (src : GoVal) (p : Path) (fd : FieldDefS)
    (nodes : List FieldNode) (st : St) (r : Res JVal) (st' : St)
    (h : execField c (fuel + 1) dfr rt src p fd nodes st = (r, st')) (hn : (fd.name == "__typename") = false) :
    ∃ ent : LogEntry, ent.source = src ∧ ent.fieldName = fd.name ∧ ent.path = p ∧ ent ∈ st'.log := by
  simp only [execField, hn, Bool.false_eq_true, if_false] at h
  split at h
  · split at h <;> (simp only [Prod.mk.injEq] at h; exact ⟨_, rfl, rfl, rfl, by rw [← h.2]; exact List.mem_cons_self⟩)
  · rename_i v hv
    generalize hst0 : ({ st with log := _ :: st.log } : St) = st0 at h
    obtain ⟨ent, hs, hf, hp, h0⟩ : ∃ ent : LogEntry, ent.source = src ∧ ent.fieldName = fd.name ∧ ent.path = p ∧
        st0.log = ent :: st.log := by rw [← hst0]; exact ⟨_, rfl, rfl, rfl, rfl⟩
    rcases hc : complete c fuel dfr fd.type rt fd.name nodes p v st0 with ⟨r1, st1⟩
    rw [hc] at h
    obtain ⟨cnew, hcl, -⟩ := (logP c fuel).complete _ _ _ _ _ _ _ _ _ _ hc
    have hmem : ent ∈ st1.log := by rw [hcl, h0]; simp
    refine ⟨ent, hs, hf, hp, ?_⟩
    cases r1 with
    | ok j => simp only [Prod.mk.injEq] at h; rw [← h.2]; exact hmem
    | fail => simp only at h; split at h <;> (simp only [Prod.mk.injEq] at h; rw [← h.2]; exact hmem)
    | fuelOut => simp only [Prod.mk.injEq] at h; rw [← h.2]; exact hmem

theorem pairP_field (ha : AgreeExcept c.world w2 id0 f0) (fuel : Nat) (ih : PairP c w2 id0 f0 fuel) :
    ∀ dfr rt src pf fd nodes rel r1 d1 r2 d2,
    execField c (fuel + 1) dfr rt src pf fd nodes St.empty = (r1, d1) →
    execField (c.withWorld w2) (fuel + 1) dfr rt src pf fd nodes St.empty = (r2, d2) →
    TouchAt id0 f0 (pf ++ rel) d1.log →
    ∀ j1 j2, r1 = .ok j1 → r2 = .ok j2 → Good pf rel j1 j2 d1 d2 := by
  intro dfr rt src pf fd nodes rel r1 d1 r2 d2 h1 h2 ht j1 j2 hr1 hr2
  subst hr1 hr2
  -- absorption at this field: everything recorded lies at or below it
  have habs : (rel = [] ∨ j1 = .null ∨ j2 = .null) → Good pf rel j1 j2 d1 d2 := fun h =>
    Good.absorb (field_errs_prefix h1) (field_errs_prefix h2) (field_log_prefix h1) (field_log_prefix h2) h
  by_cases hn : (fd.name == "__typename") = true
  · simp only [execField, hn, if_true, Prod.mk.injEq, Res.ok.injEq] at h1 h2
    obtain ⟨rfl, rfl⟩ := h1
    obtain ⟨rfl, rfl⟩ := h2
    exact Good.same _ _ _ _
  · have hn' : (fd.name == "__typename") = false := by simpa using hn
    by_cases hrel : rel = []
    · exact habs (Or.inl hrel)
    · -- the invocation at `pf` is not the differing one: same outcome in both worlds
      obtain ⟨ent, hs, hf, hp, hmem⟩ := execField_logs_self c fuel dfr rt src pf fd nodes St.empty _ _ h1 hn'
      have hout : c.world.outcome src fd.name = w2.outcome src fd.name := by
        apply ha.outcome
        rintro ⟨e1, e2⟩
        have := ht ent hmem ⟨hs.trans e1, hf.trans e2⟩
        rw [hp] at this
        have hlen := congrArg List.length this
        simp only [List.length_append] at hlen
        exact hrel (List.length_eq_zero_iff.mp (by omega))
      have h1o := h1
      simp only [execField, hn', Bool.false_eq_true, if_false, Ctx.withWorld_schema, Ctx.withWorld_world,
        Ctx.withWorld_vars, ← hout] at h1 h2
      cases hov : c.world.outcome src fd.name with
      | fail =>
        simp only [hov] at h1 h2
        have := h1.symm.trans h2
        simp only [Prod.mk.injEq, Res.ok.injEq] at this
        obtain ⟨rfl, rfl⟩ := this
        exact Good.same _ _ _ _
      | value v =>
        simp only [hov] at h1 h2
        generalize hst0 : ({ St.empty with log := _ :: St.empty.log } : St) = s0 at h1 h2
        rw [complete_canon] at h1 h2
        rcases hc1 : complete c fuel dfr fd.type rt fd.name nodes pf v St.empty with ⟨rc1, dc1⟩
        rcases hc2 : complete (c.withWorld w2) fuel dfr fd.type rt fd.name nodes pf v St.empty with ⟨rc2, dc2⟩
        rw [hc1] at h1
        rw [hc2] at h2
        cases rc1 with
        | fuelOut => simp at h1
        | fail =>
          simp only at h1
          split at h1
          · simp at h1
          · simp only [Prod.mk.injEq, Res.ok.injEq] at h1
            exact habs (Or.inr (Or.inl h1.1.symm))
        | ok a =>
          cases rc2 with
          | fuelOut => simp at h2
          | fail =>
            simp only at h2
            split at h2
            · simp at h2
            · simp only [Prod.mk.injEq, Res.ok.injEq] at h2
              exact habs (Or.inr (Or.inr h2.1.symm))
          | ok b =>
            simp only [Prod.mk.injEq, Res.ok.injEq] at h1 h2
            obtain ⟨rfl, rfl⟩ := h1
            obtain ⟨rfl, rfl⟩ := h2
            have hG := ih.complete _ _ _ _ _ _ _ rel _ _ _ _ hc1 hc2
              (fun e he h => ht e (by simp only [St.app]; exact List.mem_append_left _ he) h) a b rfl rfl
            exact hG.app_same s0

theorem pairP_complete (ha : AgreeExcept c.world w2 id0 f0) (fuel : Nat) (ih : PairP c w2 id0 f0 fuel) :
    ∀ dfr t rt fname nodes pos v rel r1 d1 r2 d2,
    complete c (fuel + 1) dfr t rt fname nodes pos v St.empty = (r1, d1) →
    complete (c.withWorld w2) (fuel + 1) dfr t rt fname nodes pos v St.empty = (r2, d2) →
    TouchAt id0 f0 (pos ++ rel) d1.log →
    ∀ j1 j2, r1 = .ok j1 → r2 = .ok j2 → Good pos rel j1 j2 d1 d2 := by
  intro dfr t rt fname nodes pos v rel r1 d1 r2 d2 h1 h2 ht j1 j2 hr1 hr2
  subst hr1 hr2
  -- both calls computed by the same world-independent expression
  have hsame : ∀ {x : Res JVal × St}, x = (Res.ok j1, d1) → x = (Res.ok j2, d2) → Good pos rel j1 j2 d1 d2 := by
    intro x e1 e2
    have := e1.symm.trans e2
    simp only [Prod.mk.injEq, Res.ok.injEq] at this
    obtain ⟨rfl, rfl⟩ := this
    exact Good.same _ _ _ _
  -- an object produced by a selection set
  have hgroups : ∀ ot,
      (match execGroups c fuel dfr ot v pos (collectMerged c ot nodes) [] St.empty with
        | (.ok fs, st) => ((Res.ok (JVal.obj fs) : Res JVal), st)
        | (.fail, st) => (.fail, st)
        | (.fuelOut, st) => (.fuelOut, st)) = (.ok j1, d1) →
      (match execGroups (c.withWorld w2) fuel dfr ot v pos (collectMerged c ot nodes) [] St.empty with
        | (.ok fs, st) => ((Res.ok (JVal.obj fs) : Res JVal), st)
        | (.fail, st) => (.fail, st)
        | (.fuelOut, st) => (.fuelOut, st)) = (.ok j2, d2) →
      Good pos rel j1 j2 d1 d2 := by
    intro ot h1 h2
    rcases hg1 : execGroups c fuel dfr ot v pos (collectMerged c ot nodes) [] St.empty with ⟨rg1, dg1⟩
    rcases hg2 : execGroups (c.withWorld w2) fuel dfr ot v pos (collectMerged c ot nodes) [] St.empty with ⟨rg2, dg2⟩
    rw [hg1] at h1
    rw [hg2] at h2
    cases rg1 with
    | fail => simp at h1
    | fuelOut => simp at h1
    | ok fs1 =>
    cases rg2 with
    | fail => simp at h2
    | fuelOut => simp at h2
    | ok fs2 =>
    simp only [Prod.mk.injEq, Res.ok.injEq] at h1 h2
    obtain ⟨rfl, rfl⟩ := h1
    obtain ⟨rfl, rfl⟩ := h2
    exact ih.groups _ _ _ _ _ rel _ _ _ _ (collectMerged_keys_nodup c ot nodes) hg1 hg2 ht fs1 fs2 rfl rfl
  cases hnf : v.notFunc with
  | false =>
    cases v with
    | thunk tr =>
      cases tr with
      | err => simp [complete] at h1
      | ok v' =>
        simp only [complete] at h1 h2
        rcases hc1 : complete c fuel true t rt fname nodes pos v' St.empty with ⟨rc1, dc1⟩
        rcases hc2 : complete (c.withWorld w2) fuel true t rt fname nodes pos v' St.empty with ⟨rc2, dc2⟩
        rw [hc1] at h1
        rw [hc2] at h2
        cases rc1 with
        | fail => simp at h1
        | fuelOut => simp at h1
        | ok a =>
        cases rc2 with
        | fail => simp at h2
        | fuelOut => simp at h2
        | ok b =>
        simp only [Prod.mk.injEq, Res.ok.injEq] at h1 h2
        obtain ⟨rfl, rfl⟩ := h1
        obtain ⟨rfl, rfl⟩ := h2
        exact ih.complete _ _ _ _ _ _ _ rel _ _ _ _ hc1 hc2 ht a b rfl rfl
    | badFunc => simp [complete] at h1
    | _ => simp [GoVal.notFunc] at hnf
  | true =>
    rw [complete_succ_notFunc _ _ _ _ _ _ _ _ _ _ hnf] at h1 h2
    cases t with
    | nonNull inner =>
      simp only [completeBody] at h1 h2
      rcases hc1 : complete c fuel dfr inner rt fname nodes pos v St.empty with ⟨rc1, dc1⟩
      rcases hc2 : complete (c.withWorld w2) fuel dfr inner rt fname nodes pos v St.empty with ⟨rc2, dc2⟩
      rw [hc1] at h1
      rw [hc2] at h2
      cases rc1 with
      | fail => simp at h1
      | fuelOut => simp at h1
      | ok a =>
      cases rc2 with
      | fail => simp at h2
      | fuelOut => simp at h2
      | ok b =>
      have e1 : a = j1 ∧ dc1 = d1 := by
        cases a <;> simp_all
      have e2 : b = j2 ∧ dc2 = d2 := by
        cases b <;> simp_all
      obtain ⟨rfl, rfl⟩ := e1
      obtain ⟨rfl, rfl⟩ := e2
      exact ih.complete _ _ _ _ _ _ _ rel _ _ _ _ hc1 hc2 ht a b rfl rfl
    | list item =>
      simp only [completeBody] at h1 h2
      by_cases hnull : v.nullish = true
      · simp only [hnull, if_true] at h1 h2
        exact hsame h1 h2
      · simp only [hnull, Bool.false_eq_true, if_false] at h1 h2
        cases v with
        | list xs =>
          simp only at h1 h2
          rcases hi1 : completeItems c fuel dfr item rt fname nodes pos xs 0 [] St.empty with ⟨ri1, di1⟩
          rcases hi2 : completeItems (c.withWorld w2) fuel dfr item rt fname nodes pos xs 0 [] St.empty with ⟨ri2, di2⟩
          rw [hi1] at h1
          rw [hi2] at h2
          cases ri1 with
          | fail => simp at h1
          | fuelOut => simp at h1
          | ok js1 =>
          cases ri2 with
          | fail => simp at h2
          | fuelOut => simp at h2
          | ok js2 =>
          simp only [Prod.mk.injEq, Res.ok.injEq] at h1 h2
          obtain ⟨rfl, rfl⟩ := h1
          obtain ⟨rfl, rfl⟩ := h2
          have := ih.items _ _ _ _ _ _ _ _ rel _ _ _ _ hi1 hi2 ht js1 js2 rfl rfl [] rfl
          simpa using this
        | _ => simp at h1
    | named n =>
      simp only [completeBody, Ctx.withWorld_schema, Ctx.withWorld_world, runtimeTypeOf_world c w2 ha,
        collectMerged_world, ← ha.isTypeOf] at h1 h2
      by_cases hnull : v.nullish = true
      · simp only [hnull, if_true] at h1 h2
        exact hsame h1 h2
      · simp only [hnull, Bool.false_eq_true, if_false] at h1 h2
        by_cases hleaf : c.schema.isLeaf n = true
        · simp only [hleaf, if_true] at h1 h2
          exact hsame h1 h2
        · simp only [hleaf, Bool.false_eq_true, if_false] at h1 h2
          by_cases habs : c.schema.isAbstract n = true
          · simp only [habs, if_true] at h1 h2
            cases hrt : runtimeTypeOf c n v with
            | none => simp [hrt] at h1
            | some ot =>
              simp only [hrt] at h1 h2
              by_cases hposs : (!(c.schema.isObject ot && c.schema.isPossibleType n ot)) = true
              · simp [hposs] at h1
              · simp only [hposs, Bool.false_eq_true, if_false] at h1 h2
                exact hgroups ot h1 h2
          · simp only [habs, Bool.false_eq_true, if_false] at h1 h2
            by_cases hobj : c.schema.isObject n = true
            · simp only [hobj, if_true] at h1 h2
              by_cases hito : (objectHasIsTypeOf c.schema n && !c.world.isTypeOfAns n v) = true
              · simp [hito] at h1
              · simp only [hito, Bool.false_eq_true, if_false] at h1 h2
                exact hgroups n h1 h2
            · simp [hobj] at h1

theorem pairP (ha : AgreeExcept c.world w2 id0 f0) : ∀ fuel, PairP c w2 id0 f0 fuel
  | 0 => pairP_zero
  | fuel + 1 =>
    have ih := pairP ha fuel
    ⟨pairP_groups ha fuel ih, pairP_field ha fuel ih, pairP_complete ha fuel ih, pairP_items ha fuel ih⟩

end GqlModel.Exec
