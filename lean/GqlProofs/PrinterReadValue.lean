import GqlProofs.PrinterRead
/-! The value round trip: reading the printed form of a well-formed value gives the value back (unbounded nesting). -/
namespace GqlModel.Reader
open GqlModel GqlModel.Printer

theorem valueC_list_cons (v : Value) (vs : List Value) (l : Loc) (h : WFValues (v :: vs)) :
    valueC (.list (v :: vs) l) = '[' :: (valueC v ++ sepAll (valuesC vs) ++ [']']) := by
  simp only [valueC, joinC, filter_nonempty_valuesC _ h]
  simp [valuesC, interC_cons_commaSp]

theorem valueC_obj_cons (f : ObjField) (fs : List ObjField) (l : Loc) (h : WFFields (f :: fs)) :
    valueC (.obj (f :: fs) l) = '{' :: (fieldC f ++ sepAll (fieldsC fs) ++ ['}']) := by
  simp only [valueC, joinC, filter_nonempty_fieldsC _ h]
  simp [fieldsC, interC_cons_commaSp]

mutual
theorem readValue_valueC : ∀ v : Value, WFValue v → ∀ rest, Delim rest → ∀ n, fuelV v ≤ n →
    readValue n (valueC v ++ rest) = some (v.stripLoc, rest)
  | .var nm l, h, rest, hr, n, hn => by
    obtain ⟨m, rfl⟩ : ∃ m, n = m + 1 := ⟨n - 1, by simp [fuelV] at hn; omega⟩
    have h0 : skipIgnored (valueC (.var nm l) ++ rest) = '$' :: (nm.toList ++ rest) := by
      simp [valueC, skipIgnored, isIgnored]
    rw [readValue_of_scalar h0 (by decide) (by decide)]
    exact readScalar_var nm rest h hr
  | .int raw l, h, rest, hr, n, hn => by
    obtain ⟨m, rfl⟩ : ∃ m, n = m + 1 := ⟨n - 1, by simp [fuelV] at hn; omega⟩
    have hh := intLit_head h
    obtain ⟨c, r, hcr, hc⟩ := hh
    have hf := minus_or_digit_facts hc
    have h0 : skipIgnored (valueC (.int raw l) ++ rest) = c :: (r ++ rest) := by
      simp only [valueC, hcr, List.cons_append]; exact skipIgnored_cons hf.1 _
    rw [readValue_of_scalar h0 hf.2.2.2.1 hf.2.2.2.2.1]
    have := readScalar_number raw.toList rest false ⟨c, r, hcr, hc⟩ (readNumber_int _ _ h hr)
    rw [hcr] at this
    simp only [List.cons_append] at this
    rw [this, ← hcr, String.ofList_toList]
    rfl
  | .float raw l, h, rest, hr, n, hn => by
    obtain ⟨m, rfl⟩ : ∃ m, n = m + 1 := ⟨n - 1, by simp [fuelV] at hn; omega⟩
    have hh := floatLit_head h
    obtain ⟨c, r, hcr, hc⟩ := hh
    have hf := minus_or_digit_facts hc
    have h0 : skipIgnored (valueC (.float raw l) ++ rest) = c :: (r ++ rest) := by
      simp only [valueC, hcr, List.cons_append]; exact skipIgnored_cons hf.1 _
    rw [readValue_of_scalar h0 hf.2.2.2.1 hf.2.2.2.2.1]
    have := readScalar_number raw.toList rest true ⟨c, r, hcr, hc⟩ (readNumber_float _ _ h hr)
    rw [hcr] at this
    simp only [List.cons_append] at this
    rw [this, ← hcr, String.ofList_toList]
    rfl
  | .str s l, _, rest, _, n, hn => by
    obtain ⟨m, rfl⟩ : ∃ m, n = m + 1 := ⟨n - 1, by simp [fuelV] at hn; omega⟩
    have h0 : skipIgnored (valueC (.str s l) ++ rest) = '"' :: (quoteBodyC s.toList ++ ['"'] ++ rest) := by
      simp [valueC, quoteC, skipIgnored, isIgnored]
    rw [readValue_of_scalar h0 (by decide) (by decide)]
    have := readScalar_str s rest
    simp only [quoteC, List.cons_append] at this
    rw [this]; rfl
  | .bool b l, _, rest, hr, n, hn => by
    obtain ⟨m, rfl⟩ : ∃ m, n = m + 1 := ⟨n - 1, by simp [fuelV] at hn; omega⟩
    cases b with
    | true =>
      have h0 : skipIgnored (valueC (.bool true l) ++ rest) = 't' :: (['r', 'u', 'e'] ++ rest) := by
        simp [valueC, skipIgnored, isIgnored]
      rw [readValue_of_scalar h0 (by decide) (by decide)]
      have := readScalar_name trueC rest (by decide) hr
      simp only [trueC, List.cons_append, List.nil_append, if_true] at this ⊢
      rw [this]; rfl
    | false =>
      have h0 : skipIgnored (valueC (.bool false l) ++ rest) = 'f' :: (['a', 'l', 's', 'e'] ++ rest) := by
        simp [valueC, skipIgnored, isIgnored]
      rw [readValue_of_scalar h0 (by decide) (by decide)]
      have := readScalar_name falseC rest (by decide) hr
      have hne : falseC ≠ trueC := by decide
      simp only [hne, if_false, if_true] at this
      simp only [falseC, List.cons_append, List.nil_append] at this ⊢
      rw [this]; rfl
  | .enum v l, h, rest, hr, n, hn => by
    obtain ⟨m, rfl⟩ : ∃ m, n = m + 1 := ⟨n - 1, by simp [fuelV] at hn; omega⟩
    obtain ⟨hname, h1, h2, h3⟩ := h
    obtain ⟨c, r, hcr, hc1, hc2, hc3⟩ := headOK_name hname
    have hns : isNameStart c = true := by rw [hcr] at hname; simp [isNameC] at hname; exact hname.1
    have h0 : skipIgnored (valueC (.enum v l) ++ rest) = c :: (r ++ rest) := by
      simp only [valueC, hcr, List.cons_append]; exact skipIgnored_cons hc1 _
    rw [readValue_of_scalar h0 (nameStart_ne hns _ (by decide)) (nameStart_ne hns _ (by decide))]
    have := readScalar_name v.toList rest hname hr
    simp only [h1, h2, h3, if_false] at this
    rw [hcr] at this
    simp only [List.cons_append] at this
    rw [this, ← hcr, String.ofList_toList]
    rfl
  | .list vs l, h, rest, hr, n, hn => by
    obtain ⟨m, rfl⟩ : ∃ m, n = m + 1 := ⟨n - 1, by simp [fuelV] at hn; omega⟩
    have hm : fuelL vs ≤ m := by simp [fuelV] at hn; omega
    cases vs with
    | nil =>
      have h0 : skipIgnored (valueC (.list [] l) ++ rest) = '[' :: (']' :: rest) := by
        simp [valueC, valuesC, joinC, interC, skipIgnored, isIgnored]
      rw [readValue_of_list h0]
      have := readList_valuesC [] trivial rest m hm
      simp only [valuesC, sepAll, List.nil_append] at this
      rw [this]; rfl
    | cons v vs =>
      have h0 : skipIgnored (valueC (.list (v :: vs) l) ++ rest) =
          '[' :: (valueC v ++ sepAll (valuesC vs) ++ [']'] ++ rest) := by
        rw [valueC_list_cons v vs l h]; simp [skipIgnored, isIgnored]
      rw [readValue_of_list h0]
      have := readList_valuesC (v :: vs) h rest m hm
      simp only [valuesC, sepAll, List.append_assoc] at this
      rw [readList_congr (skipIgnored_commaSp _)] at this
      simp only [List.append_assoc, List.cons_append, List.nil_append] at this ⊢
      rw [this]; rfl
  | .obj fs l, h, rest, hr, n, hn => by
    obtain ⟨m, rfl⟩ : ∃ m, n = m + 1 := ⟨n - 1, by simp [fuelV] at hn; omega⟩
    have hm : fuelF fs ≤ m := by simp [fuelV] at hn; omega
    cases fs with
    | nil =>
      have h0 : skipIgnored (valueC (.obj [] l) ++ rest) = '{' :: ('}' :: rest) := by
        simp [valueC, fieldsC, joinC, interC, skipIgnored, isIgnored]
      rw [readValue_of_obj h0]
      have := readFields_fieldsC [] trivial rest m hm
      simp only [fieldsC, sepAll, List.nil_append] at this
      rw [this]; rfl
    | cons f fs =>
      have h0 : skipIgnored (valueC (.obj (f :: fs) l) ++ rest) =
          '{' :: (fieldC f ++ sepAll (fieldsC fs) ++ ['}'] ++ rest) := by
        rw [valueC_obj_cons f fs l h]; simp [skipIgnored, isIgnored]
      rw [readValue_of_obj h0]
      have := readFields_fieldsC (f :: fs) h rest m hm
      simp only [fieldsC, sepAll, List.append_assoc] at this
      rw [readFields_congr (skipIgnored_commaSp _)] at this
      simp only [List.append_assoc, List.cons_append, List.nil_append] at this ⊢
      rw [this]; rfl
theorem readList_valuesC : ∀ vs : List Value, WFValues vs → ∀ rest n, fuelL vs ≤ n →
    readList n (sepAll (valuesC vs) ++ ']' :: rest) = some (Value.stripLocList vs, rest)
  | [], _, rest, n, hn => by
    obtain ⟨m, rfl⟩ : ∃ m, n = m + 1 := ⟨n - 1, by simp [fuelL] at hn; omega⟩
    have h0 : skipIgnored (sepAll (valuesC []) ++ ']' :: rest) = ']' :: rest := by
      simp [valuesC, sepAll, skipIgnored, isIgnored]
    rw [readList_close h0]; rfl
  | v :: vs, h, rest, n, hn => by
    obtain ⟨m, rfl⟩ : ∃ m, n = m + 1 := ⟨n - 1, by simp [fuelL] at hn; omega⟩
    have hm1 : fuelV v ≤ m := by simp [fuelL] at hn; omega
    have hm2 : fuelL vs ≤ m := by simp [fuelL] at hn; omega
    obtain ⟨c, r, hcr, hc1, hc2, _⟩ := headOK_valueC v h.1
    have h0 : skipIgnored (sepAll (valuesC (v :: vs)) ++ ']' :: rest) =
        c :: (r ++ (sepAll (valuesC vs) ++ ']' :: rest)) := by
      simp only [valuesC, sepAll, List.append_assoc]
      rw [skipIgnored_commaSp, hcr]
      exact skipIgnored_cons hc1 _
    have hv := readValue_valueC v h.1 (sepAll (valuesC vs) ++ ']' :: rest)
      (delim_sepAll _ ']' (by decide) rest) m hm1
    rw [hcr] at hv
    simp only [List.cons_append] at hv
    rw [readList_elem h0 hc2 hv, readList_valuesC vs h.2 rest m hm2]
    rfl
theorem readFields_fieldsC : ∀ fs : List ObjField, WFFields fs → ∀ rest n, fuelF fs ≤ n →
    readFields n (sepAll (fieldsC fs) ++ '}' :: rest) = some (ObjField.stripLocList fs, rest)
  | [], _, rest, n, hn => by
    obtain ⟨m, rfl⟩ : ∃ m, n = m + 1 := ⟨n - 1, by simp [fuelF] at hn; omega⟩
    have h0 : skipIgnored (sepAll (fieldsC []) ++ '}' :: rest) = '}' :: rest := by
      simp [fieldsC, sepAll, skipIgnored, isIgnored]
    rw [readFields_close h0]; rfl
  | .mk nm v fl :: fs, h, rest, n, hn => by
    obtain ⟨m, rfl⟩ : ∃ m, n = m + 1 := ⟨n - 1, by simp [fuelF] at hn; omega⟩
    have hm1 : fuelV v ≤ m := by simp [fuelF, fuelFd] at hn; omega
    have hm2 : fuelF fs ≤ m := by simp [fuelF] at hn; omega
    obtain ⟨⟨hname, hwv⟩, hwfs⟩ := h
    obtain ⟨c, r, hcr, hc1, _, hc3⟩ := headOK_name hname
    let tail := sepAll (fieldsC fs) ++ '}' :: rest
    have h0 : skipIgnored (sepAll (fieldsC (.mk nm v fl :: fs)) ++ '}' :: rest) =
        c :: (r ++ (colonSp ++ (valueC v ++ tail))) := by
      simp only [fieldsC, fieldC, sepAll, List.append_assoc]
      rw [skipIgnored_commaSp, hcr]
      exact skipIgnored_cons hc1 _
    have hn2 : readName (c :: (r ++ (colonSp ++ (valueC v ++ tail)))) = some (nm.value.toList, colonSp ++ (valueC v ++ tail)) := by
      have := readName_name nm.value.toList (colonSp ++ (valueC v ++ tail)) hname ⟨by decide, by decide⟩
      rw [hcr] at this
      rw [hcr]
      simpa using this
    have h3 : skipIgnored (colonSp ++ (valueC v ++ tail)) = ':' :: (' ' :: (valueC v ++ tail)) := by
      simp [colonSp, skipIgnored, isIgnored]
    have hv := readValue_valueC v hwv tail (delim_sepAll _ '}' (by decide) rest) m hm1
    have hv' : readValue m (' ' :: (valueC v ++ tail)) = some (v.stripLoc, tail) := by
      cases m with
      | zero => simp [readValue] at hv
      | succ k =>
        have e : skipIgnored (' ' :: (valueC v ++ tail)) = skipIgnored (valueC v ++ tail) := by
          simp [skipIgnored, isIgnored]
        simp only [readValue, e] at hv ⊢
        exact hv
    rw [readFields_field h0 hc3 hn2 h3 hv', readFields_fieldsC fs hwfs rest m hm2]
    simp [ObjField.stripLocList, ObjField.stripLoc, Name.stripLoc]
end

/-! ### the fuel `2·length + 2` of `readValueTop` suffices -/

theorem headOK_length {cs : Chars} (h : HeadOK cs) : 1 ≤ cs.length := by
  obtain ⟨c, r, rfl, _⟩ := h; simp

mutual
theorem fuelV_le : ∀ v : Value, WFValue v → fuelV v ≤ 2 * (valueC v).length
  | .var nm l, h => by simp only [fuelV, valueC, List.length_cons]; omega
  | .int raw l, h => by have := headOK_length (headOK_valueC _ h); simp only [fuelV]; omega
  | .float raw l, h => by have := headOK_length (headOK_valueC _ h); simp only [fuelV]; omega
  | .str s l, h => by have := headOK_length (headOK_valueC _ h); simp only [fuelV]; omega
  | .bool b l, h => by have := headOK_length (headOK_valueC _ h); simp only [fuelV]; omega
  | .enum v l, h => by have := headOK_length (headOK_valueC _ h); simp only [fuelV]; omega
  | .list [] l, h => by simp [fuelV, fuelL, valueC, valuesC, joinC, interC]
  | .list (v :: vs) l, h => by
    have h1 := fuelV_le v h.1
    have h2 := fuelL_le vs h.2
    rw [valueC_list_cons v vs l h]
    simp only [fuelV, fuelL, List.length_cons, List.length_append, List.length_nil]
    omega
  | .obj [] l, h => by simp [fuelV, fuelF, valueC, fieldsC, joinC, interC]
  | .obj (.mk nm v fl :: fs) l, h => by
    have h1 := fuelV_le v h.1.2
    have h2 := fuelF_le fs h.2
    rw [valueC_obj_cons _ fs l h]
    simp only [fuelV, fuelF, fuelFd, fieldC, colonSp, List.length_cons, List.length_append, List.length_nil]
    omega
theorem fuelL_le : ∀ vs : List Value, WFValues vs → fuelL vs ≤ 1 + 2 * (sepAll (valuesC vs)).length
  | [], _ => by simp [fuelL]
  | v :: vs, h => by
    have h1 := fuelV_le v h.1
    have h2 := fuelL_le vs h.2
    simp only [fuelL, valuesC, sepAll, commaSp, List.length_cons, List.length_append, List.length_nil]
    omega
theorem fuelF_le : ∀ fs : List ObjField, WFFields fs → fuelF fs ≤ 1 + 2 * (sepAll (fieldsC fs)).length
  | [], _ => by simp [fuelF]
  | .mk nm v fl :: fs, h => by
    have h1 := fuelV_le v h.1.2
    have h2 := fuelF_le fs h.2
    simp only [fuelF, fuelFd, fieldsC, fieldC, sepAll, commaSp, colonSp, List.length_cons, List.length_append, List.length_nil]
    omega
end

theorem readValueTop_valueC (v : Value) (h : WFValue v) (rest : Chars) (hr : Delim rest) :
    readValueTop (valueC v ++ rest) = some (v.stripLoc, rest) := by
  apply readValue_valueC v h rest hr
  have := fuelV_le v h
  simp only [List.length_append]
  omega

theorem readTypeTop_typeC (t : TypeRef) (h : WFType t) (rest : Chars) (hr : TypeDelim rest) :
    readTypeTop (typeC t ++ rest) = some (t.stripLoc, rest) := by
  apply (readType_typeC_aux t h).2 rest hr
  have := typeDepth_le t
  simp only [List.length_append]
  omega

end GqlModel.Reader
