import GqlProofs.PlanDefer4
/-! # Effects (errors and resolver invocations) of the two executions, with deferred values: vocabulary

`Fx` = a pair (errors, invocations), newest first. The algorithm S records the effects of a deferred value where it meets it; M
records them when (and if) it forces the closure. Accounting: the effects of an S run are, up to permutation, the effects of the
corresponding M run, plus what is still PENDING in the closures of M's value (`pend`: for each closure the effects of the
algorithm's in-place forcing, `wFx`), plus what was DROPPED (effects inside deferred values whose position a later failure nulled:
the library never forces those). Everything pending or dropped is flagged `deferred` (`sTrue`). -/
namespace GqlModel.Plan
open GqlModel.Exec GqlModel.Coerce

/-! ## lists up to permutation: rearrangements by reflection -/

theorem perm_rearr {α : Type} (xs : List (List α)) (p q : List Nat) (h : p.Perm q) :
    (p.flatMap (fun i => xs.getD i [])).Perm (q.flatMap (fun i => xs.getD i [])) := h.flatMap_right _

/-! ## effects -/

structure Fx where
  errs : List (Path × Bool)
  log : List LogEntry

namespace Fx

def nil : Fx := ⟨[], []⟩
def app (a b : Fx) : Fx := ⟨a.errs ++ b.errs, a.log ++ b.log⟩
def Perm (a b : Fx) : Prop := a.errs.Perm b.errs ∧ a.log.Perm b.log
/-- the part recorded outside deferred values -/
def nd (a : Fx) : Fx := ⟨a.errs.filter (fun e => !e.2), a.log.filter (fun e => !e.deferred)⟩
/-- the part recorded while a deferred value is forced -/
def df (a : Fx) : Fx := ⟨a.errs.filter (fun e => e.2), a.log.filter (fun e => e.deferred)⟩
def AllDf (a : Fx) : Prop := (∀ e ∈ a.errs, e.2 = true) ∧ (∀ e ∈ a.log, e.deferred = true)

@[simp] theorem app_nil (a : Fx) : a.app nil = a := by cases a; simp [app, nil]
@[simp] theorem nil_app (a : Fx) : nil.app a = a := by cases a; simp [app, nil]
@[simp] theorem app_assoc (a b c : Fx) : (a.app b).app c = a.app (b.app c) := by simp [app, List.append_assoc]

theorem Perm.refl (a : Fx) : Perm a a := ⟨List.Perm.refl _, List.Perm.refl _⟩
theorem Perm.symm {a b : Fx} (h : Perm a b) : Perm b a := ⟨h.1.symm, h.2.symm⟩
theorem Perm.trans {a b c : Fx} (h1 : Perm a b) (h2 : Perm b c) : Perm a c := ⟨h1.1.trans h2.1, h1.2.trans h2.2⟩
theorem Perm.app {a a' b b' : Fx} (h1 : Perm a a') (h2 : Perm b b') : Perm (a.app b) (a'.app b') :=
  ⟨h1.1.append h2.1, h1.2.append h2.2⟩
theorem Perm.of_eq {a b : Fx} (h : a = b) : Perm a b := h ▸ Perm.refl a

/-- concatenation of the listed members of `xs` -/
def flat (xs : List Fx) (p : List Nat) : Fx := p.foldr (fun i acc => (xs.getD i nil).app acc) nil

theorem flat_errs (xs : List Fx) (p : List Nat) :
    (flat xs p).errs = p.flatMap (fun i => (xs.map (·.errs)).getD i []) := by
  induction p with
  | nil => rfl
  | cons i p ih =>
    simp only [flat, List.foldr_cons, app, List.flatMap_cons] at ih ⊢
    rw [ih]
    congr 1
    simp only [List.getD, List.getElem?_map]
    cases xs[i]? <;> rfl

theorem flat_log (xs : List Fx) (p : List Nat) :
    (flat xs p).log = p.flatMap (fun i => (xs.map (·.log)).getD i []) := by
  induction p with
  | nil => rfl
  | cons i p ih =>
    simp only [flat, List.foldr_cons, app, List.flatMap_cons] at ih ⊢
    rw [ih]
    congr 1
    simp only [List.getD, List.getElem?_map]
    cases xs[i]? <;> rfl

/-- any rearrangement of a concatenation (decide the index permutation) -/
theorem rearr (xs : List Fx) (p q : List Nat) (h : p.Perm q) : Perm (flat xs p) (flat xs q) := by
  constructor
  · rw [flat_errs, flat_errs]; exact perm_rearr _ p q h
  · rw [flat_log, flat_log]; exact perm_rearr _ p q h

theorem nd_app (a b : Fx) : (a.app b).nd = a.nd.app b.nd := by simp [nd, app, List.filter_append]
theorem df_app (a b : Fx) : (a.app b).df = a.df.app b.df := by simp [df, app, List.filter_append]
@[simp] theorem nd_nil : nil.nd = nil := rfl
theorem nd_nd (a : Fx) : a.nd.nd = a.nd := by simp [nd, List.filter_filter]

theorem Perm.nd {a b : Fx} (h : Perm a b) : Perm a.nd b.nd := ⟨h.1.filter _, h.2.filter _⟩
theorem Perm.df {a b : Fx} (h : Perm a b) : Perm a.df b.df := ⟨h.1.filter _, h.2.filter _⟩

theorem AllDf.nd {a : Fx} (h : AllDf a) : a.nd = nil := by
  cases a with
  | mk e l =>
    simp only [Fx.nd, nil, Fx.mk.injEq, List.filter_eq_nil_iff, Bool.not_eq_true', Bool.not_eq_false]
    exact ⟨fun x hx => h.1 x hx, fun x hx => h.2 x hx⟩

theorem allDf_nil : AllDf nil := by
  constructor <;> intro e he <;> exact absurd he List.not_mem_nil

theorem AllDf.app {a b : Fx} (ha : AllDf a) (hb : AllDf b) : AllDf (a.app b) := by
  constructor
  · intro e he
    rcases List.mem_append.1 he with h | h
    · exact ha.1 e h
    · exact hb.1 e h
  · intro e he
    rcases List.mem_append.1 he with h | h
    · exact ha.2 e h
    · exact hb.2 e h

theorem AllDf.of_perm {a b : Fx} (h : Perm a b) (hb : AllDf b) : AllDf a :=
  ⟨fun e he => hb.1 e (h.1.mem_iff.1 he), fun e he => hb.2 e (h.2.mem_iff.1 he)⟩

theorem AllDf.left {a b : Fx} (h : AllDf (a.app b)) : AllDf a :=
  ⟨fun e he => h.1 e (List.mem_append_left _ he), fun e he => h.2 e (List.mem_append_left _ he)⟩
theorem AllDf.right {a b : Fx} (h : AllDf (a.app b)) : AllDf b :=
  ⟨fun e he => h.1 e (List.mem_append_right _ he), fun e he => h.2 e (List.mem_append_right _ he)⟩

end Fx

/-- the effects part of an S state / delta -/
def fxS (d : St) : Fx := ⟨d.errs, d.log⟩

theorem fxS_app (a b : St) : fxS (St.app a b) = (fxS a).app (fxS b) := rfl
theorem fxS_empty : fxS St.empty = Fx.nil := rfl
theorem fxS_addErr (st : St) (p : Path) (d : Bool) : fxS (addErr st p d) = (Fx.mk [(p, d)] []).app (fxS st) := rfl

theorem St.app_empty (d : St) : St.app d St.empty = d := by
  cases d; simp [St.app, St.empty]

/-- the resolver invocations among M's events -/
def calls (evs : List Event) : List LogEntry :=
  evs.filterMap (fun | .call e => some e | .force _ => none)

@[simp] theorem calls_nil : calls [] = [] := rfl
theorem calls_append (a b : List Event) : calls (a ++ b) = calls a ++ calls b := by simp [calls, List.filterMap_append]
theorem calls_reverse (a : List Event) : calls a.reverse = (calls a).reverse := by simp [calls, List.filterMap_reverse]

/-- the effects part of an M state -/
def fxM (mst : MSt) : Fx := ⟨mst.errs, calls mst.events⟩

/-- `mst'` is `mst` with the effects `d` added -/
def MExt (mst mst' : MSt) (d : Fx) : Prop := fxM mst' = d.app (fxM mst)

theorem MExt.refl (mst : MSt) : MExt mst mst Fx.nil := by simp [MExt]
theorem MExt.trans {a b c : MSt} {d1 d2 : Fx} (h1 : MExt a b d1) (h2 : MExt b c d2) : MExt a c (d2.app d1) := by
  unfold MExt at *; rw [h2, h1, Fx.app_assoc]
theorem MExt.of_eq {a b : MSt} (he : b.errs = a.errs) (hv : b.events = a.events) : MExt a b Fx.nil := by
  simp [MExt, fxM, he, hv]
theorem mExt_addErr (mst : MSt) (p : Path) (d : Bool) : MExt mst (mst.addErr p d) ⟨[(p, d)], []⟩ := by
  simp [MExt, fxM, MSt.addErr, Fx.app]
theorem mExt_call (mst : MSt) (e : LogEntry) : MExt mst (mst.logEv (.call e)) ⟨[], [e]⟩ := by
  simp [MExt, fxM, MSt.logEv, Fx.app, calls]
theorem mExt_force (mst : MSt) (p : Path) : MExt mst (mst.logEv (.force p)) Fx.nil := by
  simp [MExt, fxM, MSt.logEv, Fx.nil, Fx.app, calls]

/-! ## S: while a deferred value is forced, everything recorded is flagged `deferred` -/

section strue
variable (c : Ctx)

structure TrueP (fuel : Nat) : Prop where
  groups : ∀ rt src path groups acc st, (fxS st).AllDf → (fxS (execGroups c fuel true rt src path groups acc st).2).AllDf
  field : ∀ rt src p fd nodes st, (fxS st).AllDf → (fxS (execField c fuel true rt src p fd nodes st).2).AllDf
  complete : ∀ t rt fname nodes p v st, (fxS st).AllDf → (fxS (complete c fuel true t rt fname nodes p v st).2).AllDf
  items : ∀ item rt fname nodes p xs i acc st, (fxS st).AllDf →
    (fxS (completeItems c fuel true item rt fname nodes p xs i acc st).2).AllDf

variable {c}

theorem allDf_addErr_true {st : St} (h : (fxS st).AllDf) (p : Path) : (fxS (addErr st p true)).AllDf := by
  rw [fxS_addErr]
  exact Fx.AllDf.app ⟨fun e he => by simp at he; rw [he], fun _ he => by cases he⟩ h

theorem trueP_zero : TrueP c 0 := by
  refine ⟨?_, ?_, ?_, ?_⟩
  · intro rt src path groups acc st h; simp only [execGroups]; exact h
  · intro rt src p fd nodes st h; simp only [execField]; exact h
  · intro t rt fname nodes p v st h; simp only [complete]; exact h
  · intro item rt fname nodes p xs i acc st h; simp only [completeItems]; exact h

theorem trueP_groups (fuel : Nat) (ih : TrueP c fuel) :
    ∀ rt src path groups acc st, (fxS st).AllDf → (fxS (execGroups c (fuel + 1) true rt src path groups acc st).2).AllDf := by
  intro rt src path groups acc st h
  cases groups with
  | nil => simp only [execGroups]; exact h
  | cons g rest =>
    obtain ⟨key, nodes⟩ := g
    simp only [execGroups]
    cases hh : nodes.head? with
    | none => exact ih.groups _ _ _ _ _ _ h
    | some node =>
      simp only
      cases hfd : fieldDef? c.schema rt node.name with
      | none => exact ih.groups _ _ _ _ _ _ h
      | some fd =>
        simp only
        have hf := ih.field rt src (path ++ [.key key]) fd nodes st h
        generalize execField c fuel true rt src (path ++ [.key key]) fd nodes st = z at hf ⊢
        obtain ⟨r1, st1⟩ := z
        cases r1 with
        | ok v => exact ih.groups _ _ _ _ _ _ hf
        | fail => exact hf
        | fuelOut => exact hf

theorem trueP_field (fuel : Nat) (ih : TrueP c fuel) :
    ∀ rt src p fd nodes st, (fxS st).AllDf → (fxS (execField c (fuel + 1) true rt src p fd nodes st).2).AllDf := by
  intro rt src p fd nodes st h
  simp only [execField]
  by_cases hn : (fd.name == "__typename") = true
  · simp only [hn, if_true]; exact h
  · simp only [hn, Bool.false_eq_true, if_false]
    generalize hle : LogEntry.mk p rt fd.name _ src nodes.length true = le
    have h0 : (fxS { st with log := le :: st.log }).AllDf := by
      refine ⟨h.1, ?_⟩
      intro e he
      rcases List.mem_cons.1 he with rfl | he
      · rw [← hle]
      · exact h.2 e he
    cases hout : c.world.outcome src fd.name with
    | fail =>
      simp only
      split <;> exact allDf_addErr_true h0 p
    | value v =>
      simp only
      have hc := ih.complete fd.type rt fd.name nodes p v _ h0
      generalize complete c fuel true fd.type rt fd.name nodes p v { st with log := le :: st.log } = z at hc ⊢
      obtain ⟨r1, st1⟩ := z
      cases r1 with
      | ok j => exact hc
      | fail => simp only; split <;> exact hc
      | fuelOut => exact hc

theorem trueP_items (fuel : Nat) (ih : TrueP c fuel) :
    ∀ item rt fname nodes p xs i acc st, (fxS st).AllDf →
    (fxS (completeItems c (fuel + 1) true item rt fname nodes p xs i acc st).2).AllDf := by
  intro item rt fname nodes p xs i acc st h
  cases xs with
  | nil => simp only [completeItems]; exact h
  | cons x xs =>
    simp only [completeItems]
    have hc := ih.complete item rt fname nodes (p ++ [.idx i]) x st h
    generalize complete c fuel true item rt fname nodes (p ++ [.idx i]) x st = z at hc ⊢
    obtain ⟨r1, st1⟩ := z
    cases r1 with
    | ok j => exact ih.items _ _ _ _ _ _ _ _ _ hc
    | fail =>
      simp only
      split
      · exact hc
      · exact ih.items _ _ _ _ _ _ _ _ _ hc
    | fuelOut => exact hc

theorem fxS_kfMark (t : GType) (p : Path) (st : St) : fxS (kfMark t p st) = fxS st := rfl

theorem trueP_complete (fuel : Nat) (ih : TrueP c fuel) :
    ∀ t rt fname nodes p v st, (fxS st).AllDf → (fxS (complete c (fuel + 1) true t rt fname nodes p v st).2).AllDf := by
  intro t rt fname nodes p v st h
  have hgroups : ∀ ot,
      (fxS (match execGroups c fuel true ot v p (collectMerged c ot nodes) [] st with
        | (.ok fs, st) => ((Res.ok (JVal.obj fs) : Res JVal), st)
        | (.fail, st) => (.fail, st)
        | (.fuelOut, st) => (.fuelOut, st)).2).AllDf := by
    intro ot
    have hg := ih.groups ot v p (collectMerged c ot nodes) [] st h
    generalize execGroups c fuel true ot v p (collectMerged c ot nodes) [] st = z at hg ⊢
    obtain ⟨r1, st1⟩ := z
    cases r1 <;> exact hg
  cases hnf : v.notFunc with
  | false =>
    cases v with
    | thunk tr =>
      cases tr with
      | err => simp only [complete]; exact allDf_addErr_true h p
      | ok v' =>
        simp only [complete]
        have hc := ih.complete t rt fname nodes p v' st h
        generalize Exec.complete c fuel true t rt fname nodes p v' st = z at hc ⊢
        obtain ⟨r1, st1⟩ := z
        cases r1 <;> exact hc
    | badFunc => simp only [complete]; exact allDf_addErr_true h p
    | _ => simp [GoVal.notFunc] at hnf
  | true =>
    rw [complete_succ_notFunc c _ _ _ _ _ _ _ _ _ hnf]
    cases t with
    | nonNull inner =>
      simp only [completeBody]
      have hc := ih.complete inner rt fname nodes p v st h
      generalize Exec.complete c fuel true inner rt fname nodes p v st = z at hc ⊢
      obtain ⟨r1, st1⟩ := z
      split
      · rename_i heq
        simp only [Prod.mk.injEq] at heq
        obtain ⟨_, rfl⟩ := heq
        exact allDf_addErr_true hc p
      · exact hc
    | list item =>
      simp only [completeBody]
      by_cases hnull : v.nullish = true
      · simp only [hnull, if_true]; exact h
      · simp only [hnull, Bool.false_eq_true, if_false]
        cases v with
        | list xs =>
          simp only
          have hi := ih.items item rt fname nodes p xs 0 [] st h
          generalize completeItems c fuel true item rt fname nodes p xs 0 [] st = z at hi ⊢
          obtain ⟨r1, st1⟩ := z
          cases r1 <;> exact hi
        | _ => exact allDf_addErr_true h p
    | named n =>
      simp only [completeBody]
      by_cases hnull : v.nullish = true
      · simp only [hnull, if_true]; exact h
      · simp only [hnull, Bool.false_eq_true, if_false]
        by_cases hleaf : c.schema.isLeaf n = true
        · simp only [hleaf, if_true]
          cases serializeLeaf c.schema n v with
          | none => exact allDf_addErr_true h p
          | some j => exact h
        · simp only [hleaf, Bool.false_eq_true, if_false]
          by_cases habs : c.schema.isAbstract n = true
          · simp only [habs, if_true]
            cases runtimeTypeOf c n v with
            | none => exact allDf_addErr_true h p
            | some ot =>
              simp only
              by_cases hposs : (!(c.schema.isObject ot && c.schema.isPossibleType n ot)) = true
              · simp only [hposs, if_true]; exact allDf_addErr_true h p
              · simp only [hposs, Bool.false_eq_true, if_false]; exact hgroups ot
          · simp only [habs, Bool.false_eq_true, if_false]
            by_cases hobj : c.schema.isObject n = true
            · simp only [hobj, if_true]
              by_cases hito : (objectHasIsTypeOf c.schema n && !c.world.isTypeOfAns n v) = true
              · simp only [hito, if_true]; exact allDf_addErr_true h p
              · simp only [hito, Bool.false_eq_true, if_false]; exact hgroups n
            · simp only [hobj, Bool.false_eq_true, if_false]; exact allDf_addErr_true h p

theorem trueP : ∀ fuel, TrueP c fuel
  | 0 => trueP_zero
  | fuel + 1 =>
    have ih := trueP fuel
    ⟨trueP_groups fuel ih, trueP_field fuel ih, trueP_complete fuel ih, trueP_items fuel ih⟩

end strue

end GqlModel.Plan
