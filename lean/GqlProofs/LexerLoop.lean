import GqlProofs.LexerToken
/-! M = S, part 6: the `Lex` closure iterated like the parser does = the spec's token stream,
outside the two rune/byte known-finding classes. -/
namespace GqlModel.Lexer
open GqlModel.Utf8 GqlModel.Lexer.Spec

theorem punctuatorByte_ne_eof (c : UInt8) : punctuatorByte c ≠ some .eof := by
  unfold punctuatorByte
  iterate 13 (refine ite_some_ne _ _ _ _ (by decide) ?_)
  simp

/-- the spec's token scan never yields the EOF kind -/
theorem token_ne_eof {bs : Bytes} {k : TokenKind} {len : Nat} {v : Bytes} (h : token bs = .ok (k, len, v)) : k ≠ .eof := by
  match bs with
  | [] => simp [token] at h
  | c :: r =>
    by_cases hctl : isCtrl c
    · rw [token_ctrl c r hctl] at h; simp at h
    cases hp : punctuatorByte c with
    | some k' =>
      rw [token_punct c r hctl hp] at h
      simp only [Except.ok.injEq, Prod.mk.injEq] at h
      intro hk; rw [← h.1] at hk; subst hk; exact punctuatorByte_ne_eof c hp
    | none =>
      by_cases hdot : c = 46
      · subst hdot; rw [token_dot] at h
        split at h
        · simp only [Except.ok.injEq, Prod.mk.injEq] at h; rw [← h.1]; decide
        · simp at h
      by_cases hns : isNameStartByte c
      · rw [token_name c r hctl hp hdot hns] at h
        simp only [Except.ok.injEq, Prod.mk.injEq] at h; rw [← h.1]; decide
      by_cases hnum : c = 45 ∨ isDigitByte c
      · rw [token_number c r hctl hp hdot hns hnum] at h
        match hn : number (c :: r) with
        | .ok (k', len') =>
          rw [hn] at h; simp only [Except.ok.injEq, Prod.mk.injEq] at h
          rw [← h.1]; rcases number_kind hn with rfl | rfl <;> decide
        | .error e => rw [hn] at h; simp at h
      by_cases hq : c = 34
      · subst hq; rw [token_quote] at h
        split at h
        · split at h
          · simp only [Except.ok.injEq, Prod.mk.injEq] at h; rw [← h.1]; decide
          · simp at h
        · split at h
          · simp only [Except.ok.injEq, Prod.mk.injEq] at h; rw [← h.1]; decide
          · simp at h
      · rw [token_other c r hctl hp hdot hns hnum hq] at h; simp at h

theorem readTokenF_unfold (fuel : Nat) (body : Bytes) (p : Nat) :
    readTokenF fuel body p =
      if (positionAfterWhitespace fuel (body.drop p) p p).1 = [] then
        .ok (makeToken .eof (positionAfterWhitespace fuel (body.drop p) p p).2.1 (positionAfterWhitespace fuel (body.drop p) p p).2.1 [])
      else readTokenAt fuel (positionAfterWhitespace fuel (body.drop p) p p).1 (positionAfterWhitespace fuel (body.drop p) p p).2.1
        (positionAfterWhitespace fuel (body.drop p) p p).2.2 := rfl

/-- one step of the token stream: what `readToken` returns at byte offset `off`, in terms of the spec scan there -/
theorem readToken_spec (body : Bytes) (off : Nat) :
    let rest := body.drop off
    let g := ignoredLen false rest
    ∃ k, k ≤ g ∧ (hasHigh (rest.take g) = false → k = g) ∧
      match rest.drop g with
      | [] => readToken body off = .ok (makeToken .eof (off + g) (off + g) [])
      | c :: r =>
        match token (c :: r) with
        | .ok (kind, len, v) =>
          readToken body off = .ok (makeToken kind (if kind = .name then off + k else off + g)
            ((if kind = .name then off + k else off + g) + len) v)
        | .error (o, ek) =>
          ∃ q, readToken body off = .error ⟨q, ek⟩ ∧ (hasHigh ((c :: r).take o) = false → k = g → q = off + g + o) := by
  intro rest g
  have hfl : rest.length < body.length + 1 := by simp only [rest, List.length_drop]; omega
  obtain ⟨k, hk, hle, hasc⟩ := paw_spec (body.length + 1) rest off off hfl
  refine ⟨k, hle, hasc, ?_⟩
  unfold readToken
  rw [readTokenF_unfold]
  show match rest.drop g with
    | [] => _
    | c :: r => _
  simp only [show body.drop off = rest from rfl, hk]
  match hd : rest.drop g with
  | [] => simp; rfl
  | c :: r =>
    simp only [reduceCtorEq, if_false]
    have hl2 : (c :: r).length < body.length + 1 := by
      rw [← hd]; simp only [List.length_drop]; omega
    have := readTokenAt_spec (body.length + 1) c r (off + g) (off + k) hl2
    match ht : token (c :: r) with
    | .ok (kind, len, v) =>
      rw [ht] at this; simp only at this
      rw [this]
    | .error (o, ek) =>
      rw [ht] at this; simp only at this
      obtain ⟨q, hq, hpos⟩ := this
      exact ⟨q, hq, fun h1 h2 => hpos h1 (by omega)⟩

theorem lexLoopG_eof (f : Nat) (rest : Bytes) (off : Nat) (h : rest.drop (ignoredLen false rest) = []) :
    lexLoopG (f + 1) rest off =
      ⟨[(rest.take (ignoredLen false rest), makeToken .eof (off + ignoredLen false rest) (off + ignoredLen false rest) [])], none⟩ := by
  simp only [lexLoopG, h]

theorem lexLoopG_err (f : Nat) (rest : Bytes) (off : Nat) {c : UInt8} {r : Bytes} {o : Nat} {k : ErrKind}
    (h : rest.drop (ignoredLen false rest) = c :: r) (ht : token (c :: r) = .error (o, k)) :
    lexLoopG (f + 1) rest off =
      ⟨[], some (rest.take (ignoredLen false rest + o), ⟨off + ignoredLen false rest + o, k⟩)⟩ := by
  simp only [lexLoopG, h, ht]

theorem lexLoopG_ok (f : Nat) (rest : Bytes) (off : Nat) {c : UInt8} {r : Bytes} {kind : TokenKind} {len : Nat} {v : Bytes}
    (h : rest.drop (ignoredLen false rest) = c :: r) (ht : token (c :: r) = .ok (kind, len, v)) :
    lexLoopG (f + 1) rest off =
      ⟨(rest.take (ignoredLen false rest),
          makeToken kind (off + ignoredLen false rest) (off + ignoredLen false rest + len) v) ::
          (lexLoopG f ((c :: r).drop len) (off + ignoredLen false rest + len)).tokens,
        (lexLoopG f ((c :: r).drop len) (off + ignoredLen false rest + len)).err⟩ := by
  simp only [lexLoopG, h, ht]

/-- **M = S on the token stream**, as long as no NAME token follows an Ignored gap containing a byte ≥ 0x80
(D-03a); the error site always agrees, the error offset when no byte ≥ 0x80 lies between the last token and it. -/
theorem lexLoop_spec (body : Bytes) : ∀ (f off : Nat),
    (∀ gt ∈ (lexLoopG f (body.drop off) off).tokens, gt.2.kind = .name → hasHigh gt.1 = false) →
    ∃ e, lexLoop f body off = ⟨(lexLoopG f (body.drop off) off).tokens.map (·.2), e⟩ ∧
      e.map (·.kind) = (lexLoopG f (body.drop off) off).err.map (·.2.kind) ∧
      ((∀ ge, (lexLoopG f (body.drop off) off).err = some ge → hasHigh ge.1 = false) →
        e = (lexLoopG f (body.drop off) off).err.map (·.2)) := by
  intro f
  induction f with
  | zero => intro off _; exact ⟨some ⟨off, .fuel⟩, by simp [lexLoop, lexLoopG], by simp [lexLoopG], by simp [lexLoopG]⟩
  | succ f ih =>
    intro off hname
    obtain ⟨k, hle, hasc, hstep⟩ := readToken_spec body off
    match hd : (body.drop off).drop (ignoredLen false (body.drop off)) with
    | [] =>
      rw [hd] at hstep; simp only at hstep
      rw [lexLoopG_eof f _ off hd]
      refine ⟨none, ?_, rfl, fun _ => rfl⟩
      simp [lexLoop, hstep, makeToken]
    | c :: r =>
      rw [hd] at hstep; simp only at hstep
      match ht : token (c :: r) with
      | .error (o, ek) =>
        rw [ht] at hstep; simp only at hstep
        obtain ⟨q, hq, hpos⟩ := hstep
        rw [lexLoopG_err f _ off hd ht]
        refine ⟨some ⟨q, ek⟩, by simp [lexLoop, hq], rfl, ?_⟩
        intro hh
        have hh' := hh _ rfl
        simp only at hh'
        rw [List.take_add, hasHigh_append, hd] at hh'
        simp only [Bool.or_eq_false_iff] at hh'
        have := hpos hh'.2 (hasc hh'.1)
        simp [this]
      | .ok (kind, len, v) =>
        rw [ht] at hstep; simp only at hstep
        rw [lexLoopG_ok f _ off hd ht] at hname ⊢
        have hkind : kind ≠ .eof := token_ne_eof ht
        have hstart : (if kind = .name then off + k else off + ignoredLen false (body.drop off)) =
            off + ignoredLen false (body.drop off) := by
          by_cases hn : kind = .name
          · have := hname _ (List.mem_cons_self ..) (by simpa [makeToken] using hn)
            simp only at this
            rw [if_pos hn, hasc this]
          · rw [if_neg hn]
        rw [hstart] at hstep
        have hdrop : body.drop (off + ignoredLen false (body.drop off) + len) = (c :: r).drop len := by
          rw [← hd, List.drop_drop, List.drop_drop, Nat.add_assoc]
        have ih' := ih (off + ignoredLen false (body.drop off) + len)
          (by rw [hdrop]; intro gt hgt; exact hname gt (List.mem_cons_of_mem _ hgt))
        rw [hdrop] at ih'
        obtain ⟨e, he, hek, hee⟩ := ih'
        refine ⟨e, ?_, hek, hee⟩
        simp only [lexLoop, hstep, makeToken, hkind, if_false, he, List.map_cons]

end GqlModel.Lexer
