import GqlProofs.RecogniseRun
import GqlProofs.ParserDerivs
/-! Every derivation of the grammar relations is found by the EBNF interpreter (big-step form): `DX p x p' →
Run (nt X) p.ts (rest p'.ts)`. -/
namespace GqlModel.Grammar
open GqlModel

set_option linter.unusedSimpArgs false

/-! ## first-token failure -/

/-- conservative test: `g` cannot match an input starting with `t` (looks only at the first token) -/
def cantStart : Nat → G → Token → Bool
  | 0, _, _ => false
  | _ + 1, .tok k, t => decide (t.kind ≠ k)
  | _ + 1, .kw s, t => decide (¬ (t.kind = .name ∧ t.value = s))
  | _ + 1, .nameBut ex, t => decide (¬ (t.kind = .name ∧ ¬ t.value ∈ ex))
  | n + 1, .seq a _, t => cantStart n a t
  | n + 1, .alt a b, t => cantStart n a t && cantStart n b t
  | n + 1, .nt x, t => cantStart n (rule x) t
  | _ + 1, _, _ => false

theorem run_no_of_cantStart : ∀ (n : Nat) (g : G) (t : Token) (r : List Token), cantStart n g t = true → Run g (t :: r) .no := by
  intro n
  induction n with
  | zero => intro g t r h; simp [cantStart] at h
  | succ n ih =>
    intro g t r h
    cases g <;> simp only [cantStart, decide_eq_true_eq, Bool.and_eq_true, Bool.false_eq_true] at h
    case tok k => exact .tok_no h
    case kw s => exact .kw_no h
    case nameBut ex => exact .nb_no h
    case seq a b => exact .seq_no (ih a t r h)
    case alt a b => exact .alt_r (ih a t r h.1) (ih b t r h.2)
    case nt x => exact .nt (ih _ t r h)

/-- choose the alternative `g` of an n-ary ordered choice: all earlier alternatives fail -/
theorem run_alts_pick (pre : List G) (g : G) (post : List G) {ts : List Token} {r : List Token}
    (hpre : ∀ a ∈ pre, Run a ts .no) (hg : Run g ts (.rest r)) : Run (G.alts (pre ++ g :: post)) ts (.rest r) := by
  induction pre with
  | nil =>
    cases post with
    | nil => exact hg
    | cons b bs => exact .alt_l hg
  | cons a as ih =>
    have hrest := ih (fun x hx => hpre x (by simp [hx]))
    have ha := hpre a (by simp)
    cases h : as ++ g :: post with
    | nil => simp at h
    | cons b bs =>
      rw [h] at hrest
      show Run (G.alts (a :: (as ++ g :: post))) ts (.rest r)
      rw [h]
      exact .alt_r ha hrest

theorem run_alts_first (N : Nat) (pre : List G) (g : G) (post : List G) {t : Token} {r0 r : List Token}
    (hpre : ∀ a ∈ pre, cantStart N a t = true) (hg : Run g (t :: r0) (.rest r)) :
    Run (G.alts (pre ++ g :: post)) (t :: r0) (.rest r) :=
  run_alts_pick pre g post (fun a ha => run_no_of_cantStart N a t r0 (hpre a ha)) hg

/-! ## terminals, look-ahead -/

theorem tok_run {k : TokenKind} {p : Pos} {t : Token} {p' : Pos} (h : Tok k p t p') : Run (.tok k) p.ts (.rest p'.ts) := by
  cases h with
  | mk e t r hk => exact .tok_ok hk

theorem kw_run {s : String} {p p' : Pos} (h : Kw s p p') : Run (.kw s) p.ts (.rest p'.ts) := by
  cases h with
  | mk ht hv => cases ht with | mk e t r hk => exact .kw_ok ⟨hk, hv⟩

theorem dname_run {p : Pos} {n : Name} {p' : Pos} (h : DName p n p') : Run (.tok .name) p.ts (.rest p'.ts) := by
  cases h with
  | mk ht => exact tok_run ht

theorem holds_kind {k : TokenKind} {p : Pos} (hk : k ≠ .eof) (h : p.kind = k) : (Look.kind k).holds p.ts = true := by
  obtain ⟨e, ts⟩ := p
  cases ts with
  | nil => simp [Pos.kind] at h; exact absurd h.symm hk
  | cons t r => simpa [Look.holds, Pos.kind] using h

theorem not_holds_kind {k : TokenKind} {p : Pos} (h : p.kind ≠ k) : (Look.kind k).holds p.ts = false := by
  obtain ⟨e, ts⟩ := p
  cases ts with
  | nil => rfl
  | cons t r => simpa [Look.holds, Pos.kind] using h

theorem holds_kw {s : String} {p : Pos} (h : p.isName s) : (Look.kw s).holds p.ts = true := by
  obtain ⟨e, ts⟩ := p
  cases ts with
  | nil => simp [Pos.isName] at h
  | cons t r => simpa [Look.holds, Pos.isName] using h

theorem not_holds_kw {s : String} {p : Pos} (h : ¬ p.isName s) : (Look.kw s).holds p.ts = false := by
  obtain ⟨e, ts⟩ := p
  cases ts with
  | nil => rfl
  | cons t r => simpa [Look.holds, Pos.isName] using h

/-- the first token of a position whose kind is known -/
theorem ts_of_tok {k : TokenKind} {p : Pos} {t : Token} {p' : Pos} (h : Tok k p t p') : p.ts = t :: p'.ts ∧ t.kind = k := by
  cases h with
  | mk e t r hk => exact ⟨rfl, hk⟩

/-! ## values -/

def valNT (c : Bool) : NT := if c then .constValue else .value
def listNT (c : Bool) : NT := if c then .constListValue else .listValue
def objNT (c : Bool) : NT := if c then .constObjectValue else .objectValue
def fieldNT (c : Bool) : NT := if c then .constObjectField else .objectField

theorem dvariable_run {p : Pos} {r : Name × Loc} {p' : Pos} (h : DVariable p r p') : Run (.nt .var) p.ts (.rest p'.ts) := by
  cases h with
  | mk hd hn => exact .nt (.seq_ok (tok_run hd) (dname_run hn))

/-- discharge an n-ary ordered choice: every alternative before the one `h` matches fails on the first token -/
macro "alt_chain " h:term : tactic => `(tactic|
  repeat' first
    | exact $h
    | exact Run.alt_l $h
    | refine Run.alt_r (run_no_of_cantStart 16 _ _ _ (by simp [cantStart, rule, G.alts, G.seqs, *])) ?_)

mutual
theorem DValue.run : ∀ {c p v p'}, DValue c p v p' → Run (.nt (valNT c)) p.ts (.rest p'.ts)
  | false, _, _, _, .var h => .nt (.alt_l (dvariable_run h))
  | c, _, _, _, .int h => by
      obtain ⟨hts, hk⟩ := ts_of_tok h
      have hp := tok_run h
      rw [hts] at hp ⊢
      refine .nt ?_
      cases c <;> simp only [valNT, rule, G.alts, if_true, Bool.false_eq_true, if_false] <;> alt_chain hp
  | c, _, _, _, .float h => by
      obtain ⟨hts, hk⟩ := ts_of_tok h
      have hp := tok_run h
      rw [hts] at hp ⊢
      refine .nt ?_
      cases c <;> simp only [valNT, rule, G.alts, if_true, Bool.false_eq_true, if_false] <;> alt_chain hp
  | c, _, _, _, .string h => by
      obtain ⟨hts, hk⟩ := ts_of_tok h
      have hp := tok_run h
      rw [hts] at hp ⊢
      refine .nt ?_
      cases c <;> simp only [valNT, rule, G.alts, if_true, Bool.false_eq_true, if_false] <;> alt_chain hp
  | c, _, _, _, .blockString h => by
      obtain ⟨hts, hk⟩ := ts_of_tok h
      have hp := tok_run h
      rw [hts] at hp ⊢
      refine .nt ?_
      cases c <;> simp only [valNT, rule, G.alts, if_true, Bool.false_eq_true, if_false] <;> alt_chain hp
  | c, p, _, p', .tru h => by
      cases h with
      | mk ht hv =>
        obtain ⟨hts, hk⟩ := ts_of_tok ht
        have hp : Run (.nt .booleanValue) p.ts (.rest p'.ts) := by rw [hts]; exact .nt (.alt_l (.kw_ok ⟨hk, hv⟩))
        rw [hts] at hp ⊢
        refine .nt ?_
        cases c <;> simp only [valNT, rule, G.alts, if_true, Bool.false_eq_true, if_false] <;> alt_chain hp
  | c, p, _, p', .fls h => by
      cases h with
      | mk ht hv =>
        obtain ⟨hts, hk⟩ := ts_of_tok ht
        have hp : Run (.nt .booleanValue) p.ts (.rest p'.ts) := by
          rw [hts]; exact .nt (.alt_r (.kw_no (by rw [hv]; simp)) (.kw_ok ⟨hk, hv⟩))
        rw [hts] at hp ⊢
        refine .nt ?_
        cases c <;> simp only [valNT, rule, G.alts, if_true, Bool.false_eq_true, if_false] <;> alt_chain hp
  | c, p, _, p', .enum h h1 h2 h3 => by
      obtain ⟨hts, hk⟩ := ts_of_tok h
      have hp : Run (.nt .enumValue) p.ts (.rest p'.ts) := by rw [hts]; exact .nt (.nb_ok ⟨hk, by simp [h1, h2, h3]⟩)
      rw [hts] at hp ⊢
      refine .nt ?_
      cases c <;> simp only [valNT, rule, G.alts, if_true, Bool.false_eq_true, if_false] <;> alt_chain hp
  | c, p, _, p', .list ho hvs hc => by
      obtain ⟨hts, hk⟩ := ts_of_tok ho
      have hstar := DValues.run hvs (tok_kind' hc)
      have hl : Run (.nt (listNT c)) p.ts (.rest p'.ts) := by
        cases c
        · exact .nt (.seq_ok (tok_run ho) (.seq_ok hstar (tok_run hc)))
        · exact .nt (.seq_ok (tok_run ho) (.seq_ok hstar (tok_run hc)))
      rw [hts] at hl ⊢
      refine .nt ?_
      cases c <;> simp only [valNT, listNT, rule, G.alts, if_true, Bool.false_eq_true, if_false] at hl ⊢ <;> alt_chain hl
  | c, p, _, p', .obj ho hfs hc => by
      obtain ⟨hts, hk⟩ := ts_of_tok ho
      have hstar := DObjFields.run hfs (tok_kind' hc)
      have hl : Run (.nt (objNT c)) p.ts (.rest p'.ts) := by
        cases c
        · exact .nt (.seq_ok (tok_run ho) (.seq_ok hstar (tok_run hc)))
        · exact .nt (.seq_ok (tok_run ho) (.seq_ok hstar (tok_run hc)))
      rw [hts] at hl ⊢
      refine .nt ?_
      cases c <;> simp only [valNT, objNT, rule, G.alts, if_true, Bool.false_eq_true, if_false] at hl ⊢ <;> alt_chain hl
/-- `Value*` up to the closing bracket -/
theorem DValues.run : ∀ {c p vs p'}, DValues c p vs p' → p'.kind = .bracketR → Run (.star (.nt (valNT c))) p.ts (.rest p'.ts)
  | c, p, _, _, .nil, hk => by
      obtain ⟨e, ts⟩ := p
      cases ts with
      | nil => simp [Pos.kind] at hk
      | cons t r =>
        simp only [Pos.kind] at hk
        refine .star_done (.nt ?_)
        cases c <;> simp only [valNT, rule, G.alts, if_true, Bool.false_eq_true, if_false] <;>
          exact run_no_of_cantStart 16 _ _ _ (by simp [cantStart, rule, G.alts, G.seqs, hk])
  | _, _, _, _, .cons hv hvs, hk => .star_more (DValue.run hv) (DValue.lt hv) (DValues.run hvs hk)
theorem DObjFields.run : ∀ {c p fs p'}, DObjFields c p fs p' → p'.kind = .braceR → Run (.star (.nt (fieldNT c))) p.ts (.rest p'.ts)
  | c, p, _, _, .nil, hk => by
      obtain ⟨e, ts⟩ := p
      cases ts with
      | nil => simp [Pos.kind] at hk
      | cons t r =>
        simp only [Pos.kind] at hk
        refine .star_done (.nt ?_)
        cases c <;> simp only [fieldNT, rule, if_true, Bool.false_eq_true, if_false] <;>
          exact run_no_of_cantStart 16 _ _ _ (by simp [cantStart, rule, G.alts, G.seqs, hk])
  | _, _, _, _, .cons hf hfs, hk => .star_more (DObjField.run hf) (DObjField.lt hf) (DObjFields.run hfs hk)
theorem DObjField.run : ∀ {c p f p'}, DObjField c p f p' → Run (.nt (fieldNT c)) p.ts (.rest p'.ts)
  | c, _, _, _, .mk hn hc hv => by
      have := DValue.run hv
      cases c
      · exact .nt (.seq_ok (dname_run hn) (.seq_ok (tok_run hc) this))
      · exact .nt (.seq_ok (dname_run hn) (.seq_ok (tok_run hc) this))
end

theorem valNT_false : valNT false = .value := rfl
theorem valNT_true : valNT true = .constValue := rfl

/-! ## failure from the kind / keyword of the next token -/

theorem run_no_of_kind (N : Nat) (g : G) {k : TokenKind} {p : Pos} (hk : p.kind = k) (hne : k ≠ .eof)
    (h : ∀ t : Token, t.kind = k → cantStart N g t = true) : Run g p.ts .no := by
  obtain ⟨e, ts⟩ := p
  cases ts with
  | nil => simp [Pos.kind] at hk; exact absurd hk.symm hne
  | cons t r => exact run_no_of_cantStart N g t r (h t (by simpa [Pos.kind] using hk))

theorem run_no_of_name (N : Nat) (g : G) {s : String} {p : Pos} (hs : p.isName s)
    (h : ∀ t : Token, t.kind = .name → t.value = s → cantStart N g t = true) : Run g p.ts .no := by
  obtain ⟨e, ts⟩ := p
  cases ts with
  | nil => simp [Pos.isName] at hs
  | cons t r => exact run_no_of_cantStart N g t r (h t hs.1 hs.2)

theorem tok_no_of_kind {k : TokenKind} {p : Pos} (h : p.kind ≠ k) : Run (.tok k) p.ts .no := by
  obtain ⟨e, ts⟩ := p
  cases ts with
  | nil => exact .tok_nil
  | cons t r => exact .tok_no (by simpa [Pos.kind] using h)

/-! ## repetition -/

theorem many_run_star {α} {D : Pos → α → Pos → Prop} {g : G} (hitem : ∀ p x p', D p x p' → Run g p.ts (.rest p'.ts))
    (hlt : ∀ p x p', D p x p' → p'.ts.length < p.ts.length) {p : Pos} {xs : List α} {p' : Pos} (h : Many D p xs p')
    (hno : Run g p'.ts .no) : Run (.star g) p.ts (.rest p'.ts) := by
  induction h with
  | nil => exact .star_done hno
  | cons hx _ ih => exact .star_more (hitem _ _ _ hx) (hlt _ _ _ hx) (ih hno)

theorem many_run_plus {α} {D : Pos → α → Pos → Prop} {g : G} (hitem : ∀ p x p', D p x p' → Run g p.ts (.rest p'.ts))
    (hlt : ∀ p x p', D p x p' → p'.ts.length < p.ts.length) {p : Pos} {xs : List α} {p' : Pos} (h : Many D p xs p')
    (hne : xs ≠ []) (hno : Run g p'.ts .no) : Run (G.plus g) p.ts (.rest p'.ts) := by
  cases h with
  | nil => exact absurd rfl hne
  | cons hx hm => exact .seq_ok (hitem _ _ _ hx) (many_run_star hitem hlt hm hno)

/-- `open item+ close` -/
theorem delimited_plus_run {α} {D : Pos → α → Pos → Prop} {g : G} {opn close : TokenKind}
    (hitem : ∀ p x p', D p x p' → Run g p.ts (.rest p'.ts)) (hlt : ∀ p x p', D p x p' → p'.ts.length < p.ts.length)
    (hclose : ∀ t : Token, t.kind = close → cantStart 16 g t = true) (hce : close ≠ .eof)
    {p0 : Pos} {o : Token} {p1 : Pos} {xs : List α} {p2 : Pos} {cl : Token} {p3 : Pos}
    (ho : Tok opn p0 o p1) (hm : Many D p1 xs p2) (hne : xs ≠ []) (hc : Tok close p2 cl p3) :
    Run (G.seqs [.tok opn, G.plus g, .tok close]) p0.ts (.rest p3.ts) :=
  .seq_ok (tok_run ho) (.seq_ok (many_run_plus hitem hlt hm hne (run_no_of_kind 16 g (tok_kind' hc) hce hclose)) (tok_run hc))

/-- `open item* close` -/
theorem delimited_star_run {α} {D : Pos → α → Pos → Prop} {g : G} {opn close : TokenKind}
    (hitem : ∀ p x p', D p x p' → Run g p.ts (.rest p'.ts)) (hlt : ∀ p x p', D p x p' → p'.ts.length < p.ts.length)
    (hclose : ∀ t : Token, t.kind = close → cantStart 16 g t = true) (hce : close ≠ .eof)
    {p0 : Pos} {o : Token} {p1 : Pos} {xs : List α} {p2 : Pos} {cl : Token} {p3 : Pos}
    (ho : Tok opn p0 o p1) (hm : Many D p1 xs p2) (hc : Tok close p2 cl p3) :
    Run (G.seqs [.tok opn, .star g, .tok close]) p0.ts (.rest p3.ts) :=
  .seq_ok (tok_run ho) (.seq_ok (many_run_star hitem hlt hm (run_no_of_kind 16 g (tok_kind' hc) hce hclose)) (tok_run hc))

/-! ## arguments, directives -/

theorem dargument_run {p : Pos} {a : Argument} {p' : Pos} (h : DArgument p a p') : Run (.nt .argument) p.ts (.rest p'.ts) := by
  cases h with
  | mk hn hc hv => exact .nt (.seq_ok (dname_run hn) (.seq_ok (tok_run hc) (DValue.run hv)))

theorem darguments_run {p : Pos} {as : List Argument} {p' : Pos} (h : DArguments p as p') :
    Run (.optIf (.kind .parenL) (.nt .arguments)) p.ts (.rest p'.ts) := by
  cases h with
  | none hk => exact .optIf_no (not_holds_kind hk)
  | some ho hm hne hc =>
    refine .optIf_yes (holds_kind (by decide) (tok_kind' ho)) (.nt ?_)
    exact delimited_plus_run (fun _ _ _ => dargument_run) (fun _ _ _ => dargument_lt)
      (fun t ht => by simp [cantStart, rule, G.seqs, ht]) (by decide) ho hm hne hc

theorem ddirective_run {p : Pos} {d : Directive} {p' : Pos} (h : DDirective p d p') : Run (.nt .directive) p.ts (.rest p'.ts) := by
  cases h with
  | mk ha hn hargs => exact .nt (.seq_ok (tok_run ha) (.seq_ok (dname_run hn) (darguments_run hargs)))

theorem ddirectives_run {p : Pos} {ds : List Directive} {p' : Pos} (h : DDirectives p ds p') :
    Run (.nt .directives) p.ts (.rest p'.ts) := by
  refine .nt ?_
  induction h with
  | nil hk => exact .starIf_done (not_holds_kind hk)
  | @cons p d p1 ds p2 hd _ ih =>
    have hk : p.kind = .at := by cases hd with | mk ha _ _ => exact tok_kind' ha
    exact .starIf_more (holds_kind (by decide) hk) (ddirective_run hd) (ddirective_lt hd) ih

/-! ## types -/

theorem dnamedType_run {p : Pos} {t : TypeRef} {p' : Pos} (h : DNamedType p t p') : Run (.nt .namedType) p.ts (.rest p'.ts) := by
  cases h with
  | mk hn => exact .nt (dname_run hn)

mutual
theorem DBaseType.run : ∀ {p t p'}, DBaseType p t p' →
    (Run (.nt .namedType) p.ts (.rest p'.ts) ∧ p.kind = .name) ∨ (Run (.nt .listType) p.ts (.rest p'.ts) ∧ p.kind = .bracketL)
  | _, _, _, .named h => .inl ⟨dnamedType_run h, dnamedType_kind h⟩
  | _, _, _, .list ho ht hc => .inr ⟨.nt (.seq_ok (tok_run ho) (.seq_ok (DType.run ht) (tok_run hc))), tok_kind' ho⟩
theorem DType.run : ∀ {p t p'}, DType p t p' → Run (.nt .type) p.ts (.rest p'.ts)
  | _, _, _, .plain hb hk => by
      refine .nt ?_
      simp only [rule, G.alts]
      rcases DBaseType.run hb with ⟨hn, hkn⟩ | ⟨hl, hkl⟩
      · refine .alt_r (.nt (.alt_r (.seq_ok hn (tok_no_of_kind hk)) ?_)) (.alt_l hn)
        exact run_no_of_kind 16 _ hkn (by decide) (fun t ht => by simp [cantStart, rule, G.seqs, ht])
      · refine .alt_r (.nt (.alt_r ?_ (.seq_ok hl (tok_no_of_kind hk)))) (.alt_r ?_ hl)
        · exact run_no_of_kind 16 _ hkl (by decide) (fun t ht => by simp [cantStart, rule, G.seqs, ht])
        · exact run_no_of_kind 16 _ hkl (by decide) (fun t ht => by simp [cantStart, rule, G.seqs, ht])
  | _, _, _, .nonNull hb hbang => by
      refine .nt ?_
      simp only [rule, G.alts]
      rcases DBaseType.run hb with ⟨hn, hkn⟩ | ⟨hl, hkl⟩
      · exact .alt_l (.nt (.alt_l (.seq_ok hn (tok_run hbang))))
      · refine .alt_l (.nt (.alt_r ?_ (.seq_ok hl (tok_run hbang))))
        exact run_no_of_kind 16 _ hkl (by decide) (fun t ht => by simp [cantStart, rule, G.seqs, ht])
end

/-! ## selection sets -/

theorem dfragmentName_run {p : Pos} {n : Name} {p' : Pos} (h : DFragmentName p n p') :
    Run (.nt .fragmentName) p.ts (.rest p'.ts) := by
  cases h with
  | mk hN hne =>
    cases hN with
    | mk ht =>
      obtain ⟨hts, hk⟩ := ts_of_tok ht
      rw [hts]
      exact .nt (.nb_ok ⟨hk, by simpa using hne⟩)

theorem dtypeCondition_run {p : Pos} {t : Option TypeRef} {p' : Pos} (h : DTypeCondition p t p') :
    Run (.optIf (.kw "on") (.nt .typeCondition)) p.ts (.rest p'.ts) := by
  cases h with
  | none hno => exact .optIf_no (not_holds_kw hno)
  | some hk ht => exact .optIf_yes (holds_kw (kw_isName hk)) (.nt (.seq_ok (kw_run hk) (dnamedType_run ht)))

/-- a field does not start with `...` (nor with anything but a name) -/
theorem field_no {p : Pos} (hk : p.kind ≠ .name) : Run (.nt .field) p.ts .no := by
  refine .nt (.seq_ok (.opt_none (.nt (.seq_no (tok_no_of_kind hk)))) (.seq_no (tok_no_of_kind hk)))

mutual
theorem DSelectionSet.run : ∀ {p s p'}, DSelectionSet p s p' → Run (.nt .selectionSet) p.ts (.rest p'.ts)
  | _, _, _, .mk ho hs hne hc => by
      cases hs with
      | nil => exact absurd rfl hne
      | cons h hs' =>
        exact .nt (.seq_ok (tok_run ho) (.seq_ok (.seq_ok (DSelection.run h) (DSelections.run hs' (tok_kind' hc))) (tok_run hc)))
theorem DSelections.run : ∀ {p ss p'}, DSelections p ss p' → p'.kind = .braceR → Run (.star (.nt .selection)) p.ts (.rest p'.ts)
  | _, _, _, .nil, hk => by
      refine .star_done (.nt ?_)
      simp only [rule, G.alts]
      refine .alt_r (field_no (by rw [hk]; decide)) (.alt_r ?_ ?_) <;>
        exact run_no_of_kind 16 _ hk (by decide) (fun t ht => by simp [cantStart, rule, G.seqs, ht])
  | _, _, _, .cons h hs, hk => .star_more (DSelection.run h) (DSelection.lt h) (DSelections.run hs hk)
theorem DSelection.run : ∀ {p s p'}, DSelection p s p' → Run (.nt .selection) p.ts (.rest p'.ts)
  | _, _, _, .field hN hk hA hD hS => by
      refine .nt (.alt_l (.nt ?_))
      exact .seq_ok (.opt_none (.nt (.seq_ok (dname_run hN) (tok_no_of_kind hk))))
        (.seq_ok (dname_run hN) (.seq_ok (darguments_run hA) (.seq_ok (ddirectives_run hD) (DOptSelectionSet.run hS))))
  | _, _, _, .aliased hAl hC hN hA hD hS => by
      refine .nt (.alt_l (.nt ?_))
      exact .seq_ok (.opt_some (.nt (.seq_ok (dname_run hAl) (tok_run hC))))
        (.seq_ok (dname_run hN) (.seq_ok (darguments_run hA) (.seq_ok (ddirectives_run hD) (DOptSelectionSet.run hS))))
  | _, _, _, .spread hSp hN hD => by
      refine .nt (.alt_r (field_no (by rw [tok_kind' hSp]; decide)) (.alt_l (.nt ?_)))
      exact .seq_ok (tok_run hSp) (.seq_ok (dfragmentName_run hN) (ddirectives_run hD))
  | _, _, _, .inline (p1 := p1) hSp hT hD hS => by
      have hfn : Run (.nt .fragmentName) p1.ts .no := by
        cases hT with
        | none hno =>
          have hk : p1.kind = .at ∨ p1.kind = .braceL := by
            cases hD with
            | nil _ => cases hS with | mk ho _ _ _ => exact .inr (tok_kind' ho)
            | cons hd _ => cases hd with | mk ha _ _ => exact .inl (tok_kind' ha)
          rcases hk with hk | hk <;>
            exact run_no_of_kind 16 _ hk (by decide) (fun t ht => by simp [cantStart, rule, ht])
        | some hOn _ =>
          exact run_no_of_name 16 _ (kw_isName hOn) (fun t hk hv => by simp [cantStart, rule, hk, hv])
      refine .nt (.alt_r (field_no (by rw [tok_kind' hSp]; decide)) (.alt_r (.nt (.seq_ok (tok_run hSp) (.seq_no hfn))) (.nt ?_)))
      exact .seq_ok (tok_run hSp) (.seq_ok (dtypeCondition_run hT) (.seq_ok (ddirectives_run hD) (DSelectionSet.run hS)))
theorem DOptSelectionSet.run : ∀ {p s p'}, DOptSelectionSet p s p' →
    Run (.optIf (.kind .braceL) (.nt .selectionSet)) p.ts (.rest p'.ts)
  | _, _, _, .none hk => .optIf_no (not_holds_kind hk)
  | p, _, _, .some h => by
      have hk : p.kind = TokenKind.braceL := by cases h with | mk ho _ _ _ => exact tok_kind' ho
      exact .optIf_yes (holds_kind (by decide) hk) (DSelectionSet.run h)
end

/-! ## operations -/

theorem dopType_run {p : Pos} {op : OpType} {p' : Pos} (h : DOpType p op p') : Run (.nt .operationType) p.ts (.rest p'.ts) := by
  refine .nt ?_
  simp only [rule, G.alts]
  cases h with
  | query hk => exact .alt_l (kw_run hk)
  | mutation hk =>
    cases hk with
    | mk ht hv =>
      obtain ⟨hts, hkk⟩ := ts_of_tok ht
      rw [hts]
      exact .alt_r (.kw_no (by rw [hv]; simp)) (.alt_l (.kw_ok ⟨hkk, hv⟩))
  | subscription hk =>
    cases hk with
    | mk ht hv =>
      obtain ⟨hts, hkk⟩ := ts_of_tok ht
      rw [hts]
      exact .alt_r (.kw_no (by rw [hv]; simp)) (.alt_r (.kw_no (by rw [hv]; simp)) (.kw_ok ⟨hkk, hv⟩))

theorem ddefault_run {p : Pos} {d : Option Value} {p' : Pos} (h : DDefault p d p') :
    Run (.optIf (.kind .equals) (.nt .defaultValue)) p.ts (.rest p'.ts) := by
  cases h with
  | none hk => exact .optIf_no (not_holds_kind hk)
  | some hq hv => exact .optIf_yes (holds_kind (by decide) (tok_kind' hq)) (.nt (.seq_ok (tok_run hq) (DValue.run hv)))

theorem dvarDef_run {p : Pos} {v : VarDef} {p' : Pos} (h : DVarDef p v p') : Run (.nt .variableDefinition) p.ts (.rest p'.ts) := by
  cases h with
  | mk hv hc ht hd => exact .nt (.seq_ok (dvariable_run hv) (.seq_ok (tok_run hc) (.seq_ok (DType.run ht) (ddefault_run hd))))

theorem dvarDefs_run {p : Pos} {vs : List VarDef} {p' : Pos} (h : DVarDefs p vs p') :
    Run (.optIf (.kind .parenL) (.nt .variableDefinitions)) p.ts (.rest p'.ts) := by
  cases h with
  | none hk => exact .optIf_no (not_holds_kind hk)
  | some ho hm hne hc =>
    refine .optIf_yes (holds_kind (by decide) (tok_kind' ho)) (.nt ?_)
    exact delimited_plus_run (fun _ _ _ => dvarDef_run) (fun _ _ _ => dvarDef_lt)
      (fun t ht => by simp [cantStart, rule, G.seqs, ht]) (by decide) ho hm hne hc

theorem doptName_run {p : Pos} {n : Option Name} {p' : Pos} (h : DOptName p n p') :
    Run (.opt (.tok .name)) p.ts (.rest p'.ts) := by
  cases h with
  | none hk => exact .opt_none (tok_no_of_kind hk)
  | some hn => exact .opt_some (dname_run hn)

/-! ## type system -/

theorem ddescription_run {p : Pos} {d : Option String} {p' : Pos} (h : DDescription p d p') :
    Run (.opt (.nt .description)) p.ts (.rest p'.ts) := by
  cases h with
  | none h1 h2 => exact .opt_none (.nt (.alt_r (tok_no_of_kind h1) (tok_no_of_kind h2)))
  | string ht => exact .opt_some (.nt (.alt_l (tok_run ht)))
  | blockString ht =>
    refine .opt_some (.nt (.alt_r (tok_no_of_kind ?_) (tok_run ht)))
    rw [tok_kind' ht]; decide

theorem dopTypeDef_run {p : Pos} {d : OpTypeDef} {p' : Pos} (h : DOpTypeDef p d p') :
    Run (.nt .operationTypeDefinition) p.ts (.rest p'.ts) := by
  cases h with
  | mk ho hc ht => exact .nt (.seq_ok (dopType_run ho) (.seq_ok (tok_run hc) (dnamedType_run ht)))

theorem sepBy_run {α} {sep : TokenKind} (hsep : sep ≠ .eof) {D : Pos → α → Pos → Prop} {g : G}
    (hitem : ∀ p x p', D p x p' → Run g p.ts (.rest p'.ts))
    {p : Pos} {xs : List α} {p' : Pos} (h : SepBy sep D p xs p') :
    Run (.seq g (.starIf (.kind sep) (.seq (.tok sep) g))) p.ts (.rest p'.ts) := by
  induction h with
  | one hx hk => exact .seq_ok (hitem _ _ _ hx) (.starIf_done (not_holds_kind hk))
  | cons hx hs _ ih =>
    cases ih with
    | seq_ok h1 h2 =>
      refine .seq_ok (hitem _ _ _ hx) (.starIf_more (holds_kind hsep (tok_kind' hs)) (.seq_ok (tok_run hs) h1) ?_ h2)
      have := tok_lt hs
      have := Run.le h1 _ rfl
      omega

theorem kw_no_of {s : String} {p : Pos} (h : ¬ p.isName s) : Run (.kw s) p.ts .no := by
  obtain ⟨e, ts⟩ := p
  cases ts with
  | nil => exact .kw_nil
  | cons t r => exact .kw_no (by simpa [Pos.isName] using h)

theorem not_isName_of_kw {s s' : String} {p p' : Pos} (h : Kw s p p') (hne : s ≠ s') : ¬ p.isName s' := by
  cases h with
  | mk ht hv => cases ht with | mk e t r hk => intro hi; exact hne (hv.symm.trans hi.2)

theorem not_isName_of_kind {s : String} {p : Pos} (h : p.kind ≠ .name) : ¬ p.isName s := by
  obtain ⟨e, ts⟩ := p
  cases ts with
  | nil => simp [Pos.isName]
  | cons t r => intro hi; exact h hi.1

theorem dimplements_run {p : Pos} {ts : List TypeRef} {p' : Pos} (h : DImplements p ts p') :
    Run (.optIf (.kw "implements") (.nt .implementsInterfaces)) p.ts (.rest p'.ts) := by
  cases h with
  | none hno => exact .optIf_no (not_holds_kw hno)
  | plain hk hna hs =>
    refine .optIf_yes (holds_kw (kw_isName hk)) (.nt (.seq_ok (kw_run hk) (.seq_ok (.opt_none (tok_no_of_kind hna)) ?_)))
    exact sepBy_run (by decide) (fun _ _ _ => dnamedType_run) hs
  | leadingAmp hk ha hs =>
    refine .optIf_yes (holds_kw (kw_isName hk)) (.nt (.seq_ok (kw_run hk) (.seq_ok (.opt_some (tok_run ha)) ?_)))
    exact sepBy_run (by decide) (fun _ _ _ => dnamedType_run) hs

theorem dinputValueDef_run {p : Pos} {d : InputValueDef} {p' : Pos} (h : DInputValueDef p d p') :
    Run (.nt .inputValueDefinition) p.ts (.rest p'.ts) := by
  cases h with
  | mk hde hn hc ht hd hdirs =>
    exact .nt (.seq_ok (ddescription_run hde) (.seq_ok (dname_run hn) (.seq_ok (tok_run hc) (.seq_ok (DType.run ht)
      (.seq_ok (ddefault_run hd) (ddirectives_run hdirs))))))

/-- an item that starts with `Description? Name` does not start with a closing token -/
theorem descItem_no {g : G} {p : Pos} {close : TokenKind} (hc : close = .braceR ∨ close = .parenR) (hk : p.kind = close) :
    Run (G.seq (.opt (.nt .description)) (.seq (.tok .name) g)) p.ts .no := by
  have h1 : p.kind ≠ .string := by rcases hc with rfl | rfl <;> rw [hk] <;> decide
  have h2 : p.kind ≠ .blockString := by rcases hc with rfl | rfl <;> rw [hk] <;> decide
  have h3 : p.kind ≠ .name := by rcases hc with rfl | rfl <;> rw [hk] <;> decide
  exact .seq_ok (.opt_none (.nt (.alt_r (tok_no_of_kind h1) (tok_no_of_kind h2)))) (.seq_no (tok_no_of_kind h3))

theorem many_run_star' {α} {D : Pos → α → Pos → Prop} {g : G} (hitem : ∀ p x p', D p x p' → Run g p.ts (.rest p'.ts))
    (hlt : ∀ p x p', D p x p' → p'.ts.length < p.ts.length) {p0 : Pos} {o : Token} {p1 : Pos} {xs : List α} {p2 : Pos}
    {cl : Token} {p3 : Pos} {opn close : TokenKind} (ho : Tok opn p0 o p1) (hm : Many D p1 xs p2) (hc : Tok close p2 cl p3)
    (hno : Run g p2.ts .no) : Run (G.seqs [.tok opn, .star g, .tok close]) p0.ts (.rest p3.ts) :=
  .seq_ok (tok_run ho) (.seq_ok (many_run_star hitem hlt hm hno) (tok_run hc))

theorem dargumentDefs_run {p : Pos} {ds : List InputValueDef} {p' : Pos} (h : DArgumentDefs p ds p') :
    Run (.optIf (.kind .parenL) (.nt .argumentsDefinition)) p.ts (.rest p'.ts) := by
  cases h with
  | none hk => exact .optIf_no (not_holds_kind hk)
  | some ho hm hne hc =>
    refine .optIf_yes (holds_kind (by decide) (tok_kind' ho)) (.nt ?_)
    exact .seq_ok (tok_run ho) (.seq_ok (many_run_plus (fun _ _ _ => dinputValueDef_run) (fun _ _ _ => dinputValueDef_lt) hm hne
      (.nt (descItem_no (.inr rfl) (tok_kind' hc)))) (tok_run hc))

theorem dfieldDef_run {p : Pos} {d : FieldDef} {p' : Pos} (h : DFieldDef p d p') :
    Run (.nt .fieldDefinition) p.ts (.rest p'.ts) := by
  cases h with
  | mk hde hn ha hc ht hdirs =>
    exact .nt (.seq_ok (ddescription_run hde) (.seq_ok (dname_run hn) (.seq_ok (dargumentDefs_run ha) (.seq_ok (tok_run hc)
      (.seq_ok (DType.run ht) (ddirectives_run hdirs))))))

theorem denumValueDef_run {p : Pos} {d : EnumValueDef} {p' : Pos} (h : DEnumValueDef p d p') :
    Run (.nt .enumValueDefinition) p.ts (.rest p'.ts) := by
  cases h with
  | mk hde hn hdirs => exact .nt (.seq_ok (ddescription_run hde) (.seq_ok (dname_run hn) (ddirectives_run hdirs)))

theorem braced_fieldDefs_run {p : Pos} {fs : List FieldDef} {p' : Pos} (h : Braced DFieldDef p fs p') :
    Run (G.seqs [.tok .braceL, .star (.nt .fieldDefinition), .tok .braceR]) p.ts (.rest p'.ts) := by
  cases h with
  | mk ho hm hc =>
    exact many_run_star' (fun _ _ _ => dfieldDef_run) (fun _ _ _ => dfieldDef_lt) ho hm hc
      (.nt (descItem_no (.inl rfl) (tok_kind' hc)))

theorem braced_inputValueDefs_run {p : Pos} {fs : List InputValueDef} {p' : Pos} (h : Braced DInputValueDef p fs p') :
    Run (G.seqs [.tok .braceL, .star (.nt .inputValueDefinition), .tok .braceR]) p.ts (.rest p'.ts) := by
  cases h with
  | mk ho hm hc =>
    exact many_run_star' (fun _ _ _ => dinputValueDef_run) (fun _ _ _ => dinputValueDef_lt) ho hm hc
      (.nt (descItem_no (.inl rfl) (tok_kind' hc)))

theorem braced_enumValueDefs_run {p : Pos} {fs : List EnumValueDef} {p' : Pos} (h : Braced DEnumValueDef p fs p') :
    Run (G.seqs [.tok .braceL, .star (.nt .enumValueDefinition), .tok .braceR]) p.ts (.rest p'.ts) := by
  cases h with
  | mk ho hm hc =>
    exact many_run_star' (fun _ _ _ => denumValueDef_run) (fun _ _ _ => denumValueDef_lt) ho hm hc
      (.nt (descItem_no (.inl rfl) (tok_kind' hc)))

theorem dobjectDef_run {p : Pos} {d : ObjectDef} {p' : Pos} (h : DObjectDef p d p') :
    Run (.nt .objectTypeDefinition) p.ts (.rest p'.ts) := by
  cases h with
  | mk hde hk hn hi hd hb =>
    exact .nt (.seq_ok (ddescription_run hde) (.seq_ok (kw_run hk) (.seq_ok (dname_run hn) (.seq_ok (dimplements_run hi)
      (.seq_ok (ddirectives_run hd) (braced_fieldDefs_run hb))))))

/-! ## definitions -/

/-- a definition `Description? kw …` is not matched by `Description? kw' …` for another keyword -/
theorem descKw_no {p0 : Pos} {desc : Option String} {p1 : Pos} {s s' : String} {p2 : Pos} {g : G}
    (hDe : DDescription p0 desc p1) (hK : Kw s p1 p2) (hne : s ≠ s') :
    Run (G.seq (.opt (.nt .description)) (.seq (.kw s') g)) p0.ts .no :=
  .seq_ok (ddescription_run hDe) (.seq_no (kw_no_of (not_isName_of_kw hK hne)))

theorem kwHead_no {p0 : Pos} {desc : Option String} {p1 : Pos} {s s' : String} {p2 : Pos}
    (hDe : DDescription p0 desc p1) (hK : Kw s p1 p2) (hne : s ≠ s') : Run (G.kw s') p0.ts .no := by
  refine kw_no_of ?_
  cases hDe with
  | none _ _ => exact not_isName_of_kw hK hne
  | string ht => exact not_isName_of_kind (by rw [tok_kind' ht]; decide)
  | blockString ht => exact not_isName_of_kind (by rw [tok_kind' ht]; decide)

/-- … nor by `kw' …` -/
theorem kwFirst_no {p0 : Pos} {desc : Option String} {p1 : Pos} {s s' : String} {p2 : Pos} {g : G}
    (hDe : DDescription p0 desc p1) (hK : Kw s p1 p2) (hne : s ≠ s') : Run (G.seq (.kw s') g) p0.ts .no :=
  .seq_no (kwHead_no hDe hK hne)

/-- the description-less view of a keyword -/
theorem ddesc_none_of_kw {s : String} {p p' : Pos} (h : Kw s p p') : DDescription p none p :=
  .none (by rw [kw_kind h]; decide) (by rw [kw_kind h]; decide)

/-- a type-system definition is neither an operation nor a fragment definition -/
theorem exec_no {p0 : Pos} {desc : Option String} {p1 : Pos} {s : String} {p2 : Pos}
    (hDe : DDescription p0 desc p1) (hK : Kw s p1 p2)
    (h1 : s ≠ "query") (h2 : s ≠ "mutation") (h3 : s ≠ "subscription") (h4 : s ≠ "fragment") :
    Run (.nt .operationDefinition) p0.ts .no ∧ Run (.nt .fragmentDefinition) p0.ts .no := by
  have hb : p0.kind ≠ .braceL := by
    cases hDe with
    | none _ _ => rw [kw_kind hK]; decide
    | string ht => rw [tok_kind' ht]; decide
    | blockString ht => rw [tok_kind' ht]; decide
  constructor
  · refine .nt (.alt_r (.nt (.seq_no (tok_no_of_kind hb))) (.seq_no (.nt ?_)))
    simp only [rule, G.alts]
    exact .alt_r (kwHead_no hDe hK h1) (.alt_r (kwHead_no hDe hK h2) (kwHead_no hDe hK h3))
  · exact .nt (kwFirst_no hDe hK h4)

/-- pick the alternative of `TypeSystemDefinition` that `h` matches: the earlier ones fail on the keyword -/
macro "tsd_chain " h:term ", " hDe:term ", " hK:term : tactic => `(tactic|
  repeat' first
    | exact $h
    | exact Run.alt_l $h
    | refine Run.alt_r (Run.nt (descKw_no $hDe $hK (by decide))) ?_
    | refine Run.alt_r (Run.nt (kwFirst_no $hDe $hK (by decide))) ?_)

/-- a type-system definition, given its keyword and the match of its own production -/
theorem tsd_run {p0 : Pos} {desc : Option String} {p1 : Pos} {s : String} {p2 p' : Pos}
    (hDe : DDescription p0 desc p1) (hK : Kw s p1 p2)
    (h1 : s ≠ "query") (h2 : s ≠ "mutation") (h3 : s ≠ "subscription") (h4 : s ≠ "fragment")
    (h : Run (.nt .typeSystemDefinition) p0.ts (.rest p'.ts)) : Run (.nt .definition) p0.ts (.rest p'.ts) := by
  obtain ⟨ho, hf⟩ := exec_no hDe hK h1 h2 h3 h4
  exact .nt (.alt_r ho (.alt_r hf h))

theorem ddefinition_run {p : Pos} {d : Definition} {p' : Pos} (h : DDefinition p d p') :
    Run (.nt .definition) p.ts (.rest p'.ts) := by
  cases h with
  | query hS => exact .nt (.alt_l (.nt (.alt_l (DSelectionSet.run hS))))
  | operation hOp hN hV hD hS =>
    have hno : Run (.nt .selectionSet) p.ts .no :=
      run_no_of_kind 16 _ (dopType_kind hOp) (by decide) (fun t ht => by simp [cantStart, rule, G.seqs, ht])
    exact .nt (.alt_l (.nt (.alt_r hno (.seq_ok (dopType_run hOp) (.seq_ok (doptName_run hN) (.seq_ok (dvarDefs_run hV)
      (.seq_ok (ddirectives_run hD) (DSelectionSet.run hS))))))))
  | fragment hK hN hK2 hT hD hS =>
    have hDe := ddesc_none_of_kw hK
    have hb : p.kind ≠ .braceL := by rw [kw_kind hK]; decide
    have hop : Run (.nt .operationDefinition) p.ts .no := by
      refine .nt (.alt_r (.nt (.seq_no (tok_no_of_kind hb))) (.seq_no (.nt ?_)))
      simp only [rule, G.alts]
      exact .alt_r (kwHead_no hDe hK (by decide)) (.alt_r (kwHead_no hDe hK (by decide)) (kwHead_no hDe hK (by decide)))
    have htc : Run (.nt .typeCondition) _ (.rest _) := .nt (.seq_ok (kw_run hK2) (dnamedType_run hT))
    exact .nt (.alt_r hop (.alt_l (.nt (.seq_ok (kw_run hK) (.seq_ok (dfragmentName_run hN) (.seq_ok htc
      (.seq_ok (ddirectives_run hD) (DSelectionSet.run hS))))))))
  | schema hK hD hO hM hne hC =>
    have hDe := ddesc_none_of_kw hK
    have hp : Run (.nt .schemaDefinition) p.ts (.rest p'.ts) := by
      refine .nt (.seq_ok (kw_run hK) (.seq_ok (ddirectives_run hD) ?_))
      exact delimited_plus_run (fun _ _ _ => dopTypeDef_run) (fun _ _ _ => dopTypeDef_lt)
        (fun t ht => by simp [cantStart, rule, G.seqs, G.alts, ht]) (by decide) hO hM hne hC
    refine tsd_run hDe hK (by decide) (by decide) (by decide) (by decide) (.nt ?_)
    simp only [rule, G.alts]
    tsd_chain hp, hDe, hK
  | scalar hDe hK hN hD =>
    have hp : Run (.nt .scalarTypeDefinition) p.ts (.rest p'.ts) :=
      .nt (.seq_ok (ddescription_run hDe) (.seq_ok (kw_run hK) (.seq_ok (dname_run hN) (ddirectives_run hD))))
    refine tsd_run hDe hK (by decide) (by decide) (by decide) (by decide) (.nt ?_)
    simp only [rule, G.alts]
    tsd_chain hp, hDe, hK
  | object hO =>
    have hp := dobjectDef_run hO
    cases hO with
    | mk hDe hK hN hI hD hB =>
      refine tsd_run hDe hK (by decide) (by decide) (by decide) (by decide) (.nt ?_)
      simp only [rule, G.alts]
      tsd_chain hp, hDe, hK
  | interface hDe hK hN hD hB =>
    have hp : Run (.nt .interfaceTypeDefinition) p.ts (.rest p'.ts) :=
      .nt (.seq_ok (ddescription_run hDe) (.seq_ok (kw_run hK) (.seq_ok (dname_run hN) (.seq_ok (ddirectives_run hD)
        (braced_fieldDefs_run hB)))))
    refine tsd_run hDe hK (by decide) (by decide) (by decide) (by decide) (.nt ?_)
    simp only [rule, G.alts]
    tsd_chain hp, hDe, hK
  | union hDe hK hN hD hQ hS =>
    have hm : Run (.nt .unionMembers) _ (.rest p'.ts) := .nt (sepBy_run (by decide) (fun _ _ _ => dnamedType_run) hS)
    have hp : Run (.nt .unionTypeDefinition) p.ts (.rest p'.ts) :=
      .nt (.seq_ok (ddescription_run hDe) (.seq_ok (kw_run hK) (.seq_ok (dname_run hN) (.seq_ok (ddirectives_run hD)
        (.seq_ok (tok_run hQ) hm)))))
    refine tsd_run hDe hK (by decide) (by decide) (by decide) (by decide) (.nt ?_)
    simp only [rule, G.alts]
    tsd_chain hp, hDe, hK
  | enum hDe hK hN hD hB =>
    have hp : Run (.nt .enumTypeDefinition) p.ts (.rest p'.ts) :=
      .nt (.seq_ok (ddescription_run hDe) (.seq_ok (kw_run hK) (.seq_ok (dname_run hN) (.seq_ok (ddirectives_run hD)
        (braced_enumValueDefs_run hB)))))
    refine tsd_run hDe hK (by decide) (by decide) (by decide) (by decide) (.nt ?_)
    simp only [rule, G.alts]
    tsd_chain hp, hDe, hK
  | inputObject hDe hK hN hD hB =>
    have hp : Run (.nt .inputObjectTypeDefinition) p.ts (.rest p'.ts) :=
      .nt (.seq_ok (ddescription_run hDe) (.seq_ok (kw_run hK) (.seq_ok (dname_run hN) (.seq_ok (ddirectives_run hD)
        (braced_inputValueDefs_run hB)))))
    refine tsd_run hDe hK (by decide) (by decide) (by decide) (by decide) (.nt ?_)
    simp only [rule, G.alts]
    tsd_chain hp, hDe, hK
  | extend hK hO =>
    have hDe := ddesc_none_of_kw hK
    have hp : Run (.nt .typeExtensionDefinition) p.ts (.rest p'.ts) := .nt (.seq_ok (kw_run hK) (dobjectDef_run hO))
    refine tsd_run hDe hK (by decide) (by decide) (by decide) (by decide) (.nt ?_)
    simp only [rule, G.alts]
    tsd_chain hp, hDe, hK
  | directive hDe hK hA hN hAr hK2 hL =>
    have hl : Run (.nt .directiveLocations) _ (.rest p'.ts) := .nt (sepBy_run (by decide) (fun _ _ _ => dname_run) hL)
    have hp : Run (.nt .directiveDefinition) p.ts (.rest p'.ts) :=
      .nt (.seq_ok (ddescription_run hDe) (.seq_ok (kw_run hK) (.seq_ok (tok_run hA) (.seq_ok (dname_run hN)
        (.seq_ok (dargumentDefs_run hAr) (.seq_ok (kw_run hK2) hl))))))
    refine tsd_run hDe hK (by decide) (by decide) (by decide) (by decide) (.nt ?_)
    simp only [rule, G.alts]
    tsd_chain hp, hDe, hK

/-- **recogniser completeness** (big-step form): a document of the grammar is matched completely -/
theorem derivesDoc_run {toks : List Token} {eofPos : Nat} {d : Document} (h : DerivesDoc toks eofPos d) :
    Run (.nt .document) toks (.rest []) := by
  cases h with
  | mk hM hne =>
    have hno : Run (.nt .definition) ([] : List Token) .no := by
      refine .nt ?_
      simp only [rule, G.alts]
      refine .alt_r (.nt (.alt_r (.nt (.seq_no .tok_nil)) (.seq_no (.nt ?_)))) (.alt_r (.nt (.seq_no .kw_nil)) (.nt ?_))
      · simp only [rule, G.alts]; exact .alt_r .kw_nil (.alt_r .kw_nil .kw_nil)
      · simp only [rule, G.alts]
        have hd : Run (.opt (.nt .description)) ([] : List Token) (.rest []) := .opt_none (.nt (.alt_r .tok_nil .tok_nil))
        repeat' first
          | exact .seq_no .kw_nil
          | exact .seq_ok hd (.seq_no .kw_nil)
          | refine .alt_r (.nt (.seq_no .kw_nil)) ?_
          | refine .alt_r (.nt (.seq_ok hd (.seq_no .kw_nil))) ?_
          | exact .nt (.seq_ok hd (.seq_no .kw_nil))
    exact .nt (many_run_plus (fun _ _ _ => ddefinition_run) (fun _ _ _ => ddefinition_lt) hM hne hno)

end GqlModel.Grammar
