import GqlProofs.ParserSound
import GqlProofs.ParserDerivs
/-! Completeness of the parser model M w.r.t. the grammar S (C03): every derivation is found by M, with the same
AST, leaving the state at the derivation's end position (flag and EOF offset untouched). -/
set_option linter.unusedSimpArgs false

namespace GqlModel.Parser
open GqlModel GqlModel.Grammar

def Cmp {α} (m : P α) (D : Pos → α → Pos → Prop) : Prop :=
  ∀ σ a p', D σ.pos a p' → m σ = .ok (a, σ.at p')

theorem bind_run {α β} (m : P α) (f : α → P β) (σ : PState) :
    (m >>= f) σ = (match m σ with | .error e => .error e | .ok (a, σ1) => f a σ1) := rfl

theorem peek_of_kind {k : TokenKind} {σ : PState} (h : σ.pos.kind = k) : peek k σ = .ok (true, σ) := by
  rw [pos_kind_eq] at h; simp [peek_run, h]

theorem peek_of_not {k : TokenKind} {σ : PState} (h : σ.pos.kind ≠ k) : peek k σ = .ok (false, σ) := by
  rw [pos_kind_eq] at h; simp [peek_run, h]

theorem cur_kind_of_tok {k : TokenKind} {σ : PState} {t : Token} {p' : Pos} (h : Tok k σ.pos t p') : σ.cur.kind = k :=
  (tok_cur h).2.2

theorem adv_of_tok {k : TokenKind} {σ : PState} {t : Token} {p' : Pos} (h : Tok k σ.pos t p') : σ.adv = σ.at p' := by
  obtain ⟨_, hts, he⟩ := tok_iff.mp h
  rw [adv_cons hts]
  obtain ⟨e', ts'⟩ := p'
  simp_all [PState.at]

/-! ## loops -/

theorem many_cmp {α} {close : TokenKind} {item : P α} {D : Pos → α → Pos → Prop} (hitem : Cmp item D)
    (hnc : ∀ p x p1, D p x p1 → p.kind ≠ close) {p : Pos} {xs : List α} {p1 : Pos} (h : Many D p xs p1) :
    ∀ (σ : PState) (cl : Token) (p2 : Pos) (k : Nat), σ.pos = p → Tok close p1 cl p2 → xs.length < k →
      many close item k σ = .ok (xs, σ.at p2) := by
  induction h with
  | nil =>
    intro σ cl p2 k hσ hc hk
    subst hσ
    obtain ⟨k', rfl⟩ : ∃ k', k = k' + 1 := ⟨k - 1, by simp at hk; omega⟩
    simp only [many, bind_run, skip_of_tok hc, if_true, pure_run]
  | cons hx _ ih =>
    intro σ cl p2 k hσ hc hk
    subst hσ
    obtain ⟨k', rfl⟩ : ∃ k', k = k' + 1 := ⟨k - 1, by simp at hk; omega⟩
    simp only [many, bind_run, skip_of_not (hnc _ _ _ hx), Bool.false_eq_true, if_false, hitem _ _ _ hx,
      ih (σ.at _) cl p2 k' rfl hc (by simp at hk; omega), pure_run, PState.at_at]

/-- `reverse` from the run of its loop -/
theorem reverse_of_many {α} {opn close : TokenKind} {item : P α} {z : Bool} {σ : PState} {o : Token} {p1 : Pos}
    {xs : List α} {p3 : Pos} (hO : Tok opn σ.pos o p1)
    (hm : many close item (p1.ts.length + 1) (σ.at p1) = .ok (xs, σ.at p3))
    (hz : z = true → xs ≠ [] ∧ p1.kind ≠ close) : reverse opn item close z σ = .ok (xs, σ.at p3) := by
  have hc : ¬ (z = true ∧ (σ.at p1).cur.kind = close) := by
    rintro ⟨hz1, hk⟩
    have := (hz hz1).2
    rw [← PState.at_pos σ p1, pos_kind_eq] at this
    exact this hk
  have he : (z && xs.isEmpty) = false := by
    cases z
    · rfl
    · cases xs with
      | nil => exact absurd rfl (hz rfl).1
      | cons _ _ => rfl
  simp only [reverse, bind_run, expect_of_tok hO, cur_run, if_neg hc, loopFuel_run, PState.at_toks, hm, he,
    Bool.false_eq_true, if_false, pure_run]

/-! ## names, variables, values -/

theorem parseName_cmp : Cmp parseName DName := by
  intro σ n p' h
  cases h with
  | mk ht =>
    have e1 := expect_of_tok ht
    simp only [parseName, bind_run, e1, loc_run, pure_run]
    rw [(tok_kind ht).2]
    rfl

theorem parseVariable_cmp : Cmp parseVariable DVariable := by
  intro σ r p' h
  cases h with
  | mk hd hn =>
    rename_i d p1 n
    have e1 := expect_of_tok hd
    have e2 := parseName_cmp (σ.at p1) _ _ hn
    simp only [parseVariable, bind_run, cur_run, e1, e2, loc_run, pure_run, PState.at_at, tok_start hd]
    rfl

mutual
theorem DValue.cmp : ∀ {c p v p'}, DValue c p v p' → ∀ (σ : PState) (n : Nat), σ.pos = p → p.ts.length ≤ n →
    parseValueLiteral c n σ = .ok (v, σ.at p')
  | _, _, _, _, .var h => fun σ n hσ hn => by
      subst hσ
      obtain ⟨m, rfl⟩ : ∃ m, n = m + 1 := ⟨n - 1, by have := dvariable_lt h; omega⟩
      have hk : σ.cur.kind = .dollar := by cases h with | mk hd _ => exact cur_kind_of_tok hd
      simp only [parseValueLiteral, bind_run, cur_run, hk, Bool.false_eq_true, if_false, parseVariable_cmp σ _ _ h, pure_run]
  | _, _, _, _, .int h => fun σ n hσ hn => by
      subst hσ
      obtain ⟨m, rfl⟩ : ∃ m, n = m + 1 := ⟨n - 1, by have := tok_lt h; omega⟩
      obtain ⟨rfl, hst, hkind⟩ := tok_cur h
      simp only [parseValueLiteral, bind_run, cur_run, hkind, advance_run, adv_of_tok h, loc_run, pure_run, hst]
      rfl
  | _, _, _, _, .float h => fun σ n hσ hn => by
      subst hσ
      obtain ⟨m, rfl⟩ : ∃ m, n = m + 1 := ⟨n - 1, by have := tok_lt h; omega⟩
      obtain ⟨rfl, hst, hkind⟩ := tok_cur h
      simp only [parseValueLiteral, bind_run, cur_run, hkind, advance_run, adv_of_tok h, loc_run, pure_run, hst]
      rfl
  | _, _, _, _, .string h => fun σ n hσ hn => by
      subst hσ
      obtain ⟨m, rfl⟩ : ∃ m, n = m + 1 := ⟨n - 1, by have := tok_lt h; omega⟩
      obtain ⟨rfl, hst, hkind⟩ := tok_cur h
      simp only [parseValueLiteral, bind_run, cur_run, hkind, advance_run, adv_of_tok h, loc_run, pure_run, hst]
      rfl
  | _, _, _, _, .blockString h => fun σ n hσ hn => by
      subst hσ
      obtain ⟨m, rfl⟩ : ∃ m, n = m + 1 := ⟨n - 1, by have := tok_lt h; omega⟩
      obtain ⟨rfl, hst, hkind⟩ := tok_cur h
      simp only [parseValueLiteral, bind_run, cur_run, hkind, advance_run, adv_of_tok h, loc_run, pure_run, hst]
      rfl
  | _, _, _, _, .tru h => fun σ n hσ hn => by
      subst hσ
      obtain ⟨m, rfl⟩ : ∃ m, n = m + 1 := ⟨n - 1, by have := kw_lt h; omega⟩
      cases h with
      | mk ht hv =>
        rw [← (tok_cur ht).1] at hv
        simp only [parseValueLiteral, bind_run, cur_run, cur_kind_of_tok ht, hv, if_true, advance_run, adv_of_tok ht, loc_run,
          pure_run, (tok_start ht)]
        rfl
  | _, _, _, _, .fls h => fun σ n hσ hn => by
      subst hσ
      obtain ⟨m, rfl⟩ : ∃ m, n = m + 1 := ⟨n - 1, by have := kw_lt h; omega⟩
      cases h with
      | mk ht hv =>
        rw [← (tok_cur ht).1] at hv
        have hne : ¬ ("false" = "true") := by decide
        simp only [parseValueLiteral, bind_run, cur_run, cur_kind_of_tok ht, hv, hne, if_true, if_false, advance_run,
          adv_of_tok ht, loc_run, pure_run, (tok_start ht)]
        rfl
  | _, _, _, _, .enum h h1 h2 h3 => fun σ n hσ hn => by
      subst hσ
      obtain ⟨m, rfl⟩ : ∃ m, n = m + 1 := ⟨n - 1, by have := tok_lt h; omega⟩
      obtain ⟨rfl, hst, hkind⟩ := tok_cur h
      simp only [parseValueLiteral, bind_run, cur_run, hkind, h1, h2, h3, if_false, advance_run,
        adv_of_tok h, loc_run, pure_run, hst]
      rfl
  | _, _, _, _, .list (p1 := p1) (vs := vs) ho hvs hc => fun σ n hσ hn => by
      subst hσ
      obtain ⟨m, rfl⟩ : ∃ m, n = m + 1 := ⟨n - 1, by have := tok_lt ho; omega⟩
      have hlen := tok_len ho
      have hle := DValues.le hvs
      have e2 := DValues.cmp hvs (σ.at p1) m (p1.ts.length + 1) _ _ rfl (by omega) hc (by omega)
      have e3 := reverse_of_many (item := parseValueLiteral _ m) (z := false) ho e2 (fun h => by cases h)
      simp only [parseValueLiteral, bind_run, cur_run, cur_kind_of_tok ho, e3, pure_run, loc_run, PState.at_prevEnd,
        tok_start ho]
  | _, _, _, _, .obj (p1 := p1) (fs := fs) ho hfs hc => fun σ n hσ hn => by
      subst hσ
      obtain ⟨m, rfl⟩ : ∃ m, n = m + 1 := ⟨n - 1, by have := tok_lt ho; omega⟩
      have hlen := tok_len ho
      have hle := DObjFields.le hfs
      have e2 := DObjFields.cmp hfs (σ.at p1) m (p1.ts.length + 1) _ _ rfl (by omega) hc (by omega)
      simp only [parseValueLiteral, bind_run, cur_run, cur_kind_of_tok ho, expect_of_tok ho, loopFuel_run,
        PState.at_toks, e2, pure_run, loc_run, PState.at_prevEnd, tok_start ho]
      rfl
theorem DValues.cmp : ∀ {c p vs p1}, DValues c p vs p1 → ∀ (σ : PState) (n k : Nat) (cl : Token) (p2 : Pos), σ.pos = p →
    p.ts.length ≤ n → Tok .bracketR p1 cl p2 → vs.length < k →
    many .bracketR (parseValueLiteral c n) k σ = .ok (vs, σ.at p2)
  | _, _, _, _, .nil => fun σ n k cl p2 hσ hn hc hk => by
      subst hσ
      obtain ⟨k', rfl⟩ : ∃ k', k = k' + 1 := ⟨k - 1, by simp at hk; omega⟩
      simp only [many, bind_run, skip_of_tok hc, if_true, pure_run]
  | _, _, _, _, .cons (p1 := q) hv hvs => fun σ n k cl p2 hσ hn hc hk => by
      subst hσ
      obtain ⟨k', rfl⟩ : ∃ k', k = k' + 1 := ⟨k - 1, by simp at hk; omega⟩
      have hlt := DValue.lt hv
      have e1 := DValue.cmp hv σ n rfl hn
      have e2 := DValues.cmp hvs (σ.at q) n k' cl p2 rfl (by omega) hc (by simp at hk; omega)
      simp only [many, bind_run, skip_of_not (DValue.kind hv).1, Bool.false_eq_true, if_false, e1, e2, pure_run, PState.at_at]
theorem DObjFields.cmp : ∀ {c p fs p1}, DObjFields c p fs p1 → ∀ (σ : PState) (n k : Nat) (cl : Token) (p2 : Pos), σ.pos = p →
    p.ts.length ≤ n → Tok .braceR p1 cl p2 → fs.length < k →
    many .braceR (parseObjectFieldWith (parseValueLiteral c n)) k σ = .ok (fs, σ.at p2)
  | _, _, _, _, .nil => fun σ n k cl p2 hσ hn hc hk => by
      subst hσ
      obtain ⟨k', rfl⟩ : ∃ k', k = k' + 1 := ⟨k - 1, by simp at hk; omega⟩
      simp only [many, bind_run, skip_of_tok hc, if_true, pure_run]
  | _, _, _, _, .cons (p1 := q) hf hfs => fun σ n k cl p2 hσ hn hc hk => by
      subst hσ
      obtain ⟨k', rfl⟩ : ∃ k', k = k' + 1 := ⟨k - 1, by simp at hk; omega⟩
      have hlt := DObjField.lt hf
      have e1 := DObjField.cmp hf σ n rfl hn
      have e2 := DObjFields.cmp hfs (σ.at q) n k' cl p2 rfl (by omega) hc (by simp at hk; omega)
      have hnk : σ.pos.kind ≠ .braceR := by rw [DObjField.kind hf]; decide
      simp only [many, bind_run, skip_of_not hnk, Bool.false_eq_true, if_false, e1, e2, pure_run, PState.at_at]
theorem DObjField.cmp : ∀ {c p f p'}, DObjField c p f p' → ∀ (σ : PState) (n : Nat), σ.pos = p → p.ts.length ≤ n →
    parseObjectFieldWith (parseValueLiteral c n) σ = .ok (f, σ.at p')
  | _, _, _, _, .mk (p1 := p1) (p2 := p2) hn' hc hv => fun σ n hσ hn => by
      subst hσ
      have e1 := parseName_cmp σ _ _ hn'
      have e2 := expect_of_tok (σ := σ.at p1) hc
      have := dname_lt hn'
      have := tok_lt hc
      have e3 := DValue.cmp hv (σ.at p2) n rfl (by omega)
      simp only [parseObjectFieldWith, bind_run, cur_run, e1, e2, e3, loc_run, pure_run, PState.at_at, dname_start hn']
      rfl
end

theorem parseValue_cmp (c : Bool) : Cmp (parseValue c) (DValue c) := by
  intro σ v p' h
  exact DValue.cmp h σ _ rfl (by simp)

/-! ## `reverse` -/

theorem reverse_cmp {α} {opn close : TokenKind} {item : P α} {D : Pos → α → Pos → Prop} (hitem : Cmp item D)
    (hnc : ∀ p x p1, D p x p1 → p.kind ≠ close) (hlt : ∀ p x p', D p x p' → p'.ts.length < p.ts.length)
    {σ : PState} {o : Token} {p1 : Pos} {xs : List α} {p2 : Pos} {cl : Token} {p3 : Pos} {z : Bool}
    (hO : Tok opn σ.pos o p1) (hM : Many D p1 xs p2) (hC : Tok close p2 cl p3) (hz : z = true → xs ≠ []) :
    reverse opn item close z σ = .ok (xs, σ.at p3) := by
  have hle := many_le hlt hM
  have e2 := many_cmp hitem hnc hM (σ.at p1) cl p3 (p1.ts.length + 1) rfl hC (by omega)
  refine reverse_of_many hO (by simpa using e2) (fun hz1 => ⟨hz hz1, ?_⟩)
  cases hM with
  | nil => exact absurd rfl (hz hz1)
  | cons hx _ => exact hnc _ _ _ hx

/-! ## arguments, directives -/

theorem parseArgument_cmp : Cmp parseArgument DArgument := by
  intro σ a p' h
  cases h with
  | mk hN hC hV =>
    rename_i n p1 cl p2 v
    have e1 := parseName_cmp σ _ _ hN
    have e2 := expect_of_tok (σ := σ.at p1) hC
    have e3 := parseValue_cmp false (σ.at p2) _ _ hV
    simp only [parseArgument, bind_run, cur_run, e1, e2, e3, loc_run, pure_run, PState.at_at, dname_start hN]
    rfl

theorem parseArguments_cmp : Cmp parseArguments DArguments := by
  intro σ as p' h
  cases h with
  | none hk =>
    simp only [parseArguments, bind_run, peek_of_not hk, Bool.false_eq_true, if_false, pure_run, PState.at_self]
  | some ho hm hne hc =>
    simp only [parseArguments, bind_run, peek_of_kind (tok_kind' ho), if_true]
    exact reverse_cmp parseArgument_cmp (fun _ _ _ h => by rw [dargument_kind h]; decide)
      (fun _ _ _ => dargument_lt) ho hm hc (fun _ => hne)

theorem parseDirective_cmp : Cmp parseDirective DDirective := by
  intro σ d p' h
  cases h with
  | mk hA hN hArgs =>
    rename_i a p1 n p2 args
    have e1 := expect_of_tok hA
    have e2 := parseName_cmp (σ.at p1) _ _ hN
    have e3 := parseArguments_cmp (σ.at p2) _ _ hArgs
    simp only [parseDirective, bind_run, cur_run, e1, e2, e3, loc_run, pure_run, PState.at_at, tok_start hA]
    rfl

theorem parseDirectivesLoop_cmp {p : Pos} {ds : List Directive} {p' : Pos} (h : DDirectives p ds p') :
    ∀ (σ : PState) (k : Nat), σ.pos = p → ds.length < k → parseDirectivesLoop k σ = .ok (ds, σ.at p') := by
  induction h with
  | nil hk =>
    intro σ k hσ hlen
    subst hσ
    obtain ⟨k', rfl⟩ : ∃ k', k = k' + 1 := ⟨k - 1, by omega⟩
    simp only [parseDirectivesLoop, bind_run, peek_of_not hk, Bool.false_eq_true, if_false, pure_run, PState.at_self]
  | cons hd _ ih =>
    intro σ k hσ hlen
    subst hσ
    obtain ⟨k', rfl⟩ : ∃ k', k = k' + 1 := ⟨k - 1, by omega⟩
    have hk : σ.pos.kind = .at := by cases hd with | mk ha _ _ => exact tok_kind' ha
    simp only [parseDirectivesLoop, bind_run, peek_of_kind hk, if_true, parseDirective_cmp σ _ _ hd,
      ih (σ.at _) k' rfl (by simp at hlen; omega), pure_run, PState.at_at]

theorem parseDirectives_cmp : Cmp parseDirectives DDirectives := by
  intro σ ds p' h
  have hle := ddirectives_le h
  simp only [parseDirectives, bind_run, loopFuel_run]
  exact parseDirectivesLoop_cmp h σ _ rfl (by simp at hle ⊢; omega)

/-! ## types -/

theorem parseNamed_cmp : Cmp parseNamed DNamedType := by
  intro σ t p' h
  cases h with
  | mk hN =>
    simp only [parseNamed, bind_run, cur_run, parseName_cmp σ _ _ hN, loc_run, pure_run, dname_start hN]
    rfl

mutual
theorem DBaseType.cmp : ∀ {p t p'}, DBaseType p t p' → ∀ (σ : PState) (n : Nat), σ.pos = p → p.ts.length ≤ n + 1 →
    parseTypeBaseWith (parseTypeFuel n) σ.cur σ = .ok (some t, σ.at p')
  | _, _, _, .named h => fun σ n hσ hn => by
      subst hσ
      have hk : σ.cur.kind = .name := by rw [← pos_kind_eq]; exact dnamedType_kind h
      simp only [parseTypeBaseWith, hk, bind_run, parseNamed_cmp σ _ _ h, pure_run]
  | _, _, _, .list (p1 := p1) (p2 := p2) ho ht hc => fun σ n hσ hn => by
      subst hσ
      have hlen := tok_len ho
      have e1 := DType.cmp ht (σ.at p1) n rfl (by omega)
      have hk2 : (σ.at p2).cur.kind = .bracketR := cur_kind_of_tok (σ := σ.at p2) hc
      simp only [parseTypeBaseWith, cur_kind_of_tok ho, bind_run, advance_run, adv_of_tok ho, e1, cur_run, hk2, if_true,
        pure_run, adv_of_tok (σ := σ.at p2) hc, PState.at_at, loc_run, Option.getD_some, tok_start ho]
      rfl
theorem DType.cmp : ∀ {p t p'}, DType p t p' → ∀ (σ : PState) (n : Nat), σ.pos = p → p.ts.length ≤ n →
    parseTypeFuel n σ = .ok (some t, σ.at p')
  | _, _, _, .plain hb hk => fun σ n hσ hn => by
      subst hσ
      obtain ⟨m, rfl⟩ : ∃ m, n = m + 1 := ⟨n - 1, by have := DBaseType.lt hb; omega⟩
      have e1 := DBaseType.cmp hb σ m rfl hn
      simp only [parseTypeFuel, bind_run, cur_run, e1, skip_of_not (σ := σ.at _) hk, Bool.false_eq_true, if_false, pure_run]
  | _, _, _, .nonNull (p1 := p1) hb hbang => fun σ n hσ hn => by
      subst hσ
      obtain ⟨m, rfl⟩ : ∃ m, n = m + 1 := ⟨n - 1, by have := DBaseType.lt hb; omega⟩
      have e1 := DBaseType.cmp hb σ m rfl hn
      have hs : σ.pos.start = σ.cur.start := pos_start_eq (by
        intro he; have := DBaseType.lt hb; simp [PState.pos, he] at this)
      simp only [parseTypeFuel, bind_run, cur_run, e1, skip_of_tok (σ := σ.at p1) hbang, if_true, loc_run, pure_run,
        PState.at_at, Option.getD_some, hs]
      rfl
end

theorem parseTypeOpt_cmp {σ : PState} {t : TypeRef} {p' : Pos} (h : DType σ.pos t p') :
    parseTypeOpt σ = .ok (some t, σ.at p') :=
  DType.cmp h σ _ rfl (by simp)

theorem parseType_cmp : Cmp parseType DType := by
  intro σ t p' h
  simp only [parseType, bind_run, parseTypeOpt_cmp h, pure_run, Option.getD_some]

/-! ## selection sets -/

theorem parseFragmentName_cmp : Cmp parseFragmentName DFragmentName := by
  intro σ n p' h
  cases h with
  | mk hN hne =>
    have hv : σ.cur.value ≠ "on" := by
      cases hN with
      | mk ht => rw [(tok_cur ht).1]; exact hne
    simp only [parseFragmentName, bind_run, cur_run, hv, if_false, parseName_cmp σ _ _ hN]

/-- what the optional selection set of a field evaluates to -/
def OptSelRun (selSet : P SelectionSet) (σ : PState) (sel : Option SelectionSet) (p' : Pos) : Prop :=
  match sel with
  | none => σ.pos.kind ≠ .braceL ∧ p' = σ.pos
  | some s => σ.pos.kind = .braceL ∧ selSet σ = .ok (s, σ.at p')

theorem parseFieldRest_run {selSet : P SelectionSet} {start : Nat} {alias : Option Name} {name : Name} {σ : PState}
    {args : List Argument} {p2 : Pos} {dirs : List Directive} {p3 : Pos} {sel : Option SelectionSet} {p4 : Pos}
    (hA : DArguments σ.pos args p2) (hD : DDirectives p2 dirs p3) (hS : OptSelRun selSet (σ.at p3) sel p4) :
    parseFieldRest selSet start alias name σ = .ok (.field alias name args dirs sel ⟨start, p4.e⟩, σ.at p4) := by
  have e1 := parseArguments_cmp σ _ _ hA
  have e2 := parseDirectives_cmp (σ.at p2) _ _ hD
  cases sel with
  | none =>
    obtain ⟨hk, rfl⟩ := hS
    simp only [parseFieldRest, bind_run, e1, e2, PState.at_at, peek_of_not hk, Bool.false_eq_true, if_false, loc_run, pure_run]
    rfl
  | some s =>
    obtain ⟨hk, hs⟩ := hS
    simp only [PState.at_at] at hs
    simp only [parseFieldRest, bind_run, e1, e2, PState.at_at, peek_of_kind hk, if_true, hs, loc_run, pure_run]
    rfl

theorem parseInlineRest_run {selSet : P SelectionSet} {start : Nat} {tc : Option TypeRef} {σ : PState}
    {dirs : List Directive} {p2 : Pos} {sel : SelectionSet} {p3 : Pos}
    (hD : DDirectives σ.pos dirs p2) (hS : selSet (σ.at p2) = .ok (sel, σ.at p3)) :
    parseInlineRest selSet start tc σ = .ok (.inline tc dirs sel ⟨start, p3.e⟩, σ.at p3) := by
  have e1 := parseDirectives_cmp σ _ _ hD
  simp only [parseInlineRest, bind_run, e1, hS, loc_run, pure_run]
  rfl

mutual
theorem DSelectionSet.cmp : ∀ {p s p'}, DSelectionSet p s p' → ∀ (σ : PState) (n : Nat), σ.pos = p → p.ts.length ≤ n →
    parseSelectionSetFuel n σ = .ok (s, σ.at p')
  | _, _, _, .mk (p1 := p1) (sels := sels) ho hs hne hc => fun σ n hσ hn => by
      subst hσ
      obtain ⟨m, rfl⟩ : ∃ m, n = m + 1 := ⟨n - 1, by have := tok_lt ho; omega⟩
      have hlen := tok_len ho
      have hle := DSelections.le hs
      have e2 := DSelections.cmp hs (σ.at p1) m (p1.ts.length + 1) _ _ rfl (by omega) hc (by omega)
      have hk1 : p1.kind ≠ .braceR := by
        cases hs with
        | nil => exact absurd rfl hne
        | cons hx _ => exact DSelection.kind hx
      have e3 := reverse_of_many (item := parseSelectionWith (parseSelectionSetFuel m)) (z := true) ho e2
        (fun _ => ⟨hne, hk1⟩)
      simp only [parseSelectionSetFuel, bind_run, cur_run, e3, pure_run, loc_run, PState.at_prevEnd, tok_start ho]
theorem DSelections.cmp : ∀ {p ss p1}, DSelections p ss p1 → ∀ (σ : PState) (n k : Nat) (cl : Token) (p2 : Pos), σ.pos = p →
    p.ts.length ≤ n + 1 → Tok .braceR p1 cl p2 → ss.length < k →
    many .braceR (parseSelectionWith (parseSelectionSetFuel n)) k σ = .ok (ss, σ.at p2)
  | _, _, _, .nil => fun σ n k cl p2 hσ hn hc hk => by
      subst hσ
      obtain ⟨k', rfl⟩ : ∃ k', k = k' + 1 := ⟨k - 1, by simp at hk; omega⟩
      simp only [many, bind_run, skip_of_tok hc, if_true, pure_run]
  | _, _, _, .cons (p1 := q) h hs => fun σ n k cl p2 hσ hn hc hk => by
      subst hσ
      obtain ⟨k', rfl⟩ : ∃ k', k = k' + 1 := ⟨k - 1, by simp at hk; omega⟩
      have hlt := DSelection.lt h
      have e1 := DSelection.cmp h σ n rfl hn
      have e2 := DSelections.cmp hs (σ.at q) n k' cl p2 rfl (by omega) hc (by simp at hk; omega)
      simp only [many, bind_run, skip_of_not (DSelection.kind h), Bool.false_eq_true, if_false, e1, e2, pure_run, PState.at_at]
theorem DSelection.cmp : ∀ {p s p'}, DSelection p s p' → ∀ (σ : PState) (n : Nat), σ.pos = p → p.ts.length ≤ n + 1 →
    parseSelectionWith (parseSelectionSetFuel n) σ = .ok (s, σ.at p')
  | _, _, _, .field (n := nm) (p1 := p1) (p2 := p2) (p3 := p3) hN hk hA hD hS => fun σ n hσ hn => by
      subst hσ
      have := dname_lt hN; have := darguments_le hA; have := ddirectives_le hD
      have e4 := DOptSelectionSet.cmp hS (σ.at p3) n rfl (by omega)
      have e3 := parseFieldRest_run (selSet := parseSelectionSetFuel n) (start := σ.cur.start) (alias := none) (name := nm)
        (σ := σ.at p1) hA hD e4
      have hks : σ.pos.kind ≠ .spread := by rw [dname_kind hN]; decide
      simp only [PState.at_at] at e3
      simp only [parseSelectionWith, bind_run, peek_of_not hks, Bool.false_eq_true, if_false, parseFieldWith, cur_run,
        parseName_cmp σ _ _ hN, skip_of_not (σ := σ.at p1) hk, e3, dname_start hN]
  | _, _, _, .aliased (a := al) (n := nm) (p1 := p1) (p2 := p2) (p3 := p3) (p4 := p4) (p5 := p5) hAl hC hN hA hD hS => fun σ n hσ hn => by
      subst hσ
      have := dname_lt hAl; have := tok_lt hC; have := dname_lt hN; have := darguments_le hA; have := ddirectives_le hD
      have e4 := DOptSelectionSet.cmp hS (σ.at p5) n rfl (by omega)
      have e3 := parseFieldRest_run (selSet := parseSelectionSetFuel n) (start := σ.cur.start) (alias := some al) (name := nm)
        (σ := σ.at p3) hA hD e4
      have hks : σ.pos.kind ≠ .spread := by rw [dname_kind hAl]; decide
      simp only [PState.at_at] at e3
      simp only [parseSelectionWith, bind_run, peek_of_not hks, Bool.false_eq_true, if_false, parseFieldWith, cur_run,
        parseName_cmp σ _ _ hAl, skip_of_tok (σ := σ.at p1) hC, if_true, parseName_cmp (σ.at p2) _ _ hN, PState.at_at,
        e3, dname_start hAl]
  | _, _, _, .spread (p1 := p1) (p2 := p2) hSp hN hD => fun σ n hσ hn => by
      subst hσ
      have hc : (σ.at p1).cur.kind = .name ∧ (σ.at p1).cur.value ≠ "on" := by
        cases hN with
        | mk hN' hne =>
          cases hN' with
          | mk ht => exact ⟨cur_kind_of_tok (σ := σ.at p1) ht, by rw [(tok_cur (σ := σ.at p1) ht).1]; exact hne⟩
      simp only [parseSelectionWith, bind_run, peek_of_kind (tok_kind' hSp), if_true, parseFragmentWith, cur_run,
        expect_of_tok hSp, if_pos hc, parseFragmentName_cmp (σ.at p1) _ _ hN, parseDirectives_cmp (σ.at p2) _ _ hD,
        PState.at_at, loc_run, pure_run, tok_start hSp]
      rfl
  | _, _, _, .inline (p1 := p1) (p2 := p2) (p3 := p3) hSp hT hD hS => fun σ n hσ hn => by
      subst hσ
      have := tok_lt hSp; have := dtypeCondition_le hT; have := ddirectives_le hD
      have e4 := DSelectionSet.cmp hS (σ.at p3) n rfl (by omega)
      cases hT with
      | none hno =>
        have e3 := parseInlineRest_run (selSet := parseSelectionSetFuel n) (start := σ.cur.start) (tc := none)
          (σ := σ.at p1) hD (by simpa using e4)
        have hc1 : ¬ ((σ.at p1).cur.kind = .name ∧ (σ.at p1).cur.value ≠ "on") := by
          intro hc
          -- the next token would have to start directives or a selection set
          have hk : p1.kind = .name := by rw [← pos_kind_eq (σ.at p1)] at hc; exact hc.1
          cases hD with
          | nil _ => cases hS with | mk ho _ _ _ => rw [tok_kind' ho] at hk; exact absurd hk (by decide)
          | cons hd _ => cases hd with | mk ha _ _ => rw [tok_kind' ha] at hk; exact absurd hk (by decide)
        have hc2 : ¬ ((σ.at p1).cur.kind = .name ∧ (σ.at p1).cur.value = "on") := fun hc => hno (isName_of_cur (σ := σ.at p1) hc.1 hc.2)
        simp only [PState.at_at] at e3
        simp only [parseSelectionWith, bind_run, peek_of_kind (tok_kind' hSp), if_true, parseFragmentWith, cur_run,
          expect_of_tok hSp, if_neg hc1, if_neg hc2, e3, tok_start hSp]
      | some hOn hNT =>
        rename_i q tc
        cases hOn with
        | mk hOnT hv =>
          have hcur := tok_cur (σ := σ.at p1) hOnT
          have hv' : (σ.at p1).cur.value = "on" := by rw [hcur.1]; exact hv
          have hc1 : ¬ ((σ.at p1).cur.kind = .name ∧ (σ.at p1).cur.value ≠ "on") := fun hc => hc.2 hv'
          have hc2 : (σ.at p1).cur.kind = .name ∧ (σ.at p1).cur.value = "on" := ⟨hcur.2.2, hv'⟩
          have e3 := parseInlineRest_run (selSet := parseSelectionSetFuel n) (start := σ.cur.start) (tc := some tc)
            (σ := σ.at p2) hD (by simpa using e4)
          simp only [PState.at_at] at e3
          simp only [parseSelectionWith, bind_run, peek_of_kind (tok_kind' hSp), if_true, parseFragmentWith, cur_run,
            expect_of_tok hSp, if_neg hc1, if_pos hc2, advance_run, adv_of_tok (σ := σ.at p1) hOnT, PState.at_at,
            parseNamed_cmp (σ.at q) _ _ hNT, e3, tok_start hSp]
theorem DOptSelectionSet.cmp : ∀ {p sel p'}, DOptSelectionSet p sel p' → ∀ (σ : PState) (n : Nat), σ.pos = p → p.ts.length ≤ n →
    OptSelRun (parseSelectionSetFuel n) σ sel p'
  | _, _, _, .none hk => fun σ n hσ hn => by subst hσ; exact ⟨hk, rfl⟩
  | _, _, _, .some h => fun σ n hσ hn => by
      subst hσ
      refine ⟨?_, DSelectionSet.cmp h σ n rfl hn⟩
      cases h with
      | mk ho _ _ _ => exact tok_kind' ho
end

theorem parseSelectionSet_cmp : Cmp parseSelectionSet DSelectionSet := by
  intro σ s p' h
  exact DSelectionSet.cmp h σ _ rfl (by simp)

/-! ## operations, fragments -/

theorem expectKeyword_of_kw {s : String} {σ : PState} {p' : Pos} (h : Kw s σ.pos p') :
    expectKeyword s σ = .ok (σ.cur, σ.at p') := by
  cases h with
  | mk ht hv =>
    obtain ⟨hcur, _, hk⟩ := tok_cur ht
    rw [← hcur] at hv
    unfold expectKeyword
    rw [if_pos ⟨hk, hv⟩, adv_of_tok ht]

theorem parseOperationType_cmp : Cmp parseOperationType DOpType := by
  intro σ op p' h
  have key : ∀ {s : String}, Kw s σ.pos p' → (s = "query" ∨ s = "mutation" ∨ s = "subscription") →
      parseOperationType σ = .ok (if s = "query" then OpType.query else if s = "mutation" then .mutation else .subscription,
        σ.at p') := by
    intro s hk hs
    cases hk with
    | mk ht hv =>
      obtain ⟨hcur, _, hkind⟩ := tok_cur ht
      have hv' : σ.cur.value = s := by rw [hcur]; exact hv
      have hc : ¬ (σ.cur.kind = .name ∧ ¬ (σ.cur.value = "query" ∨ σ.cur.value = "mutation" ∨ σ.cur.value = "subscription")) := by
        rintro ⟨_, hn⟩; rw [hv'] at hn; exact hn hs
      simp only [parseOperationType, bind_run, cur_run, if_neg hc, expect_of_tok ht, hv']
      rcases hs with rfl | rfl | rfl <;> simp [bind_run, expect_of_tok ht]
  cases h with
  | query hk => simpa using key hk (.inl rfl)
  | mutation hk => simpa using key hk (.inr (.inl rfl))
  | subscription hk => simpa using key hk (.inr (.inr rfl))

theorem parseDefaultValue_cmp : Cmp parseDefaultValue DDefault := by
  intro σ d p' h
  cases h with
  | none hk =>
    simp only [parseDefaultValue, bind_run, skip_of_not hk, Bool.false_eq_true, if_false, pure_run, PState.at_self]
  | some hQ hV =>
    rename_i q p1 v
    simp only [parseDefaultValue, bind_run, skip_of_tok hQ, if_true, parseValue_cmp true (σ.at p1) _ _ hV, pure_run,
      PState.at_at]

theorem parseOptName_cmp : Cmp parseOptName DOptName := by
  intro σ n p' h
  cases h with
  | none hk =>
    simp only [parseOptName, bind_run, peek_of_not hk, Bool.false_eq_true, if_false, pure_run, PState.at_self]
  | some hn =>
    simp only [parseOptName, bind_run, peek_of_kind (dname_kind hn), if_true, parseName_cmp σ _ _ hn, pure_run]

theorem parseVariableDefinition_cmp : Cmp parseVariableDefinition DVarDef := by
  intro σ vd p' h
  cases h with
  | @mk n vl p1 cl p2 t p3 d _ hV hC hT hD =>
    have e1 := parseVariable_cmp σ _ _ hV
    have e2 := expect_of_tok (σ := σ.at p1) hC
    have e3 := parseTypeOpt_cmp (σ := σ.at p2) hT
    cases d with
    | none =>
      have hd : p' = p3 ∧ p3.kind ≠ .equals := by
        cases hD with
        | none hk => exact ⟨rfl, hk⟩
      obtain ⟨rfl, hk⟩ := hd
      have e5 := skip_of_not (σ := σ.at p') hk
      simp only [parseVariableDefinition, bind_run, cur_run, e1, e2, e3, PState.at_at, e5,
        Bool.false_eq_true, if_false, loc_run, pure_run, dvariable_start hV]
      rfl
    | some v =>
      cases hD with
      | some hQ hVal =>
        rename_i q p4
        have e5 := skip_of_tok (σ := σ.at p3) hQ
        have e6 := parseValue_cmp true (σ.at p4) _ _ hVal
        simp only [parseVariableDefinition, bind_run, cur_run, e1, e2, e3, PState.at_at, e5, if_true, e6, loc_run, pure_run,
          dvariable_start hV]
        rfl

theorem parseVariableDefinitions_cmp : Cmp parseVariableDefinitions DVarDefs := by
  intro σ vs p' h
  cases h with
  | none hk =>
    simp only [parseVariableDefinitions, bind_run, peek_of_not hk, Bool.false_eq_true, if_false, pure_run, PState.at_self]
  | some ho hm hne hc =>
    simp only [parseVariableDefinitions, bind_run, peek_of_kind (tok_kind' ho), if_true]
    exact reverse_cmp parseVariableDefinition_cmp (fun _ _ _ h => by rw [dvarDef_kind h]; decide)
      (fun _ _ _ => dvarDef_lt) ho hm hc (fun _ => hne)

theorem parseFragmentDefinition_cmp {σ : PState} {d : Definition} {p' : Pos}
    {p1 : Pos} {n : Name} {p2 p3 : Pos} {tc : TypeRef} {p4 : Pos} {dirs : List Directive} {p5 : Pos} {s : SelectionSet}
    (hK1 : Kw "fragment" σ.pos p1) (hN : DFragmentName p1 n p2) (hK2 : Kw "on" p2 p3) (hT : DNamedType p3 tc p4)
    (hD : DDirectives p4 dirs p5) (hS : DSelectionSet p5 s p') (hd : d = .fragment n tc dirs s ⟨σ.pos.start, p'.e⟩) :
    parseFragmentDefinition σ = .ok (d, σ.at p') := by
  subst hd
  simp only [parseFragmentDefinition, bind_run, cur_run, expectKeyword_of_kw hK1, parseFragmentName_cmp (σ.at p1) _ _ hN,
    expectKeyword_of_kw (σ := σ.at p2) hK2, parseNamed_cmp (σ.at p3) _ _ hT, parseDirectives_cmp (σ.at p4) _ _ hD,
    parseSelectionSet_cmp (σ.at p5) _ _ hS, PState.at_at, loc_run, pure_run, kw_start hK1]
  rfl

theorem parseOperationDefinition_cmp {σ : PState} {d : Definition} {p' : Pos}
    (h : DDefinition σ.pos d p') (hop : (∃ s l, d = .operation .query none [] [] s l ∧ σ.pos.kind = .braceL) ∨
      (∃ op n vs ds s l, d = .operation op n vs ds s l ∧ σ.pos.kind = .name)) :
    parseOperationDefinition σ = .ok (d, σ.at p') := by
  cases h with
  | query hS =>
    have hk : σ.pos.kind = .braceL := by cases hS with | mk ho _ _ _ => exact tok_kind' ho
    simp only [parseOperationDefinition, bind_run, cur_run, peek_of_kind hk, if_true, parseSelectionSet_cmp σ _ _ hS,
      loc_run, pure_run, dselectionSet_start hS]
    rfl
  | operation hOp hN hV hD hS =>
    rename_i op p1 n p2 vs p3 dirs p4 s
    have hk : σ.pos.kind ≠ .braceL := by rw [dopType_kind hOp]; decide
    have eN := parseOptName_cmp (σ.at p1) _ _ hN
    simp only [parseOperationDefinition, bind_run, cur_run, peek_of_not hk, Bool.false_eq_true, if_false,
      parseOperationType_cmp σ _ _ hOp, eN, parseVariableDefinitions_cmp (σ.at p2) _ _ hV,
      parseDirectives_cmp (σ.at p3) _ _ hD, parseSelectionSet_cmp (σ.at p4) _ _ hS, PState.at_at, loc_run, pure_run,
      dopType_start hOp]
    rfl
  | _ => rcases hop with ⟨_, _, hd, _⟩ | ⟨_, _, _, _, _, _, hd, _⟩ <;> cases hd

/-! ## type system definitions -/

theorem parseDescription_cmp : Cmp parseDescription DDescription := by
  intro σ d p' h
  cases h with
  | none h1 h2 =>
    rw [pos_kind_eq] at h1 h2
    have hc : ¬ (σ.cur.kind = .string ∨ σ.cur.kind = .blockString) := by rintro (h | h) <;> contradiction
    simp only [parseDescription, bind_run, cur_run, if_neg hc, pure_run, PState.at_self]
  | string ht =>
    obtain ⟨rfl, _, hk⟩ := tok_cur ht
    have hc : σ.cur.kind = .string ∨ σ.cur.kind = .blockString := .inl hk
    simp only [parseDescription, bind_run, cur_run, if_pos hc, advance_run, adv_of_tok ht, pure_run]
  | blockString ht =>
    obtain ⟨rfl, _, hk⟩ := tok_cur ht
    have hc : σ.cur.kind = .string ∨ σ.cur.kind = .blockString := .inr hk
    simp only [parseDescription, bind_run, cur_run, if_pos hc, advance_run, adv_of_tok ht, pure_run]

theorem parseOperationTypeDefinition_cmp : Cmp parseOperationTypeDefinition DOpTypeDef := by
  intro σ d p' h
  cases h with
  | @mk op p1 cl p2 t _ hO hC hT =>
    simp only [parseOperationTypeDefinition, bind_run, cur_run, parseOperationType_cmp σ _ _ hO,
      expect_of_tok (σ := σ.at p1) hC, parseNamed_cmp (σ.at p2) _ _ hT, PState.at_at, loc_run, pure_run, dopType_start hO]
    rfl

theorem parseNamedSep_cmp {sep : TokenKind} {p : Pos} {ts : List TypeRef} {p' : Pos} (h : SepBy sep DNamedType p ts p') :
    ∀ (σ : PState) (k : Nat), σ.pos = p → ts.length ≤ k → parseNamedSep sep k σ = .ok (ts, σ.at p') := by
  induction h with
  | one hx hk =>
    intro σ k hσ hlen
    subst hσ
    obtain ⟨k', rfl⟩ : ∃ k', k = k' + 1 := ⟨k - 1, by simp at hlen; omega⟩
    simp only [parseNamedSep, bind_run, parseNamed_cmp σ _ _ hx, skip_of_not (σ := σ.at _) hk, Bool.false_eq_true, if_false,
      pure_run]
  | cons hx hs _ ih =>
    intro σ k hσ hlen
    subst hσ
    obtain ⟨k', rfl⟩ : ∃ k', k = k' + 1 := ⟨k - 1, by simp at hlen; omega⟩
    simp only [parseNamedSep, bind_run, parseNamed_cmp σ _ _ hx, skip_of_tok (σ := σ.at _) hs, if_true, PState.at_at,
      ih (σ.at _) k' rfl (by simp at hlen; omega), pure_run]

theorem parseDirectiveLocations_cmp {p : Pos} {ns : List Name} {p' : Pos} (h : SepBy .pipe DName p ns p') :
    ∀ (σ : PState) (k : Nat), σ.pos = p → ns.length ≤ k → parseDirectiveLocations k σ = .ok (ns, σ.at p') := by
  induction h with
  | one hx hk =>
    intro σ k hσ hlen
    subst hσ
    obtain ⟨k', rfl⟩ : ∃ k', k = k' + 1 := ⟨k - 1, by simp at hlen; omega⟩
    simp only [parseDirectiveLocations, bind_run, parseName_cmp σ _ _ hx, skip_of_not (σ := σ.at _) hk, Bool.false_eq_true,
      if_false, pure_run]
  | cons hx hs _ ih =>
    intro σ k hσ hlen
    subst hσ
    obtain ⟨k', rfl⟩ : ∃ k', k = k' + 1 := ⟨k - 1, by simp at hlen; omega⟩
    simp only [parseDirectiveLocations, bind_run, parseName_cmp σ _ _ hx, skip_of_tok (σ := σ.at _) hs, if_true, PState.at_at,
      ih (σ.at _) k' rfl (by simp at hlen; omega), pure_run]

theorem parseImplementsInterfaces_cmp : Cmp parseImplementsInterfaces DImplements := by
  intro σ ts p' h
  cases h with
  | none hno =>
    have hc : ¬ (σ.cur.kind = .name ∧ σ.cur.value = "implements") := fun hc => hno (isName_of_cur hc.1 hc.2)
    simp only [parseImplementsInterfaces, bind_run, cur_run, if_neg hc, pure_run, PState.at_self]
  | @plain p1 _ _ hK hna hS =>
    cases hK with
    | mk ht hv =>
      obtain ⟨hcur, _, hk⟩ := tok_cur ht
      have hc : σ.cur.kind = .name ∧ σ.cur.value = "implements" := ⟨hk, by rw [hcur]; exact hv⟩
      have hle := sepBy_lt (fun _ _ _ => dnamedType_lt) hS
      simp only [parseImplementsInterfaces, bind_run, cur_run, if_pos hc, advance_run, adv_of_tok ht,
        skip_of_not (σ := σ.at p1) hna, loopFuel_run, PState.at_toks,
        parseNamedSep_cmp hS (σ.at p1) (p1.ts.length + 1) rfl (by omega), PState.at_at]
  | @leadingAmp p1 a p2 _ _ hK hA hS =>
    cases hK with
    | mk ht hv =>
      obtain ⟨hcur, _, hk⟩ := tok_cur ht
      have hc : σ.cur.kind = .name ∧ σ.cur.value = "implements" := ⟨hk, by rw [hcur]; exact hv⟩
      have hle := sepBy_lt (fun _ _ _ => dnamedType_lt) hS
      simp only [parseImplementsInterfaces, bind_run, cur_run, if_pos hc, advance_run, adv_of_tok ht,
        skip_of_tok (σ := σ.at p1) hA, loopFuel_run, PState.at_toks, PState.at_at,
        parseNamedSep_cmp hS (σ.at p2) (p2.ts.length + 1) rfl (by omega)]

theorem kind3_ne {k : TokenKind} {close : TokenKind} (h : k = .name ∨ k = .string ∨ k = .blockString)
    (hc : close = .braceR ∨ close = .parenR) : k ≠ close := by
  rcases h with h | h | h <;> rcases hc with hc | hc <;> subst h <;> subst hc <;> decide

theorem parseInputValueDef_cmp : Cmp parseInputValueDef DInputValueDef := by
  intro σ d p' h
  cases h with
  | @mk desc p1 n p2 cl p3 t p4 dv p5 dirs _ hDe hN hC hT hDf hD =>
    simp only [parseInputValueDef, bind_run, cur_run, parseDescription_cmp σ _ _ hDe, parseName_cmp (σ.at p1) _ _ hN,
      expect_of_tok (σ := σ.at p2) hC, parseType_cmp (σ.at p3) _ _ hT, parseDefaultValue_cmp (σ.at p4) _ _ hDf,
      parseDirectives_cmp (σ.at p5) _ _ hD, PState.at_at, loc_run, pure_run, ddesc_start hDe (dname_ne hN)]
    rfl

theorem parseArgumentDefs_cmp : Cmp parseArgumentDefs DArgumentDefs := by
  intro σ ds p' h
  cases h with
  | none hk =>
    simp only [parseArgumentDefs, bind_run, peek_of_not hk, Bool.false_eq_true, if_false, pure_run, PState.at_self]
  | some ho hm hne hc =>
    simp only [parseArgumentDefs, bind_run, peek_of_kind (tok_kind' ho), if_true]
    exact reverse_cmp parseInputValueDef_cmp (fun _ _ _ h => kind3_ne (dinputValueDef_kind h) (.inr rfl))
      (fun _ _ _ => dinputValueDef_lt) ho hm hc (fun _ => hne)

theorem parseFieldDefinition_cmp : Cmp parseFieldDefinition DFieldDef := by
  intro σ d p' h
  cases h with
  | @mk desc p1 n p2 args p3 cl p4 t p5 dirs _ hDe hN hA hC hT hD =>
    simp only [parseFieldDefinition, bind_run, cur_run, parseDescription_cmp σ _ _ hDe, parseName_cmp (σ.at p1) _ _ hN,
      parseArgumentDefs_cmp (σ.at p2) _ _ hA, expect_of_tok (σ := σ.at p3) hC, parseType_cmp (σ.at p4) _ _ hT,
      parseDirectives_cmp (σ.at p5) _ _ hD, PState.at_at, loc_run, pure_run, ddesc_start hDe (dname_ne hN)]
    rfl

theorem braced_cmp {α} {item : P α} {D : Pos → α → Pos → Prop} (hitem : Cmp item D)
    (hnc : ∀ p x p1, D p x p1 → p.kind ≠ .braceR) (hlt : ∀ p x p', D p x p' → p'.ts.length < p.ts.length)
    {σ : PState} {xs : List α} {p' : Pos} (h : Braced D σ.pos xs p') :
    reverse .braceL item .braceR false σ = .ok (xs, σ.at p') := by
  cases h with
  | mk ho hm hc => exact reverse_cmp hitem hnc hlt ho hm hc (fun hf => by cases hf)

theorem parseFieldDefs_cmp {σ : PState} {fs : List FieldDef} {p' : Pos} (h : Braced DFieldDef σ.pos fs p') :
    reverse .braceL parseFieldDefinition .braceR false σ = .ok (fs, σ.at p') :=
  braced_cmp parseFieldDefinition_cmp (fun _ _ _ h => kind3_ne (dfieldDef_kind h) (.inl rfl)) (fun _ _ _ => dfieldDef_lt) h

theorem parseObjectDef_cmp : Cmp parseObjectDef DObjectDef := by
  intro σ d p' h
  cases h with
  | @mk desc p1 p2 n p3 ifs p4 dirs p5 fs _ hDe hK hN hI hD hB =>
    simp only [parseObjectDef, bind_run, cur_run, parseDescription_cmp σ _ _ hDe, expectKeyword_of_kw (σ := σ.at p1) hK,
      parseName_cmp (σ.at p2) _ _ hN, parseImplementsInterfaces_cmp (σ.at p3) _ _ hI, parseDirectives_cmp (σ.at p4) _ _ hD,
      parseFieldDefs_cmp (σ := σ.at p5) hB, PState.at_at, loc_run, pure_run, ddesc_start hDe (kw_ne hK)]
    rfl

theorem parseEnumValueDefinition_cmp : Cmp parseEnumValueDefinition DEnumValueDef := by
  intro σ d p' h
  cases h with
  | @mk desc p1 n p2 dirs _ hDe hN hD =>
    simp only [parseEnumValueDefinition, bind_run, cur_run, parseDescription_cmp σ _ _ hDe, parseName_cmp (σ.at p1) _ _ hN,
      parseDirectives_cmp (σ.at p2) _ _ hD, PState.at_at, loc_run, pure_run, ddesc_start hDe (dname_ne hN)]
    rfl

/-! ## keyword dispatch -/

theorem keywordToken_run {σ : PState} {desc : Option String} {p1 : Pos} {s : String} {p2 : Pos}
    (hD : DDescription σ.pos desc p1) (hK : Kw s p1 p2)
    (hs' : s = "scalar" ∨ s = "type" ∨ s = "interface" ∨ s = "union" ∨ s = "enum" ∨ s = "input" ∨ s = "directive") :
    ∃ kw, keywordToken σ = .ok (kw, σ) ∧ kw.kind = .name ∧ kw.value = s := by
  cases hK with
  | mk ht hv =>
    cases hD with
    | none h1 h2 =>
      obtain ⟨hcur, _, hk⟩ := tok_cur ht
      have hc : ¬ (σ.cur.kind = .string ∨ σ.cur.kind = .blockString) := by
        rw [hk]; rintro (h | h) <;> cases h
      exact ⟨σ.cur, by simp only [keywordToken, bind_run, cur_run, if_neg hc, pure_run], hk, by rw [hcur]; exact hv⟩
    | string hs =>
      obtain ⟨_, _, hk⟩ := tok_cur hs
      obtain ⟨hcur, _, hk2⟩ := tok_cur (σ := σ.at p1) ht
      have hc : σ.cur.kind = .string ∨ σ.cur.kind = .blockString := .inl hk
      have hv' : (σ.at p1).cur.value = s := by rw [hcur]; exact hv
      have hc2 : ¬ ((σ.at p1).cur.kind = .name ∧ ¬ ((σ.at p1).cur.value = "scalar" ∨ (σ.at p1).cur.value = "type" ∨
          (σ.at p1).cur.value = "interface" ∨ (σ.at p1).cur.value = "union" ∨ (σ.at p1).cur.value = "enum" ∨
          (σ.at p1).cur.value = "input" ∨ (σ.at p1).cur.value = "directive")) := by
        rintro ⟨_, hn⟩; rw [hv'] at hn; exact hn hs'
      refine ⟨(σ.at p1).cur, ?_, hk2, hv'⟩
      simp only [keywordToken, bind_run, cur_run, if_pos hc, lookahead_run, adv_of_tok hs, if_neg hc2, pure_run]
    | blockString hs =>
      obtain ⟨_, _, hk⟩ := tok_cur hs
      obtain ⟨hcur, _, hk2⟩ := tok_cur (σ := σ.at p1) ht
      have hc : σ.cur.kind = .string ∨ σ.cur.kind = .blockString := .inr hk
      have hv' : (σ.at p1).cur.value = s := by rw [hcur]; exact hv
      have hc2 : ¬ ((σ.at p1).cur.kind = .name ∧ ¬ ((σ.at p1).cur.value = "scalar" ∨ (σ.at p1).cur.value = "type" ∨
          (σ.at p1).cur.value = "interface" ∨ (σ.at p1).cur.value = "union" ∨ (σ.at p1).cur.value = "enum" ∨
          (σ.at p1).cur.value = "input" ∨ (σ.at p1).cur.value = "directive")) := by
        rintro ⟨_, hn⟩; rw [hv'] at hn; exact hn hs'
      refine ⟨(σ.at p1).cur, ?_, hk2, hv'⟩
      simp only [keywordToken, bind_run, cur_run, if_pos hc, lookahead_run, adv_of_tok hs, if_neg hc2, pure_run]

theorem keywordToken_run_kw {σ : PState} {s : String} {p2 : Pos} (hK : Kw s σ.pos p2) :
    ∃ kw, keywordToken σ = .ok (kw, σ) ∧ kw.kind = .name ∧ kw.value = s := by
  cases hK with
  | mk ht hv =>
    obtain ⟨hcur, _, hk⟩ := tok_cur ht
    have hc : ¬ (σ.cur.kind = .string ∨ σ.cur.kind = .blockString) := by
      rw [hk]; rintro (h | h) <;> cases h
    exact ⟨σ.cur, by simp only [keywordToken, bind_run, cur_run, if_neg hc, pure_run], hk, by rw [hcur]; exact hv⟩

/-- a definition that starts with a keyword (possibly after a description) goes through `parseTypeSystemDefinition` -/
theorem parseDefinition_of_kind {σ : PState} (h : σ.pos.kind = .name ∨ σ.pos.kind = .string ∨ σ.pos.kind = .blockString) :
    parseDefinition σ = parseTypeSystemDefinition σ := by
  rw [pos_kind_eq] at h
  rcases h with h | h | h <;> simp only [parseDefinition, bind_run, cur_run, h]

theorem parseDefinition_via {σ : PState} {kw : Token} {f : P Definition} (hk : keywordToken σ = .ok (kw, σ))
    (hkind : σ.pos.kind = .name ∨ σ.pos.kind = .string ∨ σ.pos.kind = .blockString) (hd : ∀ a, dispatchKeyword a kw = f) :
    parseDefinition σ = f σ := by
  rw [parseDefinition_of_kind hkind]
  simp only [parseTypeSystemDefinition, bind_run, cur_run, hk, hd]

theorem desc_kw_kind {σ : PState} {desc : Option String} {p1 : Pos} {s : String} {p2 : Pos}
    (hD : DDescription σ.pos desc p1) (hK : Kw s p1 p2) :
    σ.pos.kind = .name ∨ σ.pos.kind = .string ∨ σ.pos.kind = .blockString :=
  ddescription_kind hD (kw_kind hK)

theorem parseDefinition_cmp : Cmp parseDefinition DDefinition := by
  intro σ d p' h
  cases h with
  | query hS =>
    have hk : σ.cur.kind = .braceL := by rw [← pos_kind_eq]; cases hS with | mk ho _ _ _ => exact tok_kind' ho
    have : parseDefinition σ = parseOperationDefinition σ := by simp only [parseDefinition, bind_run, cur_run, hk]
    rw [this]
    exact parseOperationDefinition_cmp (.query hS) (.inl ⟨_, _, rfl, by rw [pos_kind_eq]; exact hk⟩)
  | operation hOp hN hV hD hS =>
    have hkw : ∃ s p2, Kw s σ.pos p2 ∧ (s = "query" ∨ s = "mutation" ∨ s = "subscription") := by
      cases hOp with
      | query hk => exact ⟨_, _, hk, .inl rfl⟩
      | mutation hk => exact ⟨_, _, hk, .inr (.inl rfl)⟩
      | subscription hk => exact ⟨_, _, hk, .inr (.inr rfl)⟩
    obtain ⟨s, p2, hK, hs⟩ := hkw
    obtain ⟨kw, hkt, hkk, hkv⟩ := keywordToken_run_kw hK
    have hd : ∀ a, dispatchKeyword a kw = parseOperationDefinition := by
      intro a
      rcases hs with rfl | rfl | rfl <;> simp [dispatchKeyword, hkk, hkv]
    rw [parseDefinition_via hkt (.inl (kw_kind hK)) hd]
    exact parseOperationDefinition_cmp (.operation hOp hN hV hD hS) (.inr ⟨_, _, _, _, _, _, rfl, kw_kind hK⟩)
  | fragment hK hN hK2 hT hD hS =>
    obtain ⟨kw, hkt, hkk, hkv⟩ := keywordToken_run_kw hK
    have hd : ∀ a, dispatchKeyword a kw = parseFragmentDefinition := by intro a; simp [dispatchKeyword, hkk, hkv]
    rw [parseDefinition_via hkt (.inl (kw_kind hK)) hd]
    exact parseFragmentDefinition_cmp hK hN hK2 hT hD hS rfl
  | @schema p1 dirs p2 o p3 ops p4 cl _ hK hD hO hM hne hC =>
    obtain ⟨kw, hkt, hkk, hkv⟩ := keywordToken_run_kw hK
    have hd : ∀ a, dispatchKeyword a kw = parseSchemaDefinition := by intro a; simp [dispatchKeyword, hkk, hkv]
    rw [parseDefinition_via hkt (.inl (kw_kind hK)) hd]
    have e3 : reverse .braceL parseOperationTypeDefinition .braceR true (σ.at p2) = .ok (ops, (σ.at p2).at p') :=
      reverse_cmp parseOperationTypeDefinition_cmp (fun _ _ _ h => by rw [dopTypeDef_kind h]; decide)
        (fun _ _ _ => dopTypeDef_lt) hO hM hC (fun _ => hne)
    simp only [parseSchemaDefinition, bind_run, cur_run, expectKeyword_of_kw hK, parseDirectives_cmp (σ.at p1) _ _ hD, e3,
      PState.at_at, loc_run, pure_run, kw_start hK]
    rfl
  | @scalar desc p1 p2 n p3 dirs _ hDe hK hN hD =>
    obtain ⟨kw, hkt, hkk, hkv⟩ := keywordToken_run hDe hK (by simp)
    have hd : ∀ a, dispatchKeyword a kw = parseScalarTypeDefinition := by intro a; simp [dispatchKeyword, hkk, hkv]
    rw [parseDefinition_via hkt (desc_kw_kind hDe hK) hd]
    simp only [parseScalarTypeDefinition, bind_run, cur_run, parseDescription_cmp σ _ _ hDe,
      expectKeyword_of_kw (σ := σ.at p1) hK, parseName_cmp (σ.at p2) _ _ hN, parseDirectives_cmp (σ.at p3) _ _ hD,
      PState.at_at, loc_run, pure_run, ddesc_start hDe (kw_ne hK)]
    rfl
  | object hO =>
    cases hO with
    | mk hDe hK hN hI hD hB =>
      obtain ⟨kw, hkt, hkk, hkv⟩ := keywordToken_run hDe hK (by simp)
      have hd : ∀ a, dispatchKeyword a kw = parseObjectTypeDefinition := by intro a; simp [dispatchKeyword, hkk, hkv]
      rw [parseDefinition_via hkt (desc_kw_kind hDe hK) hd]
      simp only [parseObjectTypeDefinition, bind_run, parseObjectDef_cmp σ _ _ (.mk hDe hK hN hI hD hB), pure_run]
  | @interface desc p1 p2 n p3 dirs p4 fs _ hDe hK hN hD hB =>
    obtain ⟨kw, hkt, hkk, hkv⟩ := keywordToken_run hDe hK (by simp)
    have hd : ∀ a, dispatchKeyword a kw = parseInterfaceTypeDefinition := by intro a; simp [dispatchKeyword, hkk, hkv]
    rw [parseDefinition_via hkt (desc_kw_kind hDe hK) hd]
    simp only [parseInterfaceTypeDefinition, bind_run, cur_run, parseDescription_cmp σ _ _ hDe,
      expectKeyword_of_kw (σ := σ.at p1) hK, parseName_cmp (σ.at p2) _ _ hN, parseDirectives_cmp (σ.at p3) _ _ hD,
      parseFieldDefs_cmp (σ := σ.at p4) hB, PState.at_at, loc_run, pure_run, ddesc_start hDe (kw_ne hK)]
    rfl
  | @union desc p1 p2 n p3 dirs p4 q p5 ms _ hDe hK hN hD hQ hS =>
    obtain ⟨kw, hkt, hkk, hkv⟩ := keywordToken_run hDe hK (by simp)
    have hd : ∀ a, dispatchKeyword a kw = parseUnionTypeDefinition := by intro a; simp [dispatchKeyword, hkk, hkv]
    rw [parseDefinition_via hkt (desc_kw_kind hDe hK) hd]
    have hle := sepBy_lt (fun _ _ _ => dnamedType_lt) hS
    simp only [parseUnionTypeDefinition, bind_run, cur_run, parseDescription_cmp σ _ _ hDe,
      expectKeyword_of_kw (σ := σ.at p1) hK, parseName_cmp (σ.at p2) _ _ hN, parseDirectives_cmp (σ.at p3) _ _ hD,
      expect_of_tok (σ := σ.at p4) hQ, loopFuel_run, PState.at_toks, PState.at_at,
      parseNamedSep_cmp hS (σ.at p5) (p5.ts.length + 1) rfl (by omega), loc_run, pure_run, ddesc_start hDe (kw_ne hK)]
    rfl
  | @enum desc p1 p2 n p3 dirs p4 vs _ hDe hK hN hD hB =>
    obtain ⟨kw, hkt, hkk, hkv⟩ := keywordToken_run hDe hK (by simp)
    have hd : ∀ a, dispatchKeyword a kw = parseEnumTypeDefinition := by intro a; simp [dispatchKeyword, hkk, hkv]
    rw [parseDefinition_via hkt (desc_kw_kind hDe hK) hd]
    have e5 := braced_cmp (σ := σ.at p4) parseEnumValueDefinition_cmp
      (fun _ _ _ h => kind3_ne (denumValueDef_kind h) (.inl rfl)) (fun _ _ _ => denumValueDef_lt) hB
    simp only [parseEnumTypeDefinition, bind_run, cur_run, parseDescription_cmp σ _ _ hDe,
      expectKeyword_of_kw (σ := σ.at p1) hK, parseName_cmp (σ.at p2) _ _ hN, parseDirectives_cmp (σ.at p3) _ _ hD,
      e5, PState.at_at, loc_run, pure_run, ddesc_start hDe (kw_ne hK)]
    rfl
  | @inputObject desc p1 p2 n p3 dirs p4 fs _ hDe hK hN hD hB =>
    obtain ⟨kw, hkt, hkk, hkv⟩ := keywordToken_run hDe hK (by simp)
    have hd : ∀ a, dispatchKeyword a kw = parseInputObjectTypeDefinition := by intro a; simp [dispatchKeyword, hkk, hkv]
    rw [parseDefinition_via hkt (desc_kw_kind hDe hK) hd]
    have e5 := braced_cmp (σ := σ.at p4) parseInputValueDef_cmp
      (fun _ _ _ h => kind3_ne (dinputValueDef_kind h) (.inl rfl)) (fun _ _ _ => dinputValueDef_lt) hB
    simp only [parseInputObjectTypeDefinition, bind_run, cur_run, parseDescription_cmp σ _ _ hDe,
      expectKeyword_of_kw (σ := σ.at p1) hK, parseName_cmp (σ.at p2) _ _ hN, parseDirectives_cmp (σ.at p3) _ _ hD,
      e5, PState.at_at, loc_run, pure_run, ddesc_start hDe (kw_ne hK)]
    rfl
  | @extend p1 od _ hK hO =>
    obtain ⟨kw, hkt, hkk, hkv⟩ := keywordToken_run_kw hK
    have hd : ∀ a, dispatchKeyword a kw = parseTypeExtensionDefinition := by intro a; simp [dispatchKeyword, hkk, hkv]
    rw [parseDefinition_via hkt (.inl (kw_kind hK)) hd]
    simp only [parseTypeExtensionDefinition, bind_run, cur_run, expectKeyword_of_kw hK, parseObjectDef_cmp (σ.at p1) _ _ hO,
      PState.at_at, loc_run, pure_run, kw_start hK]
    rfl
  | @directive desc p1 p2 a p3 n p4 args p5 p6 locs _ hDe hK hA hN hAr hK2 hL =>
    obtain ⟨kw, hkt, hkk, hkv⟩ := keywordToken_run hDe hK (by simp)
    have hd : ∀ a, dispatchKeyword a kw = parseDirectiveDefinition := by intro a; simp [dispatchKeyword, hkk, hkv]
    rw [parseDefinition_via hkt (desc_kw_kind hDe hK) hd]
    have hle := sepBy_lt (fun _ _ _ => dname_lt) hL
    simp only [parseDirectiveDefinition, bind_run, cur_run, parseDescription_cmp σ _ _ hDe,
      expectKeyword_of_kw (σ := σ.at p1) hK, expect_of_tok (σ := σ.at p2) hA, parseName_cmp (σ.at p3) _ _ hN,
      parseArgumentDefs_cmp (σ.at p4) _ _ hAr, expectKeyword_of_kw (σ := σ.at p5) hK2, loopFuel_run, PState.at_toks,
      PState.at_at, parseDirectiveLocations_cmp hL (σ.at p6) (p6.ts.length + 1) rfl (by omega), loc_run, pure_run,
      ddesc_start hDe (kw_ne hK)]
    rfl

/-! ## document -/

theorem parseDefinitions_cmp {p : Pos} {ds : List Definition} {p1 : Pos} (h : Many DDefinition p ds p1) :
    ∀ (σ : PState) (k : Nat), σ.pos = p → p1.ts = [] → ds.length < k →
      ∃ σ', parseDefinitions k σ = .ok (ds, σ') ∧ σ'.prevEnd = σ.eofPos ∧ σ'.bad = σ.bad := by
  induction h with
  | nil =>
    intro σ k hσ hnil hk
    subst hσ
    obtain ⟨k', rfl⟩ : ∃ k', k = k' + 1 := ⟨k - 1, by simp at hk; omega⟩
    have ht : σ.toks = [] := by simpa using hnil
    refine ⟨σ.adv, ?_, by simp [PState.adv, ht], by simp⟩
    simp only [parseDefinitions, bind_run, skipEOF, ht, if_true, pure_run]
  | cons hx _ ih =>
    intro σ k hσ hnil hk
    subst hσ
    obtain ⟨k', rfl⟩ : ∃ k', k = k' + 1 := ⟨k - 1, by simp at hk; omega⟩
    obtain ⟨σ', h1, h2, h3⟩ := ih (σ.at _) k' rfl hnil (by simp at hk; omega)
    have hne := ddefinition_ne hx
    have hs : skipEOF σ = .ok (false, σ) := by
      unfold skipEOF
      cases ht : σ.toks with
      | nil => simp [PState.pos, ht] at hne
      | cons _ _ => rfl
    refine ⟨σ', ?_, by simpa using h2, by simpa using h3⟩
    simp only [parseDefinitions, bind_run, hs, Bool.false_eq_true, if_false, parseDefinition_cmp σ _ _ hx, h1, pure_run]

/-- completeness of the whole parser: every document of the grammar is accepted by M, with the AST the
productions define and without raising the malformed-type-reference flag -/
theorem parseToks_complete {toks : List Token} {eofPos : Nat} {d : Document} (h : DerivesDoc toks eofPos d) :
    parseToks toks eofPos = .ok ⟨d, false⟩ := by
  cases h with
  | @mk defs e hM hne =>
    have hle := many_le (fun _ _ _ => ddefinition_lt) hM
    obtain ⟨σ', h1, h2, h3⟩ := parseDefinitions_cmp hM (initState toks eofPos) (toks.length + 1) rfl rfl
      (by simp at hle; omega)
    have hst : (initState toks eofPos).cur.start = (Pos.mk 0 toks).start := by
      cases hM with
      | nil => exact absurd rfl hne
      | cons hD _ => exact (pos_start_eq (σ := initState toks eofPos) (ddefinition_ne hD)).symm
    have hemp : defs.isEmpty = false := by
      cases defs with
      | nil => exact absurd rfl hne
      | cons _ _ => rfl
    have h1' : parseDefinitions ((initState toks eofPos).toks.length + 1) (initState toks eofPos) = .ok (defs, σ') := h1
    simp only [parseToks, parseDocument, bind_run, cur_run, loopFuel_run, h1', hemp, Bool.false_eq_true, if_false, loc_run,
      pure_run, hst, h2, h3]
    rfl

end GqlModel.Parser
