import GqlProofs.PlanDefer3
import GqlProofs.PlanSettle2
/-! # Forcing keeps the relation `SV`; the depth-first pass -/
namespace GqlModel.Plan
open GqlModel.Exec GqlModel.Coerce

section sv
variable {c : Ctx} {pv : Option Vars} {rank : String → Nat} {F : Nat}

local notation "alt0" => recompute c.schema c.frags pv

/-- outcome of forcing / of a dethunk pass on a value related to `j`: never an escape -/
def SVRes {α β : Type} (R : α → β → Prop) (r : Res α) (j : β) : Prop :=
  match r with
  | .ok x => R x j
  | .fail => False
  | .fuelOut => True

/-- ONE call of a closure yields a value related to what the algorithm's in-place forcing yields (possibly another closure) — and
never escapes -/
theorem force_sv (hac : Acyclic c.frags rank) (hfr : FragsOK c pv) (cl : Closure) (j : JVal)
    (hwit : Wit c pv rank F cl j) (mst : MSt) :
    SVRes (SV c pv rank F) (force c alt0 F cl mst).1 j := by
  obtain ⟨hn, hr⟩ := hwit
  unfold force
  cases hcr : cl.r with
  | none =>
    rw [hcr] at hr
    simp only at hr
    obtain ⟨hnn, rfl⟩ := hr
    simp only [hnn, Bool.false_eq_true, if_false]
    exact .leaf _
  | some r =>
    cases r with
    | err =>
      rw [hcr] at hr
      simp only at hr
      obtain ⟨hnn, rfl⟩ := hr
      simp only [hnn, Bool.false_eq_true, if_false]
      exact .leaf _
    | ok v =>
      rw [hcr] at hr
      simp only at hr
      obtain ⟨st, rS, stS, hS, hkf, hres⟩ := hr
      simp only
      have hne : rS ≠ .fuelOut := by
        rcases hres with h | h
        · rw [h]; simp
        · rw [h.1]; simp
      have hc := (genP (F := F) hac hfr F (Nat.le_refl _)).complete true cl.t cl.rt cl.fid cl.fp cl.path v st
        (mst.logEv (.force cl.path)) rS stS hn hS hne hkf
      generalize mComplete c alt0 F true cl.t cl.rt cl.fid cl.fp cl.path v (mst.logEv (.force cl.path)) = z at hc ⊢
      obtain ⟨rM, mst1⟩ := z
      rcases hres with rfl | ⟨rfl, hnn, rfl⟩
      · simp only [CompleteRel] at hc
        obtain ⟨x, hx, hsv⟩ := hc
        subst hx
        exact hsv
      · simp only [CompleteRel] at hc
        rcases hc with hc | ⟨cl', hcl', _, _, hwit'⟩
        · subst hc
          simp only [hnn, Bool.false_eq_true, if_false]
          exact .leaf _
        · subst hcl'
          exact .deferred hwit'

/-- a forcing function that respects `SV` -/
def FrcSV (c : Ctx) (pv : Option Vars) (rank : String → Nat) (F : Nat) (frc : Closure → MSt → Res PVal × MSt) : Prop :=
  ∀ cl j mst, Wit c pv rank F cl j → SVRes (SV c pv rank F) (frc cl mst).1 j

/-- the loop at a dethunk site keeps the relation -/
theorem forceLoop_sv {frc : Closure → MSt → Res PVal × MSt} (hf : FrcSV c pv rank F frc) (j : JVal) :
    ∀ (n : Nat) (v : PVal) (mst : MSt), SV c pv rank F v j → SVRes (SV c pv rank F) (forceLoop frc n v mst).1 j
  | 0, v, mst, _ => by simp only [forceLoop]; trivial
  | n + 1, .leaf _, mst, h => by simp only [forceLoop]; exact h
  | n + 1, .list _, mst, h => by simp only [forceLoop]; exact h
  | n + 1, .obj _, mst, h => by simp only [forceLoop]; exact h
  | n + 1, .deferred cl, mst, h => by
    simp only [forceLoop]
    cases h with
    | deferred hwit =>
      have ha := hf cl j mst hwit
      generalize frc cl mst = z at ha ⊢
      obtain ⟨r1, mst1⟩ := z
      cases r1 with
      | ok x => exact forceLoop_sv hf j n x mst1 ha
      | fail => exact ha
      | fuelOut => trivial

theorem frcSV_forceAll (hac : Acyclic c.frags rank) (hfr : FragsOK c pv) :
    FrcSV c pv rank F (forceAll c alt0 F) :=
  fun cl j mst hwit => forceLoop_sv (fun cl j mst hw => force_sv hac hfr cl j hw mst) j (F + 2) (.deferred cl) mst (.deferred hwit)

/-- `m[k] = v'` keeps the relation when `v'` stands for whatever the old value stood for -/
theorem svf_setF {k : String} {v v' : PVal} (hvv : ∀ j, SV c pv rank F v j → SV c pv rank F v' j) :
    ∀ {fs : List (String × PVal)} {gs : List (String × JVal)}, SVf c pv rank F fs gs → lookupF fs k = some v →
    SVf c pv rank F (setF fs k v') gs
  | [], _, h, hl => by simp [lookupF] at hl
  | (k', x) :: rest, _, h, hl => by
    cases h with
    | cons h1 h2 =>
      simp only [setF]
      by_cases hk : (k' == k) = true
      · simp only [hk, if_true]
        simp only [lookupF, List.find?_cons, hk, Option.map_some, Option.some.injEq] at hl
        subst hl
        exact .cons (hvv _ h1) h2
      · simp only [hk, Bool.false_eq_true, if_false]
        have hk' : (k' == k) = false := by simpa using hk
        have hl' : lookupF rest k = some v := by
          simpa [lookupF, List.find?_cons, hk'] using hl
        exact .cons h1 (svf_setF hvv h2 hl')

theorem svf_lookup {k : String} {v : PVal} : ∀ {fs : List (String × PVal)} {gs : List (String × JVal)},
    SVf c pv rank F fs gs → lookupF fs k = some v → ∃ j, SV c pv rank F v j
  | [], _, h, hl => by simp [lookupF] at hl
  | (k', x) :: rest, _, h, hl => by
    cases h with
    | cons h1 h2 =>
      by_cases hk : (k' == k) = true
      · simp only [lookupF, List.find?_cons, hk, Option.map_some, Option.some.injEq] at hl
        subst hl
        exact ⟨_, h1⟩
      · have hk' : (k' == k) = false := by simpa using hk
        have hl' : lookupF rest k = some v := by
          simpa [lookupF, List.find?_cons, hk'] using hl
        exact svf_lookup h2 hl'

theorem svl_append_lists : ∀ {xs : List PVal} {js : List JVal} {ys : List PVal} {ks : List JVal},
    SVl c pv rank F xs js → SVl c pv rank F ys ks → SVl c pv rank F (xs ++ ys) (js ++ ks)
  | [], _, _, _, h1, h2 => by cases h1; exact h2
  | _ :: _, _, _, _, h1, h2 => by
    cases h1 with
    | cons a b => exact .cons a (svl_append_lists b h2)

/-- the three depth-first functions keep `SV` and never escape -/
structure DfsV (c : Ctx) (pv : Option Vars) (rank : String → Nat) (F : Nat) (frc : Closure → MSt → Res PVal × MSt)
    (n : Nat) : Prop where
  val : ∀ v j mst, SV c pv rank F v j → SVRes (SV c pv rank F) (dfsVal frc n v mst).1 j
  fields : ∀ ks fs gs mst, SVf c pv rank F fs gs → SVRes (SVf c pv rank F) (dfsFields frc n ks fs mst).1 gs
  items : ∀ xs js acc accj mst, SVl c pv rank F xs js → SVl c pv rank F acc accj →
    SVRes (SVl c pv rank F) (dfsItems frc n xs acc mst).1 (accj ++ js)

theorem dfsV {frc : Closure → MSt → Res PVal × MSt} (hf : FrcSV c pv rank F frc) : ∀ n, DfsV c pv rank F frc n
  | 0 => by
    refine ⟨?_, ?_, ?_⟩
    · intro v j mst _; simp only [dfsVal]; trivial
    · intro ks fs gs mst _; simp only [dfsFields]; trivial
    · intro xs js acc accj mst _ _; simp only [dfsItems]; trivial
  | n + 1 => by
    have ih : DfsV c pv rank F frc n := dfsV hf n
    refine ⟨?_, ?_, ?_⟩
    · have key : ∀ (x : PVal) (j : JVal) (mst : MSt), (∀ cl, x ≠ .deferred cl) → SV c pv rank F x j →
          SVRes (SV c pv rank F) (dfsVal frc (n + 1) x mst).1 j := by
        intro x j mst hnd hx
        cases hx with
        | leaf j => simp only [dfsVal]; exact .leaf _
        | deferred _ => exact absurd rfl (hnd _)
        | @obj fs gs hfs =>
          simp only [dfsVal]
          have h := ih.fields (sortedKeys fs) fs gs mst hfs
          generalize dfsFields frc n (sortedKeys fs) fs mst = z at h ⊢
          obtain ⟨r, mst1⟩ := z
          cases r with
          | ok fs' => exact .obj h
          | fail => exact h
          | fuelOut => trivial
        | @list xs js hxs =>
          simp only [dfsVal]
          have h := ih.items xs js [] [] mst hxs .nil
          generalize dfsItems frc n xs [] mst = z at h ⊢
          obtain ⟨r, mst1⟩ := z
          cases r with
          | ok ys => exact .list (by simpa [SVRes] using h)
          | fail => exact h
          | fuelOut => trivial
      intro v j mst hv
      cases v with
      | leaf j' => exact key _ j mst (fun _ h => by cases h) hv
      | list xs => exact key _ j mst (fun _ h => by cases h) hv
      | obj fs => exact key _ j mst (fun _ h => by cases h) hv
      | deferred cl =>
        cases hv with
        | deferred hwit =>
          simp only [dfsVal]
          have ha := hf cl j mst hwit
          generalize frc cl mst = z at ha ⊢
          obtain ⟨r1, mst1⟩ := z
          cases r1 with
          | fail => exact ha
          | fuelOut => trivial
          | ok x =>
            have hx : SV c pv rank F x j := ha
            cases x with
            | leaf j' => exact hx
            | deferred cl' => exact hx
            | obj fs =>
              have := key (.obj fs) j mst1 (fun _ h => by cases h) hx
              simp only [dfsVal] at this
              exact this
            | list xs =>
              have := key (.list xs) j mst1 (fun _ h => by cases h) hx
              simp only [dfsVal] at this
              exact this
    · intro ks fs gs mst hfs
      cases ks with
      | nil => simp only [dfsFields]; exact hfs
      | cons k ks =>
        simp only [dfsFields]
        cases hl : lookupF fs k with
        | none => exact ih.fields ks fs gs mst hfs
        | some v =>
          simp only
          -- whatever `v` stands for, the settled value stands for
          have hvv : ∀ j, SV c pv rank F v j → SVRes (SV c pv rank F) (dfsVal frc n v mst).1 j :=
            fun j hj => ih.val v j mst hj
          obtain ⟨j0, hj0⟩ := svf_lookup hfs hl
          generalize hz : dfsVal frc n v mst = z at hvv
          obtain ⟨r1, mst1⟩ := z
          cases r1 with
          | fail => exact hvv j0 hj0
          | fuelOut => trivial
          | ok v' =>
            simp only
            exact ih.fields ks _ gs mst1 (svf_setF (fun j hj => hvv j hj) hfs hl)
    · intro xs js acc accj mst hxs hacc
      cases hxs with
      | nil => simp only [dfsItems, List.append_nil]; exact hacc
      | @cons x j xs js hx hrest =>
        simp only [dfsItems]
        have hv := ih.val x j mst hx
        generalize dfsVal frc n x mst = z at hv ⊢
        obtain ⟨r1, mst1⟩ := z
        cases r1 with
        | fail => exact hv
        | fuelOut => trivial
        | ok x' =>
          simp only
          have := ih.items xs js (acc ++ [x']) (accj ++ [j]) mst1 hrest (svl_append hv hacc)
          simpa using this

mutual
/-- a related value without closures IS the algorithm's value -/
theorem sv_toJ : ∀ {x : PVal} {j : JVal}, SV c pv rank F x j → NoDef x → x.toJ? = some j
  | .leaf _, _, h, _ => by cases h; simp [PVal.toJ?]
  | .list xs, _, h, hn => by
    cases h with
    | list hl => simp only [PVal.toJ?, svl_toJ hl (by simpa [NoDef, PVal.AllCl] using hn)]; rfl
  | .obj fs, _, h, hn => by
    cases h with
    | obj hf => simp only [PVal.toJ?, svf_toJ hf (by simpa [NoDef, PVal.AllCl] using hn)]; rfl
  | .deferred cl, _, _, hn => absurd (allCl_deferred.1 hn) id
theorem svl_toJ : ∀ {xs : List PVal} {js : List JVal}, SVl c pv rank F xs js → PVal.AllClList (fun _ => False) xs →
    PVal.listToJ? xs = some js
  | [], _, h, _ => by cases h; rfl
  | x :: xs, _, h, hn => by
    cases h with
    | cons h1 h2 =>
      simp only [PVal.AllClList] at hn
      simp only [PVal.listToJ?, sv_toJ h1 hn.1, svl_toJ h2 hn.2]
theorem svf_toJ : ∀ {fs : List (String × PVal)} {gs : List (String × JVal)}, SVf c pv rank F fs gs →
    PVal.AllClFields (fun _ => False) fs → PVal.fieldsToJ? fs = some gs
  | [], _, h, _ => by cases h; rfl
  | (k, x) :: xs, _, h, hn => by
    cases h with
    | cons h1 h2 =>
      simp only [PVal.AllClFields] at hn
      simp only [PVal.fieldsToJ?, sv_toJ h1 hn.1, svf_toJ h2 hn.2]
end

end sv

end GqlModel.Plan
