import GqlModel.TypeInfoStacks
/-! # Lemmas for Props/C14TypeInfo: the TypeInfo stack machine equals the top-down context

* local facts about one `Enter` / `Leave`: `regs_enter` (the getters after `Enter` = `ctxStep` of the getters before),
  `leave_enter` (`Leave` undoes `Enter` exactly), `pre_enter` (the invariant goes down to the children);
* `visit_M` / `visitList_M`: the walk driven by the machine returns to the stacks it started with and the wrapped
  visitor ends where the top-down reference walk ends (any stateful, skipping visitor), generalised over the stacks;
* `ref_logger`: the reference walk with the logging visitor = the pure record list `ctxRecs`;
* `ctxRecs_sublist`: skipping only removes records;
* `docTree_wf`, `ctxRecs_docTree`: every document tree is well-formed, and `ctxRecs` of it is `tiRecords`. -/
namespace GqlModel.TypeInfoStacks
open GqlModel.Validate
variable {σ : Type}

/-! ## last match = first match when names are distinct -/

theorem foldl_lastArg_none (name : String) : ∀ (args : List ArgDef) (acc : Option ArgDef),
    (∀ a ∈ args, (a.name == name) = false) →
    args.foldl (fun acc a => if a.name == name then some a else acc) acc = acc
  | [], _, _ => rfl
  | a :: rest, acc, h => by
    have ha : (a.name == name) = false := h a (by simp)
    simp only [List.foldl_cons, ha, Bool.false_eq_true, if_false]
    exact foldl_lastArg_none name rest acc (fun b hb => h b (by simp [hb]))

theorem lastArg_eq_find? (name : String) : ∀ (args : List ArgDef), argNamesNodup args →
    lastArg args name = args.find? (fun a => a.name == name)
  | [], _ => rfl
  | a :: rest, h => by
    unfold argNamesNodup at h
    simp only [List.map_cons, List.nodup_cons] at h
    by_cases ha : (a.name == name) = true
    · have hn : a.name = name := by simpa using ha
      have hrest : ∀ b ∈ rest, (b.name == name) = false := by
        intro b hb
        have : b.name ≠ a.name := fun e => h.1 (by rw [← e]; exact List.mem_map_of_mem hb)
        simp only [beq_eq_false_iff_ne, ne_eq]
        rw [← hn]; exact this
      simp only [lastArg, List.foldl_cons, ha, if_true, List.find?_cons]
      exact foldl_lastArg_none name rest (some a) hrest
    · have ha' : (a.name == name) = false := by simpa using ha
      have ih := lastArg_eq_find? name rest h.2
      simp only [lastArg] at ih
      simp only [lastArg, List.foldl_cons, ha', Bool.false_eq_true, if_false, List.find?_cons]
      exact ih

/-! ## the invariant carried down the walk -/

/-- `inDir` / `inArg`: whether the position is inside a Directive / an Argument node. Outside, the register is nil
(so that `Leave`'s clearing restores it); the definitions in the registers have distinct argument names. -/
structure Pre (inDir inArg : Bool) (ti : TI) : Prop where
  dir : inDir = false → ti.directive = none ∧ ti.inDirective = false
  arg : inArg = false → ti.argument = none
  dOK : ∀ d, ti.directive = some d → argNamesNodup d.args
  fOK : ∀ fd, ti.fieldDef = some fd → argNamesNodup fd.args

theorem pre_empty : Pre false false TI.empty :=
  ⟨fun _ => ⟨rfl, rfl⟩, fun _ => rfl, fun _ h => by simp [TI.empty] at h, fun _ h => by simp [TI.empty, TI.fieldDef, top] at h⟩

theorem listItemType_eq (t : Option GType) :
    (match t.map GType.nullable with | some (.list u) => some u | _ => none) = listItemType t := by
  cases t with
  | none => rfl
  | some t =>
    cases t with
    | named n => rfl
    | list u => rfl
    | nonNull u => cases u <;> rfl

/-- the getters after `Enter(node)` are a function of the getters before: the top-down step of S -/
theorem regs_enter (s : Schema) (ti : TI) (nv : NodeView) (inDir inArg : Bool) (h : Pre inDir inArg ti) :
    regs (tiEnter s ti nv) = ctxStep s (regs ti) nv := by
  cases nv with
  | selectionSet => rfl
  | field name =>
    simp only [tiEnter, regs, ctxStep, TCtx.enterField, TI.type, TI.parentType, TI.fieldDef, TI.inputType]
    cases top ti.parentTypeStack with
    | none => rfl
    | some p => simp only [Option.bind]; cases s.fieldDef? p name <;> rfl
  | directive name => rfl
  | operation op => rfl
  | inlineFragment tc =>
    cases tc with
    | some t => rfl
    | none =>
      simp only [tiEnter, regs, ctxStep, TCtx.enterInline, TI.type, TI.parentType, TI.fieldDef, TI.inputType]
      cases top ti.typeStack <;> rfl
  | fragmentDefinition tc =>
    cases tc with
    | some t => rfl
    | none =>
      rfl
  | variableDefinition t => rfl
  | argument name =>
    have hD := h.dOK
    have hF := h.fOK
    obtain ⟨ts, ps, is, fs, dir, ind, arg⟩ := ti
    simp only [TI.fieldDef] at hF
    simp only [tiEnter, regs, ctxStep, TI.type, TI.parentType, TI.inputType, TI.fieldDef] at hD hF ⊢
    cases dir with
    | some d => simp [argDefFor, top, lastArg_eq_find? name d.args (hD d rfl)]
    | none =>
      cases ind with
      | true => simp [argDefFor, top]
      | false =>
        cases hf : top fs with
        | some fd => simp [argDefFor, top, lastArg_eq_find? name fd.args (hF fd hf)]
        | none => simp [argDefFor, top]
  | listValue =>
    have key := listItemType_eq ti.inputType
    simp only [tiEnter]
    split
    · rename_i t ht
      simp only [ht] at key
      simp only [regs, ctxStep, TI.type, TI.parentType, TI.fieldDef, TI.inputType, top] at key ⊢
      rw [← key]
    · rename_i hne
      have : listItemType ti.inputType = none := by
        rw [← key]
        split
        · rename_i t ht; exact absurd ht (hne t)
        · rfl
      simp only [regs, ctxStep, TI.type, TI.parentType, TI.fieldDef, TI.inputType, top] at this ⊢
      rw [this]
  | objectField name =>
    simp only [tiEnter, regs, ctxStep, inputFieldType, TI.type, TI.parentType, TI.fieldDef, TI.inputType]
    cases top ti.inputTypeStack <;> rfl
  | other => rfl

/-- `Leave(node)` right after `Enter(node)` gives back the machine exactly — the stacks by push/pop, the registers
because they were nil outside a Directive / an Argument -/
theorem leave_enter (s : Schema) (ti : TI) (nv : NodeView) (inDir inArg : Bool) (h : Pre inDir inArg ti)
    (hd : (inDir && nv.isDirective) = false) (ha : (inArg && nv.isArgument) = false) :
    tiLeave (tiEnter s ti nv) nv = ti := by
  cases nv with
  | directive name =>
    simp [NodeView.isDirective] at hd
    obtain ⟨h1, h2⟩ := h.dir hd
    cases ti; simp_all [tiEnter, tiLeave]
  | argument name =>
    simp [NodeView.isArgument] at ha
    have h1 := h.arg ha
    cases ti; simp_all [tiEnter, tiLeave]
  | listValue =>
    simp only [tiEnter]
    split <;> rfl
  | inlineFragment tc => cases tc <;> rfl
  | fragmentDefinition tc => cases tc <;> rfl
  | _ => rfl

theorem pre_enter (s : Schema) (hU : ArgsUnique s) (ti : TI) (nv : NodeView) (inDir inArg : Bool)
    (h : Pre inDir inArg ti) :
    Pre (inDir || nv.isDirective) (inArg || nv.isArgument) (tiEnter s ti nv) := by
  obtain ⟨h1, h2, h3, h4⟩ := h
  cases nv with
  | directive name =>
    refine ⟨by simp [NodeView.isDirective], by simpa [NodeView.isArgument, tiEnter] using h2, ?_, by simpa [tiEnter, TI.fieldDef] using h4⟩
    intro d hd
    exact hU.2 name d (by simpa [tiEnter] using hd)
  | argument name =>
    exact ⟨by simpa [NodeView.isDirective, tiEnter] using h1, by simp [NodeView.isArgument],
      by simpa [tiEnter] using h3, by simpa [tiEnter, TI.fieldDef] using h4⟩
  | field name =>
    refine ⟨by simpa [NodeView.isDirective, tiEnter] using h1, by simpa [NodeView.isArgument, tiEnter] using h2,
      by simpa [tiEnter] using h3, ?_⟩
    intro fd hfd
    simp only [tiEnter, TI.fieldDef, top] at hfd
    cases hp : ti.parentType with
    | none => simp [hp] at hfd
    | some p => simp only [hp] at hfd; exact hU.1 p name fd hfd
  | listValue =>
    simp only [tiEnter]
    split <;> exact ⟨by simpa [NodeView.isDirective] using h1, by simpa [NodeView.isArgument] using h2,
      by simpa using h3, by simpa [TI.fieldDef] using h4⟩
  | inlineFragment tc =>
    cases tc <;> exact ⟨by simpa [NodeView.isDirective, tiEnter] using h1, by simpa [NodeView.isArgument, tiEnter] using h2,
      by simpa [tiEnter] using h3, by simpa [tiEnter, TI.fieldDef] using h4⟩
  | fragmentDefinition tc =>
    cases tc <;> exact ⟨by simpa [NodeView.isDirective, tiEnter] using h1, by simpa [NodeView.isArgument, tiEnter] using h2,
      by simpa [tiEnter] using h3, by simpa [tiEnter, TI.fieldDef] using h4⟩
  | _ =>
    exact ⟨by simpa [NodeView.isDirective, tiEnter] using h1, by simpa [NodeView.isArgument, tiEnter] using h2,
      by simpa [tiEnter] using h3, by simpa [tiEnter, TI.fieldDef] using h4⟩

/-! ## the walk driven by the machine = the top-down reference walk, and the machine comes back -/

mutual
theorem visit_M (s : Schema) (hU : ArgsUnique s) (v : Inner σ) :
    ∀ (n : TNode) (inDir inArg : Bool) (ti : TI) (st : σ), n.wf inDir inArg = true → Pre inDir inArg ti →
      visit (M s) v n ti st = (ti, refVisit s v n (regs ti) st)
  | .mk kind loc nv cs, inDir, inArg, ti, st, hwf, hpre => by
    simp only [TNode.wf, Bool.and_eq_true, Bool.not_eq_true'] at hwf
    obtain ⟨⟨hd, ha⟩, hcs⟩ := hwf
    have hr := regs_enter s ti nv inDir inArg hpre
    have hl := leave_enter s ti nv inDir inArg hpre hd ha
    have hp := pre_enter s hU ti nv inDir inArg hpre
    have ih := fun st1 => visitList_M s hU v cs _ _ (tiEnter s ti nv) st1 hcs hp
    simp only [visit, refVisit, M, hr]
    rcases hE : v.enter st ⟨kind, loc, ctxStep s (regs ti) nv⟩ with ⟨st1, b⟩
    cases b with
    | true => simp only [if_true]; rw [hl]
    | false =>
      have ih1 := ih st1
      simp only [M] at ih1
      simp only [ih1, hl, hr]
theorem visitList_M (s : Schema) (hU : ArgsUnique s) (v : Inner σ) :
    ∀ (ns : List TNode) (inDir inArg : Bool) (ti : TI) (st : σ), TNode.wfList inDir inArg ns = true → Pre inDir inArg ti →
      visitList (M s) v ns ti st = (ti, refList s v ns (regs ti) st)
  | [], _, _, ti, st, _, _ => by simp [visitList, refList]
  | n :: ns, inDir, inArg, ti, st, hwf, hpre => by
    simp only [TNode.wfList, Bool.and_eq_true] at hwf
    have h1 := visit_M s hU v n inDir inArg ti st hwf.1 hpre
    have h2 := visitList_M s hU v ns inDir inArg ti (refVisit s v n (regs ti) st) hwf.2 hpre
    simp only [visitList, refList, h1, h2]
end

/-! ## absent callbacks: `VisitWithTypeInfo` over `VisitorOptions` = the walk with the totalised visitor -/

mutual
theorem visitO_eq_visit (T : Tracker) (hT : T.leaveNeedsHandler = false) (o : Opts σ) :
    ∀ (n : TNode) (ti : TI) (st : σ), visitO T o n ti st = visit T o.total n ti st
  | .mk kind loc nv cs, ti, st => by
    have ih := fun st1 => visitListO_eq_visitList T hT o cs (T.enter ti nv) st1
    have hl : ∀ (ti2 : TI) (st2 : σ),
        (match getLeaveFn o kind with
          | some fn => (T.leave ti2 nv, fn st2 ⟨kind, loc, regs ti2⟩)
          | none => (if T.leaveNeedsHandler then ti2 else T.leave ti2 nv, st2)) =
        (T.leave ti2 nv, o.total.leave st2 ⟨kind, loc, regs ti2⟩) := by
      intro ti2 st2
      cases hg : getLeaveFn o kind <;> simp [Opts.total, hg, hT]
    cases hg : getEnterFn o kind with
    | none =>
      have he : o.total.enter st ⟨kind, loc, regs (T.enter ti nv)⟩ = (st, false) := by simp [Opts.total, hg]
      simp only [visitO, visit, hg, he, ih]
      exact hl _ _
    | some fn =>
      have he : o.total.enter st ⟨kind, loc, regs (T.enter ti nv)⟩ = fn st ⟨kind, loc, regs (T.enter ti nv)⟩ := by
        simp [Opts.total, hg]
      simp only [visitO, visit, hg, he, ih]
      rcases fn st ⟨kind, loc, regs (T.enter ti nv)⟩ with ⟨st1, b⟩
      cases b with
      | true => rfl
      | false => exact hl _ _
theorem visitListO_eq_visitList (T : Tracker) (hT : T.leaveNeedsHandler = false) (o : Opts σ) :
    ∀ (ns : List TNode) (ti : TI) (st : σ), visitListO T o ns ti st = visitList T o.total ns ti st
  | [], _, _ => by simp [visitListO, visitList]
  | n :: ns, ti, st => by
    simp only [visitListO, visitList, visitO_eq_visit T hT o n ti st]
    rcases visit T o.total n ti st with ⟨ti1, st1⟩
    exact visitListO_eq_visitList T hT o ns ti1 st1
end

/-! ## records -/

mutual
theorem ref_logger (s : Schema) (pol : TIRec → Bool) :
    ∀ (n : TNode) (c : TIState) (acc : List TIRec), refVisit s (logger pol) n c acc = acc ++ ctxRecs s pol n c
  | .mk kind loc nv cs, c, acc => by
    simp only [refVisit, ctxRecs, logger]
    cases hp : pol ⟨kind, loc, ctxStep s c nv⟩ with
    | true => simp
    | false =>
      have ih := refList_logger s pol cs (ctxStep s c nv) (acc ++ [⟨kind, loc, ctxStep s c nv⟩])
      simp only [logger] at ih
      simp [ih]
theorem refList_logger (s : Schema) (pol : TIRec → Bool) :
    ∀ (ns : List TNode) (c : TIState) (acc : List TIRec), refList s (logger pol) ns c acc = acc ++ ctxRecsList s pol ns c
  | [], _, acc => by simp [refList, ctxRecsList]
  | n :: ns, c, acc => by
    simp only [refList, ctxRecsList]
    rw [ref_logger s pol n c acc, refList_logger s pol ns c]
    simp
end

mutual
theorem ctxRecs_sublist (s : Schema) (pol : TIRec → Bool) :
    ∀ (n : TNode) (c : TIState), (ctxRecs s pol n c).Sublist (ctxRecs s noSkip n c)
  | .mk kind loc nv cs, c => by
    simp only [ctxRecs, noSkip, Bool.false_eq_true, if_false]
    apply List.Sublist.cons_cons
    cases pol ⟨kind, loc, ctxStep s c nv⟩ with
    | true => simp
    | false => simpa using ctxRecsList_sublist s pol cs (ctxStep s c nv)
theorem ctxRecsList_sublist (s : Schema) (pol : TIRec → Bool) :
    ∀ (ns : List TNode) (c : TIState), (ctxRecsList s pol ns c).Sublist (ctxRecsList s noSkip ns c)
  | [], _ => by simp [ctxRecsList]
  | n :: ns, c => by
    simp only [ctxRecsList]
    exact List.Sublist.append (ctxRecs_sublist s pol n c) (ctxRecsList_sublist s pol ns c)
end

theorem ctxRecsList_append (s : Schema) (pol : TIRec → Bool) (c : TIState) :
    ∀ (a b : List TNode), ctxRecsList s pol (a ++ b) c = ctxRecsList s pol a c ++ ctxRecsList s pol b c
  | [], b => by simp [ctxRecsList]
  | n :: a, b => by simp [ctxRecsList, ctxRecsList_append s pol c a b]

theorem ctxRecsList_map {α : Type} (s : Schema) (pol : TIRec → Bool) (c : TIState) (f : α → TNode) :
    ∀ (l : List α), ctxRecsList s pol (l.map f) c = l.flatMap (fun x => ctxRecs s pol (f x) c)
  | [] => by simp [ctxRecsList]
  | x :: l => by simp [ctxRecsList, ctxRecsList_map s pol c f l]

/-! ## well-formedness of document trees -/

theorem wfList_append (inDir inArg : Bool) : ∀ (a b : List TNode),
    TNode.wfList inDir inArg (a ++ b) = (TNode.wfList inDir inArg a && TNode.wfList inDir inArg b)
  | [], b => by simp [TNode.wfList]
  | n :: a, b => by simp [TNode.wfList, wfList_append inDir inArg a b, Bool.and_assoc]

theorem wfList_map {α : Type} (inDir inArg : Bool) (f : α → TNode) (h : ∀ x, (f x).wf inDir inArg = true) :
    ∀ (l : List α), TNode.wfList inDir inArg (l.map f) = true
  | [] => by simp [TNode.wfList]
  | x :: l => by simp [TNode.wfList, h x, wfList_map inDir inArg f h l]

theorem nameTree_wf (a b : Bool) (n : Name) : (nameTree n).wf a b = true := by
  simp [nameTree, TNode.wf, TNode.wfList, NodeView.isDirective, NodeView.isArgument]

theorem optNameTrees_wf (a b : Bool) : ∀ (o : Option Name), TNode.wfList a b (optNameTrees o) = true
  | none => by simp [optNameTrees, TNode.wfList]
  | some n => by simp [optNameTrees, TNode.wfList, nameTree_wf]

theorem typeTree_wf (a b : Bool) : ∀ (t : TypeRef), (typeTree t).wf a b = true
  | .named _ lc => by simp [typeTree, TNode.wf, TNode.wfList, NodeView.isDirective, NodeView.isArgument]
  | .list t lc => by simp [typeTree, TNode.wf, TNode.wfList, NodeView.isDirective, NodeView.isArgument, typeTree_wf a b t]
  | .nonNull t lc => by simp [typeTree, TNode.wf, TNode.wfList, NodeView.isDirective, NodeView.isArgument, typeTree_wf a b t]

theorem optTypeTrees_wf (a b : Bool) : ∀ (o : Option TypeRef), TNode.wfList a b (optTypeTrees o) = true
  | none => by simp [optTypeTrees, TNode.wfList]
  | some t => by simp [optTypeTrees, TNode.wfList, typeTree_wf]

theorem variableTree_wf (a b : Bool) (lc : Loc) : (variableTree lc).wf a b = true := by
  simp [variableTree, TNode.wf, TNode.wfList, NodeView.isDirective, NodeView.isArgument]

mutual
theorem valueTree_wf (inDir inArg : Bool) : ∀ (v : Value), (valueTree v).wf inDir inArg = true
  | .list vs lc => by simp [valueTree, TNode.wf, NodeView.isDirective, NodeView.isArgument, valuesTrees_wf inDir inArg vs]
  | .obj fs lc => by simp [valueTree, TNode.wf, NodeView.isDirective, NodeView.isArgument, objFieldsTrees_wf inDir inArg fs]
  | .var _ lc => by simp [valueTree, variableTree_wf]
  | .int .. | .float .. | .str .. | .bool .. | .enum .. => by
    simp [valueTree, TNode.wf, TNode.wfList, NodeView.isDirective, NodeView.isArgument]
theorem valuesTrees_wf (inDir inArg : Bool) : ∀ (vs : List Value), TNode.wfList inDir inArg (valuesTrees vs) = true
  | [] => by simp [valuesTrees, TNode.wfList]
  | v :: vs => by simp [valuesTrees, TNode.wfList, valueTree_wf inDir inArg v, valuesTrees_wf inDir inArg vs]
theorem objFieldsTrees_wf (inDir inArg : Bool) : ∀ (fs : List ObjField), TNode.wfList inDir inArg (objFieldsTrees fs) = true
  | [] => by simp [objFieldsTrees, TNode.wfList]
  | .mk nm v lc :: fs => by
    simp [objFieldsTrees, TNode.wfList, TNode.wf, NodeView.isDirective, NodeView.isArgument, nameTree_wf,
      valueTree_wf inDir inArg v, objFieldsTrees_wf inDir inArg fs]
end

theorem argTree_wf (inDir : Bool) (a : Argument) : (argTree a).wf inDir false = true := by
  simp [argTree, TNode.wf, TNode.wfList, NodeView.isDirective, NodeView.isArgument, nameTree_wf, valueTree_wf inDir true a.value]

theorem dirTree_wf (d : Directive) : (dirTree d).wf false false = true := by
  simp [dirTree, TNode.wf, TNode.wfList, NodeView.isDirective, NodeView.isArgument, nameTree_wf,
    wfList_map true false argTree (argTree_wf true) d.args]

theorem varDefTree_wf (v : VarDef) : (varDefTree v).wf false false = true := by
  cases hd : v.default with
  | none => simp [varDefTree, hd, TNode.wf, TNode.wfList, NodeView.isDirective, NodeView.isArgument, nameTree_wf,
      optTypeTrees_wf]
  | some dv => simp [varDefTree, hd, TNode.wf, TNode.wfList, NodeView.isDirective, NodeView.isArgument, nameTree_wf,
      wfList_append, optTypeTrees_wf, valueTree_wf false false dv]

mutual
theorem selTree_wf : ∀ (x : Selection), (selTree x).wf false false = true
  | .field al nm args dirs sel lc => by
    simp [selTree, TNode.wf, TNode.wfList, NodeView.isDirective, NodeView.isArgument, wfList_append, optNameTrees_wf,
      nameTree_wf, wfList_map false false argTree (argTree_wf false) args,
      wfList_map false false dirTree dirTree_wf dirs, optSetTrees_wf sel]
  | .spread nm dirs lc => by
    simp [selTree, TNode.wf, TNode.wfList, NodeView.isDirective, NodeView.isArgument, nameTree_wf,
      wfList_map false false dirTree dirTree_wf dirs]
  | .inline tc dirs ss lc => by
    simp [selTree, TNode.wf, TNode.wfList, NodeView.isDirective, NodeView.isArgument, wfList_append, optTypeTrees_wf,
      wfList_map false false dirTree dirTree_wf dirs, setTree_wf ss]
theorem setTree_wf : ∀ (ss : SelectionSet), (setTree ss).wf false false = true
  | .mk sels lc => by simp [setTree, TNode.wf, NodeView.isDirective, NodeView.isArgument, selsTrees_wf sels]
theorem optSetTrees_wf : ∀ (o : Option SelectionSet), TNode.wfList false false (optSetTrees o) = true
  | none => by simp [optSetTrees, TNode.wfList]
  | some ss => by simp [optSetTrees, TNode.wfList, setTree_wf ss]
theorem selsTrees_wf : ∀ (xs : List Selection), TNode.wfList false false (selsTrees xs) = true
  | [] => by simp [selsTrees, TNode.wfList]
  | x :: xs => by simp [selsTrees, TNode.wfList, selTree_wf x, selsTrees_wf xs]
end

theorem defTree_wf (df : Definition) : (defTree df).wf false false = true := by
  cases df with
  | operation op nm vars dirs sel lc =>
    simp [defTree, TNode.wf, TNode.wfList, NodeView.isDirective, NodeView.isArgument, wfList_append, optNameTrees_wf,
      wfList_map false false varDefTree varDefTree_wf vars, wfList_map false false dirTree dirTree_wf dirs, setTree_wf sel]
  | fragment nm tc dirs sel lc =>
    simp [defTree, TNode.wf, TNode.wfList, NodeView.isDirective, NodeView.isArgument, wfList_append, nameTree_wf,
      typeTree_wf, wfList_map false false dirTree dirTree_wf dirs, setTree_wf sel]
  | _ => simp [defTree, TNode.wf, TNode.wfList, NodeView.isDirective, NodeView.isArgument]

theorem docTree_wf (d : Document) : (docTree d).wf false false = true := by
  simp [docTree, TNode.wf, NodeView.isDirective, NodeView.isArgument, wfList_map false false defTree defTree_wf d.defs]

/-! ## `ctxRecs` of a document tree, without the Name / type-reference nodes, is `tiRecords` -/

theorem obs_append (a b : List TIRec) : obs (a ++ b) = obs a ++ obs b := by simp [obs]
theorem obs_nil : obs [] = [] := rfl

theorem obs_flatMap {α : Type} (f : α → List TIRec) : ∀ (l : List α), obs (l.flatMap f) = l.flatMap (fun x => obs (f x))
  | [] => rfl
  | x :: l => by simp [List.flatMap_cons, obs_append, obs_flatMap f l]

theorem obs_name (s : Schema) (st : TIState) (n : Name) : obs (ctxRecs s noSkip (nameTree n) st) = [] := by
  simp [nameTree, ctxRecs, ctxRecsList, noSkip, obs, nameOrTypeKind]

theorem obs_optName (s : Schema) (st : TIState) : ∀ (o : Option Name), obs (ctxRecsList s noSkip (optNameTrees o) st) = []
  | none => by simp [optNameTrees, ctxRecsList, obs]
  | some n => by simp [optNameTrees, ctxRecsList, obs_name]

theorem obs_type (s : Schema) : ∀ (t : TypeRef) (st : TIState), obs (ctxRecs s noSkip (typeTree t) st) = []
  | .named _ lc, st => by simp [typeTree, ctxRecs, ctxRecsList, noSkip, obs, nameOrTypeKind, ctxStep]
  | .list t lc, st => by
    have ih := obs_type s t st
    simp [typeTree, ctxRecs, ctxRecsList, noSkip, ctxStep] at ih ⊢
    simpa [obs, nameOrTypeKind] using ih
  | .nonNull t lc, st => by
    have ih := obs_type s t st
    simp [typeTree, ctxRecs, ctxRecsList, noSkip, ctxStep] at ih ⊢
    simpa [obs, nameOrTypeKind] using ih

theorem obs_optType (s : Schema) (st : TIState) : ∀ (o : Option TypeRef), obs (ctxRecsList s noSkip (optTypeTrees o) st) = []
  | none => by simp [optTypeTrees, ctxRecsList, obs]
  | some t => by simp [optTypeTrees, ctxRecsList, obs_type]

theorem obs_variable (s : Schema) (st : TIState) (lc : Loc) :
    obs (ctxRecs s noSkip (variableTree lc) st) = [⟨"Variable", lc, st⟩] := by
  simp [variableTree, ctxRecs, ctxRecsList, noSkip, obs, nameOrTypeKind, ctxStep]

/-- `obs` of a node's records: the node's own record (if observed) and `obs` of the children's -/
theorem obs_node (s : Schema) (kind : String) (loc : Loc) (nv : NodeView) (cs : List TNode) (st : TIState)
    (hk : nameOrTypeKind kind = false) :
    obs (ctxRecs s noSkip (.mk kind loc nv cs) st) =
      ⟨kind, loc, ctxStep s st nv⟩ :: obs (ctxRecsList s noSkip cs (ctxStep s st nv)) := by
  simp [ctxRecs, noSkip, obs, hk]

theorem obs_list_nil (s : Schema) (st : TIState) : obs (ctxRecsList s noSkip [] st) = [] := by
  simp [ctxRecsList, obs]

theorem obs_list_cons (s : Schema) (n : TNode) (ns : List TNode) (st : TIState) :
    obs (ctxRecsList s noSkip (n :: ns) st) = obs (ctxRecs s noSkip n st) ++ obs (ctxRecsList s noSkip ns st) := by
  simp [ctxRecsList, obs_append]

theorem obs_list_append (s : Schema) (a b : List TNode) (st : TIState) :
    obs (ctxRecsList s noSkip (a ++ b) st) = obs (ctxRecsList s noSkip a st) ++ obs (ctxRecsList s noSkip b st) := by
  simp [ctxRecsList_append, obs_append]

theorem obs_list_map {α : Type} (s : Schema) (f : α → TNode) (l : List α) (st : TIState) :
    obs (ctxRecsList s noSkip (l.map f) st) = l.flatMap (fun x => obs (ctxRecs s noSkip (f x) st)) := by
  rw [ctxRecsList_map, obs_flatMap]

mutual
theorem ctxRecs_value (s : Schema) : ∀ (v : Value) (st : TIState), obs (ctxRecs s noSkip (valueTree v) st) = valueRecs s st v
  | .list vs lc, st => by
    simp [valueTree, obs_node, nameOrTypeKind, valueRecs, ctxStep, ctxRecs_values s vs]
  | .obj fs lc, st => by
    simp [valueTree, obs_node, nameOrTypeKind, valueRecs, ctxStep, ctxRecs_objFields s fs]
  | .var _ lc, st => by simp [valueTree, obs_variable, valueRecs, valueKind, Value.loc]
  | .int .., st | .float .., st | .str .., st | .bool .., st | .enum .., st => by
    simp [valueTree, obs_node, nameOrTypeKind, obs_list_nil, valueRecs, valueKind, Value.loc, ctxStep]
theorem ctxRecs_values (s : Schema) : ∀ (vs : List Value) (st : TIState),
    obs (ctxRecsList s noSkip (valuesTrees vs) st) = valuesRecs s st vs
  | [], _ => by simp [valuesTrees, ctxRecsList, valuesRecs, obs_nil]
  | v :: vs, st => by simp [valuesTrees, obs_list_cons, valuesRecs, ctxRecs_value s v, ctxRecs_values s vs]
theorem ctxRecs_objFields (s : Schema) : ∀ (fs : List ObjField) (st : TIState),
    obs (ctxRecsList s noSkip (objFieldsTrees fs) st) = objFieldsRecs s st fs
  | [], _ => by simp [objFieldsTrees, ctxRecsList, objFieldsRecs, obs_nil]
  | .mk nm v lc :: fs, st => by
    simp [objFieldsTrees, obs_list_cons, obs_node, nameOrTypeKind, obs_name, obs_list_nil, objFieldsRecs, ctxStep,
      ctxRecs_value s v, ctxRecs_objFields s fs]
end

theorem ctxRecs_arg (s : Schema) (st : TIState) (a : Argument) : obs (ctxRecs s noSkip (argTree a) st) = argRecs s st a := by
  simp [argTree, obs_node, nameOrTypeKind, obs_list_cons, obs_name, obs_list_nil, argRecs, ctxStep, ctxRecs_value]

theorem ctxRecs_dir (s : Schema) (st : TIState) (d : Directive) : obs (ctxRecs s noSkip (dirTree d) st) = dirRecs s st d := by
  simp [dirTree, obs_node, nameOrTypeKind, obs_list_cons, obs_name, obs_list_map, dirRecs, ctxStep, ctxRecs_arg]

theorem ctxRecs_varDef (s : Schema) (st : TIState) (v : VarDef) :
    obs (ctxRecs s noSkip (varDefTree v) st) = varDefRecs s st v := by
  cases hd : v.default with
  | none => simp [varDefTree, hd, obs_node, nameOrTypeKind, obs_list_cons, obs_name, obs_optType,
      obs_list_nil, varDefRecs, ctxStep]
  | some dv => simp [varDefTree, hd, obs_node, nameOrTypeKind, obs_list_cons, obs_list_append, obs_name, obs_optType,
      obs_list_nil, varDefRecs, ctxStep, ctxRecs_value]

mutual
theorem ctxRecs_sel (s : Schema) : ∀ (x : Selection) (c : TCtx),
    obs (ctxRecs s noSkip (selTree x) (TIState.ofCtx c)) = selRecs s c x
  | .field al nm args dirs sel lc, c => by
    have h := ctxRecs_optSet s sel (c.enterField s nm.value)
    simp only [TIState.ofCtx] at h
    simp [selTree, obs_node, nameOrTypeKind, obs_list_cons, obs_list_append, obs_list_map, obs_optName, obs_name, selRecs,
      ctxStep, TIState.ofCtx, ctxRecs_arg, ctxRecs_dir, h]
  | .spread nm dirs lc, c => by
    simp [selTree, obs_node, nameOrTypeKind, obs_list_cons, obs_list_map, obs_name, selRecs, ctxStep, ctxRecs_dir]
  | .inline tc dirs ss lc, c => by
    have h := ctxRecs_set s ss (c.enterInline s tc)
    simp only [TIState.ofCtx] at h
    simp [selTree, obs_node, nameOrTypeKind, obs_list_cons, obs_list_append, obs_list_map, obs_optType, obs_list_nil,
      selRecs, ctxStep, TIState.ofCtx, ctxRecs_dir, h]
theorem ctxRecs_set (s : Schema) : ∀ (ss : SelectionSet) (c : TCtx),
    obs (ctxRecs s noSkip (setTree ss) (TIState.ofCtx c)) = setRecs s c ss
  | .mk sels lc, c => by
    have h := ctxRecs_sels s sels (c.enterSelSet s)
    simp only [TIState.ofCtx] at h
    simp [setTree, obs_node, nameOrTypeKind, setRecs, ctxStep, TIState.ofCtx, h]
theorem ctxRecs_optSet (s : Schema) : ∀ (o : Option SelectionSet) (c : TCtx),
    obs (ctxRecsList s noSkip (optSetTrees o) (TIState.ofCtx c)) = optSetRecs s c o
  | none, _ => by simp [optSetTrees, ctxRecsList, optSetRecs, obs_nil]
  | some ss, c => by simp [optSetTrees, obs_list_cons, obs_list_nil, optSetRecs, ctxRecs_set s ss c]
theorem ctxRecs_sels (s : Schema) : ∀ (xs : List Selection) (c : TCtx),
    obs (ctxRecsList s noSkip (selsTrees xs) (TIState.ofCtx c)) = selsRecs s c xs
  | [], _ => by simp [selsTrees, ctxRecsList, selsRecs, obs_nil]
  | x :: xs, c => by simp [selsTrees, obs_list_cons, selsRecs, ctxRecs_sel s x c, ctxRecs_sels s xs c]
end

theorem ctxRecs_def (s : Schema) (df : Definition) (h : isExecDef df = true) :
    obs (ctxRecs s noSkip (defTree df) TIState.empty) = defRecs s df := by
  cases df with
  | operation op nm vars dirs sel lc =>
    have hs := ctxRecs_set s sel (TCtx.enterOp s op)
    simp only [TIState.ofCtx, TCtx.enterOp] at hs
    simp [defTree, obs_node, nameOrTypeKind, obs_list_cons, obs_list_append, obs_list_map, obs_optName, obs_list_nil,
      defRecs, ctxStep, TIState.empty, TIState.ofCtx, TCtx.enterOp, ctxRecs_varDef, ctxRecs_dir, hs]
  | fragment nm tc dirs sel lc =>
    have hs := ctxRecs_set s sel (TCtx.enterFragment s tc)
    simp only [TIState.ofCtx, TCtx.enterFragment] at hs
    simp [defTree, obs_node, nameOrTypeKind, obs_list_cons, obs_list_append, obs_list_map, obs_name, obs_type, obs_list_nil, defRecs, ctxStep, TIState.empty, TIState.ofCtx, TCtx.enterFragment, ctxRecs_dir, hs]
  | _ => simp [isExecDef] at h

theorem flatMap_congr' {α β : Type} (f g : α → List β) : ∀ (l : List α), (∀ x ∈ l, f x = g x) → l.flatMap f = l.flatMap g
  | [], _ => rfl
  | x :: l, h => by
    simp only [List.flatMap_cons]
    rw [h x (by simp), flatMap_congr' f g l (fun y hy => h y (by simp [hy]))]

theorem ctxRecs_docTree (s : Schema) (d : Document) (h : isExecDoc d = true) :
    obs (ctxRecs s noSkip (docTree d) TIState.empty) = ⟨"Document", d.loc, TIState.empty⟩ :: tiRecords s d := by
  have hd : ∀ df ∈ d.defs, obs (ctxRecs s noSkip (defTree df) TIState.empty) = defRecs s df := by
    intro df hm
    apply ctxRecs_def
    simp only [isExecDoc, List.all_eq_true] at h
    exact h df hm
  rw [docTree, obs_node _ _ _ _ _ _ (by simp [nameOrTypeKind]), obs_list_map]
  simp only [ctxStep, tiRecords]
  congr 1
  exact flatMap_congr' _ _ _ hd

/-! ## the decidable schema check implies the premise -/

theorem find?_mem' {α : Type} {p : α → Bool} {l : List α} {a : α} (h : l.find? p = some a) : a ∈ l :=
  List.mem_of_find?_eq_some h

theorem argsUnique_of_check (s : Schema) (h : argsUniqueB s = true) : ArgsUnique s := by
  simp only [argsUniqueB, Bool.and_eq_true, List.all_eq_true, decide_eq_true_eq] at h
  obtain ⟨⟨hT, hM⟩, hD⟩ := h
  refine ⟨?_, ?_⟩
  · intro p f fd hfd
    unfold Schema.fieldDef? at hfd
    split at hfd
    · cases hfd; exact hM _ (by simp)
    · split at hfd
      · cases hfd; exact hM _ (by simp)
      · split at hfd
        · cases hfd; exact hM _ (by simp)
        · have hm := find?_mem' hfd
          unfold Schema.fieldsOf at hm
          split at hm
          · rename_i nm ifs fs b dsc hl
            have : TypeDef.object nm ifs fs b dsc ∈ s.types ++ introspectionTypes := by
              unfold Schema.lookup at hl
              split at hl
              · rename_i td hf
                split at hl
                · cases hl
                · cases hl; exact List.mem_append_left _ (find?_mem' hf)
              · exact List.mem_append_right _ (find?_mem' hl)
            exact hT _ this fd (by simpa [fieldsOfDef] using hm)
          · rename_i nm fs b dsc hl
            have : TypeDef.interface nm fs b dsc ∈ s.types ++ introspectionTypes := by
              unfold Schema.lookup at hl
              split at hl
              · rename_i td hf
                split at hl
                · cases hl
                · cases hl; exact List.mem_append_left _ (find?_mem' hf)
              · exact List.mem_append_right _ (find?_mem' hl)
            exact hT _ this fd (by simpa [fieldsOfDef] using hm)
          · simp at hm
  · intro n d hd
    exact hD d (find?_mem' hd)

end GqlModel.TypeInfoStacks
