import GqlModel.Invocations
import GqlProofs.ExecErr
import GqlProofs.ExecLog
import GqlProofs.ExecRoot
/-! C20: every selected field of every object value that made it into the response was resolved (`ResP`, by
simultaneous induction on fuel): if the value completed at a position holds an object at the place of a legitimate
position below it, the log has an entry for each selected field of that position. -/
namespace GqlModel.Exec
open GqlModel.Coerce

/-! ## schema kinds are exclusive -/

theorem isLeaf_not_object {s : Schema} {n : String} (h : s.isLeaf n = true) : s.isObject n = false := by
  simp only [Schema.isLeaf, Schema.isScalar, Schema.isEnum, Schema.isObject] at h ⊢
  cases hf : s.find? n with
  | none => rfl
  | some td => cases td <;> simp [hf] at h ⊢

theorem isLeaf_not_abstract {s : Schema} {n : String} (h : s.isLeaf n = true) : s.isAbstract n = false := by
  simp only [Schema.isLeaf, Schema.isScalar, Schema.isEnum, Schema.isAbstract, Schema.isInterface, Schema.isUnion] at h ⊢
  cases hf : s.find? n with
  | none => rfl
  | some td => cases td <;> simp [hf] at h ⊢

theorem isAbstract_not_object {s : Schema} {n : String} (h : s.isAbstract n = true) : s.isObject n = false := by
  simp only [Schema.isAbstract, Schema.isInterface, Schema.isUnion, Schema.isObject] at h ⊢
  cases hf : s.find? n with
  | none => rfl
  | some td => cases td <;> simp [hf] at h ⊢

/-! ## paths of positions -/

theorem ObjAt.prefix {c : Ctx} {t : GType} {p : Path} {v : GoVal} {ot : String} {o : GoVal} {p' : Path}
    (h : ObjAt c t p v ot o p') : p <+: p' := by
  induction h with
  | thunk _ ih => exact ih
  | nonNull _ ih => exact ih
  | item _ _ ih => exact List.IsPrefix.trans (List.prefix_append _ _) ih
  | object => exact List.prefix_refl _
  | abstract => exact List.prefix_refl _

theorem PosFrom.prefix {c : Ctx} {rt0 : String} {src0 : GoVal} {path0 : Path} {G0 : Groups}
    {rt : String} {src : GoVal} {path : Path} {G : Groups}
    (h : PosFrom c rt0 src0 path0 G0 rt src path G) : path0 <+: path := by
  induction h with
  | base => exact List.prefix_refl _
  | child _ _ _ ho ih =>
    exact List.IsPrefix.trans ih (List.IsPrefix.trans (List.prefix_append _ _) ho.prefix)

/-- a position below `B` is `B` or lies below a child of `B` -/
theorem PosFrom.head_cases {c : Ctx} {rt0 : String} {src0 : GoVal} {path0 : Path} {G0 : Groups}
    {rt : String} {src : GoVal} {path : Path} {G : Groups}
    (h : PosFrom c rt0 src0 path0 G0 rt src path G) :
    (rt = rt0 ∧ src = src0 ∧ path = path0 ∧ G = G0) ∨
    ∃ k nodes node fd v ot o p', Selected c rt0 G0 k nodes node fd ∧ c.world.outcome src0 fd.name = .value v ∧
      ObjAt c fd.type (path0 ++ [.key k]) v ot o p' ∧
      PosFrom c ot o p' (collectMerged c ot nodes) rt src path G := by
  induction h with
  | base => exact Or.inl ⟨rfl, rfl, rfl, rfl⟩
  | child hq hsel hout hobj ih =>
    right
    rcases ih with ⟨rfl, rfl, rfl, rfl⟩ | ⟨k, nodes, node, fd, v, ot, o, p', h1, h2, h3, h4⟩
    · exact ⟨_, _, _, _, _, _, _, _, hsel, hout, hobj, .base⟩
    · exact ⟨k, nodes, node, fd, v, ot, o, p', h1, h2, h3, .child h4 hsel hout hobj⟩

/-! ## inversions -/

theorem ObjAt.of_thunk {c : Ctx} {t : GType} {p : Path} {v' : GoVal} {ot : String} {o : GoVal} {p' : Path}
    (h : ObjAt c t p (.thunk (.ok v')) ot o p') : ObjAt c t p v' ot o p' := by
  generalize hw : GoVal.thunk (.ok v') = w at h
  induction h with
  | thunk h _ => cases hw; exact h
  | nonNull _ ih => exact .nonNull (ih hw)
  | item => cases hw
  | object hf => subst hw; simp [GoVal.isFunc] at hf
  | abstract hf => subst hw; simp [GoVal.isFunc] at hf

theorem ObjAt.of_nonNull {c : Ctx} {t : GType} {p : Path} {v : GoVal} {ot : String} {o : GoVal} {p' : Path}
    (hf : v.isFunc = false) (h : ObjAt c (.nonNull t) p v ot o p') : ObjAt c t p v ot o p' := by
  cases h with
  | thunk => simp [GoVal.isFunc] at hf
  | nonNull h => exact h

theorem ValAt.null_obj {rel : Path} {fs : List (String × JVal)} (h : ValAt .null rel (.obj fs)) : False := by
  cases h

theorem ValAt.obj_cons {fs : List (String × JVal)} {k : String} {rel : Path} {y : JVal}
    (h : ValAt (.obj fs) (.key k :: rel) y) : ∃ x, (k, x) ∈ fs ∧ ValAt x rel y := by
  cases h with
  | key hm hv => exact ⟨_, hm, hv⟩

theorem ValAt.list_cons {js : List JVal} {i : Nat} {rel : Path} {y : JVal}
    (h : ValAt (.list js) (.idx i :: rel) y) : ∃ x, js[i]? = some x ∧ ValAt x rel y := by
  cases h with
  | idx hm hv => exact ⟨_, hm, hv⟩

theorem mem_unique_of_keys_nodup {fs : List (String × JVal)} (hn : (fs.map (·.1)).Nodup) {k : String} {x x' : JVal}
    (h : (k, x) ∈ fs) (h' : (k, x') ∈ fs) : x = x' := by
  induction fs with
  | nil => cases h
  | cons a fs ih =>
    rw [List.map_cons, List.nodup_cons] at hn
    rcases List.mem_cons.mp h with h | h <;> rcases List.mem_cons.mp h' with h' | h'
    · rw [← h] at h'; exact (Prod.mk.inj h').2.symm
    · exfalso; apply hn.1; rw [← h]; exact List.mem_map.mpr ⟨_, h', rfl⟩
    · exfalso; apply hn.1; rw [← h']; exact List.mem_map.mpr ⟨_, h, rfl⟩
    · exact ih hn.2 h h'

/-- relative paths: `path ++ rel` extends `path ++ [s]` only when `rel` starts with `s` -/
theorem rel_cons_of_prefix {path rel q : Path} {s : PathSeg} (hq : q = path ++ rel) (hp : (path ++ [s]) <+: q) :
    ∃ rel', rel = s :: rel' := by
  subst hq
  obtain ⟨t, ht⟩ := hp
  simp only [List.append_assoc, List.append_cancel_left_eq, List.singleton_append] at ht
  exact ⟨t, ht.symm⟩

/-! ## the invariant -/

/-- all selected fields of the position have a log entry -/
def Done (c : Ctx) (log : List LogEntry) (rt : String) (path : Path) (groups : Groups) : Prop :=
  ∀ k nodes node fd, Selected c rt groups k nodes node fd → ∃ e, e ∈ log ∧ e.path = path ++ [.key k]

/-- wherever the completed value `j` (for resolver value `v`, type `t`, at `p`) holds an object at the place of a
position at or below an object reached from `v`, that position is done -/
def Hered (c : Ctx) (t : GType) (p : Path) (v : GoVal) (nodes : List FieldNode) (j : JVal) (log : List LogEntry) : Prop :=
  ∀ ot o p', ObjAt c t p v ot o p' →
    ∀ rt' src' path' G', PosFrom c ot o p' (collectMerged c ot nodes) rt' src' path' G' →
      ∀ rel fs', path' = p ++ rel → ValAt j rel (.obj fs') → Done c log rt' path' G'

theorem Done.mono {c : Ctx} {log log' : List LogEntry} {rt : String} {path : Path} {groups : Groups}
    (hs : log <:+ log') (h : Done c log rt path groups) : Done c log' rt path groups := by
  intro k nodes node fd hsel
  obtain ⟨e, he, hp⟩ := h k nodes node fd hsel
  exact ⟨e, hs.subset he, hp⟩

theorem Hered.mono {c : Ctx} {t : GType} {p : Path} {v : GoVal} {nodes : List FieldNode} {j : JVal}
    {log log' : List LogEntry} (hs : log <:+ log') (h : Hered c t p v nodes j log) : Hered c t p v nodes j log' :=
  fun ot o p' ho rt' src' path' G' hpos rel fs' hrel hval => (h ot o p' ho rt' src' path' G' hpos rel fs' hrel hval).mono hs

theorem Hered.null {c : Ctx} {t : GType} {p : Path} {v : GoVal} {nodes : List FieldNode} {log : List LogEntry} :
    Hered c t p v nodes .null log :=
  fun _ _ _ _ _ _ _ _ _ _ _ _ hval => (ValAt.null_obj hval).elim

/-- what a selection set that succeeded with fields `fs` guarantees for each of its selected fields -/
def GroupsDone (c : Ctx) (rt : String) (src : GoVal) (path : Path) (groups : Groups) (fs : List (String × JVal))
    (log : List LogEntry) : Prop :=
  ∀ k nodes node fd, Selected c rt groups k nodes node fd →
    (∃ e, e ∈ log ∧ e.path = path ++ [.key k]) ∧
    ∀ v, c.world.outcome src fd.name = .value v →
      ∃ x, (k, x) ∈ fs ∧ Hered c fd.type (path ++ [.key k]) v nodes x log

/-- from the fields to the whole object: every position at or below the object's own position whose place in the
object holds an object is done -/
theorem GroupsDone.hered {c : Ctx} {rt : String} {src : GoVal} {path : Path} {groups : Groups}
    {fs : List (String × JVal)} {log : List LogEntry} (hg : GroupsDone c rt src path groups fs log)
    (hn : (fs.map (·.1)).Nodup)
    {rt' : String} {src' : GoVal} {path' : Path} {G' : Groups}
    (hpos : PosFrom c rt src path groups rt' src' path' G') {rel : Path} {fs' : List (String × JVal)}
    (hrel : path' = path ++ rel) (hval : ValAt (.obj fs) rel (.obj fs')) : Done c log rt' path' G' := by
  rcases hpos.head_cases with ⟨rfl, rfl, rfl, rfl⟩ | ⟨k, nodes, node, fd, v, ot, o, p', hsel, hout, hobj, hbelow⟩
  · intro k nodes node fd hsel
    exact (hg k nodes node fd hsel).1
  · obtain ⟨x, hx, hh⟩ := (hg k nodes node fd hsel).2 v hout
    have hpre : (path ++ [.key k]) <+: path' := List.IsPrefix.trans hobj.prefix hbelow.prefix
    obtain ⟨rel', rfl⟩ := rel_cons_of_prefix hrel hpre
    obtain ⟨x', hx', hval'⟩ := hval.obj_cons
    have := mem_unique_of_keys_nodup hn hx hx'
    subst this
    exact hh ot o p' hobj rt' src' path' G' hbelow rel' fs' (by rw [hrel]; simp) hval'

structure ResP (c : Ctx) (fuel : Nat) : Prop where
  groups : ∀ dfr rt src path groups acc st fs st',
    execGroups c fuel dfr rt src path groups acc st = (.ok fs, st') → GroupsDone c rt src path groups fs st'.log
  field : ∀ dfr rt src p fd nodes st j st',
    execField c fuel dfr rt src p fd nodes st = (.ok j, st') → fd.name ≠ "__typename" →
    (∃ e, e ∈ st'.log ∧ e.path = p) ∧ ∀ v, c.world.outcome src fd.name = .value v → Hered c fd.type p v nodes j st'.log
  complete : ∀ dfr t rt fname nodes p v st j st',
    complete c fuel dfr t rt fname nodes p v st = (.ok j, st') → Hered c t p v nodes j st'.log
  items : ∀ dfr item rt fname nodes p xs i acc st js st',
    completeItems c fuel dfr item rt fname nodes p xs i acc st = (.ok js, st') → i = acc.length →
    ∀ m x, xs[m]? = some x → ∃ y, js[i + m]? = some y ∧ Hered c item (p ++ [.idx (i + m)]) x nodes y st'.log

theorem resP_zero (c : Ctx) : ResP c 0 := by
  refine ⟨?_, ?_, ?_, ?_⟩
  · intro dfr rt src path groups acc st fs st' h; simp [execGroups] at h
  · intro dfr rt src p fd nodes st j st' h; simp [execField] at h
  · intro dfr t rt fname nodes p v st j st' h; simp [complete] at h
  · intro dfr item rt fname nodes p xs i acc st js st' h; simp [completeItems] at h

theorem resP_groups (c : Ctx) (fuel : Nat) (ih : ResP c fuel) :
    ∀ dfr rt src path groups acc st fs st',
    execGroups c (fuel + 1) dfr rt src path groups acc st = (.ok fs, st') → GroupsDone c rt src path groups fs st'.log := by
  intro dfr rt src path groups acc st fs st' h
  cases groups with
  | nil => intro k nodes node fd hsel; cases hsel.1
  | cons g rest =>
    obtain ⟨key, nodes0⟩ := g
    simp only [execGroups] at h
    -- a selected group of `rest` is handled by the recursive call
    have hrest : ∀ acc1 st1, execGroups c fuel dfr rt src path rest acc1 st1 = (.ok fs, st') →
        ∀ k nodes node fd, Selected c rt rest k nodes node fd →
          (∃ e, e ∈ st'.log ∧ e.path = path ++ [.key k]) ∧
          ∀ v, c.world.outcome src fd.name = .value v →
            ∃ x, (k, x) ∈ fs ∧ Hered c fd.type (path ++ [.key k]) v nodes x st'.log :=
      fun acc1 st1 h1 => ih.groups _ _ _ _ _ _ _ _ _ h1
    split at h
    · rename_i hh
      intro k nodes node fd hsel
      rcases List.mem_cons.mp hsel.1 with hm | hm
      · cases hm; have := hsel.2.1; rw [hh] at this; cases this
      · exact hrest _ _ h k nodes node fd ⟨hm, hsel.2⟩
    · rename_i node0 hh
      split at h
      · rename_i hfd
        intro k nodes node fd hsel
        rcases List.mem_cons.mp hsel.1 with hm | hm
        · cases hm
          have : node = node0 := by have := hsel.2.1; rw [hh] at this; cases this; rfl
          subst this
          have := hsel.2.2.1; rw [hfd] at this; cases this
        · exact hrest _ _ h k nodes node fd ⟨hm, hsel.2⟩
      · rename_i fd0 hfd
        rcases hf : execField c fuel dfr rt src (path ++ [.key key]) fd0 nodes0 st with ⟨r1, st1⟩
        rw [hf] at h
        cases r1 with
        | ok v0 =>
          simp only at h
          intro k nodes node fd hsel
          rcases List.mem_cons.mp hsel.1 with hm | hm
          · cases hm
            have hnode : node = node0 := by have := hsel.2.1; rw [hh] at this; cases this; rfl
            subst hnode
            have hfd' : fd = fd0 := by have := hsel.2.2.1; rw [hfd] at this; cases this; rfl
            subst hfd'
            obtain ⟨hent, hhered⟩ := ih.field _ _ _ _ _ _ _ _ _ hf hsel.2.2.2
            obtain ⟨new, hl, -⟩ := (logP c fuel).groups _ _ _ _ _ _ _ _ _ h
            have hsuf : st1.log <:+ st'.log := ⟨new, hl.symm⟩
            obtain ⟨_, -, -, hok⟩ := (errP c fuel).groups _ _ _ _ _ _ _ _ _ h
            obtain ⟨⟨more, hmore⟩, -⟩ := hok fs rfl
            refine ⟨?_, ?_⟩
            · obtain ⟨e, he, hp⟩ := hent
              exact ⟨e, hsuf.subset he, hp⟩
            · intro v hv
              exact ⟨v0, by rw [hmore]; simp, (hhered v hv).mono hsuf⟩
          · exact hrest _ _ h k nodes node fd ⟨hm, hsel.2⟩
        | fail => simp at h
        | fuelOut => simp at h

theorem resP_field (c : Ctx) (fuel : Nat) (ih : ResP c fuel) :
    ∀ dfr rt src p fd nodes st j st',
    execField c (fuel + 1) dfr rt src p fd nodes st = (.ok j, st') → fd.name ≠ "__typename" →
    (∃ e, e ∈ st'.log ∧ e.path = p) ∧ ∀ v, c.world.outcome src fd.name = .value v → Hered c fd.type p v nodes j st'.log := by
  intro dfr rt src p fd nodes st j st' h hn
  have hn' : (fd.name == "__typename") = false := by simpa using hn
  simp only [execField, hn', Bool.false_eq_true, if_false] at h
  split at h
  · rename_i hfail
    split at h
    · simp at h
    · simp only [Prod.mk.injEq, Res.ok.injEq] at h
      refine ⟨⟨_, by rw [← h.2]; exact List.mem_cons_self, rfl⟩, ?_⟩
      intro v hv; rw [hfail] at hv; cases hv
  · rename_i v0 hv0
    generalize hst0 : ({ st with log := _ :: st.log } : St) = st0 at h
    obtain ⟨ent, hentp, h0⟩ : ∃ ent : LogEntry, ent.path = p ∧ st0.log = ent :: st.log := by
      rw [← hst0]; exact ⟨_, rfl, rfl⟩
    rcases hc : complete c fuel dfr fd.type rt fd.name nodes p v0 st0 with ⟨r1, st1⟩
    rw [hc] at h
    obtain ⟨new, hl, -⟩ := (logP c fuel).complete _ _ _ _ _ _ _ _ _ _ hc
    have hent : ∀ (st2 : St), st2.log = st1.log → ∃ e, e ∈ st2.log ∧ e.path = p := by
      intro st2 h2
      exact ⟨ent, by rw [h2, hl, h0]; simp, hentp⟩
    cases r1 with
    | ok j1 =>
      simp only [Prod.mk.injEq, Res.ok.injEq] at h
      obtain ⟨rfl, rfl⟩ := h
      refine ⟨hent _ rfl, ?_⟩
      intro v hv
      rw [hv0] at hv; cases hv
      exact ih.complete _ _ _ _ _ _ _ _ _ _ hc
    | fail =>
      simp only at h
      split at h
      · simp at h
      · simp only [Prod.mk.injEq, Res.ok.injEq] at h
        obtain ⟨rfl, rfl⟩ := h
        exact ⟨hent _ rfl, fun v _ => Hered.null⟩
    | fuelOut => simp at h

theorem resP_items (c : Ctx) (fuel : Nat) (ih : ResP c fuel) :
    ∀ dfr item rt fname nodes p xs i acc st js st',
    completeItems c (fuel + 1) dfr item rt fname nodes p xs i acc st = (.ok js, st') → i = acc.length →
    ∀ m x, xs[m]? = some x → ∃ y, js[i + m]? = some y ∧ Hered c item (p ++ [.idx (i + m)]) x nodes y st'.log := by
  intro dfr item rt fname nodes p xs i acc st js st' h hi m x hm
  cases xs with
  | nil => simp at hm
  | cons x0 xs =>
    simp only [completeItems] at h
    rcases hc : complete c fuel dfr item rt fname nodes (p ++ [.idx i]) x0 st with ⟨r1, st1⟩
    rw [hc] at h
    -- continuing with the stored value `y0`
    have hgo : ∀ (y0 : JVal), Hered c item (p ++ [.idx i]) x0 nodes y0 st1.log →
        completeItems c fuel dfr item rt fname nodes p xs (i + 1) (acc ++ [y0]) st1 = (.ok js, st') →
        ∃ y, js[i + m]? = some y ∧ Hered c item (p ++ [.idx (i + m)]) x nodes y st'.log := by
      intro y0 hy0 h
      obtain ⟨new, hl, -⟩ := (logP c fuel).items _ _ _ _ _ _ _ _ _ _ _ _ h
      have hsuf : st1.log <:+ st'.log := ⟨new, hl.symm⟩
      obtain ⟨_, -, -, hok⟩ := (errP c fuel).items _ _ _ _ _ _ _ _ _ _ _ _ h
      obtain ⟨⟨more, hmore⟩, -⟩ := hok js rfl
      cases m with
      | zero =>
        simp only [List.getElem?_cons_zero, Option.some.injEq] at hm
        subst hm
        refine ⟨y0, ?_, hy0.mono hsuf⟩
        rw [hmore, hi]; simp
      | succ m =>
        simp only [List.getElem?_cons_succ] at hm
        obtain ⟨y, hy, hh⟩ := ih.items _ _ _ _ _ _ _ _ _ _ _ _ h (by simp [hi]) m x hm
        have he : i + 1 + m = i + (m + 1) := by omega
        rw [he] at hy hh
        exact ⟨y, hy, hh⟩
    cases r1 with
    | ok j0 => exact hgo j0 (ih.complete _ _ _ _ _ _ _ _ _ _ hc) h
    | fail =>
      simp only at h
      split at h
      · simp at h
      · exact hgo .null Hered.null h
    | fuelOut => simp at h

theorem resP_complete (c : Ctx) (fuel : Nat) (ih : ResP c fuel) :
    ∀ dfr t rt fname nodes p v st j st',
    complete c (fuel + 1) dfr t rt fname nodes p v st = (.ok j, st') → Hered c t p v nodes j st'.log := by
  intro dfr t rt fname nodes p v st j st' h
  -- an object produced by a selection set for the runtime type `ot`: only positions at or below (ot, v, p) matter
  have hobject : ∀ (n ot : String) (fs : List (String × JVal)) (stx : St),
      execGroups c fuel dfr ot v p (collectMerged c ot nodes) [] st = (.ok fs, stx) →
      (∀ ot' o p', ObjAt c (.named n) p v ot' o p' → ot' = ot ∧ o = v ∧ p' = p) →
      Hered c (.named n) p v nodes (.obj fs) stx.log := by
    intro n ot fs stx hg hinv ot' o p' ho rt' src' path' G' hpos rel fs' hrel hval
    obtain ⟨rfl, rfl, rfl⟩ := hinv ot' o p' ho
    have hkeys : (fs.map (·.1)).Nodup := by
      rw [execGroups_ok_keys c fuel _ _ _ _ _ _ _ _ _ hg]
      simp only [List.map_nil, List.nil_append]
      exact List.Nodup.sublist (List.Sublist.map _ List.filter_sublist) (collectMerged_keys_nodup c ot' nodes)
    exact (ih.groups _ _ _ _ _ _ _ _ _ hg).hered hkeys hpos hrel hval
  simp only [complete] at h
  split at h
  · -- thunk
    split at h
    · simp at h
    · rename_i v'
      rcases hc : complete c fuel true t rt fname nodes p v' st with ⟨r1, st1⟩
      rw [hc] at h
      cases r1 with
      | ok j1 =>
        simp only [Prod.mk.injEq, Res.ok.injEq] at h
        obtain ⟨rfl, rfl⟩ := h
        intro ot o p' ho
        exact ih.complete _ _ _ _ _ _ _ _ _ _ hc ot o p' ho.of_thunk
      | fail => simp at h
      | fuelOut => simp at h
  · simp at h
  · rename_i hnt hnb
    have hfun : v.isFunc = false := by
      cases v <;> first | rfl | (exfalso; first | exact hnt _ rfl | exact hnb rfl)
    split at h
    · -- nonNull
      rename_i inner
      rcases hc : complete c fuel dfr inner rt fname nodes p v st with ⟨r1, st1⟩
      rw [hc] at h
      split at h
      · simp at h
      · simp only [Prod.mk.injEq] at h
        obtain ⟨rfl, rfl⟩ := h
        intro ot o p' ho
        exact ih.complete _ _ _ _ _ _ _ _ _ _ hc ot o p' (ho.of_nonNull hfun)
    · -- list
      rename_i item
      split at h
      · simp only [Prod.mk.injEq, Res.ok.injEq] at h
        rw [← h.1]; exact Hered.null
      · split at h
        · rename_i xs _
          rcases hi : completeItems c fuel dfr item rt fname nodes p xs 0 [] st with ⟨r1, st1⟩
          rw [hi] at h
          cases r1 with
          | ok js =>
            simp only [Prod.mk.injEq, Res.ok.injEq] at h
            obtain ⟨rfl, rfl⟩ := h
            intro ot o p' ho rt' src' path' G' hpos rel fs' hrel hval
            cases ho with
            | item hx hox =>
              rename_i i x
              obtain ⟨y, hy, hh⟩ := ih.items _ _ _ _ _ _ _ _ _ _ _ _ hi rfl i x hx
              simp only [Nat.zero_add] at hy hh
              have hpre : (p ++ [.idx i]) <+: path' := List.IsPrefix.trans hox.prefix hpos.prefix
              obtain ⟨rel', rfl⟩ := rel_cons_of_prefix hrel hpre
              obtain ⟨y', hy', hval'⟩ := hval.list_cons
              rw [hy] at hy'; cases hy'
              exact hh ot o p' hox rt' src' path' G' hpos rel' fs' (by rw [hrel]; simp) hval'
          | fail => simp at h
          | fuelOut => simp at h
        · simp at h
    · -- named
      rename_i n
      split at h
      · simp only [Prod.mk.injEq, Res.ok.injEq] at h
        rw [← h.1]; exact Hered.null
      · split at h
        · rename_i hleaf
          -- a leaf type has no object positions
          intro ot o p' ho
          cases ho with
          | thunk => simp [GoVal.isFunc] at hfun
          | object _ _ hobj => rw [isLeaf_not_object hleaf] at hobj; cases hobj
          | abstract _ _ habs => rw [isLeaf_not_abstract hleaf] at habs; cases habs
        · split at h
          · rename_i habs
            split at h
            · simp at h
            · rename_i ot hot
              split at h
              · simp at h
              · rcases hg : execGroups c fuel dfr ot v p (collectMerged c ot nodes) [] st with ⟨r1, st1⟩
                rw [hg] at h
                cases r1 with
                | ok fs =>
                  simp only [Prod.mk.injEq, Res.ok.injEq] at h
                  obtain ⟨rfl, rfl⟩ := h
                  refine hobject n ot fs _ hg ?_
                  intro ot' o p' ho
                  cases ho with
                  | thunk => simp [GoVal.isFunc] at hfun
                  | object _ _ hobj => rw [isAbstract_not_object habs] at hobj; cases hobj
                  | abstract _ _ _ hrt => rw [hot] at hrt; cases hrt; exact ⟨rfl, rfl, rfl⟩
                | fail => simp at h
                | fuelOut => simp at h
          · rename_i hnabs
            split at h
            · split at h
              · simp at h
              · rcases hg : execGroups c fuel dfr n v p (collectMerged c n nodes) [] st with ⟨r1, st1⟩
                rw [hg] at h
                cases r1 with
                | ok fs =>
                  simp only [Prod.mk.injEq, Res.ok.injEq] at h
                  obtain ⟨rfl, rfl⟩ := h
                  refine hobject n n fs _ hg ?_
                  intro ot' o p' ho
                  cases ho with
                  | thunk => simp [GoVal.isFunc] at hfun
                  | object => exact ⟨rfl, rfl, rfl⟩
                  | abstract _ _ habs => exact absurd habs hnabs
                | fail => simp at h
                | fuelOut => simp at h
            · simp at h

theorem resP (c : Ctx) : ∀ fuel, ResP c fuel
  | 0 => resP_zero c
  | fuel + 1 =>
    have ih := resP c fuel
    ⟨resP_groups c fuel ih, resP_field c fuel ih, resP_complete c fuel ih, resP_items c fuel ih⟩

end GqlModel.Exec
