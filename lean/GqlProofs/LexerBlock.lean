import GqlProofs.LexerString
/-! M = S, part 4: `readBlockString` (lexer.go:315-370) = `Spec.blockBody`, and
`blockStringValue` (lexer.go:381-425) = the spec's `BlockStringValue()`. -/
namespace GqlModel.Lexer
open GqlModel.Utf8 GqlModel.Lexer.Spec

theorem blockBody_cons (c : UInt8) (r : Bytes) : blockBody (c :: r) =
    if c = 34 ∧ r.head? = some 34 ∧ (r.drop 1).head? = some 34 then .ok (3, [])
    else if c.toNat < 32 ∧ c ≠ 9 ∧ c ≠ 10 ∧ c ≠ 13 then .error (0, .invalidCharInString)
    else if c = 92 ∧ r.head? = some 34 ∧ (r.drop 1).head? = some 34 ∧ (r.drop 2).head? = some 34 then
      adv 4 [34, 34, 34] (blockBody (r.drop 3))
    else adv 1 [c] (blockBody r) := by
  match r with
  | [] => simp [blockBody]
  | [q1] => simp [blockBody]
  | [q1, q2] => simp [blockBody]
  | q1 :: q2 :: q3 :: r3 => simp [blockBody]

/-- "the rune at `l` is a quote" -/
theorem quoteAt (l : Bytes) : (runeAt l).1 = 34 ↔ l.head? = some 34 := by
  match l with
  | [] => simp [runeAt]
  | c :: r =>
    have hc := c.toNat_lt
    rw [code_eq c r 34 (by omega)]
    simp only [List.head?_cons, Option.some.injEq]
    bnorm; omega

theorem blockBody_high_cons (c : UInt8) (r : Bytes) (h : 128 ≤ c.toNat) : blockBody (c :: r) = adv 1 [c] (blockBody r) := by
  rw [blockBody_cons]
  have h1 : ¬ c = 34 := by bnorm; omega
  have h3 : ¬ (c.toNat < 32 ∧ c ≠ 9 ∧ c ≠ 10 ∧ c ≠ 13) := by omega
  have h4 : ¬ c = 92 := by bnorm; omega
  simp [h1, h3, h4]

theorem blockBody_high : ∀ (hi tail : Bytes), (∀ b ∈ hi, 128 ≤ b.toNat) →
    blockBody (hi ++ tail) = adv hi.length hi (blockBody tail) := by
  intro hi
  induction hi with
  | nil => intro tail _; match blockBody tail with
    | .ok (len, v) => simp
    | .error (o, e) => simp
  | cons c hi ih =>
    intro tail hall
    rw [List.cons_append, blockBody_high_cons c _ (hall c (by simp)), ih tail (fun b hb => hall b (by simp [hb])), adv_adv]
    simp

theorem readBlockLoop_spec : ∀ (f : Nat) (rest : Bytes) (p rp : Nat), rest.length < f →
    match blockBody rest with
    | .ok (len, raw) => readBlockLoop f rest p rp = .ok (p + len, raw)
    | .error (o, k) => ∃ q, readBlockLoop f rest p rp = .error ⟨q, k⟩ ∧ (hasHigh (rest.take o) = false → q = rp + o) := by
  intro f
  induction f with
  | zero => intro rest p rp h; omega
  | succ f ih =>
    intro rest p rp hlen
    match rest with
    | [] => simp [blockBody, readBlockLoop]
    | c :: r =>
      have hc := c.toNat_lt
      simp only [List.length_cons] at hlen
      rw [blockBody_cons]
      simp only [readBlockLoop, reduceCtorEq, if_false, List.drop_succ_cons, List.drop_zero, ne_eq]
      simp (disch := omega) only [code_eq, code_lt]
      simp only [quoteAt]
      by_cases hA : c = 34 ∧ r.head? = some 34 ∧ (r.drop 1).head? = some 34
      · have g : (c.toNat : Int) = 34 ∧ r.head? = some 34 ∧ (r.drop 1).head? = some 34 := by
          refine ⟨?_, hA.2⟩; have := hA.1; bnorm at this; omega
        rw [if_pos g, if_pos hA]
      have gA : ¬ ((c.toNat : Int) = 34 ∧ r.head? = some 34 ∧ (r.drop 1).head? = some 34) := by
        intro g; apply hA; refine ⟨?_, g.2⟩; have := g.1; bnorm; omega
      rw [if_neg gA, if_neg hA]
      by_cases hB : c.toNat < 32 ∧ c ≠ 9 ∧ c ≠ 10 ∧ c ≠ 13
      · have g : ((c.toNat : Int) < 32 ∧ ¬ (c.toNat : Int) = 9 ∧ ¬ (c.toNat : Int) = 10 ∧ ¬ (c.toNat : Int) = 13) := by
          bnorm at hB; omega
        rw [if_pos g, if_pos hB]
        exact ⟨rp, rfl, fun _ => rfl⟩
      have gB : ¬ ((c.toNat : Int) < 32 ∧ ¬ (c.toNat : Int) = 9 ∧ ¬ (c.toNat : Int) = 10 ∧ ¬ (c.toNat : Int) = 13) := by
        bnorm at hB; omega
      rw [if_neg gB, if_neg hB]
      by_cases hC : c = 92 ∧ r.head? = some 34 ∧ (r.drop 1).head? = some 34 ∧ (r.drop 2).head? = some 34
      · have g : (c.toNat : Int) = 92 ∧ r.head? = some 34 ∧ (r.drop 1).head? = some 34 ∧ (r.drop 2).head? = some 34 := by
          refine ⟨?_, hC.2⟩; have := hC.1; bnorm at this; omega
        rw [if_pos g, if_pos hC]
        have := ih (r.drop 3) (p + 4) (rp + 4) (by simp only [List.length_drop]; omega)
        match hsb : blockBody (r.drop 3) with
        | .ok (len, v) =>
          rw [hsb] at this; simp only at this
          simp only [adv_ok, this, pre_ok]
          congr 2; omega
        | .error (o, k) =>
          rw [hsb] at this; simp only at this
          obtain ⟨q, hq, hpos⟩ := this
          simp only [adv_error]
          refine ⟨q, by rw [hq]; rfl, ?_⟩
          intro hh
          have e : o + 4 = (3 + o) + 1 := by omega
          rw [e, List.take_succ_cons, hasHigh_cons, List.take_add, hasHigh_append] at hh
          simp only [Bool.or_eq_false_iff] at hh
          have := hpos hh.2.2; omega
      have gC : ¬ ((c.toNat : Int) = 92 ∧ r.head? = some 34 ∧ (r.drop 1).head? = some 34 ∧ (r.drop 2).head? = some 34) := by
        intro g; apply hC; refine ⟨?_, g.2⟩; have := g.1; bnorm; omega
      rw [if_neg gC, if_neg hC]
      rcases runeAt_spec c r with ⟨hasc, hr⟩ | ⟨hge, code, n, hr, hcode, hn1, hn2, hall, -, -⟩
      · rw [hr]; simp only [List.drop_succ_cons, List.drop_zero, List.take_succ_cons, List.take_zero]
        have := ih r (p + 1) (rp + 1) (by omega)
        match hsb : blockBody r with
        | .ok (len, v) =>
          rw [hsb] at this; simp only at this
          simp only [adv_ok, this, pre_ok]
          congr 2; omega
        | .error (o, k) =>
          rw [hsb] at this; simp only at this
          obtain ⟨q, hq, hpos⟩ := this
          simp only [adv_error]
          refine ⟨q, by rw [hq]; rfl, ?_⟩
          intro hh
          simp only [List.take_succ_cons, hasHigh_cons, Bool.or_eq_false_iff] at hh
          have := hpos hh.2; omega
      · rw [hr]; simp only
        have hsplit : c :: r = (c :: r).take n ++ (c :: r).drop n := (List.take_append_drop n (c :: r)).symm
        have hS : blockBody (c :: r) = adv n ((c :: r).take n) (blockBody ((c :: r).drop n)) := by
          conv => lhs; rw [hsplit]
          rw [blockBody_high _ _ hall]
          congr 1; simp; omega
        have hS' : adv 1 [c] (blockBody r) = adv n ((c :: r).take n) (blockBody ((c :: r).drop n)) := by
          rw [← hS, blockBody_high_cons c r hge]
        rw [hS']
        have := ih ((c :: r).drop n) (p + n) (rp + 1) (by simp only [List.length_drop, List.length_cons]; omega)
        match hsb : blockBody ((c :: r).drop n) with
        | .ok (len, v) =>
          rw [hsb] at this; simp only at this
          simp only [adv_ok, this, pre_ok]
          congr 2; omega
        | .error (o, k) =>
          rw [hsb] at this; simp only at this
          obtain ⟨q, hq, -⟩ := this
          simp only [adv_error]
          refine ⟨q, by rw [hq]; rfl, ?_⟩
          intro hh
          have : hasHigh ((c :: r).take (o + n)) = true := by
            apply hasHigh_of_mem (b := c) _ hge
            obtain ⟨m, rfl⟩ : ∃ m, n = m + 1 := ⟨n - 1, by omega⟩
            rw [← Nat.add_assoc, List.take_succ_cons]; simp
          rw [this] at hh; exact absurd hh (by simp)

end GqlModel.Lexer
