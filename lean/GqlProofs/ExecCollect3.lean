import GqlProofs.ExecCollect2
/-! # CollectFields: helper lemmas for C01 (part 3: fuel irrelevance, `collectMerged`, fragments entered once) -/
namespace GqlModel.Exec

variable {c : Ctx} {rt : String}

/-! ## fuel: two expanders that agree within the budget give the same collection -/

section congr
variable {expand expand' : String → Groups × List String → Groups × List String} {m : Nat}

mutual
theorem collectSel_congr (he : ExpReach c rt (fun _ => True) expand)
    (hag : ∀ n a, unvisited c a.2 ≤ m → expand n a = expand' n a) :
    ∀ (s : Selection) (a : Groups × List String), unvisited c a.2 ≤ m →
      collectSel c rt expand s a = collectSel c rt expand' s a
  | .field alias name args dirs sel loc, (g, vis), _ => by simp only [collectSel]
  | .inline tc dirs (.mk inner l1) l2, a, hm => by
    simp only [collectSel, collectSet, collectList_congr he hag inner a hm]
  | .spread name dirs l, a, hm => by
    simp only [collectSel, hag name.value a hm]
theorem collectList_congr (he : ExpReach c rt (fun _ => True) expand)
    (hag : ∀ n a, unvisited c a.2 ≤ m → expand n a = expand' n a) :
    ∀ (sels : List Selection) (a : Groups × List String), unvisited c a.2 ≤ m →
      collectList c rt expand sels a = collectList c rt expand' sels a
  | [], a, _ => by simp only [collectList]
  | s :: rest, a, hm => by
    simp only [collectList]
    have h1 : unvisited c (collectSel c rt expand s a).2 ≤ m :=
      Nat.le_trans (collectSel_reach he s a (fun _ _ => trivial)).mono.unvisited_le hm
    rw [collectList_congr he hag rest _ h1, collectSel_congr he hag s a hm]
end
end congr

/-- beyond the number of unvisited fragment definitions, fuel is irrelevant -/
theorem expandSpread_fuel_irrelevant : ∀ (fuel fuel' m : Nat), m < fuel → m < fuel' →
    ∀ n (a : Groups × List String), unvisited c a.2 ≤ m → expandSpread c rt fuel n a = expandSpread c rt fuel' n a
  | 0, _, _, h, _ => absurd h (Nat.not_lt_zero _)
  | _ + 1, 0, _, _, h => absurd h (Nat.not_lt_zero _)
  | fuel + 1, fuel' + 1, m, h1, h2 => fun n (g, vis) hm => by
    simp only [expandSpread]
    by_cases hv : vis.contains n = true
    · rw [if_pos hv, if_pos hv]
    · rw [if_neg hv, if_neg hv]
      have hn : n ∉ vis := fun hm => hv (List.contains_iff_mem.2 hm)
      rcases hf : c.frag? n with _ | ⟨tc, ⟨body, l⟩⟩
      · rfl
      · simp only
        have hlt' : unvisited c (n :: vis) < unvisited c vis := unvisited_cons_lt c (frag?_some_mem hf) hn
        by_cases hc : condApplies c.schema (some tc) rt = true
        · rw [if_pos hc, if_pos hc]
          simp only [collectSet]
          simp only at hm
          exact collectList_congr (m := m - 1) (expandSpread_reach _ fuel)
            (expandSpread_fuel_irrelevant fuel fuel' (m - 1) (by omega) (by omega)) body (g, n :: vis) (by simp only; omega)
        · rw [if_neg hc, if_neg hc]

/-- the collection is the same for every fuel above the number of unvisited fragment definitions -/
theorem collectSet_fuel_irrelevant (fuel fuel' : Nat) (sel : SelectionSet) (a : Groups × List String)
    (h1 : unvisited c a.2 < fuel) (h2 : unvisited c a.2 < fuel') :
    collectSet c rt (expandSpread c rt fuel) sel a = collectSet c rt (expandSpread c rt fuel') sel a := by
  obtain ⟨sels, l⟩ := sel
  simp only [collectSet]
  exact collectList_congr (m := unvisited c a.2) (expandSpread_reach _ fuel)
    (expandSpread_fuel_irrelevant fuel fuel' _ h1 h2) sels a (Nat.le_refl _)

theorem unvisited_lt_fragFuel (c : Ctx) (vis : List String) : unvisited c vis < c.fragFuel := by
  have := unvisited_le_length c vis
  unfold Ctx.fragFuel; omega

/-! ## `collectMerged` -/

/-- one step of the fold in `collectMerged` -/
def mergeStep (c : Ctx) (rt : String) (acc : Groups × List String) (n : FieldNode) : Groups × List String :=
  match n.sel with
  | some sel => collect c rt sel acc
  | none => acc

theorem collectMerged_eq (c : Ctx) (rt : String) (nodes : List FieldNode) :
    collectMerged c rt nodes = (nodes.foldl (mergeStep c rt) ([], [])).1 := rfl

/-- the nodes occurring in the sub-selection of one of `nodes` -/
def OccursMerged (c : Ctx) (rt : String) (nodes : List FieldNode) (f : FieldNode) : Prop :=
  ∃ n ∈ nodes, ∃ sels l, n.sel = some (.mk sels l) ∧ Occurs c rt sels f

theorem mergeStep_reach (nodes : List FieldNode) (n : FieldNode) (hn : n ∈ nodes) (a : Groups × List String) :
    Reach (OccursMerged c rt nodes) a (mergeStep c rt a n) := by
  unfold mergeStep
  rcases hs : n.sel with _ | ⟨sels, l⟩
  · exact .refl _
  · exact (collect_reach sels l a).imp (fun f hf => ⟨n, hn, sels, l, hs, hf⟩)

theorem mergeFold_reach (nodes : List FieldNode) : ∀ (ns : List FieldNode), (∀ n ∈ ns, n ∈ nodes) →
    ∀ a, Reach (OccursMerged c rt nodes) a (ns.foldl (mergeStep c rt) a)
  | [], _, a => .refl a
  | n :: ns, h, a => by
    simp only [List.foldl_cons]
    exact .trans (mergeStep_reach nodes n (h n List.mem_cons_self) a)
      (mergeFold_reach nodes ns (fun x hx => h x (List.mem_cons_of_mem _ hx)) _)

theorem mergeStep_good (n : FieldNode) (a : Groups × List String) :
    Good c rt a (mergeStep c rt a n) ∧ ∀ sels l, n.sel = some (.mk sels l) → Covered c rt (mergeStep c rt a n) sels := by
  unfold mergeStep
  rcases hs : n.sel with _ | ⟨sels, l⟩
  · exact ⟨Good.refl _, fun _ _ h => by cases h⟩
  · have h := collect_good (c := c) (rt := rt) sels l a (unvisited_lt_fragFuel c a.2)
    refine ⟨h.1, fun sels' l' he => ?_⟩
    injection he with e; injection e with e1 e2
    subst e1; exact h.2

theorem mergeFold_good : ∀ (ns : List FieldNode) (a : Groups × List String),
    Good c rt a (ns.foldl (mergeStep c rt) a) ∧
    ∀ n ∈ ns, ∀ sels l, n.sel = some (.mk sels l) → Covered c rt (ns.foldl (mergeStep c rt) a) sels
  | [], a => ⟨Good.refl a, fun _ h => by cases h⟩
  | n :: ns, a => by
    simp only [List.foldl_cons]
    have h1 := mergeStep_good (c := c) (rt := rt) n a
    have h2 := mergeFold_good ns (mergeStep c rt a n)
    refine ⟨h1.1.trans h2.1, fun x hx sels l hs => ?_⟩
    rcases List.mem_cons.1 hx with rfl | hx
    · exact (h1.2 sels l hs).mono h2.1.1
    · exact h2.2 x hx sels l hs

/-! ## fragments are entered at most once -/

theorem expandSpread_visited (fuel : Nat) (n : String) (g : Groups) (vis : List String) (h : n ∈ vis) :
    expandSpread c rt fuel n (g, vis) = (g, vis) := by
  cases fuel with
  | zero => rfl
  | succ fuel => simp only [expandSpread, List.contains_iff_mem.2 h, if_true]

theorem expandSpread_undefined (fuel : Nat) (n : String) (a : Groups × List String) (h : c.frag? n = none) :
    expandSpread c rt fuel n a = a := by
  obtain ⟨g, vis⟩ := a
  cases fuel with
  | zero => rfl
  | succ fuel =>
    simp only [expandSpread, h]
    split <;> rfl

theorem collectList_append (expand : String → Groups × List String → Groups × List String) :
    ∀ (xs ys : List Selection) (a : Groups × List String),
      collectList c rt expand (xs ++ ys) a = collectList c rt expand ys (collectList c rt expand xs a)
  | [], ys, a => by simp only [List.nil_append, collectList]
  | x :: xs, ys, a => by simp only [List.cons_append, collectList, collectList_append expand xs ys]

end GqlModel.Exec
