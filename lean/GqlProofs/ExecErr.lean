import GqlModel.Conforms
/-! C04: errors and nulls. Every call of the four mutually recursive functions only PREPENDS to the error list (errors
recorded earlier are kept); when a call fails, at least one new error lies at or below its position; when it succeeds,
every new error addresses a position of the produced value (or one of its ancestors inside that value) that holds
`null`. -/
namespace GqlModel.Exec

/-- `ValAt v rel y`: following the relative path `rel` inside `v` reaches `y` -/
inductive ValAt : JVal → Path → JVal → Prop
  | here (v : JVal) : ValAt v [] v
  | key {fs : List (String × JVal)} {k : String} {x y : JVal} {rest : Path} :
      (k, x) ∈ fs → ValAt x rest y → ValAt (.obj fs) (.key k :: rest) y
  | idx {xs : List JVal} {i : Nat} {x y : JVal} {rest : Path} :
      xs[i]? = some x → ValAt x rest y → ValAt (.list xs) (.idx i :: rest) y

/-- the error path `q` addresses a null inside `v`, which sits at `p`: some prefix `p ++ rel` of `q` holds `null` -/
def NullOn (p : Path) (v : JVal) (q : Path) : Prop := ∃ rel, (p ++ rel) <+: q ∧ ValAt v rel .null

theorem NullOn.prefix {p q : Path} {v : JVal} (h : NullOn p v q) : p <+: q := by
  obtain ⟨rel, hp, -⟩ := h
  exact List.IsPrefix.trans (List.prefix_append _ _) hp

theorem nullOn_null {p q : Path} (h : p <+: q) : NullOn p .null q := ⟨[], by simpa using h, .here _⟩

structure ErrP (c : Ctx) (fuel : Nat) : Prop where
  groups : ∀ dfr rt src path groups acc st r st',
    execGroups c fuel dfr rt src path groups acc st = (r, st') →
    ∃ new, st'.errs = new ++ st.errs ∧
      (r = .fail → new ≠ [] ∧ ∀ e, e ∈ new → path <+: e.1) ∧
      (∀ fs, r = .ok fs → (∃ more, fs = acc ++ more) ∧
        ∀ e, e ∈ new → ∃ k x, (k, x) ∈ fs ∧ NullOn (path ++ [.key k]) x e.1)
  field : ∀ dfr rt src p fd nodes st r st',
    execField c fuel dfr rt src p fd nodes st = (r, st') →
    ∃ new, st'.errs = new ++ st.errs ∧
      (r = .fail → new ≠ [] ∧ ∀ e, e ∈ new → p <+: e.1) ∧
      (∀ j, r = .ok j → ∀ e, e ∈ new → NullOn p j e.1)
  complete : ∀ dfr t rt fname nodes p v st r st',
    complete c fuel dfr t rt fname nodes p v st = (r, st') →
    ∃ new, st'.errs = new ++ st.errs ∧
      (r = .fail → new ≠ [] ∧ ∀ e, e ∈ new → p <+: e.1) ∧
      (∀ j, r = .ok j → ∀ e, e ∈ new → NullOn p j e.1)
  items : ∀ dfr item rt fname nodes p xs i acc st r st',
    completeItems c fuel dfr item rt fname nodes p xs i acc st = (r, st') →
    ∃ new, st'.errs = new ++ st.errs ∧
      (r = .fail → new ≠ [] ∧ ∀ e, e ∈ new → p <+: e.1) ∧
      (∀ js, r = .ok js → (∃ more, js = acc ++ more) ∧
        (i = acc.length → ∀ e, e ∈ new → ∃ j x, js[j]? = some x ∧ NullOn (p ++ [.idx j]) x e.1))

theorem errP_zero (c : Ctx) : ErrP c 0 := by
  refine ⟨?_, ?_, ?_, ?_⟩
  · intro dfr rt src path groups acc st r st' h
    simp only [execGroups, Prod.mk.injEq] at h
    exact ⟨[], by simp [← h.2], by simp [← h.1], by simp [← h.1]⟩
  · intro dfr rt src p fd nodes st r st' h
    simp only [execField, Prod.mk.injEq] at h
    exact ⟨[], by simp [← h.2], by simp [← h.1], by simp [← h.1]⟩
  · intro dfr t rt fname nodes p v st r st' h
    simp only [complete, Prod.mk.injEq] at h
    exact ⟨[], by simp [← h.2], by simp [← h.1], by simp [← h.1]⟩
  · intro dfr item rt fname nodes p xs i acc st r st' h
    simp only [completeItems, Prod.mk.injEq] at h
    exact ⟨[], by simp [← h.2], by simp [← h.1], by simp [← h.1]⟩

theorem prefix_snoc_trans {p q : Path} {s : PathSeg} (h : (p ++ [s]) <+: q) : p <+: q :=
  List.IsPrefix.trans (List.prefix_append _ _) h

theorem errP_groups (c : Ctx) (fuel : Nat) (ih : ErrP c fuel) :
    ∀ dfr rt src path groups acc st r st',
    execGroups c (fuel + 1) dfr rt src path groups acc st = (r, st') →
    ∃ new, st'.errs = new ++ st.errs ∧
      (r = .fail → new ≠ [] ∧ ∀ e, e ∈ new → path <+: e.1) ∧
      (∀ fs, r = .ok fs → (∃ more, fs = acc ++ more) ∧
        ∀ e, e ∈ new → ∃ k x, (k, x) ∈ fs ∧ NullOn (path ++ [.key k]) x e.1) := by
  intro dfr rt src path groups acc st r st' h
  cases groups with
  | nil =>
    simp only [execGroups, Prod.mk.injEq] at h
    refine ⟨[], by simp [← h.2], by simp [← h.1], ?_⟩
    intro fs hfs
    rw [← h.1] at hfs
    cases hfs
    exact ⟨⟨[], by simp⟩, by simp⟩
  | cons g rest =>
    obtain ⟨key, nodes⟩ := g
    simp only [execGroups] at h
    split at h
    · exact ih.groups _ _ _ _ _ _ _ _ _ h
    · split at h
      · exact ih.groups _ _ _ _ _ _ _ _ _ h
      · rename_i fd hfd
        rcases hf : execField c fuel dfr rt src (path ++ [.key key]) fd nodes st with ⟨r1, st1⟩
        rw [hf] at h
        obtain ⟨new1, hl1, hfail1, hok1⟩ := ih.field _ _ _ _ _ _ _ _ _ hf
        cases r1 with
        | ok v =>
          simp only at h
          obtain ⟨new2, hl2, hfail2, hok2⟩ := ih.groups _ _ _ _ _ _ _ _ _ h
          refine ⟨new2 ++ new1, by rw [hl2, hl1, List.append_assoc], ?_, ?_⟩
          · intro hr
            obtain ⟨hne, hall⟩ := hfail2 hr
            refine ⟨by simp [hne], ?_⟩
            intro e he
            rcases List.mem_append.mp he with he | he
            · exact hall e he
            · exact prefix_snoc_trans (hok1 v rfl e he).prefix
          · intro fs hr
            obtain ⟨⟨more, hmore⟩, hall⟩ := hok2 fs hr
            refine ⟨⟨(key, v) :: more, by rw [hmore]; simp⟩, ?_⟩
            intro e he
            rcases List.mem_append.mp he with he | he
            · exact hall e he
            · exact ⟨key, v, by rw [hmore]; simp, hok1 v rfl e he⟩
        | fail =>
          simp only [Prod.mk.injEq] at h
          refine ⟨new1, by rw [← h.2, hl1], ?_, ?_⟩
          · intro _
            obtain ⟨hne, hall⟩ := hfail1 rfl
            exact ⟨hne, fun e he => prefix_snoc_trans (hall e he)⟩
          · intro fs hr; rw [← h.1] at hr; cases hr
        | fuelOut =>
          simp only [Prod.mk.injEq] at h
          refine ⟨new1, by rw [← h.2, hl1], ?_, ?_⟩
          · intro hr; rw [← h.1] at hr; cases hr
          · intro fs hr; rw [← h.1] at hr; cases hr

theorem errP_field (c : Ctx) (fuel : Nat) (ih : ErrP c fuel) :
    ∀ dfr rt src p fd nodes st r st',
    execField c (fuel + 1) dfr rt src p fd nodes st = (r, st') →
    ∃ new, st'.errs = new ++ st.errs ∧
      (r = .fail → new ≠ [] ∧ ∀ e, e ∈ new → p <+: e.1) ∧
      (∀ j, r = .ok j → ∀ e, e ∈ new → NullOn p j e.1) := by
  intro dfr rt src p fd nodes st r st' h
  simp only [execField] at h
  split at h
  · simp only [Prod.mk.injEq] at h
    exact ⟨[], by simp [← h.2], by simp [← h.1], by simp⟩
  · -- absorbing a failure whose new errors all lie at or below `p`
    have habsorb : ∀ (new : List (Path × Bool)) (stx : St), new ≠ [] → (∀ e, e ∈ new → p <+: e.1) →
        stx.errs = new ++ st.errs →
        (if fd.type.isNonNull = true then ((Res.fail : Res JVal), stx) else (Res.ok JVal.null, stx)) = (r, st') →
        ∃ new, st'.errs = new ++ st.errs ∧
          (r = .fail → new ≠ [] ∧ ∀ e, e ∈ new → p <+: e.1) ∧
          (∀ j, r = .ok j → ∀ e, e ∈ new → NullOn p j e.1) := by
      intro new stx hne hall hl h
      split at h
      · simp only [Prod.mk.injEq] at h
        refine ⟨new, by rw [← h.2, hl], fun _ => ⟨hne, hall⟩, ?_⟩
        intro j hr; rw [← h.1] at hr; cases hr
      · simp only [Prod.mk.injEq] at h
        refine ⟨new, by rw [← h.2, hl], ?_, ?_⟩
        · intro hr; rw [← h.1] at hr; cases hr
        · intro j hr; rw [← h.1] at hr; cases hr
          exact fun e he => nullOn_null (hall e he)
    split at h
    · exact habsorb [(p, dfr)] _ (by simp) (by intro e he; simp only [List.mem_singleton] at he; subst he; exact List.prefix_refl _)
        (by simp [addErr]) h
    · rename_i v hv
      generalize hst0 : ({ st with log := _ :: st.log } : St) = st0 at h
      have h0 : st0.errs = st.errs := by rw [← hst0]
      rcases hc : complete c fuel dfr fd.type rt fd.name nodes p v st0 with ⟨r1, st1⟩
      rw [hc] at h
      obtain ⟨new, hl, hfail, hok⟩ := ih.complete _ _ _ _ _ _ _ _ _ _ hc
      rw [h0] at hl
      cases r1 with
      | ok j =>
        simp only [Prod.mk.injEq] at h
        refine ⟨new, by rw [← h.2, hl], ?_, ?_⟩
        · intro hr; rw [← h.1] at hr; cases hr
        · intro j' hr; rw [← h.1] at hr; cases hr; exact hok j rfl
      | fail =>
        simp only at h
        obtain ⟨hne, hall⟩ := hfail rfl
        exact habsorb new st1 hne hall hl h
      | fuelOut =>
        simp only [Prod.mk.injEq] at h
        refine ⟨new, by rw [← h.2, hl], ?_, ?_⟩
        · intro hr; rw [← h.1] at hr; cases hr
        · intro j' hr; rw [← h.1] at hr; cases hr

theorem errP_items (c : Ctx) (fuel : Nat) (ih : ErrP c fuel) :
    ∀ dfr item rt fname nodes p xs i acc st r st',
    completeItems c (fuel + 1) dfr item rt fname nodes p xs i acc st = (r, st') →
    ∃ new, st'.errs = new ++ st.errs ∧
      (r = .fail → new ≠ [] ∧ ∀ e, e ∈ new → p <+: e.1) ∧
      (∀ js, r = .ok js → (∃ more, js = acc ++ more) ∧
        (i = acc.length → ∀ e, e ∈ new → ∃ j x, js[j]? = some x ∧ NullOn (p ++ [.idx j]) x e.1)) := by
  intro dfr item rt fname nodes p xs i acc st r st' h
  cases xs with
  | nil =>
    simp only [completeItems, Prod.mk.injEq] at h
    refine ⟨[], by simp [← h.2], by simp [← h.1], ?_⟩
    intro js hr; rw [← h.1] at hr; cases hr
    exact ⟨⟨[], by simp⟩, by simp⟩
  | cons x xs =>
    simp only [completeItems] at h
    rcases hc : complete c fuel dfr item rt fname nodes (p ++ [.idx i]) x st with ⟨r1, st1⟩
    rw [hc] at h
    obtain ⟨new1, hl1, hfail1, hok1⟩ := ih.complete _ _ _ _ _ _ _ _ _ _ hc
    -- continuing with the value `y` stored for this item, whose new errors all address nulls on `y`
    have hgo : ∀ (y : JVal), (∀ e, e ∈ new1 → NullOn (p ++ [.idx i]) y e.1) →
        completeItems c fuel dfr item rt fname nodes p xs (i + 1) (acc ++ [y]) st1 = (r, st') →
        ∃ new, st'.errs = new ++ st.errs ∧
          (r = .fail → new ≠ [] ∧ ∀ e, e ∈ new → p <+: e.1) ∧
          (∀ js, r = .ok js → (∃ more, js = acc ++ more) ∧
            (i = acc.length → ∀ e, e ∈ new → ∃ j x, js[j]? = some x ∧ NullOn (p ++ [.idx j]) x e.1)) := by
      intro y hy h
      obtain ⟨new2, hl2, hfail2, hok2⟩ := ih.items _ _ _ _ _ _ _ _ _ _ _ _ h
      refine ⟨new2 ++ new1, by rw [hl2, hl1, List.append_assoc], ?_, ?_⟩
      · intro hr
        obtain ⟨hne, hall⟩ := hfail2 hr
        refine ⟨by simp [hne], ?_⟩
        intro e he
        rcases List.mem_append.mp he with he | he
        · exact hall e he
        · exact prefix_snoc_trans (hy e he).prefix
      · intro js hr
        obtain ⟨⟨more, hmore⟩, hall⟩ := hok2 js hr
        refine ⟨⟨y :: more, by rw [hmore]; simp⟩, ?_⟩
        intro hi e he
        rcases List.mem_append.mp he with he | he
        · exact hall (by simp [hi]) e he
        · refine ⟨i, y, ?_, hy e he⟩
          rw [hmore, hi]; simp
    cases r1 with
    | ok j => exact hgo j (hok1 j rfl) h
    | fail =>
      simp only at h
      obtain ⟨hne, hall⟩ := hfail1 rfl
      split at h
      · simp only [Prod.mk.injEq] at h
        refine ⟨new1, by rw [← h.2, hl1], ?_, ?_⟩
        · intro _; exact ⟨hne, fun e he => prefix_snoc_trans (hall e he)⟩
        · intro js hr; rw [← h.1] at hr; cases hr
      · exact hgo .null (fun e he => nullOn_null (hall e he)) h
    | fuelOut =>
      simp only [Prod.mk.injEq] at h
      refine ⟨new1, by rw [← h.2, hl1], ?_, ?_⟩
      · intro hr; rw [← h.1] at hr; cases hr
      · intro js hr; rw [← h.1] at hr; cases hr

theorem errP_complete (c : Ctx) (fuel : Nat) (ih : ErrP c fuel) :
    ∀ dfr t rt fname nodes p v st r st',
    complete c (fuel + 1) dfr t rt fname nodes p v st = (r, st') →
    ∃ new, st'.errs = new ++ st.errs ∧
      (r = .fail → new ≠ [] ∧ ∀ e, e ∈ new → p <+: e.1) ∧
      (∀ j, r = .ok j → ∀ e, e ∈ new → NullOn p j e.1) := by
  intro dfr t rt fname nodes p v st r st' h
  -- a failure recorded right here
  have hhere : ∀ (stx : St) (d : Bool), stx.errs = (p, d) :: st.errs → (Res.fail, stx) = (r, st') →
      ∃ new, st'.errs = new ++ st.errs ∧
        (r = .fail → new ≠ [] ∧ ∀ e, e ∈ new → p <+: e.1) ∧
        (∀ j, r = .ok j → ∀ e, e ∈ new → NullOn p j e.1) := by
    intro stx d hl h
    simp only [Prod.mk.injEq] at h
    refine ⟨[(p, d)], by rw [← h.2, hl]; rfl, ?_, ?_⟩
    · intro _
      exact ⟨by simp, by intro e he; simp only [List.mem_singleton] at he; subst he; exact List.prefix_refl _⟩
    · intro j hr; rw [← h.1] at hr; cases hr
  -- a value produced right here without touching the error list
  have hval : ∀ (j : JVal), (Res.ok j, st) = (r, st') →
      ∃ new, st'.errs = new ++ st.errs ∧
        (r = .fail → new ≠ [] ∧ ∀ e, e ∈ new → p <+: e.1) ∧
        (∀ j, r = .ok j → ∀ e, e ∈ new → NullOn p j e.1) := by
    intro j h
    simp only [Prod.mk.injEq] at h
    refine ⟨[], by simp [← h.2], ?_, by simp⟩
    intro hr; rw [← h.1] at hr; cases hr
  -- an object produced by a selection set
  have hgroups : ∀ ot,
      (match execGroups c fuel dfr ot v p (collectMerged c ot nodes) [] st with
        | (.ok fs, st) => ((Res.ok (JVal.obj fs) : Res JVal), st)
        | (.fail, st) => (.fail, st)
        | (.fuelOut, st) => (.fuelOut, st)) = (r, st') →
      ∃ new, st'.errs = new ++ st.errs ∧
        (r = .fail → new ≠ [] ∧ ∀ e, e ∈ new → p <+: e.1) ∧
        (∀ j, r = .ok j → ∀ e, e ∈ new → NullOn p j e.1) := by
    intro ot h
    rcases hg : execGroups c fuel dfr ot v p (collectMerged c ot nodes) [] st with ⟨r1, st1⟩
    rw [hg] at h
    obtain ⟨new, hl, hfail, hok⟩ := ih.groups _ _ _ _ _ _ _ _ _ hg
    cases r1 with
    | ok fs =>
      simp only [Prod.mk.injEq] at h
      refine ⟨new, by rw [← h.2, hl], ?_, ?_⟩
      · intro hr; rw [← h.1] at hr; cases hr
      · intro j hr; rw [← h.1] at hr; cases hr
        intro e he
        obtain ⟨k, x, hkx, rel, hp, hv⟩ := (hok fs rfl).2 e he
        exact ⟨.key k :: rel, by simpa using hp, .key hkx hv⟩
    | fail =>
      simp only [Prod.mk.injEq] at h
      refine ⟨new, by rw [← h.2, hl], fun _ => hfail rfl, ?_⟩
      intro j hr; rw [← h.1] at hr; cases hr
    | fuelOut =>
      simp only [Prod.mk.injEq] at h
      refine ⟨new, by rw [← h.2, hl], ?_, ?_⟩
      · intro hr; rw [← h.1] at hr; cases hr
      · intro j hr; rw [← h.1] at hr; cases hr
  simp only [complete] at h
  split at h
  · -- thunk
    split at h
    · exact hhere _ true (by simp [addErr]) h
    · rename_i v'
      rcases hc : complete c fuel true t rt fname nodes p v' st with ⟨r1, st1⟩
      rw [hc] at h
      obtain ⟨new, hl, hfail, hok⟩ := ih.complete _ _ _ _ _ _ _ _ _ _ hc
      cases r1 with
      | ok j =>
        simp only [Prod.mk.injEq] at h
        refine ⟨new, by rw [← h.2, hl], ?_, ?_⟩
        · intro hr; rw [← h.1] at hr; cases hr
        · intro j' hr; rw [← h.1] at hr; cases hr; exact hok j rfl
      | fail =>
        simp only [Prod.mk.injEq] at h
        refine ⟨new, by rw [← h.2]; exact hl, fun _ => hfail rfl, ?_⟩
        intro j' hr; rw [← h.1] at hr; cases hr
      | fuelOut =>
        simp only [Prod.mk.injEq] at h
        refine ⟨new, by rw [← h.2, hl], ?_, ?_⟩
        · intro hr; rw [← h.1] at hr; cases hr
        · intro j' hr; rw [← h.1] at hr; cases hr
  · exact hhere _ true (by simp [addErr]) h
  · split at h
    · -- nonNull
      rename_i inner
      rcases hc : complete c fuel dfr inner rt fname nodes p v st with ⟨r1, st1⟩
      rw [hc] at h
      obtain ⟨new, hl, hfail, hok⟩ := ih.complete _ _ _ _ _ _ _ _ _ _ hc
      split at h
      · rename_i st2 heq
        simp only [Prod.mk.injEq] at heq h
        obtain ⟨rfl, rfl⟩ := heq
        refine ⟨(p, dfr) :: new, by rw [← h.2]; simp [addErr, hl], ?_, ?_⟩
        · intro _
          refine ⟨by simp, ?_⟩
          intro e he
          rcases List.mem_cons.mp he with he | he
          · subst he; exact List.prefix_refl _
          · exact (hok _ rfl e he).prefix
        · intro j hr; rw [← h.1] at hr; cases hr
      · simp only [Prod.mk.injEq] at h
        obtain ⟨rfl, rfl⟩ := h
        exact ⟨new, hl, hfail, hok⟩
    · -- list
      rename_i item
      split at h
      · exact hval _ h
      · split at h
        · rename_i xs _ _ _
          rcases hi : completeItems c fuel dfr item rt fname nodes p xs 0 [] st with ⟨r1, st1⟩
          rw [hi] at h
          obtain ⟨new, hl, hfail, hok⟩ := ih.items _ _ _ _ _ _ _ _ _ _ _ _ hi
          cases r1 with
          | ok js =>
            simp only [Prod.mk.injEq] at h
            refine ⟨new, by rw [← h.2, hl], ?_, ?_⟩
            · intro hr; rw [← h.1] at hr; cases hr
            · intro j hr; rw [← h.1] at hr; cases hr
              intro e he
              obtain ⟨j, x, hjx, rel, hp, hv⟩ := (hok js rfl).2 rfl e he
              exact ⟨.idx j :: rel, by simpa using hp, .idx hjx hv⟩
          | fail =>
            simp only [Prod.mk.injEq] at h
            refine ⟨new, by rw [← h.2, hl], fun _ => hfail rfl, ?_⟩
            intro j hr; rw [← h.1] at hr; cases hr
          | fuelOut =>
            simp only [Prod.mk.injEq] at h
            refine ⟨new, by rw [← h.2, hl], ?_, ?_⟩
            · intro hr; rw [← h.1] at hr; cases hr
            · intro j hr; rw [← h.1] at hr; cases hr
        · exact hhere _ dfr (by simp [addErr]) h
    · -- named
      rename_i n
      split at h
      · exact hval _ h
      · split at h
        · split at h
          · exact hval _ h
          · exact hhere _ dfr (by simp [addErr]) h
        · split at h
          · split at h
            · exact hhere _ dfr (by simp [addErr]) h
            · rename_i ot hot
              split at h
              · exact hhere _ dfr (by simp [addErr]) h
              · exact hgroups ot h
          · split at h
            · split at h
              · exact hhere _ dfr (by simp [addErr]) h
              · exact hgroups n h
            · exact hhere _ dfr (by simp [addErr]) h

theorem errP (c : Ctx) : ∀ fuel, ErrP c fuel
  | 0 => errP_zero c
  | fuel + 1 =>
    have ih := errP c fuel
    ⟨errP_groups c fuel ih, errP_field c fuel ih, errP_complete c fuel ih, errP_items c fuel ih⟩

end GqlModel.Exec
