import GqlProofs.ValidateOverlapStatic3
/-! # C02 completeness, part 3e: `cert` — every covered comparison is conflict free (acyclic tables) -/
namespace GqlModel.Validate.Overlap
open GqlModel.Validate GqlModel.Validate.Graph

variable {d : Document} {e : Env} {π : SelectionSet → Option String} {S : OState}

theorem cert_fc (F : Fin d e π S) (x : Bool) (a b : FieldOcc) (hw : WFG d e π (.fc x a b))
    (hcov : CovG e π S (.fc x a b))
    (ih : ∀ g, meas d e g < meas d e (.fc x a b) → WFG d e π g → CovG e π S g → Cert e π g) :
    Cert e π (.fc x a b) := by
  rcases hw with ⟨hda, hdb, hkab⟩
  intro hp
  cases hcov with
  | fc hq hsub =>
    cases hp with
    | base hb =>
      rcases hq with ⟨q1, q2, q3⟩
      have hshape : shapeConflict e.s a b = false := by rw [shapeConflict_eq]; exact q3
      unfold baseConflict at hb
      rw [hshape] at hb
      cases hE : exclOf e x a b with
      | true => rw [hE] at hb; simp at hb
      | false =>
        rw [hE] at hb q1 q2
        simp only [Bool.not_false, Bool.true_and, Bool.or_false] at hb q1 q2
        rw [q1, Bool.false_or] at hb
        have hsa : sameArguments a.node.args b.node.args = true := by
          cases hh : sameArguments a.node.args b.node.args with
          | true => rfl
          | false => rw [hh] at q2; cases q2
        rw [F.args a b hda hdb hsa] at hb
        cases hb
    | sub s1 s2 a' b' h1 h2 ha' hb' hk hp' =>
      have A := docField_sel F hda h1
      have B := docField_sel F hdb h2
      rw [← A.2.2.1] at ha'
      rw [← B.2.2.1] at hb'
      have hmeas : meas d e (.fc x a b) = 2 * (mu d e.tbl s1 + mu d e.tbl s2) + 1 := by
        simp [meas, selMu, h1, h2]
      have hch := hsub s1 s2 h1 h2
      rcases flat_cases ha' with hda' | ⟨r1, hr1, hfa⟩ <;> rcases flat_cases hb' with hdb' | ⟨r2, hr2, hfb⟩
      · -- (H) both direct
        have hc : Call.fc (exclOf e x a b) a'.node.key a' b' ∈ ssCalls e π (exclOf e x a b) s1 s2 := by
          simp only [ssCalls, List.mem_append]
          exact .inl (.inl (.inl (betweenCalls_full e _ _ _ _ _ a' b' hda' hdb' hk)))
        have hlt : meas d e (.fc (exclOf e x a b) a' b') < meas d e (.fc x a b) := by
          have l1 := A.2.2.2 a' hda'
          have l2 := B.2.2.2 b' hdb'
          rw [hmeas]; simp only [meas]; omega
        exact ih _ hlt ⟨⟨s1, A.1, hda'⟩, ⟨s2, B.1, hdb'⟩, hk⟩ (hch _ hc) hp'
      · -- (I) direct in the first, through a fragment of the second
        have hc : Call.ff (exclOf e x a b) (cI e π s1) r2 ∈ ssCalls e π (exclOf e x a b) s1 s2 := by
          simp only [ssCalls, List.mem_append, List.mem_map]
          exact .inl (.inl (.inr ⟨r2, (collectInfo_full e _ _).2.1 r2 hr2, rfl⟩))
        have hlt : meas d e (.ff (exclOf e x a b) s1 r2) < meas d e (.fc x a b) := by
          have := bodyMu_spread F hr2
          rw [hmeas]; simp only [meas]; omega
        exact ih _ hlt ⟨A.1, apart_of_proper F A.2.1 r2⟩ (hch _ hc) a' b' hda' hfb hk hp'
      · -- (I) through a fragment of the first, direct in the second
        have hc : Call.ff (exclOf e x a b) (cI e π s2) r1 ∈ ssCalls e π (exclOf e x a b) s1 s2 := by
          simp only [ssCalls, List.mem_append, List.mem_map]
          exact .inl (.inr ⟨r1, (collectInfo_full e _ _).2.1 r1 hr1, rfl⟩)
        have hlt : meas d e (.ff (exclOf e x a b) s2 r1) < meas d e (.fc x a b) := by
          have := bodyMu_spread F hr1
          rw [hmeas]; simp only [meas]; omega
        exact ih _ hlt ⟨B.1, apart_of_proper F B.2.1 r1⟩ (hch _ hc) b' a' hdb' hfa hk.symm hp'.symm
      · -- (J) through fragments on both sides
        have hc : Call.bf (exclOf e x a b) r1 r2 ∈ ssCalls e π (exclOf e x a b) s1 s2 := by
          simp only [ssCalls, List.mem_append, List.mem_flatMap, List.mem_map]
          exact .inr ⟨r1, (collectInfo_full e _ _).2.1 r1 hr1, r2, (collectInfo_full e _ _).2.1 r2 hr2, rfl⟩
        have hlt : meas d e (.bf (exclOf e x a b) r1 r2) < meas d e (.fc x a b) := by
          have l1 := bodyMu_spread F hr1
          have l2 := bodyMu_spread F hr2
          rw [hmeas]; simp only [meas]; omega
        exact ih _ hlt trivial (hch _ hc) a' b' hfa hfb hk hp'

theorem cert_bf (F : Fin d e π S) (x : Bool) (n1 n2 : String) (hcov : CovG e π S (.bf x n1 n2))
    (ih : ∀ g, meas d e g < meas d e (.bf x n1 n2) → WFG d e π g → CovG e π S g → Cert e π g) :
    Cert e π (.bf x n1 n2) := by
  cases hcov with
  | bf h =>
    rcases h with h | h | h | h
    · intro a b ha _ _
      rcases flatFrag_defined ha with ⟨f, hf⟩
      rw [h] at hf; cases hf
    · intro a b _ hb _
      rcases flatFrag_defined hb with ⟨f, hf⟩
      rw [h] at hf; cases hf
    · subst h
      refine same_frag_pairs F x n1 _ (fun f hl => ?_) ih
      simp only [meas, bodyMu, hl]; omega
    · rcases has_bf_logged F h with ⟨s, hlog, hsx⟩
      intro a b ha hb hk
      rcases flatFrag_defined ha with ⟨f1, h1⟩
      rcases flatFrag_defined hb with ⟨f2, h2⟩
      rcases hlog with hlog | hlog
      · have := bf_of_children F s n1 n2 h1 h2 (F.hist.bf _ hlog (by simp) f1 f2 h1 h2)
          (fun g hg => ih g (by simpa [meas] using hg))
        exact noPC_of_stored hsx (this a b ha hb hk)
      · have := bf_of_children F s n2 n1 h2 h1 (F.hist.bf _ hlog (by simp) f2 f1 h2 h1)
          (fun g hg => ih g (by simp only [meas] at hg ⊢; omega))
        exact noPC_of_stored hsx (fun hp => this b a hb ha hk.symm hp.symm)

theorem cert_ff (F : Fin d e π S) (x : Bool) (X : SelectionSet) (frag : String)
    (hw : WFG d e π (.ff x X frag)) (hcov : CovG e π S (.ff x X frag))
    (ih : ∀ g, meas d e g < meas d e (.ff x X frag) → WFG d e π g → CovG e π S g → Cert e π g) :
    Cert e π (.ff x X frag) := by
  rcases hw with ⟨hX, hap⟩
  cases hcov with
  | ff h =>
    rcases has_ff_logged F h with ⟨s, hlog, hsx⟩
    intro a b ha hb hk
    rcases flatFrag_defined hb with ⟨f, hl⟩
    have hne : X.loc ≠ f.sel.loc := hap frag f (.refl _) hl
    have := ff_of_children F s hX frag hap hl (F.hist.ff _ hlog (by simp) X hX rfl f hl hne)
      (fun g hg => ih g (by simpa [meas] using hg))
    exact noPC_of_stored hsx (this a b ha hb hk)

theorem cert_vis (F : Fin d e π S) (X : SelectionSet) (hX : X ∈ allSets d)
    (hcov : CovG e π S (.vis X))
    (ih : ∀ g, meas d e g < meas d e (.vis X) → WFG d e π g → CovG e π S g → Cert e π g) :
    Cert e π (.vis X) := by
  have hmu := mu_pos (d := d) (e := e) X
  -- the three kinds of ordered pairs, `a` first
  have dd : ∀ a b, a ∈ directSet e (π X) X → b ∈ directSet e (π X) X → a.node.key = b.node.key →
      ¬ PairConflict e false a b := by
    intro a b ha hb hk hp
    have hlt : ∀ a b : FieldOcc, a ∈ directSet e (π X) X → b ∈ directSet e (π X) X →
        meas d e (.fc false a b) < meas d e (.vis X) := by
      intro a b ha hb
      have l1 := selMu_lt (d := d) a ha
      have l2 := selMu_lt (d := d) b hb
      simp only [meas]; omega
    rcases withinCalls_full e (π X) X a b ha hb hk with hc | hc | rfl
    · exact ih _ (hlt a b ha hb) ⟨⟨X, hX, ha⟩, ⟨X, hX, hb⟩, hk⟩
        (hcov _ (List.mem_append_left _ hc)) hp
    · have hc' : Call.fc false b.node.key b a ∈ withinCalls (cI e π X) := hk ▸ hc
      exact ih _ (hlt b a hb ha) ⟨⟨X, hX, hb⟩, ⟨X, hX, ha⟩, hk.symm⟩
        (hcov _ (List.mem_append_left _ hc')) hp.symm
    · -- the same field: only through its own sub-selection, which is visited itself
      rcases pc_self hp with ⟨s1, a', b', hs1, ha', hb', hk', hp'⟩
      have A := docField_sel F ⟨X, hX, ha⟩ hs1
      rw [← A.2.2.1] at ha' hb'
      have hlt : meas d e (.vis s1) < meas d e (.vis X) := by
        have := selMu_lt (d := d) a ha
        simp only [selMu, hs1] at this
        simp only [meas]; omega
      exact ih _ hlt A.1 (F.vis s1 A.1) a' b' ha' hb' hk' hp'
  have df : ∀ a b r, a ∈ directSet e (π X) X → r ∈ shallowSet X → FlatFrag e r b → a.node.key = b.node.key →
      ¬ PairConflict e false a b := by
    intro a b r ha hr hb hk
    have hc : Call.ff false (cI e π X) r ∈ visCalls e π X :=
      List.mem_append_right _ (top_ff_mem _ _ _ ((collectInfo_full e _ _).2.1 r hr))
    have hlt : meas d e (.ff false X r) < meas d e (.vis X) := by
      have := bodyMu_spread F hr
      simp only [meas]; omega
    exact ih _ hlt ⟨hX, apart_of_vis F hX hr⟩ (hcov _ hc) a b ha hb hk
  have ff : ∀ a b r1 r2, r1 ∈ shallowSet X → r2 ∈ shallowSet X → FlatFrag e r1 a → FlatFrag e r2 b →
      a.node.key = b.node.key → ¬ PairConflict e false a b := by
    intro a b r1 r2 hr1 hr2 ha hb hk
    have l1 := bodyMu_spread F hr1
    have l2 := bodyMu_spread F hr2
    by_cases hne : r1 = r2
    · subst hne
      refine same_frag_pairs F false r1 _ (fun f hl => ?_) ih a b ha hb hk
      simp only [bodyMu, hl] at l1
      simp only [meas]; omega
    · have hlt : ∀ x y, bodyMu d e x < mu d e.tbl X → bodyMu d e y < mu d e.tbl X →
          meas d e (.bf false x y) < meas d e (.vis X) := by
        intro x y hx hy; simp only [meas]; omega
      rcases top_bf_mem (cI e π X) _ r1 r2 ((collectInfo_full e _ _).2.1 r1 hr1)
        ((collectInfo_full e _ _).2.1 r2 hr2) hne with hc | hc
      · exact ih _ (hlt r1 r2 l1 l2) trivial (hcov _ (List.mem_append_right _ hc)) a b ha hb hk
      · exact fun hp => ih _ (hlt r2 r1 l2 l1) trivial (hcov _ (List.mem_append_right _ hc)) b a hb ha hk.symm hp.symm
  intro a b ha hb hk
  rcases flat_cases ha with hda | ⟨r1, hr1, hfa⟩ <;> rcases flat_cases hb with hdb | ⟨r2, hr2, hfb⟩
  · exact dd a b hda hdb hk
  · exact df a b r2 hda hr2 hfb hk
  · exact fun hp => df b a r1 hdb hr1 hfa hk.symm hp.symm
  · exact ff a b r1 r2 hr1 hr2 hfa hfb hk

/-- **covered ⇒ conflict free**, by induction on the measure -/
theorem cert (F : Fin d e π S) : ∀ (n : Nat) (g : Goal), meas d e g < n → WFG d e π g → CovG e π S g → Cert e π g := by
  intro n
  induction n with
  | zero => intro g h; exact absurd h (Nat.not_lt_zero _)
  | succ n ih =>
    intro g hg hw hcov
    have ih' : ∀ g', meas d e g' < meas d e g → WFG d e π g' → CovG e π S g' → Cert e π g' :=
      fun g' hlt => ih g' (by omega)
    cases g with
    | vis X => exact cert_vis F X hw hcov ih'
    | ff x X frag => exact cert_ff F x X frag hw hcov ih'
    | bf x n1 n2 => exact cert_bf F x n1 n2 hcov ih'
    | fc x a b => exact cert_fc F x a b hw hcov ih'

end GqlModel.Validate.Overlap
