import GqlProofs.PlanSettle
import GqlProofs.PlanExec2
/-! # `dethunkValueDepthFirst` leaves no closure behind -/
namespace GqlModel.Plan
open GqlModel.Exec GqlModel.Coerce

/-! ## association lists with distinct keys -/

theorem lookupF_none {fs : List (String × PVal)} {k : String} (h : lookupF fs k = none) : ∀ x ∈ fs, x.1 ≠ k := by
  intro x hx hk
  unfold lookupF at h
  simp only [Option.map_eq_none_iff] at h
  have := List.find?_eq_none.1 h x hx
  simp [hk] at this

theorem setF_keys (fs : List (String × PVal)) (k : String) (v : PVal) : (setF fs k v).map (·.1) = fs.map (·.1) := by
  induction fs with
  | nil => rfl
  | cons x rest ih =>
    obtain ⟨k', x⟩ := x
    simp only [setF]
    by_cases hk : (k' == k) = true
    · simp [hk]
    · simp [hk, ih]

/-- with distinct keys: the entries after `m[k] = v'` are the new one and the old ones of other keys -/
theorem mem_setF {fs : List (String × PVal)} {k : String} {v' : PVal} (hnd : (fs.map (·.1)).Nodup) {x : String × PVal}
    (hx : x ∈ setF fs k v') : x = (k, v') ∨ (x ∈ fs ∧ x.1 ≠ k) := by
  induction fs with
  | nil => simp [setF] at hx
  | cons y rest ih =>
    obtain ⟨k', y⟩ := y
    simp only [List.map_cons, List.nodup_cons] at hnd
    simp only [setF] at hx
    by_cases hk : (k' == k) = true
    · have hk' : k' = k := by simpa using hk
      simp only [hk, if_true] at hx
      rcases List.mem_cons.1 hx with rfl | hx
      · exact .inl (by rw [hk'])
      · right
        refine ⟨List.mem_cons_of_mem _ hx, ?_⟩
        intro hxk
        apply hnd.1
        rw [hk', ← hxk]
        exact List.mem_map.2 ⟨x, hx, rfl⟩
    · simp only [hk, Bool.false_eq_true, if_false] at hx
      rcases List.mem_cons.1 hx with rfl | hx
      · exact .inr ⟨List.mem_cons_self, by simpa using hk⟩
      · rcases ih hnd.2 hx with h | h
        · exact .inl h
        · exact .inr ⟨List.mem_cons_of_mem _ h.1, h.2⟩

/-- with distinct keys: the entry of key `k` is the one `lookupF` finds -/
theorem eq_of_lookupF {fs : List (String × PVal)} {k : String} {v : PVal} (hnd : (fs.map (·.1)).Nodup)
    (hl : lookupF fs k = some v) {x : String × PVal} (hx : x ∈ fs) (hk : x.1 = k) : x = (k, v) := by
  have hm := lookupF_mem hl
  induction fs with
  | nil => cases hx
  | cons y rest ih =>
    simp only [List.map_cons, List.nodup_cons] at hnd
    rcases List.mem_cons.1 hx with rfl | hx' <;> rcases List.mem_cons.1 hm with h2 | h2
    · rw [← h2]
    · exact absurd (List.mem_map.2 ⟨(k, v), h2, hk.symm⟩) hnd.1
    · rw [← h2] at hnd
      exact absurd (List.mem_map.2 ⟨x, hx', hk⟩) hnd.1
    · have hl' : lookupF rest k = some v := by
        unfold lookupF at hl ⊢
        have hne : (y.1 == k) = false := by
          simp only [beq_eq_false_iff_ne, ne_eq]
          intro hy
          exact hnd.1 (List.mem_map.2 ⟨x, hx', hk.trans hy.symm⟩)
        simpa [List.find?_cons, hne] using hl
      exact ih hnd.2 hl' hx' (lookupF_mem hl')

theorem mem_insertKey {k a : String} {l : List String} : a ∈ insertKey k l ↔ a = k ∨ a ∈ l := by
  induction l with
  | nil => simp [insertKey]
  | cons x xs ih =>
    simp only [insertKey]
    by_cases h : k < x
    · simp [h]
    · simp only [h, if_false, List.mem_cons, ih]
      constructor
      · rintro (h1 | h1 | h1)
        · exact .inr (.inl h1)
        · exact .inl h1
        · exact .inr (.inr h1)
      · rintro (h1 | h1 | h1)
        · exact .inr (.inl h1)
        · exact .inl h1
        · exact .inr (.inr h1)

theorem mem_sortedKeys {fs : List (String × PVal)} {x : String × PVal} (hx : x ∈ fs) : x.1 ∈ sortedKeys fs := by
  unfold sortedKeys
  have key : ∀ (l : List String) (a : String), a ∈ l → a ∈ l.foldr insertKey [] := by
    intro l
    induction l with
    | nil => intro a h; cases h
    | cons y ys ih =>
      intro a h
      simp only [List.foldr_cons]
      rcases List.mem_cons.1 h with rfl | h
      · exact mem_insertKey.2 (.inl rfl)
      · exact mem_insertKey.2 (.inr (ih a h))
  exact key _ _ (List.mem_map.2 ⟨x, hx, rfl⟩)

/-! ## the pass -/

/-- a forcing function whose results are never bare closures (the loop of a dethunk site) and are maps with distinct keys -/
def FrcFlat (frc : Closure → MSt → Res PVal × MSt) : Prop :=
  ∀ cl st, ∀ x, (frc cl st).1 = .ok x → NDv x ∧ ∀ cl', x ≠ .deferred cl'

structure DfsS (frc : Closure → MSt → Res PVal × MSt) (fuel : Nat) : Prop where
  val : ∀ v st, NDv v → ∀ x, (dfsVal frc fuel v st).1 = .ok x → NoDef x
  fields : ∀ ks fs st, (fs.map (·.1)).Nodup → (∀ x ∈ fs, NoDef x.2 ∨ (x.1 ∈ ks ∧ NDv x.2)) →
    ∀ gs, (dfsFields frc fuel ks fs st).1 = .ok gs → ∀ x ∈ gs, NoDef x.2
  items : ∀ xs acc st, (∀ x ∈ xs, NDv x) → (∀ x ∈ acc, NoDef x) →
    ∀ ys, (dfsItems frc fuel xs acc st).1 = .ok ys → ∀ y ∈ ys, NoDef y

theorem dfsS {frc : Closure → MSt → Res PVal × MSt} (hf : FrcFlat frc) : ∀ fuel, DfsS frc fuel
  | 0 => by
    refine ⟨?_, ?_, ?_⟩
    · intro v st _ x h; simp only [dfsVal] at h; cases h
    · intro ks fs st _ _ gs h; simp only [dfsFields] at h; cases h
    · intro xs acc st _ _ ys h; simp only [dfsItems] at h; cases h
  | fuel + 1 => by
    have ih : DfsS frc fuel := dfsS hf fuel
    refine ⟨?_, ?_, ?_⟩
    · have key : ∀ (x : PVal) (st : MSt), (∀ cl, x ≠ .deferred cl) → NDv x →
          ∀ y, (dfsVal frc (fuel + 1) x st).1 = .ok y → NoDef y := by
        intro x st hnd hndv y h
        cases x with
        | leaf j => simp only [dfsVal, Res.ok.injEq] at h; subst h; exact allCl_leaf _
        | deferred cl => exact absurd rfl (hnd cl)
        | obj fs =>
          simp only [dfsVal] at h
          have hfs := ih.fields (sortedKeys fs) fs st (ndv_obj.1 hndv).1
            (fun x hx => .inr ⟨mem_sortedKeys hx, (ndv_obj.1 hndv).2 x hx⟩)
          generalize dfsFields frc fuel (sortedKeys fs) fs st = z at hfs h
          obtain ⟨r2, st2⟩ := z
          cases r2 with
          | ok gs => simp only [Res.ok.injEq] at h; subst h; exact allCl_obj.2 (hfs gs rfl)
          | fail => simp only at h; cases h
          | fuelOut => simp only at h; cases h
        | list xs =>
          simp only [dfsVal] at h
          have hxs := ih.items xs [] st (fun x hx => ndv_list.1 hndv x hx) (fun _ h => by cases h)
          generalize dfsItems frc fuel xs [] st = z at hxs h
          obtain ⟨r2, st2⟩ := z
          cases r2 with
          | ok ys => simp only [Res.ok.injEq] at h; subst h; exact allCl_list.2 (hxs ys rfl)
          | fail => simp only at h; cases h
          | fuelOut => simp only at h; cases h
      intro v st hndv x h
      cases v with
      | leaf j => exact key _ st (fun _ h => by cases h) hndv x h
      | list xs => exact key _ st (fun _ h => by cases h) hndv x h
      | obj fs => exact key _ st (fun _ h => by cases h) hndv x h
      | deferred cl =>
        simp only [dfsVal] at h
        have ha := hf cl st
        generalize frc cl st = z at ha h
        obtain ⟨r1, st1⟩ := z
        cases r1 with
        | fail => simp only at h; cases h
        | fuelOut => simp only at h; cases h
        | ok y =>
          obtain ⟨hy2, hy3⟩ := ha y rfl
          cases y with
          | leaf j => simp only [Res.ok.injEq] at h; subst h; exact allCl_leaf _
          | deferred cl' => exact absurd rfl (hy3 cl')
          | obj fs =>
            have := key (.obj fs) st1 (fun _ h => by cases h) hy2 x
            simp only [dfsVal] at this
            exact this h
          | list xs =>
            have := key (.list xs) st1 (fun _ h => by cases h) hy2 x
            simp only [dfsVal] at this
            exact this h
    · intro ks fs st hnd hinv gs h
      cases ks with
      | nil =>
        simp only [dfsFields, Res.ok.injEq] at h; subst h
        intro x hx
        rcases hinv x hx with h1 | h1
        · exact h1
        · cases h1.1
      | cons k ks =>
        simp only [dfsFields] at h
        cases hl : lookupF fs k with
        | none =>
          simp only [hl] at h
          refine ih.fields ks fs st hnd ?_ gs h
          intro x hx
          rcases hinv x hx with h1 | h1
          · exact .inl h1
          · rcases List.mem_cons.1 h1.1 with hk | hk
            · exact absurd hk (lookupF_none hl x hx)
            · exact .inr ⟨hk, h1.2⟩
        | some v =>
          simp only [hl] at h
          have hvmem := lookupF_mem hl
          -- the value under k: finished already, or to be settled now
          have hv' : ∀ y, (dfsVal frc fuel v st).1 = .ok y → NoDef y := by
            rcases hinv _ hvmem with h1 | h1
            · intro y hy
              rcases (dfsId (frc := frc) fuel).val v st h1 with h2 | h2
              · rw [h2] at hy; cases hy
              · rw [h2] at hy; simp only [Res.ok.injEq] at hy; subst hy; exact h1
            · exact ih.val v st h1.2
          generalize dfsVal frc fuel v st = z at hv' h
          obtain ⟨r1, st1⟩ := z
          cases r1 with
          | fail => simp only at h; cases h
          | fuelOut => simp only at h; cases h
          | ok v' =>
            simp only at h
            refine ih.fields ks (setF fs k v') st1 (by rw [setF_keys]; exact hnd) ?_ gs h
            intro x hx
            rcases mem_setF hnd hx with rfl | ⟨hxm, hxk⟩
            · exact .inl (hv' v' rfl)
            · rcases hinv x hxm with h1 | h1
              · exact .inl h1
              · rcases List.mem_cons.1 h1.1 with hk | hk
                · exact absurd hk hxk
                · exact .inr ⟨hk, h1.2⟩
    · intro xs acc st hxs hacc ys h
      cases xs with
      | nil => simp only [dfsItems, Res.ok.injEq] at h; subst h; exact hacc
      | cons x xs =>
        simp only [dfsItems] at h
        have hvv := ih.val x st (hxs x List.mem_cons_self)
        generalize dfsVal frc fuel x st = z at hvv h
        obtain ⟨r1, st1⟩ := z
        cases r1 with
        | ok x' =>
          simp only at h
          refine ih.items xs (acc ++ [x']) st1 (fun y hy => hxs y (List.mem_cons_of_mem _ hy)) ?_ ys h
          intro y hy
          rcases List.mem_append.1 hy with hy | hy
          · exact hacc y hy
          · simp only [List.mem_singleton] at hy; rw [hy]; exact hvv x' rfl
        | fail => simp only at h; cases h
        | fuelOut => simp only at h; cases h

theorem frcFlat_forceAll {c : Ctx} {alt : Alt} (ha : AltND alt) (fuel : Nat) : FrcFlat (forceAll c alt fuel) := by
  intro cl st x h
  exact ⟨forceAll_nd ha fuel cl st x h, forceLoop_not_deferred (fuel + 2) (.deferred cl) st x h⟩

end GqlModel.Plan
