import GqlProofs.ValidateOverlap
/-! # C02 / C19: every call of the overlap recursion preserves the state invariant `Inv` -/
namespace GqlModel.Validate.Overlap
open GqlModel.Validate GqlModel.Validate.Graph

theorem lookup_mem' {κ β : Type} [BEq κ] [LawfulBEq κ] (k : κ) (l : List (κ × β)) (v : β)
    (h : l.lookup k = some v) : (k, v) ∈ l := by
  induction l with
  | nil => cases h
  | cons p l ih =>
    obtain ⟨a, b⟩ := p
    by_cases hk : k = a
    · subst hk
      simp at h
      subst h
      exact List.mem_cons_self
    · have : (k == a) = false := by simpa using hk
      simp [List.lookup_cons, this] at h
      exact List.mem_cons_of_mem _ (ih h)

variable {d : Document} {e : Env}

theorem getInfo_inv {st : OState} (hinv : Inv d e st) (pt : Option String) {ss : SelectionSet}
    (hss : ss ∈ allSets d) : Inv d e (getInfo e pt ss st).1 ∧ WFInfo d (getInfo e pt ss st).2 := by
  unfold getInfo
  split
  · rename_i i hi
    exact ⟨hinv, hinv.cacheWF _ (lookup_mem' _ _ _ hi)⟩
  · exact ⟨hinv.withCache pt ss hss, collectInfo_wf d e pt ss hss⟩

theorem seqCalls_inv {rec : Rec} (hrec : ∀ c st, WFCall d c → Inv d e st → Inv d e (rec c st).1)
    (cs : List Call) (st : OState) (hcs : ∀ c, c ∈ cs → WFCall d c) (hinv : Inv d e st) :
    Inv d e (seqCalls rec cs st).1 := by
  induction cs generalizing st with
  | nil => exact hinv
  | cons c cs ih =>
    simp only [seqCalls]
    exact ih _ (fun c' h => hcs c' (List.mem_cons_of_mem _ h)) (hrec c st (hcs c List.mem_cons_self) hinv)

theorem betweenCalls_wf (excl : Bool) {i1 i2 : FieldsInfo} (h1 : WFInfo d i1) (h2 : WFInfo d i2) :
    ∀ c, c ∈ betweenCalls excl i1 i2 → WFCall d c := by
  intro c hc
  simp only [betweenCalls, List.mem_flatMap] at hc
  rcases hc with ⟨kf, hkf, hc⟩
  split at hc
  · cases hc
  · rename_i fs2 hl
    simp only [List.mem_flatMap, List.mem_map] at hc
    rcases hc with ⟨a, ha, b, hb, rfl⟩
    exact ⟨h1.2.2 kf hkf a ha, h2.2.2 _ (lookup_mem' _ _ _ hl) b hb⟩

theorem withinCalls_wf {i : FieldsInfo} (h : WFInfo d i) : ∀ c, c ∈ withinCalls i → WFCall d c := by
  intro c hc
  simp only [withinCalls, List.mem_flatMap, List.mem_map] at hc
  rcases hc with ⟨kf, hkf, ab, hab, rfl⟩
  have := mem_pairsLt kf.2 ab.1 ab.2 hab
  exact ⟨h.2.2 kf hkf _ this.1, h.2.2 kf hkf _ this.2⟩

theorem topFragCalls_wf {i : FieldsInfo} (h : WFInfo d i) (fs : List String)
    (hfs : ∀ n, n ∈ fs → n ∈ allSpreadNames d) : ∀ c, c ∈ topFragCalls i fs → WFCall d c := by
  induction fs with
  | nil => intro c hc; cases hc
  | cons f rest ih =>
    intro c hc
    simp only [topFragCalls, List.mem_cons, List.mem_append, List.mem_map] at hc
    rcases hc with rfl | ⟨g, _, rfl⟩ | hc
    · exact ⟨h, hfs f List.mem_cons_self⟩
    · trivial
    · exact ih (fun n hn => hfs n (List.mem_cons_of_mem _ hn)) c hc

theorem ssBody_inv {rec : Rec} (hrec : ∀ c st, WFCall d c → Inv d e st → Inv d e (rec c st).1)
    (excl : Bool) (p1 p2 : Option String) {s1 s2 : SelectionSet} (h1 : s1 ∈ allSets d) (h2 : s2 ∈ allSets d)
    (st : OState) (hinv : Inv d e st) : Inv d e (ssBody e rec excl p1 s1 p2 s2 st).1 := by
  have g1 := getInfo_inv hinv p1 h1
  have g2 := getInfo_inv g1.1 p2 h2
  unfold ssBody
  refine seqCalls_inv hrec _ _ (fun c hc => ?_) g2.1
  simp only [List.mem_append, List.mem_map, List.mem_flatMap] at hc
  rcases hc with ((hc | ⟨f, hf, rfl⟩) | ⟨f, hf, rfl⟩) | ⟨f1, _, f2, _, rfl⟩
  · exact betweenCalls_wf excl g1.2 g2.2 c hc
  · exact ⟨g1.2, g2.2.2.1 f hf⟩
  · exact ⟨g2.2, g1.2.2.1 f hf⟩
  · trivial

theorem fcBody_inv {rec : Rec} (hrec : ∀ c st, WFCall d c → Inv d e st → Inv d e (rec c st).1)
    (pexcl : Bool) (key : String) {a b : FieldOcc} (ha : WFOcc d a) (hb : WFOcc d b) (st : OState)
    (hinv : Inv d e st) : Inv d e (fcBody e rec pexcl key a b st).1 := by
  unfold fcBody
  simp only
  split
  · exact hinv.withFC _
  · split
    · exact hinv.withFC _
    · split
      · exact hinv.withFC _
      · split
        · rename_i s1 s2 hs1 hs2
          exact ssBody_inv hrec _ _ _ (ha s1 hs1) (hb s2 hs2) _ (hinv.withFC _)
        · exact hinv.withFC _

theorem ffBody_inv (hT : ∀ f, f ∈ e.tbl → f.sel ∈ allSets d) {rec : Rec}
    (hrec : ∀ c st, WFCall d c → Inv d e st → Inv d e (rec c st).1)
    (excl : Bool) {info : FieldsInfo} (hi : WFInfo d info) {frag : String} (hf : frag ∈ allSpreadNames d)
    (st : OState) (hinv : Inv d e st) : Inv d e (ffBody e rec excl info frag st).1 := by
  unfold ffBody
  split
  · exact hinv
  · rename_i hnew
    have hnew' : memoHas st.cmpFF (info.id, frag) excl = false := by simpa using hnew
    have hinv1 := hinv.withFF info.id frag excl hnew' hi.1 hf
    simp only
    split
    · exact hinv1
    · rename_i f hl
      have g := getInfo_inv (e := e) hinv1 (namedOf e.s f.typeCond) (hT f (lookupFrag_some hl).1)
      unfold getRefInfo
      split
      · exact g.1
      · refine seqCalls_inv hrec _ _ (fun c hc => ?_) g.1
        simp only [List.mem_append, List.mem_map] at hc
        rcases hc with hc | ⟨n, hn, rfl⟩
        · exact betweenCalls_wf excl hi g.2 c hc
        · exact ⟨hi, g.2.2.1 n hn⟩

theorem bfBody_inv (hT : ∀ f, f ∈ e.tbl → f.sel ∈ allSets d) {rec : Rec}
    (hrec : ∀ c st, WFCall d c → Inv d e st → Inv d e (rec c st).1)
    (excl : Bool) (n1 n2 : String) (st : OState) (hinv : Inv d e st) :
    Inv d e (bfBody e rec excl n1 n2 st).1 := by
  unfold bfBody
  split
  · rename_i f1 f2 hl1 hl2
    split
    · exact hinv
    · rename_i hne
      split
      · exact hinv
      · rename_i hnew
        have hnew' : memoHas st.cmpBF (n1, n2) excl = false := by simpa using hnew
        have hne' : n1 ≠ n2 := by simpa using hne
        have hinv1 := hinv.withBF n1 n2 excl hne' hnew' (lookupFrag_mem_names hl1) (lookupFrag_mem_names hl2)
        have g1 := getInfo_inv (e := e) hinv1 (namedOf e.s f1.typeCond) (hT f1 (lookupFrag_some hl1).1)
        have g2 := getInfo_inv (e := e) g1.1 (namedOf e.s f2.typeCond) (hT f2 (lookupFrag_some hl2).1)
        simp only
        unfold getRefInfo
        refine seqCalls_inv hrec _ _ (fun c hc => ?_) g2.1
        simp only [List.mem_append, List.mem_map] at hc
        rcases hc with (hc | ⟨n, _, rfl⟩) | ⟨n, _, rfl⟩
        · exact betweenCalls_wf excl g1.2 g2.2 c hc
        · trivial
        · trivial
  · exact hinv

theorem body_inv (hT : ∀ f, f ∈ e.tbl → f.sel ∈ allSets d) {rec : Rec}
    (hrec : ∀ c st, WFCall d c → Inv d e st → Inv d e (rec c st).1)
    (c : Call) (st : OState) (hc : WFCall d c) (hinv : Inv d e st) : Inv d e (body e rec c st).1 := by
  cases c with
  | fc excl key a b => exact fcBody_inv hrec excl key hc.1 hc.2 st hinv
  | ff excl info frag => exact ffBody_inv hT hrec excl hc.1 hc.2 st hinv
  | bf excl n1 n2 => exact bfBody_inv hT hrec excl n1 n2 st hinv

/-- every call of the recursion, at every fuel, preserves the invariant -/
theorem run_inv (hT : ∀ f, f ∈ e.tbl → f.sel ∈ allSets d) (fuel : Nat) (c : Call) (st : OState)
    (hc : WFCall d c) (hinv : Inv d e st) : Inv d e (run e fuel c st).1 := by
  induction fuel generalizing c st with
  | zero => exact hinv.withOof _
  | succ fuel ih => exact body_inv hT (fun c st hc hinv => ih c st hc hinv) c st hc hinv

theorem visitSet_inv (hT : ∀ f, f ∈ e.tbl → f.sel ∈ allSets d) (fuel : Nat) (pt : Option String)
    {ss : SelectionSet} (hss : ss ∈ allSets d) (st : OState) (hinv : Inv d e st) :
    Inv d e (visitSet e fuel pt ss st).1 := by
  have g := getInfo_inv hinv pt hss
  unfold visitSet
  refine seqCalls_inv (run_inv hT fuel) _ _ (fun c hc => ?_) g.1
  rcases List.mem_append.1 hc with hc | hc
  · exact withinCalls_wf g.2 c hc
  · exact topFragCalls_wf g.2 _ g.2.2.1 c hc

theorem overlapRun_inv (hT : ∀ f, f ∈ e.tbl → f.sel ∈ allSets d) (fuel : Nat)
    (sets : List (TCtx × SelectionSet)) (hsets : ∀ cs, cs ∈ sets → cs.2 ∈ allSets d) :
    Inv d e (overlapRun e fuel sets).1 := by
  unfold overlapRun
  suffices h : ∀ (acc : OState × List Conflict), Inv d e acc.1 →
      Inv d e (sets.foldl (fun acc cs =>
        ((visitSet e fuel cs.1.parent cs.2 acc.1).1, acc.2 ++ (visitSet e fuel cs.1.parent cs.2 acc.1).2)) acc).1 from
    h _ (Inv.init d e)
  induction sets with
  | nil => intro acc h; exact h
  | cons cs rest ih =>
    intro acc h
    simp only [List.foldl_cons]
    exact ih (fun x hx => hsets x (List.mem_cons_of_mem _ hx)) _
      (visitSet_inv hT fuel _ (hsets cs List.mem_cons_self) _ h)

/-! ## the visitor's selection sets are selection sets of the document -/

mutual
theorem setsOfSel_below (s : Schema) : ∀ (c : TCtx) (x : Selection) (p : TCtx × SelectionSet),
    p ∈ setsOfSel s c x → p.2 ∈ belowSel x
  | c, .field _ nm _ _ sel _, p, hp => by
    simp only [setsOfSel] at hp
    simp only [belowSel]
    exact setsOfOpt_below s _ sel p hp
  | c, .spread .., p, hp => by simp [setsOfSel] at hp
  | c, .inline tc _ ss _, p, hp => by
    simp only [setsOfSel] at hp
    simp only [belowSel]
    exact setsOfSet_below s _ ss p hp
theorem setsOfSet_below (s : Schema) : ∀ (c : TCtx) (x : SelectionSet) (p : TCtx × SelectionSet),
    p ∈ setsOfSet s c x → p.2 ∈ belowSet x
  | c, .mk sels lc, p, hp => by
    simp only [setsOfSet, List.mem_cons] at hp
    simp only [belowSet, List.mem_cons]
    rcases hp with rfl | hp
    · exact .inl rfl
    · exact .inr (setsOfSels_below s _ sels p hp)
theorem setsOfOpt_below (s : Schema) : ∀ (c : TCtx) (x : Option SelectionSet) (p : TCtx × SelectionSet),
    p ∈ setsOfOpt s c x → p.2 ∈ belowOpt x
  | c, none, p, hp => by simp [setsOfOpt] at hp
  | c, some ss, p, hp => by
    simp only [setsOfOpt] at hp
    simp only [belowOpt]
    exact setsOfSet_below s c ss p hp
theorem setsOfSels_below (s : Schema) : ∀ (c : TCtx) (x : List Selection) (p : TCtx × SelectionSet),
    p ∈ setsOfSels s c x → p.2 ∈ belowSels x
  | c, [], p, hp => by simp [setsOfSels] at hp
  | c, x :: xs, p, hp => by
    simp only [setsOfSels, List.mem_append] at hp
    simp only [belowSels, List.mem_append]
    rcases hp with hp | hp
    · exact .inl (setsOfSel_below s c x p hp)
    · exact .inr (setsOfSels_below s c xs p hp)
end

theorem typedSelSets_sub (s : Schema) (d : Document) : ∀ cs, cs ∈ typedSelSets s d → cs.2 ∈ allSets d := by
  intro cs hcs
  simp only [typedSelSets, List.mem_flatMap] at hcs
  rcases hcs with ⟨df, hdf, hcs⟩
  split at hcs
  · rename_i c sel hctx
    have hb := setsOfSet_below s c sel cs hcs
    refine List.mem_flatMap.2 ⟨sel, ?_, hb⟩
    simp only [rootSets, List.mem_filterMap]
    refine ⟨df, hdf, ?_⟩
    cases df <;> simp [defCtx] at hctx ⊢
    · exact hctx.2
    · exact hctx.2
  · cases hcs

theorem fragDefs_sel_sub (d : Document) : ∀ f, f ∈ fragDefs d → f.sel ∈ allSets d :=
  fun _ h => fragSel_mem_allSets h

/-! ## counting -/

/-- universe of the keys of `comparedFieldsAndFragmentSet` -/
def univFF (d : Document) : List (Loc × String × Bool) := prod (setIds d) (prod (allSpreadNames d) [false, true])
/-- universe of the keys of `comparedSet` -/
def univBF (tbl : List Frag) : List (String × String × Bool) := prod (fragNames tbl) (prod (fragNames tbl) [false, true])

theorem length_univFF (d : Document) : (univFF d).length = 2 * (nSets d * nSpreadNames d) := by
  simp only [univFF, length_prod, setIds, List.length_map, nSets, nSpreadNames, List.length_cons, List.length_nil]
  rw [Nat.mul_comm (allSpreadNames d).length 2, ← Nat.mul_assoc, Nat.mul_comm _ 2, Nat.mul_assoc]

theorem length_univBF (tbl : List Frag) : (univBF tbl).length = 2 * (tbl.length * tbl.length) := by
  simp only [univBF, length_prod, fragNames, List.length_map, List.length_cons, List.length_nil]
  rw [Nat.mul_comm tbl.length 2, ← Nat.mul_assoc, Nat.mul_comm _ 2, Nat.mul_assoc]

theorem Inv.counts {d : Document} {e : Env} {st : OState} (h : Inv d e st) :
    st.cntFF ≤ 2 * (nSets d * nSpreadNames d) ∧ st.cntBF ≤ 2 * (e.tbl.length * e.tbl.length) := by
  constructor
  · rw [← length_univFF]
    refine nodup_length_le _ _ h.ffNodup (fun k hk => ?_)
    obtain ⟨id, n, b⟩ := k
    have := h.ffUniv _ hk
    rw [univFF, mem_prod, mem_prod]
    exact ⟨this.1, this.2, by cases b <;> simp⟩
  · rw [← length_univBF]
    refine nodup_length_le _ _ h.bfNodup (fun k hk => ?_)
    obtain ⟨a, n, b⟩ := k
    have := h.bfUniv _ hk
    rw [univBF, mem_prod, mem_prod]
    exact ⟨this.1, this.2, by cases b <;> simp⟩

end GqlModel.Validate.Overlap
