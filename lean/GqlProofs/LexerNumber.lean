import GqlProofs.LexerIgnored
/-! M = S, part 2: `readNumber` (lexer.go:139-216) = `Spec.number`. -/
namespace GqlModel.Lexer
open GqlModel.Utf8 GqlModel.Lexer.Spec

/-- the scanner state "at `rest`, byte position `p`, rune freshly read" -/
def mkSt (rest : Bytes) (p : Nat) : NumSt := ⟨rest, p, (runeAt rest).1, (runeAt rest).2⟩

theorem advance_ascii (c : UInt8) (r : Bytes) (p : Nat) (h : c.toNat < 128) :
    (mkSt (c :: r) p).advance = mkSt r (p + 1) := by
  simp [mkSt, NumSt.advance, width_ascii c r h]

theorem isDigitByte_lt {c : UInt8} (h : isDigitByte c) : c.toNat < 128 := by
  unfold isDigitByte at h; omega

theorem isDigitCode_mkSt (rest : Bytes) (p : Nat) : isDigitCode (mkSt rest p).code ↔ 0 < digitsLen rest := by
  match rest with
  | [] => simp [mkSt, runeAt, isDigitCode, digitsLen, spanLen]
  | c :: r =>
    simp only [mkSt, isDigitCode_iff, digitsLen_cons]
    split <;> simp_all

theorem readDigitsLoop_spec : ∀ (f : Nat) (rest : Bytes) (p : Nat), rest.length < f →
    readDigitsLoop f (mkSt rest p) = mkSt (rest.drop (digitsLen rest)) (p + digitsLen rest) := by
  intro f
  induction f with
  | zero => intro rest p h; omega
  | succ f ih =>
    intro rest p hlen
    rw [readDigitsLoop]
    match rest with
    | [] =>
      have : ¬ isDigitCode (mkSt [] p).code := by rw [isDigitCode_mkSt]; simp [digitsLen, spanLen]
      rw [if_neg this]; simp [digitsLen, spanLen]
    | c :: r =>
      simp only [List.length_cons] at hlen
      by_cases hd : isDigitByte c
      · have : isDigitCode (mkSt (c :: r) p).code := by rw [isDigitCode_mkSt, digitsLen_cons, if_pos hd]; omega
        rw [if_pos this, advance_ascii c r p (isDigitByte_lt hd), ih r (p + 1) (by omega), digitsLen_cons, if_pos hd,
          List.drop_succ_cons]
        congr 1; omega
      · have : ¬ isDigitCode (mkSt (c :: r) p).code := by rw [isDigitCode_mkSt, digitsLen_cons, if_neg hd]; omega
        rw [if_neg this, digitsLen_cons, if_neg hd]; simp

theorem readDigits_spec (f : Nat) (rest : Bytes) (p : Nat) (hlen : rest.length < f) :
    readDigits f (mkSt rest p) =
      if digitsLen rest = 0 then .error ⟨p, .expectedDigit⟩
      else .ok (mkSt (rest.drop (digitsLen rest)) (p + digitsLen rest)) := by
  unfold readDigits
  by_cases h : 0 < digitsLen rest
  · rw [if_pos ((isDigitCode_mkSt rest p).mpr h), if_neg (by omega), readDigitsLoop_spec f rest p hlen]
  · rw [if_neg (fun h' => h ((isDigitCode_mkSt rest p).mp h')), if_pos (by omega)]
    simp [mkSt]

/-- shifting a spec result to absolute positions -/
def liftPos (p : Nat) (rest : Bytes) : Except (Nat × ErrKind) Nat → Except LexErr NumSt
  | .ok i => .ok (mkSt (rest.drop i) (p + i))
  | .error (o, e) => .error ⟨p + o, e⟩

theorem code_mkSt_cons (c : UInt8) (r : Bytes) (p : Nat) : (mkSt (c :: r) p).code = (runeAt (c :: r)).1 := rfl

theorem numIntCore_spec (f : Nat) (rest : Bytes) (p : Nat) (hlen : rest.length < f) :
    numInt f (mkSt rest p) =
      match rest with
      | c :: r =>
        if c = 48 then
          match r with
          | d :: _ => if isDigitByte d then .error ⟨p + 1, .digitAfterZero⟩ else .ok (mkSt r (p + 1))
          | [] => .ok (mkSt r (p + 1))
        else if isDigitByte c then .ok (mkSt ((c :: r).drop (digitsLen (c :: r))) (p + digitsLen (c :: r)))
        else .error ⟨p, .expectedDigit⟩
      | [] => .error ⟨p, .expectedDigit⟩ := by
  unfold numInt
  match rest with
  | [] =>
    have : ¬ (mkSt [] p).code = 48 := by simp [mkSt, runeAt]
    rw [if_neg this, readDigits_spec f [] p hlen]; simp [digitsLen, spanLen]
  | c :: r =>
    have hc := c.toNat_lt
    simp only [code_mkSt_cons]
    simp (disch := omega) only [code_eq]
    by_cases h0 : c = 48
    · have h0' : (c.toNat : Int) = 48 := by bnorm at h0; omega
      have hlt : c.toNat < 128 := by omega
      rw [if_pos h0', if_pos h0, advance_ascii c r p hlt]
      match r with
      | [] => simp [mkSt, runeAt, isDigitCode]
      | d :: r' =>
        simp only [code_mkSt_cons, isDigitCode_iff]
        split <;> simp [mkSt]
    · have h0' : ¬ (c.toNat : Int) = 48 := by bnorm at h0; omega
      rw [if_neg h0', if_neg h0, readDigits_spec f (c :: r) p hlen, digitsLen_cons]
      by_cases hd : isDigitByte c
      · simp [hd]
      · simp [hd]

theorem numInt_spec (f : Nat) (rest : Bytes) (p : Nat) (hlen : rest.length < f) :
    numInt f (numSign (mkSt rest p)) = liftPos p rest (integerPart rest) := by
  match rest with
  | [] =>
    have : ¬ (mkSt [] p).code = 45 := by simp [mkSt, runeAt]
    rw [numSign, if_neg this, numIntCore_spec f [] p hlen]
    simp [integerPart, liftPos]
  | c :: r =>
    have hc := c.toNat_lt
    simp only [List.length_cons] at hlen
    unfold numSign
    simp only [code_mkSt_cons]
    simp (disch := omega) only [code_eq]
    by_cases hm : c = 45
    · have hm' : (c.toNat : Int) = 45 := by bnorm at hm; omega
      have hlt : c.toNat < 128 := by omega
      rw [if_pos hm', advance_ascii c r p hlt, numIntCore_spec f r (p + 1) (by omega)]
      subst hm
      simp only [integerPart, if_true, List.drop_succ_cons, List.drop_zero]
      match r with
      | [] => simp [liftPos]
      | c2 :: r2 =>
        simp only
        by_cases h0 : c2 = 48
        · simp only [h0, if_true]
          match r2 with
          | [] => simp [liftPos, Nat.add_assoc]
          | d :: r3 =>
            simp only
            split <;> simp [liftPos, Nat.add_assoc]
        · simp only [h0, if_false]
          by_cases hd : isDigitByte c2
          · simp only [hd, if_true, liftPos]
            simp only [Nat.add_comm 1, List.drop_succ_cons, Nat.add_assoc]
          · simp [hd, liftPos]
    · have hm' : ¬ (c.toNat : Int) = 45 := by bnorm at hm; omega
      rw [if_neg hm', numIntCore_spec f (c :: r) p (by simp; omega)]
      simp only [integerPart, hm, if_false, List.drop_zero, Nat.zero_add]
      by_cases h0 : c = 48
      · simp only [h0, if_true]
        match r with
        | [] => simp [liftPos]
        | d :: r3 =>
          simp only
          split <;> simp [liftPos]
      · simp only [h0, if_false]
        by_cases hd : isDigitByte c
        · simp [hd, liftPos]
        · simp [hd, liftPos]

/-- the same for the optional parts, which also report whether they were present -/
def liftPosB (p : Nat) (rest : Bytes) : Except (Nat × ErrKind) Nat → Except LexErr (NumSt × Bool)
  | .ok i => .ok (mkSt (rest.drop i) (p + i), decide (i ≠ 0))
  | .error (o, e) => .error ⟨p + o, e⟩

theorem numFrac_spec (f : Nat) (rest : Bytes) (p : Nat) (hlen : rest.length < f) :
    numFrac f (mkSt rest p) = liftPosB p rest (fractionalPart rest) := by
  unfold numFrac
  match rest with
  | [] => simp [mkSt, runeAt, fractionalPart, liftPosB]
  | c :: r =>
    have hc := c.toNat_lt
    simp only [List.length_cons] at hlen
    simp only [code_mkSt_cons]
    simp (disch := omega) only [code_eq]
    by_cases hm : c = 46
    · have hm' : (c.toNat : Int) = 46 := by bnorm at hm; omega
      have hlt : c.toNat < 128 := by omega
      rw [if_pos hm', advance_ascii c r p hlt, readDigits_spec f r (p + 1) (by omega)]
      simp only [fractionalPart, hm, if_true]
      by_cases hz : digitsLen r = 0
      · simp [hz, liftPosB]
      · simp only [hz, if_false, liftPosB]
        simp only [Nat.add_comm 1, List.drop_succ_cons, Nat.add_assoc]
        simp
    · have hm' : ¬ (c.toNat : Int) = 46 := by bnorm at hm; omega
      rw [if_neg hm']
      simp [fractionalPart, hm, liftPosB]

theorem numExp_spec (f : Nat) (rest : Bytes) (p : Nat) (hlen : rest.length < f) :
    numExp f (mkSt rest p) = liftPosB p rest (exponentPart rest) := by
  unfold numExp
  match rest with
  | [] => simp [mkSt, runeAt, exponentPart, liftPosB]
  | c :: r =>
    have hc := c.toNat_lt
    simp only [List.length_cons] at hlen
    simp only [code_mkSt_cons]
    simp (disch := omega) only [code_eq]
    by_cases hm : c = 69 ∨ c = 101
    · have hm' : (c.toNat : Int) = 69 ∨ (c.toNat : Int) = 101 := by bnorm at hm; omega
      have hlt : c.toNat < 128 := by omega
      rw [if_pos hm', advance_ascii c r p hlt]
      simp only [exponentPart, hm, if_true]
      match r with
      | [] =>
        have : ¬ ((mkSt [] (p + 1)).code = 43 ∨ (mkSt [] (p + 1)).code = 45) := by simp [mkSt, runeAt]
        simp only [this, if_false]
        rw [readDigits_spec f [] (p + 1) (by simp; omega)]
        simp [digitsLen, spanLen, liftPosB]
      | s :: r2 =>
        have hs := s.toNat_lt
        simp only [List.length_cons] at hlen
        simp only [code_mkSt_cons]
        simp (disch := omega) only [code_eq]
        by_cases hsg : s = 43 ∨ s = 45
        · have hsg' : (s.toNat : Int) = 43 ∨ (s.toNat : Int) = 45 := by bnorm at hsg; omega
          have hslt : s.toNat < 128 := by omega
          simp only [hsg', hsg, if_true, advance_ascii s r2 (p + 1) hslt, List.drop_succ_cons, List.drop_zero]
          rw [readDigits_spec f r2 (p + 1 + 1) (by omega)]
          by_cases hz : digitsLen r2 = 0
          · simp [hz, liftPosB]
          · simp only [hz, if_false, liftPosB]
            simp only [Nat.add_comm 1, List.drop_succ_cons, Nat.add_assoc]
            simp
        · have hsg' : ¬ ((s.toNat : Int) = 43 ∨ (s.toNat : Int) = 45) := by bnorm at hsg; omega
          simp only [hsg', hsg, if_false, List.drop_zero]
          rw [readDigits_spec f (s :: r2) (p + 1) (by simp; omega)]
          by_cases hz : digitsLen (s :: r2) = 0
          · simp [hz, liftPosB]
          · simp only [hz, if_false, liftPosB]
            simp only [Nat.add_comm 1, List.drop_succ_cons, Nat.add_assoc]
            simp
    · have hm' : ¬ ((c.toNat : Int) = 69 ∨ (c.toNat : Int) = 101) := by bnorm at hm; omega
      rw [if_neg hm']
      simp [exponentPart, hm, liftPosB]

/-- `readNumber` at `rest` (called with the rune there) is the spec's number scan, at absolute offsets -/
theorem readNumber_spec (f : Nat) (rest : Bytes) (p : Nat) (hlen : rest.length < f) :
    readNumber f rest p (runeAt rest).1 (runeAt rest).2 =
      match number rest with
      | .ok (k, len) => .ok (makeToken k p (p + len) (rest.take len))
      | .error (o, e) => .error ⟨p + o, e⟩ := by
  unfold readNumber number
  have e0 : (⟨rest, p, (runeAt rest).1, (runeAt rest).2⟩ : NumSt) = mkSt rest p := rfl
  rw [e0, numInt_spec f rest p hlen]
  match integerPart rest with
  | .error (o, e) => simp [liftPos]
  | .ok i =>
    simp only [liftPos]
    rw [numFrac_spec f (rest.drop i) (p + i) (by simp only [List.length_drop]; omega)]
    match fractionalPart (rest.drop i) with
    | .error (o, e) => simp [liftPosB, Nat.add_assoc]
    | .ok fl =>
      simp only [liftPosB, List.drop_drop]
      rw [numExp_spec f (rest.drop (i + fl)) (p + i + fl) (by simp only [List.length_drop]; omega)]
      match exponentPart (rest.drop (i + fl)) with
      | .error (o, e) => simp [liftPosB, Nat.add_assoc]
      | .ok x =>
        simp only [liftPosB, mkSt]
        have e1 : p + i + fl + x - p = i + fl + x := by omega
        rw [e1]
        by_cases hf : fl = 0 <;> by_cases hx : x = 0 <;> simp [hf, hx, makeToken, Nat.add_assoc]

end GqlModel.Lexer
