import GqlProofs.ValidateOverlapColl
/-! # C02 completeness, part 2 (operational): the coverage invariant of the memo tables

If the rule reports nothing, then after every call `c` the call is *covered* (`Cov`): a `findConflict` found its three
tests negative and every comparison of its sub-selections is covered; a fields/fragment or fragment/fragment
comparison is answered `true` by `Has` — it was executed before (or is being executed) under a not-weaker flag.
`HistP` records for every EXECUTED memo body (logged key, not pending) that all the comparisons its body makes are
covered; `TblLog` that every table entry stems from a logged execution. No acyclicity is needed here. -/
namespace GqlModel.Validate.Overlap
open GqlModel.Validate GqlModel.Validate.Graph

variable (d : Document) (e : Env) (π : SelectionSet → Option String)

/-- the collection the cache holds for a selection set of the document -/
def cI (X : SelectionSet) : FieldsInfo := collectInfo e (π X) X

def ssCalls (x : Bool) (s1 s2 : SelectionSet) : List Call :=
  betweenCalls x (cI e π s1) (cI e π s2) ++ (cI e π s2).frags.map (fun f => Call.ff x (cI e π s1) f)
    ++ (cI e π s1).frags.map (fun f => Call.ff x (cI e π s2) f)
    ++ (cI e π s1).frags.flatMap (fun f1 => (cI e π s2).frags.map (fun f2 => Call.bf x f1 f2))

def ffCalls (x : Bool) (X : SelectionSet) (f : Frag) : List Call :=
  betweenCalls x (cI e π X) (cI e π f.sel) ++ (cI e π f.sel).frags.map (fun g => Call.ff x (cI e π X) g)

def bfCalls (x : Bool) (n1 n2 : String) (f1 f2 : Frag) : List Call :=
  betweenCalls x (cI e π f1.sel) (cI e π f2.sel) ++ (cI e π f2.sel).frags.map (fun g => Call.bf x n1 g)
    ++ (cI e π f1.sel).frags.map (fun g => Call.bf x g n2)

def visCalls (X : SelectionSet) : List Call :=
  withinCalls (cI e π X) ++ topFragCalls (cI e π X) (cI e π X).frags

/-- the three tests of `findConflict` are negative -/
def fcQuiet (x : Bool) (a b : FieldOcc) : Prop :=
  (!(exclOf e x a b) && a.node.name.value != b.node.name.value) = false ∧
  (!(exclOf e x a b) && !sameArguments a.node.args b.node.args) = false ∧
  typesConflict e.s a b = false

inductive Cov (S : OState) : Call → Prop
  | ff {x info frag} : memoHas S.cmpFF (info.id, frag) x = true → Cov S (.ff x info frag)
  | bf {x n1 n2} : (lookupFrag e.tbl n1 = none ∨ lookupFrag e.tbl n2 = none ∨ n1 = n2 ∨
      memoHas S.cmpBF (n1, n2) x = true) → Cov S (.bf x n1 n2)
  | fc {x key a b} : fcQuiet e x a b →
      (∀ s1 s2, a.node.sel = some s1 → b.node.sel = some s2 → ∀ c, c ∈ ssCalls e π (exclOf e x a b) s1 s2 → Cov S c) →
      Cov S (.fc x key a b)

/-- `Has` answers of the first state survive in the second -/
def Mono (S S' : OState) : Prop :=
  (∀ k x, memoHas S.cmpFF k x = true → memoHas S'.cmpFF k x = true) ∧
  (∀ k x, memoHas S.cmpBF k x = true → memoHas S'.cmpBF k x = true)

theorem Mono.refl (S : OState) : Mono S S := ⟨fun _ _ h => h, fun _ _ h => h⟩
theorem Mono.trans {A B C : OState} (h1 : Mono A B) (h2 : Mono B C) : Mono A C :=
  ⟨fun k x h => h2.1 k x (h1.1 k x h), fun k x h => h2.2 k x (h1.2 k x h)⟩

theorem Mono.of_eq {S S' : OState} (h1 : S'.cmpFF = S.cmpFF) (h2 : S'.cmpBF = S.cmpBF) : Mono S S' :=
  ⟨fun k x h => by rw [h1]; exact h, fun k x h => by rw [h2]; exact h⟩

variable {e π}

theorem Cov.mono {S S' : OState} (hm : Mono S S') {c : Call} (h : Cov e π S c) : Cov e π S' c := by
  induction h with
  | ff h => exact .ff (hm.1 _ _ h)
  | bf h =>
    refine .bf ?_
    rcases h with h | h | h | h
    · exact .inl h
    · exact .inr (.inl h)
    · exact .inr (.inr (.inl h))
    · exact .inr (.inr (.inr (hm.2 _ _ h)))
  | fc hq _ ih => exact .fc hq (fun s1 s2 h1 h2 c hc => ih s1 s2 h1 h2 c hc)

variable (e π)

/-- keys of memo bodies that are being executed -/
structure Pending where
  ff : List (Loc × String × Bool)
  bf : List (String × String × Bool)

structure HistP (S : OState) (P : Pending) : Prop where
  ff : ∀ k, k ∈ S.logFF → k ∉ P.ff → ∀ X, X ∈ allSets d → X.loc = k.1 → ∀ f, lookupFrag e.tbl k.2.1 = some f →
    X.loc ≠ f.sel.loc → ∀ c, c ∈ ffCalls e π k.2.2 X f → Cov e π S c
  bf : ∀ k, k ∈ S.logBF → k ∉ P.bf → ∀ f1 f2, lookupFrag e.tbl k.1 = some f1 → lookupFrag e.tbl k.2.1 = some f2 →
    ∀ c, c ∈ bfCalls e π k.2.2 k.1 k.2.1 f1 f2 → Cov e π S c

structure TblLog (S : OState) : Prop where
  ff : ∀ p, p ∈ S.cmpFF → (p.1.1, p.1.2, p.2) ∈ S.logFF
  bf : ∀ p, p ∈ S.cmpBF → (p.1.1, p.1.2, p.2) ∈ S.logBF ∨ (p.1.2, p.1.1, p.2) ∈ S.logBF
  sym : ∀ a b, S.cmpBF.lookup (a, b) = S.cmpBF.lookup (b, a)

structure KInv (S : OState) (P : Pending) : Prop where
  cache : CacheCoh d e π S
  tbl : TblLog S
  hist : HistP d e π S P

variable {d e π}

theorem HistP.mono {S S' : OState} {P : Pending} (h : HistP d e π S P) (hm : Mono S S')
    (hff : S'.logFF = S.logFF) (hbf : S'.logBF = S.logBF) : HistP d e π S' P :=
  ⟨fun k hk hp X hX hl f hf hne c hc => (h.ff k (hff ▸ hk) hp X hX hl f hf hne c hc).mono hm,
   fun k hk hp f1 f2 h1 h2 c hc => (h.bf k (hbf ▸ hk) hp f1 f2 h1 h2 c hc).mono hm⟩

theorem getInfo_tables (pt : Option String) (ss : SelectionSet) (st : OState) :
    (getInfo e pt ss st).1.cmpFF = st.cmpFF ∧ (getInfo e pt ss st).1.cmpBF = st.cmpBF ∧
    (getInfo e pt ss st).1.logFF = st.logFF ∧ (getInfo e pt ss st).1.logBF = st.logBF ∧
    (getInfo e pt ss st).1.oof = st.oof := by
  unfold getInfo
  split <;> exact ⟨rfl, rfl, rfl, rfl, rfl⟩

/-- a cache lookup does not disturb the invariant -/
theorem getInfo_kinv (hc : Coh d e π) {st : OState} {P : Pending} (h : KInv d e π st P) {ss : SelectionSet}
    (hss : ss ∈ allSets d) :
    (getInfo e (π ss) ss st).2 = cI e π ss ∧ KInv d e π (getInfo e (π ss) ss st).1 P ∧
    Mono st (getInfo e (π ss) ss st).1 ∧ Mono (getInfo e (π ss) ss st).1 st ∧
    (getInfo e (π ss) ss st).1.oof = st.oof := by
  have g := getInfo_coh hc h.cache hss
  have t := getInfo_tables (e := e) (π ss) ss st
  have m1 : Mono st (getInfo e (π ss) ss st).1 := Mono.of_eq t.1 t.2.1
  have m2 : Mono (getInfo e (π ss) ss st).1 st := Mono.of_eq t.1.symm t.2.1.symm
  refine ⟨g.1, ⟨g.2.1, ⟨?_, ?_, ?_⟩, h.hist.mono m1 t.2.2.1 t.2.2.2.1⟩, m1, m2, t.2.2.2.2⟩
  · intro p hp; rw [t.1] at hp; rw [t.2.2.1]; exact h.tbl.ff p hp
  · intro p hp; rw [t.2.1] at hp; rw [t.2.2.2.1]; exact h.tbl.bf p hp
  · intro a b; rw [t.2.1]; exact h.tbl.sym a b

/-- what a call guarantees when it reports nothing and fuel did not run out -/
def CSpec (d : Document) (e : Env) (π : SelectionSet → Option String) (rec : Rec) : Prop :=
  ∀ c st P, SCall d e π c → KInv d e π st P →
    (rec c st).2 = [] → (rec c st).1.oof = false →
      KInv d e π (rec c st).1 P ∧ Cov e π (rec c st).1 c ∧ Mono st (rec c st).1

/-! ### fuel exhaustion is sticky -/

def Sticky (rec : Rec) : Prop := ∀ c st, st.oof = true → (rec c st).1.oof = true

theorem seqCalls_sticky {rec : Rec} (hrec : Sticky rec) (cs : List Call) (st : OState) (h : st.oof = true) :
    (seqCalls rec cs st).1.oof = true := by
  induction cs generalizing st with
  | nil => exact h
  | cons c cs ih => simp only [seqCalls]; exact ih _ (hrec c st h)

theorem ite_oof {c : Prop} [Decidable c] (A B : OState × List Conflict) (hA : A.1.oof = true)
    (hB : B.1.oof = true) : (if c then A else B).1.oof = true := by
  split <;> assumption

theorem body_sticky {rec : Rec} (hrec : Sticky rec) : Sticky (body e rec) := by
  intro c st h
  have gi : ∀ pt ss (st' : OState), st'.oof = true → (getInfo e pt ss st').1.oof = true :=
    fun pt ss st' h' => by rw [(getInfo_tables (e := e) pt ss st').2.2.2.2]; exact h'
  cases c with
  | fc x key a b =>
    simp only [body, fcBody]
    split
    · exact h
    · split
      · exact h
      · split
        · exact h
        · split
          · simp only [ssBody]
            exact seqCalls_sticky hrec _ _ (gi _ _ _ (gi _ _ _ h))
          · exact h
  | ff x info frag =>
    simp only [body, ffBody]
    split
    · exact h
    · split
      · exact h
      · simp only [getRefInfo]
        exact ite_oof _ _ (gi _ _ _ h) (seqCalls_sticky hrec _ _ (gi _ _ _ h))
  | bf x n1 n2 =>
    simp only [body, bfBody]
    split
    · split
      · exact h
      · split
        · exact h
        · simp only [getRefInfo]
          exact seqCalls_sticky hrec _ _ (gi _ _ _ (gi _ _ _ h))
    · exact h

theorem run_sticky (fuel : Nat) : Sticky (run e fuel) := by
  induction fuel with
  | zero => intro c st _; rfl
  | succ fuel ih => exact body_sticky ih

theorem seqCalls_cov {rec : Rec} (hst : Sticky rec) (hrec : CSpec d e π rec) (cs : List Call) (st : OState)
    (P : Pending) (hcs : ∀ c, c ∈ cs → SCall d e π c) (hk : KInv d e π st P)
    (hnil : (seqCalls rec cs st).2 = []) (hoof : (seqCalls rec cs st).1.oof = false) :
    KInv d e π (seqCalls rec cs st).1 P ∧ (∀ c, c ∈ cs → Cov e π (seqCalls rec cs st).1 c) ∧
    Mono st (seqCalls rec cs st).1 := by
  induction cs generalizing st with
  | nil =>
    refine ⟨hk, ?_, Mono.refl _⟩
    intro c hc; cases hc
  | cons c cs ih =>
    simp only [seqCalls] at hnil hoof ⊢
    have hcs' : ∀ c', c' ∈ cs → SCall d e π c' := fun c' h => hcs c' (List.mem_cons_of_mem _ h)
    have hn := List.append_eq_nil_iff.1 hnil
    have hmid : (rec c st).1.oof = false := by
      cases hm : (rec c st).1.oof with
      | false => rfl
      | true => rw [seqCalls_sticky hst cs (rec c st).1 hm] at hoof; cases hoof
    have h1 := hrec c st P (hcs c List.mem_cons_self) hk hn.1 hmid
    have h2 := ih (rec c st).1 hcs' h1.1 hn.2 hoof
    refine ⟨h2.1, fun c' hc' => ?_, h1.2.2.trans h2.2.2⟩
    rcases List.mem_cons.1 hc' with rfl | hc'
    · exact h1.2.1.mono h2.2.2
    · exact h2.2.1 c' hc'

end GqlModel.Validate.Overlap
