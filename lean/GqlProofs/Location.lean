import GqlModel.Location
/-! Helper lemmas for C18 (core Lean only). The chain towards `getLocation_eq_spec`:
`terms_eq` (the match list is the list of terminator starts, each with its end) →
`goLoop_prefix` (running the loop over the matches that start below `m ≤ pos` leaves `(specLine m, pos+1-specLineStart m)`)
→ `goLoop_all_ge` (the first match at or after `pos` stops the loop). -/
namespace GqlModel.Location

/-! ## list bookkeeping -/

theorem drop_cons_getElem? {α} {full : List α} {i : Nat} {c : α} {rest : List α}
    (h : full.drop i = c :: rest) : full[i]? = some c := by
  have := congrArg List.head? h
  simpa [List.head?_drop] using this

theorem drop_cons_drop {α} {full : List α} {i : Nat} {c : α} {rest : List α}
    (h : full.drop i = c :: rest) : full.drop (i + 1) = rest := by
  have := congrArg List.tail h
  simpa [List.tail_drop] using this

theorem drop_nil_getElem? {α} {full : List α} {i : Nat}
    (h : full.drop i = []) : full[i]? = none := by
  have := congrArg List.head? h
  simpa [List.head?_drop] using this

/-! ## the specification, one position at a time -/

theorem startsTerm_of {full : List UInt8} {i : Nat} {c : UInt8} (h0 : full[i]? = some c)
    (hn : ¬ insideCRLF full i) : startsTerm full i = (c == 13 || c == 10) := by
  unfold insideCRLF at hn
  unfold startsTerm
  rw [h0] at hn ⊢
  by_cases h13 : c = 13
  · simp [h13]
  · by_cases h10 : c = 10
    · subst h10
      simp at hn ⊢
      by_cases hi : i = 0
      · exact Or.inl hi
      · exact Or.inr (hn (by omega))
    · have e13 : (c == 13) = false := by simpa using h13
      have e10 : (c == 10) = false := by simpa using h10
      simp [e13, e10]

theorem startsTerm_second {full : List UInt8} {i : Nat} (h0 : full[i]? = some 13)
    (h1 : full[i + 1]? = some 10) : startsTerm full (i + 1) = false := by
  simp [startsTerm, h0, h1]

theorem termEnd_of {full : List UInt8} {i : Nat} {c : UInt8} (h0 : full[i]? = some c) :
    termEnd full i = if c = 13 ∧ full[i + 1]? = some 10 then i + 2 else i + 1 := by
  simp [termEnd, h0]

theorem termEnd_gt (b : List UInt8) (i : Nat) : i < termEnd b i := by
  unfold termEnd; split <;> omega

theorem termEnd_le (b : List UInt8) (i : Nat) : termEnd b i ≤ i + 2 := by
  unfold termEnd; split <;> omega

theorem startsTerm_ge_length (b : List UInt8) (j : Nat) (h : b.length ≤ j) : startsTerm b j = false := by
  have : b[j]? = none := List.getElem?_eq_none h
  simp [startsTerm, this]

theorem termStartsBefore_succ (b : List UInt8) (p : Nat) :
    termStartsBefore b (p + 1) = termStartsBefore b p ++ (if startsTerm b p then [p] else []) := by
  simp [termStartsBefore, List.range_succ, List.filter_append, List.filter_cons]

theorem specLine_zero (b : List UInt8) : specLine b 0 = 1 := by
  simp [specLine, termStartsBefore]

theorem specLineStart_zero (b : List UInt8) : specLineStart b 0 = 0 := by
  simp [specLineStart, termStartsBefore]

theorem specLine_succ (b : List UInt8) (p : Nat) :
    specLine b (p + 1) = specLine b p + (if startsTerm b p then 1 else 0) := by
  simp only [specLine, termStartsBefore_succ]
  split <;> simp <;> omega

theorem specLineStart_succ (b : List UInt8) (p : Nat) :
    specLineStart b (p + 1) = if startsTerm b p then termEnd b p else specLineStart b p := by
  simp only [specLineStart, termStartsBefore_succ]
  by_cases hp : startsTerm b p = true
  · simp [hp]
  · simp [hp]

theorem termStartsBefore_ge_length (b : List UInt8) (k : Nat) :
    termStartsBefore b (b.length + k) = termStartsBefore b b.length := by
  induction k with
  | zero => rfl
  | succ k ih =>
    rw [← Nat.add_assoc, termStartsBefore_succ, ih, startsTerm_ge_length b _ (by omega)]
    simp

theorem termStartsBefore_min (b : List UInt8) (pos : Nat) :
    termStartsBefore b (min pos b.length) = termStartsBefore b pos := by
  by_cases h : pos ≤ b.length
  · rw [Nat.min_eq_left h]
  · have h' : b.length ≤ pos := by omega
    obtain ⟨k, rfl⟩ := Nat.exists_eq_add_of_le h'
    rw [Nat.min_eq_right h', termStartsBefore_ge_length]

theorem specLine_min (b : List UInt8) (pos : Nat) : specLine b (min pos b.length) = specLine b pos := by
  simp [specLine, termStartsBefore_min]

theorem specLineStart_min (b : List UInt8) (pos : Nat) :
    specLineStart b (min pos b.length) = specLineStart b pos := by
  simp [specLineStart, termStartsBefore_min]

theorem specLine_mono_add (b : List UInt8) (p k : Nat) : specLine b p ≤ specLine b (p + k) := by
  induction k with
  | zero => exact Nat.le_refl _
  | succ k ih => rw [← Nat.add_assoc, specLine_succ]; omega

theorem specLine_mono (b : List UInt8) {p q : Nat} (h : p ≤ q) : specLine b p ≤ specLine b q := by
  obtain ⟨k, rfl⟩ := Nat.exists_eq_add_of_le h
  exact specLine_mono_add b p k

/-- the line start never lies beyond `pos + 1`, and beyond `pos` only between the bytes of a CR LF -/
theorem specLineStart_le (b : List UInt8) : ∀ pos,
    specLineStart b pos ≤ pos + 1 ∧ (¬ insideCRLF b pos → specLineStart b pos ≤ pos) := by
  intro pos
  induction pos with
  | zero => simp [specLineStart_zero]
  | succ p ih =>
    rw [specLineStart_succ]
    by_cases hp : startsTerm b p = true
    · simp only [hp, if_true]
      refine ⟨termEnd_le b p, fun hn => ?_⟩
      unfold termEnd
      split
      · rename_i h
        exact absurd ⟨by omega, by simpa using h.1, h.2⟩ hn
      · omega
    · simp only [hp]
      exact ⟨by have := ih.1; simp; omega, fun _ => by have := ih.1; simp; omega⟩

/-! ## the match list -/

/-- `FindAllIndex` yields exactly the terminator starts of the specification, each with its end. -/
theorem terms_eq : ∀ (b : List UInt8) (i : Nat) (full : List UInt8), full.drop i = b → ¬ insideCRLF full i →
    terms b i = ((List.range' i b.length).filter (startsTerm full)).map (fun j => (j, termEnd full j)) := by
  intro b i
  fun_induction terms b i with
  | case1 i => intro full h hn; simp
  | case2 c i hc =>
    intro full h hn
    have h0 := drop_cons_getElem? h
    have h1 := drop_nil_getElem? (drop_cons_drop h)
    have hs := startsTerm_of h0 hn
    have he := termEnd_of h0
    rcases hc with rfl | rfl <;> simp [hs, he, h1]
  | case3 c i hc =>
    intro full h hn
    have h0 := drop_cons_getElem? h
    have hs := startsTerm_of h0 hn
    simp only [not_or] at hc
    simp [hs, hc.1, hc.2]
  | case4 c d rest i hcd ih =>
    intro full h hn
    obtain ⟨rfl, rfl⟩ := hcd
    have h0 := drop_cons_getElem? h
    have h' := drop_cons_drop h
    have h1 := drop_cons_getElem? h'
    have h'' := drop_cons_drop h'
    have hs := startsTerm_of h0 hn
    have he := termEnd_of h0
    have hs2 := startsTerm_second h0 h1
    have hn2 : ¬ insideCRLF full (i + 2) := by
      intro ⟨_, hx, _⟩
      simp [h1] at hx
    rw [ih full h'' hn2]
    simp [List.range', hs, he, h1, hs2]
  | case5 c d rest i hcd hc ih =>
    intro full h hn
    have h0 := drop_cons_getElem? h
    have h' := drop_cons_drop h
    have h1 := drop_cons_getElem? h'
    have hs := startsTerm_of h0 hn
    have he := termEnd_of h0
    have hn2 : ¬ insideCRLF full (i + 1) := by
      intro ⟨_, hx, hy⟩
      simp [h0, h1] at hx hy
      exact hcd ⟨hx, hy⟩
    rw [ih full h' hn2]
    have hc' : (c == 13 || c == 10) = true := by simpa using hc
    have : ¬ (c = 13 ∧ full[i + 1]? = some 10) := by
      rw [h1]; simpa using hcd
    simp [List.range', hs, he, hc', this]
  | case6 c d rest i hcd hc ih =>
    intro full h hn
    have h0 := drop_cons_getElem? h
    have h' := drop_cons_drop h
    have h1 := drop_cons_getElem? h'
    have hs := startsTerm_of h0 hn
    have hn2 : ¬ insideCRLF full (i + 1) := by
      intro ⟨_, hx, hy⟩
      simp [h0, h1] at hx hy
      exact hcd ⟨hx, hy⟩
    rw [ih full h' hn2]
    have hc' : (c == 13 || c == 10) = false := by simpa using hc
    simp [List.range', hs, hc']

/-! ## the loop -/

theorem goLoop_all_ge (pos : Nat) (l : List (Nat × Nat)) (acc : Nat × Nat)
    (h : ∀ x ∈ l, pos ≤ x.1) : goLoop pos l acc = acc := by
  cases l with
  | nil => rfl
  | cons x xs =>
    obtain ⟨m0, m1⟩ := x
    obtain ⟨line, col⟩ := acc
    have := h (m0, m1) (by simp)
    simp only [goLoop]
    rw [if_neg (by simpa using this)]

theorem goLoop_prefix (b : List UInt8) (pos : Nat) : ∀ (m : Nat), m ≤ pos → ∀ (rest : List (Nat × Nat)),
    goLoop pos (((List.range' 0 m).filter (startsTerm b)).map (fun j => (j, termEnd b j)) ++ rest) (1, pos + 1)
      = goLoop pos rest (specLine b m, pos + 1 - specLineStart b m) := by
  intro m
  induction m with
  | zero => intro _ rest; simp [specLine, specLineStart, termStartsBefore]
  | succ m ih =>
    intro hm rest
    rw [List.range'_concat, List.filter_append, List.map_append, List.append_assoc, ih (by omega)]
    rw [specLine_succ, specLineStart_succ]
    by_cases hp : startsTerm b m = true
    · have := termEnd_gt b m
      simp only [List.filter_cons, Nat.zero_add, Nat.one_mul, hp, if_true, List.filter_nil, List.map_cons, List.map_nil,
        List.cons_append, List.nil_append, goLoop]
      rw [if_pos (by omega)]
      congr 2
      omega
    · simp [hp]

theorem getLocation_eq_spec' (b : List UInt8) (pos : Nat) : getLocation b pos = spec b pos := by
  unfold getLocation spec
  have hn : ¬ insideCRLF b 0 := by intro ⟨h, _⟩; omega
  rw [terms_eq b 0 b (by simp) hn]
  have hsplit : List.range' 0 b.length
      = List.range' 0 (min pos b.length) ++ List.range' (min pos b.length) (b.length - min pos b.length) := by
    have := List.range'_append (s := 0) (m := min pos b.length) (n := b.length - min pos b.length) (step := 1)
    simp only [Nat.one_mul, Nat.zero_add] at this
    rw [this]
    congr 1
    omega
  rw [hsplit, List.filter_append, List.map_append, goLoop_prefix b pos _ (Nat.min_le_left _ _)]
  rw [goLoop_all_ge, specLine_min, specLineStart_min]
  intro x hx
  simp only [List.mem_map, List.mem_filter, List.mem_range'_1] at hx
  obtain ⟨j, ⟨⟨hj1, hj2⟩, _⟩, rfl⟩ := hx
  simp only
  omega

/-! ## facts about the specification used by the corollaries -/

/-- no CR and no LF between the line start and `pos` -/
theorem no_terminator_on_line (b : List UInt8) : ∀ pos j,
    specLineStart b pos ≤ j → j < pos → b[j]? ≠ some 13 ∧ b[j]? ≠ some 10 := by
  intro pos
  induction pos with
  | zero => intro j _ h; omega
  | succ p ih =>
    intro j h1 h2
    rw [specLineStart_succ] at h1
    by_cases hp : startsTerm b p = true
    · simp only [hp, if_true] at h1
      have := termEnd_gt b p
      omega
    · simp only [hp] at h1
      by_cases hj : j < p
      · exact ih j (by simpa using h1) hj
      · have hjp : j = p := by omega
        subst hjp
        simp only [Bool.not_eq_true] at hp
        simp only [Bool.false_eq_true, if_false] at h1
        unfold startsTerm at hp
        simp only [Bool.or_eq_false_iff, Bool.and_eq_false_iff, beq_eq_false_iff_ne, ne_eq, Bool.not_eq_false',
          Bool.and_eq_true, decide_eq_true_eq, beq_iff_eq] at hp
        refine ⟨hp.1, fun h10 => ?_⟩
        rcases hp.2 with h | ⟨hj1, hprev⟩
        · exact h h10
        · -- LF preceded by CR: then the CR LF pair starting at j-1 ends at j+1 > j
          obtain ⟨q, rfl⟩ : ∃ q, j = q + 1 := ⟨j - 1, by omega⟩
          simp only [Nat.add_sub_cancel] at hprev
          have hs : startsTerm b q = true := by simp [startsTerm, hprev]
          rw [specLineStart_succ] at h1
          simp only [hs, if_true] at h1
          have : termEnd b q = q + 2 := by simp [termEnd, hprev, h10]
          omega

/-- the line start is the beginning of the text or directly follows a terminator byte, and is never the LF of a CR LF -/
theorem lineStart_after_terminator (b : List UInt8) : ∀ pos,
    (specLineStart b pos = 0 ∨
      (1 ≤ specLineStart b pos ∧ (b[specLineStart b pos - 1]? = some 13 ∨ b[specLineStart b pos - 1]? = some 10)))
    ∧ ¬ insideCRLF b (specLineStart b pos) := by
  intro pos
  induction pos with
  | zero =>
    rw [specLineStart_zero]
    exact ⟨Or.inl rfl, by intro ⟨h, _⟩; omega⟩
  | succ p ih =>
    rw [specLineStart_succ]
    by_cases hp : startsTerm b p = true
    · simp only [hp, if_true]
      have hb : b[p]? = some 13 ∨ b[p]? = some 10 := by
        unfold startsTerm at hp
        simp only [Bool.or_eq_true, beq_iff_eq, Bool.and_eq_true] at hp
        rcases hp with h | h
        · exact Or.inl h
        · exact Or.inr h.1
      unfold termEnd
      split
      · rename_i h
        refine ⟨Or.inr ⟨by omega, Or.inr (by simpa using h.2)⟩, ?_⟩
        intro ⟨_, hx, _⟩
        simp only [show p + 2 - 1 = p + 1 from rfl] at hx
        rw [h.2] at hx
        simp at hx
      · rename_i h
        refine ⟨Or.inr ⟨by omega, by simpa using hb⟩, ?_⟩
        intro ⟨_, hx, hy⟩
        simp only [Nat.add_sub_cancel] at hx
        exact h ⟨hx, hy⟩
    · simpa [hp] using ih

theorem same_line_same_start (b : List UInt8) (p : Nat) : ∀ k,
    specLine b (p + k) = specLine b p → specLineStart b (p + k) = specLineStart b p := by
  intro k
  induction k with
  | zero => intro _; rfl
  | succ k ih =>
    intro h
    rw [← Nat.add_assoc] at h ⊢
    rw [specLine_succ] at h
    rw [specLineStart_succ]
    have hm := specLine_mono_add b p k
    by_cases hp : startsTerm b (p + k) = true
    · simp only [hp, if_true] at h; omega
    · simp only [hp] at h ⊢
      exact ih (by simpa using h)

/-! ## response paths -/

theorem asArray_eq_reverse_chain (p : RPath) : p.asArray = p.chain.reverse := by
  induction p with
  | nil => rfl
  | cons p k ih => simp [RPath.asArray, RPath.chain, ih]

theorem foldl_withKey_asArray (ks : List Key) (p : RPath) :
    (ks.foldl RPath.withKey p).asArray = p.asArray ++ ks := by
  induction ks generalizing p with
  | nil => simp
  | cons k ks ih => simp [ih, RPath.withKey, RPath.asArray]

theorem pathOf_foldl (fs : List Frame) (p : RPath) :
    (fs.foldl (fun p f => p.withKey f.key) p).asArray = p.asArray ++ fs.map Frame.key := by
  induction fs generalizing p with
  | nil => simp
  | cons f fs ih =>
    simp only [List.foldl_cons, List.map_cons]
    rw [ih]
    simp [RPath.withKey, RPath.asArray]

theorem lookup_append_of_none (k : String) (t : Tree) (before after : List (String × Tree))
    (h : lookup k before = none) : lookup k (before ++ (k, t) :: after) = some t := by
  induction before with
  | nil => simp [lookup]
  | cons x xs ih =>
    obtain ⟨k', t'⟩ := x
    simp only [lookup] at h
    split at h
    · cases h
    · rename_i hne
      simp [lookup, hne, ih h]

theorem get?_cons_of_step {t t' : Tree} {k : Key} (ks : List Key) (h : t.step k = some t') :
    t.get? (k :: ks) = t'.get? ks := by
  simp [Tree.get?, h]

theorem plug_cons (f : Frame) (fs : List Frame) (t : Tree) : plug (f :: fs) t = f.fill (plug fs t) := by
  simp only [plug]

theorem step_fill (f : Frame) (t : Tree) (h : f.wf) : (f.fill t).step f.key = some t := by
  cases f with
  | field before k after => exact lookup_append_of_none k t before after h
  | item before after => simp [Frame.fill, Frame.key, Tree.step]

end GqlModel.Location
