import GqlProofs.PlanBfs
/-! # The breadth-first pass leaves no closure behind: the invariant of the queue -/
namespace GqlModel.Plan
open GqlModel.Exec GqlModel.Coerce

/-- invariant while the entries `segs` of the container at `p` are still to be visited: the tree has distinct keys, every queued
address is a container, and every closure lies below a queued address or below one of the entries still to be visited -/
structure BInvE (root : PVal) (q : List Path) (p : Path) (segs : List PathSeg) : Prop where
  nd : NDv root
  cont : ∀ p' ∈ q, ∃ v, root.getAt p' = some v ∧ v.isContainer = true
  cov : ∀ (a : Path) (cl : Closure), root.getAt a = some (.deferred cl) →
    (∃ p' ∈ q, p' <+: a) ∨ (∃ seg ∈ segs, p ++ [seg] <+: a)

theorem getAt_leaf_cons (j : JVal) (seg : PathSeg) (rest : Path) : (PVal.leaf j).getAt (seg :: rest) = none := by
  cases seg <;> simp [PVal.getAt]

theorem getAt_deferred_cons (cl : Closure) (seg : PathSeg) (rest : Path) : (PVal.deferred cl).getAt (seg :: rest) = none := by
  cases seg <;> simp [PVal.getAt]

/-- nothing lies below a position that holds no value -/
theorem getAt_below_none {root : PVal} {a c : Path} (h : root.getAt a = none) : root.getAt (a ++ c) = none := by
  rw [getAt_append, h]; rfl

theorem mem_childSegs {cont w : PVal} {seg : PathSeg} {rest : Path} (h : cont.getAt (seg :: rest) = some w) :
    seg ∈ childSegs cont := by
  cases cont with
  | leaf _ => rw [getAt_leaf_cons] at h; cases h
  | deferred _ => rw [getAt_deferred_cons] at h; cases h
  | obj fs =>
    cases seg with
    | idx i => simp [PVal.getAt] at h
    | key k =>
      simp only [PVal.getAt] at h
      cases hl : lookupF fs k with
      | none => simp [hl] at h
      | some x =>
        simp only [childSegs, List.mem_map]
        exact ⟨k, mem_sortedKeys (lookupF_mem hl), rfl⟩
  | list xs =>
    cases seg with
    | key k => simp [PVal.getAt] at h
    | idx i =>
      simp only [PVal.getAt] at h
      cases hl : xs[i]? with
      | none => simp [hl] at h
      | some x =>
        have hi : i < xs.length := by
          rcases Nat.lt_or_ge i xs.length with hlt | hge
          · exact hlt
          · rw [List.getElem?_eq_none hge] at hl; cases hl
        simp only [childSegs, List.mem_map, List.mem_range]
        exact ⟨i, hi, rfl⟩

variable {frc : Closure → MSt → Res PVal × MSt}

theorem bfsEntries_inv (hf : FrcFlat frc) (p : Path) :
    ∀ (segs : List PathSeg) (root : PVal) (q : List Path) (st : MSt), BInvE root q p segs →
    ∀ x, (bfsEntries frc p segs root q st).1 = .ok x → BInvE x.1 x.2 p []
  | [], root, q, st, h, x, hx => by
    simp only [bfsEntries, Res.ok.injEq] at hx; subst hx; exact h
  | seg :: rest, root, q, st, h, x, hx => by
    simp only [bfsEntries] at hx
    -- dropping `seg` from the entries to visit when nothing closure-like lies below it, queueing it when it is a container
    have skip : ∀ (q' : List Path), (∀ p' ∈ q, p' ∈ q') →
        (∀ p' ∈ q', p' ∈ q ∨ (p' = p ++ [seg] ∧ ∃ v, root.getAt (p ++ [seg]) = some v ∧ v.isContainer = true)) →
        (∀ (a : Path) (cl : Closure), root.getAt a = some (.deferred cl) → p ++ [seg] <+: a → p ++ [seg] ∈ q') →
        BInvE root q' p rest := by
      intro q' hsub hq' hbelow
      refine ⟨h.nd, ?_, ?_⟩
      · intro p' hp'
        rcases hq' p' hp' with h1 | ⟨rfl, h2⟩
        · exact h.cont p' h1
        · exact h2
      · intro a cl ha
        rcases h.cov a cl ha with ⟨p', hp', hpre⟩ | ⟨s, hs, hpre⟩
        · exact .inl ⟨p', hsub p' hp', hpre⟩
        · rcases List.mem_cons.1 hs with rfl | hs
          · exact .inl ⟨_, hbelow a cl ha hpre, hpre⟩
          · exact .inr ⟨s, hs, hpre⟩
    cases hg : root.getAt (p ++ [seg]) with
    | none =>
      simp only [hg] at hx
      refine bfsEntries_inv hf p rest root q st (skip q (fun _ h => h) (fun _ h => .inl h) ?_) x hx
      intro a cl ha hpre
      obtain ⟨c, rfl⟩ := hpre
      rw [getAt_below_none hg] at ha; cases ha
    | some y =>
      simp only [hg] at hx
      cases y with
      | leaf j =>
        simp only [PVal.isContainer, Bool.false_eq_true, if_false] at hx
        refine bfsEntries_inv hf p rest root q st (skip q (fun _ h => h) (fun _ h => .inl h) ?_) x hx
        intro a cl ha hpre
        obtain ⟨c, rfl⟩ := hpre
        rw [getAt_append, hg] at ha
        cases c with
        | nil => simp [getAt_nil] at ha
        | cons s r => simp [getAt_leaf_cons] at ha
      | list xs =>
        simp only [PVal.isContainer, if_true] at hx
        refine bfsEntries_inv hf p rest root (q ++ [p ++ [seg]]) st (skip _ (fun _ h => List.mem_append_left _ h) ?_ ?_) x hx
        · intro p' hp'
          rcases List.mem_append.1 hp' with h1 | h1
          · exact .inl h1
          · simp only [List.mem_singleton] at h1; exact .inr ⟨h1, _, hg, rfl⟩
        · intro a cl _ _; exact List.mem_append_right _ (List.mem_singleton.2 rfl)
      | obj fs =>
        simp only [PVal.isContainer, if_true] at hx
        refine bfsEntries_inv hf p rest root (q ++ [p ++ [seg]]) st (skip _ (fun _ h => List.mem_append_left _ h) ?_ ?_) x hx
        · intro p' hp'
          rcases List.mem_append.1 hp' with h1 | h1
          · exact .inl h1
          · simp only [List.mem_singleton] at h1; exact .inr ⟨h1, _, hg, rfl⟩
        · intro a cl _ _; exact List.mem_append_right _ (List.mem_singleton.2 rfl)
      | deferred cl0 =>
        simp only at hx
        have ha := hf cl0 st
        generalize frc cl0 st = z at ha hx
        obtain ⟨r1, st1⟩ := z
        cases r1 with
        | fail => simp only at hx; cases hx
        | fuelOut => simp only at hx; cases hx
        | ok nv =>
          simp only at hx
          obtain ⟨hnvnd, hnvdef⟩ := ha nv rfl
          -- a queued address is not at or below the closure's position
          have hnot : ∀ p' ∈ q, ¬ (p ++ [seg]) <+: p' := by
            intro p' hp' hpre
            obtain ⟨c, rfl⟩ := hpre
            obtain ⟨v, hv, hcont⟩ := h.cont _ hp'
            rw [getAt_append, hg] at hv
            cases c with
            | nil => simp only [Option.bind_some, getAt_nil, Option.some.injEq] at hv; subst hv; cases hcont
            | cons s r => simp [getAt_deferred_cons] at hv
          have hself : (root.setAt (p ++ [seg]) nv).getAt (p ++ [seg]) = some nv := by
            have := getAt_setAt_below (p ++ [seg]) [] root nv hg
            simpa [getAt_nil] using this
          refine bfsEntries_inv hf p rest _ _ st1 ⟨ndv_setAt _ h.nd hnvnd, ?_, ?_⟩ x hx
          · intro p' hp'
            by_cases hc : nv.isContainer = true
            · simp only [hc, if_true] at hp'
              rcases List.mem_append.1 hp' with h1 | h1
              · exact optSame_container (getAt_setAt_other _ p' root nv hg (hnot p' h1)) (h.cont p' h1)
              · simp only [List.mem_singleton] at h1; subst h1; exact ⟨nv, hself, hc⟩
            · simp only [hc, Bool.false_eq_true, if_false] at hp'
              exact optSame_container (getAt_setAt_other _ p' root nv hg (hnot p' hp')) (h.cont p' hp')
          · intro a cl ha'
            by_cases hpre : (p ++ [seg]) <+: a
            · -- inside the value just stored: it is a container, and it was queued
              obtain ⟨c, rfl⟩ := hpre
              rw [getAt_setAt_below _ c root nv hg] at ha'
              cases c with
              | nil =>
                rw [getAt_nil] at ha'
                simp only [Option.some.injEq] at ha'
                exact absurd ha' (hnvdef cl)
              | cons s r =>
                have hc := isContainer_of_getAt_cons ha'
                refine .inl ⟨p ++ [seg], ?_, List.prefix_append _ _⟩
                simp only [hc, if_true]
                exact List.mem_append_right _ (List.mem_singleton.2 rfl)
            · have hold := optSame_deferred (getAt_setAt_other _ a root nv hg hpre) ha'
              rcases h.cov a cl hold with ⟨p', hp', hpp⟩ | ⟨s, hs, hpp⟩
              · refine .inl ⟨p', ?_, hpp⟩
                by_cases hc : nv.isContainer = true
                · simp only [hc, if_true]; exact List.mem_append_left _ hp'
                · simp only [hc, Bool.false_eq_true, if_false]; exact hp'
              · rcases List.mem_cons.1 hs with rfl | hs
                · exact absurd hpp hpre
                · exact .inr ⟨s, hs, hpp⟩

/-- **the breadth-first pass visits every container** -/
theorem bfsLoop_inv (hf : FrcFlat frc) : ∀ (n : Nat) (root : PVal) (q : List Path) (st : MSt), BInvE root q [] [] →
    ∀ x, (bfsLoop frc n root q st).1 = .ok x → NoDef x
  | 0, root, q, st, _, x, hx => by simp only [bfsLoop] at hx; cases hx
  | n + 1, root, [], st, h, x, hx => by
    simp only [bfsLoop, Res.ok.injEq] at hx
    subst hx
    apply noDef_of_getAt _ h.nd
    intro a cl ha
    rcases h.cov a cl ha with ⟨p', hp', _⟩ | ⟨s, hs, _⟩
    · cases hp'
    · cases hs
  | n + 1, root, p :: q, st, h, x, hx => by
    simp only [bfsLoop] at hx
    -- the queue without `p`, when nothing closure-like lies below `p`
    cases hg : root.getAt p with
    | none =>
      simp only [hg] at hx
      refine bfsLoop_inv hf n root q st ⟨h.nd, fun p' hp' => h.cont p' (List.mem_cons_of_mem _ hp'), ?_⟩ x hx
      intro a cl ha
      rcases h.cov a cl ha with ⟨p', hp', hpre⟩ | ⟨s, hs, _⟩
      · rcases List.mem_cons.1 hp' with rfl | hp'
        · obtain ⟨c, rfl⟩ := hpre
          rw [getAt_below_none hg] at ha; cases ha
        · exact .inl ⟨p', hp', hpre⟩
      · cases hs
    | some cont =>
      simp only [hg] at hx
      have hE : BInvE root q p (childSegs cont) := by
        refine ⟨h.nd, fun p' hp' => h.cont p' (List.mem_cons_of_mem _ hp'), ?_⟩
        intro a cl ha
        rcases h.cov a cl ha with ⟨p', hp', hpre⟩ | ⟨s, hs, _⟩
        · rcases List.mem_cons.1 hp' with rfl | hp'
          · obtain ⟨c, rfl⟩ := hpre
            obtain ⟨v, hv, hcont⟩ := h.cont p' List.mem_cons_self
            rw [hg] at hv
            simp only [Option.some.injEq] at hv
            subst hv
            rw [getAt_append, hg] at ha
            simp only [Option.bind_some] at ha
            cases c with
            | nil => rw [getAt_nil] at ha; simp only [Option.some.injEq] at ha; subst ha; cases hcont
            | cons s r =>
              exact .inr ⟨s, mem_childSegs ha, by
                rw [show p' ++ s :: r = (p' ++ [s]) ++ r by simp]; exact List.prefix_append _ _⟩
          · exact .inl ⟨p', hp', hpre⟩
        · cases hs
      have he := bfsEntries_inv hf p (childSegs cont) root q st hE
      generalize bfsEntries frc p (childSegs cont) root q st = z at he hx
      obtain ⟨r1, st1⟩ := z
      cases r1 with
      | ok y =>
        obtain ⟨root', q'⟩ := y
        simp only at hx
        have hE' := he (root', q') rfl
        refine bfsLoop_inv hf n root' q' st1 ⟨hE'.nd, hE'.cont, ?_⟩ x hx
        intro a cl ha
        rcases hE'.cov a cl ha with h1 | ⟨s, hs, _⟩
        · exact .inl h1
        · cases hs
      | fail => simp only at hx; cases hx
      | fuelOut => simp only at hx; cases hx

/-- started on a map with distinct keys, with the root queued -/
theorem bfsLoop_settles (hf : FrcFlat frc) (n : Nat) (fs : List (String × PVal)) (st : MSt) (hnd : NDv (.obj fs)) :
    ∀ x, (bfsLoop frc n (.obj fs) [[]] st).1 = .ok x → NoDef x := by
  apply bfsLoop_inv hf n (.obj fs) [[]] st
  refine ⟨hnd, ?_, ?_⟩
  · intro p' hp'
    simp only [List.mem_singleton] at hp'
    subst hp'
    exact ⟨_, getAt_nil _, rfl⟩
  · intro a cl _
    exact .inl ⟨[], List.mem_singleton.2 rfl, List.nil_prefix⟩

end GqlModel.Plan
