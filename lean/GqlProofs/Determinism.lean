import GqlModel.Determinism
/-! Helper lemmas for `Props/C12.lean` (core Lean only). -/
namespace GqlModel.Determinism
open List

/-- Two permutations of the same entries, filtered and sorted with a transitive, total order that is antisymmetric on
the entries, are the same list. -/
theorem mergeSort_filter_eq_of_perm {α : Type} (le : α → α → Bool) (keep : α → Bool) {l₁ l₂ : List α}
    (trans : ∀ a b c : α, le a b → le b c → le a c) (total : ∀ a b : α, le a b || le b a)
    (antisymm : ∀ a b, a ∈ l₁ → b ∈ l₁ → le a b → le b a → a = b) (h : l₁.Perm l₂) :
    (l₁.filter keep).mergeSort le = (l₂.filter keep).mergeSort le := by
  have hp : ((l₁.filter keep).mergeSort le).Perm ((l₂.filter keep).mergeSort le) :=
    (mergeSort_perm _ _).trans ((h.filter keep).trans (mergeSort_perm _ _).symm)
  refine Perm.eq_of_pairwise (le := fun a b => le a b = true) ?_ (pairwise_mergeSort trans total _)
    (pairwise_mergeSort trans total _) hp
  intro a b ha hb hab hba
  have ha' : a ∈ l₁ := (mem_filter.mp (mem_mergeSort.mp ha)).1
  have hb' : b ∈ l₁ := h.symm.subset (mem_filter.mp (mem_mergeSort.mp hb)).1
  exact antisymm a b ha' hb' hab hba

theorem strLe_trans (a b c : String) : strLe a b → strLe b c → strLe a c := by
  simp only [strLe, decide_eq_true_eq]; exact String.le_trans
theorem strLe_total (a b : String) : strLe a b || strLe b a := by
  simp only [strLe, Bool.or_eq_true, decide_eq_true_eq]; exact String.le_total a b
theorem strLe_antisymm (a b : String) : strLe a b → strLe b a → a = b := by
  simp only [strLe, decide_eq_true_eq]; exact String.le_antisymm

theorem suggestLe_trans (dist : String → Nat) (a b c : String) :
    suggestLe dist a b → suggestLe dist b c → suggestLe dist a c := by
  simp only [suggestLe, Bool.or_eq_true, Bool.and_eq_true, decide_eq_true_eq, beq_iff_eq]
  rintro (h1 | ⟨h1, h1'⟩) (h2 | ⟨h2, h2'⟩)
  · left; omega
  · left; omega
  · left; omega
  · right; exact ⟨by omega, strLe_trans a b c h1' h2'⟩

theorem suggestLe_total (dist : String → Nat) (a b : String) : suggestLe dist a b || suggestLe dist b a := by
  have ht := strLe_total a b
  simp only [suggestLe, Bool.or_eq_true, Bool.and_eq_true, decide_eq_true_eq, beq_iff_eq] at ht ⊢
  rcases Nat.lt_trichotomy (dist a) (dist b) with h | h | h
  · exact .inl (.inl h)
  · rcases ht with ht | ht
    · exact .inl (.inr ⟨h, ht⟩)
    · exact .inr (.inr ⟨h.symm, ht⟩)
  · exact .inr (.inl h)

theorem suggestLe_antisymm (dist : String → Nat) (a b : String) : suggestLe dist a b → suggestLe dist b a → a = b := by
  simp only [suggestLe, Bool.or_eq_true, Bool.and_eq_true, decide_eq_true_eq, beq_iff_eq]
  rintro (h1 | ⟨_, h1'⟩) (h2 | ⟨_, h2'⟩)
  · omega
  · omega
  · omega
  · exact strLe_antisymm a b h1' h2'

/-! ### accumulation -/

theorem AMap.set_comm {κ ν : Type} [DecidableEq κ] (m : AMap κ ν) {k₁ k₂ : κ} (v₁ v₂ : ν) (h : k₁ ≠ k₂) :
    (m.set k₁ v₁).set k₂ v₂ = (m.set k₂ v₂).set k₁ v₁ := by
  funext k
  simp only [AMap.set]
  by_cases h1 : k = k₁ <;> by_cases h2 : k = k₂ <;> simp_all

/-- entries of a map: at most one entry per key -/
def KeysUnique {κ ν : Type} (l : List (κ × ν)) : Prop := ∀ x ∈ l, ∀ y ∈ l, x.1 = y.1 → x = y

theorem KeysUnique.perm {κ ν : Type} {l₁ l₂ : List (κ × ν)} (h : KeysUnique l₁) (p : l₁.Perm l₂) : KeysUnique l₂ :=
  fun x hx y hy => h x (p.symm.subset hx) y (p.symm.subset hy)

theorem foldl_set_perm {κ ν ν' : Type} [DecidableEq κ] (f : κ × ν → ν') {l₁ l₂ : List (κ × ν)} (p : l₁.Perm l₂)
    (hu : KeysUnique l₁) (init : AMap κ ν') :
    l₁.foldl (fun m e => m.set e.1 (f e)) init = l₂.foldl (fun m e => m.set e.1 (f e)) init := by
  refine p.foldl_eq' ?_ init
  intro x hx y hy z
  by_cases hxy : x.1 = y.1
  · rw [hu x hx y hy hxy]
  · exact AMap.set_comm z _ _ hxy

theorem accCheckedGo_ok {κ ν ν' ε : Type} [DecidableEq κ] (bad : κ × ν → Option ε) (f : κ × ν → ν') :
    ∀ (l : List (κ × ν)) (m : AMap κ ν'), (∀ e ∈ l, bad e = none) →
      accCheckedGo bad f l m = .ok (l.foldl (fun m e => m.set e.1 (f e)) m)
  | [], m, _ => rfl
  | e :: es, m, h => by
    have he : bad e = none := h e mem_cons_self
    simp only [accCheckedGo, he, foldl_cons]
    exact accCheckedGo_ok bad f es _ (fun e' he' => h e' (mem_cons_of_mem _ he'))

theorem accCheckedGo_error {κ ν ν' ε : Type} [DecidableEq κ] (bad : κ × ν → Option ε) (f : κ × ν → ν') :
    ∀ (l : List (κ × ν)) (m : AMap κ ν'), (∃ e ∈ l, bad e ≠ none) →
      ∃ e ∈ l, ∃ err, bad e = some err ∧ accCheckedGo bad f l m = .error err
  | [], _, h => by simp at h
  | e :: es, m, h => by
    cases hb : bad e with
    | some err => exact ⟨e, mem_cons_self, err, hb, by simp [accCheckedGo, hb]⟩
    | none =>
      have h' : ∃ e' ∈ es, bad e' ≠ none := by
        rcases h with ⟨e', he', hne⟩
        rcases mem_cons.mp he' with rfl | he'
        · exact absurd hb hne
        · exact ⟨e', he', hne⟩
      rcases accCheckedGo_error bad f es (m.set e.1 (f e)) h' with ⟨e', he', err, hbe, hacc⟩
      exact ⟨e', mem_cons_of_mem _ he', err, hbe, by simp [accCheckedGo, hb, hacc]⟩

end GqlModel.Determinism
