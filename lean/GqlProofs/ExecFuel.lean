import GqlModel.Conforms
import GqlProofs.ExecBasic
/-! Fuel is irrelevant once it suffices: a call of any of the four functions that does not end in `fuelOut` gives the
same result and state with more fuel. Hence a `.result` response does not depend on the fuel. -/
namespace GqlModel.Exec

structure FuelP (c : Ctx) (fuel : Nat) : Prop where
  groups : ∀ dfr rt src path groups acc st r st',
    execGroups c fuel dfr rt src path groups acc st = (r, st') → r ≠ .fuelOut →
    execGroups c (fuel + 1) dfr rt src path groups acc st = (r, st')
  field : ∀ dfr rt src p fd nodes st r st',
    execField c fuel dfr rt src p fd nodes st = (r, st') → r ≠ .fuelOut →
    execField c (fuel + 1) dfr rt src p fd nodes st = (r, st')
  complete : ∀ dfr t rt fname nodes p v st r st',
    complete c fuel dfr t rt fname nodes p v st = (r, st') → r ≠ .fuelOut →
    complete c (fuel + 1) dfr t rt fname nodes p v st = (r, st')
  items : ∀ dfr item rt fname nodes p xs i acc st r st',
    completeItems c fuel dfr item rt fname nodes p xs i acc st = (r, st') → r ≠ .fuelOut →
    completeItems c (fuel + 1) dfr item rt fname nodes p xs i acc st = (r, st')

theorem fuelP_zero (c : Ctx) : FuelP c 0 := by
  refine ⟨?_, ?_, ?_, ?_⟩
  · intro dfr rt src path groups acc st r st' h hr
    simp only [execGroups, Prod.mk.injEq] at h; exact absurd h.1.symm hr
  · intro dfr rt src p fd nodes st r st' h hr
    simp only [execField, Prod.mk.injEq] at h; exact absurd h.1.symm hr
  · intro dfr t rt fname nodes p v st r st' h hr
    simp only [complete, Prod.mk.injEq] at h; exact absurd h.1.symm hr
  · intro dfr item rt fname nodes p xs i acc st r st' h hr
    simp only [completeItems, Prod.mk.injEq] at h; exact absurd h.1.symm hr

theorem fuelP_groups (c : Ctx) (fuel : Nat) (ih : FuelP c fuel) :
    ∀ dfr rt src path groups acc st r st',
    execGroups c (fuel + 1) dfr rt src path groups acc st = (r, st') → r ≠ .fuelOut →
    execGroups c (fuel + 1 + 1) dfr rt src path groups acc st = (r, st') := by
  intro dfr rt src path groups acc st r st' h hr
  cases groups with
  | nil => simp only [execGroups] at h ⊢; exact h
  | cons g rest =>
    obtain ⟨key, nodes⟩ := g
    simp only [execGroups] at h ⊢
    split
    · rename_i hh
      simp only [hh] at h
      exact ih.groups _ _ _ _ _ _ _ _ _ h hr
    · rename_i node hh
      simp only [hh] at h
      split
      · rename_i hfd
        simp only [hfd] at h
        exact ih.groups _ _ _ _ _ _ _ _ _ h hr
      · rename_i fd hfd
        simp only [hfd] at h
        rcases hf : execField c fuel dfr rt src (path ++ [.key key]) fd nodes st with ⟨r1, st1⟩
        rw [hf] at h
        cases r1 with
        | ok v =>
          simp only at h
          rw [ih.field _ _ _ _ _ _ _ _ _ hf (by simp)]
          exact ih.groups _ _ _ _ _ _ _ _ _ h hr
        | fail =>
          rw [ih.field _ _ _ _ _ _ _ _ _ hf (by simp)]
          exact h
        | fuelOut =>
          simp only [Prod.mk.injEq] at h
          exact absurd h.1.symm hr

theorem fuelP_field (c : Ctx) (fuel : Nat) (ih : FuelP c fuel) :
    ∀ dfr rt src p fd nodes st r st',
    execField c (fuel + 1) dfr rt src p fd nodes st = (r, st') → r ≠ .fuelOut →
    execField c (fuel + 1 + 1) dfr rt src p fd nodes st = (r, st') := by
  intro dfr rt src p fd nodes st r st' h hr
  simp only [execField] at h ⊢
  split
  · rename_i hn; simp only [hn, if_true] at h; exact h
  · rename_i hn
    simp only [hn, Bool.false_eq_true, if_false] at h
    split
    · rename_i hout; simp only [hout] at h; exact h
    · rename_i v hout
      simp only [hout] at h
      generalize hst0 : ({ st with log := _ :: st.log } : St) = st0 at h ⊢
      rcases hc : complete c fuel dfr fd.type rt fd.name nodes p v st0 with ⟨r1, st1⟩
      rw [hc] at h
      cases r1 with
      | ok j => rw [ih.complete _ _ _ _ _ _ _ _ _ _ hc (by simp)]; exact h
      | fail => rw [ih.complete _ _ _ _ _ _ _ _ _ _ hc (by simp)]; exact h
      | fuelOut => simp only [Prod.mk.injEq] at h; exact absurd h.1.symm hr

theorem fuelP_items (c : Ctx) (fuel : Nat) (ih : FuelP c fuel) :
    ∀ dfr item rt fname nodes p xs i acc st r st',
    completeItems c (fuel + 1) dfr item rt fname nodes p xs i acc st = (r, st') → r ≠ .fuelOut →
    completeItems c (fuel + 1 + 1) dfr item rt fname nodes p xs i acc st = (r, st') := by
  intro dfr item rt fname nodes p xs i acc st r st' h hr
  cases xs with
  | nil => simp only [completeItems] at h ⊢; exact h
  | cons x xs =>
    simp only [completeItems] at h ⊢
    rcases hc : complete c fuel dfr item rt fname nodes (p ++ [.idx i]) x st with ⟨r1, st1⟩
    rw [hc] at h
    cases r1 with
    | ok j =>
      rw [ih.complete _ _ _ _ _ _ _ _ _ _ hc (by simp)]
      exact ih.items _ _ _ _ _ _ _ _ _ _ _ _ h hr
    | fail =>
      rw [ih.complete _ _ _ _ _ _ _ _ _ _ hc (by simp)]
      simp only at h ⊢
      split
      · rename_i hnn; simp only [hnn, if_true] at h; exact h
      · rename_i hnn; simp only [hnn, Bool.false_eq_true, if_false] at h
        exact ih.items _ _ _ _ _ _ _ _ _ _ _ _ h hr
    | fuelOut => simp only [Prod.mk.injEq] at h; exact absurd h.1.symm hr

/-- the body of `complete` for a value that is not a func, in terms of the calls with one unit of fuel less -/
def completeBody (c : Ctx) (fuel : Nat) (dfr : Bool) (t : GType) (rt fname : String) (nodes : List FieldNode) (p : Path)
    (v : GoVal) (st : St) : Res JVal × St :=
  match t with
  | .nonNull inner =>
    (match complete c fuel dfr inner rt fname nodes p v st with
    | (.ok .null, st) => (.fail, addErr st p dfr)
    | r => r)
  | .list item =>
    if v.nullish then (.ok .null, st) else
    (match v with
    | .list xs =>
      match completeItems c fuel dfr item rt fname nodes p xs 0 [] st with
      | (.ok js, st) => (.ok (.list js), st)
      | (.fail, st) => (.fail, st)
      | (.fuelOut, st) => (.fuelOut, st)
    | _ => (.fail, addErr st p dfr))
  | .named n =>
    if v.nullish then (.ok .null, st) else
    if c.schema.isLeaf n then
      (match serializeLeaf c.schema n v with
      | some j => (.ok j, st)
      | none => (.fail, addErr st p dfr))
    else if c.schema.isAbstract n then
      (match runtimeTypeOf c n v with
      | none => (.fail, addErr st p dfr)
      | some ot =>
        if !(c.schema.isObject ot && c.schema.isPossibleType n ot) then (.fail, addErr st p dfr) else
        match execGroups c fuel dfr ot v p (collectMerged c ot nodes) [] st with
        | (.ok fs, st) => (.ok (.obj fs), st)
        | (.fail, st) => (.fail, st)
        | (.fuelOut, st) => (.fuelOut, st))
    else if c.schema.isObject n then
      if objectHasIsTypeOf c.schema n && !c.world.isTypeOfAns n v then (.fail, addErr st p dfr) else
      (match execGroups c fuel dfr n v p (collectMerged c n nodes) [] st with
      | (.ok fs, st) => (.ok (.obj fs), st)
      | (.fail, st) => (.fail, st)
      | (.fuelOut, st) => (.fuelOut, st))
    else (.fail, addErr st p dfr)

def GoVal.notFunc : GoVal → Bool
  | .thunk _ => false
  | .badFunc => false
  | _ => true

theorem complete_succ_notFunc (c : Ctx) (fuel : Nat) (dfr : Bool) (t : GType) (rt fname : String)
    (nodes : List FieldNode) (p : Path) (v : GoVal) (st : St) (hf : v.notFunc = true) :
    complete c (fuel + 1) dfr t rt fname nodes p v st = completeBody c fuel dfr t rt fname nodes p v st := by
  cases v <;> first | (cases t <;> simp only [complete, completeBody] <;> rfl; done) | (simp [GoVal.notFunc] at hf; done)

theorem fuelP_complete (c : Ctx) (fuel : Nat) (ih : FuelP c fuel) :
    ∀ dfr t rt fname nodes p v st r st',
    complete c (fuel + 1) dfr t rt fname nodes p v st = (r, st') → r ≠ .fuelOut →
    complete c (fuel + 1 + 1) dfr t rt fname nodes p v st = (r, st') := by
  intro dfr t rt fname nodes p v st r st' h hr
  have hgroups : ∀ ot,
      (match execGroups c fuel dfr ot v p (collectMerged c ot nodes) [] st with
        | (.ok fs, st) => ((Res.ok (JVal.obj fs) : Res JVal), st)
        | (.fail, st) => (.fail, st)
        | (.fuelOut, st) => (.fuelOut, st)) = (r, st') →
      (match execGroups c (fuel + 1) dfr ot v p (collectMerged c ot nodes) [] st with
        | (.ok fs, st) => ((Res.ok (JVal.obj fs) : Res JVal), st)
        | (.fail, st) => (.fail, st)
        | (.fuelOut, st) => (.fuelOut, st)) = (r, st') := by
    intro ot h
    rcases hg : execGroups c fuel dfr ot v p (collectMerged c ot nodes) [] st with ⟨r1, st1⟩
    rw [hg] at h
    cases r1 with
    | ok fs => rw [ih.groups _ _ _ _ _ _ _ _ _ hg (by simp)]; exact h
    | fail => rw [ih.groups _ _ _ _ _ _ _ _ _ hg (by simp)]; exact h
    | fuelOut => simp only [Prod.mk.injEq] at h; exact absurd h.1.symm hr
  cases hnf : v.notFunc with
  | false =>
    -- thunk / badFunc
    obtain ⟨f1, hf1⟩ : ∃ f1, f1 = fuel + 1 := ⟨_, rfl⟩
    have ihc : ∀ dfr t rt fname nodes p v st r st',
        complete c fuel dfr t rt fname nodes p v st = (r, st') → r ≠ .fuelOut →
        complete c f1 dfr t rt fname nodes p v st = (r, st') := by rw [hf1]; exact ih.complete
    rw [← hf1]
    cases v with
    | thunk tr =>
      cases tr with
      | err => simp only [complete] at h ⊢; exact h
      | ok v' =>
        simp only [complete] at h ⊢
        rcases hc : complete c fuel true t rt fname nodes p v' st with ⟨r1, st1⟩
        rw [hc] at h
        cases r1 with
        | ok j => rw [ihc _ _ _ _ _ _ _ _ _ _ hc (by simp)]; exact h
        | fail => rw [ihc _ _ _ _ _ _ _ _ _ _ hc (by simp)]; exact h
        | fuelOut => simp only [Prod.mk.injEq] at h; exact absurd h.1.symm hr
    | badFunc => simp only [complete] at h ⊢; exact h
    | _ => simp [GoVal.notFunc] at hnf
  | true =>
    rw [complete_succ_notFunc c _ _ _ _ _ _ _ _ _ hnf] at h ⊢
    cases t with
    | nonNull inner =>
      simp only [completeBody] at h ⊢
      rcases hc : complete c fuel dfr inner rt fname nodes p v st with ⟨r1, st1⟩
      rw [hc] at h
      cases r1 with
      | ok j => rw [ih.complete _ _ _ _ _ _ _ _ _ _ hc (by simp)]; exact h
      | fail => rw [ih.complete _ _ _ _ _ _ _ _ _ _ hc (by simp)]; exact h
      | fuelOut => simp only [Prod.mk.injEq] at h; exact absurd h.1.symm hr
    | list item =>
      simp only [completeBody] at h ⊢
      by_cases hnull : v.nullish = true
      · simp only [hnull, if_true] at h ⊢; exact h
      · simp only [hnull, Bool.false_eq_true, if_false] at h ⊢
        cases v with
        | list xs =>
          simp only at h ⊢
          rcases hi : completeItems c fuel dfr item rt fname nodes p xs 0 [] st with ⟨r1, st1⟩
          rw [hi] at h
          cases r1 with
          | ok js => rw [ih.items _ _ _ _ _ _ _ _ _ _ _ _ hi (by simp)]; exact h
          | fail => rw [ih.items _ _ _ _ _ _ _ _ _ _ _ _ hi (by simp)]; exact h
          | fuelOut => simp only [Prod.mk.injEq] at h; exact absurd h.1.symm hr
        | _ => exact h
    | named n =>
      simp only [completeBody] at h ⊢
      by_cases hnull : v.nullish = true
      · simp only [hnull, if_true] at h ⊢; exact h
      · simp only [hnull, Bool.false_eq_true, if_false] at h ⊢
        by_cases hleaf : c.schema.isLeaf n = true
        · simp only [hleaf, if_true] at h ⊢; exact h
        · simp only [hleaf, Bool.false_eq_true, if_false] at h ⊢
          by_cases habs : c.schema.isAbstract n = true
          · simp only [habs, if_true] at h ⊢
            cases hrt : runtimeTypeOf c n v with
            | none => simp only [hrt] at h ⊢; exact h
            | some ot =>
              simp only [hrt] at h ⊢
              by_cases hposs : (!(c.schema.isObject ot && c.schema.isPossibleType n ot)) = true
              · simp only [hposs, if_true] at h ⊢; exact h
              · simp only [hposs, Bool.false_eq_true, if_false] at h ⊢
                exact hgroups ot h
          · simp only [habs, Bool.false_eq_true, if_false] at h ⊢
            by_cases hobj : c.schema.isObject n = true
            · simp only [hobj, if_true] at h ⊢
              by_cases hito : (objectHasIsTypeOf c.schema n && !c.world.isTypeOfAns n v) = true
              · simp only [hito, if_true] at h ⊢; exact h
              · simp only [hito, Bool.false_eq_true, if_false] at h ⊢
                exact hgroups n h
            · simp only [hobj, Bool.false_eq_true, if_false] at h ⊢; exact h

theorem fuelP (c : Ctx) : ∀ fuel, FuelP c fuel
  | 0 => fuelP_zero c
  | fuel + 1 =>
    have ih := fuelP c fuel
    ⟨fuelP_groups c fuel ih, fuelP_field c fuel ih, fuelP_complete c fuel ih, fuelP_items c fuel ih⟩

theorem execGroups_fuel_add (c : Ctx) (fuel : Nat) (dfr : Bool) (rt : String) (src : GoVal) (path : Path) (groups : Groups)
    (acc : List (String × JVal)) (st : St) (r : Res (List (String × JVal))) (st' : St)
    (h : execGroups c fuel dfr rt src path groups acc st = (r, st')) (hr : r ≠ .fuelOut) :
    ∀ k, execGroups c (fuel + k) dfr rt src path groups acc st = (r, st')
  | 0 => h
  | k + 1 => (fuelP c (fuel + k)).groups _ _ _ _ _ _ _ _ _ (execGroups_fuel_add c fuel dfr rt src path groups acc st r st' h hr k) hr

theorem execute_no_ctx_indep {s : Schema} {doc : Document} {opName : String} {inputs : Coerce.Vars} {w : World}
    (fuel fuel' : Nat) (h : requestCtx s doc opName inputs w = none) :
    execute s doc opName inputs w fuel = execute s doc opName inputs w fuel' := by
  unfold requestCtx at h
  unfold execute
  split at h
  · rename_i op nm varDefs dirs sel' loc hsel
    rw [hsel]
    simp only
    split at h
    · rename_i hroot; rw [hroot]
    · rename_i root' hroot
      rw [hroot]
      simp only
      split at h
      · rename_i e hv; rw [hv]
      · cases h
  · rename_i hne
    split
    · rfl
    · rename_i op nm varDefs dirs sel' loc hsel
      exact absurd hsel (hne op nm varDefs dirs sel' loc)
    · rfl

/-- a response that is not `fuelOut` does not depend on the fuel: any larger fuel gives the same response -/
theorem execute_fuel_add (s : Schema) (doc : Document) (opName : String) (inputs : Coerce.Vars) (w : World) (fuel : Nat)
    (r : Response) (h : execute s doc opName inputs w fuel = r) (hr : r ≠ .fuelOut) (k : Nat) :
    execute s doc opName inputs w (fuel + k) = r := by
  cases hc : requestCtx s doc opName inputs w with
  | none => rw [← h]; exact execute_no_ctx_indep _ _ hc
  | some x =>
    obtain ⟨c, root, sel⟩ := x
    rw [execute_of_ctx hc] at h ⊢
    rcases hg : execGroups c fuel false root .nil [] (rootGroups c root sel) [] St.empty with ⟨r1, st1⟩
    rw [hg] at h
    have hne : r1 ≠ .fuelOut := by
      intro he; subst he; simp only [respond] at h; exact hr h.symm
    rw [execGroups_fuel_add c fuel _ _ _ _ _ _ _ _ _ hg hne k]
    exact h

end GqlModel.Exec
