import GqlModel.DefaultResolve
/-! Helper lemmas for `Props/C01Default.lean`. -/
namespace GqlModel.DefaultResolve

theorem scan_eq_find (fs : List SField) (name : String) :
    scan fs name = Spec.structProperty fs name := by
  induction fs with
  | nil => simp [scan, Spec.structProperty]
  | cons f fs ih =>
    unfold scan
    by_cases h1 : equalFold f.name name = true
    · simp [h1, Spec.structProperty, List.find?, fieldMatches]
    · by_cases h2 : (tagHead f.json == name || tagHead f.graphql == name) = true
      · have hm : fieldMatches f name = true := by
          unfold fieldMatches
          simp only [Bool.or_assoc] at *
          simp [h2]
        simp only [h1, h2]
        simp [Spec.structProperty, List.find?, hm]
      · have hm : fieldMatches f name = false := by
          unfold fieldMatches
          simp only [Bool.or_assoc] at *
          simp at h1 h2 ⊢
          simp [h1, h2]
        simp only [h1, h2]
        rw [ih]
        simp [Spec.structProperty, List.find?, hm]

theorem find_of_unique {α : Type} (p : α → Bool) (xs : List α) (a : α) (ha : a ∈ xs) (hp : p a = true)
    (huniq : ∀ b ∈ xs, p b = true → b = a) : xs.find? p = some a := by
  induction xs with
  | nil => cases ha
  | cons x xs ih =>
    by_cases hx : p x = true
    · have : x = a := huniq x (by simp) hx
      subst this
      simp [List.find?, hx]
    · have hne : x ≠ a := fun h => hx (h ▸ hp)
      have ha' : a ∈ xs := by
        cases ha with
        | head => exact absurd rfl hne
        | tail _ h => exact h
      simp only [List.find?, Bool.not_eq_true] at *
      simp only [hx]
      exact ih ha' (fun b hb => huniq b (List.mem_cons_of_mem _ hb))

theorem find_none_of_all_false {α : Type} (p : α → Bool) (xs : List α) (h : ∀ b ∈ xs, p b = false) :
    xs.find? p = none := by
  induction xs with
  | nil => rfl
  | cons x xs ih =>
    have hx : p x = false := h x (by simp)
    simp only [List.find?, hx]
    exact ih (fun b hb => h b (List.mem_cons_of_mem _ hb))

theorem lookup_of_mem_nodup (es : List (String × PVal)) (k : String) (v : PVal)
    (hnd : (es.map (·.1)).Nodup) (hm : (k, v) ∈ es) : lookup es k = some v := by
  induction es with
  | nil => cases hm
  | cons e es ih =>
    obtain ⟨k', v'⟩ := e
    simp only [List.map_cons, List.nodup_cons] at hnd
    unfold lookup
    cases hm with
    | head => simp
    | tail _ h =>
      have hne : k' ≠ k := by
        intro heq
        apply hnd.1
        rw [heq]
        exact List.mem_map.mpr ⟨(k, v), h, rfl⟩
      have : (k' == k) = false := by simpa using hne
      simp only [this]
      exact ih hnd.2 h

theorem lookup_none_of_not_mem (es : List (String × PVal)) (k : String)
    (h : k ∉ es.map (·.1)) : lookup es k = none := by
  induction es with
  | nil => rfl
  | cons e es ih =>
    obtain ⟨k', v'⟩ := e
    simp only [List.map_cons, List.mem_cons, not_or] at h
    unfold lookup
    have : (k' == k) = false := by
      have : k' ≠ k := fun heq => h.1 heq.symm
      simpa using this
    simp only [this]
    exact ih h.2

theorem lookup_some_mem (es : List (String × PVal)) (k : String) (v : PVal)
    (h : lookup es k = some v) : (k, v) ∈ es := by
  induction es with
  | nil => simp [lookup] at h
  | cons e es ih =>
    obtain ⟨k', v'⟩ := e
    unfold lookup at h
    by_cases hk : (k' == k) = true
    · simp only [hk] at h
      have hk' : k' = k := by simpa using hk
      cases h
      rw [hk']
      exact List.mem_cons_self
    · simp only [hk] at h
      exact List.mem_cons_of_mem _ (ih h)

end GqlModel.DefaultResolve
