import GqlProofs.PlanSerial
import GqlProofs.PlanInv
/-! # The depth-first pass forces everything — when no deferred value yields a func directly

`flatWorld w`: no thunk of the world returns (directly) another func. Then one call of a closure never returns a closure, so
`dethunkValueDepthFirst` leaves no closure behind (`dfsVal_settles`) and the final pass of a mutation has nothing to do. (On worlds
that are not flat the library leaves a func in the data of a query, and forces it in the final pass of a mutation: M does the same,
see `GqlModel/Plan.lean`; the harness does not generate such worlds.) -/
namespace GqlModel.Plan
open GqlModel.Exec GqlModel.Coerce

mutual
/-- no thunk inside returns a func directly -/
def flatV : GoVal → Bool
  | .thunk (.ok v) => (funcOf v).isNone && flatV v
  | .list xs => flatVs xs
  | _ => true
def flatVs : List GoVal → Bool
  | [] => true
  | x :: xs => flatV x && flatVs xs
end

def flatOutcome : Outcome → Bool
  | .value v => flatV v
  | .fail => true

def flatWorld (w : World) : Bool :=
  w.objects.all (fun o => o.2.fields.all (fun f => flatOutcome f.2)) && w.rootFields.all (fun f => flatOutcome f.2)

/-- what a closure will call yields no func directly, and is flat inside -/
def ClFlat (cl : Closure) : Prop :=
  match cl.r with
  | some (.ok v) => funcOf v = none ∧ flatV v = true
  | _ => True

theorem flatVs_iff {xs : List GoVal} : flatVs xs = true ↔ ∀ x ∈ xs, flatV x = true := by
  induction xs with
  | nil => simp [flatVs]
  | cons x xs ih => simp [flatVs, ih]

theorem outcome_flat {w : World} (hw : flatWorld w = true) (src : GoVal) (f : String) :
    flatOutcome (w.outcome src f) = true := by
  unfold flatWorld at hw
  simp only [Bool.and_eq_true, List.all_eq_true] at hw
  have key : ∀ tbl : List (String × Outcome), (∀ e ∈ tbl, flatOutcome e.2 = true) →
      flatOutcome (match tbl.find? (fun (p : String × Outcome) => p.1 == f) with
        | some (_, o) => o
        | none => Outcome.value GoVal.nil) = true := by
    intro tbl htbl
    cases hf : tbl.find? (fun p => p.1 == f) with
    | none => rfl
    | some e => obtain ⟨k, o⟩ := e; exact htbl _ (List.mem_of_find?_eq_some hf)
  unfold World.outcome
  apply key
  intro e he
  cases src with
  | ref id =>
    simp only at he
    cases ho : w.obj? id with
    | none => simp [ho] at he
    | some o =>
      simp only [ho] at he
      unfold World.obj? at ho
      cases hfo : w.objects.find? (fun p => p.1 == id) with
      | none => simp [hfo] at ho
      | some x =>
        simp only [hfo, Option.map_some, Option.some.injEq] at ho
        subst ho
        exact hw.1 x (List.mem_of_find?_eq_some hfo) e he
  | _ => exact hw.2 e he

theorem clFlat_of_funcOf {v : GoVal} {r : Option ThunkRes} (hv : flatV v = true) (hf : funcOf v = some r)
    (t : GType) (rt : String) (fid : FpId) (fp : FieldPlan) (p : Path) :
    ClFlat { t := t, rt := rt, fid := fid, fp := fp, path := p, r := r } := by
  unfold ClFlat
  cases v with
  | thunk tr =>
    simp only [funcOf, Option.some.injEq] at hf
    subst hf
    cases tr with
    | err => trivial
    | ok v' =>
      simp only [flatV, Bool.and_eq_true, Option.isNone_iff_eq_none] at hv
      exact hv
  | badFunc => simp only [funcOf, Option.some.injEq] at hf; subst hf; trivial
  | _ => simp [funcOf] at hf

section flat
variable (c : Ctx) (alt : Alt)

local notation "FL" => PVal.AllCl ClFlat

/-- phase one on a flat world only creates flat closures, and a value that is not a func never completes to a bare closure -/
structure FlatP (fuel : Nat) : Prop where
  groups : ∀ dfr rt src path sid fps acc st, (∀ x ∈ acc, FL x.2) →
    ∀ fs, (mGroups c alt fuel dfr rt src path sid fps acc st).1 = .ok fs → ∀ x ∈ fs, FL x.2
  field : ∀ dfr rt src p fid fp fd st,
    ∀ v, (mField c alt fuel dfr rt src p fid fp fd st).1 = .ok v → FL v
  complete : ∀ dfr t rt fid fp p v st, flatV v = true →
    ∀ x, (mComplete c alt fuel dfr t rt fid fp p v st).1 = .ok x → FL x ∧ (funcOf v = none → ∀ cl, x ≠ .deferred cl)
  items : ∀ dfr item rt fid fp p xs i acc st, flatVs xs = true → (∀ x ∈ acc, FL x) →
    ∀ ys, (mItems c alt fuel dfr item rt fid fp p xs i acc st).1 = .ok ys → ∀ y ∈ ys, FL y

variable {c alt}

theorem flatP_zero : FlatP c alt 0 := by
  refine ⟨?_, ?_, ?_, ?_⟩
  · intro dfr rt src path sid fps acc st _ fs h; simp only [mGroups] at h; cases h
  · intro dfr rt src p fid fp fd st v h; simp only [mField] at h; cases h
  · intro dfr t rt fid fp p v st _ x h; simp only [mComplete] at h; cases h
  · intro dfr item rt fid fp p xs i acc st _ _ ys h; simp only [mItems] at h; cases h

theorem flatP_groups (fuel : Nat) (ih : FlatP c alt fuel) :
    ∀ dfr rt src path sid fps acc st, (∀ x ∈ acc, FL x.2) →
    ∀ fs, (mGroups c alt (fuel + 1) dfr rt src path sid fps acc st).1 = .ok fs → ∀ x ∈ fs, FL x.2 := by
  intro dfr rt src path sid fps acc st hacc fs h
  cases fps with
  | nil => simp only [mGroups, Res.ok.injEq] at h; subst h; exact hacc
  | cons fp rest =>
    simp only [mGroups] at h
    by_cases hp : (!(fp.pred.eval c.schema c.vars)) = true
    · simp only [hp, if_true] at h; exact ih.groups _ _ _ _ _ _ _ _ hacc fs h
    · simp only [hp, Bool.false_eq_true, if_false] at h
      cases hfd : fp.fieldDef with
      | none => simp only [hfd] at h; exact ih.groups _ _ _ _ _ _ _ _ hacc fs h
      | some fd =>
        simp only [hfd] at h
        have hf := ih.field dfr rt src (path ++ [.key fp.key]) (sid ++ [(rt, fp.key)]) fp fd st
        generalize mField c alt fuel dfr rt src (path ++ [.key fp.key]) (sid ++ [(rt, fp.key)]) fp fd st = z at hf h
        obtain ⟨r1, st1⟩ := z
        cases r1 with
        | ok v =>
          simp only at h hf
          refine ih.groups _ _ _ _ _ _ _ _ ?_ fs h
          intro x hx
          rcases List.mem_append.1 hx with hx | hx
          · exact hacc x hx
          · simp only [List.mem_singleton] at hx; rw [hx]; exact hf v rfl
        | fail => simp only at h; cases h
        | fuelOut => simp only at h; cases h

theorem flatP_field (hw : flatWorld c.world = true) (fuel : Nat) (ih : FlatP c alt fuel) :
    ∀ dfr rt src p fid fp fd st,
    ∀ v, (mField c alt (fuel + 1) dfr rt src p fid fp fd st).1 = .ok v → FL v := by
  intro dfr rt src p fid fp fd st v h
  simp only [mField] at h
  by_cases hn : (fd.name == "__typename") = true
  · simp only [hn, if_true, Res.ok.injEq] at h; subst h; exact allCl_leaf _
  · simp only [hn, Bool.false_eq_true, if_false] at h
    have hof := outcome_flat hw src fd.name
    cases hout : c.world.outcome src fd.name with
    | fail =>
      simp only [hout] at h
      by_cases hnn : fd.type.isNonNull = true
      · simp only [hnn, if_true] at h; cases h
      · simp only [hnn, Bool.false_eq_true, if_false, Res.ok.injEq] at h; subst h; exact allCl_leaf _
    | value gv =>
      simp only [hout] at h
      rw [hout] at hof
      generalize hst : st.logEv _ = st' at h
      have hc := ih.complete dfr fd.type rt fid fp p gv st' hof
      generalize mComplete c alt fuel dfr fd.type rt fid fp p gv st' = z at hc h
      obtain ⟨r1, st1⟩ := z
      cases r1 with
      | ok j => simp only [Res.ok.injEq] at h; subst h; exact (hc j rfl).1
      | fail =>
        simp only at h
        by_cases hnn : fd.type.isNonNull = true
        · simp only [hnn, if_true] at h; cases h
        · simp only [hnn, Bool.false_eq_true, if_false, Res.ok.injEq] at h; subst h; exact allCl_leaf _
      | fuelOut => simp only at h; cases h

theorem flatP_items (fuel : Nat) (ih : FlatP c alt fuel) :
    ∀ dfr item rt fid fp p xs i acc st, flatVs xs = true → (∀ x ∈ acc, FL x) →
    ∀ ys, (mItems c alt (fuel + 1) dfr item rt fid fp p xs i acc st).1 = .ok ys → ∀ y ∈ ys, FL y := by
  intro dfr item rt fid fp p xs i acc st hxs hacc ys h
  cases xs with
  | nil => simp only [mItems, Res.ok.injEq] at h; subst h; exact hacc
  | cons x xs =>
    simp only [flatVs, Bool.and_eq_true] at hxs
    simp only [mItems] at h
    have hc := ih.complete dfr item rt fid fp (p ++ [.idx i]) x st hxs.1
    generalize mComplete c alt fuel dfr item rt fid fp (p ++ [.idx i]) x st = z at hc h
    obtain ⟨r1, st1⟩ := z
    have happ : ∀ (y : PVal), FL y → ∀ x ∈ acc ++ [y], FL x := by
      intro y hy x hx
      rcases List.mem_append.1 hx with hx | hx
      · exact hacc x hx
      · simp only [List.mem_singleton] at hx; rw [hx]; exact hy
    cases r1 with
    | ok j => simp only at h; exact ih.items _ _ _ _ _ _ _ _ _ _ hxs.2 (happ j (hc j rfl).1) ys h
    | fail =>
      simp only at h
      by_cases hnn : item.isNonNull = true
      · simp only [hnn, if_true] at h; cases h
      · simp only [hnn, Bool.false_eq_true, if_false] at h
        exact ih.items _ _ _ _ _ _ _ _ _ _ hxs.2 (happ _ (allCl_leaf _)) ys h
    | fuelOut => simp only at h; cases h

theorem flatP_complete (fuel : Nat) (ih : FlatP c alt fuel) :
    ∀ dfr t rt fid fp p v st, flatV v = true →
    ∀ x, (mComplete c alt (fuel + 1) dfr t rt fid fp p v st).1 = .ok x → FL x ∧ (funcOf v = none → ∀ cl, x ≠ .deferred cl) := by
  intro dfr t rt fid fp p v st hv x h
  have hgroups : ∀ ot,
      (match mGroups c alt fuel dfr ot v p fid (alt st.memo fid fp ot).1 [] { st with memo := (alt st.memo fid fp ot).2 } with
        | (.ok fs, st) => ((Res.ok (PVal.obj fs) : Res PVal), st)
        | (.fail, st) => (.fail, st)
        | (.fuelOut, st) => (.fuelOut, st)).1 = .ok x → FL x ∧ ∀ cl, x ≠ .deferred cl := by
    intro ot h
    have hg := ih.groups dfr ot v p fid (alt st.memo fid fp ot).1 [] { st with memo := (alt st.memo fid fp ot).2 }
      (fun _ h => by cases h)
    generalize mGroups c alt fuel dfr ot v p fid (alt st.memo fid fp ot).1 [] { st with memo := (alt st.memo fid fp ot).2 } = z at hg h
    obtain ⟨r1, st1⟩ := z
    cases r1 with
    | ok fs =>
      simp only [Res.ok.injEq] at h; subst h
      exact ⟨allCl_obj.2 (hg fs rfl), fun cl hc => by cases hc⟩
    | fail => simp only at h; cases h
    | fuelOut => simp only at h; cases h
  have hleaf : ∀ j, (Res.ok (PVal.leaf j) : Res PVal) = .ok x → FL x ∧ ∀ cl, x ≠ .deferred cl := by
    intro j h
    simp only [Res.ok.injEq] at h; subst h
    exact ⟨allCl_leaf _, fun cl hc => by cases hc⟩
  have wk : (FL x ∧ ∀ cl, x ≠ .deferred cl) → FL x ∧ ((none : Option (Option ThunkRes)) = none → ∀ cl, x ≠ .deferred cl) :=
    fun hh => ⟨hh.1, fun _ => hh.2⟩
  simp only [mComplete] at h
  cases hfo : funcOf v with
  | some r =>
    simp only [hfo, Res.ok.injEq] at h
    subst h
    exact ⟨allCl_deferred.2 (clFlat_of_funcOf hv hfo _ _ _ _ _), fun hh => by cases hh⟩
  | none =>
    simp only [hfo] at h
    cases t with
    | nonNull inner =>
      simp only at h
      have hc := ih.complete dfr inner rt fid fp p v st hv
      generalize mComplete c alt fuel dfr inner rt fid fp p v st = z at hc h
      obtain ⟨r1, st1⟩ := z
      split at h
      · simp only at h; cases h
      · cases r1 with
        | ok j => simp only [Res.ok.injEq] at h; subst h; exact ⟨(hc j rfl).1, fun _ => (hc j rfl).2 hfo⟩
        | fail => simp only at h; cases h
        | fuelOut => simp only at h; cases h
    | list item =>
      simp only at h
      by_cases hnull : v.nullish = true
      · simp only [hnull, if_true] at h; exact wk (hleaf _ h)
      · simp only [hnull, Bool.false_eq_true, if_false] at h
        cases hl : listOf v with
        | none => simp only [hl] at h; cases h
        | some xs =>
          simp only [hl] at h
          have hxs : flatVs xs = true := by
            cases v with
            | list ys =>
              simp only [listOf, Option.some.injEq] at hl
              subst hl
              simpa only [flatV] using hv
            | _ => simp [listOf] at hl
          have hi := ih.items dfr item rt fid fp p xs 0 [] st hxs (fun _ h => by cases h)
          generalize mItems c alt fuel dfr item rt fid fp p xs 0 [] st = z at hi h
          obtain ⟨r1, st1⟩ := z
          cases r1 with
          | ok js =>
            simp only [Res.ok.injEq] at h; subst h
            exact ⟨allCl_list.2 (hi js rfl), fun _ cl hc => by cases hc⟩
          | fail => simp only at h; cases h
          | fuelOut => simp only at h; cases h
    | named n =>
      simp only at h
      by_cases hnull : v.nullish = true
      · simp only [hnull, if_true] at h; exact wk (hleaf _ h)
      · simp only [hnull, Bool.false_eq_true, if_false] at h
        by_cases hlf : c.schema.isLeaf n = true
        · simp only [hlf, if_true] at h
          cases hs : serializeLeaf c.schema n v with
          | none => simp only [hs] at h; cases h
          | some j => simp only [hs] at h; exact wk (hleaf _ h)
        · simp only [hlf, Bool.false_eq_true, if_false] at h
          by_cases habs : c.schema.isAbstract n = true
          · simp only [habs, if_true] at h
            cases hrt : runtimeTypeOf c n v with
            | none => simp only [hrt] at h; cases h
            | some ot =>
              simp only [hrt] at h
              by_cases hposs : (!(c.schema.isObject ot && c.schema.isPossibleType n ot)) = true
              · simp only [hposs, if_true] at h; cases h
              · simp only [hposs, Bool.false_eq_true, if_false] at h; exact wk (hgroups ot h)
          · simp only [habs, Bool.false_eq_true, if_false] at h
            by_cases hobj : c.schema.isObject n = true
            · simp only [hobj, if_true] at h
              by_cases hito : (objectHasIsTypeOf c.schema n && !c.world.isTypeOfAns n v) = true
              · simp only [hito, if_true] at h; cases h
              · simp only [hito, Bool.false_eq_true, if_false] at h; exact wk (hgroups n h)
            · simp only [hobj, Bool.false_eq_true, if_false] at h; cases h

theorem flatP (hw : flatWorld c.world = true) : ∀ fuel, FlatP c alt fuel
  | 0 => flatP_zero
  | fuel + 1 =>
    have ih := flatP hw fuel
    ⟨flatP_groups fuel ih, flatP_field hw fuel ih, flatP_complete fuel ih, flatP_items fuel ih⟩

/-- on a flat world one call of a flat closure yields a value that is not a closure, with flat closures inside -/
theorem force_flat (hw : flatWorld c.world = true) (fuel : Nat) (cl : Closure) (st : MSt) (hcl : ClFlat cl) :
    ∀ x, (force c alt fuel cl st).1 = .ok x → FL x ∧ ∀ cl', x ≠ .deferred cl' := by
  intro x h
  unfold force at h
  have hleaf : (Res.ok (PVal.leaf .null) : Res PVal) = .ok x → FL x ∧ ∀ cl', x ≠ .deferred cl' := by
    intro h
    simp only [Res.ok.injEq] at h; subst h
    exact ⟨allCl_leaf _, fun _ hc => by cases hc⟩
  cases hcr : cl.r with
  | none =>
    simp only [hcr] at h
    by_cases hnn : cl.t.isNonNull = true
    · simp only [hnn, if_true] at h; cases h
    · simp only [hnn, Bool.false_eq_true, if_false] at h; exact hleaf h
  | some r =>
    simp only [hcr] at h
    cases r with
    | err =>
      simp only at h
      by_cases hnn : cl.t.isNonNull = true
      · simp only [hnn, if_true] at h; cases h
      · simp only [hnn, Bool.false_eq_true, if_false] at h; exact hleaf h
    | ok v =>
      simp only at h
      unfold ClFlat at hcl
      rw [hcr] at hcl
      simp only at hcl
      have hc := (flatP (c := c) (alt := alt) hw fuel).complete true cl.t cl.rt cl.fid cl.fp cl.path v
        (st.logEv (.force cl.path)) hcl.2
      generalize mComplete c alt fuel true cl.t cl.rt cl.fid cl.fp cl.path v (st.logEv (.force cl.path)) = z at hc h
      obtain ⟨r1, st1⟩ := z
      cases r1 with
      | ok y =>
        simp only [Res.ok.injEq] at h; subst h
        exact ⟨(hc _ rfl).1, (hc _ rfl).2 hcl.1⟩
      | fail =>
        simp only at h
        by_cases hnn : cl.t.isNonNull = true
        · simp only [hnn, if_true] at h; cases h
        · simp only [hnn, Bool.false_eq_true, if_false] at h; exact hleaf h
      | fuelOut => simp only at h; cases h

end flat

/-! ## response maps have distinct keys -/

mutual
/-- every object inside has pairwise distinct keys (it is a Go map) -/
def NDv : PVal → Prop
  | .leaf _ => True
  | .list xs => NDl xs
  | .obj fs => (fs.map (·.1)).Nodup ∧ NDf fs
  | .deferred _ => True
def NDl : List PVal → Prop
  | [] => True
  | x :: xs => NDv x ∧ NDl xs
def NDf : List (String × PVal) → Prop
  | [] => True
  | (_, x) :: xs => NDv x ∧ NDf xs
end

theorem ndl_iff {xs : List PVal} : NDl xs ↔ ∀ x ∈ xs, NDv x := by
  induction xs with
  | nil => simp [NDl]
  | cons x xs ih => simp [NDl, ih]

theorem ndf_iff {fs : List (String × PVal)} : NDf fs ↔ ∀ x ∈ fs, NDv x.2 := by
  induction fs with
  | nil => simp [NDf]
  | cons x xs ih => obtain ⟨k, v⟩ := x; simp [NDf, ih]

theorem ndv_leaf (j : JVal) : NDv (.leaf j) := by simp [NDv]
theorem ndv_deferred (cl : Closure) : NDv (.deferred cl) := by simp [NDv]
theorem ndv_list {xs : List PVal} : NDv (.list xs) ↔ ∀ x ∈ xs, NDv x := by simp only [NDv]; exact ndl_iff
theorem ndv_obj {fs : List (String × PVal)} : NDv (.obj fs) ↔ (fs.map (·.1)).Nodup ∧ ∀ x ∈ fs, NDv x.2 := by
  simp only [NDv]; rw [ndf_iff]

/-- the sub-plan oracle returns field lists with distinct response keys -/
def AltND (alt : Alt) : Prop := ∀ m fid fp rt, KeysNodup (alt m fid fp rt).1

theorem altND_recompute (s : Schema) (frags : List (String × Definition)) (pv : Option Vars) : AltND (recompute s frags pv) :=
  fun _ _ fp rt => keysNodup_planMerged s frags pv rt fp.nodes

section nd
variable (c : Ctx) (alt : Alt)

structure NodupP (fuel : Nat) : Prop where
  groups : ∀ dfr rt src path sid fps acc st, (acc.map (·.1) ++ fps.map (·.key)).Nodup → (∀ x ∈ acc, NDv x.2) →
    ∀ fs, (mGroups c alt fuel dfr rt src path sid fps acc st).1 = .ok fs → (fs.map (·.1)).Nodup ∧ ∀ x ∈ fs, NDv x.2
  field : ∀ dfr rt src p fid fp fd st, ∀ v, (mField c alt fuel dfr rt src p fid fp fd st).1 = .ok v → NDv v
  complete : ∀ dfr t rt fid fp p v st, ∀ x, (mComplete c alt fuel dfr t rt fid fp p v st).1 = .ok x → NDv x
  items : ∀ dfr item rt fid fp p xs i acc st, (∀ x ∈ acc, NDv x) →
    ∀ ys, (mItems c alt fuel dfr item rt fid fp p xs i acc st).1 = .ok ys → ∀ y ∈ ys, NDv y

variable {c alt}

theorem nodupP_zero : NodupP c alt 0 := by
  refine ⟨?_, ?_, ?_, ?_⟩
  · intro dfr rt src path sid fps acc st _ _ fs h; simp only [mGroups] at h; cases h
  · intro dfr rt src p fid fp fd st v h; simp only [mField] at h; cases h
  · intro dfr t rt fid fp p v st x h; simp only [mComplete] at h; cases h
  · intro dfr item rt fid fp p xs i acc st _ ys h; simp only [mItems] at h; cases h

theorem nodupP_groups (fuel : Nat) (ih : NodupP c alt fuel) :
    ∀ dfr rt src path sid fps acc st, (acc.map (·.1) ++ fps.map (·.key)).Nodup → (∀ x ∈ acc, NDv x.2) →
    ∀ fs, (mGroups c alt (fuel + 1) dfr rt src path sid fps acc st).1 = .ok fs → (fs.map (·.1)).Nodup ∧ ∀ x ∈ fs, NDv x.2 := by
  intro dfr rt src path sid fps acc st hnd hacc fs h
  cases fps with
  | nil =>
    simp only [mGroups, Res.ok.injEq] at h; subst h
    exact ⟨by simpa using hnd, hacc⟩
  | cons fp rest =>
    have hnd' : (acc.map (·.1) ++ rest.map (·.key)).Nodup := by
      simp only [List.map_cons] at hnd
      exact (List.nodup_append.1 hnd).1 |> fun h1 =>
        List.nodup_append.2 ⟨h1, (List.nodup_cons.1 (List.nodup_append.1 hnd).2.1).2,
          fun a ha b hb => (List.nodup_append.1 hnd).2.2 a ha b (List.mem_cons_of_mem _ hb)⟩
    simp only [mGroups] at h
    by_cases hp : (!(fp.pred.eval c.schema c.vars)) = true
    · simp only [hp, if_true] at h; exact ih.groups _ _ _ _ _ _ _ _ hnd' hacc fs h
    · simp only [hp, Bool.false_eq_true, if_false] at h
      cases hfd : fp.fieldDef with
      | none => simp only [hfd] at h; exact ih.groups _ _ _ _ _ _ _ _ hnd' hacc fs h
      | some fd =>
        simp only [hfd] at h
        have hf := ih.field dfr rt src (path ++ [.key fp.key]) (sid ++ [(rt, fp.key)]) fp fd st
        generalize mField c alt fuel dfr rt src (path ++ [.key fp.key]) (sid ++ [(rt, fp.key)]) fp fd st = z at hf h
        obtain ⟨r1, st1⟩ := z
        cases r1 with
        | ok v =>
          simp only at h hf
          refine ih.groups _ _ _ _ _ _ _ _ ?_ ?_ fs h
          · simpa using hnd
          · intro x hx
            rcases List.mem_append.1 hx with hx | hx
            · exact hacc x hx
            · simp only [List.mem_singleton] at hx; rw [hx]; exact hf v rfl
        | fail => simp only at h; cases h
        | fuelOut => simp only at h; cases h

theorem nodupP_field (fuel : Nat) (ih : NodupP c alt fuel) :
    ∀ dfr rt src p fid fp fd st, ∀ v, (mField c alt (fuel + 1) dfr rt src p fid fp fd st).1 = .ok v → NDv v := by
  intro dfr rt src p fid fp fd st v h
  simp only [mField] at h
  by_cases hn : (fd.name == "__typename") = true
  · simp only [hn, if_true, Res.ok.injEq] at h; subst h; exact ndv_leaf _
  · simp only [hn, Bool.false_eq_true, if_false] at h
    cases hout : c.world.outcome src fd.name with
    | fail =>
      simp only [hout] at h
      by_cases hnn : fd.type.isNonNull = true
      · simp only [hnn, if_true] at h; cases h
      · simp only [hnn, Bool.false_eq_true, if_false, Res.ok.injEq] at h; subst h; exact ndv_leaf _
    | value gv =>
      simp only [hout] at h
      generalize hst : st.logEv _ = st' at h
      have hc := ih.complete dfr fd.type rt fid fp p gv st'
      generalize mComplete c alt fuel dfr fd.type rt fid fp p gv st' = z at hc h
      obtain ⟨r1, st1⟩ := z
      cases r1 with
      | ok j => simp only [Res.ok.injEq] at h; subst h; exact hc j rfl
      | fail =>
        simp only at h
        by_cases hnn : fd.type.isNonNull = true
        · simp only [hnn, if_true] at h; cases h
        · simp only [hnn, Bool.false_eq_true, if_false, Res.ok.injEq] at h; subst h; exact ndv_leaf _
      | fuelOut => simp only at h; cases h

theorem nodupP_items (fuel : Nat) (ih : NodupP c alt fuel) :
    ∀ dfr item rt fid fp p xs i acc st, (∀ x ∈ acc, NDv x) →
    ∀ ys, (mItems c alt (fuel + 1) dfr item rt fid fp p xs i acc st).1 = .ok ys → ∀ y ∈ ys, NDv y := by
  intro dfr item rt fid fp p xs i acc st hacc ys h
  cases xs with
  | nil => simp only [mItems, Res.ok.injEq] at h; subst h; exact hacc
  | cons x xs =>
    simp only [mItems] at h
    have hc := ih.complete dfr item rt fid fp (p ++ [.idx i]) x st
    generalize mComplete c alt fuel dfr item rt fid fp (p ++ [.idx i]) x st = z at hc h
    obtain ⟨r1, st1⟩ := z
    have happ : ∀ (y : PVal), NDv y → ∀ x ∈ acc ++ [y], NDv x := by
      intro y hy x hx
      rcases List.mem_append.1 hx with hx | hx
      · exact hacc x hx
      · simp only [List.mem_singleton] at hx; rw [hx]; exact hy
    cases r1 with
    | ok j => simp only at h; exact ih.items _ _ _ _ _ _ _ _ _ _ (happ j (hc j rfl)) ys h
    | fail =>
      simp only at h
      by_cases hnn : item.isNonNull = true
      · simp only [hnn, if_true] at h; cases h
      · simp only [hnn, Bool.false_eq_true, if_false] at h
        exact ih.items _ _ _ _ _ _ _ _ _ _ (happ _ (ndv_leaf _)) ys h
    | fuelOut => simp only at h; cases h

theorem nodupP_complete (ha : AltND alt) (fuel : Nat) (ih : NodupP c alt fuel) :
    ∀ dfr t rt fid fp p v st, ∀ x, (mComplete c alt (fuel + 1) dfr t rt fid fp p v st).1 = .ok x → NDv x := by
  intro dfr t rt fid fp p v st x h
  have hgroups : ∀ ot,
      (match mGroups c alt fuel dfr ot v p fid (alt st.memo fid fp ot).1 [] { st with memo := (alt st.memo fid fp ot).2 } with
        | (.ok fs, st) => ((Res.ok (PVal.obj fs) : Res PVal), st)
        | (.fail, st) => (.fail, st)
        | (.fuelOut, st) => (.fuelOut, st)).1 = .ok x → NDv x := by
    intro ot h
    have hg := ih.groups dfr ot v p fid (alt st.memo fid fp ot).1 [] { st with memo := (alt st.memo fid fp ot).2 }
      (by simpa [KeysNodup] using ha st.memo fid fp ot) (fun _ h => by cases h)
    generalize mGroups c alt fuel dfr ot v p fid (alt st.memo fid fp ot).1 [] { st with memo := (alt st.memo fid fp ot).2 } = z at hg h
    obtain ⟨r1, st1⟩ := z
    cases r1 with
    | ok fs => simp only [Res.ok.injEq] at h; subst h; exact ndv_obj.2 (hg fs rfl)
    | fail => simp only at h; cases h
    | fuelOut => simp only at h; cases h
  have hleaf : ∀ j, (Res.ok (PVal.leaf j) : Res PVal) = .ok x → NDv x := by
    intro j h; simp only [Res.ok.injEq] at h; subst h; exact ndv_leaf _
  simp only [mComplete] at h
  cases hfo : funcOf v with
  | some r => simp only [hfo, Res.ok.injEq] at h; subst h; exact ndv_deferred _
  | none =>
    simp only [hfo] at h
    cases t with
    | nonNull inner =>
      simp only at h
      have hc := ih.complete dfr inner rt fid fp p v st
      generalize mComplete c alt fuel dfr inner rt fid fp p v st = z at hc h
      obtain ⟨r1, st1⟩ := z
      split at h
      · simp only at h; cases h
      · cases r1 with
        | ok j => simp only [Res.ok.injEq] at h; subst h; exact hc j rfl
        | fail => simp only at h; cases h
        | fuelOut => simp only at h; cases h
    | list item =>
      simp only at h
      by_cases hnull : v.nullish = true
      · simp only [hnull, if_true] at h; exact hleaf _ h
      · simp only [hnull, Bool.false_eq_true, if_false] at h
        cases hl : listOf v with
        | none => simp only [hl] at h; cases h
        | some xs =>
          simp only [hl] at h
          have hi := ih.items dfr item rt fid fp p xs 0 [] st (fun _ h => by cases h)
          generalize mItems c alt fuel dfr item rt fid fp p xs 0 [] st = z at hi h
          obtain ⟨r1, st1⟩ := z
          cases r1 with
          | ok js => simp only [Res.ok.injEq] at h; subst h; exact ndv_list.2 (hi js rfl)
          | fail => simp only at h; cases h
          | fuelOut => simp only at h; cases h
    | named n =>
      simp only at h
      by_cases hnull : v.nullish = true
      · simp only [hnull, if_true] at h; exact hleaf _ h
      · simp only [hnull, Bool.false_eq_true, if_false] at h
        by_cases hlf : c.schema.isLeaf n = true
        · simp only [hlf, if_true] at h
          cases hs : serializeLeaf c.schema n v with
          | none => simp only [hs] at h; cases h
          | some j => simp only [hs] at h; exact hleaf _ h
        · simp only [hlf, Bool.false_eq_true, if_false] at h
          by_cases habs : c.schema.isAbstract n = true
          · simp only [habs, if_true] at h
            cases hrt : runtimeTypeOf c n v with
            | none => simp only [hrt] at h; cases h
            | some ot =>
              simp only [hrt] at h
              by_cases hposs : (!(c.schema.isObject ot && c.schema.isPossibleType n ot)) = true
              · simp only [hposs, if_true] at h; cases h
              · simp only [hposs, Bool.false_eq_true, if_false] at h; exact hgroups ot h
          · simp only [habs, Bool.false_eq_true, if_false] at h
            by_cases hobj : c.schema.isObject n = true
            · simp only [hobj, if_true] at h
              by_cases hito : (objectHasIsTypeOf c.schema n && !c.world.isTypeOfAns n v) = true
              · simp only [hito, if_true] at h; cases h
              · simp only [hito, Bool.false_eq_true, if_false] at h; exact hgroups n h
            · simp only [hobj, Bool.false_eq_true, if_false] at h; cases h

theorem nodupP (ha : AltND alt) : ∀ fuel, NodupP c alt fuel
  | 0 => nodupP_zero
  | fuel + 1 =>
    have ih := nodupP ha fuel
    ⟨nodupP_groups fuel ih, nodupP_field fuel ih, nodupP_complete ha fuel ih, nodupP_items fuel ih⟩

theorem force_nd (ha : AltND alt) (fuel : Nat) (cl : Closure) (st : MSt) :
    ∀ x, (force c alt fuel cl st).1 = .ok x → NDv x := by
  intro x h
  unfold force at h
  have hleaf : (Res.ok (PVal.leaf .null) : Res PVal) = .ok x → NDv x := by
    intro h; simp only [Res.ok.injEq] at h; subst h; exact ndv_leaf _
  cases hcr : cl.r with
  | none =>
    simp only [hcr] at h
    by_cases hnn : cl.t.isNonNull = true
    · simp only [hnn, if_true] at h; cases h
    · simp only [hnn, Bool.false_eq_true, if_false] at h; exact hleaf h
  | some r =>
    simp only [hcr] at h
    cases r with
    | err =>
      simp only at h
      by_cases hnn : cl.t.isNonNull = true
      · simp only [hnn, if_true] at h; cases h
      · simp only [hnn, Bool.false_eq_true, if_false] at h; exact hleaf h
    | ok v =>
      simp only at h
      have hc := (nodupP (c := c) ha fuel).complete true cl.t cl.rt cl.fid cl.fp cl.path v (st.logEv (.force cl.path))
      generalize mComplete c alt fuel true cl.t cl.rt cl.fid cl.fp cl.path v (st.logEv (.force cl.path)) = z at hc h
      obtain ⟨r1, st1⟩ := z
      cases r1 with
      | ok y => simp only [Res.ok.injEq] at h; subst h; exact hc _ rfl
      | fail =>
        simp only at h
        by_cases hnn : cl.t.isNonNull = true
        · simp only [hnn, if_true] at h; cases h
        · simp only [hnn, Bool.false_eq_true, if_false] at h; exact hleaf h
      | fuelOut => simp only at h; cases h

end nd

end GqlModel.Plan
