import GqlProofs.PlanSerial
import GqlProofs.PlanInv
/-! # Invariants of values under construction: a non-func never completes to a bare closure; response maps have distinct keys

Used to show that `dethunkValueDepthFirst` leaves no closure behind (`GqlProofs/PlanSettle2.lean`): the loop at every dethunk site
(`forceLoop`) only stops at a value that is no closure. -/
namespace GqlModel.Plan
open GqlModel.Exec GqlModel.Coerce

section notdef
variable {c : Ctx} {alt : Alt}

/-- a value that is no func never completes to a bare closure (it completes to a leaf, a list or a map) -/
theorem mComplete_not_deferred : ∀ (fuel : Nat) (dfr : Bool) (t : GType) (rt : String) (fid : FpId) (fp : FieldPlan) (p : Path)
    (v : GoVal) (st : MSt), funcOf v = none →
    ∀ x, (mComplete c alt fuel dfr t rt fid fp p v st).1 = .ok x → ∀ cl, x ≠ .deferred cl
  | 0, dfr, t, rt, fid, fp, p, v, st, _, x, h => by simp only [mComplete] at h; cases h
  | fuel + 1, dfr, t, rt, fid, fp, p, v, st, hfo, x, h => by
    have hleaf : ∀ j, (Res.ok (PVal.leaf j) : Res PVal) = .ok x → ∀ cl, x ≠ .deferred cl := by
      intro j h cl hc
      simp only [Res.ok.injEq] at h; subst h; cases hc
    have hgroups : ∀ ot,
        (match mGroups c alt fuel dfr ot v p fid (alt st.memo fid fp ot).1 [] { st with memo := (alt st.memo fid fp ot).2 } with
          | (.ok fs, st) => ((Res.ok (PVal.obj fs) : Res PVal), st)
          | (.fail, st) => (.fail, st)
          | (.fuelOut, st) => (.fuelOut, st)).1 = .ok x → ∀ cl, x ≠ .deferred cl := by
      intro ot h
      generalize mGroups c alt fuel dfr ot v p fid (alt st.memo fid fp ot).1 [] { st with memo := (alt st.memo fid fp ot).2 } = z at h
      obtain ⟨r1, st1⟩ := z
      cases r1 with
      | ok fs => simp only [Res.ok.injEq] at h; subst h; intro cl hc; cases hc
      | fail => simp only at h; cases h
      | fuelOut => simp only at h; cases h
    simp only [mComplete, hfo] at h
    cases t with
    | nonNull inner =>
      simp only at h
      have ih := mComplete_not_deferred fuel dfr inner rt fid fp p v st hfo
      generalize mComplete c alt fuel dfr inner rt fid fp p v st = z at ih h
      obtain ⟨r1, st1⟩ := z
      split at h
      · simp only at h; cases h
      · cases r1 with
        | ok j => simp only [Res.ok.injEq] at h; subst h; exact ih j rfl
        | fail => simp only at h; cases h
        | fuelOut => simp only at h; cases h
    | list item =>
      simp only at h
      by_cases hnull : v.nullish = true
      · simp only [hnull, if_true] at h; exact hleaf _ h
      · simp only [hnull, Bool.false_eq_true, if_false] at h
        cases hl : listOf v with
        | none => simp only [hl] at h; cases h
        | some xs =>
          simp only [hl] at h
          generalize mItems c alt fuel dfr item rt fid fp p xs 0 [] st = z at h
          obtain ⟨r1, st1⟩ := z
          cases r1 with
          | ok js => simp only [Res.ok.injEq] at h; subst h; intro cl hc; cases hc
          | fail => simp only at h; cases h
          | fuelOut => simp only at h; cases h
    | named n =>
      simp only at h
      by_cases hnull : v.nullish = true
      · simp only [hnull, if_true] at h; exact hleaf _ h
      · simp only [hnull, Bool.false_eq_true, if_false] at h
        by_cases hlf : c.schema.isLeaf n = true
        · simp only [hlf, if_true] at h
          cases hs : serializeLeaf c.schema n v with
          | none => simp only [hs] at h; cases h
          | some j => simp only [hs] at h; exact hleaf _ h
        · simp only [hlf, Bool.false_eq_true, if_false] at h
          by_cases habs : c.schema.isAbstract n = true
          · simp only [habs, if_true] at h
            cases hrt : runtimeTypeOf c n v with
            | none => simp only [hrt] at h; cases h
            | some ot =>
              simp only [hrt] at h
              by_cases hposs : (!(c.schema.isObject ot && c.schema.isPossibleType n ot)) = true
              · simp only [hposs, if_true] at h; cases h
              · simp only [hposs, Bool.false_eq_true, if_false] at h; exact hgroups ot h
          · simp only [habs, Bool.false_eq_true, if_false] at h
            by_cases hobj : c.schema.isObject n = true
            · simp only [hobj, if_true] at h
              by_cases hito : (objectHasIsTypeOf c.schema n && !c.world.isTypeOfAns n v) = true
              · simp only [hito, if_true] at h; cases h
              · simp only [hito, Bool.false_eq_true, if_false] at h; exact hgroups n h
            · simp only [hobj, Bool.false_eq_true, if_false] at h; cases h

/-- the loop at a dethunk site only stops at a value that is no closure -/
theorem forceLoop_not_deferred {frc : Closure → MSt → Res PVal × MSt} :
    ∀ (n : Nat) (v : PVal) (st : MSt) (x : PVal), (forceLoop frc n v st).1 = .ok x → ∀ cl, x ≠ .deferred cl
  | 0, v, st, x, h => by simp only [forceLoop] at h; cases h
  | n + 1, .leaf j, st, x, h => by simp only [forceLoop, Res.ok.injEq] at h; subst h; intro cl hc; cases hc
  | n + 1, .list xs, st, x, h => by simp only [forceLoop, Res.ok.injEq] at h; subst h; intro cl hc; cases hc
  | n + 1, .obj fs, st, x, h => by simp only [forceLoop, Res.ok.injEq] at h; subst h; intro cl hc; cases hc
  | n + 1, .deferred cl, st, x, h => by
    simp only [forceLoop] at h
    generalize frc cl st = z at h
    obtain ⟨r1, st1⟩ := z
    cases r1 with
    | ok y => exact forceLoop_not_deferred n y st1 x h
    | fail => simp only at h; cases h
    | fuelOut => simp only at h; cases h

end notdef

/-! ## response maps have distinct keys -/

mutual
/-- every object inside has pairwise distinct keys (it is a Go map) -/
def NDv : PVal → Prop
  | .leaf _ => True
  | .list xs => NDl xs
  | .obj fs => (fs.map (·.1)).Nodup ∧ NDf fs
  | .deferred _ => True
def NDl : List PVal → Prop
  | [] => True
  | x :: xs => NDv x ∧ NDl xs
def NDf : List (String × PVal) → Prop
  | [] => True
  | (_, x) :: xs => NDv x ∧ NDf xs
end

theorem ndl_iff {xs : List PVal} : NDl xs ↔ ∀ x ∈ xs, NDv x := by
  induction xs with
  | nil => simp [NDl]
  | cons x xs ih => simp [NDl, ih]

theorem ndf_iff {fs : List (String × PVal)} : NDf fs ↔ ∀ x ∈ fs, NDv x.2 := by
  induction fs with
  | nil => simp [NDf]
  | cons x xs ih => obtain ⟨k, v⟩ := x; simp [NDf, ih]

theorem ndv_leaf (j : JVal) : NDv (.leaf j) := by simp [NDv]
theorem ndv_deferred (cl : Closure) : NDv (.deferred cl) := by simp [NDv]
theorem ndv_list {xs : List PVal} : NDv (.list xs) ↔ ∀ x ∈ xs, NDv x := by simp only [NDv]; exact ndl_iff
theorem ndv_obj {fs : List (String × PVal)} : NDv (.obj fs) ↔ (fs.map (·.1)).Nodup ∧ ∀ x ∈ fs, NDv x.2 := by
  simp only [NDv]; rw [ndf_iff]

/-- the sub-plan oracle returns field lists with distinct response keys -/
def AltND (alt : Alt) : Prop := ∀ m fid fp rt, KeysNodup (alt m fid fp rt).1

theorem altND_recompute (s : Schema) (frags : List (String × Definition)) (pv : Option Vars) : AltND (recompute s frags pv) :=
  fun _ _ fp rt => keysNodup_planMerged s frags pv rt fp.nodes

section nd
variable (c : Ctx) (alt : Alt)

structure NodupP (fuel : Nat) : Prop where
  groups : ∀ dfr rt src path sid fps acc st, (acc.map (·.1) ++ fps.map (·.key)).Nodup → (∀ x ∈ acc, NDv x.2) →
    ∀ fs, (mGroups c alt fuel dfr rt src path sid fps acc st).1 = .ok fs → (fs.map (·.1)).Nodup ∧ ∀ x ∈ fs, NDv x.2
  field : ∀ dfr rt src p fid fp fd st, ∀ v, (mField c alt fuel dfr rt src p fid fp fd st).1 = .ok v → NDv v
  complete : ∀ dfr t rt fid fp p v st, ∀ x, (mComplete c alt fuel dfr t rt fid fp p v st).1 = .ok x → NDv x
  items : ∀ dfr item rt fid fp p xs i acc st, (∀ x ∈ acc, NDv x) →
    ∀ ys, (mItems c alt fuel dfr item rt fid fp p xs i acc st).1 = .ok ys → ∀ y ∈ ys, NDv y

variable {c alt}

theorem nodupP_zero : NodupP c alt 0 := by
  refine ⟨?_, ?_, ?_, ?_⟩
  · intro dfr rt src path sid fps acc st _ _ fs h; simp only [mGroups] at h; cases h
  · intro dfr rt src p fid fp fd st v h; simp only [mField] at h; cases h
  · intro dfr t rt fid fp p v st x h; simp only [mComplete] at h; cases h
  · intro dfr item rt fid fp p xs i acc st _ ys h; simp only [mItems] at h; cases h

theorem nodupP_groups (fuel : Nat) (ih : NodupP c alt fuel) :
    ∀ dfr rt src path sid fps acc st, (acc.map (·.1) ++ fps.map (·.key)).Nodup → (∀ x ∈ acc, NDv x.2) →
    ∀ fs, (mGroups c alt (fuel + 1) dfr rt src path sid fps acc st).1 = .ok fs → (fs.map (·.1)).Nodup ∧ ∀ x ∈ fs, NDv x.2 := by
  intro dfr rt src path sid fps acc st hnd hacc fs h
  cases fps with
  | nil =>
    simp only [mGroups, Res.ok.injEq] at h; subst h
    exact ⟨by simpa using hnd, hacc⟩
  | cons fp rest =>
    have hnd' : (acc.map (·.1) ++ rest.map (·.key)).Nodup := by
      simp only [List.map_cons] at hnd
      exact (List.nodup_append.1 hnd).1 |> fun h1 =>
        List.nodup_append.2 ⟨h1, (List.nodup_cons.1 (List.nodup_append.1 hnd).2.1).2,
          fun a ha b hb => (List.nodup_append.1 hnd).2.2 a ha b (List.mem_cons_of_mem _ hb)⟩
    simp only [mGroups] at h
    by_cases hp : (!(fp.pred.eval c.schema c.vars)) = true
    · simp only [hp, if_true] at h; exact ih.groups _ _ _ _ _ _ _ _ hnd' hacc fs h
    · simp only [hp, Bool.false_eq_true, if_false] at h
      cases hfd : fp.fieldDef with
      | none => simp only [hfd] at h; exact ih.groups _ _ _ _ _ _ _ _ hnd' hacc fs h
      | some fd =>
        simp only [hfd] at h
        have hf := ih.field dfr rt src (path ++ [.key fp.key]) (sid ++ [(rt, fp.key)]) fp fd st
        generalize mField c alt fuel dfr rt src (path ++ [.key fp.key]) (sid ++ [(rt, fp.key)]) fp fd st = z at hf h
        obtain ⟨r1, st1⟩ := z
        cases r1 with
        | ok v =>
          simp only at h hf
          refine ih.groups _ _ _ _ _ _ _ _ ?_ ?_ fs h
          · simpa using hnd
          · intro x hx
            rcases List.mem_append.1 hx with hx | hx
            · exact hacc x hx
            · simp only [List.mem_singleton] at hx; rw [hx]; exact hf v rfl
        | fail => simp only at h; cases h
        | fuelOut => simp only at h; cases h

theorem nodupP_field (fuel : Nat) (ih : NodupP c alt fuel) :
    ∀ dfr rt src p fid fp fd st, ∀ v, (mField c alt (fuel + 1) dfr rt src p fid fp fd st).1 = .ok v → NDv v := by
  intro dfr rt src p fid fp fd st v h
  simp only [mField] at h
  by_cases hn : (fd.name == "__typename") = true
  · simp only [hn, if_true, Res.ok.injEq] at h; subst h; exact ndv_leaf _
  · simp only [hn, Bool.false_eq_true, if_false] at h
    cases hout : c.world.outcome src fd.name with
    | fail =>
      simp only [hout] at h
      by_cases hnn : fd.type.isNonNull = true
      · simp only [hnn, if_true] at h; cases h
      · simp only [hnn, Bool.false_eq_true, if_false, Res.ok.injEq] at h; subst h; exact ndv_leaf _
    | value gv =>
      simp only [hout] at h
      generalize hst : st.logEv _ = st' at h
      have hc := ih.complete dfr fd.type rt fid fp p gv st'
      generalize mComplete c alt fuel dfr fd.type rt fid fp p gv st' = z at hc h
      obtain ⟨r1, st1⟩ := z
      cases r1 with
      | ok j => simp only [Res.ok.injEq] at h; subst h; exact hc j rfl
      | fail =>
        simp only at h
        by_cases hnn : fd.type.isNonNull = true
        · simp only [hnn, if_true] at h; cases h
        · simp only [hnn, Bool.false_eq_true, if_false, Res.ok.injEq] at h; subst h; exact ndv_leaf _
      | fuelOut => simp only at h; cases h

theorem nodupP_items (fuel : Nat) (ih : NodupP c alt fuel) :
    ∀ dfr item rt fid fp p xs i acc st, (∀ x ∈ acc, NDv x) →
    ∀ ys, (mItems c alt (fuel + 1) dfr item rt fid fp p xs i acc st).1 = .ok ys → ∀ y ∈ ys, NDv y := by
  intro dfr item rt fid fp p xs i acc st hacc ys h
  cases xs with
  | nil => simp only [mItems, Res.ok.injEq] at h; subst h; exact hacc
  | cons x xs =>
    simp only [mItems] at h
    have hc := ih.complete dfr item rt fid fp (p ++ [.idx i]) x st
    generalize mComplete c alt fuel dfr item rt fid fp (p ++ [.idx i]) x st = z at hc h
    obtain ⟨r1, st1⟩ := z
    have happ : ∀ (y : PVal), NDv y → ∀ x ∈ acc ++ [y], NDv x := by
      intro y hy x hx
      rcases List.mem_append.1 hx with hx | hx
      · exact hacc x hx
      · simp only [List.mem_singleton] at hx; rw [hx]; exact hy
    cases r1 with
    | ok j => simp only at h; exact ih.items _ _ _ _ _ _ _ _ _ _ (happ j (hc j rfl)) ys h
    | fail =>
      simp only at h
      by_cases hnn : item.isNonNull = true
      · simp only [hnn, if_true] at h; cases h
      · simp only [hnn, Bool.false_eq_true, if_false] at h
        exact ih.items _ _ _ _ _ _ _ _ _ _ (happ _ (ndv_leaf _)) ys h
    | fuelOut => simp only at h; cases h

theorem nodupP_complete (ha : AltND alt) (fuel : Nat) (ih : NodupP c alt fuel) :
    ∀ dfr t rt fid fp p v st, ∀ x, (mComplete c alt (fuel + 1) dfr t rt fid fp p v st).1 = .ok x → NDv x := by
  intro dfr t rt fid fp p v st x h
  have hgroups : ∀ ot,
      (match mGroups c alt fuel dfr ot v p fid (alt st.memo fid fp ot).1 [] { st with memo := (alt st.memo fid fp ot).2 } with
        | (.ok fs, st) => ((Res.ok (PVal.obj fs) : Res PVal), st)
        | (.fail, st) => (.fail, st)
        | (.fuelOut, st) => (.fuelOut, st)).1 = .ok x → NDv x := by
    intro ot h
    have hg := ih.groups dfr ot v p fid (alt st.memo fid fp ot).1 [] { st with memo := (alt st.memo fid fp ot).2 }
      (by simpa [KeysNodup] using ha st.memo fid fp ot) (fun _ h => by cases h)
    generalize mGroups c alt fuel dfr ot v p fid (alt st.memo fid fp ot).1 [] { st with memo := (alt st.memo fid fp ot).2 } = z at hg h
    obtain ⟨r1, st1⟩ := z
    cases r1 with
    | ok fs => simp only [Res.ok.injEq] at h; subst h; exact ndv_obj.2 (hg fs rfl)
    | fail => simp only at h; cases h
    | fuelOut => simp only at h; cases h
  have hleaf : ∀ j, (Res.ok (PVal.leaf j) : Res PVal) = .ok x → NDv x := by
    intro j h; simp only [Res.ok.injEq] at h; subst h; exact ndv_leaf _
  simp only [mComplete] at h
  cases hfo : funcOf v with
  | some r => simp only [hfo, Res.ok.injEq] at h; subst h; exact ndv_deferred _
  | none =>
    simp only [hfo] at h
    cases t with
    | nonNull inner =>
      simp only at h
      have hc := ih.complete dfr inner rt fid fp p v st
      generalize mComplete c alt fuel dfr inner rt fid fp p v st = z at hc h
      obtain ⟨r1, st1⟩ := z
      split at h
      · simp only at h; cases h
      · cases r1 with
        | ok j => simp only [Res.ok.injEq] at h; subst h; exact hc j rfl
        | fail => simp only at h; cases h
        | fuelOut => simp only at h; cases h
    | list item =>
      simp only at h
      by_cases hnull : v.nullish = true
      · simp only [hnull, if_true] at h; exact hleaf _ h
      · simp only [hnull, Bool.false_eq_true, if_false] at h
        cases hl : listOf v with
        | none => simp only [hl] at h; cases h
        | some xs =>
          simp only [hl] at h
          have hi := ih.items dfr item rt fid fp p xs 0 [] st (fun _ h => by cases h)
          generalize mItems c alt fuel dfr item rt fid fp p xs 0 [] st = z at hi h
          obtain ⟨r1, st1⟩ := z
          cases r1 with
          | ok js => simp only [Res.ok.injEq] at h; subst h; exact ndv_list.2 (hi js rfl)
          | fail => simp only at h; cases h
          | fuelOut => simp only at h; cases h
    | named n =>
      simp only at h
      by_cases hnull : v.nullish = true
      · simp only [hnull, if_true] at h; exact hleaf _ h
      · simp only [hnull, Bool.false_eq_true, if_false] at h
        by_cases hlf : c.schema.isLeaf n = true
        · simp only [hlf, if_true] at h
          cases hs : serializeLeaf c.schema n v with
          | none => simp only [hs] at h; cases h
          | some j => simp only [hs] at h; exact hleaf _ h
        · simp only [hlf, Bool.false_eq_true, if_false] at h
          by_cases habs : c.schema.isAbstract n = true
          · simp only [habs, if_true] at h
            cases hrt : runtimeTypeOf c n v with
            | none => simp only [hrt] at h; cases h
            | some ot =>
              simp only [hrt] at h
              by_cases hposs : (!(c.schema.isObject ot && c.schema.isPossibleType n ot)) = true
              · simp only [hposs, if_true] at h; cases h
              · simp only [hposs, Bool.false_eq_true, if_false] at h; exact hgroups ot h
          · simp only [habs, Bool.false_eq_true, if_false] at h
            by_cases hobj : c.schema.isObject n = true
            · simp only [hobj, if_true] at h
              by_cases hito : (objectHasIsTypeOf c.schema n && !c.world.isTypeOfAns n v) = true
              · simp only [hito, if_true] at h; cases h
              · simp only [hito, Bool.false_eq_true, if_false] at h; exact hgroups n h
            · simp only [hobj, Bool.false_eq_true, if_false] at h; cases h

theorem nodupP (ha : AltND alt) : ∀ fuel, NodupP c alt fuel
  | 0 => nodupP_zero
  | fuel + 1 =>
    have ih := nodupP ha fuel
    ⟨nodupP_groups fuel ih, nodupP_field fuel ih, nodupP_complete ha fuel ih, nodupP_items fuel ih⟩

theorem force_nd (ha : AltND alt) (fuel : Nat) (cl : Closure) (st : MSt) :
    ∀ x, (force c alt fuel cl st).1 = .ok x → NDv x := by
  intro x h
  unfold force at h
  have hleaf : (Res.ok (PVal.leaf .null) : Res PVal) = .ok x → NDv x := by
    intro h; simp only [Res.ok.injEq] at h; subst h; exact ndv_leaf _
  cases hcr : cl.r with
  | none =>
    simp only [hcr] at h
    by_cases hnn : cl.t.isNonNull = true
    · simp only [hnn, if_true] at h; cases h
    · simp only [hnn, Bool.false_eq_true, if_false] at h; exact hleaf h
  | some r =>
    simp only [hcr] at h
    cases r with
    | err =>
      simp only at h
      by_cases hnn : cl.t.isNonNull = true
      · simp only [hnn, if_true] at h; cases h
      · simp only [hnn, Bool.false_eq_true, if_false] at h; exact hleaf h
    | ok v =>
      simp only at h
      have hc := (nodupP (c := c) ha fuel).complete true cl.t cl.rt cl.fid cl.fp cl.path v (st.logEv (.force cl.path))
      generalize mComplete c alt fuel true cl.t cl.rt cl.fid cl.fp cl.path v (st.logEv (.force cl.path)) = z at hc h
      obtain ⟨r1, st1⟩ := z
      cases r1 with
      | ok y => simp only [Res.ok.injEq] at h; subst h; exact hc _ rfl
      | fail =>
        simp only at h
        by_cases hnn : cl.t.isNonNull = true
        · simp only [hnn, if_true] at h; cases h
        · simp only [hnn, Bool.false_eq_true, if_false] at h; exact hleaf h
      | fuelOut => simp only at h; cases h

/-- the loop keeps maps with distinct keys -/
theorem forceLoop_nd {frc : Closure → MSt → Res PVal × MSt} (hf : ∀ cl st x, (frc cl st).1 = .ok x → NDv x) :
    ∀ (n : Nat) (v : PVal) (st : MSt), NDv v → ∀ x, (forceLoop frc n v st).1 = .ok x → NDv x
  | 0, v, st, _, x, h => by simp only [forceLoop] at h; cases h
  | n + 1, .leaf j, st, hv, x, h => by simp only [forceLoop, Res.ok.injEq] at h; subst h; exact hv
  | n + 1, .list xs, st, hv, x, h => by simp only [forceLoop, Res.ok.injEq] at h; subst h; exact hv
  | n + 1, .obj fs, st, hv, x, h => by simp only [forceLoop, Res.ok.injEq] at h; subst h; exact hv
  | n + 1, .deferred cl, st, _, x, h => by
    simp only [forceLoop] at h
    have ha := hf cl st
    generalize frc cl st = z at ha h
    obtain ⟨r1, st1⟩ := z
    cases r1 with
    | ok y => exact forceLoop_nd hf n y st1 (ha y rfl) x h
    | fail => simp only at h; cases h
    | fuelOut => simp only at h; cases h

theorem forceAll_nd (ha : AltND alt) (fuel : Nat) (cl : Closure) (st : MSt) :
    ∀ x, (forceAll c alt fuel cl st).1 = .ok x → NDv x :=
  forceLoop_nd (fun cl st x h => force_nd ha fuel cl st x h) (fuel + 2) (.deferred cl) st (ndv_deferred cl)

end nd

end GqlModel.Plan
