import GqlProofs.SchemaConsistent
/-! C11, part 3: the model never produces a crash outcome (`Err.panic` = nil dereference, `Err.fuel` = recursion budget
exhausted), for any configuration whatsoever. -/
set_option linter.unusedSectionVars false
set_option linter.unusedVariables false
namespace GqlModel.SchemaBuild

variable (cfg : Config)

/-! errors of the constructors and of the lazily evaluated members are ordinary errors -/

theorem findSome?_pred {α β : Type} {f : α → Option β} {P : β → Prop} (h : ∀ x b, f x = some b → P b) :
    ∀ (l : List α) (b : β), l.findSome? f = some b → P b := by
  intro l
  induction l with
  | nil => intro b hb; simp at hb
  | cons x xs ih =>
    intro b hb
    simp only [List.findSome?_cons] at hb
    cases hx : f x with
    | some y => simp only [hx, Option.some.injEq] at hb; subst hb; exact h x y hx
    | none => simp only [hx] at hb; exact ih b hb

theorem enumErr_noCrash {vs : List (String × Bool)} {e : Err} (h : enumErr vs = some e) : e.isCrash = false := by
  unfold enumErr at h
  cases vs with
  | nil => simp at h; subst h; rfl
  | cons v rest =>
    simp only at h
    refine findSome?_pred (P := fun e => e.isCrash = false) ?_ _ e h
    intro x b hb
    split at hb
    · cases hb; rfl
    · split at hb
      · cases hb; rfl
      · split at hb
        · cases hb; rfl
        · cases hb

theorem ctorErrT_noCrash {t : TypeCfg} {e : Err} (h : ctorErrT t = some e) : e.isCrash = false := by
  unfold ctorErrT at h
  split at h
  · cases h; rfl
  · split at h
    · split at h
      · cases h; rfl
      · split at h
        · cases h; rfl
        · cases h
    · exact enumErr_noCrash h
    · cases h

theorem ctorErr_noCrash {i : Nat} {e : Err} (h : ctorErr cfg i = some e) : e.isCrash = false := by
  unfold ctorErr at h
  cases hc : ctorErrT (cfg.get i) with
  | some e' => simp only [hc, Option.some.injEq] at h; subst h; exact ctorErrT_noCrash hc
  | none =>
    simp only [hc, parkedOf] at h
    split at h
    · rename_i e' _
      split at h
      · cases h
      · rename_i hne
        cases h
        simpa using hne
    · cases h

theorem build_ne_nilPtr (t : TRef) (k : Kind) : t.build ≠ .nilPtr k := by
  cases t with
  | nil => simp [TRef.build]
  | nilPtr _ => simp [TRef.build]
  | ref _ => simp [TRef.build]
  | list _ => simp [TRef.build]
  | nonNull a =>
    simp only [TRef.build]
    split <;> simp

theorem topErr_build_noCrash {t : TRef} {e : Err} (h : topErr cfg t.build = some e) : e.isCrash = false := by
  cases hb : t.build with
  | nil => simp [hb, topErr] at h
  | nilPtr k => exact absurd hb (build_ne_nilPtr t k)
  | ref i => rw [hb] at h; exact ctorErr_noCrash cfg h
  | list a =>
    rw [hb] at h
    cases a <;> simp [topErr] at h <;> (subst h; rfl)
  | nonNull a =>
    rw [hb] at h
    cases a <;> simp [topErr] at h <;> (subst h; rfl)

theorem defineArgs_noCrash : ∀ (as : List ArgCfg) (e : Err), defineArgs cfg as = .error e → e.isCrash = false := by
  intro as
  induction as with
  | nil => intro e h; simp [defineArgs] at h
  | cons a rest ih =>
    intro e h
    simp only [defineArgs] at h
    split at h
    · cases h; rfl
    · split at h
      · cases h; rfl
      · split at h
        · cases h; rfl
        · split at h
          · cases h; rfl
          · cases hr : defineArgs cfg rest with
            | error e' => simp only [hr, Except.error.injEq] at h; subst h; exact ih e' hr
            | ok bs => simp [hr] at h

theorem defineFieldsLoop_noCrash : ∀ (fs : List FieldCfg) (e : Err), defineFieldsLoop cfg fs = .error e →
    e.isCrash = false := by
  intro fs
  induction fs with
  | nil => intro e h; simp [defineFieldsLoop] at h
  | cons f rest ih =>
    intro e h
    simp only [defineFieldsLoop] at h
    split at h
    · exact ih e h
    · split at h
      · cases h; rfl
      · split at h
        · rename_i e' hte
          cases h
          exact topErr_build_noCrash cfg hte
        · split at h
          · cases h; rfl
          · split at h
            · cases h; rfl
            · split at h
              · rename_i e' hae
                cases h
                exact defineArgs_noCrash cfg _ _ hae
              · cases hr : defineFieldsLoop cfg rest with
                | error e' => simp only [hr, Except.error.injEq] at h; subst h; exact ih e' hr
                | ok bs => simp [hr] at h

theorem defineInputLoop_noCrash : ∀ (fs : List ArgCfg) (e : Err), defineInputLoop cfg fs = .error e →
    e.isCrash = false := by
  intro fs
  induction fs with
  | nil => intro e h; simp [defineInputLoop] at h
  | cons f rest ih =>
    intro e h
    simp only [defineInputLoop] at h
    split at h
    · exact ih e h
    · split at h
      · exact ih e h
      · split at h
        · cases h; rfl
        · split at h
          · cases h; rfl
          · cases hr : defineInputLoop cfg rest with
            | error e' => simp only [hr, Except.error.injEq] at h; subst h; exact ih e' hr
            | ok bs => simp [hr] at h

theorem fieldsOf_noCrash {i : Nat} {e : Err} (h : fieldsOf cfg i = .error e) : e.isCrash = false := by
  unfold fieldsOf at h
  simp only at h
  by_cases he : (if formGiven (cfg.get i).form = true then (cfg.get i).fields else []).isEmpty = true
  · rw [if_pos he] at h; cases h; rfl
  · rw [if_neg he] at h; exact defineFieldsLoop_noCrash cfg _ e h

theorem inputFieldsOf_noCrash {i : Nat} {e : Err} (h : inputFieldsOf cfg i = .error e) : e.isCrash = false := by
  unfold inputFieldsOf at h
  simp only at h
  by_cases he : (if formGiven (cfg.get i).form = true then (cfg.get i).inputFields else []).isEmpty = true
  · rw [if_pos he] at h; cases h; rfl
  · rw [if_neg he] at h; exact defineInputLoop_noCrash cfg _ e h

theorem ifaceLoop_noCrash : ∀ (l : List (Option Nat)) (seen : List String) (e : Err), ifaceLoop cfg seen l = .error e →
    e.isCrash = false := by
  intro l
  induction l with
  | nil => intro seen e h; simp [ifaceLoop] at h
  | cons x rest ih =>
    intro seen e h
    cases x with
    | none => simp only [ifaceLoop, Except.error.injEq] at h; subst h; rfl
    | some v =>
      simp only [ifaceLoop] at h
      split at h
      · cases h; rfl
      · cases hr : ifaceLoop cfg (nameOf cfg v :: seen) rest with
        | error e' => simp only [hr, Except.error.injEq] at h; subst h; exact ih _ e' hr
        | ok bs => simp [hr] at h

theorem interfacesOf_noCrash {i : Nat} {e : Err} (h : interfacesOf cfg i = .error e) : e.isCrash = false := by
  unfold interfacesOf at h
  simp only at h
  split at h
  · cases h; rfl
  · cases h
  · exact ifaceLoop_noCrash cfg _ _ e h

theorem unionLoop_noCrash {rt : Bool} : ∀ (l : List (Option Nat)) (seen : List String) (e : Err),
    unionLoop cfg rt seen l = .error e → e.isCrash = false := by
  intro l
  induction l with
  | nil => intro seen e h; simp [unionLoop] at h
  | cons x rest ih =>
    intro seen e h
    cases x with
    | none => simp only [unionLoop, Except.error.injEq] at h; subst h; rfl
    | some v =>
      simp only [unionLoop] at h
      split at h
      · cases h; rfl
      · split at h
        · cases h; rfl
        · cases hr : unionLoop cfg rt (nameOf cfg v :: seen) rest with
          | error e' => simp only [hr, Except.error.injEq] at h; subst h; exact ih _ e' hr
          | ok bs => simp [hr] at h

theorem membersOf_noCrash {i : Nat} {e : Err} (h : membersOf cfg i = .error e) : e.isCrash = false := by
  unfold membersOf at h
  simp only at h
  split at h
  · cases h; rfl
  · cases h; rfl
  · split at h
    · cases h; rfl
    · exact unionLoop_noCrash cfg _ _ e h

/-! the steps of a type: parked errors are ordinary errors, visit targets end in a named type -/

def StepOk (s : Step) : Prop :=
  match s with
  | .fail e => e.isCrash = false
  | .visit t => ∃ j, t.strip = .named j

theorem memberSteps_ok : ∀ (ms : List Nat), ∀ s ∈ memberSteps cfg ms, StepOk s := by
  intro ms
  induction ms with
  | nil => intro s hs; cases hs
  | cons m rest ih =>
    intro s hs
    simp only [memberSteps] at hs
    cases hc : ctorErr cfg m with
    | some e =>
      simp only [hc, List.mem_singleton] at hs
      subst hs
      exact ctorErr_noCrash cfg hc
    | none =>
      simp only [hc, List.mem_cons] at hs
      rcases hs with rfl | hs
      · exact ⟨m, rfl⟩
      · exact ih s hs

theorem fieldSteps_ok {fs : List BField}
    (h : ∀ b ∈ fs, isOutputType cfg b.type = true ∧ ∀ a ∈ b.args, isInputType cfg a.type = true) :
    ∀ s ∈ fieldSteps fs, StepOk s := by
  induction fs with
  | nil => intro s hs; cases hs
  | cons f rest ih =>
    intro s hs
    simp only [fieldSteps, List.mem_append, List.mem_map, List.mem_cons] at hs
    rcases hs with ⟨a, ha, rfl⟩ | rfl | hs
    · obtain ⟨j, hj, _⟩ := isInputType_named cfg ((h f (List.mem_cons_self ..)).2 a ha)
      exact ⟨j, hj⟩
    · obtain ⟨j, hj, _⟩ := isOutputType_named cfg (h f (List.mem_cons_self ..)).1
      exact ⟨j, hj⟩
    · exact ih (fun b hb => h b (List.mem_cons_of_mem _ hb)) s hs

theorem stepsOf_ok (i : Nat) : ∀ s ∈ stepsOf cfg i, StepOk s := by
  intro s hs
  unfold stepsOf at hs
  cases hk : kindOf cfg i with
  | object =>
    simp only [hk] at hs
    cases hi : interfacesOf cfg i with
    | error e =>
      simp only [hi, List.mem_singleton] at hs; subst hs
      exact interfacesOf_noCrash cfg hi
    | ok is =>
      simp only [hi, List.mem_append] at hs
      rcases hs with hs | hs
      · exact memberSteps_ok cfg is s hs
      · cases hf : fieldsOf cfg i with
        | error e =>
          simp only [hf, exceptSteps, List.mem_singleton] at hs; subst hs
          exact fieldsOf_noCrash cfg hf
        | ok fs =>
          simp only [hf, exceptSteps] at hs
          exact fieldSteps_ok cfg (fieldsOf_spec cfg hf) s hs
  | interface =>
    simp only [hk] at hs
    cases hf : fieldsOf cfg i with
    | error e =>
      simp only [hf, exceptSteps, List.mem_singleton] at hs; subst hs
      exact fieldsOf_noCrash cfg hf
    | ok fs =>
      simp only [hf, exceptSteps] at hs
      exact fieldSteps_ok cfg (fieldsOf_spec cfg hf) s hs
  | union =>
    simp only [hk] at hs
    cases hm : membersOf cfg i with
    | error e =>
      simp only [hm, exceptSteps, List.mem_singleton] at hs; subst hs
      exact membersOf_noCrash cfg hm
    | ok ms =>
      simp only [hm, exceptSteps] at hs
      exact memberSteps_ok cfg ms s hs
  | inputObject =>
    simp only [hk] at hs
    cases hf : inputFieldsOf cfg i with
    | error e =>
      simp only [hf, exceptSteps, List.mem_singleton] at hs; subst hs
      exact inputFieldsOf_noCrash cfg hf
    | ok fs =>
      simp only [hf, exceptSteps, List.mem_map] at hs
      obtain ⟨a, ha, rfl⟩ := hs
      obtain ⟨j, hj, _⟩ := isInputType_named cfg (inputFieldsOf_spec cfg hf a ha)
      exact ⟨j, hj⟩
  | scalar => simp [hk] at hs
  | enum => simp [hk] at hs
  | list => simp [hk] at hs
  | nonNull => simp [hk] at hs

/-! fuel: the number of type objects not yet registered bounds the recursion depth -/

def free (tm : TM) : Nat := (List.range cfg.size).countP (fun i => decide (i ∉ tm))

theorem free_le (tm : TM) : free cfg tm ≤ cfg.size := by
  unfold free
  have := List.countP_le_length (p := fun i => decide (i ∉ tm)) (l := List.range cfg.size)
  simpa using this

theorem free_mono {tm tm' : TM} (h : ∀ x ∈ tm, x ∈ tm') : free cfg tm' ≤ free cfg tm := by
  unfold free
  apply List.countP_mono_left
  intro x _ hx
  simp only [decide_eq_true_eq] at hx ⊢
  exact fun hm => hx (h x hm)

theorem countP_lt {α : Type} {p q : α → Bool} : ∀ (l : List α), (∀ x ∈ l, p x = true → q x = true) →
    (∃ x ∈ l, q x = true ∧ p x = false) → l.countP p < l.countP q := by
  intro l
  induction l with
  | nil => intro _ h; obtain ⟨x, hx, _⟩ := h; cases hx
  | cons y ys ih =>
    intro hpq hex
    have hle : ys.countP p ≤ ys.countP q :=
      List.countP_mono_left (fun x hx hp => hpq x (List.mem_cons_of_mem _ hx) hp)
    obtain ⟨x, hx, hqx, hpx⟩ := hex
    simp only [List.countP_cons]
    cases hx with
    | head => simp only [hqx, hpx, if_true]; simp; omega
    | tail _ hx' =>
      have hlt := ih (fun z hz => hpq z (List.mem_cons_of_mem _ hz)) ⟨x, hx', hqx, hpx⟩
      by_cases hpy : p y = true
      · have := hpq y (List.mem_cons_self ..) hpy
        simp only [hpy, this, if_true]; omega
      · simp only [hpy]
        by_cases hqy : q y = true
        · simp only [hqy, if_true]; simp; omega
        · simp only [hqy]; simp; omega

theorem free_lt {tm : TM} {i : Nat} (hi : i < cfg.size) (hni : i ∉ tm) : free cfg (tm ++ [i]) < free cfg tm := by
  unfold free
  apply countP_lt
  · intro x _ hx
    simp only [decide_eq_true_eq, List.mem_append, not_or] at hx ⊢
    exact hx.1
  · refine ⟨i, by simpa using hi, ?_, ?_⟩
    · simpa using hni
    · simp

theorem runSteps_noCrash (fuel : Nat) (rec : TM → TRef → Except Err TM)
    (hok : ∀ tm t tm', rec tm t = .ok tm' → Inv cfg tm → Spec cfg tm t tm')
    (herr : ∀ tm t e, free cfg tm < fuel → Inv cfg tm → (∃ j, t.strip = .named j) → rec tm t = .error e →
      e.isCrash = false) :
    ∀ (steps : List Step) (tm : TM) (e : Err), (∀ s ∈ steps, StepOk s) → free cfg tm < fuel → Inv cfg tm →
      runSteps rec tm steps = .error e → e.isCrash = false := by
  intro steps
  induction steps with
  | nil => intro tm e _ _ _ h; simp [runSteps] at h
  | cons s rest ih =>
    intro tm e hs hf hinv h
    cases s with
    | fail e' =>
      simp only [runSteps, Except.error.injEq] at h
      subst h
      exact hs _ (List.mem_cons_self ..)
    | visit t =>
      simp only [runSteps] at h
      cases hr : rec tm t with
      | error e' =>
        simp only [hr, Except.error.injEq] at h
        subst h
        exact herr tm t e' hf hinv (hs _ (List.mem_cons_self ..)) hr
      | ok tm1 =>
        simp only [hr] at h
        have sp := hok tm t tm1 hr hinv
        obtain ⟨l, hl⟩ := sp.ext
        have hfm : free cfg tm1 ≤ free cfg tm := free_mono cfg (by intro x hx; rw [hl]; exact List.mem_append_left _ hx)
        exact ih tm1 e (fun s' hs' => hs s' (List.mem_cons_of_mem _ hs')) (by omega) sp.inv h

theorem reduce_noCrash : ∀ (fuel : Nat) (tm : TM) (t : TRef) (e : Err), free cfg tm < fuel → Inv cfg tm →
    (∀ k, t.strip ≠ .nilPtr k) → reduce cfg fuel tm t = .error e → e.isCrash = false := by
  intro fuel
  induction fuel with
  | zero => intro tm t e hf; omega
  | succ fuel ih =>
    intro tm t e hf hinv hnp h
    simp only [reduce] at h
    cases hs : t.strip with
    | nil => simp [hs] at h
    | nilPtr k => exact absurd hs (hnp k)
    | badList => simp only [hs, Except.error.injEq] at h; subst h; rfl
    | badNonNull => simp only [hs, Except.error.injEq] at h; subst h; rfl
    | named i =>
      simp only [hs] at h
      cases hce : ctorErr cfg i with
      | some e' =>
        simp only [hce, Except.error.injEq] at h; subst h
        exact ctorErr_noCrash cfg hce
      | none =>
        simp only [hce] at h
        have hn : nameOf cfg i ≠ "" := ctorErr_none_name cfg hce
        have hnb : (nameOf cfg i == "") = false := by simpa using hn
        simp only [hnb, Bool.false_eq_true, if_false] at h
        cases hl : TM.lookup cfg tm (nameOf cfg i) with
        | some x =>
          simp only [hl] at h
          split at h
          · cases h
          · cases h; rfl
        | none =>
          simp only [hl] at h
          have hfresh := lookup_none cfg hl
          have hni : i ∉ tm := fun hm => hfresh i hm rfl
          have hinv1 : Inv cfg (tm ++ [i]) := inv_append_one cfg hinv hce hfresh
          have hf1 : free cfg (tm ++ [i]) < fuel := by
            have := free_lt cfg (nameOf_lt cfg hn) hni
            omega
          refine runSteps_noCrash cfg fuel (reduce cfg fuel) (reduce_spec cfg fuel) ?_ (stepsOf cfg i) (tm ++ [i]) e
            (stepsOf_ok cfg i) hf1 hinv1 h
          intro tm' t' e' hf' hinv' hnamed hr
          refine ih tm' t' e' hf' hinv' ?_ hr
          intro k hk
          obtain ⟨j, hj⟩ := hnamed
          rw [hj] at hk; cases hk

/-! built types never end in a nil pointer -/

theorem build_strip_ne_nilPtr : ∀ (x : TRef) (k : Kind), x.build.strip ≠ .nilPtr k := by
  intro x
  induction x with
  | nil => intro k; simp [TRef.build, TRef.strip]
  | nilPtr _ => intro k; simp [TRef.build, TRef.strip]
  | ref _ => intro k; simp [TRef.build, TRef.strip]
  | list a ih =>
    intro k
    simp only [TRef.build, TRef.strip]
    cases h : a.build.strip with
    | nilPtr k' => exact absurd h (ih k')
    | nil => simp
    | named _ => simp
    | badList => simp
    | badNonNull => simp
  | nonNull a ih =>
    intro k
    simp only [TRef.build]
    split
    · simp [TRef.strip]
    · simp [TRef.strip]
    · rename_i b hb1 hb2
      simp only [TRef.strip]
      cases h : a.build.strip with
      | nilPtr k' => exact absurd h (ih k')
      | nil => simp
      | named _ => simp
      | badList => simp
      | badNonNull => simp

theorem dirArgTypes_built : ∀ t ∈ dirArgTypes cfg, ∃ x : TRef, t = x.build := by
  intro t ht
  unfold dirArgTypes at ht
  rw [List.mem_flatMap] at ht
  obtain ⟨dd, hdd, htd⟩ := ht
  unfold dirDefs at hdd
  split at hdd
  · simp only [List.mem_cons, List.not_mem_nil, or_false] at hdd
    rcases hdd with rfl | rfl | rfl
    · simp only [List.map_cons, List.map_nil, List.mem_singleton] at htd
      exact ⟨.nonNull (.ref idBoolean), by rw [htd]; rfl⟩
    · simp only [List.map_cons, List.map_nil, List.mem_singleton] at htd
      exact ⟨.nonNull (.ref idBoolean), by rw [htd]; rfl⟩
    · simp only [List.map_cons, List.map_nil, List.mem_singleton] at htd
      exact ⟨.ref idString, by rw [htd]; rfl⟩
  · rw [List.mem_filterMap] at hdd
    obtain ⟨d, _, hde'⟩ := hdd
    cases d with
    | none => cases hde'
    | some d =>
      simp only [Option.some.injEq] at hde'
      subst hde'
      simp only [List.map_map, List.mem_map, Function.comp] at htd
      obtain ⟨a, _, rfl⟩ := htd
      exact ⟨a.type, rfl⟩

theorem rootRefs_built (more : List TRef) : ∀ t ∈ rootRefs cfg more, ∃ x : TRef, t = x.build := by
  intro t ht
  simp only [rootRefs, List.mem_append, List.mem_map, List.mem_singleton] at ht
  have opt : ∀ (o : Option Nat), t ∈ optRoot o → ∃ x : TRef, t = x.build := by
    intro o h
    cases o with
    | none => cases h
    | some i => simp only [optRoot, List.mem_singleton] at h; exact ⟨.ref i, by rw [h]; rfl⟩
  rcases ht with ((((h | h) | h) | h) | h) | h
  · exact opt _ h
  · exact opt _ h
  · exact opt _ h
  · exact ⟨.ref idSchema, by rw [h]; rfl⟩
  · obtain ⟨x, _, rfl⟩ := h; exact ⟨x, rfl⟩
  · exact dirArgTypes_built cfg t h

theorem reduceRoots_noCrash : ∀ (roots : List TRef) (tm : TM) (e : Err), (∀ t ∈ roots, ∃ x : TRef, t = x.build) →
    Inv cfg tm → reduceRoots cfg tm roots = .error e → e.isCrash = false := by
  intro roots
  induction roots with
  | nil => intro tm e _ _ h; simp [reduceRoots] at h
  | cons t rest ih =>
    intro tm e hb hinv h
    have hrest : ∀ t ∈ rest, ∃ x : TRef, t = x.build := fun t' ht' => hb t' (List.mem_cons_of_mem _ ht')
    obtain ⟨x, hx⟩ := hb t (List.mem_cons_self ..)
    simp only [reduceRoots] at h
    split at h
    · exact ih tm e hrest hinv h
    · cases hte : topErr cfg t with
      | some e' =>
        simp only [hte, Except.error.injEq] at h; subst h
        rw [hx] at hte
        exact topErr_build_noCrash cfg hte
      | none =>
        simp only [hte] at h
        cases hr : reduce cfg (cfg.size + 1) tm t with
        | error e' =>
          simp only [hr, Except.error.injEq] at h; subst h
          refine reduce_noCrash cfg _ tm t e' (by have := free_le cfg tm; omega) hinv ?_ hr
          rw [hx]; exact build_strip_ne_nilPtr x
        | ok tm1 =>
          simp only [hr] at h
          exact ih tm1 e hrest (reduce_spec cfg _ tm t tm1 hr hinv).inv h

theorem dirArgsErr_noCrash : ∀ (as : List ArgCfg) (e : Err), dirArgsErr cfg as = some e → e.isCrash = false := by
  intro as
  induction as with
  | nil => intro e h; simp [dirArgsErr] at h
  | cons a rest ih =>
    intro e h
    simp only [dirArgsErr] at h
    split at h
    · cases h; rfl
    · split at h
      · cases h; rfl
      · split at h
        · cases h; rfl
        · split at h
          · cases h; rfl
          · exact ih e h

theorem dirErr_noCrash {d : Option DirCfg} {e : Err} (h : dirErr cfg d = some e) : e.isCrash = false := by
  cases d with
  | none => simp [dirErr] at h; subst h; rfl
  | some d =>
    simp only [dirErr, dirCtorErr] at h
    split at h
    · cases h; rfl
    · split at h
      · cases h; rfl
      · exact dirArgsErr_noCrash cfg _ e h

theorem fieldConforms_noCrash {k : Nat → Kind} {p : Nat → Nat → Bool} {ofs : List BField} {f : BField} {e : Err}
    (h : fieldConforms k p ofs f = some e) : e.isCrash = false := by
  unfold fieldConforms at h
  split at h
  · cases h; rfl
  · split at h
    · cases h; rfl
    · split at h
      · rename_i e' he'
        cases h
        refine findSome?_pred (P := fun e => e.isCrash = false) ?_ _ _ he'
        intro x b hb
        unfold argConforms at hb
        split at hb
        · cases hb; rfl
        · split at hb
          · cases hb
          · cases hb; rfl
      · refine findSome?_pred (P := fun e => e.isCrash = false) ?_ _ _ h
        intro x b hb
        unfold extraArgOk at hb
        split at hb
        · cases hb
        · split at hb
          · cases hb; rfl
          · cases hb

theorem assertAll_noCrash {tm : TM} {e : Err} (h : assertAll cfg tm = some e) : e.isCrash = false := by
  unfold assertAll at h
  refine findSome?_pred (P := fun e => e.isCrash = false) ?_ _ _ h
  intro o b hb
  refine findSome?_pred (P := fun e => e.isCrash = false) ?_ _ _ hb
  intro i b' hb'
  unfold conformsTo at hb'
  refine findSome?_pred (P := fun e => e.isCrash = false) ?_ _ _ hb'
  intro f b'' hb''
  exact fieldConforms_noCrash hb''

theorem newSchema_noCrash {more : List TRef} {e : Err} (h : newSchema cfg more = .error e) : e.isCrash = false := by
  unfold newSchema at h
  cases htm : newSchemaTM cfg more with
  | ok tm =>
    simp only [htm, finishTM] at h
    cases ha : assertAll cfg tm with
    | some e' => simp only [ha, Except.error.injEq] at h; subst h; exact assertAll_noCrash cfg ha
    | none => simp [ha] at h
  | error e' =>
    simp only [htm, Except.error.injEq] at h
    subst h
    unfold newSchemaTM at htm
    split at htm
    · cases htm; rfl
    · split at htm
      · rename_i e'' hq
        cases htm
        exact ctorErr_noCrash cfg hq
      · split at htm
        · rename_i e'' hm
          cases htm
          cases hmu : cfg.mutation with
          | none => simp [hmu] at hm
          | some m => simp only [hmu, Option.bind_some] at hm; exact ctorErr_noCrash cfg hm
        · split at htm
          · rename_i e'' hd
            cases htm
            exact findSome?_pred (P := fun e => e.isCrash = false) (fun x b hb => dirErr_noCrash cfg hb) _ _ hd
          · exact reduceRoots_noCrash cfg _ [] _ (rootRefs_built cfg more)
              ⟨fun i hi => (by cases hi), List.Pairwise.nil⟩ htm

theorem appendType_noCrash {s : St} {t : TRef} {e : Err} (hinv : Inv cfg s.tm) (h : appendType cfg s t = .error e) :
    e.isCrash = false := by
  unfold appendType at h
  cases ha : appendTM cfg s t with
  | ok r =>
    cases r with
    | none => simp [ha] at h
    | some tm' =>
      simp only [ha, finishTM] at h
      cases has : assertAll cfg tm' with
      | some e' => simp only [has, Except.error.injEq] at h; subst h; exact assertAll_noCrash cfg has
      | none => simp [has] at h
  | error e' =>
    simp only [ha, Except.error.injEq] at h
    subst h
    unfold appendTM at ha
    simp only at ha
    split at ha
    · cases ha
    · split at ha
      · rename_i e'' hte
        cases ha
        exact topErr_build_noCrash cfg hte
      · cases hr : reduce cfg (cfg.size + 1) s.tm t.build with
        | error e'' =>
          simp only [hr, Except.error.injEq] at ha; subst ha
          exact reduce_noCrash cfg _ s.tm _ _ (by have := free_le cfg s.tm; omega) hinv (build_strip_ne_nilPtr t) hr
        | ok tm1 => simp [hr] at ha

theorem appendAll_noCrash : ∀ (ts : List TRef) (s : St) (e : Err), Good cfg s.tm → appendAll cfg s ts = .error e →
    e.isCrash = false := by
  intro ts
  induction ts with
  | nil => intro s e _ h; simp [appendAll] at h
  | cons t rest ih =>
    intro s e g h
    simp only [appendAll] at h
    cases h1 : appendType cfg s t with
    | error e' =>
      simp only [h1, Except.error.injEq] at h; subst h
      exact appendType_noCrash cfg g.inv h1
    | ok s1 =>
      simp only [h1] at h
      exact ih s1 e (appendType_good g h1) h

/-! `isTypeSubTypeOf` is a preorder -/

theorem isSubType_refl (k : Nat → Kind) (p : Nat → Nat → Bool) : ∀ t, isSubType k p t t = true := by
  intro t
  induction t with
  | nil => simp [isSubType]
  | nilPtr _ => simp [isSubType]
  | ref i => simp [isSubType]
  | list a ih => simpa [isSubType] using ih
  | nonNull a ih => simpa [isSubType] using ih

theorem isSubType_nonNull_left (k : Nat → Kind) (p : Nat → Nat → Bool) (a c : TRef) (hc : ∀ c', c ≠ .nonNull c') :
    isSubType k p (.nonNull a) c = isSubType k p a c := by
  cases c with
  | nonNull c' => exact absurd rfl (hc c')
  | nil => simp [isSubType]
  | nilPtr _ => simp [isSubType]
  | ref _ => simp [isSubType]
  | list _ => simp [isSubType]

theorem isSubType_nonNull_right (k : Nat → Kind) (p : Nat → Nat → Bool) (b c : TRef) (hb : ∀ b', b ≠ .nonNull b') :
    isSubType k p b (.nonNull c) = false := by
  cases b with
  | nonNull b' => exact absurd rfl (hb b')
  | nil => simp [isSubType]
  | nilPtr _ => simp [isSubType]
  | ref _ => simp [isSubType]
  | list _ => simp [isSubType]

theorem isSubType_trans (k : Nat → Kind) (p : Nat → Nat → Bool) : ∀ a b c,
    isSubType k p a b = true → isSubType k p b c = true → isSubType k p a c = true := by
  intro a
  induction a with
  | nil => intro b c h1 h2; cases b <;> cases c <;> simp_all [isSubType]
  | nilPtr _ => intro b c h1 h2; cases b <;> cases c <;> simp_all [isSubType]
  | ref i =>
    intro b c h1 h2
    cases b <;> cases c <;> simp [isSubType] at h1 h2 ⊢
    rename_i j l
    rcases h1 with rfl | ⟨⟨hj, hi⟩, hp⟩
    · exact h2
    · rcases h2 with rfl | ⟨⟨hl, hj'⟩, _⟩
      · exact Or.inr ⟨⟨hj, hi⟩, hp⟩
      · rw [hj'] at hj; cases hj
  | list a ih =>
    intro b c h1 h2
    cases b <;> cases c <;> simp [isSubType] at h1 h2 ⊢
    exact ih _ _ h1 h2
  | nonNull a ih =>
    intro b c h1 h2
    by_cases hb : ∃ b', b = .nonNull b'
    · obtain ⟨b', rfl⟩ := hb
      have h1' : isSubType k p a b' = true := by simpa [isSubType] using h1
      by_cases hc : ∃ c', c = .nonNull c'
      · obtain ⟨c', rfl⟩ := hc
        have h2' : isSubType k p b' c' = true := by simpa [isSubType] using h2
        simpa [isSubType] using ih b' c' h1' h2'
      · have hc' : ∀ c', c ≠ .nonNull c' := fun c' h => hc ⟨c', h⟩
        rw [isSubType_nonNull_left k p b' c hc'] at h2
        rw [isSubType_nonNull_left k p a c hc']
        exact ih b' c h1' h2
    · have hb' : ∀ b', b ≠ .nonNull b' := fun b' h => hb ⟨b', h⟩
      rw [isSubType_nonNull_left k p a b hb'] at h1
      by_cases hc : ∃ c', c = .nonNull c'
      · obtain ⟨c', rfl⟩ := hc
        rw [isSubType_nonNull_right k p b c' hb'] at h2
        cases h2
      · have hc' : ∀ c', c ≠ .nonNull c' := fun c' h => hc ⟨c', h⟩
        rw [isSubType_nonNull_left k p a c hc']
        exact ih b c h1 h2

end GqlModel.SchemaBuild
