import GqlProofs.RoundTripDocA
/-! # C08 byte level — the invariant `LexK` for definitions and the whole document -/
namespace GqlModel.RoundTrip
open GqlModel GqlModel.Lexer GqlModel.Printer GqlModel.Reader

theorem wfVarDefs_mem : ∀ {vs : List VarDef}, WFVarDefs vs → ∀ v ∈ vs, WFVarDef v
  | [], _, v, hv => by simp at hv
  | x :: xs, h, v, hv => by
    rcases List.mem_cons.mp hv with rfl | hv
    · exact h.1
    · exact wfVarDefs_mem h.2 v hv

theorem wfInputValueDefs_mem : ∀ {vs : List InputValueDef}, WFInputValueDefs vs → ∀ v ∈ vs, WFInputValueDef v
  | [], _, v, hv => by simp at hv
  | x :: xs, h, v, hv => by
    rcases List.mem_cons.mp hv with rfl | hv
    · exact h.1
    · exact wfInputValueDefs_mem h.2 v hv

theorem wfFieldDefs_mem : ∀ {vs : List FieldDef}, WFFieldDefs vs → ∀ v ∈ vs, WFFieldDef v
  | [], _, v, hv => by simp at hv
  | x :: xs, h, v, hv => by
    rcases List.mem_cons.mp hv with rfl | hv
    · exact h.1
    · exact wfFieldDefs_mem h.2 v hv

theorem wfEnumValueDefs_mem : ∀ {vs : List EnumValueDef}, WFEnumValueDefs vs → ∀ v ∈ vs, WFEnumValueDef v
  | [], _, v, hv => by simp at hv
  | x :: xs, h, v, hv => by
    rcases List.mem_cons.mp hv with rfl | hv
    · exact h.1
    · exact wfEnumValueDefs_mem h.2 v hv

theorem wfOpTypeDefs_mem : ∀ {vs : List OpTypeDef}, WFOpTypeDefs vs → ∀ v ∈ vs, WFOpTypeDef v
  | [], _, v, hv => by simp at hv
  | x :: xs, h, v, hv => by
    rcases List.mem_cons.mp hv with rfl | hv
    · exact h.1
    · exact wfOpTypeDefs_mem h.2 v hv

theorem wfNamedTypes_mem : ∀ {vs : List TypeRef}, WFNamedTypes vs → ∀ v ∈ vs, WFNamedType v
  | [], _, v, hv => by simp at hv
  | x :: xs, h, v, hv => by
    rcases List.mem_cons.mp hv with rfl | hv
    · exact h.1
    · exact wfNamedTypes_mem h.2 v hv

theorem wfNames_mem : ∀ {vs : List Name}, WFNames vs → ∀ v ∈ vs, WFName v.value
  | [], _, v, hv => by simp at hv
  | x :: xs, h, v, hv => by
    rcases List.mem_cons.mp hv with rfl | hv
    · exact h.1
    · exact wfNames_mem h.2 v hv

theorem wfDefinitions_mem : ∀ {vs : List Definition}, WFDefinitions vs → ∀ v ∈ vs, WFDefinition v
  | [], _, v, hv => by simp at hv
  | x :: xs, h, v, hv => by
    rcases List.mem_cons.mp hv with rfl | hv
    · exact h.1
    · exact wfDefinitions_mem h.2 v hv

theorem G_default (v : Option Value) (h : WFDefault v) : G (optValueI v) := by
  cases v with
  | none => exact G_nil
  | some x => exact G_valueI x h.1

/-! ## executable definitions -/

theorem G_varDefI (v : VarDef) (h : WFVarDef v) : G (varDefI v) := by
  obtain ⟨hn, ⟨t, ht, hwt⟩, hd⟩ := h
  simp only [varDefI, ht, optTypeI]
  have h1 : A (pI .dollar ['$'] ++ nI v.var.value ++ colonSpI) :=
    GA_app (AG_app (A_pI rfl) (G_nI hn)) A_colonSpI (by decide)
  have h2 : G (wrapI (spI ++ (pI .equals ['='] ++ spI)) (optValueI v.default) []) :=
    G_wrapI (G_app (AG_app (AA_app A_spI (AA_app (A_pI rfl) A_spI)) (G_default _ hd)) G_nil sd_nil)
  exact G_app (AG_app h1 (G_typeI t hwt)) h2 (sd_wrapI (by decide) _ _)

theorem G_varDefsParen (vars : List VarDef) (h : WFVarDefs vars) :
    G (wrapI (pI .parenL ['(']) (joinI (vars.map varDefI) commaSpI) (pI .parenR [')'])) :=
  G_wrapI (G_app (AG_app (A_pI rfl) (G_joinI A_commaSpI (by decide) _
    (G_map varDefI WFVarDef G_varDefI vars (wfVarDefs_mem h)))) (A_pI rfl).toG (by decide))

theorem opName_isName (op : OpType) : Reader.isNameC op.toString.toList = true := by cases op <;> decide

theorem G_operationI (op : OpType) (name : Option Name) (vars : List VarDef) (dirs : List Directive) (sel : SelectionSet)
    (hn : WFOptName name) (hv : WFVarDefs vars) (hd : WFDirectives dirs) (hs : WFSelSet sel) :
    G (operationI op name vars dirs sel) := by
  simp only [operationI]
  split
  · exact (A_selSetI sel hs).toG
  · apply G_joinI A_spI (by decide)
    intro x hx
    simp only [List.mem_cons, List.mem_nil_iff, or_false] at hx
    rcases hx with rfl | rfl | rfl | rfl
    · exact G_kI (opName_isName op)
    · exact G_join2_nil (G_optNameI name hn) (G_varDefsParen vars hv) (sd_argsParen _)
    · exact G_directivesI dirs hd
    · exact (A_selSetI sel hs).toG

theorem A_onI : A onI :=
  GA_app (AG_app A_spI (G_kI (s := kwOnW) (by decide))) A_spI (by decide)

theorem G_fragmentI (name : Name) (tc : TypeRef) (dirs : List Directive) (sel : SelectionSet)
    (hn : WFName name.value) (ht : WFNamedType tc) (hd : WFDirectives dirs) (hs : WFSelSet sel) :
    G (fragmentI name tc dirs sel) := by
  simp only [fragmentI]
  have h1 : A (kI kwFragmentW ++ spI ++ nI name.value ++ onI) :=
    GA_app (AG_app (A_kI_sp (by decide)) (G_nI hn)) A_onI (by decide)
  have h2 : A (kI kwFragmentW ++ spI ++ nI name.value ++ onI ++ typeI tc ++ spI) :=
    GA_app (AG_app h1 (G_namedTypeI tc ht)) A_spI (by decide)
  have h3 : A (wrapI [] (directivesI dirs) spI) :=
    A_wrapI (by simpa using GA_app (G_directivesI dirs hd) A_spI (by decide))
  exact (AA_app (AA_app h2 h3) (A_selSetI sel hs)).toG

/-! ## type-system definitions -/

theorem G_inputValueDefI (d : InputValueDef) (h : WFInputValueDef d) : G (inputValueDefI d) := by
  obtain ⟨hn, ht, hdf, hd⟩ := h
  apply G_withDescMemberI
  apply G_joinI A_spI (by decide)
  intro x hx
  simp only [List.mem_cons, List.mem_nil_iff, or_false] at hx
  rcases hx with rfl | rfl | rfl
  · exact AG_app (GA_app (G_nI hn) A_colonSpI (by decide)) (G_typeI d.type ht)
  · exact G_wrapI (G_app (AG_app (AA_app (A_pI rfl) A_spI) (G_default _ hdf)) G_nil sd_nil)
  · exact G_directivesI d.dirs hd

theorem G_argDefsI (args : List InputValueDef) (h : WFInputValueDefs args) : G (argDefsI args) := by
  have hm := G_map inputValueDefI WFInputValueDef G_inputValueDefI args (wfInputValueDefs_mem h)
  simp only [argDefsI]
  split
  · apply G_wrapI
    have h1 : G (indentI (sI ['\n'] ++ joinI (args.map inputValueDefI) (sI ['\n']))) :=
      G_indentI (AG_app A_nlI (G_joinI A_nlI (by decide) _ hm))
    have h2 : A (sI ['\n'] ++ pI .parenR [')']) := AA_app A_nlI (A_pI rfl)
    exact (GA_app (AG_app (A_pI rfl) h1) h2 (by decide)).toG
  · exact G_wrapI (G_app (AG_app (A_pI rfl) (G_joinI A_commaSpI (by decide) _ hm)) (A_pI rfl).toG (by decide))

theorem sd_argDefsI (args : List InputValueDef) : StartsDelim (render (argDefsI args)) := by
  simp only [argDefsI]; split <;> exact sd_wrapI (by decide) _ _

theorem G_fieldDefI (d : FieldDef) (h : WFFieldDef d) : G (fieldDefI d) := by
  obtain ⟨hn, ha, ht, hd⟩ := h
  apply G_withDescMemberI
  have h1 : G (nI d.name.value ++ argDefsI d.args) := G_app (G_nI hn) (G_argDefsI d.args ha) (sd_argDefsI _)
  have h2 : A (nI d.name.value ++ argDefsI d.args ++ colonSpI) := GA_app h1 A_colonSpI (by decide)
  exact G_app (AG_app h2 (G_typeI d.type ht)) (G_spDirectives d.dirs hd) (sd_spDirectives _)

theorem G_enumValueDefI (d : EnumValueDef) (h : WFEnumValueDef d) : G (enumValueDefI d) := by
  apply G_withDescMemberI
  apply G_joinI A_spI (by decide)
  intro x hx
  simp only [List.mem_cons, List.mem_nil_iff, or_false] at hx
  rcases hx with rfl | rfl
  · exact G_nI h.1
  · exact G_directivesI d.dirs h.2

theorem G_opTypeDefI (d : OpTypeDef) (h : WFOpTypeDef d) : G (opTypeDefI d) :=
  AG_app (GA_app (G_kI (opName_isName d.operation)) A_colonSpI (by decide)) (G_namedTypeI d.type h)

theorem G_join3 {a b c : List Item} (ha : G a) (hb : G b) (hc : G c) : G (joinI [a, b, c] spI) := by
  apply G_joinI A_spI (by decide)
  intro x hx
  simp only [List.mem_cons, List.mem_nil_iff, or_false] at hx
  rcases hx with rfl | rfl | rfl <;> assumption

theorem G_join4 {a b c d : List Item} (ha : G a) (hb : G b) (hc : G c) (hd : G d) : G (joinI [a, b, c, d] spI) := by
  apply G_joinI A_spI (by decide)
  intro x hx
  simp only [List.mem_cons, List.mem_nil_iff, or_false] at hx
  rcases hx with rfl | rfl | rfl | rfl <;> assumption

theorem G_fieldsBlock (fields : List FieldDef) (h : WFFieldDefs fields) : G (blockI (fields.map fieldDefI)) :=
  (A_blockI _ (G_map fieldDefI WFFieldDef G_fieldDefI fields (wfFieldDefs_mem h))).toG

theorem A_ampI : A ampI := by
  have := AA_app (AA_app A_spI (A_pI (k := .amp) rfl)) A_spI
  simpa [ampI] using this

theorem A_pipeI : A pipeI := by
  have := AA_app (AA_app A_spI (A_pI (k := .pipe) rfl)) A_spI
  simpa [pipeI] using this

theorem G_objectDefI (d : ObjectDef) (h : WFObjectDef d) : G (objectDefI d) := by
  obtain ⟨hn, hi, hd, hf⟩ := h
  apply G_withDescTopI
  apply G_joinI A_spI (by decide)
  intro x hx
  simp only [List.mem_cons, List.mem_nil_iff, or_false] at hx
  rcases hx with rfl | rfl | rfl | rfl | rfl
  · exact G_kI (by decide)
  · exact G_nI hn
  · exact G_wrapI (G_app (AG_app (A_kI_sp (by decide))
      (G_joinI A_ampI (by decide) _ (G_map typeI WFNamedType G_namedTypeI d.interfaces (wfNamedTypes_mem hi)))) G_nil sd_nil)
  · exact G_directivesI d.dirs hd
  · exact G_fieldsBlock d.fields hf

theorem G_definitionI : ∀ d : Definition, WFDefinition d → G (definitionI d)
  | .operation op name vars dirs sel _, h => G_operationI op name vars dirs sel h.1 h.2.1 h.2.2.1 h.2.2.2
  | .fragment name tc dirs sel _, h => G_fragmentI name tc dirs sel h.1 h.2.2.1 h.2.2.2.1 h.2.2.2.2
  | .schema dirs ops _, h =>
    G_join3 (G_kI (by decide)) (G_directivesI dirs h.1)
      (A_blockI _ (G_map opTypeDefI WFOpTypeDef G_opTypeDefI ops (wfOpTypeDefs_mem h.2.2))).toG
  | .scalar desc name dirs _, h =>
    G_withDescTopI (G_join3 (G_kI (by decide)) (G_nI h.1) (G_directivesI dirs h.2))
  | .object d, h => G_objectDefI d h
  | .interface desc name dirs fields _, h =>
    G_withDescTopI (G_join4 (G_kI (by decide)) (G_nI h.1) (G_directivesI dirs h.2.1) (G_fieldsBlock fields h.2.2))
  | .union desc name dirs types _, h =>
    G_withDescTopI (G_join4 (G_kI (by decide)) (G_nI h.1) (G_directivesI dirs h.2.1)
      (AG_app (AA_app (A_pI rfl) A_spI)
        (G_joinI A_pipeI (by decide) _ (G_map typeI WFNamedType G_namedTypeI types (wfNamedTypes_mem h.2.2.2)))))
  | .enum desc name dirs values _, h =>
    G_withDescTopI (G_join4 (G_kI (by decide)) (G_nI h.1) (G_directivesI dirs h.2.1)
      (A_blockI _ (G_map enumValueDefI WFEnumValueDef G_enumValueDefI values (wfEnumValueDefs_mem h.2.2))).toG)
  | .inputObject desc name dirs fields _, h =>
    G_withDescTopI (G_join4 (G_kI (by decide)) (G_nI h.1) (G_directivesI dirs h.2.1)
      (A_blockI _ (G_map inputValueDefI WFInputValueDef G_inputValueDefI fields (wfInputValueDefs_mem h.2.2))).toG)
  | .extend d _, h => AG_app (A_kI_sp (by decide)) (G_objectDefI d h)
  | .directive desc name args locations _, h => by
    obtain ⟨hn, ha, _, hl⟩ := h
    apply G_withDescTopI
    have h1 : A (kI kwDirectiveW ++ spI ++ pI .at ['@']) := AA_app (A_kI_sp (by decide)) (A_pI rfl)
    have h2 : G (kI kwDirectiveW ++ spI ++ pI .at ['@'] ++ nI name.value ++ argDefsI args) :=
      G_app (AG_app h1 (G_nI hn)) (G_argDefsI args ha) (sd_argDefsI _)
    have h3 : A (kI kwDirectiveW ++ spI ++ pI .at ['@'] ++ nI name.value ++ argDefsI args ++ onI) :=
      GA_app h2 A_onI (by decide)
    exact AG_app h3 (G_joinI A_pipeI (by decide) _
      (G_map (fun n : Name => nI n.value) (fun n => WFName n.value) (fun n hn => G_nI hn) locations (wfNames_mem hl)))

/-- **the printer's token view of a well-formed document satisfies the lexing invariant** -/
theorem lexK_docI (d : Document) (h : WFDocument d) : LexK (docI d) [] := by
  have hj : G (joinI (d.defs.map definitionI) (sI ['\n', '\n'])) :=
    G_joinI (A_sI rfl) (by decide) _ (G_map definitionI WFDefinition G_definitionI d.defs (wfDefinitions_mem h.2))
  exact (lexK_append _ _ []).mpr ⟨hj _ (by decide), A_nlI []⟩

end GqlModel.RoundTrip
