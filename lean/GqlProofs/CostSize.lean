import GqlProofs.Cost
/-! # C19: size lemmas — inline-fragment counts vs. all selection sets, the fragment table vs. the document,
the selected operation vs. the document -/
namespace GqlModel.Cost

mutual
theorem inlSel_le : ∀ s : Selection, inlSel s ≤ setsSel s
  | .field _ _ _ _ none _ => by simp [inlSel]
  | .field _ _ _ _ (some ss) _ => by simp [inlSel]
  | .spread _ _ _ => by simp [inlSel]
  | .inline _ _ ss _ => by
    have := inlSet_le ss
    simp only [inlSel, setsSel]; omega
theorem inlSet_le : ∀ ss : SelectionSet, 1 + inlSet ss ≤ setsSet ss
  | .mk sels _ => by
    have := inlSels_le sels
    simp only [inlSet, setsSet]; omega
theorem inlSels_le : ∀ sels : List Selection, inlSels sels ≤ setsSels sels
  | [] => by simp [inlSels, setsSels]
  | s :: rest => by
    have := inlSel_le s
    have := inlSels_le rest
    simp only [inlSels, setsSels]; omega
end

theorem potential_nil_eq (w) (frags : List (String × String × SelectionSet)) :
    potential w frags [] = (frags.map w).sum := by
  induction frags with
  | nil => simp [potential]
  | cons g gs ih => rw [potential_cons_frag, ih]; simp

theorem fragsSize_le (doc : Document) : fragsSize (fragTable doc) ≤ fragSets doc.defs := by
  unfold fragTable
  rw [fragsSize, potential_nil_eq, List.map_reverse, List.sum_reverse]
  generalize doc.defs = defs
  induction defs with
  | nil => simp [fragSets]
  | cons d ds ih =>
    simp only [fragSets, List.map_cons, List.sum_cons] at *
    cases d with
    | fragment n tc dirs ss loc =>
      have := inlSet_le ss
      simp only [List.filterMap_cons, List.map_cons, List.sum_cons, fragWeight]
      omega
    | _ => simpa [List.filterMap_cons] using ih

theorem ite_cases {α : Type} (b : Bool) (x y r : α) (h : (if b = true then x else y) = r) : x = r ∨ y = r := by
  cases b <;> simp_all

theorem selectOpLoop_sets (opName : String) : ∀ (defs : List Definition) (cur : Option (OpType × SelectionSet))
    (op : OpType) (ss : SelectionSet), selectOpLoop opName defs cur = .ok (some (op, ss)) →
    cur = some (op, ss) ∨ setsSet ss ≤ opSets defs
  | [], cur, op, ss => by
    intro h
    simp only [selectOpLoop] at h
    left
    cases h; rfl
  | d :: rest, cur, op, ss => by
    intro h
    have hcons : ∀ x, opSets rest ≤ x + opSets rest := fun x => by omega
    cases d with
    | operation o name vars dirs s1 loc =>
      simp only [selectOpLoop] at h
      have hd : opSets (.operation o name vars dirs s1 loc :: rest) = setsSet s1 + opSets rest := by
        simp [opSets]
      rw [hd]
      rcases ite_cases _ _ _ _ h with h | h
      · cases h
      · rcases ite_cases _ _ _ _ h with h | h
        · rcases selectOpLoop_sets opName rest _ op ss h with h1 | h1
          · right
            cases h1
            omega
          · right; omega
        · rcases selectOpLoop_sets opName rest _ op ss h with h1 | h1
          · exact Or.inl h1
          · right; omega
    | fragment n tc dirs s1 loc =>
      simp only [selectOpLoop] at h
      have hd : opSets (.fragment n tc dirs s1 loc :: rest) = opSets rest := by simp [opSets]
      rw [hd]
      exact selectOpLoop_sets opName rest cur op ss h
    | _ => simp [selectOpLoop] at h


/-- the selection set `PlanQuery` plans is one of the document's operations -/
theorem selectOp_sets (s : Schema) (doc : Document) (opName : String) (root : String) (ss : SelectionSet)
    (h : selectOp s doc opName = .ok (root, ss)) : setsSet ss ≤ opSets doc.defs := by
  unfold selectOp at h
  cases hl : selectOpLoop opName doc.defs none with
  | error e => simp [hl] at h
  | ok r =>
    cases r with
    | none => simp [hl] at h
    | some q =>
      obtain ⟨op, ss'⟩ := q
      simp only [hl] at h
      split at h
      · rename_i r hr
        cases h
        rcases selectOpLoop_sets opName doc.defs none op ss hl with h1 | h1
        · cases h1
        · exact h1
      · cases h

end GqlModel.Cost
