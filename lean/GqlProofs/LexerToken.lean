import GqlProofs.LexerNumber
import GqlProofs.LexerBlockValue
/-! M = S, part 5: `readToken` after Ignored (lexer.go:489-576) = `Spec.token`. -/
namespace GqlModel.Lexer
open GqlModel.Utf8 GqlModel.Lexer.Spec

theorem punctuator_eq (c : UInt8) (r : Bytes) : punctuator (runeAt (c :: r)).1 = punctuatorByte c := by
  by_cases h1 : c = 33; · subst h1; rfl
  by_cases h2 : c = 36; · subst h2; rfl
  by_cases h3 : c = 38; · subst h3; rfl
  by_cases h4 : c = 40; · subst h4; rfl
  by_cases h5 : c = 41; · subst h5; rfl
  by_cases h6 : c = 58; · subst h6; rfl
  by_cases h7 : c = 61; · subst h7; rfl
  by_cases h8 : c = 64; · subst h8; rfl
  by_cases h9 : c = 91; · subst h9; rfl
  by_cases h10 : c = 93; · subst h10; rfl
  by_cases h11 : c = 123; · subst h11; rfl
  by_cases h12 : c = 124; · subst h12; rfl
  by_cases h13 : c = 125; · subst h13; rfl
  have hc := c.toNat_lt
  have g1 : ¬ (runeAt (c :: r)).1 = 33 := by rw [code_eq c r 33 (by omega)]; bnorm at h1; omega
  have g2 : ¬ (runeAt (c :: r)).1 = 36 := by rw [code_eq c r 36 (by omega)]; bnorm at h2; omega
  have g3 : ¬ (runeAt (c :: r)).1 = 38 := by rw [code_eq c r 38 (by omega)]; bnorm at h3; omega
  have g4 : ¬ (runeAt (c :: r)).1 = 40 := by rw [code_eq c r 40 (by omega)]; bnorm at h4; omega
  have g5 : ¬ (runeAt (c :: r)).1 = 41 := by rw [code_eq c r 41 (by omega)]; bnorm at h5; omega
  have g6 : ¬ (runeAt (c :: r)).1 = 58 := by rw [code_eq c r 58 (by omega)]; bnorm at h6; omega
  have g7 : ¬ (runeAt (c :: r)).1 = 61 := by rw [code_eq c r 61 (by omega)]; bnorm at h7; omega
  have g8 : ¬ (runeAt (c :: r)).1 = 64 := by rw [code_eq c r 64 (by omega)]; bnorm at h8; omega
  have g9 : ¬ (runeAt (c :: r)).1 = 91 := by rw [code_eq c r 91 (by omega)]; bnorm at h9; omega
  have g10 : ¬ (runeAt (c :: r)).1 = 93 := by rw [code_eq c r 93 (by omega)]; bnorm at h10; omega
  have g11 : ¬ (runeAt (c :: r)).1 = 123 := by rw [code_eq c r 123 (by omega)]; bnorm at h11; omega
  have g12 : ¬ (runeAt (c :: r)).1 = 124 := by rw [code_eq c r 124 (by omega)]; bnorm at h12; omega
  have g13 : ¬ (runeAt (c :: r)).1 = 125 := by rw [code_eq c r 125 (by omega)]; bnorm at h13; omega
  simp only [punctuator, punctuatorByte, g1, g2, g3, g4, g5, g6, g7, g8, g9, g10, g11, g12, g13,
    h1, h2, h3, h4, h5, h6, h7, h8, h9, h10, h11, h12, h13, if_false]

theorem ite_some_ne {α : Type} (p : Prop) [Decidable p] (a : α) (o : Option α) (x : α) (h1 : a ≠ x) (h2 : o ≠ some x) :
    (if p then some a else o) ≠ some x := by
  split
  · simpa using h1
  · exact h2

theorem punctuatorByte_ne_name' (c : UInt8) : punctuatorByte c ≠ some .name := by
  unfold punctuatorByte
  iterate 13 (refine ite_some_ne _ _ _ _ (by decide) ?_)
  simp

theorem punctuatorByte_ne_name {c : UInt8} {k : TokenKind} (hp : punctuatorByte c = some k) : k ≠ .name := by
  intro hk; subst hk; exact punctuatorByte_ne_name' c hp

theorem number_kind {bs : Bytes} {k : TokenKind} {len : Nat} (h : number bs = .ok (k, len)) : k = .int ∨ k = .float := by
  unfold number at h
  cases h1 : integerPart bs with
  | error e => rw [h1] at h; simp at h
  | ok i =>
    rw [h1] at h; simp only at h
    cases h2 : fractionalPart (bs.drop i) with
    | error e => rw [h2] at h; simp at h
    | ok fl =>
      rw [h2] at h; simp only at h
      cases h3 : exponentPart (bs.drop (i + fl)) with
      | error e => rw [h3] at h; simp at h
      | ok x =>
        rw [h3] at h; simp only [Except.ok.injEq, Prod.mk.injEq] at h
        by_cases hz : fl = 0 ∧ x = 0
        · left; rw [← h.1, if_pos hz]
        · right; rw [← h.1, if_neg hz]

theorem number_ne_name {bs : Bytes} {k : TokenKind} {len : Nat} (hn : number bs = .ok (k, len)) : k ≠ .name := by
  rcases number_kind hn with rfl | rfl <;> decide

/-! the cases of `token` -/
def isCtrl (c : UInt8) : Prop := c.toNat < 32 ∧ c ≠ 9 ∧ c ≠ 10 ∧ c ≠ 13

theorem token_ctrl (c : UInt8) (r : Bytes) (h : isCtrl c) : token (c :: r) = .error (0, .invalidChar) := by
  unfold isCtrl at h; simp only [token]; rw [if_pos h]
theorem token_punct (c : UInt8) (r : Bytes) (h : ¬ isCtrl c) {k : TokenKind} (hp : punctuatorByte c = some k) :
    token (c :: r) = .ok (k, 1, []) := by
  unfold isCtrl at h; simp only [token]; rw [if_neg h, hp]
theorem token_name (c : UInt8) (r : Bytes) (h : ¬ isCtrl c) (hp : punctuatorByte c = none) (hd : ¬ c = 46)
    (hn : isNameStartByte c) : token (c :: r) = .ok (.name, nameLen (c :: r), (c :: r).take (nameLen (c :: r))) := by
  unfold isCtrl at h; simp only [token]; rw [if_neg h, hp]; simp only; rw [if_neg hd, if_pos hn]
theorem token_number (c : UInt8) (r : Bytes) (h : ¬ isCtrl c) (hp : punctuatorByte c = none) (hd : ¬ c = 46)
    (hn : ¬ isNameStartByte c) (hnum : c = 45 ∨ isDigitByte c) :
    token (c :: r) = match number (c :: r) with
      | .ok (k, len) => .ok (k, len, (c :: r).take len)
      | .error e => .error e := by
  unfold isCtrl at h; simp only [token]; rw [if_neg h, hp]; simp only; rw [if_neg hd, if_neg hn, if_pos hnum]; rfl
theorem token_other (c : UInt8) (r : Bytes) (h : ¬ isCtrl c) (hp : punctuatorByte c = none) (hd : ¬ c = 46)
    (hn : ¬ isNameStartByte c) (hnum : ¬ (c = 45 ∨ isDigitByte c)) (hq : ¬ c = 34) :
    token (c :: r) = .error (0, .unexpectedChar) := by
  unfold isCtrl at h; simp only [token]; rw [if_neg h, hp]; simp only; rw [if_neg hd, if_neg hn, if_neg hnum, if_neg hq]

/-- "the rune at `l` is a dot" -/
theorem dotAt (l : Bytes) : (runeAt l).1 = 46 ↔ l.head? = some 46 := by
  match l with
  | [] => simp [runeAt]
  | c :: r =>
    have hc := c.toNat_lt
    rw [code_eq c r 46 (by omega)]
    simp only [List.head?_cons, Option.some.injEq]
    bnorm; omega

/-- uniform reading of `token` at a quote -/
theorem token_quote (r : Bytes) : token (34 :: r) =
    if r.head? = some 34 ∧ (r.drop 1).head? = some 34 then
      match blockBody (r.drop 2) with
      | .ok (len, raw) => .ok (.blockString, len + 3, Spec.blockStringValue raw)
      | .error (o, e) => .error (o + 3, e)
    else
      match stringBody r with
      | .ok (len, v) => .ok (.string, len + 1, v)
      | .error (o, e) => .error (o + 1, e) := by
  have e1 : ¬ ((34 : UInt8).toNat < 32 ∧ (34 : UInt8) ≠ 9 ∧ (34 : UInt8) ≠ 10 ∧ (34 : UInt8) ≠ 13) := by decide
  have e2 : punctuatorByte 34 = none := by decide
  have e3 : ¬ (34 : UInt8) = 46 := by decide
  have e4 : ¬ isNameStartByte 34 := by decide
  have e5 : ¬ ((34 : UInt8) = 45 ∨ isDigitByte 34) := by decide
  unfold token
  simp only [e1, e2, e3, e4, e5, if_false, if_true]
  match r with
  | [] => simp; rfl
  | [q1] => simp; rfl
  | q1 :: q2 :: r3 =>
    by_cases h1 : q1 = 34
    · by_cases h2 : q2 = 34
      · subst h1 h2; simp; rfl
      · simp [h1, h2]; rfl
    · simp [h1]; rfl

/-- uniform reading of `token` at a dot -/
theorem token_dot (r : Bytes) : token (46 :: r) =
    if r.head? = some 46 ∧ (r.drop 1).head? = some 46 then .ok (.spread, 3, []) else .error (0, .unexpectedChar) := by
  have e1 : ¬ ((46 : UInt8).toNat < 32 ∧ (46 : UInt8) ≠ 9 ∧ (46 : UInt8) ≠ 10 ∧ (46 : UInt8) ≠ 13) := by decide
  have e2 : punctuatorByte 46 = none := by decide
  unfold token
  simp only [e1, e2, if_false, if_true]
  match r with
  | [] => simp
  | [q1] => simp
  | q1 :: q2 :: r3 => simp

/-- **one token**: after Ignored, `readToken` and the spec's token scan agree on kind, length and value; a NAME
carries the rune cursor, every other token the byte cursor; a lexical error has the same site, and the same offset
when the rune cursor equals the byte cursor and no byte ≥ 0x80 precedes the offending byte -/
theorem readTokenAt_spec (f : Nat) (c : UInt8) (r : Bytes) (p rp : Nat) (hlen : (c :: r).length < f) :
    match token (c :: r) with
    | .ok (k, len, v) =>
      readTokenAt f (c :: r) p rp = .ok (makeToken k (if k = .name then rp else p) ((if k = .name then rp else p) + len) v)
    | .error (o, ek) =>
      ∃ q, readTokenAt f (c :: r) p rp = .error ⟨q, ek⟩ ∧ (hasHigh ((c :: r).take o) = false → rp = p → q = p + o) := by
  have hc := c.toNat_lt
  unfold readTokenAt
  simp only [ne_eq, punctuator_eq, isNameStart_iff, isDigitCode_iff, List.drop_succ_cons, List.drop_zero]
  simp (disch := omega) only [code_eq, code_lt]
  simp only [quoteAt, dotAt]
  by_cases hctl : c.toNat < 32 ∧ c ≠ 9 ∧ c ≠ 10 ∧ c ≠ 13
  · have g : ((c.toNat : Int) < 32 ∧ ¬ (c.toNat : Int) = 9 ∧ ¬ (c.toNat : Int) = 10 ∧ ¬ (c.toNat : Int) = 13) := by
      bnorm at hctl; omega
    rw [if_pos g, token_ctrl c r hctl]
    exact ⟨rp, rfl, fun _ h => by omega⟩
  have gctl : ¬ ((c.toNat : Int) < 32 ∧ ¬ (c.toNat : Int) = 9 ∧ ¬ (c.toNat : Int) = 10 ∧ ¬ (c.toNat : Int) = 13) := by
    bnorm at hctl; omega
  rw [if_neg gctl]
  cases hp : punctuatorByte c with
  | some k =>
    have hk : k ≠ .name := punctuatorByte_ne_name hp
    rw [token_punct c r hctl hp]
    simp [makeToken, hk]
  | none =>
    simp only
    by_cases hdot : c = 46
    · have g : (c.toNat : Int) = 46 := by bnorm at hdot; omega
      subst hdot
      rw [if_pos g, token_dot]
      by_cases hd : r.head? = some 46 ∧ (r.drop 1).head? = some 46
      · rw [if_pos hd, if_pos hd]; simp [makeToken]
      · rw [if_neg hd, if_neg hd]; exact ⟨rp, rfl, fun _ h => by omega⟩
    have gdot : ¬ (c.toNat : Int) = 46 := by bnorm at hdot; omega
    rw [if_neg gdot]
    by_cases hns : isNameStartByte c
    · rw [if_pos hns, readName_spec c r p rp hns, token_name c r hctl hp hdot hns]
      simp
    rw [if_neg hns]
    by_cases hnum : c = 45 ∨ isDigitByte c
    · have g : ((c.toNat : Int) = 45 ∨ isDigitByte c) := by
        rcases hnum with h | h
        · left; bnorm at h; omega
        · exact Or.inr h
      rw [if_pos g, readNumber_spec f (c :: r) p hlen, token_number c r hctl hp hdot hns hnum]
      match hn : number (c :: r) with
      | .ok (k, len) =>
        have hk : k ≠ .name := number_ne_name hn
        simp [hk]
      | .error (o, e) => exact ⟨p + o, rfl, fun _ _ => rfl⟩
    have gnum : ¬ ((c.toNat : Int) = 45 ∨ isDigitByte c) := by
      intro g; apply hnum
      rcases g with h | h
      · left; bnorm; omega
      · exact Or.inr h
    rw [if_neg gnum]
    by_cases hq : c = 34
    · have g : (c.toNat : Int) = 34 := by bnorm at hq; omega
      subst hq
      simp only [List.length_cons] at hlen
      rw [if_pos g, token_quote]
      by_cases hb : r.head? = some 34 ∧ (r.drop 1).head? = some 34
      · rw [if_pos hb, if_pos hb]
        unfold readBlockString
        simp only [List.drop_succ_cons]
        have := readBlockLoop_spec f (r.drop 2) (p + 3) (p + 3) (by simp only [List.length_drop]; omega)
        match hsb : blockBody (r.drop 2) with
        | .ok (len, raw) =>
          rw [hsb] at this; simp only at this
          simp only [this, blockStringValue_eq, reduceCtorEq, if_false, makeToken]
          congr 2; omega
        | .error (o, k) =>
          rw [hsb] at this; simp only at this
          obtain ⟨q, hq, hpos⟩ := this
          refine ⟨q, by rw [hq], ?_⟩
          intro hh _
          have e : o + 3 = (2 + o) + 1 := by omega
          rw [e, List.take_succ_cons, hasHigh_cons, List.take_add, hasHigh_append] at hh
          simp only [Bool.or_eq_false_iff] at hh
          have := hpos hh.2.2; omega
      · rw [if_neg hb, if_neg hb]
        unfold readString
        simp only [List.drop_succ_cons, List.drop_zero]
        have := readStringLoop_spec f r (p + 1) (p + 1) (by omega)
        match hsb : stringBody r with
        | .ok (len, v) =>
          rw [hsb] at this; simp only at this
          simp only [this, reduceCtorEq, if_false, makeToken]
          congr 2; omega
        | .error (o, k) =>
          rw [hsb] at this; simp only at this
          obtain ⟨q, hq, hpos⟩ := this
          refine ⟨q, by rw [hq], ?_⟩
          intro hh _
          rw [List.take_succ_cons, hasHigh_cons] at hh
          simp only [Bool.or_eq_false_iff] at hh
          have := hpos hh.2; omega
    · have gq : ¬ (c.toNat : Int) = 34 := by bnorm at hq; omega
      rw [if_neg gq, token_other c r hctl hp hdot hns hnum hq]
      exact ⟨rp, rfl, fun _ h => by omega⟩

end GqlModel.Lexer
