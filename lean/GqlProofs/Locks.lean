import GqlModel.Locks
/-! Helper lemmas for `Props/C07.lean` (core Lean only). -/
namespace GqlModel.Locks

theorem holderAt_succ_some (tr : Trace) (m : Mu) (n : Nat) (e : Ev) (h : tr[n]? = some e) :
    holderAt tr m (n + 1) = stepHolder m (holderAt tr m n) e := by
  simp [holderAt, h]

theorem holderAt_succ_none (tr : Trace) (m : Mu) (n : Nat) (h : tr[n]? = none) :
    holderAt tr m (n + 1) = holderAt tr m n := by
  simp [holderAt, h]

/-- If `t` holds `m` at `i` and no longer (or someone else) at `j ≥ i`, then `t` unlocked `m` in between. -/
theorem released_between (tr : Trace) (p : Nat) (wf : WF tr p) (m : Mu) (t : Tid) (i : Nat)
    (hi : holderAt tr m i = some t) :
    ∀ j, i ≤ j → holderAt tr m j ≠ some t → ∃ k, i ≤ k ∧ k < j ∧ tr[k]? = some (.unlock t m) := by
  intro j
  induction j with
  | zero =>
    intro hij hne
    have : i = 0 := by omega
    subst this
    exact absurd hi hne
  | succ j ih =>
    intro hij hne
    by_cases hj : holderAt tr m j = some t
    · -- the step at j changed the holder
      cases hev : tr[j]? with
      | none => rw [holderAt_succ_none tr m j hev] at hne; exact absurd hj hne
      | some e =>
        rw [holderAt_succ_some tr m j e hev] at hne
        have hij' : i ≤ j := by
          rcases Nat.lt_or_ge j i with hlt | hge
          · have : i = j + 1 := by omega
            subst this
            rw [holderAt_succ_some tr m j e hev] at hi
            exact absurd hi hne
          · exact hge
        cases e with
        | lock t' m' =>
          by_cases hm : m' = m
          · subst hm
            have := wf.lock_free j t' m' hev
            rw [hj] at this; cases this
          · simp [stepHolder, hm, hj] at hne
        | unlock t' m' =>
          by_cases hm : m' = m
          · subst hm
            have := wf.unlock_held j t' m' hev
            rw [hj] at this
            cases this
            exact ⟨j, hij', Nat.lt_succ_self j, hev⟩
          · simp [stepHolder, hm, hj] at hne
        | read _ _ => simp [stepHolder, hj] at hne
        | write _ _ => simp [stepHolder, hj] at hne
        | aread _ _ => simp [stepHolder, hj] at hne
        | awrite _ _ => simp [stepHolder, hj] at hne
        | publish _ => simp [stepHolder, hj] at hne
        | acquire _ => simp [stepHolder, hj] at hne
    · have hij' : i ≤ j := by
        rcases Nat.lt_or_ge j i with hlt | hge
        · have : i = j + 1 := by omega
          subst this
          -- holder at j+1 = some t but holder at j ≠ some t is fine; but i = j+1 and we need i ≤ j: derive contradiction with hne
          exact absurd hi hne
        · exact hge
      rcases ih hij' hj with ⟨k, h1, h2, h3⟩
      exact ⟨k, h1, Nat.lt_succ_of_lt h2, h3⟩

/-- If `t` holds `m` at `j` and `m` was unlocked at some `k < j`, then `t` locked `m` strictly between. -/
theorem locked_after_unlock (tr : Trace) (m : Mu) (t : Tid) :
    ∀ j, holderAt tr m j = some t → ∀ k, k < j → (∃ t', tr[k]? = some (.unlock t' m)) →
      ∃ k', k < k' ∧ k' < j ∧ tr[k']? = some (.lock t m) := by
  intro j
  induction j with
  | zero => intro _ k hk; omega
  | succ j ih =>
    intro hj k hk hun
    rcases hun with ⟨t', hun⟩
    cases hev : tr[j]? with
    | none =>
      rw [holderAt_succ_none tr m j hev] at hj
      have hkj : k < j := by
        rcases Nat.lt_or_ge k j with h | h
        · exact h
        · have : k = j := by omega
          subst this; rw [hev] at hun; cases hun
      rcases ih hj k hkj ⟨t', hun⟩ with ⟨k', h1, h2, h3⟩
      exact ⟨k', h1, Nat.lt_succ_of_lt h2, h3⟩
    | some e =>
      rw [holderAt_succ_some tr m j e hev] at hj
      have hkj_of_ne : (e ≠ .unlock t' m) → k < j := by
        intro hne
        rcases Nat.lt_or_ge k j with h | h
        · exact h
        · have : k = j := by omega
          subst this; rw [hev] at hun; cases hun; exact absurd rfl hne
      have recur : holderAt tr m j = some t → (e ≠ .unlock t' m) → ∃ k', k < k' ∧ k' < j + 1 ∧ tr[k']? = some (.lock t m) := by
        intro hh hne
        rcases ih hh k (hkj_of_ne hne) ⟨t', hun⟩ with ⟨k', h1, h2, h3⟩
        exact ⟨k', h1, Nat.lt_succ_of_lt h2, h3⟩
      cases e with
      | lock t'' m' =>
        by_cases hm : m' = m
        · subst hm
          simp [stepHolder] at hj
          subst hj
          exact ⟨j, hkj_of_ne (by intro h; cases h), Nat.lt_succ_self j, hev⟩
        · simp [stepHolder, hm] at hj
          exact recur hj (by intro h; cases h)
      | unlock t'' m' =>
        by_cases hm : m' = m
        · subst hm; simp [stepHolder] at hj
        · simp [stepHolder, hm] at hj
          exact recur hj (by intro h; cases h; exact hm rfl)
      | read _ _ => exact recur (by simpa [stepHolder] using hj) (by intro h; cases h)
      | write _ _ => exact recur (by simpa [stepHolder] using hj) (by intro h; cases h)
      | aread _ _ => exact recur (by simpa [stepHolder] using hj) (by intro h; cases h)
      | awrite _ _ => exact recur (by simpa [stepHolder] using hj) (by intro h; cases h)
      | publish _ => exact recur (by simpa [stepHolder] using hj) (by intro h; cases h)
      | acquire _ => exact recur (by simpa [stepHolder] using hj) (by intro h; cases h)

theorem acc_not_unlock {e : Ev} {x : Loc} {w a : Bool} (h : e.acc = some (x, w, a)) (t : Tid) (m : Mu) : e ≠ .unlock t m := by
  intro he; subst he; simp [Ev.acc] at h

theorem acc_not_lock {e : Ev} {x : Loc} {w a : Bool} (h : e.acc = some (x, w, a)) (t : Tid) (m : Mu) : e ≠ .lock t m := by
  intro he; subst he; simp [Ev.acc] at h

theorem acc_not_acquire {e : Ev} {x : Loc} {w a : Bool} (h : e.acc = some (x, w, a)) (t : Tid) : e ≠ .acquire t := by
  intro he; subst he; simp [Ev.acc] at h

/-- two accesses under the same mutex by different threads are ordered -/
theorem guarded_ordered (tr : Trace) (p : Nat) (wf : WF tr p) (m : Mu) (i j : Nat) (e₁ e₂ : Ev)
    (hij : i < j) (h1 : tr[i]? = some e₁) (h2 : tr[j]? = some e₂)
    {x₁ x₂ : Loc} {w₁ a₁ w₂ a₂ : Bool} (ha1 : e₁.acc = some (x₁, w₁, a₁)) (_ha2 : e₂.acc = some (x₂, w₂, a₂))
    (hh1 : holderAt tr m i = some e₁.tid) (hh2 : holderAt tr m j = some e₂.tid) (hne : e₁.tid ≠ e₂.tid) :
    HB tr i j := by
  have hne' : holderAt tr m j ≠ some e₁.tid := by rw [hh2]; intro h; exact hne (Option.some.inj h).symm
  rcases released_between tr p wf m e₁.tid i hh1 j (Nat.le_of_lt hij) hne' with ⟨k, hik, hkj, hk⟩
  have hik' : i < k := by
    rcases Nat.lt_or_ge i k with h | h
    · exact h
    · have : i = k := by omega
      subst this; rw [h1] at hk; exact absurd (Option.some.inj hk) (acc_not_unlock ha1 _ _)
  rcases locked_after_unlock tr m e₂.tid j hh2 k hkj ⟨_, hk⟩ with ⟨k', hkk', hk'j, hk'⟩
  exact .trans (.trans (.po hik' h1 hk rfl) (.sync hkk' hk hk')) (.po hk'j hk' h2 rfl)

end GqlModel.Locks

/-! ### lazy initialisation machine -/
namespace GqlModel.Locks
variable {κ V : Type} [DecidableEq κ]

structure LInv (key : Tid → κ) (init : κ → V) (s : LState κ V) : Prop where
  cell_init : ∀ k v, s.cell k = some v → v = init k
  out_init : ∀ t v, s.out t = some v → v = init (key t)
  seen_init : ∀ t v, s.seen t = some v → v = init (key t)
  done_out : ∀ t, 3 ≤ s.pc t → s.out t = some (init (key t))
  crit_holds : ∀ t, 1 ≤ s.pc t → s.pc t ≤ 3 → s.mu = some t
  done_cell : ∀ t, 3 ≤ s.pc t → s.cell (key t) = some (init (key t))
  seen_fresh : ∀ t, s.pc t = 2 → s.seen t = s.cell (key t)

omit [DecidableEq κ] in
theorem LInv.initial (key : Tid → κ) (init : κ → V) : LInv key init (LState.init : LState κ V) := by
  constructor <;> simp [LState.init]

theorem upd_same {α : Type} (f : Tid → α) (t : Tid) (a : α) : upd f t a t = a := by simp [upd]
theorem upd_other {α : Type} (f : Tid → α) {t t' : Tid} (a : α) (h : t' ≠ t) : upd f t a t' = f t' := by simp [upd, h]

theorem LInv.step (key : Tid → κ) (init : κ → V) (s : LState κ V) (t : Tid) (inv : LInv key init s) :
    LInv key init (lstep key init s t) := by
  unfold lstep
  split
  next h0 =>
    -- pc 0: try to lock
    split
    next hmu =>
      have nobody : ∀ t', 1 ≤ s.pc t' → s.pc t' ≤ 3 → False := by
        intro t' h1 h3; have := inv.crit_holds t' h1 h3; rw [hmu] at this; cases this
      refine ⟨inv.cell_init, inv.out_init, inv.seen_init, ?_, ?_, ?_, ?_⟩
      · intro t' h; by_cases e : t' = t
        · subst e; simp [upd] at h
        · simp only [upd_other _ _ e] at h; exact inv.done_out t' h
      · intro t' h1 h3; by_cases e : t' = t
        · subst e; rfl
        · simp only [upd_other _ _ e] at h1 h3; exact absurd (nobody t' h1 h3) id
      · intro t' h; by_cases e : t' = t
        · subst e; simp [upd] at h
        · simp only [upd_other _ _ e] at h; exact inv.done_cell t' h
      · intro t' h; by_cases e : t' = t
        · subst e; simp [upd] at h
        · simp only [upd_other _ _ e] at h; exact inv.seen_fresh t' h
    next => exact inv
  next h1 =>
    -- pc 1: lookup into the local
    have hmu : s.mu = some t := inv.crit_holds t (by omega) (by omega)
    refine ⟨inv.cell_init, inv.out_init, ?_, ?_, ?_, ?_, ?_⟩
    · intro t' v h; by_cases e : t' = t
      · subst e; simp only [upd_same] at h; exact inv.cell_init _ v h
      · simp only [upd_other _ _ e] at h; exact inv.seen_init t' v h
    · intro t' h; by_cases e : t' = t
      · subst e; simp [upd] at h
      · simp only [upd_other _ _ e] at h; exact inv.done_out t' h
    · intro t' h1' h3; by_cases e : t' = t
      · subst e; exact hmu
      · simp only [upd_other _ _ e] at h1' h3; exact inv.crit_holds t' h1' h3
    · intro t' h; by_cases e : t' = t
      · subst e; simp [upd] at h
      · simp only [upd_other _ _ e] at h; exact inv.done_cell t' h
    · intro t' h; by_cases e : t' = t
      · subst e; simp [upd]
      · simp only [upd_other _ _ e] at h ⊢; exact inv.seen_fresh t' h
  next h2 =>
    -- pc 2: store on miss, result in hand
    have hmu : s.mu = some t := inv.crit_holds t (by omega) (by omega)
    have alone : ∀ t', t' ≠ t → 1 ≤ s.pc t' → s.pc t' ≤ 3 → False := by
      intro t' e h1 h3; have := inv.crit_holds t' h1 h3; rw [hmu] at this; exact e (Option.some.inj this).symm
    split
    next v hseen =>
      have hv : v = init (key t) := inv.seen_init t v hseen
      have hcell : s.cell (key t) = some (init (key t)) := by rw [← inv.seen_fresh t h2, hseen, hv]
      refine ⟨inv.cell_init, ?_, inv.seen_init, ?_, ?_, ?_, ?_⟩
      · intro t' v' h; by_cases e : t' = t
        · subst e; simp only [upd_same] at h; cases h; exact hv
        · simp only [upd_other _ _ e] at h; exact inv.out_init t' v' h
      · intro t' h; by_cases e : t' = t
        · subst e; simp [upd, hv]
        · simp only [upd_other _ _ e] at h ⊢; exact inv.done_out t' h
      · intro t' h1' h3; by_cases e : t' = t
        · subst e; exact hmu
        · simp only [upd_other _ _ e] at h1' h3; exact inv.crit_holds t' h1' h3
      · intro t' h; by_cases e : t' = t
        · subst e; exact hcell
        · simp only [upd_other _ _ e] at h; exact inv.done_cell t' h
      · intro t' h; by_cases e : t' = t
        · subst e; simp [upd] at h
        · simp only [upd_other _ _ e] at h; exact inv.seen_fresh t' h
    next hseen =>
      refine ⟨?_, ?_, inv.seen_init, ?_, ?_, ?_, ?_⟩
      · intro k v h
        by_cases ek : k = key t
        · subst ek; simp at h; exact h.symm
        · simp [ek] at h; exact inv.cell_init k v h
      · intro t' v' h; by_cases e : t' = t
        · subst e; simp only [upd_same] at h; cases h; rfl
        · simp only [upd_other _ _ e] at h; exact inv.out_init t' v' h
      · intro t' h; by_cases e : t' = t
        · subst e; simp [upd]
        · simp only [upd_other _ _ e] at h ⊢; exact inv.done_out t' h
      · intro t' h1' h3; by_cases e : t' = t
        · subst e; exact hmu
        · simp only [upd_other _ _ e] at h1' h3; exact inv.crit_holds t' h1' h3
      · intro t' h; by_cases e : t' = t
        · subst e; simp
        · simp only [upd_other _ _ e] at h
          by_cases ek : key t' = key t
          · simp [ek]
          · simp [ek]; exact inv.done_cell t' h
      · intro t' h; by_cases e : t' = t
        · subst e; simp [upd] at h
        · simp only [upd_other _ _ e] at h
          exact absurd (alone t' e (by omega) (by omega)) id
  next h3 =>
    -- pc 3: unlock
    have hmu : s.mu = some t := inv.crit_holds t (by omega) (by omega)
    have alone : ∀ t', t' ≠ t → 1 ≤ s.pc t' → s.pc t' ≤ 3 → False := by
      intro t' e h1 h3'; have := inv.crit_holds t' h1 h3'; rw [hmu] at this; exact e (Option.some.inj this).symm
    refine ⟨inv.cell_init, inv.out_init, inv.seen_init, ?_, ?_, ?_, ?_⟩
    · intro t' h; by_cases e : t' = t
      · subst e; exact inv.done_out t' (by omega)
      · simp only [upd_other _ _ e] at h; exact inv.done_out t' h
    · intro t' h1' h3'; by_cases e : t' = t
      · subst e; simp [upd] at h3'
      · simp only [upd_other _ _ e] at h1' h3'; exact absurd (alone t' e h1' h3') id
    · intro t' h; by_cases e : t' = t
      · subst e; exact inv.done_cell t' (by omega)
      · simp only [upd_other _ _ e] at h; exact inv.done_cell t' h
    · intro t' h; by_cases e : t' = t
      · subst e; simp [upd] at h
      · simp only [upd_other _ _ e] at h; exact inv.seen_fresh t' h
  next => exact inv

theorem LInv.run (key : Tid → κ) (init : κ → V) (sched : List Tid) : LInv key init (lrun key init sched) := by
  unfold lrun
  suffices h : ∀ s, LInv key init s → LInv key init (sched.foldl (lstep key init) s) from h _ (LInv.initial key init)
  induction sched with
  | nil => intro s h; exact h
  | cons t ts ih => intro s h; exact ih _ (LInv.step key init s t h)

end GqlModel.Locks

/-! ### lookup – compute outside the lock – store (PlanCache.Get) -/
namespace GqlModel.Locks
variable {κ V : Type} [DecidableEq κ]

structure CInv (key : Tid → κ) (init : κ → V) (s : CState κ V) : Prop where
  cell_init : ∀ k v, s.cell k = some v → v = init k
  out_init : ∀ t v, s.out t = some v → v = init (key t)
  loc_set : ∀ t, 3 ≤ s.pc t → s.pc t ≤ 4 → s.loc t = some (init (key t))
  done_out : ∀ t, s.pc t = 5 → s.out t = some (init (key t))
  crit_holds : ∀ t, s.pc t = 1 ∨ s.pc t = 4 → s.mu = some t

omit [DecidableEq κ] in
theorem CInv.initial (key : Tid → κ) (init : κ → V) : CInv key init (CState.init : CState κ V) := by
  constructor <;> simp [CState.init]

theorem CInv.step (key : Tid → κ) (init : κ → V) (s : CState κ V) (t : Tid) (inv : CInv key init s) :
    CInv key init (cstep key init s t) := by
  unfold cstep
  split
  next h0 =>
    split
    next hmu =>
      have nobody : ∀ t', s.pc t' = 1 ∨ s.pc t' = 4 → False := by
        intro t' h; have := inv.crit_holds t' h; rw [hmu] at this; cases this
      refine ⟨inv.cell_init, inv.out_init, ?_, ?_, ?_⟩
      · intro t' h3 h4; by_cases e : t' = t
        · subst e; simp [upd] at h3
        · simp only [upd_other _ _ e] at h3 h4; exact inv.loc_set t' h3 h4
      · intro t' h; by_cases e : t' = t
        · subst e; simp [upd] at h
        · simp only [upd_other _ _ e] at h; exact inv.done_out t' h
      · intro t' h; by_cases e : t' = t
        · subst e; rfl
        · simp only [upd_other _ _ e] at h; exact absurd (nobody t' h) id
    next => exact inv
  next h1 =>
    have hmu : s.mu = some t := inv.crit_holds t (.inl h1)
    have alone : ∀ t', t' ≠ t → s.pc t' = 1 ∨ s.pc t' = 4 → False := by
      intro t' e h; have := inv.crit_holds t' h; rw [hmu] at this; exact e (Option.some.inj this).symm
    split
    next v hv =>
      have hvi : v = init (key t) := inv.cell_init _ v hv
      refine ⟨inv.cell_init, ?_, ?_, ?_, ?_⟩
      · intro t' v' h; by_cases e : t' = t
        · subst e; simp only [upd_same] at h; cases h; exact hvi
        · simp only [upd_other _ _ e] at h; exact inv.out_init t' v' h
      · intro t' h3 h4; by_cases e : t' = t
        · subst e; simp [upd] at h4
        · simp only [upd_other _ _ e] at h3 h4; exact inv.loc_set t' h3 h4
      · intro t' h; by_cases e : t' = t
        · subst e; simp [upd, hvi]
        · simp only [upd_other _ _ e] at h ⊢; exact inv.done_out t' h
      · intro t' h; by_cases e : t' = t
        · subst e; simp [upd] at h
        · simp only [upd_other _ _ e] at h; exact absurd (alone t' e h) id
    next hnone =>
      refine ⟨inv.cell_init, inv.out_init, ?_, ?_, ?_⟩
      · intro t' h3 h4; by_cases e : t' = t
        · subst e; simp [upd] at h3
        · simp only [upd_other _ _ e] at h3 h4; exact inv.loc_set t' h3 h4
      · intro t' h; by_cases e : t' = t
        · subst e; simp [upd] at h
        · simp only [upd_other _ _ e] at h; exact inv.done_out t' h
      · intro t' h; by_cases e : t' = t
        · subst e; simp [upd] at h
        · simp only [upd_other _ _ e] at h; exact absurd (alone t' e h) id
  next h2 =>
    refine ⟨inv.cell_init, inv.out_init, ?_, ?_, ?_⟩
    · intro t' h3 h4; by_cases e : t' = t
      · subst e; simp [upd]
      · simp only [upd_other _ _ e] at h3 h4 ⊢; exact inv.loc_set t' h3 h4
    · intro t' h; by_cases e : t' = t
      · subst e; simp [upd] at h
      · simp only [upd_other _ _ e] at h; exact inv.done_out t' h
    · intro t' h; by_cases e : t' = t
      · subst e; simp [upd] at h
      · simp only [upd_other _ _ e] at h; exact inv.crit_holds t' h
  next h3 =>
    split
    next hmu =>
      have nobody : ∀ t', s.pc t' = 1 ∨ s.pc t' = 4 → False := by
        intro t' h; have := inv.crit_holds t' h; rw [hmu] at this; cases this
      have hloc : s.loc t = some (init (key t)) := inv.loc_set t (by omega) (by omega)
      refine ⟨inv.cell_init, inv.out_init, ?_, ?_, ?_⟩
      · intro t' h3' h4; by_cases e : t' = t
        · subst e; exact hloc
        · simp only [upd_other _ _ e] at h3' h4; exact inv.loc_set t' h3' h4
      · intro t' h; by_cases e : t' = t
        · subst e; simp [upd] at h
        · simp only [upd_other _ _ e] at h; exact inv.done_out t' h
      · intro t' h; by_cases e : t' = t
        · subst e; rfl
        · simp only [upd_other _ _ e] at h; exact absurd (nobody t' h) id
    next => exact inv
  next h4 =>
    have hmu : s.mu = some t := inv.crit_holds t (.inr h4)
    have alone : ∀ t', t' ≠ t → s.pc t' = 1 ∨ s.pc t' = 4 → False := by
      intro t' e h; have := inv.crit_holds t' h; rw [hmu] at this; exact e (Option.some.inj this).symm
    have hloc : s.loc t = some (init (key t)) := inv.loc_set t (by omega) (by omega)
    refine ⟨?_, ?_, ?_, ?_, ?_⟩
    · intro k v h
      by_cases ek : k = key t
      · subst ek; simp [hloc] at h; exact h.symm
      · simp [ek] at h; exact inv.cell_init k v h
    · intro t' v' h; by_cases e : t' = t
      · subst e; simp only [upd_same, hloc] at h; cases h; rfl
      · simp only [upd_other _ _ e] at h; exact inv.out_init t' v' h
    · intro t' h3 h4'; by_cases e : t' = t
      · subst e; simp [upd] at h4'
      · simp only [upd_other _ _ e] at h3 h4'; exact inv.loc_set t' h3 h4'
    · intro t' h; by_cases e : t' = t
      · subst e; simp [upd, hloc]
      · simp only [upd_other _ _ e] at h ⊢; exact inv.done_out t' h
    · intro t' h; by_cases e : t' = t
      · subst e; simp [upd] at h
      · simp only [upd_other _ _ e] at h; exact absurd (alone t' e h) id
  next => exact inv

theorem CInv.run (key : Tid → κ) (init : κ → V) (sched : List Tid) : CInv key init (crun key init sched) := by
  unfold crun
  suffices h : ∀ s, CInv key init s → CInv key init (sched.foldl (cstep key init) s) from h _ (CInv.initial key init)
  induction sched with
  | nil => intro s h; exact h
  | cons t ts ih => intro s h; exact ih _ (CInv.step key init s t h)

end GqlModel.Locks
