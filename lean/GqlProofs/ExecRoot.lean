import GqlProofs.ExecErr
/-! C04 / C20: facts about one selection set (`execGroups`) obtained from the field-level invariants:
which keys a successful selection set yields, and why a failing one fails. -/
namespace GqlModel.Exec

/-- the group selects a field the runtime type defines (or `__typename`) -/
def resolvable (c : Ctx) (rt : String) (g : String × List FieldNode) : Bool :=
  match g.2.head? with
  | some node => (fieldDef? c.schema rt node.name).isSome
  | none => false

/-- a successful selection set yields exactly the keys of its resolvable groups, in group order -/
theorem execGroups_ok_keys (c : Ctx) : ∀ fuel dfr rt src path groups acc st fs st',
    execGroups c fuel dfr rt src path groups acc st = (.ok fs, st') →
    fs.map (·.1) = acc.map (·.1) ++ (groups.filter (resolvable c rt)).map (·.1)
  | 0, dfr, rt, src, path, groups, acc, st, fs, st', h => by simp [execGroups] at h
  | fuel + 1, dfr, rt, src, path, [], acc, st, fs, st', h => by
    simp only [execGroups, Prod.mk.injEq, Res.ok.injEq] at h
    simp [← h.1]
  | fuel + 1, dfr, rt, src, path, (key, nodes) :: rest, acc, st, fs, st', h => by
    simp only [execGroups] at h
    split at h
    · rename_i hh
      rw [execGroups_ok_keys c fuel _ _ _ _ _ _ _ _ _ h]
      simp [List.filter_cons, resolvable, hh]
    · rename_i node hh
      split at h
      · rename_i hfd
        rw [execGroups_ok_keys c fuel _ _ _ _ _ _ _ _ _ h]
        simp [List.filter_cons, resolvable, hh, hfd]
      · rename_i fd hfd
        split at h
        · rw [execGroups_ok_keys c fuel _ _ _ _ _ _ _ _ _ h]
          simp [List.filter_cons, resolvable, hh, hfd]
        · simp at h
        · simp at h

theorem execField_fail_nonNull (c : Ctx) (fuel : Nat) (dfr : Bool) (rt : String) (src : GoVal) (p : Path)
    (fd : FieldDefS) (nodes : List FieldNode) (st st' : St)
    (h : execField c fuel dfr rt src p fd nodes st = (.fail, st')) : fd.type.isNonNull = true := by
  cases fuel with
  | zero => simp [execField] at h
  | succ fuel =>
    simp only [execField] at h
    split at h
    · simp at h
    · split at h
      · split at h
        · assumption
        · simp at h
      · split at h
        · simp at h
        · split at h
          · assumption
          · simp at h
        · simp at h

/-- a selection set fails only because a NON-NULL field of it failed; the newest error lies at or below that field -/
theorem execGroups_fail_cause (c : Ctx) : ∀ fuel dfr rt src path groups acc st st',
    execGroups c fuel dfr rt src path groups acc st = (.fail, st') →
    ∃ k nodes node fd q d, (k, nodes) ∈ groups ∧ nodes.head? = some node ∧
      fieldDef? c.schema rt node.name = some fd ∧ fd.type.isNonNull = true ∧
      st'.errs.head? = some (q, d) ∧ (path ++ [.key k]) <+: q
  | 0, dfr, rt, src, path, groups, acc, st, st', h => by simp [execGroups] at h
  | fuel + 1, dfr, rt, src, path, [], acc, st, st', h => by simp [execGroups] at h
  | fuel + 1, dfr, rt, src, path, (key, nodes) :: rest, acc, st, st', h => by
    simp only [execGroups] at h
    have hrec : ∀ acc st, execGroups c fuel dfr rt src path rest acc st = (.fail, st') →
        ∃ k nodes' node fd q d, (k, nodes') ∈ (key, nodes) :: rest ∧ nodes'.head? = some node ∧
          fieldDef? c.schema rt node.name = some fd ∧ fd.type.isNonNull = true ∧
          st'.errs.head? = some (q, d) ∧ (path ++ [.key k]) <+: q := by
      intro acc st h
      obtain ⟨k, nodes', node, fd, q, d, hm, h1, h2, h3, h4, h5⟩ := execGroups_fail_cause c fuel _ _ _ _ _ _ _ _ h
      exact ⟨k, nodes', node, fd, q, d, List.mem_cons_of_mem _ hm, h1, h2, h3, h4, h5⟩
    split at h
    · exact hrec _ _ h
    · rename_i node hh
      split at h
      · exact hrec _ _ h
      · rename_i fd hfd
        split at h
        · exact hrec _ _ h
        · rename_i st1 hf
          simp only [Prod.mk.injEq, true_and] at h
          subst h
          obtain ⟨new, hl, hfail, -⟩ := (errP c fuel).field _ _ _ _ _ _ _ _ _ hf
          obtain ⟨hne, hall⟩ := hfail rfl
          cases new with
          | nil => exact absurd rfl hne
          | cons e new =>
            refine ⟨key, nodes, node, fd, e.1, e.2, List.mem_cons_self, hh, hfd,
              execField_fail_nonNull _ _ _ _ _ _ _ _ _ _ hf, by rw [hl]; rfl, hall e List.mem_cons_self⟩
        · simp at h

end GqlModel.Exec
