import GqlProofs.PlanFuel2
/-! # Fuel: the breadth-first pass pops one queue entry per map or list of the response

Potential of a queued address `p`: 1 (its own pop) + the number of maps and lists strictly below the response value at `p`. Visiting
the container at `p` queues children whose potentials add up to at most the second summand. -/
namespace GqlModel.Plan
open GqlModel.Exec GqlModel.Coerce

def jcontO : Option JVal → Nat
  | some x => jcont x
  | none => 0

/-- the number of maps and lists strictly below -/
def kidsO : Option JVal → Nat
  | some (.obj gs) => jcontF gs
  | some (.list js) => jcontL js
  | _ => 0

def pot (j : JVal) (p : Path) : Nat := 1 + kidsO (jAt j p)

def potQ (j : JVal) (q : List Path) : Nat := (q.map (pot j)).sum

theorem potQ_append (j : JVal) (q1 q2 : List Path) : potQ j (q1 ++ q2) = potQ j q1 + potQ j q2 := by
  simp [potQ, List.sum_append]

theorem potQ_cons (j : JVal) (p : Path) (q : List Path) : potQ j (p :: q) = pot j p + potQ j q := by
  simp [potQ]

theorem ndv_getAt : ∀ (a : Path) {root v : PVal}, NDv root → root.getAt a = some v → NDv v
  | [], root, v, h, hg => by
    rw [getAt_nil] at hg
    simp only [Option.some.injEq] at hg
    subst hg; exact h
  | seg :: rest, root, v, h, hg => by
    cases root with
    | leaf _ => cases seg <;> simp [PVal.getAt] at hg
    | deferred _ => cases seg <;> simp [PVal.getAt] at hg
    | obj fs =>
      cases seg with
      | idx i => simp [PVal.getAt] at hg
      | key k =>
        simp only [PVal.getAt] at hg
        cases hl : lookupF fs k with
        | none => simp [hl] at hg
        | some x =>
          simp only [hl] at hg
          exact ndv_getAt rest ((ndv_obj.1 h).2 _ (lookupF_mem hl)) hg
    | list xs =>
      cases seg with
      | key k => simp [PVal.getAt] at hg
      | idx i =>
        simp only [PVal.getAt] at hg
        cases hl : xs[i]? with
        | none => simp [hl] at hg
        | some x =>
          simp only [hl] at hg
          exact ndv_getAt rest (ndv_list.1 h x (List.mem_of_getElem? hl)) hg

theorem range_sum_getElem? (f : Option JVal → Nat) : ∀ (js : List JVal),
    ((List.range js.length).map (fun i => f js[i]?)).sum = (js.map (fun x => f (some x))).sum
  | [] => by simp
  | x :: js => by
    rw [List.length_cons, List.range_succ_eq_map, List.map_cons, List.map_map, List.sum_cons, List.map_cons, List.sum_cons]
    have := range_sum_getElem? f js
    simp only [List.getElem?_cons_zero]
    congr 1

theorem jcontL_eq (js : List JVal) : jcontL js = (js.map (fun x => jcontO (some x))).sum := by
  induction js with
  | nil => rfl
  | cons x xs ih => simp [jcontL, jcontO, ih] at *

section
variable {c : Ctx} {pv : Option Vars} {rank : String → Nat} {F : Nat}

/-- a container of the algorithm's data stands for a container of the response: its potential is its count -/
theorem pot_container {v : PVal} {j j' : JVal} {a : Path} (hsv : SV c pv rank F v j') (hc : v.isContainer = true)
    (hj : jAt j a = some j') : pot j a = jcontO (jAt j a) := by
  rw [pot, hj]
  cases hsv with
  | leaf _ => simp [PVal.isContainer] at hc
  | deferred _ => simp [PVal.isContainer] at hc
  | obj _ => simp only [kidsO, jcontO, jcont]; omega
  | list _ => simp only [kidsO, jcontO, jcont]; omega

/-- what the children of a container can add to the queue -/
theorem children_sum {root cont : PVal} {j : JVal} {p : Path} (hsv : SV c pv rank F root j) (hnd : NDv root)
    (hg : root.getAt p = some cont) :
    ((childSegs cont).map (fun seg => jcontO (jAt j (p ++ [seg])))).sum ≤ kidsO (jAt j p) := by
  obtain ⟨jp, hjp, hsvp⟩ := sv_getAt' p hsv hg
  have hndp := ndv_getAt p hnd hg
  have hrw : ∀ seg, jAt j (p ++ [seg]) = jAt jp [seg] := by
    intro seg; rw [jAt_append, hjp]; rfl
  simp only [hrw, hjp]
  cases hsvp with
  | leaf _ => simp [childSegs]
  | deferred _ => simp [childSegs]
  | @obj fs gs hfs =>
    simp only [childSegs, List.map_map, kidsO]
    have hpt : ∀ k, ((fun seg => jcontO (jAt (JVal.obj gs) [seg])) ∘ PathSeg.key) k = lookG jcont gs k := by
      intro k
      simp only [Function.comp, jAt, lookG]
      cases JVal.lookup gs k with
      | none => simp [jcontO]
      | some x => simp [jcontO]
    rw [List.map_congr_left (fun k _ => hpt k)]
    have hkeys := svf_keys hfs
    have hnodup : (gs.map (·.1)).Nodup := by rw [← hkeys]; exact (ndv_obj.1 hndp).1
    have h1 : sumLook jcont gs (sortedKeys fs) = sumLook jcont gs (gs.map (·.1)) := by
      rw [← hkeys]; exact sumLook_perm jcont gs (sortedKeys_perm fs)
    have h2 := sumLook_self jcont hnodup
    have h3 := jcontF_eq gs
    show sumLook jcont gs (sortedKeys fs) ≤ jcontF gs
    omega
  | @list xs js hxs =>
    simp only [childSegs, List.map_map, kidsO]
    have hpt : ∀ i, ((fun seg => jcontO (jAt (JVal.list js) [seg])) ∘ PathSeg.idx) i = jcontO js[i]? := by
      intro i
      simp only [Function.comp, jAt]
      cases js[i]? with
      | none => simp [jcontO]
      | some x => simp [jcontO]
    rw [List.map_congr_left (fun i _ => hpt i), svl_length hxs, range_sum_getElem? jcontO js, ← jcontL_eq]
    exact Nat.le_refl _

variable {frc : Closure → MSt → Res PVal × MSt}

/-- one container: never out of fuel; what is appended to the queue is paid for by the children's counts -/
theorem bfsEntries_nf (hf : FrcSV c pv rank F frc) (hn : FrcNF c pv rank F frc) (hfl : FrcFlat frc) (p : Path) (j : JVal) :
    ∀ (segs : List PathSeg) (root : PVal) (q : List Path) (mst : MSt), SV c pv rank F root j → NDv root →
    (bfsEntries frc p segs root q mst).1 ≠ .fuelOut ∧
    ∀ x, (bfsEntries frc p segs root q mst).1 = .ok x → SV c pv rank F x.1 j ∧ NDv x.1 ∧
      ∃ q2, x.2 = q ++ q2 ∧ potQ j q2 ≤ (segs.map (fun seg => jcontO (jAt j (p ++ [seg])))).sum
  | [], root, q, mst, h, hnd => by
    simp only [bfsEntries]
    refine ⟨by simp, fun x hx => ?_⟩
    simp only [Res.ok.injEq] at hx
    subst hx
    exact ⟨h, hnd, [], by simp, by simp [potQ]⟩
  | seg :: rest, root, q, mst, h, hnd => by
    simp only [bfsEntries, List.map_cons, List.sum_cons]
    -- a value that is not a closure (or nothing) at the entry
    have plain : ∀ (v : PVal), root.getAt (p ++ [seg]) = some v →
        (bfsEntries frc p rest root (if v.isContainer then q ++ [p ++ [seg]] else q) mst).1 ≠ .fuelOut ∧
        ∀ x, (bfsEntries frc p rest root (if v.isContainer then q ++ [p ++ [seg]] else q) mst).1 = .ok x →
          SV c pv rank F x.1 j ∧ NDv x.1 ∧ ∃ q2, x.2 = q ++ q2 ∧
            potQ j q2 ≤ jcontO (jAt j (p ++ [seg])) + (rest.map (fun seg => jcontO (jAt j (p ++ [seg])))).sum := by
      intro v hg
      obtain ⟨j', hj', hsv'⟩ := sv_getAt' _ h hg
      have ih := bfsEntries_nf hf hn hfl p j rest root (if v.isContainer then q ++ [p ++ [seg]] else q) mst h hnd
      refine ⟨ih.1, fun x hx => ?_⟩
      obtain ⟨a1, a2, q3, a3, a4⟩ := ih.2 x hx
      refine ⟨a1, a2, ?_⟩
      by_cases hc : v.isContainer = true
      · simp only [hc, if_true] at a3
        refine ⟨[p ++ [seg]] ++ q3, by rw [a3]; simp, ?_⟩
        rw [potQ_append, potQ_cons, pot_container hsv' hc hj']
        simp only [potQ, List.map_nil, List.sum_nil] at a4 ⊢
        omega
      · simp only [hc, Bool.false_eq_true, if_false] at a3
        exact ⟨q3, a3, by omega⟩
    cases hg : root.getAt (p ++ [seg]) with
    | none =>
      simp only
      have ih := bfsEntries_nf hf hn hfl p j rest root q mst h hnd
      refine ⟨ih.1, fun x hx => ?_⟩
      obtain ⟨a1, a2, q3, a3, a4⟩ := ih.2 x hx
      exact ⟨a1, a2, q3, a3, by omega⟩
    | some v =>
      cases v with
      | leaf _ => exact plain _ hg
      | list _ => exact plain _ hg
      | obj _ => exact plain _ hg
      | deferred cl =>
        simp only
        obtain ⟨j', hj', hsv'⟩ := sv_getAt' _ h hg
        have hwit : Wit c pv rank F cl j' := by cases hsv' with | deferred hw => exact hw
        have ha : ∀ j'', SV c pv rank F (.deferred cl) j'' → SVRes (SV c pv rank F) (frc cl mst).1 j'' := by
          intro j'' hj''
          cases hj'' with
          | deferred hw => exact hf cl j'' mst hw
        have hb := hn cl j' mst hwit
        have hc := hfl cl mst
        generalize frc cl mst = z at ha hb hc ⊢
        obtain ⟨r1, mst1⟩ := z
        cases r1 with
        | fail => simp
        | fuelOut => exact absurd rfl hb
        | ok v =>
          simp only
          have hroot2 : SV c pv rank F (root.setAt (p ++ [seg]) v) j := sv_setAt (fun j'' hj'' => ha j'' hj'') _ h hg
          have hnd2 : NDv (root.setAt (p ++ [seg]) v) := ndv_setAt _ hnd (hc v rfl).1
          have hsvv : SV c pv rank F v j' := ha j' hsv'
          have ih := bfsEntries_nf hf hn hfl p j rest (root.setAt (p ++ [seg]) v)
            (if v.isContainer then q ++ [p ++ [seg]] else q) mst1 hroot2 hnd2
          refine ⟨ih.1, fun x hx => ?_⟩
          obtain ⟨a1, a2, q3, a3, a4⟩ := ih.2 x hx
          refine ⟨a1, a2, ?_⟩
          by_cases hcv : v.isContainer = true
          · simp only [hcv, if_true] at a3
            refine ⟨[p ++ [seg]] ++ q3, by rw [a3]; simp, ?_⟩
            rw [potQ_append, potQ_cons, pot_container hsvv hcv hj']
            simp only [potQ, List.map_nil, List.sum_nil] at a4 ⊢
            omega
          · simp only [hcv, Bool.false_eq_true, if_false] at a3
            exact ⟨q3, a3, by omega⟩

/-- **the breadth-first pass never runs out of fuel** when the fuel exceeds the potential of the queue -/
theorem bfsLoop_nf (hf : FrcSV c pv rank F frc) (hn : FrcNF c pv rank F frc) (hfl : FrcFlat frc) (j : JVal) :
    ∀ (n : Nat) (root : PVal) (q : List Path) (mst : MSt), SV c pv rank F root j → NDv root → potQ j q + 1 ≤ n →
    (bfsLoop frc n root q mst).1 ≠ .fuelOut
  | 0, root, q, mst, _, _, hb => by omega
  | n + 1, root, [], mst, _, _, _ => by simp [bfsLoop]
  | n + 1, root, p :: q, mst, h, hnd, hb => by
    simp only [bfsLoop]
    rw [potQ_cons] at hb
    cases hg : root.getAt p with
    | none =>
      simp only
      exact bfsLoop_nf hf hn hfl j n root q mst h hnd (by simp only [pot] at hb; omega)
    | some cont =>
      simp only
      have he := bfsEntries_nf hf hn hfl p j (childSegs cont) root q mst h hnd
      have hs := children_sum h hnd hg
      generalize bfsEntries frc p (childSegs cont) root q mst = z at he ⊢
      obtain ⟨r1, mst1⟩ := z
      cases r1 with
      | ok x =>
        obtain ⟨root', q'⟩ := x
        obtain ⟨a1, a2, q2, a3, a4⟩ := he.2 _ rfl
        simp only at a3
        subst a3
        simp only
        exact bfsLoop_nf hf hn hfl j n root' _ mst1 a1 a2 (by rw [potQ_append]; simp only [pot] at hb; omega)
      | fail => simp
      | fuelOut => exact absurd rfl he.1

end

end GqlModel.Plan
