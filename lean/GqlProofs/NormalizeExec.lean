import GqlProofs.NormalizeRel
/-! C06 (normaliser), piece 2 of the end-to-end proof: a simulation over the executor model. Two executions that differ
only in (a) the variable map (`vars` / `vars'`) and (b) selections related by `RSet` collect related groups and produce
the same result, errors and invocation log. -/
set_option linter.unusedSimpArgs false
set_option linter.unusedVariables false
set_option linter.unusedSectionVars false
namespace GqlModel.Normalize
open GqlModel GqlModel.Coerce GqlModel.Exec

/-! ## pointwise relation on lists -/

def All2 {α β : Type} (R : α → β → Prop) : List α → List β → Prop
  | [], [] => True
  | a :: as, b :: bs => R a b ∧ All2 R as bs
  | _, _ => False

theorem All2.length_eq {α β : Type} {R : α → β → Prop} : ∀ {as : List α} {bs : List β}, All2 R as bs → as.length = bs.length
  | [], [], _ => rfl
  | _ :: as, _ :: bs, h => by simp [All2.length_eq h.2]
  | [], _ :: _, h => by cases h
  | _ :: _, [], h => by cases h

theorem All2.append {α β : Type} {R : α → β → Prop} : ∀ {as : List α} {bs : List β} {cs : List α} {ds : List β},
    All2 R as bs → All2 R cs ds → All2 R (as ++ cs) (bs ++ ds)
  | [], [], _, _, _, h => h
  | _ :: as, _ :: bs, _, _, h1, h2 => ⟨h1.1, All2.append h1.2 h2⟩
  | [], _ :: _, _, _, h, _ => by cases h
  | _ :: _, [], _, _, h, _ => by cases h

section Sim
variable (c : Ctx) (vars' : Vars) (frags' : List (String × Definition))

/-- the second executing context: same schema and world, other variable map, other (related) fragment table -/
def ctx' : Ctx := { c with vars := vars', frags := frags' }

/-- the relations of `NormalizeRel` instantiated at the two contexts -/
abbrev RS := RSel c.schema c.vars vars'
abbrev RO := ROpt c.schema c.vars vars'
abbrev RT := RSet c.schema c.vars vars'
abbrev RL := RList c.schema c.vars vars'

/-- a field node and its counterpart: same alias and name (locations may differ); arguments that evaluate alike for the field
definition at runtime type `rt`; sub-selections related at the type the sub-selection will be executed at -/
def NodeRel (rt : String) (n n' : FieldNode) : Prop :=
  n'.alias = n.alias ∧ n'.name = n.name ∧
  ∀ fd, fieldDef? c.schema rt n.name = some fd →
    getArgumentValues c.schema fd.args n'.args vars' = getArgumentValues c.schema fd.args n.args c.vars ∧
    ∀ T, (c.schema.isObject fd.type.namedName = true → T = fd.type.namedName) → RO c vars' T n.sel n'.sel

def GRel (rt : String) (g g' : Groups) : Prop :=
  All2 (fun p p' => p'.1 = p.1 ∧ All2 (NodeRel c vars' rt) p.2 p'.2) g g'

theorem nodeRel_key {rt : String} {n n' : FieldNode} (h : NodeRel c vars' rt n n') : n'.key = n.key := by
  unfold FieldNode.key; rw [h.1, h.2.1]

theorem GRel.any_key {rt : String} : ∀ {g g' : Groups}, GRel c vars' rt g g' → ∀ k : String,
    g'.any (fun p => p.1 == k) = g.any (fun p => p.1 == k)
  | [], [], _, _ => rfl
  | _ :: g, _ :: g', h, k => by
    simp only [List.any_cons, h.1.1, GRel.any_key (g := g) (g' := g') h.2 k]
  | [], _ :: _, h, _ => by cases h
  | _ :: _, [], h, _ => by cases h

theorem GRel.add {rt : String} {g g' : Groups} {n n' : FieldNode} (hg : GRel c vars' rt g g')
    (hn : NodeRel c vars' rt n n') : GRel c vars' rt (g.add n) (g'.add n') := by
  unfold Groups.add
  rw [nodeRel_key c vars' hn, GRel.any_key c vars' hg]
  split
  · -- extend the existing group
    rename_i hany
    clear hany
    induction g generalizing g' with
    | nil => cases g' with
      | nil => trivial
      | cons _ _ => cases hg
    | cons p ps ih =>
      cases g' with
      | nil => cases hg
      | cons p' ps' =>
        obtain ⟨⟨hk, hnodes⟩, hrest⟩ := hg
        refine ⟨?_, ih hrest⟩
        simp only [hk]
        split
        · exact ⟨rfl, All2.append hnodes ⟨hn, trivial⟩⟩
        · exact ⟨hk, hnodes⟩
  · exact All2.append hg ⟨⟨rfl, hn, trivial⟩, trivial⟩

/-! ## CollectFields -/

/-- the two fragment tables define the same names, with type conditions that apply alike and bodies related at every
runtime type (for the normaliser: the same table, whose bodies only mention variables on which the maps agree; for
`stripLoc`: the table of the location-free document) -/
def FragsRel : Prop :=
  ∀ n, (c.frag? n = none ∧ (ctx' c vars' frags').frag? n = none) ∨
    ∃ tc sel tc' sel', c.frag? n = some (tc, sel) ∧ (ctx' c vars' frags').frag? n = some (tc', sel') ∧
      (∀ rt, condApplies c.schema (some tc') rt = condApplies c.schema (some tc) rt) ∧
      ∀ rt, RT c vars' rt sel sel'

/-- the normaliser's case: the SAME fragment table, whose bodies only mention variables on which the maps agree -/
theorem fragsRel_same (h : ∀ n tc sel, c.frag? n = some (tc, sel) → ∀ v ∈ setVars sel, Ag c.vars vars' v) :
    FragsRel c vars' c.frags := by
  intro n
  have hsame : (ctx' c vars' c.frags).frag? n = c.frag? n := rfl
  cases hf : c.frag? n with
  | none => exact Or.inl ⟨rfl, by rw [hsame, hf]⟩
  | some p =>
    obtain ⟨tc, sel⟩ := p
    exact Or.inr ⟨tc, sel, tc, sel, rfl, by rw [hsame, hf], fun _ => rfl,
      fun rt => RSet_refl c.schema c.vars vars' sel rt (h n tc sel hf)⟩

abbrev Expand := String → Groups × List String → Groups × List String

/-- two expanders that preserve the group relation and agree on the visited set -/
def ExpandSim (rt : String) (e e' : Expand) : Prop :=
  ∀ n g g' vis, GRel c vars' rt g g' →
    GRel c vars' rt (e n (g, vis)).1 (e' n (g', vis)).1 ∧ (e' n (g', vis)).2 = (e n (g, vis)).2

mutual
theorem collectSel_sim (rt : String) (e e' : Expand) (he : ExpandSim c vars' rt e e') :
    ∀ (x x' : Selection) (g g' : Groups) (vis : List String), RS c vars' rt x x' → GRel c vars' rt g g' →
      GRel c vars' rt (collectSel c rt e x (g, vis)).1 (collectSel (ctx' c vars' frags') rt e' x' (g', vis)).1 ∧
      (collectSel (ctx' c vars' frags') rt e' x' (g', vis)).2 = (collectSel c rt e x (g, vis)).2
  | .field al nm args dirs sel loc, x', g, g', vis, hr, hg => by
    simp only [RSel] at hr
    obtain ⟨al', nm', args', dirs', sel', loc', rfl, hal, hnm, hinc, hfd⟩ := hr
    simp only [collectSel, ctx', hinc]
    split
    · refine ⟨GRel.add c vars' hg ⟨hal, hnm, hfd⟩, ?_⟩
      first | rfl | trivial
    · first | exact ⟨hg, rfl⟩ | exact ⟨hg, trivial⟩
  | .inline tc dirs ss loc, x', g, g', vis, hr, hg => by
    simp only [RSel] at hr
    obtain ⟨tc', dirs', ss', loc', rfl, htc, hinc, hss⟩ := hr
    simp only [collectSel, ctx', hinc, htc]
    by_cases hcond : (included c.schema c.vars dirs && condApplies c.schema tc rt) = true
    · simp only [hcond, if_true]
      have hca : condApplies c.schema tc rt = true := by
        simp only [Bool.and_eq_true] at hcond; exact hcond.2
      exact collectSet_sim rt e e' he ss ss' g g' vis (hss hca) hg
    · simp only [hcond, Bool.false_eq_true, if_false]
      first | exact ⟨hg, rfl⟩ | exact ⟨hg, trivial⟩
  | .spread n d l, x', g, g', vis, hr, hg => by
    simp only [RSel] at hr
    obtain ⟨n', d', l', rfl, hn, hinc⟩ := hr
    simp only [collectSel, ctx', hinc, hn]
    split
    · exact he n.value g g' vis hg
    · first | exact ⟨hg, rfl⟩ | exact ⟨hg, trivial⟩
theorem collectSet_sim (rt : String) (e e' : Expand) (he : ExpandSim c vars' rt e e') :
    ∀ (x x' : SelectionSet) (g g' : Groups) (vis : List String), RT c vars' rt x x' → GRel c vars' rt g g' →
      GRel c vars' rt (collectSet c rt e x (g, vis)).1 (collectSet (ctx' c vars' frags') rt e' x' (g', vis)).1 ∧
      (collectSet (ctx' c vars' frags') rt e' x' (g', vis)).2 = (collectSet c rt e x (g, vis)).2
  | .mk sels loc, x', g, g', vis, hr, hg => by
    simp only [RSet] at hr
    obtain ⟨sels', loc', rfl, hl⟩ := hr
    simp only [collectSet]
    exact collectList_sim rt e e' he sels sels' g g' vis hl hg
theorem collectList_sim (rt : String) (e e' : Expand) (he : ExpandSim c vars' rt e e') :
    ∀ (xs xs' : List Selection) (g g' : Groups) (vis : List String), RL c vars' rt xs xs' → GRel c vars' rt g g' →
      GRel c vars' rt (collectList c rt e xs (g, vis)).1 (collectList (ctx' c vars' frags') rt e' xs' (g', vis)).1 ∧
      (collectList (ctx' c vars' frags') rt e' xs' (g', vis)).2 = (collectList c rt e xs (g, vis)).2
  | [], xs', g, g', vis, hr, hg => by
    simp only [RList] at hr
    subst hr
    simp only [collectList]
    first | (first | exact ⟨hg, rfl⟩ | exact ⟨hg, trivial⟩) | exact ⟨hg, trivial⟩
  | x :: xs, xs', g, g', vis, hr, hg => by
    simp only [RList] at hr
    obtain ⟨x', xs'', rfl, hx, hxs⟩ := hr
    simp only [collectList]
    obtain ⟨h1, h2⟩ := collectSel_sim rt e e' he x x' g g' vis hx hg
    have := collectList_sim rt e e' he xs xs'' (collectSel c rt e x (g, vis)).1
      (collectSel (ctx' c vars' frags') rt e' x' (g', vis)).1 (collectSel c rt e x (g, vis)).2 hxs h1
    have e1 : collectSel c rt e x (g, vis) = ((collectSel c rt e x (g, vis)).1, (collectSel c rt e x (g, vis)).2) := rfl
    have e2 : collectSel (ctx' c vars' frags') rt e' x' (g', vis) =
        ((collectSel (ctx' c vars' frags') rt e' x' (g', vis)).1, (collectSel c rt e x (g, vis)).2) := by
      rw [← h2]
    rw [e2, e1]
    exact this
end

theorem expandSpread_sim (hf : FragsRel c vars' frags') (rt : String) : ∀ fuel : Nat,
    ExpandSim c vars' rt (expandSpread c rt fuel) (expandSpread (ctx' c vars' frags') rt fuel)
  | 0 => by
    intro n g g' vis hg
    simp only [expandSpread]
    (first | exact ⟨hg, rfl⟩ | exact ⟨hg, trivial⟩)
  | fuel + 1 => by
    intro n g g' vis hg
    simp only [expandSpread]
    by_cases hv : vis.contains n = true
    · simp only [hv, if_true]; (first | exact ⟨hg, rfl⟩ | exact ⟨hg, trivial⟩)
    · simp only [hv, Bool.false_eq_true, if_false]
      rcases hf n with ⟨h1, h2⟩ | ⟨tc, sel, tc', sel', h1, h2, htc, hrel⟩
      · rw [h1, h2]; (first | exact ⟨hg, rfl⟩ | exact ⟨hg, trivial⟩)
      · rw [h1, h2]
        simp only []
        have hcs : (ctx' c vars' frags').schema = c.schema := rfl
        rw [hcs, htc rt]
        by_cases hc : condApplies c.schema (some tc) rt = true
        · simp only [hc, if_true]
          exact collectSet_sim c vars' frags' rt _ _ (expandSpread_sim hf rt fuel) sel sel' g g' (n :: vis) (hrel rt) hg
        · simp only [hc, Bool.false_eq_true, if_false]; (first | exact ⟨hg, rfl⟩ | exact ⟨hg, trivial⟩)

theorem collect_sim (hf : FragsRel c vars' frags') (hlen : frags'.length = c.frags.length) (rt : String) (x x' : SelectionSet) (g g' : Groups) (vis : List String)
    (hr : RT c vars' rt x x') (hg : GRel c vars' rt g g') :
    GRel c vars' rt (collect c rt x (g, vis)).1 (collect (ctx' c vars' frags') rt x' (g', vis)).1 ∧
    (collect (ctx' c vars' frags') rt x' (g', vis)).2 = (collect c rt x (g, vis)).2 := by
  unfold collect
  have : (ctx' c vars' frags').fragFuel = c.fragFuel := by
    simp only [Ctx.fragFuel, ctx', hlen]
  rw [this]
  exact collectSet_sim c vars' frags' rt _ _ (expandSpread_sim c vars' frags' hf rt c.fragFuel) x x' g g' vis hr hg

theorem collectMerged_sim (hf : FragsRel c vars' frags') (hlen : frags'.length = c.frags.length) (ot : String) : ∀ (nodes nodes' : List FieldNode),
    All2 (fun n n' => RO c vars' ot n.sel n'.sel) nodes nodes' →
    GRel c vars' ot (collectMerged c ot nodes) (collectMerged (ctx' c vars' frags') ot nodes') := by
  intro nodes nodes' h
  unfold collectMerged
  have key : ∀ (nodes nodes' : List FieldNode) (g g' : Groups) (vis : List String),
      All2 (fun n n' => RO c vars' ot n.sel n'.sel) nodes nodes' → GRel c vars' ot g g' →
      GRel c vars' ot
        (nodes.foldl (fun acc n => match n.sel with | some sel => collect c ot sel acc | none => acc) (g, vis)).1
        (nodes'.foldl (fun acc n => match n.sel with | some sel => collect (ctx' c vars' frags') ot sel acc | none => acc) (g', vis)).1 := by
    intro nodes
    induction nodes with
    | nil =>
      intro nodes' g g' vis h hg
      cases nodes' with
      | nil => exact hg
      | cons _ _ => cases h
    | cons n ns ih =>
      intro nodes' g g' vis h hg
      cases nodes' with
      | nil => cases h
      | cons n' ns' =>
        obtain ⟨hn, hns⟩ := h
        simp only [List.foldl_cons]
        cases hs : n.sel with
        | none =>
          rw [hs] at hn
          simp only [ROpt] at hn
          rw [hn]
          exact ih ns' g g' vis hns hg
        | some sel =>
          rw [hs] at hn
          simp only [ROpt] at hn
          obtain ⟨sel', hs', hrel⟩ := hn
          rw [hs']
          simp only []
          obtain ⟨h1, h2⟩ := collect_sim c vars' frags' hf hlen ot sel sel' g g' vis hrel hg
          have e1 : collect c ot sel (g, vis) = ((collect c ot sel (g, vis)).1, (collect c ot sel (g, vis)).2) := rfl
          have e2 : collect (ctx' c vars' frags') ot sel' (g', vis) =
              ((collect (ctx' c vars' frags') ot sel' (g', vis)).1, (collect c ot sel (g, vis)).2) := by rw [← h2]
          rw [e2, e1]
          exact ih ns' _ _ _ hns h1
  exact key nodes nodes' [] [] [] h trivial

/-! ## the premise the executor model needs in place of validation: merged groups have one field name -/

def Uniform (nodes : List FieldNode) : Prop := ∀ h, nodes.head? = some h → ∀ n ∈ nodes, n.name = h.name

/-- hereditary uniformity to nesting depth `k`, for the ORIGINAL request. The runtime types `ot` at which a merged
sub-selection is examined are those the executor can reach: the field's own type when it is an object type, a POSSIBLE
object type of it when it is abstract (the executor checks `isObject ot && isPossibleType N ot` before descending). -/
def HU : Nat → String → Groups → Prop
  | 0, _, _ => True
  | k + 1, rt, g => ∀ p ∈ g, Uniform p.2 ∧
      ∀ h fd, p.2.head? = some h → fieldDef? c.schema rt h.name = some fd →
        ∀ ot, (c.schema.isObject fd.type.namedName = true → ot = fd.type.namedName) →
          (c.schema.isAbstract fd.type.namedName = true →
            c.schema.isObject ot = true ∧ c.schema.isPossibleType fd.type.namedName ot = true) →
          HU k ot (collectMerged c ot p.2)

def HUAll (rt : String) (g : Groups) : Prop := ∀ k, HU c k rt g

def HSub (N : String) (nodes : List FieldNode) : Prop :=
  ∀ ot, (c.schema.isObject N = true → ot = N) →
    (c.schema.isAbstract N = true → c.schema.isObject ot = true ∧ c.schema.isPossibleType N ot = true) →
    HUAll c ot (collectMerged c ot nodes)

def SubRel (N : String) (nodes nodes' : List FieldNode) : Prop :=
  All2 (fun n n' => ∀ T, (c.schema.isObject N = true → T = N) → RO c vars' T n.sel n'.sel) nodes nodes'

theorem HUAll.tail {rt : String} {p : String × List FieldNode} {g : Groups} (h : HUAll c rt (p :: g)) : HUAll c rt g := by
  intro k
  cases k with
  | zero => trivial
  | succ k => intro q hq; exact (h (k + 1)) q (List.mem_cons_of_mem _ hq)

theorem HUAll.head {rt : String} {p : String × List FieldNode} {g : Groups} (h : HUAll c rt (p :: g)) :
    Uniform p.2 ∧ ∀ hd fd, p.2.head? = some hd → fieldDef? c.schema rt hd.name = some fd → HSub c fd.type.namedName p.2 := by
  refine ⟨((h 1) p List.mem_cons_self).1, fun hd fd hh hfd ot hot hab k => ?_⟩
  exact ((h (k + 1)) p List.mem_cons_self).2 hd fd hh hfd ot hot hab

theorem subRel_of_nodeRel {rt : String} {fd : FieldDefS} : ∀ {nodes nodes' : List FieldNode},
    All2 (NodeRel c vars' rt) nodes nodes' → (∀ n ∈ nodes, fieldDef? c.schema rt n.name = some fd) →
    SubRel c vars' fd.type.namedName nodes nodes'
  | [], [], _, _ => trivial
  | n :: ns, n' :: ns', h, hfd => by
    refine ⟨fun T hT => (h.1.2.2 fd (hfd n List.mem_cons_self)).2 T hT, ?_⟩
    exact subRel_of_nodeRel h.2 (fun m hm => hfd m (List.mem_cons_of_mem _ hm))
  | [], _ :: _, h, _ => by cases h
  | _ :: _, [], h, _ => by cases h

theorem subRel_at {N ot : String} (hot : c.schema.isObject N = true → ot = N) : ∀ {nodes nodes' : List FieldNode},
    SubRel c vars' N nodes nodes' → All2 (fun n n' => RO c vars' ot n.sel n'.sel) nodes nodes'
  | [], [], _ => trivial
  | _ :: _, _ :: _, h => ⟨h.1 ot hot, subRel_at hot h.2⟩
  | [], _ :: _, h => by cases h
  | _ :: _, [], h => by cases h

end Sim

/-! ## one-step unfoldings of the executor -/

section Unfold
variable (c : Ctx)

def plain : GoVal → Bool
  | .thunk _ => false
  | .badFunc => false
  | _ => true

theorem complete_zero (dfr : Bool) (t : GType) (rt fname : String) (nodes : List FieldNode) (p : Path) (v : GoVal) (st : St) :
    complete c 0 dfr t rt fname nodes p v st = (.fuelOut, st) := by
  rw [complete.eq_def] <;> rfl

theorem complete_thunk_err (fuel : Nat) (dfr : Bool) (t : GType) (rt fname : String) (nodes : List FieldNode) (p : Path) (st : St) :
    complete c (fuel + 1) dfr t rt fname nodes p (.thunk .err) st =
      (.fail, { addErr st p true with kfThunk := if t.isNonNull then p :: st.kfThunk else st.kfThunk }) := by
  rw [complete.eq_def] <;> rfl

theorem complete_thunk_ok (fuel : Nat) (dfr : Bool) (t : GType) (rt fname : String) (nodes : List FieldNode) (p : Path)
    (v' : GoVal) (st : St) :
    complete c (fuel + 1) dfr t rt fname nodes p (.thunk (.ok v')) st =
      (match complete c fuel true t rt fname nodes p v' st with
       | (.fail, st') => (.fail, { st' with kfThunk := if t.isNonNull then p :: st'.kfThunk else st'.kfThunk })
       | r => r) := by
  rw [complete.eq_def] <;> rfl

theorem complete_badFunc (fuel : Nat) (dfr : Bool) (t : GType) (rt fname : String) (nodes : List FieldNode) (p : Path) (st : St) :
    complete c (fuel + 1) dfr t rt fname nodes p .badFunc st =
      (.fail, { addErr st p true with kfThunk := if t.isNonNull then p :: st.kfThunk else st.kfThunk }) := by
  rw [complete.eq_def] <;> rfl

theorem complete_nonNull (fuel : Nat) (dfr : Bool) (inner : GType) (rt fname : String) (nodes : List FieldNode) (p : Path)
    (v : GoVal) (st : St) (h : plain v = true) :
    complete c (fuel + 1) dfr (.nonNull inner) rt fname nodes p v st =
      (match complete c fuel dfr inner rt fname nodes p v st with
       | (.ok .null, st) => (.fail, addErr st p dfr)
       | r => r) := by
  cases v <;> simp [plain] at h <;> (rw [complete.eq_def] <;> rfl)

theorem complete_list (fuel : Nat) (dfr : Bool) (item : GType) (rt fname : String) (nodes : List FieldNode) (p : Path)
    (v : GoVal) (st : St) (h : plain v = true) :
    complete c (fuel + 1) dfr (.list item) rt fname nodes p v st =
      (if v.nullish then (.ok .null, st) else
        match v with
        | .list xs =>
          (match completeItems c fuel dfr item rt fname nodes p xs 0 [] st with
           | (.ok js, st) => (.ok (.list js), st)
           | (.fail, st) => (.fail, st)
           | (.fuelOut, st) => (.fuelOut, st))
        | _ => (.fail, addErr st p dfr)) := by
  cases v <;> simp [plain] at h <;> (rw [complete.eq_def] <;> rfl)

theorem complete_named (fuel : Nat) (dfr : Bool) (n : String) (rt fname : String) (nodes : List FieldNode) (p : Path)
    (v : GoVal) (st : St) (h : plain v = true) :
    complete c (fuel + 1) dfr (.named n) rt fname nodes p v st =
      (if v.nullish then (.ok .null, st) else
      if c.schema.isLeaf n then
        (match serializeLeaf c.schema n v with
        | some j => (.ok j, st)
        | none => (.fail, addErr st p dfr))
      else if c.schema.isAbstract n then
        (match runtimeTypeOf c n v with
        | none => (.fail, addErr st p dfr)
        | some ot =>
          if !(c.schema.isObject ot && c.schema.isPossibleType n ot) then (.fail, addErr st p dfr) else
          match execGroups c fuel dfr ot v p (collectMerged c ot nodes) [] st with
          | (.ok fs, st) => (.ok (.obj fs), st)
          | (.fail, st) => (.fail, st)
          | (.fuelOut, st) => (.fuelOut, st))
      else if c.schema.isObject n then
        if objectHasIsTypeOf c.schema n && !c.world.isTypeOfAns n v then (.fail, addErr st p dfr) else
        (match execGroups c fuel dfr n v p (collectMerged c n nodes) [] st with
        | (.ok fs, st) => (.ok (.obj fs), st)
        | (.fail, st) => (.fail, st)
        | (.fuelOut, st) => (.fuelOut, st))
      else (.fail, addErr st p dfr)) := by
  cases v <;> simp [plain] at h <;> (rw [complete.eq_def] <;> rfl)

theorem execGroups_zero (dfr : Bool) (rt : String) (src : GoVal) (path : Path) (g : Groups) (acc : List (String × JVal)) (st : St) :
    execGroups c 0 dfr rt src path g acc st = (.fuelOut, st) := by
  rw [execGroups.eq_def] <;> rfl

theorem execGroups_nil (fuel : Nat) (dfr : Bool) (rt : String) (src : GoVal) (path : Path) (acc : List (String × JVal)) (st : St) :
    execGroups c (fuel + 1) dfr rt src path [] acc st = (.ok acc, st) := by
  rw [execGroups.eq_def] <;> rfl

theorem execGroups_cons (fuel : Nat) (dfr : Bool) (rt : String) (src : GoVal) (path : Path) (key : String) (nodes : List FieldNode)
    (rest : Groups) (acc : List (String × JVal)) (st : St) :
    execGroups c (fuel + 1) dfr rt src path ((key, nodes) :: rest) acc st =
      (match nodes.head? with
      | none => execGroups c fuel dfr rt src path rest acc st
      | some node =>
        match fieldDef? c.schema rt node.name with
        | none => execGroups c fuel dfr rt src path rest acc st
        | some fd =>
          match execField c fuel dfr rt src (path ++ [.key key]) fd nodes st with
          | (.ok v, st) => execGroups c fuel dfr rt src path rest (acc ++ [(key, v)]) st
          | (.fail, st) => (.fail, st)
          | (.fuelOut, st) => (.fuelOut, st)) := by
  rw [execGroups.eq_def] <;> rfl

theorem execField_zero (dfr : Bool) (rt : String) (src : GoVal) (p : Path) (fd : FieldDefS) (nodes : List FieldNode) (st : St) :
    execField c 0 dfr rt src p fd nodes st = (.fuelOut, st) := by
  rw [execField.eq_def] <;> rfl

theorem completeItems_zero (dfr : Bool) (item : GType) (rt fname : String) (nodes : List FieldNode) (p : Path)
    (xs : List GoVal) (i : Nat) (acc : List JVal) (st : St) :
    completeItems c 0 dfr item rt fname nodes p xs i acc st = (.fuelOut, st) := by
  rw [completeItems.eq_def] <;> rfl

theorem completeItems_nil (fuel : Nat) (dfr : Bool) (item : GType) (rt fname : String) (nodes : List FieldNode) (p : Path)
    (i : Nat) (acc : List JVal) (st : St) :
    completeItems c (fuel + 1) dfr item rt fname nodes p [] i acc st = (.ok acc, st) := by
  rw [completeItems.eq_def] <;> rfl

theorem completeItems_cons (fuel : Nat) (dfr : Bool) (item : GType) (rt fname : String) (nodes : List FieldNode) (p : Path)
    (x : GoVal) (xs : List GoVal) (i : Nat) (acc : List JVal) (st : St) :
    completeItems c (fuel + 1) dfr item rt fname nodes p (x :: xs) i acc st =
      (match complete c fuel dfr item rt fname nodes (p ++ [.idx i]) x st with
      | (.ok j, st) => completeItems c fuel dfr item rt fname nodes p xs (i + 1) (acc ++ [j]) st
      | (.fail, st) =>
        if item.isNonNull then (.fail, st)
        else completeItems c fuel dfr item rt fname nodes p xs (i + 1) (acc ++ [.null]) st
      | (.fuelOut, st) => (.fuelOut, st)) := by
  rw [completeItems.eq_def] <;> rfl

end Unfold

/-! ## the simulation -/

section Sim2
variable (c : Ctx) (vars' : Vars) (frags' : List (String × Definition))

def fieldArgs (c : Ctx) (fd : FieldDefS) (nodes : List FieldNode) : List (String × JVal) :=
  match nodes.head? with
  | some n => getArgumentValues c.schema fd.args n.args c.vars
  | none => []

def logSt (c : Ctx) (dfr : Bool) (rt : String) (src : GoVal) (p : Path) (fd : FieldDefS) (nodes : List FieldNode) (st : St) : St :=
  { st with log := { path := p, parentType := rt, fieldName := fd.name, args := fieldArgs c fd nodes, source := src,
                     occurrences := nodes.length, deferred := dfr } :: st.log }

def absorbRes (fd : FieldDefS) (st : St) : Res JVal × St :=
  if fd.type.isNonNull then (.fail, st) else (.ok .null, st)

theorem execField_succ (fuel : Nat) (dfr : Bool) (rt : String) (src : GoVal) (p : Path) (fd : FieldDefS)
    (nodes : List FieldNode) (st : St) :
    execField c (fuel + 1) dfr rt src p fd nodes st =
      (if fd.name == "__typename" then (.ok (.str rt), st) else
        match c.world.outcome src fd.name with
        | .fail => absorbRes fd (addErr (logSt c dfr rt src p fd nodes st) p dfr)
        | .value v =>
          match complete c fuel dfr fd.type rt fd.name nodes p v (logSt c dfr rt src p fd nodes st) with
          | (.ok j, st) => (.ok j, st)
          | (.fail, st) => absorbRes fd st
          | (.fuelOut, st) => (.fuelOut, st)) := by
  rw [execField.eq_def] <;> rfl

/-- the four simulation statements at one fuel value -/
def SimAt (fuel : Nat) : Prop :=
  (∀ dfr rt src path g g' acc st, GRel c vars' rt g g' → HUAll c rt g →
    execGroups (ctx' c vars' frags') fuel dfr rt src path g' acc st = execGroups c fuel dfr rt src path g acc st) ∧
  (∀ dfr rt src p fd nodes nodes' st, All2 (NodeRel c vars' rt) nodes nodes' →
    (∀ h, nodes.head? = some h → fieldDef? c.schema rt h.name = some fd) → Uniform nodes → HSub c fd.type.namedName nodes →
    execField (ctx' c vars' frags') fuel dfr rt src p fd nodes' st = execField c fuel dfr rt src p fd nodes st) ∧
  (∀ dfr t rt fname nodes nodes' p v st, SubRel c vars' t.namedName nodes nodes' → HSub c t.namedName nodes →
    complete (ctx' c vars' frags') fuel dfr t rt fname nodes' p v st = complete c fuel dfr t rt fname nodes p v st) ∧
  (∀ dfr item rt fname nodes nodes' p xs i acc st, SubRel c vars' item.namedName nodes nodes' → HSub c item.namedName nodes →
    completeItems (ctx' c vars' frags') fuel dfr item rt fname nodes' p xs i acc st =
      completeItems c fuel dfr item rt fname nodes p xs i acc st)

theorem all2_head {α β : Type} {R : α → β → Prop} : ∀ {as : List α} {bs : List β}, All2 R as bs →
    (as.head? = none ∧ bs.head? = none) ∨ ∃ a b, as.head? = some a ∧ bs.head? = some b ∧ R a b
  | [], [], _ => Or.inl ⟨rfl, rfl⟩
  | a :: _, b :: _, h => Or.inr ⟨a, b, rfl, rfl, h.1⟩
  | [], _ :: _, h => by cases h
  | _ :: _, [], h => by cases h

theorem isObject_of_abstract {s : Schema} {n : String} (h : s.isAbstract n = true) : s.isObject n = false := by
  simp only [Schema.isAbstract, Schema.isInterface, Schema.isUnion, Schema.isObject] at h ⊢
  cases hf : s.find? n with
  | none => simp [hf] at h
  | some td => cases td <;> simp [hf] at h ⊢

theorem sim_step (hf : FragsRel c vars' frags') (hlen : frags'.length = c.frags.length) (fuel : Nat) (ih : SimAt c vars' frags' fuel) : SimAt c vars' frags' (fuel + 1) := by
  obtain ⟨ihG, ihF, ihC, ihI⟩ := ih
  have hschema : (ctx' c vars' frags').schema = c.schema := rfl
  have hworld : (ctx' c vars' frags').world = c.world := rfl
  refine ⟨?_, ?_, ?_, ?_⟩
  · -- execGroups
    intro dfr rt src path g g' acc st hg hu
    cases g with
    | nil =>
      cases g' with
      | nil => rw [execGroups_nil, execGroups_nil]
      | cons _ _ => cases hg
    | cons p0 rest =>
      cases g' with
      | nil => cases hg
      | cons p0' rest' =>
        obtain ⟨key, nodes⟩ := p0
        obtain ⟨key', nodes'⟩ := p0'
        obtain ⟨⟨hk, hnodes⟩, hrest⟩ := hg
        simp only at hk hnodes
        subst hk
        have hurest := HUAll.tail c hu
        obtain ⟨hunif, hsub⟩ := HUAll.head c hu
        rw [execGroups_cons, execGroups_cons, hschema]
        rcases all2_head hnodes with ⟨h1, h2⟩ | ⟨h, h', h1, h2, hrel⟩
        · rw [h1, h2]; exact ihG dfr rt src path rest rest' acc st hrest hurest
        · rw [h1, h2]
          simp only []
          rw [hrel.2.1]
          cases hfd : fieldDef? c.schema rt h.name with
          | none => exact ihG dfr rt src path rest rest' acc st hrest hurest
          | some fd =>
            simp only []
            have hF := ihF dfr rt src (path ++ [.key key']) fd nodes nodes' st hnodes
              (fun h0 hh0 => by rw [h1] at hh0; cases hh0; exact hfd) hunif (hsub h fd h1 hfd)
            rw [hF]
            generalize execField c fuel dfr rt src (path ++ [.key key']) fd nodes st = res
            obtain ⟨r, st1⟩ := res
            cases r with
            | ok v => exact ihG dfr rt src path rest rest' _ st1 hrest hurest
            | fail => rfl
            | fuelOut => rfl
  · -- execField
    intro dfr rt src p fd nodes nodes' st hnodes hhead hunif hsub
    have hargs : fieldArgs (ctx' c vars' frags') fd nodes' = fieldArgs c fd nodes := by
      unfold fieldArgs
      rcases all2_head hnodes with ⟨h1, h2⟩ | ⟨h, h', h1, h2, hrel⟩
      · rw [h1, h2]
      · rw [h1, h2]
        exact (hrel.2.2 fd (hhead h h1)).1
    have hlog : logSt (ctx' c vars' frags') dfr rt src p fd nodes' st = logSt c dfr rt src p fd nodes st := by
      unfold logSt
      rw [hargs, All2.length_eq hnodes]
    have hall : ∀ n ∈ nodes, fieldDef? c.schema rt n.name = some fd := by
      intro n hn
      cases hh : nodes.head? with
      | none => cases nodes with
        | nil => cases hn
        | cons _ _ => cases hh
      | some h => rw [hunif h hh n hn]; exact hhead h hh
    have hsr := subRel_of_nodeRel c vars' hnodes hall
    rw [execField_succ, execField_succ, hworld, hlog]
    by_cases htn : (fd.name == "__typename") = true
    · simp only [htn, if_true]
    · simp only [htn, Bool.false_eq_true, if_false]
      cases c.world.outcome src fd.name with
      | fail => rfl
      | value v =>
        simp only []
        rw [ihC dfr fd.type rt fd.name nodes nodes' p v _ hsr hsub]
  · -- complete
    intro dfr t rt fname nodes nodes' p v st hsr hsub
    by_cases hpl : plain v = true
    · cases t with
      | nonNull inner =>
        rw [complete_nonNull _ _ _ _ _ _ _ _ _ _ hpl, complete_nonNull _ _ _ _ _ _ _ _ _ _ hpl]
        rw [ihC dfr inner rt fname nodes nodes' p v st hsr hsub]
      | list item =>
        rw [complete_list _ _ _ _ _ _ _ _ _ _ hpl, complete_list _ _ _ _ _ _ _ _ _ _ hpl]
        by_cases hn : v.nullish = true
        · simp only [hn, if_true]
        · simp only [hn, Bool.false_eq_true, if_false]
          cases v with
          | list xs =>
            simp only []
            rw [ihI dfr item rt fname nodes nodes' p xs 0 [] st hsr hsub]
          | _ => rfl
      | named n =>
        rw [complete_named _ _ _ _ _ _ _ _ _ _ hpl, complete_named _ _ _ _ _ _ _ _ _ _ hpl, hschema, hworld]
        by_cases hn : v.nullish = true
        · simp only [hn, if_true]
        · simp only [hn, Bool.false_eq_true, if_false]
          by_cases hleaf : c.schema.isLeaf n = true
          · simp only [hleaf, if_true]
          · simp only [hleaf, Bool.false_eq_true, if_false]
            by_cases hab : c.schema.isAbstract n = true
            · simp only [hab, if_true]
              have hrt : runtimeTypeOf (ctx' c vars' frags') n v = runtimeTypeOf c n v := rfl
              rw [hrt]
              cases runtimeTypeOf c n v with
              | none => rfl
              | some ot =>
                simp only []
                by_cases hposs : (!(c.schema.isObject ot && c.schema.isPossibleType n ot)) = true
                · simp only [hposs, if_true]
                · simp only [hposs, Bool.false_eq_true, if_false]
                  have hot : c.schema.isObject n = true → ot = n := by
                    intro ho; rw [isObject_of_abstract hab] at ho; cases ho
                  have hgr := collectMerged_sim c vars' frags' hf hlen ot nodes nodes' (subRel_at c vars' hot hsr)
                  have hpo : c.schema.isObject ot = true ∧ c.schema.isPossibleType n ot = true := by
                    simpa using hposs
                  rw [ihG dfr ot v p _ _ [] st hgr (hsub ot hot (fun _ => hpo))]
            · simp only [hab, Bool.false_eq_true, if_false]
              by_cases hob : c.schema.isObject n = true
              · simp only [hob, if_true]
                by_cases hito : (objectHasIsTypeOf c.schema n && !c.world.isTypeOfAns n v) = true
                · simp only [hito, if_true]
                · simp only [hito, Bool.false_eq_true, if_false]
                  have hot : c.schema.isObject n = true → n = n := fun _ => rfl
                  have hgr := collectMerged_sim c vars' frags' hf hlen n nodes nodes' (subRel_at c vars' hot hsr)
                  rw [ihG dfr n v p _ _ [] st hgr (hsub n hot (fun ha => absurd (show c.schema.isAbstract n = true from ha) hab))]
              · simp only [hob, Bool.false_eq_true, if_false]
    · -- thunk / badFunc
      cases v with
      | thunk r =>
        cases r with
        | err => rw [complete_thunk_err, complete_thunk_err]
        | ok v' =>
          rw [complete_thunk_ok, complete_thunk_ok, ihC true t rt fname nodes nodes' p v' st hsr hsub]
      | badFunc => rw [complete_badFunc, complete_badFunc]
      | _ => simp [plain] at hpl
  · -- completeItems
    intro dfr item rt fname nodes nodes' p xs i acc st hsr hsub
    cases xs with
    | nil => rw [completeItems_nil, completeItems_nil]
    | cons x xs =>
      rw [completeItems_cons, completeItems_cons, ihC dfr item rt fname nodes nodes' (p ++ [PathSeg.idx i]) x st hsr hsub]
      generalize complete c fuel dfr item rt fname nodes (p ++ [PathSeg.idx i]) x st = res
      obtain ⟨r, st1⟩ := res
      cases r with
      | ok j => exact ihI dfr item rt fname nodes nodes' p xs (i + 1) _ st1 hsr hsub
      | fail =>
        simp only []
        by_cases hnn : item.isNonNull = true
        · simp only [hnn, if_true]
        · simp only [hnn, Bool.false_eq_true, if_false]
          exact ihI dfr item rt fname nodes nodes' p xs (i + 1) _ st1 hsr hsub
      | fuelOut => rfl

theorem sim_zero : SimAt c vars' frags' 0 := by
  refine ⟨?_, ?_, ?_, ?_⟩
  · intro dfr rt src path g g' acc st _ _; rw [execGroups_zero, execGroups_zero]
  · intro dfr rt src p fd nodes nodes' st _ _ _ _; rw [execField_zero, execField_zero]
  · intro dfr t rt fname nodes nodes' p v st _ _; rw [complete_zero, complete_zero]
  · intro dfr item rt fname nodes nodes' p xs i acc st _ _; rw [completeItems_zero, completeItems_zero]

/-- **the simulation**: for every fuel -/
theorem sim_all (hf : FragsRel c vars' frags') (hlen : frags'.length = c.frags.length) : ∀ fuel, SimAt c vars' frags' fuel
  | 0 => sim_zero c vars' frags'
  | fuel + 1 => sim_step c vars' frags' hf hlen fuel (sim_all hf hlen fuel)

end Sim2

/-! ## hereditary uniformity transfers along related groups -/

section Transfer
variable (c : Ctx) (vars' : Vars) (frags' : List (String × Definition))

theorem All2.mem_right {α β : Type} {R : α → β → Prop} : ∀ {as : List α} {bs : List β}, All2 R as bs →
    ∀ b ∈ bs, ∃ a ∈ as, R a b
  | [], [], _, b, hb => by cases hb
  | a :: as, b0 :: bs, h, b, hb => by
    rcases List.mem_cons.mp hb with rfl | hb'
    · exact ⟨a, List.mem_cons_self, h.1⟩
    · obtain ⟨a', ha', hr⟩ := All2.mem_right h.2 b hb'
      exact ⟨a', List.mem_cons_of_mem _ ha', hr⟩
  | [], _ :: _, h, _, _ => by cases h
  | _ :: _, [], h, _, _ => by cases h

theorem HU_transfer (hf : FragsRel c vars' frags') (hlen : frags'.length = c.frags.length) :
    ∀ (k : Nat) (rt : String) (g g' : Groups), GRel c vars' rt g g' → HUAll c rt g →
      HU (ctx' c vars' frags') k rt g'
  | 0, _, _, _, _, _ => trivial
  | k + 1, rt, g, g', hg, hu => by
    intro p' hp'
    obtain ⟨p, hp, hkey, hnodes⟩ := All2.mem_right hg p' hp'
    have hU : Uniform p.2 := ((hu 1) p hp).1
    have hschema : (ctx' c vars' frags').schema = c.schema := rfl
    refine ⟨?_, ?_⟩
    · -- names: pairwise equal to the original group's
      intro h' hh' n' hn'
      obtain ⟨n, hn, hrel⟩ := All2.mem_right hnodes n' hn'
      rcases all2_head hnodes with ⟨_, h2⟩ | ⟨h, h0', h1, h2, hrelh⟩
      · rw [h2] at hh'; cases hh'
      · rw [h2] at hh'; cases hh'
        rw [hrel.2.1, hrelh.2.1]
        exact hU h h1 n hn
    · intro h' fd hh' hfd ot hot hab
      rw [hschema] at hfd hot hab
      rcases all2_head hnodes with ⟨_, h2⟩ | ⟨h, h0', h1, h2, hrelh⟩
      · rw [h2] at hh'; cases hh'
      · rw [h2] at hh'; cases hh'
        rw [hrelh.2.1] at hfd
        have hall : ∀ n ∈ p.2, fieldDef? c.schema rt n.name = some fd := by
          intro n hn; rw [hU h h1 n hn]; exact hfd
        have hsr := subRel_of_nodeRel c vars' hnodes hall
        have hgr := collectMerged_sim c vars' frags' hf hlen ot p.2 p'.2 (subRel_at c vars' hot hsr)
        exact HU_transfer hf hlen k ot _ _ hgr
          (fun j => ((hu (j + 1)) p hp).2 h fd h1 hfd ot hot hab)

/-- related groups inherit hereditary uniformity -/
theorem HUAll_transfer (hf : FragsRel c vars' frags') (hlen : frags'.length = c.frags.length) (rt : String) (g g' : Groups)
    (hg : GRel c vars' rt g g') (hu : HUAll c rt g) : HUAll (ctx' c vars' frags') rt g' :=
  fun k => HU_transfer c vars' frags' hf hlen k rt g g' hg hu

end Transfer

end GqlModel.Normalize
