import GqlProofs.PlanFx6
/-! # Effects with deferred values: the roots and the request level -/
namespace GqlModel.Plan
open GqlModel.Exec GqlModel.Coerce

/-- what `execute` and `run` compute for one request, brought to a common form: one context, the algorithm's walk of the root
groups from the empty state, and M's (memo-free) walk of the plan that `ExecutePlan` walks -/
theorem run_setup (s : Schema) (doc : Document) (opName : String) (inputs : Vars) (w : World) (fuel : Nat)
    (d : Option (List (String × JVal))) (errs : List (Path × Bool)) (log : List LogEntry) (kf : List Path)
    (hS : execute s doc opName inputs w fuel = .result d errs log kf) :
    ∃ (c : Ctx) (pv : Option Vars) (q : Plan) (sel : SelectionSet) (rS : Res (List (String × JVal))) (stS : St),
      c.frags = doc.fragments ∧ c.world = w ∧
      execGroups c fuel false q.rootType .nil [] (collect c q.rootType sel ([], [])).1 [] St.empty = (rS, stS) ∧
      errs = stS.errs.reverse ∧ log = stS.log.reverse ∧ kf = stS.kfThunk ∧
      ((∃ fs, rS = .ok fs ∧ d = some fs) ∨ (rS = .fail ∧ d = none)) ∧
      q.root = planSelectionSet c.schema c.frags pv q.rootType sel ∧ Regime pv c.vars (setDynamic sel) ∧ FragsOK c pv ∧
      run s doc opName inputs w fuel =
        MResponse.of (runPlan c (recompute c.schema c.frags pv) q fuel { errs := [], events := [], memo := [] }) := by
  obtain ⟨c, root, sel, rS, stS, hctx, hrun, he, hl, hkf, hdata⟩ := execute_result hS
  unfold requestCtx at hctx
  cases hsel : selectOperation doc opName with
  | error e => simp [hsel] at hctx
  | ok dd =>
    have hmem := selectOperation_mem hsel
    cases dd with
    | operation op name varDefs dirs sel0 loc =>
      simp only [hsel] at hctx
      cases hroot : s.rootFor op.toString with
      | none => simp [hroot] at hctx
      | some root0 =>
        simp only [hroot] at hctx
        cases hvars : getVariableValues s varDefs inputs with
        | error e => simp [hvars] at hctx
        | ok vars =>
          simp only [hvars, Option.some.injEq, Prod.mk.injEq] at hctx
          obtain ⟨rfl, rfl, rfl⟩ := hctx
          have hp : planQuery s doc opName = .ok
              (Plan.mk s varDefs sel0 doc.fragments root0 (op == .mutation) (docDynamic doc) none
                (if docDynamic doc then [] else planSelectionSet s doc.fragments none root0 sel0)) := by
            unfold planQuery; rw [hsel]; simp only [hroot]
          have hrunM := run_eq_ref s doc opName inputs w fuel _ hp
          rw [hrunM]
          unfold executePlanRef
          simp only [hvars, rootGroups] at hrun ⊢
          by_cases hd : docDynamic doc = true
          · simp only [hd, if_true]
            exact ⟨{ schema := s, frags := doc.fragments, vars := vars, world := w }, some vars,
              Plan.specialise (Plan.mk s varDefs sel0 doc.fragments root0 (op == .mutation) true none []) vars, sel0, rS, stS,
              rfl, rfl, hrun, he, hl, hkf, hdata, rfl, .inl rfl, fun _ _ _ _ => .inl rfl, rfl⟩
          · have hd' : docDynamic doc = false := by simpa using hd
            simp only [hd', Bool.false_eq_true, if_false]
            exact ⟨{ schema := s, frags := doc.fragments, vars := vars, world := w }, none,
              Plan.mk s varDefs sel0 doc.fragments root0 (op == .mutation) false none (planSelectionSet s doc.fragments none root0 sel0),
              sel0, rS, stS, rfl, rfl, hrun, he, hl, hkf, hdata, rfl, .inr ⟨rfl, static_of_docDynamic_op hd' hmem⟩,
              fun n tc body hf => .inr ⟨rfl, static_of_docDynamic_frag hd' hf⟩, rfl⟩
    | _ => simp [hsel] at hctx

section roots
variable {c : Ctx} {pv : Option Vars} {rank : String → Nat} {F : Nat}

local notation "alt0" => recompute c.schema c.frags pv

/-- the effects of a root walk of M against the algorithm's: the algorithm's are M's plus dropped ones, and outside deferred
values they coincide in order -/
def RootFx (st stS : St) (mst : MSt) (out : Res (List (String × PVal)) × MSt) : Prop :=
  out.1 = .fuelOut ∨
  ∃ dS dM D, stS = St.app dS st ∧ MExt mst out.2 dM ∧ Fx.Perm (fxS dS) (dM.app D) ∧ (fxS dS).nd = dM.nd

/-- what a dethunk pass records is flagged `deferred` -/
theorem allDf_of_pend {P dM Pout D : Fx} (hP : P.AllDf) (h : Fx.Perm P (dM.app (Pout.app D))) : dM.AllDf :=
  (Fx.AllDf.of_perm h.symm hP).left

theorem mRootMut_fx (hac : Acyclic c.frags rank) (hfr : FragsOK c pv) (rt : String) :
    ∀ (fuel : Nat), fuel ≤ F → ∀ (fps : List FieldPlan) (accS : List (String × JVal)) (acc : List (String × PVal))
    (st : St) (mst : MSt) (rS : Res (List (String × JVal))) (stS : St),
    (∀ fp ∈ fps, FpOK c.schema rt (NodeOK c pv rank) fp) → SVf c pv rank F acc accS → PVal.fieldsToJ? acc = some accS →
    execGroups c fuel false rt .nil [] (groupsOf fps) accS st = (rS, stS) → rS ≠ .fuelOut → stS.kfThunk = st.kfThunk →
    RootFx st stS mst (mRootMut c alt0 F fuel rt fps acc mst)
  | 0, _, fps, accS, acc, st, mst, rS, stS, _, _, _, h, hr, _ => by
    simp only [execGroups, Prod.mk.injEq] at h; exact absurd h.1.symm hr
  | fuel + 1, hle, [], accS, acc, st, mst, rS, stS, _, hacc, haccJ, h, hr, _ => by
    simp only [groupsOf, List.map_nil, execGroups, Prod.mk.injEq] at h
    obtain ⟨rfl, rfl⟩ := h
    simp only [mRootMut]
    exact .inr ⟨St.empty, Fx.nil, Fx.nil, (St.empty_app _).symm, MExt.refl mst, by simpa [fxS_empty] using Fx.Perm.refl Fx.nil,
      rfl⟩
  | fuel + 1, hle, fp :: rest, accS, acc, st, mst, rS, stS, hok, hacc, haccJ, h, hr, hkf => by
    have hle' : fuel ≤ F := Nat.le_of_succ_le hle
    have hfp := hok fp List.mem_cons_self
    have hrest : ∀ fp' ∈ rest, FpOK c.schema rt (NodeOK c pv rank) fp' := fun fp' hm => hok fp' (List.mem_cons_of_mem _ hm)
    obtain ⟨n0, ch0, tl, hnodes, hname, hdef, hargs⟩ := hfp.head
    have hhead : fp.fieldNodes.head? = some n0 := by simp [FieldPlan.fieldNodes, hnodes]
    have hg : groupsOf (fp :: rest) = (fp.key, fp.fieldNodes) :: groupsOf rest := rfl
    rw [hg] at h
    simp only [execGroups, hhead] at h
    rw [← hdef] at h
    simp only [mRootMut, hfp.pred, Pred.eval, List.all_nil, Bool.not_true, Bool.false_eq_true, if_false]
    cases hfd : fp.fieldDef with
    | none =>
      simp only [hfd] at h
      exact mRootMut_fx hac hfr rt fuel hle' rest accS acc st mst rS stS hrest hacc haccJ h hr hkf
    | some fd =>
      simp only [hfd, List.nil_append] at h
      have hk1 := kfExt_field c fuel false rt .nil [.key fp.key] fd fp.fieldNodes st
      rcases hS : execField c fuel false rt .nil [.key fp.key] fd fp.fieldNodes st with ⟨r1, st1⟩
      rw [hS] at h hk1
      simp only at hk1
      have hnd := (nodupP (c := c) (alt := alt0) (altND_recompute _ _ _) fuel).field false rt .nil [.key fp.key] [(rt, fp.key)] fp fd mst
      rcases hM1 : mField c alt0 fuel false rt .nil [.key fp.key] [(rt, fp.key)] fp fd mst with ⟨rM1, mst1⟩
      rw [hM1] at hnd
      try simp only [hM1]
      cases r1 with
      | ok j =>
        simp only at h
        have hk2 := kfExt_groups c fuel false rt .nil [] (groupsOf rest) (accS ++ [(fp.key, j)]) st1
        rw [h] at hk2
        simp only at hk2
        obtain ⟨hkA, hkB⟩ := KfExt.same hk1 hk2 hkf
        have hdat := (genP (F := F) hac hfr fuel hle').field false rt .nil [.key fp.key] [(rt, fp.key)] fp fd st mst _ _
          hfp hfd hS (by simp) hkA
        have hfx := (fxP (F := F) hac hfr fuel hle').field false rt .nil [.key fp.key] [(rt, fp.key)] fp fd st mst _ _
          hfp hfd hS (by simp) hkA
        simp only [hM1] at hdat hfx
        obtain ⟨x, hx, hsv⟩ := hdat
        subst hx
        obtain ⟨d1, dM1, e1, m1, ⟨D1, p1⟩, n1⟩ := hfx
        simp only [resPend_ok, Fx.app_nil] at p1
        simp only
        -- force everything the field deferred, now
        have hs := frcSV_forceAll (c := c) (pv := pv) (rank := rank) (F := F) hac hfr
        have ha := frcA_forceAll (c := c) (pv := pv) (rank := rank) (F := F) hac hfr
        have hd0 := (dfsA hs ha F).val x j mst1 hsv
        have hd1 := (dfsV hs F).val x j mst1 hsv
        have hd2 := (dfsS (frcFlat_forceAll (c := c) (alt := alt0) (altND_recompute _ _ _) F) F).val x mst1 (hnd x rfl)
        generalize dfsVal (forceAll c alt0 F) F x mst1 = z at hd0 hd1 hd2 ⊢
        obtain ⟨r2, mst2⟩ := z
        cases r2 with
        | fail => exact absurd hd1 id
        | fuelOut => exact .inl rfl
        | ok x' =>
          simp only
          obtain ⟨dM2, D2, m2, p2⟩ := hd0
          have hsv' : SV c pv rank F x' j := hd1
          have hno : NoDef x' := hd2 x' rfl
          have hj' : x'.toJ? = some j := sv_toJ hsv' hno
          rw [pend_noDef x' hno] at p2
          have hdf2 : dM2.AllDf := allDf_of_pend (pend_allDf x) p2
          have ihr := mRootMut_fx hac hfr rt fuel hle' rest _ _ st1 mst2 rS stS hrest (svf_append hsv' hacc)
            (fieldsToJ?_append haccJ hj') h hr hkB
          rcases ihr with ihr | ⟨d3, dM3, D3, e3, m3, p3, n3⟩
          · exact .inl ihr
          · refine .inr ⟨St.app d3 d1, dM3.app (dM2.app dM1), D3.app (D1.app D2), by rw [e3, e1, St.app_assoc],
              (m1.trans m2).trans m3, ?_, ?_⟩
            · rw [fxS_app]
              have t1 := perm_seq p1 p2
              have t2 : Fx.Perm ((fxS d3).app (fxS d1)) ((dM3.app D3).app ((dM2.app dM1).app (Fx.nil.app (D1.app D2)))) :=
                Fx.Perm.app p3 t1
              have t3 : Fx.Perm ((dM3.app D3).app ((dM2.app dM1).app (Fx.nil.app (D1.app D2))))
                  ((dM3.app (dM2.app dM1)).app (D3.app (D1.app D2))) := by
                simpa [Fx.flat] using Fx.rearr [dM3, D3, dM2.app dM1, D1.app D2] [0, 1, 2, 3] [0, 2, 1, 3] (by decide)
              exact t2.trans t3
            · rw [fxS_app, Fx.nd_app, Fx.nd_app, Fx.nd_app, n3, n1 rfl, hdf2.nd, Fx.nil_app]
      | fail =>
        simp only [Prod.mk.injEq] at h
        obtain ⟨rfl, rfl⟩ := h
        have hdat := (genP (F := F) hac hfr fuel hle').field false rt .nil [.key fp.key] [(rt, fp.key)] fp fd st mst _ _
          hfp hfd hS (by simp) hkf
        have hfx := (fxP (F := F) hac hfr fuel hle').field false rt .nil [.key fp.key] [(rt, fp.key)] fp fd st mst _ _
          hfp hfd hS (by simp) hkf
        simp only [hM1] at hdat hfx
        subst hdat
        obtain ⟨d1, dM1, e1, m1, ⟨D1, p1⟩, n1⟩ := hfx
        simp only [resPend_fail, Fx.app_nil, Fx.nil_app] at p1
        exact .inr ⟨d1, dM1, D1, e1, m1, p1, n1 rfl⟩
      | fuelOut =>
        simp only [Prod.mk.injEq] at h
        exact absurd h.1.symm hr

/-- the walk of a plan against the algorithm's walk of the root groups: effects -/
theorem runPlan_fx (hac : Acyclic c.frags rank) (hfr : FragsOK c pv) (q : Plan)
    (sel : SelectionSet) (hroot : q.root = planSelectionSet c.schema c.frags pv q.rootType sel)
    (hreg : Regime pv c.vars (setDynamic sel)) (rS : Res (List (String × JVal))) (stS : St)
    (h : execGroups c F false q.rootType .nil [] (collect c q.rootType sel ([], [])).1 [] St.empty = (rS, stS))
    (hr : rS ≠ .fuelOut) (hkf : stS.kfThunk = []) (mst : MSt) :
    RootFx St.empty stS mst (runPlan c alt0 q F mst) := by
  obtain ⟨hgo, hfps⟩ := planSelectionSet_sim (rt := q.rootType) hac hfr sel hreg
  rw [← hgo, ← hroot] at h
  rw [← hroot] at hfps
  unfold runPlan
  by_cases hmut : q.isMutation = true
  · simp only [hmut, if_true]
    have hm := mRootMut_fx (F := F) hac hfr q.rootType F (Nat.le_refl _) q.root [] [] St.empty mst rS stS hfps .nil rfl h hr hkf
    have hg := mRootMut_gen (F := F) hac hfr q.rootType F (Nat.le_refl _) q.root [] [] St.empty mst rS stS hfps .nil rfl h hr hkf
    generalize mRootMut c alt0 F F q.rootType q.root [] mst = z at hm hg ⊢
    obtain ⟨r1, mst1⟩ := z
    rcases hg with hg | hg
    · simp only at hg; subst hg; exact .inl rfl
    · cases rS with
      | ok fs =>
        simp only at hg
        obtain ⟨pfs, hp, hsv, hj⟩ := hg
        subst hp
        simp only
        have hnd : ∀ x ∈ pfs, NoDef x.2 := allCl_obj.1 (noDef_of_toJ? (.obj pfs) (.obj fs) (toJ?_obj (hj trivial)))
        rcases (dfsId (frc := forceAll c alt0 F) F).fields (sortedKeys pfs) pfs mst1 hnd with h2 | h2 <;> rw [h2]
        · exact .inl rfl
        · exact hm
      | fail =>
        simp only at hg
        subst hg
        exact hm
      | fuelOut => exact absurd rfl hr
  · have hmut' : q.isMutation = false := by simpa using hmut
    simp only [hmut', Bool.false_eq_true, if_false]
    have hg := (genP (F := F) hac hfr F (Nat.le_refl _)).groups false q.rootType .nil [] [] q.root [] [] St.empty mst rS stS
      hfps .nil h hr hkf
    have hfx := (fxP (F := F) hac hfr F (Nat.le_refl _)).groups false q.rootType .nil [] [] q.root [] [] St.empty mst rS stS
      hfps .nil h hr hkf
    generalize hz0 : mGroups c alt0 F false q.rootType .nil [] [] q.root [] mst = z at hg hfx ⊢
    obtain ⟨r1, mst1⟩ := z
    obtain ⟨d1, dM1, e1, m1, ⟨D1, p1⟩, n1⟩ := hfx
    have hpn : pendF c F [] = Fx.nil := by simp [pendF]
    rw [hpn, Fx.app_nil] at p1
    cases rS with
    | ok fs =>
      simp only at hg
      obtain ⟨pfs, hp, hsv⟩ := hg
      subst hp
      simp only [resPend_ok] at p1 ⊢
      have hs := frcSV_forceAll (c := c) (pv := pv) (rank := rank) (F := F) hac hfr
      have ha := frcA_forceAll (c := c) (pv := pv) (rank := rank) (F := F) hac hfr
      have hb := bfsLoop_acct hs ha (.obj fs) F (.obj pfs) [[]] mst1 (.obj hsv)
      have hbs := bfsLoop_sv hs (.obj fs) F (.obj pfs) [[]] mst1 (.obj hsv)
      have hkn : KeysNodup q.root := by rw [hroot]; exact keysNodup_planSelectionSet _ _ _ _ _
      have hz : (mGroups c alt0 F false q.rootType .nil [] [] q.root [] mst).1 = .ok pfs := by rw [hz0]
      have hnd1 := (nodupP (c := c) (alt := alt0) (altND_recompute _ _ _) F).groups false q.rootType .nil [] [] q.root [] mst
        (by simpa [KeysNodup] using hkn) (fun _ h => by cases h) pfs hz
      have hset := bfsLoop_settles (frcFlat_forceAll (c := c) (alt := alt0) (altND_recompute _ _ _) F) F pfs mst1 (ndv_obj.2 hnd1)
      generalize bfsLoop (forceAll c alt0 F) F (.obj pfs) [[]] mst1 = z2 at hb hbs hset ⊢
      obtain ⟨r2, mst2⟩ := z2
      cases r2 with
      | ok root' =>
        obtain ⟨dM2, D2, m2, p2⟩ := hb
        simp only [pend] at p2
        rw [pend_noDef root' (hset root' rfl)] at p2
        have hdf2 : dM2.AllDf := allDf_of_pend (pendF_allDf pfs) p2
        refine .inr ⟨d1, dM2.app dM1, D1.app D2, e1, m1.trans m2, ?_, ?_⟩
        · have := perm_seq p1 p2
          simpa using this
        · rw [Fx.nd_app, hdf2.nd, Fx.nil_app]; exact n1 rfl
      | fail => exact absurd hbs id
      | fuelOut => exact .inl rfl
    | fail =>
      simp only at hg
      subst hg
      simp only [resPend_fail, Fx.nil_app] at p1
      exact .inr ⟨d1, dM1, D1, e1, m1, p1, n1 rfl⟩
    | fuelOut => exact absurd rfl hr

end roots

/-! ## the request level -/

theorem filter_reverse' {α : Type} (p : α → Bool) (l : List α) : l.reverse.filter p = (l.filter p).reverse := by
  simp [List.filter_reverse]

/-- **the effects of the two executions, with deferred values, outside D-04c.** -/
theorem run_fx_execute (s : Schema) (doc : Document) (opName : String) (inputs : Vars) (w : World) (fuel : Nat)
    (rank : String → Nat) (hac : Acyclic doc.fragments rank)
    (d : Option (List (String × JVal))) (errs : List (Path × Bool)) (log : List LogEntry)
    (hS : execute s doc opName inputs w fuel = .result d errs log [])
    (hM : run s doc opName inputs w fuel ≠ .fuelOut) :
    ∃ md merrs mev, run s doc opName inputs w fuel = .result md merrs mev ∧
      merrs.filter (fun e => !e.2) = errs.filter (fun e => !e.2) ∧
      (calls mev).filter (fun e => !e.deferred) = log.filter (fun e => !e.deferred) ∧
      ∃ dropE dropL, (errs.filter (fun e => e.2)).Perm (merrs.filter (fun e => e.2) ++ dropE) ∧
        (log.filter (fun e => e.deferred)).Perm ((calls mev).filter (fun e => e.deferred) ++ dropL) := by
  obtain ⟨c, pv, q, sel, rS, stS, hcf, _, hrun, he, hl, hkf, hdata, hroot, hreg, hfr, hrunM⟩ :=
    run_setup s doc opName inputs w fuel d errs log [] hS
  have hrS : rS ≠ .fuelOut := by
    rcases hdata with ⟨fs, h1, _⟩ | ⟨h1, _⟩ <;> rw [h1] <;> simp
  have hfx := runPlan_fx (c := c) (pv := pv) (rank := rank) (F := fuel) (by rw [hcf]; exact hac) hfr q sel hroot hreg rS stS hrun
    hrS hkf.symm { errs := [], events := [], memo := [] }
  rw [hrunM] at hM ⊢
  generalize runPlan c (recompute c.schema c.frags pv) q fuel { errs := [], events := [], memo := [] } = out at hfx hM ⊢
  obtain ⟨rM, mstM⟩ := out
  rcases hfx with hfx | ⟨dS, dM, D, e, mm, ⟨pe, pl⟩, nn⟩
  · simp only at hfx; subst hfx; exact absurd rfl hM
  · rw [St.app_empty] at e
    subst e
    -- M's state holds exactly dM
    have hMst : fxM mstM = dM := by
      have h0 : fxM mstM = dM.app (fxM { errs := [], events := [], memo := [] }) := mm
      have h1 : fxM ({ errs := [], events := [], memo := [] } : MSt) = Fx.nil := rfl
      rw [h1, Fx.app_nil] at h0
      exact h0
    have hMe : mstM.errs = dM.errs := congrArg Fx.errs hMst
    have hMl : calls mstM.events = dM.log := congrArg Fx.log hMst
    have hne : (stS.errs.filter (fun e => !e.2)) = (dM.errs.filter (fun e => !e.2)) := congrArg Fx.errs nn
    have hnl : (stS.log.filter (fun e => !e.deferred)) = (dM.log.filter (fun e => !e.deferred)) := congrArg Fx.log nn
    have hres : ∃ md, MResponse.of (rM, mstM) = .result md mstM.errs.reverse mstM.events.reverse := by
      cases rM with
      | ok fs => exact ⟨some fs, rfl⟩
      | fail => exact ⟨none, rfl⟩
      | fuelOut => exact absurd rfl hM
    obtain ⟨md, hmd⟩ := hres
    refine ⟨md, _, _, hmd, ?_, ?_, D.errs.filter (fun e => e.2), D.log.filter (fun e => e.deferred), ?_, ?_⟩
    · rw [he, filter_reverse', filter_reverse', hMe, hne]
    · rw [hl, calls_reverse, filter_reverse', filter_reverse', hMl, hnl]
    · rw [he, filter_reverse', filter_reverse', hMe]
      have t1 : (stS.errs.filter (fun e => e.2)).Perm ((dM.errs.filter (fun e => e.2)) ++ (D.errs.filter (fun e => e.2))) := by
        have := pe.filter (fun e => e.2)
        simpa [fxS, Fx.app, List.filter_append] using this
      exact (List.reverse_perm _).trans (t1.trans (List.Perm.append (List.reverse_perm _).symm (List.Perm.refl _)))
    · rw [hl, calls_reverse, filter_reverse', filter_reverse', hMl]
      have t1 : (stS.log.filter (fun e => e.deferred)).Perm
          ((dM.log.filter (fun e => e.deferred)) ++ (D.log.filter (fun e => e.deferred))) := by
        have := pl.filter (fun e => e.deferred)
        simpa [fxS, Fx.app, List.filter_append] using this
      exact (List.reverse_perm _).trans (t1.trans (List.Perm.append (List.reverse_perm _).symm (List.Perm.refl _)))

end GqlModel.Plan
