import GqlProofs.ValidateOverlapStatic1
/-! # C02 completeness, part 3c: on an acyclic fragment table, "covered" implies "no conflict"

`Fin` collects what is known about the FINAL state of a run that reported nothing (from `overlapRun_cov`) together
with the static hypotheses. `cert` shows by induction on a measure that strictly decreases along nesting and along
fragment spreads (this is where acyclicity enters) that every covered comparison is semantically conflict free. -/
namespace GqlModel.Validate.Overlap
open GqlModel.Validate GqlModel.Validate.Graph

variable (d : Document) (e : Env) (π : SelectionSet → Option String)

/-- a field of some selection set of the document, with the parent type that selection set has -/
def DocField (a : FieldOcc) : Prop := ∃ Y, Y ∈ allSets d ∧ a ∈ directSet e (π Y) Y

/-- selection sets strictly below a root -/
def properSets : List SelectionSet := (rootSets d).flatMap (fun r => belowSels r.sels)

/-- the selection set `X` is not the body of any fragment reachable (shallow graph) from `frag` -/
def Apart (X : SelectionSet) (frag : String) : Prop :=
  ∀ m f, Reaches (shTbl e.tbl) frag m → lookupFrag e.tbl m = some f → X.loc ≠ f.sel.loc

structure Fin (S : OState) : Prop where
  coh : Coh d e π
  acyc : ¬ Cyclic e.tbl
  nodup : (fragNames e.tbl).Nodup
  hist : HistP d e π S ⟨[], []⟩
  tbl : TblLog S
  vis : ∀ X, X ∈ allSets d → ∀ c, c ∈ visCalls e π X → Cov e π S c
  args : ∀ a b, DocField d e π a → DocField d e π b → sameArguments a.node.args b.node.args = true →
    sameArgsS a.node.args b.node.args = true
  properApart : ∀ X, X ∈ properSets d → ∀ f, f ∈ e.tbl → X.loc ≠ f.sel.loc
  opApart : ∀ X, X ∈ rootSets d → (∀ f, f ∈ e.tbl → f.sel ≠ X) → ∀ f, f ∈ e.tbl → X.loc ≠ f.sel.loc
  fragApart : ∀ f g, f ∈ e.tbl → g ∈ e.tbl → f.sel.loc = g.sel.loc → f.name.value = g.name.value

inductive Goal where
  | vis (X : SelectionSet)
  | ff (x : Bool) (X : SelectionSet) (frag : String)
  | bf (x : Bool) (n1 n2 : String)
  | fc (x : Bool) (a b : FieldOcc)

def bodyMu (n : String) : Nat :=
  match lookupFrag e.tbl n with
  | some f => mu d e.tbl f.sel
  | none => 0

def selMu : Option SelectionSet → Nat
  | some s => mu d e.tbl s
  | none => 0

def meas : Goal → Nat
  | .vis X => 4 * mu d e.tbl X
  | .ff _ X frag => 2 * (mu d e.tbl X + bodyMu d e frag) + 1
  | .bf _ n1 n2 => 2 * (bodyMu d e n1 + bodyMu d e n2) + 1
  | .fc _ a b => 2 * (selMu d e a.node.sel + selMu d e b.node.sel) + 1

def WFG : Goal → Prop
  | .vis X => X ∈ allSets d
  | .ff _ X frag => X ∈ allSets d ∧ Apart e X frag
  | .bf _ _ _ => True
  | .fc _ a b => DocField d e π a ∧ DocField d e π b ∧ a.node.key = b.node.key

def CovG (S : OState) : Goal → Prop
  | .vis X => ∀ c, c ∈ visCalls e π X → Cov e π S c
  | .ff x X frag => Cov e π S (.ff x (cI e π X) frag)
  | .bf x n1 n2 => Cov e π S (.bf x n1 n2)
  | .fc x a b => Cov e π S (.fc x a.node.key a b)

def Cert : Goal → Prop
  | .vis X => ∀ a b, a ∈ flat e (π X) X → b ∈ flat e (π X) X → a.node.key = b.node.key → ¬ PairConflict e false a b
  | .ff x X frag => ∀ a b, a ∈ directSet e (π X) X → FlatFrag e frag b → a.node.key = b.node.key →
      ¬ PairConflict e x a b
  | .bf x n1 n2 => ∀ a b, FlatFrag e n1 a → FlatFrag e n2 b → a.node.key = b.node.key → ¬ PairConflict e x a b
  | .fc x a b => ¬ PairConflict e x a b

variable {d e π}

theorem mu_pos (X : SelectionSet) : 1 ≤ mu d e.tbl X := by
  cases X with
  | mk sels l => simp only [mu, setsSet]; omega

/-- sub-selection of a document field: in the document, strictly nested, typed coherently -/
theorem docField_sel {S : OState} (F : Fin d e π S) {a : FieldOcc} (ha : DocField d e π a) {s1 : SelectionSet}
    (hs : a.node.sel = some s1) :
    s1 ∈ allSets d ∧ s1 ∈ properSets d ∧ π s1 = a.subParent ∧
    (∀ a', a' ∈ directSet e (π s1) s1 → selMu d e a'.node.sel < mu d e.tbl s1) := by
  rcases ha with ⟨Y, hY, haY⟩
  have hb := direct_sel_below_set e (π Y) Y a s1 haY hs
  have hall : s1 ∈ allSets d := by
    cases Y with
    | mk sels l => exact allSets_trans hY (by simp [belowSet]; exact .inr hb)
  refine ⟨hall, ?_, F.coh.sub Y hY a haY s1 hs, fun a' ha' => ?_⟩
  · simp only [allSets, List.mem_flatMap] at hY
    rcases hY with ⟨r, hr, hYr⟩
    refine List.mem_flatMap.2 ⟨r, hr, ?_⟩
    cases r with
    | mk rsels rl =>
      simp only [belowSet, List.mem_cons] at hYr
      rcases hYr with rfl | hYr
      · exact hb
      · cases Y with
        | mk sels l => exact below_trans_sels rsels _ hYr s1 (by simp [belowSet]; exact .inr hb)
  · cases hs' : a'.node.sel with
    | none => exact mu_pos s1
    | some t =>
      have := direct_sel_below_set e (π s1) s1 a' t ha' hs'
      cases s1 with
      | mk sels l => exact mu_nested this

theorem bodyMu_spread {S : OState} (F : Fin d e π S) {X : SelectionSet} {g : String} (hg : g ∈ shallowSet X) :
    bodyMu d e g < mu d e.tbl X := by
  unfold bodyMu
  cases hl : lookupFrag e.tbl g with
  | none => exact mu_pos X
  | some f => exact mu_spread F.acyc (shallow_sub_deep hg) hl (F.coh.fragSets f (lookupFrag_some hl).1)

theorem apart_of_proper {S : OState} (F : Fin d e π S) {X : SelectionSet} (hX : X ∈ properSets d) (frag : String) :
    Apart e X frag :=
  fun _ f _ hl => F.properApart X hX f (lookupFrag_some hl).1

theorem apart_step {X : SelectionSet} {frag g : String} (h : Apart e X frag)
    (hedge : SpreadEdge (shTbl e.tbl) frag g) : Apart e X g :=
  fun m f hr hl => h m f (.step hedge hr) hl

/-- a top-level spread of a selection set of the document never leads back to that selection set -/
theorem apart_of_vis {S : OState} (F : Fin d e π S) {X : SelectionSet} (hX : X ∈ allSets d) {r : String}
    (hr : r ∈ shallowSet X) : Apart e X r := by
  simp only [allSets, List.mem_flatMap] at hX
  rcases hX with ⟨root, hroot, hXr⟩
  have hcases : X = root ∨ X ∈ properSets d := by
    cases root with
    | mk rsels rl =>
      simp only [belowSet, List.mem_cons] at hXr
      rcases hXr with h | h
      · exact .inl h
      · exact .inr (List.mem_flatMap.2 ⟨_, hroot, h⟩)
  rcases hcases with rfl | hp
  · by_cases hfr : ∃ G, G ∈ e.tbl ∧ G.sel = X
    · rcases hfr with ⟨G, hG, rfl⟩
      intro m f hreach hl heq
      have hname := F.fragApart G f hG (lookupFrag_some hl).1 heq
      have hm := (lookupFrag_some hl).2
      have hGl : lookupFrag e.tbl G.name.value = some G := lookupFrag_self F.nodup hG
      apply F.acyc
      refine ⟨G.name.value, r, spreadEdge_iff.2 ⟨G, hGl, shallow_sub_deep hr⟩, ?_⟩
      rw [hname, hm]
      exact sh_reaches_deep hreach
    · intro m f _ hl
      exact F.opApart X hroot (fun G hG hsel => hfr ⟨G, hG, hsel⟩) f (lookupFrag_some hl).1
  · exact apart_of_proper F hp r

end GqlModel.Validate.Overlap
