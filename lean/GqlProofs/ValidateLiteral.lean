import GqlModel.Validate.Side
import GqlProofs.CoerceArgs
/-! # Literal validity = coercibility by the specification (bridge C02 ↔ C05)

`LiteralCoercible S t v`: for every assignment of runtime values that gives each variable occurring in the literal a
(non-null) value, the specification's literal coercion `Coerce.Spec.coerceLiteral` succeeds — the declarative reading
of "the literal is coercible to the type". `isValid_iff_coercible`: on a schema whose input-object fields have input
types, for a position of input type, `Coerce.isValidLiteralValue` (the model of the Go function the validation rules
call) says yes exactly for the coercible literals. The proof is C05's `lit_agree` plus: (1) `covered` implies C05's
technical hypothesis `varsProvided` (`provided_of_covered`), (2) a covering assignment exists (`coverVars`). -/
namespace GqlModel.Validate
open GqlModel.Coerce

/-! ## variables of a literal have a value -/

mutual
def covered (vars : Vars) : Value → Bool
  | .var x _ => !(lookupD vars x).isNull
  | .list vs _ => coveredList vars vs
  | .obj fs _ => coveredFields vars fs
  | _ => true
def coveredList (vars : Vars) : List Value → Bool
  | [] => true
  | v :: vs => covered vars v && coveredList vars vs
def coveredFields (vars : Vars) : List ObjField → Bool
  | [] => true
  | .mk _ v _ :: fs => covered vars v && coveredFields vars fs
end

def coveredOpt (vars : Vars) : Option Value → Bool
  | none => true
  | some v => covered vars v

theorem coveredList_mem {vars : Vars} : ∀ {vs : List Value}, coveredList vars vs = true → ∀ v ∈ vs, covered vars v = true
  | [], _, v, hv => by simp at hv
  | x :: xs, h, v, hv => by
    simp only [coveredList, Bool.and_eq_true] at h
    rcases List.mem_cons.1 hv with rfl | hv
    · exact h.1
    · exact coveredList_mem h.2 v hv

theorem covered_litLookup {vars : Vars} : ∀ {fs : List ObjField} (k : String), coveredFields vars fs = true →
    coveredOpt vars (litLookup fs k) = true
  | [], k, _ => by simp [litLookup, coveredOpt]
  | .mk nm v lc :: fs, k, h => by
    simp only [coveredFields, Bool.and_eq_true] at h
    have ih := covered_litLookup (fs := fs) k h.2
    unfold litLookup
    cases hl : litLookup fs k with
    | some w => simpa [hl] using ih
    | none =>
      simp only
      by_cases hk : (ObjField.mk nm v lc).name.value == k
      · simp only [hk, if_true, coveredOpt]; exact h.1
      · simp [hk, coveredOpt]

/-! ## schemas whose input positions have input types -/

/-- every field of every input object has an input type (scalar, enum, input object) — schema construction
guarantees it (definition.go: input-field types are checked for being input types) -/
def InputClosed (S : Schema) : Prop :=
  ∀ n n' fields dsc, S.find? n = some (.inputObject n' fields dsc) → ∀ f ∈ fields, inputKind S f.type.namedName = true

theorem provided_step (S : Schema) (vars : Vars) (self : GType → Option Value → Bool) (hS : InputClosed S)
    (ih : ∀ t l, inputKind S t.namedName = true → coveredOpt vars l = true → self t l = true) :
    ∀ t l, inputKind S t.namedName = true → coveredOpt vars l = true → varsProvidedStep S vars self t l = true := by
  intro t
  induction t with
  | nonNull t iht =>
    intro l hk hc
    cases l with
    | none => simp [varsProvidedStep]
    | some l =>
      cases l with
      | var x loc => simpa [varsProvidedStep, coveredOpt, covered] using hc
      | _ => simp only [varsProvidedStep]; exact iht _ hk hc
  | list t iht =>
    intro l hk hc
    cases l with
    | none => simp [varsProvidedStep]
    | some l =>
      cases l with
      | var x loc => simp [varsProvidedStep]
      | list ls loc =>
        simp only [varsProvidedStep, List.all_eq_true]
        intro x hx
        have : covered vars x = true := coveredList_mem (by simpa [coveredOpt, covered] using hc) x hx
        exact iht _ hk (by simpa [coveredOpt] using this)
      | _ => simp only [varsProvidedStep]; exact iht _ hk hc
  | named n =>
    intro l hk hc
    cases l with
    | none => simp [varsProvidedStep]
    | some l =>
      have hk' : inputKind S n = true := hk
      unfold inputKind at hk'
      cases hf : S.find? n with
      | none => simp [hf] at hk'
      | some td =>
        cases td with
        | inputObject n' fields dsc =>
          have hfields := hS n n' fields dsc hf
          cases l with
          | var x loc => simp [varsProvidedStep]
          | obj fs loc =>
            simp only [varsProvidedStep, hf, List.all_eq_true]
            intro f hfm
            have hcf : coveredFields vars fs = true := by simpa [coveredOpt, covered] using hc
            exact ih _ _ (hfields f hfm) (covered_litLookup f.name hcf)
          | _ => simp [varsProvidedStep, hf]
        | scalar _ _ _ => cases l <;> simp [varsProvidedStep, hf]
        | enum _ _ _ => cases l <;> simp [varsProvidedStep, hf]
        | object _ _ _ _ _ => simp [hf] at hk'
        | interface _ _ _ _ => simp [hf] at hk'
        | union _ _ _ _ => simp [hf] at hk'

theorem providedF_of_covered (S : Schema) (vars : Vars) (hS : InputClosed S) :
    ∀ (n : Nat) (t : GType) (l : Option Value), inputKind S t.namedName = true → coveredOpt vars l = true →
      varsProvidedF S vars n t l = true := by
  intro n
  induction n with
  | zero => intro t l _ _; rfl
  | succ n ih => intro t l hk hc; exact provided_step S vars _ hS ih t l hk hc

theorem provided_of_covered (S : Schema) (vars : Vars) (hS : InputClosed S) (t : GType) (l : Option Value)
    (hk : inputKind S t.namedName = true) (hc : coveredOpt vars l = true) : varsProvided S t l vars = true :=
  providedF_of_covered S vars hS _ t l hk hc

/-! ## a covering assignment exists -/

mutual
def varNames : Value → List String
  | .var x _ => [x]
  | .list vs _ => varNamesList vs
  | .obj fs _ => varNamesFields fs
  | _ => []
def varNamesList : List Value → List String
  | [] => []
  | v :: vs => varNames v ++ varNamesList vs
def varNamesFields : List ObjField → List String
  | [] => []
  | .mk _ v _ :: fs => varNames v ++ varNamesFields fs
end

mutual
theorem covered_of_names (vars : Vars) : ∀ (v : Value), (∀ x ∈ varNames v, (lookupD vars x).isNull = false) → covered vars v = true
  | .var x _, h => by simp [covered, h x (by simp [varNames])]
  | .list vs _, h => by unfold covered; exact coveredList_of_names vars vs (by simpa [varNames] using h)
  | .obj fs _, h => by unfold covered; exact coveredFields_of_names vars fs (by simpa [varNames] using h)
  | .int _ _, _ => rfl
  | .float _ _, _ => rfl
  | .str _ _, _ => rfl
  | .bool _ _, _ => rfl
  | .enum _ _, _ => rfl
theorem coveredList_of_names (vars : Vars) : ∀ (vs : List Value), (∀ x ∈ varNamesList vs, (lookupD vars x).isNull = false) →
    coveredList vars vs = true
  | [], _ => rfl
  | v :: vs, h => by
    simp only [coveredList, Bool.and_eq_true]
    exact ⟨covered_of_names vars v (fun x hx => h x (by simp [varNamesList, hx])),
           coveredList_of_names vars vs (fun x hx => h x (by simp [varNamesList, hx]))⟩
theorem coveredFields_of_names (vars : Vars) : ∀ (fs : List ObjField), (∀ x ∈ varNamesFields fs, (lookupD vars x).isNull = false) →
    coveredFields vars fs = true
  | [], _ => rfl
  | .mk _ v _ :: fs, h => by
    simp only [coveredFields, Bool.and_eq_true]
    exact ⟨covered_of_names vars v (fun x hx => h x (by simp [varNamesFields, hx])),
           coveredFields_of_names vars fs (fun x hx => h x (by simp [varNamesFields, hx]))⟩
end

/-- every variable of the literal gets the value `true` -/
def coverVars (v : Value) : Vars := (varNames v).map (fun x => (x, JVal.bool true))

theorem lookupD_const (names : List String) (x : String) (hx : x ∈ names) :
    (lookupD (names.map (fun y => (y, JVal.bool true))) x).isNull = false := by
  unfold lookupD JVal.lookup
  cases hf : List.find? (fun p => p.1 == x) (names.map (fun y => (y, JVal.bool true))) with
  | none =>
    have := List.find?_eq_none.1 hf (x, JVal.bool true) (List.mem_map.2 ⟨x, hx, rfl⟩)
    simp at this
  | some p =>
    have hm := List.mem_of_find?_eq_some hf
    obtain ⟨y, _, rfl⟩ := List.mem_map.1 hm
    rfl

theorem covered_coverVars (v : Value) : covered (coverVars v) v = true :=
  covered_of_names _ v (fun x hx => lookupD_const _ x hx)

/-! ## the bridge -/

/-- the literal is coercible to the type, whatever (non-null) values its variables have at run time -/
def LiteralCoercible (S : Schema) (t : GType) (v : Value) : Prop :=
  ∀ vars, covered vars v = true → ∃ r, Spec.coerceLiteral S t (some v) vars = .ok r

theorem isValid_iff_coercible (S : Schema) (hS : InputClosed S) (t : GType) (hk : inputKind S t.namedName = true)
    (v : Value) : isValidLiteralValue S t (some v) = true ↔ LiteralCoercible S t v := by
  constructor
  · intro hv vars hc
    have hp := provided_of_covered S vars hS t (some v) hk hc
    exact (lit_agree S t (some v) vars hp).ok_iff.1 hv
  · intro h
    have hc := covered_coverVars v
    have hp := provided_of_covered S (coverVars v) hS t (some v) hk hc
    exact (lit_agree S t (some v) (coverVars v) hp).ok_iff.2 (h _ hc)

/-! ## `Schema.plus` -/

theorem plus_find? (s : Schema) (n : String) : s.plus.find? n = s.resolve n := by
  unfold Schema.plus Schema.find? Schema.resolve Schema.find?
  simp only [List.find?_append]
  cases List.find? (fun t => t.name == n) s.types <;> rfl

theorem inputKind_resolves (s : Schema) (t : GType) (h : inputKind s.plus t.namedName = true) : leafResolves s t = true := by
  unfold inputKind at h
  unfold leafResolves
  rw [← plus_find?]
  cases hf : s.plus.find? t.namedName with
  | none => simp [hf] at h
  | some _ => rfl

/-- on positions of input type `validLiteral` is C05's model -/
theorem validLiteral_eq (s : Schema) (t : GType) (lit : Option Value) (h : inputKind s.plus t.namedName = true) :
    validLiteral s (some t) lit = isValidLiteralValue s.plus t lit := by
  simp [validLiteral, inputKind_resolves s t h]

end GqlModel.Validate
