import GqlModel.Occurs
/-! # Operation selection (`selectOperation`) — closed forms of the inner loop, for C01 -/
namespace GqlModel.Exec

theorem or_getLast?_cons {α : Type} (d : α) (l : List α) (cur : Option α) :
    ((d :: l).getLast?).or cur = (l.getLast?).or (some d) := by
  rw [List.getLast?_cons]
  cases l.getLast? <;> rfl

/-- with a name: reject a non-executable definition anywhere, otherwise the LAST operation of that name -/
theorem go_named {opName : String} (hn : opName ≠ "") : ∀ (defs : List Definition) (cur : Option Definition),
    selectOperation.go opName defs cur =
      if defs.all isExecutable = true then .ok (((defs.filter (isOperationNamed opName)).getLast?).or cur)
      else .error .notExecutable
  | [], cur => by simp [selectOperation.go]
  | d :: rest, cur => by
    have ih := go_named hn rest
    have h0 : (opName == "") = false := by simpa using hn
    cases d with
    | operation op name vars dirs sel loc =>
      simp only [selectOperation.go, h0, Bool.false_and, Bool.false_or, Bool.false_eq_true, if_false]
      by_cases hm : (name.map (·.value) == some opName) = true
      · rw [if_pos hm, ih]
        have hf : isOperationNamed opName (.operation op name vars dirs sel loc) = true := by
          simp [isOperationNamed, isOperation, opName?, hm]
        simp only [List.all_cons, isExecutable, Bool.true_and, List.filter_cons, hf, if_true, or_getLast?_cons]
      · rw [if_neg hm, ih]
        have hf : isOperationNamed opName (.operation op name vars dirs sel loc) = false := by
          simp [isOperationNamed, isOperation, opName?, hm]
        simp only [List.all_cons, isExecutable, Bool.true_and, List.filter_cons, hf, Bool.false_eq_true, if_false]
    | fragment name tc dirs sel loc =>
      simp only [selectOperation.go, ih]
      have hf : isOperationNamed opName (.fragment name tc dirs sel loc) = false := by
        simp [isOperationNamed, isOperation]
      simp only [List.all_cons, isExecutable, Bool.true_and, List.filter_cons, hf, Bool.false_eq_true, if_false]
    | _ => simp [selectOperation.go, isExecutable]

/-- the operations the unnamed loop has seen when it stops: `cur` and those before the first non-executable definition -/
def seenOps (defs : List Definition) (cur : Option Definition) : List Definition :=
  cur.toList ++ (defs.takeWhile isExecutable).filter isOperation

theorem seenOps_op (op name vars dirs sel loc) (rest : List Definition) (cur : Option Definition) :
    seenOps (.operation op name vars dirs sel loc :: rest) cur
      = cur.toList ++ .operation op name vars dirs sel loc :: (rest.takeWhile isExecutable).filter isOperation := rfl
theorem seenOps_frag (name tc dirs sel loc) (rest : List Definition) (cur : Option Definition) :
    seenOps (.fragment name tc dirs sel loc :: rest) cur = seenOps rest cur := rfl
theorem seenOps_other (d : Definition) (rest : List Definition) (cur : Option Definition)
    (h : isExecutable d = false) : seenOps (d :: rest) cur = cur.toList := by
  simp [seenOps, h]

/-- without a name: a second operation is an error as soon as it is met; then a non-executable definition;
otherwise the only operation (if any) -/
theorem go_unnamed : ∀ (defs : List Definition) (cur : Option Definition),
    selectOperation.go "" defs cur =
      if 2 ≤ (seenOps defs cur).length then .error .mustProvideName
      else if defs.all isExecutable = true then .ok (seenOps defs cur).head?
      else .error .notExecutable
  | [], cur => by cases cur <;> simp [selectOperation.go, seenOps]
  | d :: rest, cur => by
    have ih := go_unnamed rest
    cases d with
    | operation op name vars dirs sel loc =>
      have he : isExecutable (.operation op name vars dirs sel loc) = true := rfl
      cases cur with
      | some x =>
        have : 2 ≤ (seenOps (.operation op name vars dirs sel loc :: rest) (some x)).length := by
          rw [seenOps_op]; simp
        rw [if_pos this]
        simp [selectOperation.go]
      | none =>
        have hs : seenOps (.operation op name vars dirs sel loc :: rest) none
            = seenOps rest (some (.operation op name vars dirs sel loc)) := rfl
        rw [hs, List.all_cons, he, Bool.true_and, ← ih]
        simp [selectOperation.go]
    | fragment name tc dirs sel loc =>
      have he : isExecutable (.fragment name tc dirs sel loc) = true := rfl
      rw [seenOps_frag, List.all_cons, he, Bool.true_and, ← ih]
      simp [selectOperation.go]
    | _ =>
      rw [seenOps_other _ _ _ rfl, List.all_cons]
      cases cur <;> simp [selectOperation.go, isExecutable]

theorem takeWhile_of_all {α : Type} (p : α → Bool) : ∀ (l : List α), l.all p = true → l.takeWhile p = l
  | [], _ => rfl
  | a :: l, h => by
    simp only [List.all_cons, Bool.and_eq_true] at h
    simp [h.1, takeWhile_of_all p l h.2]

theorem selectOperation_named (doc : Document) {opName : String} (hn : opName ≠ "") :
    selectOperation doc opName =
      if doc.defs.all isExecutable = true then
        (match (doc.defs.filter (isOperationNamed opName)).getLast? with
         | some d => .ok d
         | none => .error .unknownOperation)
      else .error .notExecutable := by
  have h1 : (opName != "") = true := by simpa using hn
  simp only [selectOperation, go_named hn, h1, if_true]
  by_cases ha : doc.defs.all isExecutable = true
  · simp only [ha, if_true]
    cases (doc.defs.filter (isOperationNamed opName)).getLast? <;> rfl
  · simp only [ha]; rfl

theorem selectOperation_unnamed (doc : Document) :
    selectOperation doc "" =
      if 2 ≤ ((doc.defs.takeWhile isExecutable).filter isOperation).length then .error .mustProvideName
      else if doc.defs.all isExecutable = true then
        (match ((doc.defs.takeWhile isExecutable).filter isOperation).head? with
         | some d => .ok d
         | none => .error .noOperation)
      else .error .notExecutable := by
  simp only [selectOperation, go_unnamed]
  have hs : seenOps doc.defs none = (doc.defs.takeWhile isExecutable).filter isOperation := by simp [seenOps]
  rw [hs]
  by_cases h2 : 2 ≤ ((doc.defs.takeWhile isExecutable).filter isOperation).length
  · simp only [h2, if_true]
  · simp only [h2, if_false]
    by_cases ha : doc.defs.all isExecutable = true
    · simp only [ha, if_true]
      cases ((doc.defs.takeWhile isExecutable).filter isOperation).head? <;> rfl
    · simp only [ha]; rfl

end GqlModel.Exec
