import GqlModel.PrinterWF
import GqlProofs.PrinterTokens
import GqlProofs.PrinterRead
/-! `printTokens d = docT d` for well-formed documents: under well-formedness none of the printer's emptiness tests
(`join` dropping empty strings, `wrap` vanishing) drops a token. -/
namespace GqlModel.Printer
open GqlModel GqlModel.Reader

/-! ## token extraction is a homomorphism -/

@[simp] theorem tokensOf_nil : tokensOf [] = [] := rfl

@[simp] theorem tokensOf_append (a b : List Item) : tokensOf (a ++ b) = tokensOf a ++ tokensOf b := by
  induction a with
  | nil => rfl
  | cons i is ih => cases i <;> simp [tokensOf, ih]

@[simp] theorem tokensOf_pI (k : TokenKind) (t : Chars) : tokensOf (pI k t) = pT k := rfl
@[simp] theorem tokensOf_nI (s : String) : tokensOf (nI s) = nT s := rfl
@[simp] theorem tokensOf_kI (s : Chars) : tokensOf (kI s) = nT (String.ofList s) := rfl
@[simp] theorem tokensOf_sI (s : Chars) : tokensOf (sI s) = [] := rfl
@[simp] theorem tokensOf_spI : tokensOf spI = [] := rfl
@[simp] theorem tokensOf_commaSpI : tokensOf commaSpI = [] := rfl
@[simp] theorem tokensOf_colonSpI : tokensOf colonSpI = pT .colon := rfl
@[simp] theorem tokensOf_spreadI : tokensOf spreadI = pT .spread := rfl

@[simp] theorem tokensOf_indentI (is : List Item) : tokensOf (indentI is) = tokensOf is := by
  induction is with
  | nil => rfl
  | cons i is ih =>
    have : tokensOf (indentI is) = tokensOf is := ih
    cases i <;> simp [indentI, Item.indent, tokensOf] <;> exact this

/-- an item list without invisible tokens: if it renders to nothing it holds no token -/
def Solid (x : List Item) : Prop := (render x).isEmpty = true → tokensOf x = []

theorem solid_nil : Solid [] := fun _ => rfl
theorem solid_of_tokenFree {x : List Item} (h : tokensOf x = []) : Solid x := fun _ => h
theorem solid_of_nonempty {x : List Item} (h : (render x).isEmpty = false) : Solid x := by
  intro h'; rw [h] at h'; exact absurd h' (by decide)

theorem solid_append {a b : List Item} (ha : Solid a) (hb : Solid b) : Solid (a ++ b) := by
  intro h
  simp only [render_append, List.isEmpty_iff, List.append_eq_nil_iff] at h
  simp [ha (by simp [h.1]), hb (by simp [h.2])]

theorem solid_append_left {a b : List Item} (ha : (render a).isEmpty = false) : Solid (a ++ b) := by
  apply solid_of_nonempty
  cases hr : render a with
  | nil => simp [hr] at ha
  | cons c cs => simp [hr]

theorem solid_append_right {a b : List Item} (hb : (render b).isEmpty = false) : Solid (a ++ b) := by
  apply solid_of_nonempty
  cases hr : render b with
  | nil => simp [hr] at hb
  | cons c cs => simp [hr]

theorem solid_pI (k : TokenKind) (c : Char) (cs : Chars) : (render (pI k (c :: cs))).isEmpty = false := by simp

theorem tokensOf_interI (sep : List Item) (hsep : tokensOf sep = []) : ∀ xs : List (List Item),
    tokensOf (interI sep xs) = (xs.map tokensOf).flatten
  | [] => rfl
  | [x] => by simp [interI]
  | x :: y :: rest => by
    have := tokensOf_interI sep hsep (y :: rest)
    simp only [List.map_cons] at this
    simp [interI, hsep, this]

theorem flatten_filter_solid : ∀ xs : List (List Item), (∀ x ∈ xs, Solid x) →
    ((xs.filter (fun x => !(render x).isEmpty)).map tokensOf).flatten = (xs.map tokensOf).flatten
  | [], _ => rfl
  | x :: xs, h => by
    have ih := flatten_filter_solid xs (fun y hy => h y (by simp [hy]))
    by_cases hx : (render x).isEmpty = true
    · have := h x (by simp) hx
      simp [List.filter, hx, ih, this]
    · simp [List.filter, hx, ih]

/-- `join` with a token-free separator keeps every token when the pieces are solid -/
theorem tokensOf_joinI (xs : List (List Item)) (sep : List Item) (hsep : tokensOf sep = [])
    (h : ∀ x ∈ xs, Solid x) : tokensOf (joinI xs sep) = (xs.map tokensOf).flatten := by
  simp only [joinI, tokensOf_interI sep hsep, flatten_filter_solid xs h]

theorem render_interI_cons_nonempty (sep : List Item) (y : List Item) (ys : List (List Item))
    (hy : (render y).isEmpty = false) : (render (interI sep (y :: ys))).isEmpty = false := by
  cases hr : render y with
  | nil => simp [hr] at hy
  | cons c cs => cases ys <;> simp [interI, hr]

theorem solid_joinI (xs : List (List Item)) (sep : List Item) (hsep : tokensOf sep = [])
    (h : ∀ x ∈ xs, Solid x) : Solid (joinI xs sep) := by
  intro hr
  simp only [joinI] at hr ⊢
  cases hk : xs.filter (fun x => !(render x).isEmpty) with
  | nil => rfl
  | cons y ys =>
    have hy : y ∈ xs.filter (fun x => !(render x).isEmpty) := by rw [hk]; simp
    have hy2 := (List.mem_filter.mp hy).2
    simp only [Bool.not_eq_true'] at hy2
    rw [hk] at hr
    have := render_interI_cons_nonempty sep y ys hy2
    rw [this] at hr
    exact absurd hr (by decide)

theorem tokensOf_wrapI (a m b : List Item) :
    tokensOf (wrapI a m b) = if (render m).isEmpty then [] else tokensOf a ++ tokensOf m ++ tokensOf b := by
  simp only [wrapI]; split <;> simp

theorem solid_wrapI (a m b : List Item) : Solid (wrapI a m b) := by
  intro h
  simp only [wrapI] at h ⊢
  split
  · rfl
  · rename_i hm
    exfalso
    rw [if_neg hm] at h
    cases hr : render m with
    | nil => simp [hr] at hm
    | cons c cs => simp [hr] at h

theorem joinI_cons_nonempty (x : List Item) (xs : List (List Item)) (sep : List Item)
    (hx : (render x).isEmpty = false) : (render (joinI (x :: xs) sep)).isEmpty = false := by
  simp only [joinI, List.filter, hx, Bool.not_false]
  exact render_interI_cons_nonempty sep x _ hx

theorem wrapI_pos {a m b : List Item} (h : (render m).isEmpty = false) : wrapI a m b = a ++ m ++ b := by
  simp [wrapI, h]

theorem wrapI_neg {a m b : List Item} (h : (render m).isEmpty = true) : wrapI a m b = [] := by
  simp [wrapI, h]

theorem tokensOf_blockI (xs : List (List Item)) (h : ∀ x ∈ xs, Solid x) :
    tokensOf (blockI xs) = pT .braceL ++ (xs.map tokensOf).flatten ++ pT .braceR := by
  simp only [blockI]
  split
  · rename_i he
    have : xs = [] := by simpa using he
    subst this; rfl
  · simp [tokensOf_joinI xs (sI ['\n']) rfl h]

theorem blockI_nonempty (xs : List (List Item)) : (render (blockI xs)).isEmpty = false := by
  simp only [render_blockI, blockC]
  split
  · rfl
  · simp [indentC]

/-! ## leaves -/

theorem name_nonempty {s : String} (h : WFName s) : (render (nI s)).isEmpty = false := by
  have := headOK_ne_nil (headOK_name h)
  simpa using this

theorem descC_some_nonempty (s : String) : (descC (some s)).isEmpty = false := by
  simp only [descC]
  split
  · simp [quoteC]
  · split <;> simp [tq]

theorem tokensOf_descI (d : Option String) : tokensOf (descI d) = descT d := by
  cases d <;> rfl

theorem descI_isEmpty (d : Option String) : (render (descI d)).isEmpty = d.isNone := by
  cases d with
  | none => rfl
  | some s => simp [descC_some_nonempty]

theorem tokensOf_withDescTopI (d : Option String) (x : List Item) :
    tokensOf (withDescTopI d x) = descT d ++ tokensOf x := by
  simp only [withDescTopI, descI_isEmpty]
  cases d with
  | none => rfl
  | some s => simp [tokensOf_descI]

theorem tokensOf_withDescMemberI (d : Option String) (x : List Item) :
    tokensOf (withDescMemberI d x) = descT d ++ tokensOf x := by
  simp only [withDescMemberI, descI_isEmpty]
  cases d with
  | none => rfl
  | some s => simp [tokensOf_descI]

theorem withDescTopI_nonempty (d : Option String) {x : List Item} (hx : (render x).isEmpty = false) :
    (render (withDescTopI d x)).isEmpty = false := by
  cases d with
  | none => simpa [withDescTopI, descI] using hx
  | some s =>
    have := descC_some_nonempty s
    cases hr : descC (some s) with
    | nil => simp [hr] at this
    | cons c cs => simp [withDescTop, hr]

theorem withDescMemberI_nonempty (d : Option String) {x : List Item} (hx : (render x).isEmpty = false) :
    (render (withDescMemberI d x)).isEmpty = false := by
  cases d with
  | none => simpa [withDescMemberI, descI] using hx
  | some s =>
    have := descC_some_nonempty s
    simp [withDescMember, this]

/-! ## types and values -/

theorem tokensOf_typeI : ∀ t : TypeRef, tokensOf (typeI t) = typeT t
  | .named _ _ => rfl
  | .list t _ => by simp [typeI, typeT, tokensOf_typeI t]
  | .nonNull t _ => by simp [typeI, typeT, tokensOf_typeI t]

theorem typeI_nonempty : ∀ t : TypeRef, WFType t → (render (typeI t)).isEmpty = false
  | .named n _, h => name_nonempty h
  | .list t _, _ => by simp [typeI]
  | .nonNull t _, _ => by simp [typeI]

theorem namedTypeI_nonempty {t : TypeRef} (h : WFNamedType t) : (render (typeI t)).isEmpty = false := by
  cases t with
  | named n l => exact name_nonempty h
  | list t l => exact absurd h (by simp [WFNamedType])
  | nonNull t l => exact absurd h (by simp [WFNamedType])

theorem valueI_nonempty (v : Value) (h : WFValue v) : (render (valueI v)).isEmpty = false := by
  rw [render_valueI]; exact headOK_ne_nil (headOK_valueC v h)

theorem solid_valuesI : ∀ vs : List Value, WFValues vs → ∀ x ∈ valuesI vs, Solid x
  | [], _, x, hx => by simp [valuesI] at hx
  | v :: vs, h, x, hx => by
    simp only [valuesI, List.mem_cons] at hx
    rcases hx with rfl | hx
    · exact solid_of_nonempty (valueI_nonempty v h.1)
    · exact solid_valuesI vs h.2 x hx

theorem fieldI_nonempty : ∀ f : ObjField, WFField f → (render (fieldI f)).isEmpty = false
  | .mk n v _, h => by
    have := name_nonempty h.1
    cases hr : render (nI n.value) with
    | nil => simp [hr] at this
    | cons c cs => simp only [fieldI, render_append, hr]; rfl

theorem solid_fieldsI : ∀ fs : List ObjField, WFFields fs → ∀ x ∈ fieldsI fs, Solid x
  | [], _, x, hx => by simp [fieldsI] at hx
  | f :: fs, h, x, hx => by
    simp only [fieldsI, List.mem_cons] at hx
    rcases hx with rfl | hx
    · exact solid_of_nonempty (fieldI_nonempty f h.1)
    · exact solid_fieldsI fs h.2 x hx

theorem ofList_true : String.ofList ['t', 'r', 'u', 'e'] = "true" := by decide
theorem ofList_false : String.ofList ['f', 'a', 'l', 's', 'e'] = "false" := by decide

mutual
theorem tokensOf_valueI : ∀ v : Value, WFValue v → tokensOf (valueI v) = valueT v
  | .var _ _, _ => rfl
  | .int _ _, _ => rfl
  | .float _ _, _ => rfl
  | .str _ _, _ => rfl
  | .bool true _, _ => by simp [valueI, valueT, ofList_true]
  | .bool false _, _ => by simp [valueI, valueT, ofList_false]
  | .enum _ _, _ => rfl
  | .list vs _, h => by
    simp [valueI, valueT, tokensOf_joinI _ _ tokensOf_commaSpI (solid_valuesI vs h), tokensOf_valuesI vs h]
  | .obj fs _, h => by
    simp [valueI, valueT, tokensOf_joinI _ _ tokensOf_commaSpI (solid_fieldsI fs h), tokensOf_fieldsI fs h]
theorem tokensOf_valuesI : ∀ vs : List Value, WFValues vs → ((valuesI vs).map tokensOf).flatten = valuesT vs
  | [], _ => rfl
  | v :: vs, h => by simp [valuesI, valuesT, tokensOf_valueI v h.1, tokensOf_valuesI vs h.2]
theorem tokensOf_fieldI : ∀ f : ObjField, WFField f → tokensOf (fieldI f) = fieldT f
  | .mk n v _, h => by simp [fieldI, fieldT, tokensOf_valueI v h.2]
theorem tokensOf_fieldsI : ∀ fs : List ObjField, WFFields fs → ((fieldsI fs).map tokensOf).flatten = fieldsT fs
  | [], _ => rfl
  | f :: fs, h => by simp [fieldsI, fieldsT, tokensOf_fieldI f h.1, tokensOf_fieldsI fs h.2]
end

/-! ## arguments and directives -/

theorem tokensOf_argI (a : Argument) (h : WFArgument a) : tokensOf (argI a) = argT a := by
  simp [argI, argT, tokensOf_valueI _ h.2]

theorem argI_nonempty (a : Argument) (h : WFArgument a) : (render (argI a)).isEmpty = false := by
  have := name_nonempty h.1
  cases hr : render (nI a.name.value) with
  | nil => simp [hr] at this
  | cons c cs => simp only [argI, render_append, hr]; rfl

theorem solid_map_argI : ∀ as : List Argument, WFArguments as → ∀ x ∈ as.map argI, Solid x
  | [], _, x, hx => by simp at hx
  | a :: as, h, x, hx => by
    simp only [List.map_cons, List.mem_cons] at hx
    rcases hx with rfl | hx
    · exact solid_of_nonempty (argI_nonempty a h.1)
    · exact solid_map_argI as h.2 x hx

theorem flatten_map_argI : ∀ as : List Argument, WFArguments as → ((as.map argI).map tokensOf).flatten = argListT as
  | [], _ => rfl
  | a :: as, h => by
    simp only [List.map_cons, List.flatten_cons, argListT]
    rw [tokensOf_argI a h.1, flatten_map_argI as h.2]

/-- `wrap("(", join(args, ", "), ")")` -/
theorem tokensOf_argsParen (as : List Argument) (h : WFArguments as) :
    tokensOf (wrapI (pI .parenL ['(']) (joinI (as.map argI) commaSpI) (pI .parenR [')'])) = argsT as := by
  cases as with
  | nil => rfl
  | cons a as =>
    have hne := joinI_cons_nonempty (argI a) (as.map argI) commaSpI (argI_nonempty a h.1)
    rw [List.map_cons] at *
    rw [wrapI_pos hne]
    have := tokensOf_joinI _ commaSpI tokensOf_commaSpI (solid_map_argI (a :: as) h)
    rw [List.map_cons] at this
    simp [this, argsT]
    have h2 := flatten_map_argI (a :: as) h
    simp only [List.map_cons, List.flatten_cons] at h2
    rw [← h2]
    simp

theorem tokensOf_directiveI (d : Directive) (h : WFDirective d) : tokensOf (directiveI d) = directiveT d := by
  simp [directiveI, directiveT, tokensOf_argsParen d.args h.2]

theorem directiveI_nonempty (d : Directive) : (render (directiveI d)).isEmpty = false := by
  simp [directiveI]

theorem flatten_map_directiveI : ∀ ds : List Directive, WFDirectives ds →
    ((ds.map directiveI).map tokensOf).flatten = directivesT ds
  | [], _ => rfl
  | d :: ds, h => by
    simp only [List.map_cons, List.flatten_cons, directivesT]
    rw [tokensOf_directiveI d h.1, flatten_map_directiveI ds h.2]

theorem tokensOf_directivesI (ds : List Directive) (h : WFDirectives ds) : tokensOf (directivesI ds) = directivesT ds := by
  rw [directivesI, tokensOf_joinI _ _ tokensOf_spI, flatten_map_directiveI ds h]
  intro x hx
  obtain ⟨d, _, rfl⟩ := List.mem_map.mp hx
  exact solid_of_nonempty (directiveI_nonempty d)

theorem solid_directivesI (ds : List Directive) : Solid (directivesI ds) := by
  apply solid_joinI _ _ tokensOf_spI
  intro x hx
  obtain ⟨d, _, rfl⟩ := List.mem_map.mp hx
  exact solid_of_nonempty (directiveI_nonempty d)

/-- a wrap whose delimiters hold no token contributes exactly the tokens of its (solid) middle -/
theorem tokensOf_wrapI_tokenFree {a m b : List Item} (ha : tokensOf a = []) (hb : tokensOf b = []) (hm : Solid m) :
    tokensOf (wrapI a m b) = tokensOf m := by
  rw [tokensOf_wrapI]
  by_cases h : (render m).isEmpty = true
  · simp [h, hm h]
  · simp [h, ha, hb]

theorem tokensOf_join3 (a b c : List Item) (ha : Solid a) (hb : Solid b) (hc : Solid c) :
    tokensOf (joinI [a, b, c] spI) = tokensOf a ++ tokensOf b ++ tokensOf c := by
  rw [tokensOf_joinI _ _ tokensOf_spI]
  · simp
  · intro x hx
    simp only [List.mem_cons, List.mem_nil_iff, or_false] at hx
    rcases hx with rfl | rfl | rfl <;> assumption

theorem tokensOf_join4 (a b c d : List Item) (ha : Solid a) (hb : Solid b) (hc : Solid c) (hd : Solid d) :
    tokensOf (joinI [a, b, c, d] spI) = tokensOf a ++ tokensOf b ++ tokensOf c ++ tokensOf d := by
  rw [tokensOf_joinI _ _ tokensOf_spI]
  · simp
  · intro x hx
    simp only [List.mem_cons, List.mem_nil_iff, or_false] at hx
    rcases hx with rfl | rfl | rfl | rfl <;> assumption

theorem tokensOf_join5 (a b c d e : List Item) (ha : Solid a) (hb : Solid b) (hc : Solid c) (hd : Solid d)
    (he : Solid e) :
    tokensOf (joinI [a, b, c, d, e] spI) = tokensOf a ++ tokensOf b ++ tokensOf c ++ tokensOf d ++ tokensOf e := by
  rw [tokensOf_joinI _ _ tokensOf_spI]
  · simp
  · intro x hx
    simp only [List.mem_cons, List.mem_nil_iff, or_false] at hx
    rcases hx with rfl | rfl | rfl | rfl | rfl <;> assumption

/-! ## selections -/

theorem tokensOf_aliasWrap (alias : Option Name) (h : WFOptName alias) :
    tokensOf (wrapI [] (optNameI alias) colonSpI) = aliasT alias := by
  cases alias with
  | none => rfl
  | some a => rw [optNameI, wrapI_pos (name_nonempty h)]; rfl

theorem ofList_on : String.ofList kwOnW = "on" := by decide

theorem tokensOf_typeCondWrap (tc : Option TypeRef) (h : WFTypeCond tc) :
    tokensOf (wrapI (kI kwOnW ++ spI) (optTypeI tc) []) = typeCondT tc := by
  cases tc with
  | none => rfl
  | some t =>
    rw [optTypeI, wrapI_pos (namedTypeI_nonempty h)]
    simp [typeCondT, tokensOf_typeI, ofList_on]

theorem nameHead_nonempty {s : String} (h : WFName s) (a b : List Item) :
    (render (a ++ nI s ++ b)).isEmpty = false := by
  have := name_nonempty h
  cases hr : render (nI s) with
  | nil => simp [hr] at this
  | cons c cs => simp [hr]

mutual
theorem tokensOf_selectionI : ∀ s : Selection, WFSelection s → tokensOf (selectionI s) = selectionT s
  | .field alias name args dirs sel _, h => by
    obtain ⟨ha, hn, hargs, hd, hs⟩ := h
    rw [selectionI, tokensOf_join3 _ _ _ (solid_of_nonempty (nameHead_nonempty hn _ _)) (solid_directivesI dirs)
      (solid_optSelSetI sel)]
    simp [selectionT, tokensOf_aliasWrap alias ha, tokensOf_argsParen args hargs, tokensOf_directivesI dirs hd,
      tokensOf_optSelSetI sel hs]
  | .spread name dirs _, h => by
    have hw : tokensOf (wrapI spI (directivesI dirs) []) = tokensOf (directivesI dirs) :=
      tokensOf_wrapI_tokenFree tokensOf_spI tokensOf_nil (solid_directivesI dirs)
    simp [selectionI, selectionT, hw, tokensOf_directivesI dirs h.2.2]
  | .inline tc dirs sel _, h => by
    obtain ⟨htc, hd, hs⟩ := h
    rw [selectionI, tokensOf_join4 _ _ _ _ (solid_of_nonempty rfl) (solid_wrapI _ _ _) (solid_directivesI dirs)
      (solid_of_nonempty (selSetI_nonempty sel))]
    simp [selectionT, tokensOf_typeCondWrap tc htc, tokensOf_directivesI dirs hd, tokensOf_selSetI sel hs]
theorem tokensOf_selSetI : ∀ s : SelectionSet, WFSelSet s → tokensOf (selSetI s) = selSetT s
  | .mk sels _, h => by
    rw [selSetI, tokensOf_blockI _ (solid_selectionsI sels h.2), tokensOf_selectionsI sels h.2]; rfl
theorem tokensOf_optSelSetI : ∀ s : Option SelectionSet, WFOptSelSet s → tokensOf (optSelSetI s) = optSelSetT s
  | none, _ => rfl
  | some s, h => tokensOf_selSetI s h
theorem tokensOf_selectionsI : ∀ ss : List Selection, WFSelections ss →
    ((selectionsI ss).map tokensOf).flatten = selectionsT ss
  | [], _ => rfl
  | s :: ss, h => by
    simp only [selectionsI, List.map_cons, List.flatten_cons, selectionsT]
    rw [tokensOf_selectionI s h.1, tokensOf_selectionsI ss h.2]
theorem solid_selectionsI : ∀ ss : List Selection, WFSelections ss → ∀ x ∈ selectionsI ss, Solid x
  | [], _, x, hx => by simp [selectionsI] at hx
  | s :: ss, h, x, hx => by
    simp only [selectionsI, List.mem_cons] at hx
    rcases hx with rfl | hx
    · exact solid_of_nonempty (selectionI_nonempty s h.1)
    · exact solid_selectionsI ss h.2 x hx
theorem selectionI_nonempty : ∀ s : Selection, WFSelection s → (render (selectionI s)).isEmpty = false
  | .field alias name args dirs sel _, h => by
    rw [selectionI]
    exact joinI_cons_nonempty _ _ _ (nameHead_nonempty h.2.1 _ _)
  | .spread name dirs _, _ => by simp [selectionI, spreadI]
  | .inline tc dirs sel _, _ => by
    rw [selectionI]
    exact joinI_cons_nonempty _ _ _ rfl
theorem selSetI_nonempty : ∀ s : SelectionSet, (render (selSetI s)).isEmpty = false
  | .mk sels _ => blockI_nonempty _
theorem solid_optSelSetI : ∀ s : Option SelectionSet, Solid (optSelSetI s)
  | none => solid_nil
  | some s => solid_of_nonempty (selSetI_nonempty s)
end

end GqlModel.Printer
