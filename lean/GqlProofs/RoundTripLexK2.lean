import GqlProofs.RoundTripLexK
/-! # C08 byte level — `LexK` under `indentI`, `blockI`, descriptions

`indent` only touches newlines; the only token texts that contain one are block-string descriptions, whose `TokText`
is closed under `indent` by definition (`indentIter`). -/
namespace GqlModel.RoundTrip
open GqlModel GqlModel.Lexer GqlModel.Printer

theorem indentC_id : ∀ t : Chars, '\n' ∉ t → indentC t = t
  | [], _ => rfl
  | c :: cs, h => by
    simp only [List.mem_cons, not_or] at h
    have hc : c ≠ '\n' := fun e => h.1 e.symm
    simp [indentC, hc, indentC_id cs h.2]

theorem no_nl_of_all {p : Char → Bool} (hp : p '\n' = false) {t : Chars} (h : t.all p = true) : '\n' ∉ t := by
  intro hm
  have := List.all_eq_true.mp h _ hm
  rw [hp] at this; cases this

/-- characters a number text is made of -/
def numChar (c : Char) : Bool := Reader.isDigit c || c == '-' || c == '+' || c == '.' || c == 'e' || c == 'E'

theorem numChar_digit {c : Char} (h : Reader.isDigit c = true) : numChar c = true := by simp [numChar, h]

theorem all_numChar_digits {ds : Chars} (h : ds.all Reader.isDigit = true) : ds.all numChar = true := by
  rw [List.all_eq_true] at h ⊢
  exact fun c hc => numChar_digit (h c hc)

theorem intBody_num {b : Chars} (h : Reader.isIntBody b = true) : b.all numChar = true := by
  match b, h with
  | c :: r, h =>
    simp only [Reader.isIntBody] at h
    by_cases hc : c = '0'
    · subst hc
      simp only [if_true, List.isEmpty_iff] at h
      subst h; rfl
    · simp only [hc, if_false, Bool.and_eq_true] at h
      simp only [List.all_cons, Bool.and_eq_true]
      exact ⟨numChar_digit h.1, all_numChar_digits h.2⟩

theorem intLit_num {t : Chars} (h : Reader.isIntLit t = true) : t.all numChar = true := by
  match t, h with
  | c :: r, h =>
    simp only [Reader.isIntLit] at h
    by_cases hc : c = '-'
    · subst hc
      simp only [if_true] at h
      simp only [List.all_cons, Bool.and_eq_true]
      exact ⟨rfl, intBody_num h⟩
    · simp only [hc, if_false] at h
      exact intBody_num h

theorem frac_num {t : Chars} (h : Reader.isFracPart t = true) : t.all numChar = true := by
  match t, h with
  | c :: ds, h =>
    simp only [Reader.isFracPart, Bool.and_eq_true, decide_eq_true_eq] at h
    obtain ⟨⟨rfl, _⟩, hd⟩ := h
    simp only [List.all_cons, Bool.and_eq_true]
    exact ⟨rfl, all_numChar_digits hd⟩

theorem exp_num {t : Chars} (h : Reader.isExpPart t = true) : t.all numChar = true := by
  match t, h with
  | e :: r, h =>
    simp only [Reader.isExpPart, Bool.and_eq_true, Bool.or_eq_true, decide_eq_true_eq] at h
    obtain ⟨he, hr⟩ := h
    have hen : numChar e = true := by rcases he with rfl | rfl <;> rfl
    simp only [List.all_cons, Bool.and_eq_true]
    refine ⟨hen, ?_⟩
    match r, hr with
    | s :: ds, hr =>
      by_cases hs : s = '+' ∨ s = '-'
      · simp only [hs, if_true, Bool.and_eq_true] at hr
        simp only [List.all_cons, Bool.and_eq_true]
        exact ⟨by rcases hs with rfl | rfl <;> rfl, all_numChar_digits hr.2⟩
      · simp only [hs, if_false] at hr
        exact all_numChar_digits hr

theorem float_num {t : Chars} (h : Reader.IsFloatLit t) : t.all numChar = true := by
  obtain ⟨ip, fp, ep, rfl, hip, hfp, hep, _⟩ := h
  simp only [List.all_append, Bool.and_eq_true]
  refine ⟨⟨intLit_num hip, ?_⟩, ?_⟩
  · rcases hfp with rfl | h
    · rfl
    · exact frac_num h
  · rcases hep with rfl | h
    · rfl
    · exact exp_num h

theorem isNameC_all {t : Chars} (h : Reader.isNameC t = true) : t.all Reader.isNameCont = true := by
  match t, h with
  | c :: r, h =>
    simp only [Reader.isNameC, Bool.and_eq_true] at h
    simp only [List.all_cons, Bool.and_eq_true, Reader.isNameCont, Bool.or_eq_true]
    exact ⟨Or.inl h.1, by simpa [Reader.isNameCont] using h.2⟩

/-- token texts are stable under `indent` -/
theorem tokText_indent {k : TokenKind} {v : String} {t : Chars} (h : TokText k v t) : TokText k v (indentC t) := by
  have pun : ∀ k' : TokenKind, (v = "" ∧ ∃ c, punctChar k' = some c ∧ t = [c]) → indentC t = t := by
    rintro k' ⟨_, c, hc, rfl⟩
    apply indentC_id
    cases k' <;> simp only [punctChar, Option.some.injEq, reduceCtorEq] at hc <;> subst hc <;> decide
  cases k with
  | name => rw [indentC_id t (no_nl_of_all (by decide) (isNameC_all h.2))]; exact h
  | int => rw [indentC_id t (no_nl_of_all (by decide) (intLit_num h.2))]; exact h
  | float => rw [indentC_id t (no_nl_of_all (by decide) (float_num h.2))]; exact h
  | string =>
    have ht : t = quoteC v.toList := h
    rw [indentC_id t (by rw [ht]; exact quoteC_no_nl _)]; exact h
  | blockString =>
    obtain ⟨hs, j, rfl⟩ := h
    exact ⟨hs, j + 1, rfl⟩
  | spread => obtain ⟨rfl, rfl⟩ := h; exact ⟨rfl, rfl⟩
  | eof => exact h
  | bang => rw [pun _ h]; exact h
  | dollar => rw [pun _ h]; exact h
  | amp => rw [pun _ h]; exact h
  | parenL => rw [pun _ h]; exact h
  | parenR => rw [pun _ h]; exact h
  | colon => rw [pun _ h]; exact h
  | equals => rw [pun _ h]; exact h
  | «at» => rw [pun _ h]; exact h
  | bracketL => rw [pun _ h]; exact h
  | bracketR => rw [pun _ h]; exact h
  | braceL => rw [pun _ h]; exact h
  | pipe => rw [pun _ h]; exact h
  | braceR => rw [pun _ h]; exact h

theorem sd_indentC (a rest : Chars) (h : StartsDelim (a ++ rest)) : StartsDelim (indentC a ++ rest) := by
  cases a with
  | nil => exact h
  | cons c cs =>
    by_cases hc : c = '\n'
    · subst hc; simp only [indentC, if_true, List.cons_append]; exact h
    · simp only [indentC, hc, if_false, List.cons_append]; exact h

theorem lexK_indentI : ∀ (is : List Item) (rest : Chars), LexK is rest → LexK (indentI is) rest
  | [], _, _ => trivial
  | .sep t :: is, rest, h => ⟨all_ignored_indentC t h.1, lexK_indentI is rest h.2⟩
  | .tok k v t :: is, rest, h => by
    refine ⟨tokText_indent h.1, fun hs => ?_, lexK_indentI is rest h.2.2⟩
    have := h.2.1 hs
    have e : render (List.map Item.indent is) = indentC (render is) := render_indentI is
    rw [e]
    exact sd_indentC _ _ this

theorem G_indentI {is : List Item} (h : G is) : G (indentI is) := fun rest hr => lexK_indentI is rest (h rest hr)

/-- a `block`: always closed by `}`, so anything may follow -/
theorem A_blockI (xs : List (List Item)) (h : ∀ x ∈ xs, G x) : A (blockI xs) := by
  simp only [blockI]
  split
  · exact AA_app (A_pI rfl) (A_pI rfl)
  · have hj := G_joinI A_nlI (by decide) xs h
    have h1 : G (pI .braceL ['{'] ++ sI ['\n'] ++ joinI xs (sI ['\n'])) := AG_app (AA_app (A_pI rfl) A_nlI) hj
    have h2 := G_indentI h1
    have h3 : A (sI ['\n'] ++ pI .braceR ['}']) := AA_app A_nlI (A_pI rfl)
    have := GA_app h2 h3 (by decide)
    simpa only [List.append_assoc] using this

/-! ## descriptions -/

theorem G_descI (d : Option String) : G (descI d) := by
  cases d with
  | none => exact G_nil
  | some s =>
    simp only [descI]
    apply G_tok
    by_cases h : descBlockSafeC s.toList = true
    · simp only [h, if_true]
      exact ⟨h, 0, by rw [descC_some, if_pos h]; rfl⟩
    · simp only [h]
      show descC (some s) = quoteC s.toList
      rw [descC_some, if_neg h]

theorem G_withDescTopI {d : Option String} {s : List Item} (h : G s) : G (withDescTopI d s) := by
  simp only [withDescTopI]; split
  · exact h
  · exact AG_app (GA_app (G_descI d) A_nlI (by decide)) h

theorem G_withDescMemberI {d : Option String} {s : List Item} (h : G s) : G (withDescMemberI d s) := by
  simp only [withDescMemberI]; split
  · exact h
  · have hA : A (sI ['\n'] ++ descI d ++ sI ['\n']) := by
      have := AA_app A_nlI (GA_app (G_descI d) A_nlI (by decide))
      simpa only [List.append_assoc] using this
    exact AG_app hA h

end GqlModel.RoundTrip
