import GqlModel.Subscription
/-! Helper lemmas for C15: the inductive invariant of the streaming forwarder, the invariant of the one-shot
paths, and the progress measure. Core Lean only. -/
namespace GqlModel.Subscription
variable {ε ρ : Type}

/-- pointwise relation between delivered results and source events, in order, one each -/
def Matches (P : ρ → ε → Prop) : List ρ → List ε → Prop
  | [], [] => True
  | r :: rs, e :: es => P r e ∧ Matches P rs es
  | _, _ => False

theorem Matches.mono {P Q : ρ → ε → Prop} (h : ∀ r e, P r e → Q r e) :
    ∀ {rs : List ρ} {es : List ε}, Matches P rs es → Matches Q rs es
  | [], [], _ => trivial
  | _ :: _, _ :: _, ⟨h1, h2⟩ => ⟨h _ _ h1, Matches.mono h h2⟩
  | [], _ :: _, h' => h'.elim
  | _ :: _, [], h' => h'.elim

theorem Matches.snoc {P : ρ → ε → Prop} {r : ρ} {e : ε} (hp : P r e) :
    ∀ {rs : List ρ} {es : List ε}, Matches P rs es → Matches P (rs ++ [r]) (es ++ [e])
  | [], [], _ => ⟨hp, trivial⟩
  | _ :: _, _ :: _, ⟨h1, h2⟩ => ⟨h1, Matches.snoc hp h2⟩
  | [], _ :: _, h' => h'.elim
  | _ :: _, [], h' => h'.elim

theorem Matches.length_eq {P : ρ → ε → Prop} :
    ∀ {rs : List ρ} {es : List ε}, Matches P rs es → rs.length = es.length
  | [], [], _ => rfl
  | _ :: _, _ :: _, ⟨_, h2⟩ => by simp [Matches.length_eq h2]
  | [], _ :: _, h' => h'.elim
  | _ :: _, [], h' => h'.elim

theorem Matches.eq_map {f : ε → ρ} :
    ∀ {rs : List ρ} {es : List ε}, Matches (fun r e => r = f e) rs es → rs = es.map f
  | [], [], _ => rfl
  | _ :: _, _ :: _, ⟨h1, h2⟩ => by simp [h1, Matches.eq_map h2]
  | [], _ :: _, h' => h'.elim
  | _ :: _, [], h' => h'.elim

theorem Matches.get {P : ρ → ε → Prop} :
    ∀ {rs : List ρ} {es : List ε}, Matches P rs es → ∀ (i : Nat) (r : ρ) (e : ε), rs[i]? = some r → es[i]? = some e → P r e
  | [], [], _, i, r, e, hr, _ => by simp at hr
  | r0 :: rs, e0 :: es, ⟨h1, h2⟩, i, r, e, hr, he => by
    cases i with
    | zero => simp at hr he; subst hr; subst he; exact h1
    | succ i => simp at hr he; exact Matches.get h2 i r e hr he
  | [], _ :: _, h', _, _, _, _, _ => h'.elim
  | _ :: _, [], h', _, _, _, _, _ => h'.elim

/-- what a delivered result may be for its event: the mapped result, or — only if `w` — the context error -/
def Rel (c : Cfg ε ρ) (w : Bool) (r : ρ) (e : ε) : Prop := r = c.exec e ∨ (w = true ∧ r = c.ctxErr)

theorem Rel.mono (c : Cfg ε ρ) {w w' : Bool} (hw : w = true → w' = true) (r : ρ) (e : ε) :
    Rel c w r e → Rel c w' r e := by
  rintro (h | ⟨h1, h2⟩)
  · exact Or.inl h
  · exact Or.inr ⟨hw h1, h2⟩

/-- Inductive invariant of the streaming request. `pre` = events whose results were delivered, `rest` = the
others; the forwarder's own state accounts for the head of `rest` while it holds a result. -/
def StreamInv (c : Cfg ε ρ) (w : Bool) (events : List ε) (s : St ε ρ) : Prop :=
  s.buf = [] ∧
  ∃ pre rest, events = pre ++ rest ∧ Matches (Rel c w) s.delivered pre ∧
    (match s.fwd with
     | .idle => s.pending = rest
     | .holding r => ∃ e es, rest = e :: es ∧ Rel c w r e ∧ s.pending = es
     | .final _ => False
     | .done => s.cancelled = true ∨ (s.srcClosed = true ∧ s.pending = [] ∧ rest = []))

theorem streamInv_init (c : Cfg ε ρ) (w : Bool) (events : List ε) :
    StreamInv c w events (init (.stream events)) :=
  ⟨rfl, [], events, rfl, trivial, rfl⟩

/-- every action preserves the invariant; `w` may only grow, and a `produce true` needs the weak relation -/
theorem streamInv_step (c : Cfg ε ρ) {w w' : Bool} (events : List ε) {s t : St ε ρ} (a : Act)
    (hw : w = true → w' = true) (hp : a = .produce true → w' = true)
    (h : StreamInv c w events s) (hs : step c s a = some t) : StreamInv c w' events t := by
  obtain ⟨pending, srcClosed, cancelled, fwd, buf, consumer, delivered⟩ := s
  obtain ⟨hb, pre, rest, hev, hm, hf⟩ := h
  simp only at hb hm hf
  subst hb
  have hm' : Matches (Rel c w') delivered pre := hm.mono (Rel.mono c hw)
  have hr' : ∀ r e, Rel c w r e → Rel c w' r e := Rel.mono c hw
  cases a with
  | produce viaCtx =>
    cases fwd <;> cases pending <;> simp [step] at hs
    obtain ⟨hc, rfl⟩ := hs
    refine ⟨rfl, pre, rest, hev, hm', ?_⟩
    refine ⟨_, _, hf.symm, ?_, rfl⟩
    cases viaCtx with
    | false => exact Or.inl (by simp)
    | true => exact Or.inr ⟨hp rfl, by simp⟩
  | deliver =>
    cases consumer <;> cases fwd <;> simp [step] at hs
    · subst hs
      obtain ⟨e, es, hrest, hr, hpend⟩ := hf
      exact ⟨rfl, pre ++ [e], es, by simp [hev, hrest], hm'.snoc (hr' _ _ hr), hpend⟩
    · exact hf.elim
  | cancel =>
    cases cancelled <;> simp [step] at hs
    subst hs
    refine ⟨rfl, pre, rest, hev, hm', ?_⟩
    cases fwd <;> simp only [] at hf ⊢
    · exact hf
    · obtain ⟨e, es, h1, h2, h3⟩ := hf
      exact ⟨e, es, h1, hr' _ _ h2, h3⟩
    · simp
  | closeSource =>
    cases pending <;> cases srcClosed <;> simp [step] at hs
    subst hs
    refine ⟨rfl, pre, rest, hev, hm', ?_⟩
    cases fwd <;> simp only [] at hf ⊢
    · exact hf
    · obtain ⟨e, es, h1, h2, h3⟩ := hf
      exact ⟨e, es, h1, hr' _ _ h2, h3⟩
    · rcases hf with hf | ⟨h1, h2, h3⟩
      · exact Or.inl hf
      · exact Or.inr ⟨by simp, h2, h3⟩
  | observeCancel =>
    cases cancelled <;> cases fwd <;> simp [step] at hs
    · subst hs; exact ⟨rfl, pre, rest, hev, hm', Or.inl rfl⟩
    · subst hs; exact ⟨rfl, pre, rest, hev, hm', Or.inl rfl⟩
    · exact hf.elim
  | finish =>
    cases fwd <;> cases pending <;> cases srcClosed <;> simp [step] at hs
    subst hs
    simp only [] at hf
    exact ⟨rfl, pre, rest, hev, hm', Or.inr ⟨rfl, rfl, hf.symm⟩⟩
  | pause =>
    cases consumer <;> simp [step] at hs
    subst hs
    refine ⟨rfl, pre, rest, hev, hm', ?_⟩
    cases fwd <;> simp only [] at hf ⊢
    · exact hf
    · obtain ⟨e, es, h1, h2, h3⟩ := hf
      exact ⟨e, es, h1, hr' _ _ h2, h3⟩
    · exact hf
  | resume =>
    cases consumer <;> simp [step] at hs
    subst hs
    refine ⟨rfl, pre, rest, hev, hm', ?_⟩
    cases fwd <;> simp only [] at hf ⊢
    · exact hf
    · obtain ⟨e, es, h1, h2, h3⟩ := hf
      exact ⟨e, es, h1, hr' _ _ h2, h3⟩
    · exact hf
  | stop =>
    cases consumer <;> simp [step] at hs
    all_goals
      subst hs
      refine ⟨rfl, pre, rest, hev, hm', ?_⟩
      cases fwd <;> simp only [] at hf ⊢
      · exact hf
      · obtain ⟨e, es, h1, h2, h3⟩ := hf
        exact ⟨e, es, h1, hr' _ _ h2, h3⟩
      · exact hf

theorem step_cancelled_mono (c : Cfg ε ρ) {s t : St ε ρ} {a : Act} (hs : step c s a = some t)
    (h : s.cancelled = true) : t.cancelled = true := by
  obtain ⟨pending, srcClosed, cancelled, fwd, buf, consumer, delivered⟩ := s
  simp only at h; subst h
  cases a with
  | produce v => cases fwd <;> cases pending <;> simp [step] at hs; obtain ⟨_, rfl⟩ := hs; rfl
  | deliver => cases consumer <;> cases buf <;> cases fwd <;> simp [step] at hs <;> subst hs <;> rfl
  | cancel => simp [step] at hs
  | closeSource => cases pending <;> cases srcClosed <;> simp [step] at hs; subst hs; rfl
  | observeCancel => cases fwd <;> simp [step] at hs <;> subst hs <;> rfl
  | finish => cases fwd <;> cases pending <;> cases srcClosed <;> simp [step] at hs; subst hs; rfl
  | pause => cases consumer <;> simp [step] at hs; subst hs; rfl
  | resume => cases consumer <;> simp [step] at hs; subst hs; rfl
  | stop => cases consumer <;> simp [step] at hs <;> subst hs <;> rfl

theorem step_produce_true_cancelled (c : Cfg ε ρ) {s t : St ε ρ} (hs : step c s (.produce true) = some t) :
    t.cancelled = true := by
  obtain ⟨pending, srcClosed, cancelled, fwd, buf, consumer, delivered⟩ := s
  cases fwd <;> cases pending <;> simp [step] at hs
  obtain ⟨h, rfl⟩ := hs
  exact h

/-- the invariant with `w := cancelled` holds along every schedule -/
theorem streamInv_run (c : Cfg ε ρ) (events : List ε) :
    ∀ (acts : List Act) (s t : St ε ρ), StreamInv c s.cancelled events s → run c s acts = some t →
      StreamInv c t.cancelled events t
  | [], s, t, h, hr => by simp [run] at hr; subst hr; exact h
  | a :: as, s, t, h, hr => by
    simp only [run] at hr
    cases hs : step c s a with
    | none => simp [hs] at hr
    | some u =>
      simp only [hs] at hr
      refine streamInv_run c events as u t ?_ hr
      exact streamInv_step c events a (step_cancelled_mono c hs)
        (fun ha => by subst ha; exact step_produce_true_cancelled c hs) h hs

/-- …and with the exact relation along every schedule in which `Execute` never saw the done context -/
theorem streamInv_run_pure (c : Cfg ε ρ) (events : List ε) :
    ∀ (acts : List Act) (s t : St ε ρ), (∀ a ∈ acts, a ≠ .produce true) → StreamInv c false events s →
      run c s acts = some t → StreamInv c false events t
  | [], s, t, _, h, hr => by simp [run] at hr; subst hr; exact h
  | a :: as, s, t, hp, h, hr => by
    simp only [run] at hr
    cases hs : step c s a with
    | none => simp [hs] at hr
    | some u =>
      simp only [hs] at hr
      refine streamInv_run_pure c events as u t (fun b hb => hp b (List.mem_cons_of_mem _ hb)) ?_ hr
      exact streamInv_step c events a id (fun ha => absurd ha (hp a (List.mem_cons_self ..))) h hs

/-! ## One-shot requests -/

/-- failure inside the goroutine / non-channel result: the single result is pending, delivered, or was
dropped because the context was cancelled first -/
def OneShotInv (r : ρ) (s : St ε ρ) : Prop :=
  s.pending = [] ∧ s.buf = [] ∧
  ((s.fwd = .final r ∧ s.delivered = []) ∨ (s.fwd = .done ∧ s.delivered = [r]) ∨
   (s.fwd = .done ∧ s.delivered = [] ∧ s.cancelled = true))

/-- parse / validation failure: the single result is in the buffered closed channel, or delivered -/
def InvalidInv (r : ρ) (s : St ε ρ) : Prop :=
  s.pending = [] ∧ s.fwd = .done ∧ ((s.buf = [r] ∧ s.delivered = []) ∨ (s.buf = [] ∧ s.delivered = [r]))

theorem oneShotInv_step (c : Cfg ε ρ) (r : ρ) {s t : St ε ρ} (a : Act) (h : OneShotInv r s)
    (hs : step c s a = some t) : OneShotInv r t := by
  obtain ⟨pending, srcClosed, cancelled, fwd, buf, consumer, delivered⟩ := s
  obtain ⟨hp, hb, hf⟩ := h
  simp only at hp hb hf
  subst hp; subst hb
  cases a with
  | produce v => cases fwd <;> simp [step] at hs
  | deliver =>
    cases consumer <;> cases fwd <;> simp [step] at hs <;> subst hs <;> simp_all [OneShotInv]
  | cancel =>
    cases cancelled <;> simp [step] at hs; subst hs
    simp only [Bool.false_eq_true, and_false, or_false] at hf
    refine ⟨rfl, rfl, ?_⟩
    rcases hf with h | h
    · exact Or.inl h
    · exact Or.inr (Or.inl h)
  | closeSource => cases srcClosed <;> simp [step] at hs; subst hs; simp_all [OneShotInv]
  | observeCancel =>
    cases cancelled <;> cases fwd <;> simp [step] at hs <;> subst hs <;> simp_all [OneShotInv]
  | finish => cases fwd <;> cases srcClosed <;> simp [step] at hs <;> subst hs <;> simp_all
  | pause => cases consumer <;> simp [step] at hs; subst hs; simp_all [OneShotInv]
  | resume => cases consumer <;> simp [step] at hs; subst hs; simp_all [OneShotInv]
  | stop => cases consumer <;> simp [step] at hs <;> subst hs <;> simp_all [OneShotInv]

theorem invalidInv_step (c : Cfg ε ρ) (r : ρ) {s t : St ε ρ} (a : Act) (h : InvalidInv r s)
    (hs : step c s a = some t) : InvalidInv r t := by
  obtain ⟨pending, srcClosed, cancelled, fwd, buf, consumer, delivered⟩ := s
  obtain ⟨hp, hf, hb⟩ := h
  simp only at hp hf hb
  subst hp; subst hf
  cases a with
  | produce v => simp [step] at hs
  | deliver =>
    cases consumer <;> cases buf <;> simp [step] at hs <;> subst hs <;> simp_all [InvalidInv]
  | cancel => cases cancelled <;> simp [step] at hs; subst hs; simp_all [InvalidInv]
  | closeSource => cases srcClosed <;> simp [step] at hs; subst hs; simp_all [InvalidInv]
  | observeCancel => cases cancelled <;> simp [step] at hs
  | finish => simp [step] at hs
  | pause => cases consumer <;> simp [step] at hs; subst hs; simp_all [InvalidInv]
  | resume => cases consumer <;> simp [step] at hs; subst hs; simp_all [InvalidInv]
  | stop => cases consumer <;> simp [step] at hs <;> subst hs <;> simp_all [InvalidInv]

theorem inv_run (c : Cfg ε ρ) (I : St ε ρ → Prop)
    (hstep : ∀ (s t : St ε ρ) (a : Act), I s → step c s a = some t → I t) :
    ∀ (acts : List Act) (s t : St ε ρ), I s → run c s acts = some t → I t
  | [], s, t, h, hr => by simp [run] at hr; subst hr; exact h
  | a :: as, s, t, h, hr => by
    simp only [run] at hr
    cases hs : step c s a with
    | none => simp [hs] at hr
    | some u =>
      simp only [hs] at hr
      exact inv_run c I hstep as u t (hstep s u a h hs) hr

theorem inv_run_of (c : Cfg ε ρ) (I : St ε ρ → Prop) (A : Act → Prop)
    (hstep : ∀ (s t : St ε ρ) (a : Act), A a → I s → step c s a = some t → I t) :
    ∀ (acts : List Act) (s t : St ε ρ), (∀ a ∈ acts, A a) → I s → run c s acts = some t → I t
  | [], s, t, _, h, hr => by simp [run] at hr; subst hr; exact h
  | a :: as, s, t, hA, h, hr => by
    simp only [run] at hr
    cases hs : step c s a with
    | none => simp [hs] at hr
    | some u =>
      simp only [hs] at hr
      exact inv_run_of c I A hstep as u t (fun b hb => hA b (List.mem_cons_of_mem _ hb))
        (hstep s u a (hA a (List.mem_cons_self ..)) h hs) hr

/-- without `cancel`, `pause`, `stop` the consumer keeps reading and the context stays live -/
theorem prompt_uncancelled_step (c : Cfg ε ρ) (s t : St ε ρ) (a : Act)
    (ha : a ≠ .cancel ∧ a ≠ .pause ∧ a ≠ .stop)
    (h : s.consumer = .reading ∧ s.cancelled = false) (hs : step c s a = some t) :
    t.consumer = .reading ∧ t.cancelled = false := by
  obtain ⟨pending, srcClosed, cancelled, fwd, buf, consumer, delivered⟩ := s
  obtain ⟨h1, h2⟩ := h
  simp only at h1 h2; subst h1; subst h2
  obtain ⟨a1, a2, a3⟩ := ha
  cases a with
  | produce v => cases fwd <;> cases pending <;> simp [step] at hs; obtain ⟨_, rfl⟩ := hs; exact ⟨rfl, rfl⟩
  | deliver => cases buf <;> cases fwd <;> simp [step] at hs <;> subst hs <;> exact ⟨rfl, rfl⟩
  | cancel => exact absurd rfl a1
  | closeSource => cases pending <;> cases srcClosed <;> simp [step] at hs; subst hs; exact ⟨rfl, rfl⟩
  | observeCancel => simp [step] at hs
  | finish => cases fwd <;> cases pending <;> cases srcClosed <;> simp [step] at hs; subst hs; exact ⟨rfl, rfl⟩
  | pause => exact absurd rfl a2
  | resume => simp [step] at hs
  | stop => exact absurd rfl a3

/-! ## Progress measure: every forwarder / consumer-receive / producer action strictly decreases it -/

def fwdRank : Fwd ρ → Nat
  | .idle => 1 | .holding _ => 2 | .final _ => 1 | .done => 0

def measure (s : St ε ρ) : Nat :=
  2 * s.pending.length + s.buf.length + (if s.srcClosed then 0 else 1) + fwdRank s.fwd

theorem step_progress_decreases (c : Cfg ε ρ) {s t : St ε ρ} {a : Act} (ha : a ∈ progressActs)
    (hs : step c s a = some t) : measure t < measure s := by
  obtain ⟨pending, srcClosed, cancelled, fwd, buf, consumer, delivered⟩ := s
  simp only [progressActs, List.mem_cons, List.not_mem_nil, or_false] at ha
  rcases ha with rfl | rfl | rfl | rfl | rfl | rfl
  · cases fwd <;> cases pending <;> simp [step] at hs; subst hs; simp [measure, fwdRank]; omega
  · cases fwd <;> cases pending <;> simp [step] at hs; obtain ⟨_, rfl⟩ := hs; simp [measure, fwdRank]; omega
  · cases consumer <;> cases buf <;> cases fwd <;> simp [step] at hs <;> subst hs <;>
      simp [measure, fwdRank] <;> omega
  · cases pending <;> cases srcClosed <;> simp [step] at hs; subst hs; simp [measure]
  · cases cancelled <;> cases fwd <;> simp [step] at hs <;> subst hs <;> simp [measure, fwdRank] <;> omega
  · cases fwd <;> cases pending <;> cases srcClosed <;> simp [step] at hs; subst hs; simp [measure, fwdRank]

theorem progress_run_bound (c : Cfg ε ρ) :
    ∀ (acts : List Act) (s t : St ε ρ), (∀ a ∈ acts, a ∈ progressActs) → run c s acts = some t →
      acts.length + measure t ≤ measure s
  | [], s, t, _, hr => by simp [run] at hr; subst hr; simp
  | a :: as, s, t, hp, hr => by
    simp only [run] at hr
    cases hs : step c s a with
    | none => simp [hs] at hr
    | some u =>
      simp only [hs] at hr
      have h1 := step_progress_decreases c (hp a (List.mem_cons_self ..)) hs
      have h2 := progress_run_bound c as u t (fun b hb => hp b (List.mem_cons_of_mem _ hb)) hr
      simp only [List.length_cons]; omega

end GqlModel.Subscription
