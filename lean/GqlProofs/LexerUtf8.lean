import GqlModel.Lexer
/-! Facts about `decodeRune` / `runeAt` used by the lexer proofs. -/
namespace GqlModel.Lexer
open GqlModel.Utf8

/-- turn equalities between bytes into equalities between their numeric values (for `omega`) -/
macro "bnorm" loc:(Lean.Parser.Tactic.location)? : tactic =>
  `(tactic| simp only [← UInt8.toNat_inj, UInt8.toNat_ofNat, Nat.reducePow, Nat.reduceMod, ne_eq] $[$loc]?)

theorem isCont_iff (b : UInt8) : isCont b = true ↔ 0x80 ≤ b.toNat ∧ b.toNat ≤ 0xBF := by
  simp [isCont]

theorem lo3_spec (b : Nat) : (b = 0xE0 ∧ lo3 b = 0xA0) ∨ (b ≠ 0xE0 ∧ lo3 b = 0x80) := by
  unfold lo3; split <;> simp_all
theorem hi3_spec (b : Nat) : (b = 0xED ∧ hi3 b = 0x9F) ∨ (b ≠ 0xED ∧ hi3 b = 0xBF) := by
  unfold hi3; split <;> simp_all
theorem lo4_spec (b : Nat) : (b = 0xF0 ∧ lo4 b = 0x90) ∨ (b ≠ 0xF0 ∧ lo4 b = 0x80) := by
  unfold lo4; split <;> simp_all
theorem hi4_spec (b : Nat) : (b = 0xF4 ∧ hi4 b = 0x8F) ∨ (b ≠ 0xF4 ∧ hi4 b = 0xBF) := by
  unfold hi4; split <;> simp_all

/-- the shapes a decoding at a byte ≥ 0x80 can take -/
theorem decodeRune_cases (c : UInt8) (r : Bytes) (h : 128 ≤ c.toNat) :
    decodeRune (c :: r) = (runeError, 1) ∨
    (∃ b1 r1, r = b1 :: r1 ∧ 0xC2 ≤ c.toNat ∧ c.toNat < 0xE0 ∧ 0x80 ≤ b1.toNat ∧ b1.toNat ≤ 0xBF ∧
      decodeRune (c :: r) = ((c.toNat % 32) * 64 + b1.toNat % 64, 2)) ∨
    (∃ b1 b2 r2, r = b1 :: b2 :: r2 ∧ 0xE0 ≤ c.toNat ∧ c.toNat < 0xF0 ∧ lo3 c.toNat ≤ b1.toNat ∧ b1.toNat ≤ hi3 c.toNat ∧
      0x80 ≤ b2.toNat ∧ b2.toNat ≤ 0xBF ∧
      decodeRune (c :: r) = ((c.toNat % 16) * 4096 + (b1.toNat % 64) * 64 + b2.toNat % 64, 3)) ∨
    (∃ b1 b2 b3 r3, r = b1 :: b2 :: b3 :: r3 ∧ 0xF0 ≤ c.toNat ∧ c.toNat < 0xF5 ∧ lo4 c.toNat ≤ b1.toNat ∧ b1.toNat ≤ hi4 c.toNat ∧
      0x80 ≤ b2.toNat ∧ b2.toNat ≤ 0xBF ∧ 0x80 ≤ b3.toNat ∧ b3.toNat ≤ 0xBF ∧
      decodeRune (c :: r) = ((c.toNat % 8) * 262144 + (b1.toNat % 64) * 4096 + (b2.toNat % 64) * 64 + b3.toNat % 64, 4)) := by
  unfold decodeRune
  simp only
  split
  · omega
  split
  · exact Or.inl rfl
  split
  · split
    · rename_i b1 r1
      split
      · rename_i hcont
        rw [isCont_iff] at hcont
        exact Or.inr (Or.inl ⟨b1, r1, rfl, by omega, by omega, hcont.1, hcont.2, rfl⟩)
      · exact Or.inl rfl
    · exact Or.inl rfl
  split
  · split
    · rename_i b1 b2 r2
      split
      · rename_i hcond
        simp only [isCont_iff] at hcond
        exact Or.inr (Or.inr (Or.inl ⟨b1, b2, r2, rfl, by omega, by omega, hcond.1, hcond.2.1, hcond.2.2.1, hcond.2.2.2, rfl⟩))
      · exact Or.inl rfl
    · exact Or.inl rfl
  split
  · split
    · rename_i b1 b2 b3 r3
      split
      · rename_i hcond
        simp only [isCont_iff] at hcond
        exact Or.inr (Or.inr (Or.inr ⟨b1, b2, b3, r3, rfl, by omega, by omega, hcond.1, hcond.2.1, hcond.2.2.1.1, hcond.2.2.1.2,
          hcond.2.2.2.1, hcond.2.2.2.2, rfl⟩))
      · exact Or.inl rfl
    · exact Or.inl rfl
  · exact Or.inl rfl

theorem u8_eq_of_toNat {c : UInt8} {k : Nat} (hk : k < 256) (h : c.toNat = k) : c = UInt8.ofNat k := by
  apply UInt8.toNat_inj.mp
  simp [h, Nat.mod_eq_of_lt hk]

theorem decodeRune_bom (r : Bytes) : decodeRune (0xEF :: 0xBB :: 0xBF :: r) = (0xFEFF, 3) := by
  simp [decodeRune, isCont, lo3, hi3]

/-- everything the lexer proofs need to know about decoding at a byte ≥ 0x80 -/
theorem decodeRune_high (c : UInt8) (r : Bytes) (h : 128 ≤ c.toNat) :
    128 ≤ (decodeRune (c :: r)).1 ∧ 1 ≤ (decodeRune (c :: r)).2 ∧ (decodeRune (c :: r)).2 ≤ (c :: r).length ∧
    (∀ b ∈ (c :: r).take (decodeRune (c :: r)).2, 128 ≤ b.toNat) ∧
    ((decodeRune (c :: r)).1 = 0xFEFF ↔ ∃ r', c = 0xEF ∧ r = 0xBB :: 0xBF :: r') ∧
    ((decodeRune (c :: r)).1 = 0xFEFF → (decodeRune (c :: r)).2 = 3) := by
  have hc := c.toNat_lt
  have hl3 := lo3_spec c.toNat
  have hh3 := hi3_spec c.toNat
  have hl4 := lo4_spec c.toNat
  have hh4 := hi4_spec c.toNat
  have hrev : (∃ r', c = 0xEF ∧ r = 0xBB :: 0xBF :: r') → (decodeRune (c :: r)).1 = 0xFEFF := by
    rintro ⟨r', rfl, rfl⟩; rw [decodeRune_bom]
  rcases decodeRune_cases c r h with he | ⟨b1, r1, rfl, h1, h2, h3, h4, he⟩ | ⟨b1, b2, r2, rfl, h1, h2, h3, h4, h5, h6, he⟩ |
      ⟨b1, b2, b3, r3, rfl, h1, h2, h3, h4, h5, h6, h7, h8, he⟩
  · rw [he] at hrev ⊢
    refine ⟨by simp [runeError], by simp, by simp, ?_, ⟨?_, hrev⟩, by simp [runeError]⟩
    · intro b hb; simp at hb; subst hb; exact h
    · intro h'; simp [runeError] at h'
  · rw [he] at hrev ⊢
    refine ⟨by simp only; omega, by simp, by simp, ?_, ⟨?_, hrev⟩, by simp only; omega⟩
    · intro b hb; simp at hb; rcases hb with rfl | rfl <;> omega
    · intro h'; simp only at h'; omega
  · rw [he] at hrev ⊢
    have hb1 := b1.toNat_lt
    have hb2 := b2.toNat_lt
    refine ⟨by simp only; omega, by simp, by simp, ?_, ⟨?_, hrev⟩, fun _ => rfl⟩
    · intro b hb; simp at hb
      rcases hb with rfl | rfl | rfl <;> omega
    · intro h'
      simp only at h'
      have e0 : c.toNat = 0xEF := by omega
      have e1 : b1.toNat = 0xBB := by omega
      have e2 : b2.toNat = 0xBF := by omega
      have c0 : c = 0xEF := u8_eq_of_toNat (k := 0xEF) (by decide) e0
      have c1 : b1 = 0xBB := u8_eq_of_toNat (k := 0xBB) (by decide) e1
      have c2 : b2 = 0xBF := u8_eq_of_toNat (k := 0xBF) (by decide) e2
      exact ⟨r2, c0, by rw [c1, c2]⟩
  · rw [he] at hrev ⊢
    have hb1 := b1.toNat_lt
    have hb2 := b2.toNat_lt
    have hb3 := b3.toNat_lt
    refine ⟨by simp only; omega, by simp, by simp, ?_, ⟨?_, hrev⟩, ?_⟩
    · intro b hb; simp at hb
      rcases hb with rfl | rfl | rfl | rfl <;> omega
    · intro h'; simp only at h'; omega
    · intro h'; simp only at h'; omega

end GqlModel.Lexer
