import GqlProofs.ParserSound
import GqlProofs.ParserDerivs
/-! Termination of the parser model M as a theorem (C03 `parse_progress`): no action ever reports `PErr.fuel`.
Three properties of actions, composed by type-class resolution over the `do` blocks of `GqlModel/Parser.lean`:
`Mono m` (the token list never grows), `Strict m` (success consumes at least one token), `NFb B m` (on a state
with at most `B` tokens left, `m` does not run out of fuel). -/
set_option linter.unusedSimpArgs false

namespace GqlModel.Parser
open GqlModel GqlModel.Grammar

set_option synthInstance.maxSize 1024
set_option synthInstance.maxHeartbeats 200000

class Mono {α} (m : P α) : Prop where
  le : ∀ σ a σ', m σ = .ok (a, σ') → σ'.toks.length ≤ σ.toks.length

class Strict {α} (m : P α) : Prop where
  lt : ∀ σ a σ', m σ = .ok (a, σ') → σ'.toks.length < σ.toks.length

class NFb {α} (B : Nat) (m : P α) : Prop where
  nf : ∀ σ, σ.toks.length ≤ B → m σ ≠ .error .fuel

/-- a token kind other than EOF -/
class NotEOF (k : TokenKind) : Prop where
  ne : k ≠ .eof

instance : NotEOF .bang := ⟨by decide⟩
instance : NotEOF .dollar := ⟨by decide⟩
instance : NotEOF .parenL := ⟨by decide⟩
instance : NotEOF .parenR := ⟨by decide⟩
instance : NotEOF .spread := ⟨by decide⟩
instance : NotEOF .colon := ⟨by decide⟩
instance : NotEOF .equals := ⟨by decide⟩
instance : NotEOF .at := ⟨by decide⟩
instance : NotEOF .bracketL := ⟨by decide⟩
instance : NotEOF .bracketR := ⟨by decide⟩
instance : NotEOF .braceL := ⟨by decide⟩
instance : NotEOF .pipe := ⟨by decide⟩
instance : NotEOF .braceR := ⟨by decide⟩
instance : NotEOF .name := ⟨by decide⟩
instance : NotEOF .amp := ⟨by decide⟩

theorem bind_error {α β} {m : P α} {f : α → P β} {σ : PState} {e : PErr} :
    (m >>= f) σ = .error e ↔ m σ = .error e ∨ ∃ a σ1, m σ = .ok (a, σ1) ∧ f a σ1 = .error e := by
  show P.bind m f σ = .error e ↔ _
  unfold P.bind
  cases h : m σ with
  | error e' => simp
  | ok p =>
    obtain ⟨a, σ1⟩ := p
    simp only [reduceCtorEq, false_or, Except.ok.injEq, Prod.mk.injEq]
    constructor
    · intro hf; exact ⟨a, σ1, ⟨rfl, rfl⟩, hf⟩
    · rintro ⟨a', σ', ⟨rfl, rfl⟩, hf⟩; exact hf

instance (priority := low) Strict.mono {α} {m : P α} [h : Strict m] : Mono m := ⟨fun σ a σ' hm => Nat.le_of_lt (h.lt σ a σ' hm)⟩

/-! ### combinators -/

instance {α} (a : α) : Mono (pure a : P α) := ⟨fun σ b σ' h => by obtain ⟨_, rfl⟩ := pure_ok.mp h; exact Nat.le_refl _⟩
instance {α} {B} (a : α) : NFb B (pure a : P α) := ⟨fun σ _ h => by simp at h⟩

instance Mono.bind {α β} {m : P α} {f : α → P β} [hm : Mono m] [hf : ∀ a, Mono (f a)] : Mono (m >>= f) :=
  ⟨fun σ b σ' h => by
    obtain ⟨a, σ1, h1, h2⟩ := bind_ok.mp h
    exact Nat.le_trans ((hf a).le _ _ _ h2) (hm.le _ _ _ h1)⟩

instance Strict.bind_left {α β} {m : P α} {f : α → P β} [hm : Strict m] [hf : ∀ a, Mono (f a)] : Strict (m >>= f) :=
  ⟨fun σ b σ' h => by
    obtain ⟨a, σ1, h1, h2⟩ := bind_ok.mp h
    exact Nat.lt_of_le_of_lt ((hf a).le _ _ _ h2) (hm.lt _ _ _ h1)⟩

instance Strict.bind_right {α β} {m : P α} {f : α → P β} [hm : Mono m] [hf : ∀ a, Strict (f a)] : Strict (m >>= f) :=
  ⟨fun σ b σ' h => by
    obtain ⟨a, σ1, h1, h2⟩ := bind_ok.mp h
    exact Nat.lt_of_lt_of_le ((hf a).lt _ _ _ h2) (hm.le _ _ _ h1)⟩

instance NFb.bind {α β} {B} {m : P α} {f : α → P β} [hm : NFb B m] [hmm : Mono m] [hf : ∀ a, NFb B (f a)] : NFb B (m >>= f) :=
  ⟨fun σ hB h => by
    rcases bind_error.mp h with h1 | ⟨a, σ1, h1, h2⟩
    · exact hm.nf σ hB h1
    · exact (hf a).nf σ1 (Nat.le_trans (hmm.le _ _ _ h1) hB) h2⟩

instance {α} {c : Prop} [Decidable c] {a b : P α} [Mono a] [Mono b] : Mono (if c then a else b) := by
  split <;> infer_instance
instance {α} {c : Prop} [Decidable c] {a b : P α} [Strict a] [Strict b] : Strict (if c then a else b) := by
  split <;> infer_instance
instance {α} {B} {c : Prop} [Decidable c] {a b : P α} [NFb B a] [NFb B b] : NFb B (if c then a else b) := by
  split <;> infer_instance

/-! ### primitives -/

theorem adv_len_le (σ : PState) : σ.adv.toks.length ≤ σ.toks.length := by
  cases h : σ.toks <;> simp [PState.adv, h]

theorem adv_len_lt {σ : PState} {k : TokenKind} (hk : k ≠ .eof) (h : σ.cur.kind = k) : σ.adv.toks.length < σ.toks.length := by
  obtain ⟨r, hr⟩ := toks_of_cur_kind hk h
  simp [PState.adv, hr]

instance : Mono cur := ⟨fun σ a σ' h => by simp at h; rw [← h.2]; exact Nat.le_refl _⟩
instance {B} : NFb B cur := ⟨fun σ _ h => by simp at h⟩
instance : Mono advance := ⟨fun σ a σ' h => by simp at h; rw [← h]; exact adv_len_le σ⟩
instance {B} : NFb B advance := ⟨fun σ _ h => by simp at h⟩
instance {α} (p : Nat) : Mono (fail p : P α) := ⟨fun σ a σ' h => by simp at h⟩
instance {α} (a : Bool) (p : Nat) : Mono (failAt a p : P α) := ⟨fun σ x σ' h => by simp at h⟩
instance {α} (a : Bool) (p : Nat) : Strict (failAt a p : P α) := ⟨fun σ x σ' h => by simp at h⟩
instance {α} {B} (a : Bool) (p : Nat) : NFb B (failAt a p : P α) := ⟨fun σ _ h => by simp at h⟩
instance {α} (p : Nat) : Strict (fail p : P α) := ⟨fun σ a σ' h => by simp at h⟩
instance {α} {B} (p : Nat) : NFb B (fail p : P α) := ⟨fun σ _ h => by simp at h⟩
instance {α} : Mono (unexpected : P α) := ⟨fun σ a σ' h => by simp at h⟩
instance {α} : Strict (unexpected : P α) := ⟨fun σ a σ' h => by simp at h⟩
instance {α} {B} : NFb B (unexpected : P α) := ⟨fun σ _ h => by simp at h⟩
instance {α} : Mono (outOfFuel : P α) := ⟨fun σ a σ' h => by simp at h⟩
instance {α} : Strict (outOfFuel : P α) := ⟨fun σ a σ' h => by simp at h⟩
instance : Mono flagBad := ⟨fun σ a σ' h => by simp at h; rw [← h]; exact Nat.le_refl _⟩
instance {B} : NFb B flagBad := ⟨fun σ _ h => by simp at h⟩
instance (s : Nat) : Mono (loc s) := ⟨fun σ a σ' h => by simp at h; rw [← h.2]; exact Nat.le_refl _⟩
instance {B} (s : Nat) : NFb B (loc s) := ⟨fun σ _ h => by simp at h⟩
instance : Mono loopFuel := ⟨fun σ a σ' h => by simp at h; rw [← h.2]; exact Nat.le_refl _⟩
instance {B} : NFb B loopFuel := ⟨fun σ _ h => by simp at h⟩
instance : Mono lookahead := ⟨fun σ a σ' h => by simp at h; rw [← h.2]; exact Nat.le_refl _⟩
instance {B} : NFb B lookahead := ⟨fun σ _ h => by simp at h⟩
instance (k : TokenKind) : Mono (peek k) := ⟨fun σ a σ' h => by simp at h; rw [← h.2]; exact Nat.le_refl _⟩
instance {B} (k : TokenKind) : NFb B (peek k) := ⟨fun σ _ h => by simp at h⟩

instance (k : TokenKind) : Mono (skip k) := ⟨fun σ a σ' h => by
  unfold skip at h
  split at h <;> simp at h <;> rw [← h.2]
  · exact adv_len_le σ
  · exact Nat.le_refl _⟩
instance {B} (k : TokenKind) : NFb B (skip k) := ⟨fun σ _ h => by unfold skip at h; split at h <;> simp at h⟩

instance (k : TokenKind) [hk : NotEOF k] : Strict (expect k) := ⟨fun σ a σ' h => by
  unfold expect at h
  split at h
  · rename_i hc; simp at h; rw [← h.2]; exact adv_len_lt hk.ne hc
  · simp at h⟩
instance {B} (k : TokenKind) : NFb B (expect k) := ⟨fun σ _ h => by unfold expect at h; split at h <;> simp at h⟩

instance (s : String) : Strict (expectKeyword s) := ⟨fun σ a σ' h => by
  unfold expectKeyword at h
  split at h
  · rename_i hc; simp at h; rw [← h.2]; exact adv_len_lt (by decide) hc.1
  · simp at h⟩
instance {B} (s : String) : NFb B (expectKeyword s) := ⟨fun σ _ h => by unfold expectKeyword at h; split at h <;> simp at h⟩

instance : Mono skipEOF := ⟨fun σ a σ' h => by
  unfold skipEOF at h
  split at h <;> simp at h <;> rw [← h.2]
  · exact adv_len_le σ
  · exact Nat.le_refl _⟩
instance {B} : NFb B skipEOF := ⟨fun σ _ h => by unfold skipEOF at h; split at h <;> simp at h⟩

/-! ### loops -/

instance many_mono {α} {close : TokenKind} {item : P α} [Mono item] (k : Nat) : Mono (many close item k) := by
  induction k with
  | zero => unfold many; infer_instance
  | succ k ih => unfold many; infer_instance

/-- the loop of `reverse` does not run out of fuel when started with more fuel than tokens -/
theorem many_nf {α} {close : TokenKind} {item : P α} [hs : Strict item] {B : Nat} (hi : ∀ B', B' ≤ B → NFb B' item) :
    ∀ (k : Nat) (σ : PState), σ.toks.length < k → σ.toks.length ≤ B → many close item k σ ≠ .error .fuel := by
  intro k
  induction k with
  | zero => intro σ h; omega
  | succ k ih =>
    intro σ hk hB h
    simp only [many] at h
    rcases bind_error.mp h with h1 | ⟨b, σ1, h1, h2⟩
    · exact (inferInstance : NFb B (skip close)).nf σ hB h1
    · have hle1 := (inferInstance : Mono (skip close)).le _ _ _ h1
      cases b
      · simp only [Bool.false_eq_true, if_false] at h2
        have hσ1 : σ1 = σ := by unfold skip at h1; split at h1 <;> simp at h1; exact h1.symm
        subst hσ1
        rcases bind_error.mp h2 with h3 | ⟨x, σ2, h3, h4⟩
        · exact (hi B (Nat.le_refl _)).nf σ1 hB h3
        · have hlt := hs.lt _ _ _ h3
          rcases bind_error.mp h4 with h5 | ⟨xs, σ3, _, h6⟩
          · exact ih σ2 (by omega) (by omega) h5
          · simp at h6
      · simp at h2

instance reverse_mono {α} {opn close : TokenKind} {item : P α} [Mono item] {z : Bool} [NotEOF opn] :
    Strict (reverse opn item close z) := by
  unfold reverse
  infer_instance

theorem reverse_nf {α} {opn close : TokenKind} {item : P α} [Strict item] [ho : NotEOF opn] {z : Bool} {B : Nat}
    (hi : ∀ B', B' < B → NFb B' item) : NFb B (reverse opn item close z) :=
  ⟨fun σ hB h => by
    simp only [reverse] at h
    rcases bind_error.mp h with h1 | ⟨o, σ1, h1, h2⟩
    · exact (inferInstance : NFb B (expect opn)).nf σ hB h1
    · have hlt := (inferInstance : Strict (expect opn)).lt _ _ _ h1
      simp only [bind_error, cur_run, Except.ok.injEq, Prod.mk.injEq, reduceCtorEq, false_or] at h2
      obtain ⟨_, _, ⟨rfl, rfl⟩, h2⟩ := h2
      split at h2
      · simp at h2
      simp only [bind_error, loopFuel_run, Except.ok.injEq, Prod.mk.injEq, reduceCtorEq, false_or] at h2
      obtain ⟨k, _, ⟨rfl, rfl⟩, h2⟩ := h2
      rcases h2 with h3 | ⟨nodes, σ2, _, h4⟩
      · exact many_nf (B := σ1.toks.length) (fun B' hB' => hi B' (by omega)) _ σ1 (by omega) (Nat.le_refl _) h3
      · split at h4 <;> simp at h4⟩

instance reverse_nfb {α} {opn close : TokenKind} {item : P α} [Strict item] [NotEOF opn] {z : Bool} {B : Nat}
    [hi : ∀ B', NFb B' item] : NFb B (reverse opn item close z) :=
  reverse_nf (fun B' _ => hi B')

/-- fuelled loops: started with more fuel than tokens they do not run out -/
class LoopNF {α} (B : Nat) (loop : Nat → P α) : Prop where
  nf : ∀ k σ, σ.toks.length < k → σ.toks.length ≤ B → loop k σ ≠ .error .fuel

instance loop_nfb {α β} {B} {loop : Nat → P α} {f : α → P β} [hl : LoopNF B loop] [hm : ∀ k, Mono (loop k)]
    [hf : ∀ xs, NFb B (f xs)] : NFb B (loopFuel >>= fun k => loop k >>= f) :=
  ⟨fun σ hB h => by
    simp only [bind_error, loopFuel_run, Except.ok.injEq, Prod.mk.injEq, reduceCtorEq, false_or] at h
    obtain ⟨k, _, ⟨rfl, rfl⟩, h⟩ := h
    rcases h with h1 | ⟨xs, σ2, h1, h2⟩
    · exact hl.nf _ σ (by omega) hB h1
    · exact (hf xs).nf σ2 (Nat.le_trans ((hm _).le _ _ _ h1) hB) h2⟩

instance loop_nfb' {α} {B} {loop : Nat → P α} [hl : LoopNF B loop] : NFb B (loopFuel >>= fun k => loop k) :=
  ⟨fun σ hB h => by
    simp only [bind_error, loopFuel_run, Except.ok.injEq, Prod.mk.injEq, reduceCtorEq, false_or] at h
    obtain ⟨k, _, ⟨rfl, rfl⟩, h⟩ := h
    exact hl.nf _ σ (by omega) hB h⟩

theorem strict_of_sndN {α} {m : P α} {D : Pos → α → Pos → Prop} (h : SndN m D)
    (hD : ∀ p a p', D p a p' → p'.ts.length < p.ts.length) : Strict m :=
  ⟨fun σ a σ' hm => hD _ _ _ (h σ a σ' hm).1⟩

theorem mono_of_sndN {α} {m : P α} {D : Pos → α → Pos → Prop} (h : SndN m D)
    (hD : ∀ p a p', D p a p' → p'.ts.length ≤ p.ts.length) : Mono m :=
  ⟨fun σ a σ' hm => hD _ _ _ (h σ a σ' hm).1⟩

/-! ### names, values -/

instance : Strict parseName := strict_of_sndN parseName_snd (fun _ _ _ => dname_lt)
instance {B} : NFb B parseName := by unfold parseName; infer_instance
instance : Strict parseVariable := strict_of_sndN parseVariable_snd (fun _ _ _ => dvariable_lt)
instance {B} : NFb B parseVariable := by unfold parseVariable; infer_instance

instance (c : Bool) (n : Nat) : Strict (parseValueLiteral c n) :=
  strict_of_sndN (parseValueLiteral_snd c n) (fun _ _ _ => DValue.lt)
instance (c : Bool) : Strict (parseValue c) := strict_of_sndN (parseValue_snd c) (fun _ _ _ => DValue.lt)

instance {B} {value : P Value} [NFb B value] [Mono value] : NFb B (parseObjectFieldWith value) := by
  unfold parseObjectFieldWith; infer_instance
instance {c : Bool} {n : Nat} : Strict (parseObjectFieldWith (parseValueLiteral c n)) :=
  strict_of_sndN (parseObjectFieldWith_snd (parseValueLiteral_snd c n)) (fun _ _ _ => DObjField.lt)

instance many_loopNF {α} {close : TokenKind} {item : P α} [Strict item] {B : Nat} [hi : ∀ B', NFb B' item] :
    LoopNF B (many close item) := ⟨fun k σ hk hB => many_nf (fun B' _ => hi B') k σ hk hB⟩

theorem parseValueLiteral_nf (c : Bool) : ∀ n B, B < n → NFb B (parseValueLiteral c n) := by
  intro n
  induction n with
  | zero => intro B h; omega
  | succ n ih =>
    intro B hB
    haveI hrev : NFb B (reverse .bracketL (parseValueLiteral c n) .bracketR false) :=
      reverse_nf (fun B' hB' => ih B' (by omega))
    refine ⟨fun σ hσ h => ?_⟩
    simp only [parseValueLiteral] at h
    rcases bind_error.mp h with h1 | ⟨tok, σ0, h1, h2⟩
    · simp at h1
    · simp only [cur_run, Except.ok.injEq, Prod.mk.injEq] at h1
      obtain ⟨rfl, rfl⟩ := h1
      cases hk : σ.cur.kind <;> simp only [hk] at h2
      case bracketL => exact (inferInstance : NFb B (reverse .bracketL (parseValueLiteral c n) .bracketR false >>= _)).nf σ hσ h2
      case braceL =>
        rcases bind_error.mp h2 with h3 | ⟨o, σ1, h3, h4⟩
        · exact (inferInstance : NFb B (expect .braceL)).nf σ hσ h3
        · have hlt := (inferInstance : Strict (expect .braceL)).lt _ _ _ h3
          haveI : LoopNF σ1.toks.length (many .braceR (parseObjectFieldWith (parseValueLiteral c n))) :=
            ⟨fun k σ' hk' hB' => many_nf (B := σ1.toks.length)
              (fun B' hB'' => by haveI := ih B' (by omega); infer_instance) k σ' hk' hB'⟩
          exact (inferInstance : NFb σ1.toks.length (loopFuel >>= fun k =>
            many .braceR (parseObjectFieldWith (parseValueLiteral c n)) k >>= _)).nf σ1 (Nat.le_refl _) h4
      case name =>
        have : NFb B (if σ.cur.value = "true" then (do advance; pure (Value.bool true (← loc σ.cur.start)) : P Value)
            else if σ.cur.value = "false" then (do advance; pure (Value.bool false (← loc σ.cur.start)))
            else if σ.cur.value = "null" then unexpected
            else (do advance; pure (Value.enum σ.cur.value (← loc σ.cur.start)))) := inferInstance
        exact this.nf σ hσ h2
      case dollar =>
        have : NFb B (if c = true then (unexpected : P Value)
            else (do let r ← parseVariable; pure (Value.var r.1.value r.2))) := inferInstance
        exact this.nf σ hσ h2
      all_goals first
        | (simp at h2; done)
        | exact (inferInstance : NFb B (advance >>= _)).nf σ hσ h2

instance {B} (c : Bool) : NFb B (parseValue c) :=
  ⟨fun σ hσ h => (parseValueLiteral_nf c (σ.toks.length + 1) σ.toks.length (by omega)).nf σ (Nat.le_refl _) h⟩

/-! ### arguments, directives -/

instance : Strict parseArgument := strict_of_sndN parseArgument_snd (fun _ _ _ => dargument_lt)
instance {B} : NFb B parseArgument := by unfold parseArgument; infer_instance
instance : Mono parseArguments := mono_of_sndN parseArguments_snd (fun _ _ _ => darguments_le)
instance {B} : NFb B parseArguments := by unfold parseArguments; infer_instance
instance : Strict parseDirective := strict_of_sndN parseDirective_snd (fun _ _ _ => ddirective_lt)
instance {B} : NFb B parseDirective := by unfold parseDirective; infer_instance

instance {B} : LoopNF B parseDirectivesLoop := ⟨by
  intro k
  induction k with
  | zero => intro σ h; omega
  | succ k ih =>
    intro σ hk hB h
    simp only [parseDirectivesLoop] at h
    rcases bind_error.mp h with h1 | ⟨b, σ1, h1, h2⟩
    · simp at h1
    · simp only [peek_run, Except.ok.injEq, Prod.mk.injEq] at h1
      obtain ⟨rfl, rfl⟩ := h1
      split at h2
      · rcases bind_error.mp h2 with h3 | ⟨d, σ2, h3, h4⟩
        · exact (inferInstance : NFb B parseDirective).nf σ hB h3
        · have hlt := (inferInstance : Strict parseDirective).lt _ _ _ h3
          rcases bind_error.mp h4 with h5 | ⟨ds, σ3, _, h6⟩
          · exact ih σ2 (by omega) (by omega) h5
          · simp at h6
      · simp at h2⟩

instance : Mono parseDirectives := mono_of_sndN parseDirectives_snd (fun _ _ _ h => by have := ddirectives_le h; omega)
instance {B} : NFb B parseDirectives := by unfold parseDirectives; infer_instance

/-! ### types -/

instance : Strict parseNamed := strict_of_sndN parseNamed_snd (fun _ _ _ => dnamedType_lt)
instance {B} : NFb B parseNamed := by unfold parseNamed; infer_instance

instance {inner : P (Option TypeRef)} [Mono inner] (tok : Token) : Mono (parseTypeBaseWith inner tok) := by
  unfold parseTypeBaseWith; split <;> infer_instance

instance parseTypeFuel_mono : ∀ n, Mono (parseTypeFuel n) := by
  intro n
  induction n with
  | zero => unfold parseTypeFuel; infer_instance
  | succ n ih => unfold parseTypeFuel; infer_instance

theorem parseTypeFuel_nf : ∀ n B, B < n → NFb B (parseTypeFuel n) := by
  intro n
  induction n with
  | zero => intro B h; omega
  | succ n ih =>
    intro B hB
    refine ⟨fun σ hσ h => ?_⟩
    simp only [parseTypeFuel] at h
    rcases bind_error.mp h with h1 | ⟨tok, σ0, h1, h2⟩
    · simp at h1
    · simp only [cur_run, Except.ok.injEq, Prod.mk.injEq] at h1
      obtain ⟨rfl, rfl⟩ := h1
      rcases bind_error.mp h2 with h3 | ⟨base, σ1, _, h4⟩
      · unfold parseTypeBaseWith at h3
        cases hk : σ.cur.kind <;> simp only [hk] at h3
        case bracketL =>
          have hlt := adv_len_lt (k := .bracketL) (by decide) hk
          rcases bind_error.mp h3 with h5 | ⟨_, σa, h5, h6⟩
          · simp at h5
          · simp only [advance_run, Except.ok.injEq, Prod.mk.injEq] at h5
            obtain ⟨_, rfl⟩ := h5
            rcases bind_error.mp h6 with h7 | ⟨inner, σ2, _, h8⟩
            · exact (ih σ.adv.toks.length (by omega)).nf σ.adv (Nat.le_refl _) h7
            · rcases bind_error.mp h8 with h9 | ⟨c, σ3, h9, h10⟩
              · simp at h9
              · split at h10 <;> simp [bind_error] at h10
        case bracketR =>
          exact (inferInstance : NFb B (flagBad >>= _)).nf σ hσ h3
        case name =>
          exact (inferInstance : NFb B (parseNamed >>= _)).nf σ hσ h3
        all_goals exact (inferInstance : NFb B (flagBad >>= _)).nf σ hσ h3
      · have : NFb σ1.toks.length (do
            if (← skip .bang) then pure (some (TypeRef.nonNull (base.getD nilType) (← loc σ.cur.start))) else pure base
              : P (Option TypeRef)) := inferInstance
        exact this.nf σ1 (Nat.le_refl _) h4

instance : Mono parseTypeOpt := ⟨fun σ a σ' h => (parseTypeFuel_mono _).le σ a σ' h⟩
instance {B} : NFb B parseTypeOpt :=
  ⟨fun σ _ h => (parseTypeFuel_nf (σ.toks.length + 1) σ.toks.length (by omega)).nf σ (Nat.le_refl _) h⟩
instance : Mono parseType := by unfold parseType; infer_instance
instance {B} : NFb B parseType := by unfold parseType; infer_instance

/-! ### selection sets -/

instance : Strict parseFragmentName := strict_of_sndN parseFragmentName_snd (fun _ _ _ => dfragmentName_lt)
instance {B} : NFb B parseFragmentName := by unfold parseFragmentName; infer_instance

instance {B} {selSet : P SelectionSet} [NFb B selSet] [Mono selSet] {st : Nat} {al : Option Name} {nm : Name} :
    NFb B (parseFieldRest selSet st al nm) := by unfold parseFieldRest; infer_instance
instance {selSet : P SelectionSet} [Mono selSet] {st : Nat} {al : Option Name} {nm : Name} :
    Mono (parseFieldRest selSet st al nm) := by unfold parseFieldRest; infer_instance
instance {B} {selSet : P SelectionSet} [NFb B selSet] [Mono selSet] : NFb B (parseFieldWith selSet) := by
  unfold parseFieldWith; infer_instance
instance {B} {selSet : P SelectionSet} [NFb B selSet] [Mono selSet] {st : Nat} {tc : Option TypeRef} :
    NFb B (parseInlineRest selSet st tc) := by unfold parseInlineRest; infer_instance
instance {B} {selSet : P SelectionSet} [NFb B selSet] [Mono selSet] : NFb B (parseFragmentWith selSet) := by
  unfold parseFragmentWith; infer_instance
instance {B} {selSet : P SelectionSet} [NFb B selSet] [Mono selSet] : NFb B (parseSelectionWith selSet) := by
  unfold parseSelectionWith; infer_instance

instance (n : Nat) : Strict (parseSelectionSetFuel n) :=
  strict_of_sndN (parseSelectionSetFuel_snd n) (fun _ _ _ => DSelectionSet.lt)
instance (n : Nat) : Strict (parseSelectionWith (parseSelectionSetFuel n)) :=
  strict_of_sndN (parseSelectionWith_snd (parseSelectionSetFuel_snd n)) (fun _ _ _ => DSelection.lt)
instance : Strict parseSelectionSet := strict_of_sndN parseSelectionSet_snd (fun _ _ _ => DSelectionSet.lt)

theorem parseSelectionSetFuel_nf : ∀ n B, B < n → NFb B (parseSelectionSetFuel n) := by
  intro n
  induction n with
  | zero => intro B h; omega
  | succ n ih =>
    intro B hB
    haveI : NFb B (reverse .braceL (parseSelectionWith (parseSelectionSetFuel n)) .braceR true) :=
      reverse_nf (fun B' hB' => by haveI := ih B' (by omega); infer_instance)
    unfold parseSelectionSetFuel
    infer_instance

instance {B} : NFb B parseSelectionSet :=
  ⟨fun σ _ h => (parseSelectionSetFuel_nf (σ.toks.length + 1) σ.toks.length (by omega)).nf σ (Nat.le_refl _) h⟩

/-! ### operations, fragments -/

instance : Strict parseOperationType := strict_of_sndN parseOperationType_snd (fun _ _ _ => dopType_lt)
instance {B} : NFb B parseOperationType := by unfold parseOperationType; infer_instance
instance : Strict parseVariableDefinition := by unfold parseVariableDefinition; infer_instance
instance {B} : NFb B parseVariableDefinition := by unfold parseVariableDefinition; infer_instance
instance : Mono parseVariableDefinitions := by unfold parseVariableDefinitions; infer_instance
instance {B} : NFb B parseVariableDefinitions := by unfold parseVariableDefinitions; infer_instance
instance : Mono parseOptName := mono_of_sndN parseOptName_snd (fun _ _ _ => doptName_le)
instance {B} : NFb B parseOptName := by unfold parseOptName; infer_instance
instance : Strict parseOperationDefinition := by unfold parseOperationDefinition; infer_instance
instance {B} : NFb B parseOperationDefinition := by unfold parseOperationDefinition; infer_instance
instance : Strict parseFragmentDefinition := by unfold parseFragmentDefinition; infer_instance
instance {B} : NFb B parseFragmentDefinition := by unfold parseFragmentDefinition; infer_instance

/-! ### type system definitions -/

instance : Mono parseDescription := mono_of_sndN parseDescription_snd (fun _ _ _ => ddescription_le)
instance {B} : NFb B parseDescription := by unfold parseDescription; infer_instance
instance : Strict parseOperationTypeDefinition := by unfold parseOperationTypeDefinition; infer_instance
instance {B} : NFb B parseOperationTypeDefinition := by unfold parseOperationTypeDefinition; infer_instance
instance : Strict parseSchemaDefinition := by unfold parseSchemaDefinition; infer_instance
instance {B} : NFb B parseSchemaDefinition := by unfold parseSchemaDefinition; infer_instance
instance : Strict parseScalarTypeDefinition := by unfold parseScalarTypeDefinition; infer_instance
instance {B} : NFb B parseScalarTypeDefinition := by unfold parseScalarTypeDefinition; infer_instance

instance (sep : TokenKind) (k : Nat) : Mono (parseNamedSep sep k) := by
  induction k with
  | zero => unfold parseNamedSep; infer_instance
  | succ k ih => unfold parseNamedSep; infer_instance

instance {B} (sep : TokenKind) : LoopNF B (parseNamedSep sep) := ⟨by
  intro k
  induction k with
  | zero => intro σ h; omega
  | succ k ih =>
    intro σ hk hB h
    simp only [parseNamedSep] at h
    rcases bind_error.mp h with h1 | ⟨t, σ1, h1, h2⟩
    · exact (inferInstance : NFb B parseNamed).nf σ hB h1
    · have hlt := (inferInstance : Strict parseNamed).lt _ _ _ h1
      rcases bind_error.mp h2 with h3 | ⟨b, σ2, h3, h4⟩
      · exact (inferInstance : NFb B (skip sep)).nf σ1 (by omega) h3
      · have hle := (inferInstance : Mono (skip sep)).le _ _ _ h3
        split at h4
        · rcases bind_error.mp h4 with h5 | ⟨ts, σ3, _, h6⟩
          · exact ih σ2 (by omega) (by omega) h5
          · simp at h6
        · simp at h4⟩

instance (k : Nat) : Mono (parseDirectiveLocations k) := by
  induction k with
  | zero => unfold parseDirectiveLocations; infer_instance
  | succ k ih => unfold parseDirectiveLocations; infer_instance

instance {B} : LoopNF B parseDirectiveLocations := ⟨by
  intro k
  induction k with
  | zero => intro σ h; omega
  | succ k ih =>
    intro σ hk hB h
    simp only [parseDirectiveLocations] at h
    rcases bind_error.mp h with h1 | ⟨t, σ1, h1, h2⟩
    · exact (inferInstance : NFb B parseName).nf σ hB h1
    · have hlt := (inferInstance : Strict parseName).lt _ _ _ h1
      rcases bind_error.mp h2 with h3 | ⟨b, σ2, h3, h4⟩
      · exact (inferInstance : NFb B (skip .pipe)).nf σ1 (by omega) h3
      · have hle := (inferInstance : Mono (skip .pipe)).le _ _ _ h3
        split at h4
        · rcases bind_error.mp h4 with h5 | ⟨ts, σ3, _, h6⟩
          · exact ih σ2 (by omega) (by omega) h5
          · simp at h6
        · simp at h4⟩

instance : Mono parseImplementsInterfaces := by unfold parseImplementsInterfaces; infer_instance
instance {B} : NFb B parseImplementsInterfaces := by unfold parseImplementsInterfaces; infer_instance
instance : Mono parseDefaultValue := by unfold parseDefaultValue; infer_instance
instance {B} : NFb B parseDefaultValue := by unfold parseDefaultValue; infer_instance
instance : Strict parseInputValueDef := by unfold parseInputValueDef; infer_instance
instance {B} : NFb B parseInputValueDef := by unfold parseInputValueDef; infer_instance
instance : Mono parseArgumentDefs := by unfold parseArgumentDefs; infer_instance
instance {B} : NFb B parseArgumentDefs := by unfold parseArgumentDefs; infer_instance
instance : Strict parseFieldDefinition := by unfold parseFieldDefinition; infer_instance
instance {B} : NFb B parseFieldDefinition := by unfold parseFieldDefinition; infer_instance
instance : Strict parseObjectDef := by unfold parseObjectDef; infer_instance
instance {B} : NFb B parseObjectDef := by unfold parseObjectDef; infer_instance
instance : Strict parseObjectTypeDefinition := by unfold parseObjectTypeDefinition; infer_instance
instance {B} : NFb B parseObjectTypeDefinition := by unfold parseObjectTypeDefinition; infer_instance
instance : Strict parseInterfaceTypeDefinition := by unfold parseInterfaceTypeDefinition; infer_instance
instance {B} : NFb B parseInterfaceTypeDefinition := by unfold parseInterfaceTypeDefinition; infer_instance
instance : Strict parseUnionTypeDefinition := by unfold parseUnionTypeDefinition; infer_instance
instance {B} : NFb B parseUnionTypeDefinition := by unfold parseUnionTypeDefinition; infer_instance
instance : Strict parseEnumValueDefinition := by unfold parseEnumValueDefinition; infer_instance
instance {B} : NFb B parseEnumValueDefinition := by unfold parseEnumValueDefinition; infer_instance
instance : Strict parseEnumTypeDefinition := by unfold parseEnumTypeDefinition; infer_instance
instance {B} : NFb B parseEnumTypeDefinition := by unfold parseEnumTypeDefinition; infer_instance
instance : Strict parseInputObjectTypeDefinition := by unfold parseInputObjectTypeDefinition; infer_instance
instance {B} : NFb B parseInputObjectTypeDefinition := by unfold parseInputObjectTypeDefinition; infer_instance
instance : Strict parseTypeExtensionDefinition := by unfold parseTypeExtensionDefinition; infer_instance
instance {B} : NFb B parseTypeExtensionDefinition := by unfold parseTypeExtensionDefinition; infer_instance
instance : Strict parseDirectiveDefinition := by unfold parseDirectiveDefinition; infer_instance
instance {B} : NFb B parseDirectiveDefinition := by unfold parseDirectiveDefinition; infer_instance

/-! ### definitions, document -/

instance : Mono keywordToken := by unfold keywordToken; infer_instance
instance {B} : NFb B keywordToken := by unfold keywordToken; infer_instance
instance (a : Bool) (kw : Token) : Strict (dispatchKeyword a kw) := by unfold dispatchKeyword; infer_instance
instance {B} (a : Bool) (kw : Token) : NFb B (dispatchKeyword a kw) := by unfold dispatchKeyword; infer_instance
instance : Strict parseTypeSystemDefinition := by unfold parseTypeSystemDefinition; infer_instance
instance {B} : NFb B parseTypeSystemDefinition := by unfold parseTypeSystemDefinition; infer_instance

instance : Strict parseDefinition := by
  unfold parseDefinition
  haveI : ∀ tok : Token, Strict (match tok.kind with
      | .braceL => parseOperationDefinition
      | .name => parseTypeSystemDefinition
      | .string => parseTypeSystemDefinition
      | .blockString => parseTypeSystemDefinition
      | _ => unexpected) := by intro tok; split <;> infer_instance
  infer_instance

instance {B} : NFb B parseDefinition := by
  unfold parseDefinition
  haveI : ∀ tok : Token, NFb B (match tok.kind with
      | .braceL => parseOperationDefinition
      | .name => parseTypeSystemDefinition
      | .string => parseTypeSystemDefinition
      | .blockString => parseTypeSystemDefinition
      | _ => unexpected) := by intro tok; split <;> infer_instance
  infer_instance

instance {B} : LoopNF B parseDefinitions := ⟨by
  intro k
  induction k with
  | zero => intro σ h; omega
  | succ k ih =>
    intro σ hk hB h
    simp only [parseDefinitions] at h
    rcases bind_error.mp h with h1 | ⟨b, σ1, h1, h2⟩
    · exact (inferInstance : NFb B skipEOF).nf σ hB h1
    · have hle := (inferInstance : Mono skipEOF).le _ _ _ h1
      split at h2
      · simp at h2
      · rcases bind_error.mp h2 with h3 | ⟨d, σ2, h3, h4⟩
        · exact (inferInstance : NFb B parseDefinition).nf σ1 (by omega) h3
        · have hlt := (inferInstance : Strict parseDefinition).lt _ _ _ h3
          rcases bind_error.mp h4 with h5 | ⟨ds, σ3, _, h6⟩
          · exact ih σ2 (by omega) (by omega) h5
          · simp at h6⟩

instance (k : Nat) : Mono (parseDefinitions k) := by
  induction k with
  | zero => unfold parseDefinitions; infer_instance
  | succ k ih => unfold parseDefinitions; infer_instance

instance {B} : NFb B parseDocument := by unfold parseDocument; infer_instance

/-- M terminates: the whole parser never reports fuel exhaustion -/
theorem parseToks_ne_fuel (toks : List Token) (eofPos : Nat) : parseToks toks eofPos ≠ .error .fuel := by
  intro h
  unfold parseToks at h
  cases hp : parseDocument (initState toks eofPos) with
  | ok r => obtain ⟨d, σ⟩ := r; simp [hp] at h
  | error e =>
    simp only [hp, Except.error.injEq] at h
    subst h
    exact (inferInstance : NFb toks.length parseDocument).nf (initState toks eofPos) (Nat.le_refl _) hp

theorem parseTokens_ne_fuel (all : List Token) : parseTokens all ≠ .error .fuel := by
  unfold parseTokens
  split
  · exact parseToks_ne_fuel _ _
  · simp

end GqlModel.Parser
