import GqlProofs.ValidateOverlapSem
/-! # C02: every conflict the memoised overlap algorithm reports is a conflict of the declarative rule

* the shallow spread graph (`shTbl`) and the declarative reading of `flat` (`mem_flat_of_direct`, `mem_flat_of_flatFrag`);
* `PairConflict` is symmetric;
* `Coh`: the parent types are coherent — one parent type `π ss` per selection set of the document, which is the one
  the visitor passes (`TypeInfo.ParentType()`), the one `findConflict` derives for a sub-selection (`GetNamed` of
  the field definition's type) and the one a fragment's type condition names. Under `Coh` the `cacheMap` can only hold
  the collection the caller would compute itself;
* `run_sem`: what each of the three recursive functions may report (`SemX`), by induction on the fuel. -/
namespace GqlModel.Validate.Overlap
open GqlModel.Validate GqlModel.Validate.Graph

/-! ## the shallow spread graph -/

mutual
theorem spreads_sh_sel : ∀ x : Selection, (spreadsSel (shSel x)).map (·.name) = shallowSel x
  | .field _ _ _ _ _ _ => by simp [shSel, spreadsSel, spreadsOpt, shallowSel]
  | .spread _ _ _ => by simp [shSel, spreadsSel, shallowSel]
  | .inline _ _ ss _ => by simp only [shSel, spreadsSel, shallowSel]; exact spreads_sh_set ss
theorem spreads_sh_set : ∀ x : SelectionSet, (spreadsSet (shSet x)).map (·.name) = shallowSet x
  | .mk sels _ => by simp only [shSet, spreadsSet, shallowSet]; exact spreads_sh_sels sels
theorem spreads_sh_sels : ∀ x : List Selection, (spreadsSels (shSels x)).map (·.name) = shallowSels x
  | [] => by simp [shSels, spreadsSels, shallowSels]
  | x :: xs => by
    simp only [shSels, spreadsSels, shallowSels, List.map_append]
    rw [spreads_sh_sel x, spreads_sh_sels xs]
end

theorem spreadNames_sh (ss : SelectionSet) : spreadNames (shSet ss) = shallowSet ss := spreads_sh_set ss

theorem lookupFrag_shTbl (tbl : List Frag) (n : String) :
    lookupFrag (shTbl tbl) n = (lookupFrag tbl n).map shFrag := by
  induction tbl with
  | nil => rfl
  | cons f fs ih =>
    simp only [shTbl, List.map_cons] at ih ⊢
    unfold lookupFrag
    rw [ih]
    cases lookupFrag fs n with
    | some g => rfl
    | none =>
      simp only [Option.map_none]
      by_cases h : f.name.value = n
      · simp [h, shFrag]
      · simp [h, shFrag]

theorem shEdge_iff {tbl : List Frag} {a b : String} :
    SpreadEdge (shTbl tbl) a b ↔ ∃ f, lookupFrag tbl a = some f ∧ b ∈ shallowSet f.sel := by
  rw [spreadEdge_iff]
  constructor
  · rintro ⟨f', hf', hb⟩
    rw [lookupFrag_shTbl] at hf'
    cases hl : lookupFrag tbl a with
    | none => rw [hl] at hf'; cases hf'
    | some f =>
      rw [hl] at hf'
      simp only [Option.map_some, Option.some.injEq] at hf'
      subst hf'
      exact ⟨f, rfl, by simpa [shFrag, spreadNames_sh] using hb⟩
  · rintro ⟨f, hf, hb⟩
    refine ⟨shFrag f, by rw [lookupFrag_shTbl, hf]; rfl, ?_⟩
    simpa [shFrag, spreadNames_sh] using hb

theorem mem_shallowFrags {tbl : List Frag} {ss : SelectionSet} {f : Frag} :
    f ∈ shallowFrags tbl ss ↔
      ∃ n, (∃ r, r ∈ shallowSet ss ∧ Reaches (shTbl tbl) r n) ∧ lookupFrag tbl n = some f := by
  simp only [shallowFrags, List.mem_filterMap]
  constructor
  · rintro ⟨f', hf', hl⟩
    have := ((rrf_spec (shTbl tbl) (shSet ss)).2 f').1 hf'
    rcases this.1 with ⟨r, hr, hreach⟩
    exact ⟨f'.name.value, ⟨r, by rwa [spreadNames_sh] at hr, hreach⟩, hl⟩
  · rintro ⟨n, ⟨r, hr, hreach⟩, hl⟩
    have hn := (lookupFrag_some hl).2
    refine ⟨shFrag f, ((rrf_spec (shTbl tbl) (shSet ss)).2 (shFrag f)).2 ⟨?_, ?_⟩, ?_⟩
    · exact ⟨r, by rw [spreadNames_sh]; exact hr, by simpa [shFrag, hn] using hreach⟩
    · simp only [shFrag, hn]
      rw [lookupFrag_shTbl, hl]; rfl
    · simpa [shFrag, hn] using hl

/-- field `b` belongs to a fragment reachable (reflexively) from the fragment named `n` in the shallow graph -/
def FlatFrag (e : Env) (n : String) (b : FieldOcc) : Prop :=
  ∃ m f, Reaches (shTbl e.tbl) n m ∧ lookupFrag e.tbl m = some f ∧ b ∈ directSet e (namedOf e.s f.typeCond) f.sel

theorem FlatFrag.step {e : Env} {n g : String} {b : FieldOcc} (hedge : SpreadEdge (shTbl e.tbl) n g)
    (h : FlatFrag e g b) : FlatFrag e n b := by
  rcases h with ⟨m, f, hr, hl, hb⟩
  exact ⟨m, f, .step hedge hr, hl, hb⟩

theorem mem_flat_of_direct {e : Env} {pt : Option String} {ss : SelectionSet} {a : FieldOcc}
    (h : a ∈ directSet e pt ss) : a ∈ flat e pt ss := List.mem_append_left _ h

theorem mem_flat_of_flatFrag {e : Env} (pt : Option String) {ss : SelectionSet} {r : String} {b : FieldOcc}
    (hr : r ∈ shallowSet ss) (h : FlatFrag e r b) : b ∈ flat e pt ss := by
  rcases h with ⟨m, f, hreach, hl, hb⟩
  refine List.mem_append_right _ (List.mem_flatMap.2 ⟨f, mem_shallowFrags.2 ⟨m, ⟨r, hr, hreach⟩, hl⟩, hb⟩)

/-! ## symmetry of the declarative relation -/

theorem exclusive_symm (s : Schema) (x y : Option String) : exclusive s x y = exclusive s y x := by
  cases x <;> cases y <;> simp only [exclusive]
  rename_i a b
  by_cases h : a = b
  · subst h; rfl
  · have e1 : (a != b) = true := by simpa using h
    have e2 : (b != a) = true := by simpa using (fun e => h e.symm : b ≠ a)
    rw [e1, e2]
    cases s.objectT a <;> cases s.objectT b <;> rfl

theorem sameShapeTypes_symm (s : Schema) : ∀ a b : GType, sameShapeTypes s a b = sameShapeTypes s b a
  | .nonNull a, .nonNull b => by simp only [sameShapeTypes]; exact sameShapeTypes_symm s a b
  | .nonNull _, .named _ => by simp [sameShapeTypes]
  | .nonNull _, .list _ => by simp [sameShapeTypes]
  | .named _, .nonNull _ => by simp [sameShapeTypes]
  | .list _, .nonNull _ => by simp [sameShapeTypes]
  | .list a, .list b => by simp only [sameShapeTypes]; exact sameShapeTypes_symm s a b
  | .list _, .named _ => by simp [sameShapeTypes]
  | .named _, .list _ => by simp [sameShapeTypes]
  | .named a, .named b => by
    simp only [sameShapeTypes]
    rw [Bool.or_comm (s.leafT b) (s.leafT a)]
    by_cases h : a = b
    · subst h; rfl
    · have e1 : (a == b) = false := by simpa using h
      have e2 : (b == a) = false := by simpa using (fun e => h e.symm : b ≠ a)
      rw [e1, e2]

theorem shapeConflict_symm (s : Schema) (a b : FieldOcc) : shapeConflict s a b = shapeConflict s b a := by
  unfold shapeConflict
  cases a.fdef <;> cases b.fdef <;> first | rfl | (simp only []; rw [sameShapeTypes_symm])

theorem exclOf_symm (e : Env) (x : Bool) (a b : FieldOcc) : exclOf e x a b = exclOf e x b a := by
  unfold exclOf
  rw [exclusive_symm]

theorem baseConflict_symm (e : Env) (x : Bool) (a b : FieldOcc) : baseConflict e x a b = baseConflict e x b a := by
  unfold baseConflict
  rw [exclOf_symm e x a b, shapeConflict_symm e.s a b]
  have h1 : (a.node.name.value != b.node.name.value) = (b.node.name.value != a.node.name.value) := by
    by_cases h : a.node.name.value = b.node.name.value
    · rw [h]
    · have e1 : (a.node.name.value != b.node.name.value) = true := by simpa using h
      have e2 : (b.node.name.value != a.node.name.value) = true := by
        simpa using (fun e => h e.symm : b.node.name.value ≠ a.node.name.value)
      rw [e1, e2]
  have h2 : sameArgsS a.node.args b.node.args = sameArgsS b.node.args a.node.args := by
    unfold sameArgsS
    rw [Bool.and_comm]
  rw [h1, h2]

theorem PairConflict.symm {e : Env} {x : Bool} {a b : FieldOcc} (h : PairConflict e x a b) : PairConflict e x b a := by
  induction h with
  | base hb => exact .base (by rw [baseConflict_symm]; exact hb)
  | sub s1 s2 a' b' h1 h2 ha hb hk _ ih =>
    rename_i x a b
    refine .sub s2 s1 b' a' h2 h1 hb ha hk.symm ?_
    rw [exclOf_symm]
    exact ih

/-! ## coherent parent types -/

structure Coh (d : Document) (e : Env) (π : SelectionSet → Option String) : Prop where
  sub : ∀ ss, ss ∈ allSets d → ∀ a, a ∈ directSet e (π ss) ss → ∀ s', a.node.sel = some s' → π s' = a.subParent
  args : ∀ ss, ss ∈ allSets d → ∀ a, a ∈ directSet e (π ss) ss → (a.node.args.map (·.name.value)).Nodup
  frag : ∀ f, f ∈ e.tbl → π f.sel = namedOf e.s f.typeCond
  fragSets : ∀ f, f ∈ e.tbl → f.sel ∈ allSets d
  locs : locsDistinct d = true

variable {d : Document} {e : Env} {π : SelectionSet → Option String}

def OccCoh (d : Document) (π : SelectionSet → Option String) (a : FieldOcc) : Prop :=
  (a.node.args.map (·.name.value)).Nodup ∧ ∀ s', a.node.sel = some s' → s' ∈ allSets d ∧ π s' = a.subParent

def InfoCoh (d : Document) (e : Env) (π : SelectionSet → Option String) (i : FieldsInfo) : Prop :=
  ∃ ss, ss ∈ allSets d ∧ i = collectInfo e (π ss) ss

def CacheCoh (d : Document) (e : Env) (π : SelectionSet → Option String) (st : OState) : Prop :=
  ∀ p, p ∈ st.cache → ∃ ss, ss ∈ allSets d ∧ p.1 = ss.loc ∧ p.2 = collectInfo e (π ss) ss

theorem occ_of_info (hc : Coh d e π) {i : FieldsInfo} (hi : InfoCoh d e π i) {a : FieldOcc}
    (ha : a ∈ occsOf i.fields) : OccCoh d π a := by
  rcases hi with ⟨ss, hss, rfl⟩
  refine ⟨hc.args ss hss a ((collectInfo_spec e (π ss) ss).1 a ha), fun s' hs' => ?_⟩
  rcases mem_occsOf.1 ha with ⟨kf, hkf, hakf⟩
  exact ⟨(collectInfo_wf d e (π ss) ss hss).2.2 kf hkf a hakf s' hs',
    hc.sub ss hss a ((collectInfo_spec e (π ss) ss).1 a ha) s' hs'⟩

theorem getInfo_coh (hc : Coh d e π) {st : OState} (hst : CacheCoh d e π st) {ss : SelectionSet}
    (hss : ss ∈ allSets d) :
    (getInfo e (π ss) ss st).2 = collectInfo e (π ss) ss ∧ CacheCoh d e π (getInfo e (π ss) ss st).1 ∧
    (getInfo e (π ss) ss st).1.cmpFF = st.cmpFF := by
  unfold getInfo
  split
  · rename_i i hi
    rcases hst _ (lookup_mem' _ _ _ hi) with ⟨ss', hss', hl, he⟩
    have : ss = ss' := eq_of_loc_eq (of_decide_eq_true hc.locs) hss hss' hl
    subst this
    exact ⟨he, hst, rfl⟩
  · refine ⟨rfl, ?_, rfl⟩
    intro p hp
    rcases List.mem_cons.1 hp with rfl | hp
    · exact ⟨ss, hss, rfl, rfl⟩
    · exact hst p hp

/-! ## what the three recursive functions may report -/

/-- the conflict names the response key and starts its two field lists with the two fields -/
def Blames (x : Conflict) (a b : FieldOcc) : Prop :=
  x.key = a.node.key ∧ x.left.head? = some a.node.loc ∧ x.right.head? = some b.node.loc

def SemX (e : Env) : Call → Conflict → Prop
  | .fc pexcl _ a b, x => Blames x a b ∧ PairConflict e pexcl a b
  | .ff excl info frag, x =>
    ∃ a b, a ∈ occsOf info.fields ∧ FlatFrag e frag b ∧ a.node.key = b.node.key ∧ Blames x a b ∧
      PairConflict e excl a b
  | .bf excl n1 n2, x =>
    ∃ a b, FlatFrag e n1 a ∧ FlatFrag e n2 b ∧ a.node.key = b.node.key ∧ Blames x a b ∧ PairConflict e excl a b

def SCall (d : Document) (e : Env) (π : SelectionSet → Option String) : Call → Prop
  | .fc _ key a b => OccCoh d π a ∧ OccCoh d π b ∧ a.node.key = key ∧ b.node.key = key
  | .ff _ info _ => InfoCoh d e π info
  | .bf _ _ _ => True

def SSpec (d : Document) (e : Env) (π : SelectionSet → Option String) (rec : Rec) : Prop :=
  ∀ c st, SCall d e π c → CacheCoh d e π st →
    CacheCoh d e π (rec c st).1 ∧ ∀ x, x ∈ (rec c st).2 → SemX e c x

theorem seqCalls_sem {rec : Rec} (hrec : SSpec d e π rec) (cs : List Call) (st : OState)
    (hcs : ∀ c, c ∈ cs → SCall d e π c) (hst : CacheCoh d e π st) :
    CacheCoh d e π (seqCalls rec cs st).1 ∧ ∀ x, x ∈ (seqCalls rec cs st).2 → ∃ c, c ∈ cs ∧ SemX e c x := by
  induction cs generalizing st with
  | nil => exact ⟨hst, fun x hx => by cases hx⟩
  | cons c cs ih =>
    simp only [seqCalls]
    have h1 := hrec c st (hcs c List.mem_cons_self) hst
    have h2 := ih (rec c st).1 (fun c' h => hcs c' (List.mem_cons_of_mem _ h)) h1.1
    refine ⟨h2.1, fun x hx => ?_⟩
    rcases List.mem_append.1 hx with hx | hx
    · exact ⟨c, List.mem_cons_self, h1.2 x hx⟩
    · rcases h2.2 x hx with ⟨c', hc', hs⟩
      exact ⟨c', List.mem_cons_of_mem _ hc', hs⟩

/-- the same, with the per-call postconditions already turned into a common one -/
theorem seqCalls_sem' {rec : Rec} (hrec : SSpec d e π rec) (cs : List Call) (st : OState)
    (hst : CacheCoh d e π st) (P : Conflict → Prop)
    (hcs : ∀ c, c ∈ cs → SCall d e π c ∧ ∀ x, SemX e c x → P x) :
    CacheCoh d e π (seqCalls rec cs st).1 ∧ ∀ x, x ∈ (seqCalls rec cs st).2 → P x := by
  have h := seqCalls_sem hrec cs st (fun c hc => (hcs c hc).1) hst
  refine ⟨h.1, fun x hx => ?_⟩
  rcases h.2 x hx with ⟨c, hc, hs⟩
  exact (hcs c hc).2 x hs

theorem between_sem (hc : Coh d e π) (excl : Bool) {i1 i2 : FieldsInfo} (h1 : InfoCoh d e π i1)
    (h2 : InfoCoh d e π i2) {c : Call} (hmem : c ∈ betweenCalls excl i1 i2) :
    ∃ k a b, c = .fc excl k a b ∧ a ∈ occsOf i1.fields ∧ b ∈ occsOf i2.fields ∧ a.node.key = b.node.key ∧
      SCall d e π c := by
  simp only [betweenCalls, List.mem_flatMap] at hmem
  rcases hmem with ⟨kf, hkf, hmem⟩
  split at hmem
  · cases hmem
  · rename_i fs2 hl
    simp only [List.mem_flatMap, List.mem_map] at hmem
    rcases hmem with ⟨a, ha, b, hb, rfl⟩
    have hkf2 : (kf.1, fs2) ∈ i2.fields := lookup_mem' _ _ _ hl
    have hao : a ∈ occsOf i1.fields := mem_occsOf.2 ⟨kf, hkf, ha⟩
    have hbo : b ∈ occsOf i2.fields := mem_occsOf.2 ⟨_, hkf2, hb⟩
    have hk1 : a.node.key = kf.1 := by
      rcases h1 with ⟨ss, _, rfl⟩
      exact (collectInfo_spec e _ ss).2.2 kf hkf a ha
    have hk2 : b.node.key = kf.1 := by
      rcases h2 with ⟨ss, _, rfl⟩
      exact (collectInfo_spec e _ ss).2.2 _ hkf2 b hb
    exact ⟨kf.1, a, b, rfl, hao, hbo, hk1.trans hk2.symm, occ_of_info hc h1 hao, occ_of_info hc h2 hbo, hk1, hk2⟩

theorem frags_shallow {ss : SelectionSet} {pt : Option String} {n : String}
    (h : n ∈ (collectInfo e pt ss).frags) : n ∈ shallowSet ss := (collectInfo_spec e pt ss).2.1 n h

theorem occs_direct {ss : SelectionSet} {pt : Option String} {a : FieldOcc}
    (h : a ∈ occsOf (collectInfo e pt ss).fields) : a ∈ directSet e pt ss := (collectInfo_spec e pt ss).1 a h

/-- the field of the fragment definition `f` named `n` is in `FlatFrag n` -/
theorem flatFrag_self {n : String} {f : Frag} (hl : lookupFrag e.tbl n = some f) {b : FieldOcc}
    (hb : b ∈ directSet e (namedOf e.s f.typeCond) f.sel) : FlatFrag e n b :=
  ⟨n, f, .refl n, hl, hb⟩

theorem ffBody_sem (hc : Coh d e π) {rec : Rec} (hrec : SSpec d e π rec) (excl : Bool) {info : FieldsInfo}
    (hi : InfoCoh d e π info) (frag : String) (st : OState) (hst : CacheCoh d e π st) :
    CacheCoh d e π (ffBody e rec excl info frag st).1 ∧
    ∀ x, x ∈ (ffBody e rec excl info frag st).2 → SemX e (.ff excl info frag) x := by
  unfold ffBody
  split
  · exact ⟨hst, fun x hx => by cases hx⟩
  · simp only
    have hst1 : CacheCoh d e π { st with cmpFF := ((info.id, frag), excl) :: st.cmpFF,
                                          logFF := (info.id, frag, excl) :: st.logFF } := hst
    split
    · exact ⟨hst1, fun x hx => by cases hx⟩
    · rename_i f hl
      have hf := (lookupFrag_some hl).1
      have g := getInfo_coh hc hst1 (hc.fragSets f hf)
      rw [hc.frag f hf] at g
      unfold getRefInfo
      have hi2 : InfoCoh d e π (getInfo e (namedOf e.s f.typeCond) f.sel
          { st with cmpFF := ((info.id, frag), excl) :: st.cmpFF, logFF := (info.id, frag, excl) :: st.logFF }).2 :=
        ⟨f.sel, hc.fragSets f hf, by rw [g.1, hc.frag f hf]⟩
      split
      · exact ⟨g.2.1, fun x hx => by cases hx⟩
      · refine seqCalls_sem' hrec _ _ g.2.1 _ (fun c hcm => ?_)
        rcases List.mem_append.1 hcm with hcm | hcm
        · rcases between_sem hc excl hi hi2 hcm with ⟨k, a, b, rfl, ha, hb, hk, hsc⟩
          refine ⟨hsc, fun x hs => ?_⟩
          rw [g.1] at hb
          exact ⟨a, b, ha, flatFrag_self hl (occs_direct hb), hk, hs.1, hs.2⟩
        · rcases List.mem_map.1 hcm with ⟨n, hn, rfl⟩
          refine ⟨hi, fun x hs => ?_⟩
          rw [g.1] at hn
          rcases hs with ⟨a, b, ha, hb, hk, hbl, hp⟩
          exact ⟨a, b, ha, hb.step (shEdge_iff.2 ⟨f, hl, frags_shallow hn⟩), hk, hbl, hp⟩

theorem bfBody_sem (hc : Coh d e π) {rec : Rec} (hrec : SSpec d e π rec) (excl : Bool) (n1 n2 : String)
    (st : OState) (hst : CacheCoh d e π st) :
    CacheCoh d e π (bfBody e rec excl n1 n2 st).1 ∧
    ∀ x, x ∈ (bfBody e rec excl n1 n2 st).2 → SemX e (.bf excl n1 n2) x := by
  unfold bfBody
  split
  · rename_i f1 f2 hl1 hl2
    split
    · exact ⟨hst, fun x hx => by cases hx⟩
    · split
      · exact ⟨hst, fun x hx => by cases hx⟩
      · simp only
        have hst1 : CacheCoh d e π { st with cmpBF := ((n1, n2), excl) :: ((n2, n1), excl) :: st.cmpBF,
                                              logBF := (n1, n2, excl) :: st.logBF } := hst
        have hf1 := (lookupFrag_some hl1).1
        have hf2 := (lookupFrag_some hl2).1
        have g1 := getInfo_coh hc hst1 (hc.fragSets f1 hf1)
        rw [hc.frag f1 hf1] at g1
        have g2 := getInfo_coh hc g1.2.1 (hc.fragSets f2 hf2)
        rw [hc.frag f2 hf2] at g2
        unfold getRefInfo
        have hi1 : InfoCoh d e π (getInfo e (namedOf e.s f1.typeCond) f1.sel
            { st with cmpBF := ((n1, n2), excl) :: ((n2, n1), excl) :: st.cmpBF,
                      logBF := (n1, n2, excl) :: st.logBF }).2 :=
          ⟨f1.sel, hc.fragSets f1 hf1, by rw [g1.1, hc.frag f1 hf1]⟩
        have hi2 : InfoCoh d e π (getInfo e (namedOf e.s f2.typeCond) f2.sel
            (getInfo e (namedOf e.s f1.typeCond) f1.sel
              { st with cmpBF := ((n1, n2), excl) :: ((n2, n1), excl) :: st.cmpBF,
                        logBF := (n1, n2, excl) :: st.logBF }).1).2 :=
          ⟨f2.sel, hc.fragSets f2 hf2, by rw [g2.1, hc.frag f2 hf2]⟩
        refine seqCalls_sem' hrec _ _ g2.2.1 _ (fun c hcm => ?_)
        simp only [List.mem_append, List.mem_map] at hcm
        rcases hcm with (hcm | ⟨n, hn, rfl⟩) | ⟨n, hn, rfl⟩
        · rcases between_sem hc excl hi1 hi2 hcm with ⟨k, a, b, rfl, ha, hb, hk, hsc⟩
          refine ⟨hsc, fun x hs => ?_⟩
          rw [g1.1] at ha
          rw [g2.1] at hb
          exact ⟨a, b, flatFrag_self hl1 (occs_direct ha), flatFrag_self hl2 (occs_direct hb), hk, hs.1, hs.2⟩
        · refine ⟨trivial, fun x hs => ?_⟩
          rw [g2.1] at hn
          rcases hs with ⟨a, b, ha, hb, hk, hbl, hp⟩
          exact ⟨a, b, ha, hb.step (shEdge_iff.2 ⟨f2, hl2, frags_shallow hn⟩), hk, hbl, hp⟩
        · refine ⟨trivial, fun x hs => ?_⟩
          rw [g1.1] at hn
          rcases hs with ⟨a, b, ha, hb, hk, hbl, hp⟩
          exact ⟨a, b, ha.step (shEdge_iff.2 ⟨f1, hl1, frags_shallow hn⟩), hb, hk, hbl, hp⟩
  · exact ⟨hst, fun x hx => by cases hx⟩

/-- conflicts of `findConflictsBetweenSubSelectionSets`: a conflicting pair among the flattened sub-selections -/
theorem ssBody_sem (hc : Coh d e π) {rec : Rec} (hrec : SSpec d e π rec) (excl : Bool) {s1 s2 : SelectionSet}
    (h1 : s1 ∈ allSets d) (h2 : s2 ∈ allSets d) (st : OState) (hst : CacheCoh d e π st) :
    CacheCoh d e π (ssBody e rec excl (π s1) s1 (π s2) s2 st).1 ∧
    ∀ x, x ∈ (ssBody e rec excl (π s1) s1 (π s2) s2 st).2 →
      ∃ a' b', a' ∈ flat e (π s1) s1 ∧ b' ∈ flat e (π s2) s2 ∧ a'.node.key = b'.node.key ∧
        PairConflict e excl a' b' := by
  have g1 := getInfo_coh hc hst h1
  have g2 := getInfo_coh hc g1.2.1 h2
  have hi1 : InfoCoh d e π (getInfo e (π s1) s1 st).2 := ⟨s1, h1, g1.1⟩
  have hi2 : InfoCoh d e π (getInfo e (π s2) s2 (getInfo e (π s1) s1 st).1).2 := ⟨s2, h2, g2.1⟩
  unfold ssBody
  simp only
  refine seqCalls_sem' hrec _ _ g2.2.1 _ (fun c hcm => ?_)
  simp only [List.mem_append, List.mem_map, List.mem_flatMap] at hcm
  rcases hcm with ((hcm | ⟨f, hf, rfl⟩) | ⟨f, hf, rfl⟩) | ⟨f1, hf1, f2, hf2, rfl⟩
  · rcases between_sem hc excl hi1 hi2 hcm with ⟨k, a, b, rfl, ha, hb, hk, hsc⟩
    refine ⟨hsc, fun x hs => ?_⟩
    rw [g1.1] at ha
    rw [g2.1] at hb
    exact ⟨a, b, mem_flat_of_direct (occs_direct ha), mem_flat_of_direct (occs_direct hb), hk, hs.2⟩
  · refine ⟨hi1, fun x hs => ?_⟩
    rw [g2.1] at hf
    rcases hs with ⟨a, b, ha, hb, hk, _, hp⟩
    rw [g1.1] at ha
    exact ⟨a, b, mem_flat_of_direct (occs_direct ha), mem_flat_of_flatFrag _ (frags_shallow hf) hb, hk, hp⟩
  · refine ⟨hi2, fun x hs => ?_⟩
    rw [g1.1] at hf
    rcases hs with ⟨a, b, ha, hb, hk, _, hp⟩
    rw [g2.1] at ha
    exact ⟨b, a, mem_flat_of_flatFrag _ (frags_shallow hf) hb, mem_flat_of_direct (occs_direct ha), hk.symm, hp.symm⟩
  · refine ⟨trivial, fun x hs => ?_⟩
    rw [g1.1] at hf1
    rw [g2.1] at hf2
    rcases hs with ⟨a, b, ha, hb, hk, _, hp⟩
    exact ⟨a, b, mem_flat_of_flatFrag _ (frags_shallow hf1) ha, mem_flat_of_flatFrag _ (frags_shallow hf2) hb, hk, hp⟩

theorem fcBody_sem (hc : Coh d e π) {rec : Rec} (hrec : SSpec d e π rec) (pexcl : Bool) (key : String)
    {a b : FieldOcc} (ha : OccCoh d π a) (hb : OccCoh d π b) (hka : a.node.key = key) (st : OState)
    (hst : CacheCoh d e π st) :
    CacheCoh d e π (fcBody e rec pexcl key a b st).1 ∧
    ∀ x, x ∈ (fcBody e rec pexcl key a b st).2 → SemX e (.fc pexcl key a b) x := by
  have hst1 : CacheCoh d e π { st with nFC := st.nFC + 1 } := hst
  have hbl : Blames ⟨key, [a.node.loc], [b.node.loc]⟩ a b := ⟨hka.symm, rfl, rfl⟩
  unfold fcBody
  simp only
  split
  · rename_i h
    refine ⟨hst1, fun x hx => ?_⟩
    simp only [List.mem_singleton] at hx
    subst hx
    refine ⟨hbl, .base ?_⟩
    simp only [Bool.and_eq_true, Bool.not_eq_true'] at h
    simp only [baseConflict, exclOf, h.1, Bool.not_false, Bool.true_and, h.2, Bool.true_or]
  · split
    · rename_i _ h
      refine ⟨hst1, fun x hx => ?_⟩
      simp only [List.mem_singleton] at hx
      subst hx
      refine ⟨hbl, .base ?_⟩
      simp only [Bool.and_eq_true, Bool.not_eq_true'] at h
      have hargs : sameArgsS a.node.args b.node.args = false := by
        cases hs : sameArgsS a.node.args b.node.args with
        | false => rfl
        | true => rw [sameArguments_of_sameArgsS _ _ ha.1 hb.1 hs] at h; exact absurd h.2 (by simp)
      simp only [baseConflict, exclOf, h.1, Bool.not_false, Bool.true_and, hargs, Bool.or_true, Bool.true_or]
    · split
      · rename_i _ _ h
        refine ⟨hst1, fun x hx => ?_⟩
        simp only [List.mem_singleton] at hx
        subst hx
        refine ⟨hbl, .base ?_⟩
        simp only [baseConflict, shapeConflict_of_typesConflict e.s a b h, Bool.or_true]
      · split
        · rename_i s1 s2 hs1 hs2
          have ha1 := ha.2 s1 hs1
          have hb2 := hb.2 s2 hs2
          have hss := ssBody_sem hc hrec (pexcl || exclusive e.s a.parent b.parent) ha1.1 hb2.1
            { st with nFC := st.nFC + 1 } hst1
          rw [ha1.2, hb2.2] at hss
          refine ⟨hss.1, fun x hx => ?_⟩
          unfold subfieldConflicts at hx
          split at hx
          · cases hx
          · rename_i hne
            simp only [List.mem_singleton] at hx
            subst hx
            refine ⟨⟨hka.symm, rfl, rfl⟩, ?_⟩
            -- any sub-conflict is a witness
            cases hcs : (ssBody e rec (pexcl || exclusive e.s a.parent b.parent) a.subParent s1 b.subParent s2
                { st with nFC := st.nFC + 1 }).2 with
            | nil => rw [hcs] at hne; simp at hne
            | cons y ys =>
              rcases hss.2 y (by rw [hcs]; exact List.mem_cons_self) with ⟨a', b', ha', hb', hk, hp⟩
              exact .sub s1 s2 a' b' hs1 hs2 ha' hb' hk hp
        · exact ⟨hst1, fun x hx => by cases hx⟩

theorem body_sem (hc : Coh d e π) {rec : Rec} (hrec : SSpec d e π rec) : SSpec d e π (body e rec) := by
  intro c st hcall hst
  cases c with
  | fc excl key a b => exact fcBody_sem hc hrec excl key hcall.1 hcall.2.1 hcall.2.2.1 st hst
  | ff excl info frag => exact ffBody_sem hc hrec excl hcall frag st hst
  | bf excl n1 n2 => exact bfBody_sem hc hrec excl n1 n2 st hst

theorem run_sem (hc : Coh d e π) (fuel : Nat) : SSpec d e π (run e fuel) := by
  induction fuel with
  | zero => intro c st _ hst; exact ⟨hst, fun x hx => by cases hx⟩
  | succ fuel ih => exact body_sem hc ih

/-- conflicts reported while visiting one selection set are conflicts of its flattened field set -/
theorem visitSet_sound (hc : Coh d e π) (fuel : Nat) {ss : SelectionSet} (hss : ss ∈ allSets d) (st : OState)
    (hst : CacheCoh d e π st) :
    CacheCoh d e π (visitSet e fuel (π ss) ss st).1 ∧
    ∀ x, x ∈ (visitSet e fuel (π ss) ss st).2 →
      ∃ a b, a ∈ flat e (π ss) ss ∧ b ∈ flat e (π ss) ss ∧ a.node.key = b.node.key ∧ Blames x a b ∧
        PairConflict e false a b := by
  have g := getInfo_coh hc hst hss
  have hi : InfoCoh d e π (getInfo e (π ss) ss st).2 := ⟨ss, hss, g.1⟩
  unfold visitSet
  simp only
  have hko := (collectInfo_spec e (π ss) ss).2.2
  rw [← g.1] at hko
  refine seqCalls_sem' (run_sem hc fuel) _ _ g.2.1 _ (fun c hcm => ?_)
  rcases List.mem_append.1 hcm with hcm | hcm
  · simp only [withinCalls, List.mem_flatMap, List.mem_map] at hcm
    rcases hcm with ⟨kf, hkf, ab, hab, rfl⟩
    have hm := mem_pairsLt kf.2 ab.1 ab.2 hab
    have ha : ab.1 ∈ occsOf (getInfo e (π ss) ss st).2.fields := mem_occsOf.2 ⟨kf, hkf, hm.1⟩
    have hb : ab.2 ∈ occsOf (getInfo e (π ss) ss st).2.fields := mem_occsOf.2 ⟨kf, hkf, hm.2⟩
    have hk1 : ab.1.node.key = kf.1 := hko kf hkf _ hm.1
    have hk2 : ab.2.node.key = kf.1 := hko kf hkf _ hm.2
    refine ⟨⟨occ_of_info hc hi ha, occ_of_info hc hi hb, hk1, hk2⟩, fun x hs => ?_⟩
    rw [g.1] at ha hb
    exact ⟨ab.1, ab.2, mem_flat_of_direct (occs_direct ha), mem_flat_of_direct (occs_direct hb),
      hk1.trans hk2.symm, hs.1, hs.2⟩
  · -- steps B and C
    have key : ∀ (fs : List String), (∀ n, n ∈ fs → n ∈ shallowSet ss) →
        c ∈ topFragCalls (getInfo e (π ss) ss st).2 fs →
        SCall d e π c ∧ ∀ x, SemX e c x →
          ∃ a b, a ∈ flat e (π ss) ss ∧ b ∈ flat e (π ss) ss ∧ a.node.key = b.node.key ∧ Blames x a b ∧
            PairConflict e false a b := by
      intro fs
      induction fs with
      | nil => intro _ h; cases h
      | cons f rest ih =>
        intro hfs hmem
        simp only [topFragCalls, List.mem_cons, List.mem_append, List.mem_map] at hmem
        rcases hmem with rfl | ⟨g', hg', rfl⟩ | hmem
        · refine ⟨hi, fun x hs => ?_⟩
          rcases hs with ⟨a, b, ha, hb, hk, hbl, hp⟩
          rw [g.1] at ha
          exact ⟨a, b, mem_flat_of_direct (occs_direct ha),
            mem_flat_of_flatFrag _ (hfs f List.mem_cons_self) hb, hk, hbl, hp⟩
        · refine ⟨trivial, fun x hs => ?_⟩
          rcases hs with ⟨a, b, ha, hb, hk, hbl, hp⟩
          exact ⟨a, b, mem_flat_of_flatFrag _ (hfs f List.mem_cons_self) ha,
            mem_flat_of_flatFrag _ (hfs g' (List.mem_cons_of_mem _ hg')) hb, hk, hbl, hp⟩
        · exact ih (fun n hn => hfs n (List.mem_cons_of_mem _ hn)) hmem
    refine key _ (fun n hn => ?_) hcm
    rw [g.1] at hn
    exact frags_shallow hn

/-- the whole rule: every reported conflict blames two fields of the flattened set of the selection set being visited
that cannot be merged -/
theorem overlapRun_sound (hc : Coh d e π) (fuel : Nat) (sets : List (TCtx × SelectionSet))
    (hsets : ∀ cs, cs ∈ sets → cs.2 ∈ allSets d ∧ π cs.2 = cs.1.parent) :
    ∀ x, x ∈ (overlapRun e fuel sets).2 →
      ∃ cs, cs ∈ sets ∧ ∃ a b, a ∈ flat e cs.1.parent cs.2 ∧ b ∈ flat e cs.1.parent cs.2 ∧
        a.node.key = b.node.key ∧ Blames x a b ∧ PairConflict e false a b := by
  unfold overlapRun
  suffices h : ∀ (acc : OState × List Conflict), CacheCoh d e π acc.1 →
      ∀ x, x ∈ (sets.foldl (fun acc cs =>
        ((visitSet e fuel cs.1.parent cs.2 acc.1).1, acc.2 ++ (visitSet e fuel cs.1.parent cs.2 acc.1).2)) acc).2 →
        x ∈ acc.2 ∨ ∃ cs, cs ∈ sets ∧ ∃ a b, a ∈ flat e cs.1.parent cs.2 ∧ b ∈ flat e cs.1.parent cs.2 ∧
          a.node.key = b.node.key ∧ Blames x a b ∧ PairConflict e false a b by
    intro x hx
    rcases h (OState.init, []) (by intro p hp; cases hp) x hx with h' | h'
    · cases h'
    · exact h'
  induction sets with
  | nil => intro acc _ x hx; exact .inl hx
  | cons cs rest ih =>
    intro acc hacc x hx
    simp only [List.foldl_cons] at hx
    have hcs := hsets cs List.mem_cons_self
    have hv := visitSet_sound hc fuel hcs.1 acc.1 hacc
    rw [hcs.2] at hv
    rcases ih (fun c hc' => hsets c (List.mem_cons_of_mem _ hc'))
      ((visitSet e fuel cs.1.parent cs.2 acc.1).1, acc.2 ++ (visitSet e fuel cs.1.parent cs.2 acc.1).2) hv.1 x hx
      with h' | ⟨c, hc', h'⟩
    · rcases List.mem_append.1 h' with h' | h'
      · exact .inl h'
      · exact .inr ⟨cs, List.mem_cons_self, hv.2 x h'⟩
    · exact .inr ⟨c, List.mem_cons_of_mem _ hc', h'⟩

/-- the executable coherence check establishes the hypotheses -/
theorem coh_of_cohB (s : Schema) (d : Document) (e : Env) (hT : ∀ f, f ∈ e.tbl → f.sel ∈ allSets d)
    (h : cohB s d e = true) :
    Coh d e (piOf s d) ∧ ∀ cs, cs ∈ typedSelSets s d → piOf s d cs.2 = cs.1.parent := by
  simp only [cohB, Bool.and_eq_true, List.all_eq_true, decide_eq_true_eq] at h
  obtain ⟨⟨⟨h1, h2⟩, h3⟩, h4⟩ := h
  refine ⟨⟨fun ss hss a ha s' hs' => ?_, fun ss hss a ha => ?_, h3, hT, h1⟩, h4⟩
  · have := (h2 ss hss a ha).2
    rw [hs'] at this
    simpa using this
  · have := (h2 ss hss a ha).1
    simpa [FieldNode.argsUnique] using this

end GqlModel.Validate.Overlap
