import GqlProofs.PlanDefer2
/-! # `GenP`: the `complete` step, and the induction -/
namespace GqlModel.Plan
open GqlModel.Exec GqlModel.Coerce

theorem notFunc_of_funcOf {v : GoVal} (h : funcOf v = none) : v.notFunc = true := by
  cases v <;> simp [funcOf, GoVal.notFunc] at h ⊢

theorem cons_ne_self {α : Type} (a : α) (l : List α) : a :: l ≠ l := by
  intro h
  have := congrArg List.length h
  simp at this

section gen
variable {c : Ctx} {pv : Option Vars} {rank : String → Nat} {F : Nat}

local notation "alt0" => recompute c.schema c.frags pv

theorem genP_complete (hac : Acyclic c.frags rank) (hfr : FragsOK c pv) (fuel : Nat)
    (hle : fuel ≤ F) (ih : GenP c pv rank F fuel) :
    ∀ dfr t rt fid fp p v st mst rS stS, (∀ x ∈ fp.nodes, NodeOK c pv rank x.1 x.2) →
    complete c (fuel + 1) dfr t rt fp.fieldName fp.fieldNodes p v st = (rS, stS) → rS ≠ .fuelOut → stS.kfThunk = st.kfThunk →
    CompleteRel c pv rank F t v rS (mComplete c alt0 (fuel + 1) dfr t rt fid fp p v mst).1 := by
  intro dfr t rt fid fp p v st mst rS stS hn h hr hkf
  cases hfo : funcOf v with
  | some r =>
    -- a func: S forces it here, M wraps it
    have hM : (mComplete c alt0 (fuel + 1) dfr t rt fid fp p v mst).1 =
        .ok (.deferred { t := t, rt := rt, fid := fid, fp := fp, path := p, r := r }) := by
      simp only [mComplete, hfo]
    rw [hM]
    -- the two failing shapes: not a `func() (interface{}, error)`, or a failing thunk
    have hbad : r = none ∨ r = some .err → ∀ st0 : St,
        ((Res.fail : Res JVal), ({ addErr st0 p true with kfThunk := if t.isNonNull then p :: st0.kfThunk else st0.kfThunk } : St))
          = (rS, stS) → st0.kfThunk = st.kfThunk →
        CompleteRel c pv rank F t v rS (.ok (.deferred { t := t, rt := rt, fid := fid, fp := fp, path := p, r := r })) := by
      intro hr' st0 h0 hk0
      simp only [Prod.mk.injEq] at h0
      obtain ⟨rfl, rfl⟩ := h0
      have hnn : t.isNonNull = false := by
        cases hnn : t.isNonNull with
        | false => rfl
        | true =>
          simp only [hnn, if_true] at hkf
          rw [← hk0] at hkf
          exact absurd hkf (cons_ne_self _ _)
      refine .inr ⟨_, rfl, by simp [hfo], hnn, hn, ?_⟩
      rcases hr' with rfl | rfl <;> exact ⟨hnn, rfl⟩
    cases v with
    | badFunc =>
      simp only [funcOf, Option.some.injEq] at hfo
      subst hfo
      simp only [complete] at h
      exact hbad (.inl rfl) st h rfl
    | thunk tr =>
      simp only [funcOf, Option.some.injEq] at hfo
      subst hfo
      cases tr with
      | err =>
        simp only [complete] at h
        exact hbad (.inr rfl) st h rfl
      | ok v' =>
        simp only [complete] at h
        have hk1 := kfExt_complete c fuel true t rt fp.fieldName fp.fieldNodes p v' st
        rcases hS : complete c fuel true t rt fp.fieldName fp.fieldNodes p v' st with ⟨r1, st1⟩
        rw [hS] at h hk1
        simp only at hk1
        cases r1 with
        | ok j =>
          simp only [Prod.mk.injEq] at h
          obtain ⟨rfl, rfl⟩ := h
          have hF := complete_fuel_le c hle true t rt fp.fieldName fp.fieldNodes p v' st _ _ hS (by simp)
          exact ⟨_, rfl, .deferred ⟨hn, st, _, _, hF, hkf, .inl rfl⟩⟩
        | fail =>
          simp only [Prod.mk.injEq] at h
          obtain ⟨rfl, rfl⟩ := h
          have hnn : t.isNonNull = false := by
            cases hnn : t.isNonNull with
            | false => rfl
            | true =>
              simp only [hnn, if_true] at hkf
              obtain ⟨k, hk⟩ := hk1
              have := congrArg List.length hkf
              simp only [List.length_cons, hk, List.length_append] at this
              omega
          simp only [hnn, Bool.false_eq_true, if_false] at hkf
          have hF := complete_fuel_le c hle true t rt fp.fieldName fp.fieldNodes p v' st _ _ hS (by simp)
          exact .inr ⟨_, rfl, by simp [funcOf], hnn, hn, st, _, _, hF, hkf, .inr ⟨rfl, hnn, rfl⟩⟩
        | fuelOut =>
          simp only [Prod.mk.injEq] at h
          exact absurd h.1.symm hr
    | _ => simp [funcOf] at hfo
  | none =>
    rw [complete_succ_notFunc c fuel dfr t rt fp.fieldName fp.fieldNodes p v st (notFunc_of_funcOf hfo)] at h
    have hfail : ∀ (st0 : St), ((Res.fail : Res JVal), st0) = (rS, stS) →
        CompleteRel c pv rank F t v rS (Res.fail : Res PVal) := by
      intro st0 h0
      simp only [Prod.mk.injEq] at h0
      obtain ⟨rfl, rfl⟩ := h0
      exact .inl rfl
    have hleaf : ∀ (j : JVal) (st0 : St), ((Res.ok j : Res JVal), st0) = (rS, stS) →
        CompleteRel c pv rank F t v rS (Res.ok (PVal.leaf j) : Res PVal) := by
      intro j st0 h0
      simp only [Prod.mk.injEq] at h0
      obtain ⟨rfl, rfl⟩ := h0
      exact ⟨_, rfl, .leaf _⟩
    -- the object / abstract tail
    have hgroups : ∀ ot,
        (match execGroups c fuel dfr ot v p (collectMerged c ot fp.fieldNodes) [] st with
          | (.ok fs, st) => ((Res.ok (JVal.obj fs) : Res JVal), st)
          | (.fail, st) => (.fail, st)
          | (.fuelOut, st) => (.fuelOut, st)) = (rS, stS) →
        CompleteRel c pv rank F t v rS
          (match mGroups c alt0 fuel dfr ot v p fid (alt0 mst.memo fid fp ot).1 [] { mst with memo := (alt0 mst.memo fid fp ot).2 } with
            | (.ok fs, st) => ((Res.ok (PVal.obj fs) : Res PVal), st)
            | (.fail, st) => (.fail, st)
            | (.fuelOut, st) => (.fuelOut, st)).1 := by
      intro ot h
      obtain ⟨hgo, hfps⟩ := planMerged_sim (rt := ot) hac hfr fp.nodes hn
      have hsub : (alt0 mst.memo fid fp ot).1 = planMerged c.schema c.frags pv ot fp.nodes := rfl
      have hmst : ({ mst with memo := (alt0 mst.memo fid fp ot).2 } : MSt) = mst := rfl
      rw [hsub, hmst]
      have hfn : fp.fieldNodes = fp.nodes.map (·.1) := rfl
      rw [hfn, ← hgo] at h
      have hk1 := kfExt_groups c fuel dfr ot v p (groupsOf (planMerged c.schema c.frags pv ot fp.nodes)) [] st
      rcases hS : execGroups c fuel dfr ot v p (groupsOf (planMerged c.schema c.frags pv ot fp.nodes)) [] st with ⟨r1, st1⟩
      rw [hS] at h hk1
      rcases hM1 : mGroups c alt0 fuel dfr ot v p fid (planMerged c.schema c.frags pv ot fp.nodes) [] mst with ⟨rM1, mst1⟩
      cases r1 with
      | ok fs =>
        simp only [Prod.mk.injEq] at h
        obtain ⟨rfl, rfl⟩ := h
        have hg := ih.groups dfr ot v p fid _ [] [] st mst _ _ hfps .nil hS (by simp) hkf
        simp only [hM1] at hg
        obtain ⟨pfs, hp, hsv⟩ := hg
        subst hp
        exact ⟨_, rfl, .obj hsv⟩
      | fail =>
        simp only [Prod.mk.injEq] at h
        obtain ⟨rfl, rfl⟩ := h
        have hg := ih.groups dfr ot v p fid _ [] [] st mst _ _ hfps .nil hS (by simp) hkf
        simp only [hM1] at hg
        subst hg
        exact .inl rfl
      | fuelOut =>
        simp only [Prod.mk.injEq] at h
        exact absurd h.1.symm hr
    simp only [mComplete, hfo]
    cases t with
    | nonNull inner =>
      simp only [completeBody] at h
      simp only
      have hk1 := kfExt_complete c fuel dfr inner rt fp.fieldName fp.fieldNodes p v st
      rcases hS : complete c fuel dfr inner rt fp.fieldName fp.fieldNodes p v st with ⟨r1, st1⟩
      rw [hS] at h hk1
      simp only at hk1
      rcases hM1 : mComplete c alt0 fuel dfr inner rt fid fp p v mst with ⟨rM1, mst1⟩
      cases r1 with
      | ok j =>
        have hk : st1.kfThunk = st.kfThunk := by
          by_cases hj : j = .null
          · subst hj
            simp only [Prod.mk.injEq] at h
            rw [← h.2] at hkf
            exact hkf
          · split at h
            · rename_i heq
              simp only [Prod.mk.injEq, Res.ok.injEq] at heq
              exact absurd heq.1 hj
            · simp only [Prod.mk.injEq] at h
              rw [← h.2] at hkf
              exact hkf
        have hc := ih.complete dfr inner rt fid fp p v st mst _ _ hn hS (by simp) hk
        simp only [CompleteRel, hM1] at hc
        obtain ⟨x, hx, hsv⟩ := hc
        subst hx
        have hnd : ∀ cl, x ≠ .deferred cl :=
          mComplete_not_deferred fuel dfr inner rt fid fp p v mst hfo x (by rw [hM1])
        by_cases hj : j = .null
        · subst hj
          have hx := (sv_null_iff hsv hnd).2 rfl
          subst hx
          simp only [Prod.mk.injEq] at h
          obtain ⟨rfl, rfl⟩ := h
          exact .inl rfl
        · split at h
          · rename_i heq
            simp only [Prod.mk.injEq, Res.ok.injEq] at heq
            exact absurd heq.1 hj
          simp only [Prod.mk.injEq] at h
          obtain ⟨rfl, rfl⟩ := h
          have hx : x ≠ .leaf .null := fun hx => hj ((sv_null_iff hsv hnd).1 hx)
          split
          · rename_i heq
            simp only [Prod.mk.injEq, Res.ok.injEq] at heq
            exact absurd heq.1 hx
          · exact ⟨x, rfl, hsv⟩
      | fail =>
        simp only [Prod.mk.injEq] at h
        obtain ⟨rfl, rfl⟩ := h
        have hc := ih.complete dfr inner rt fid fp p v st mst _ _ hn hS (by simp) hkf
        simp only [CompleteRel, hM1] at hc
        rcases hc with hc | ⟨cl, _, hne, _, _⟩
        · subst hc; exact .inl rfl
        · exact absurd hfo hne
      | fuelOut =>
        simp only [Prod.mk.injEq] at h
        exact absurd h.1.symm hr
    | list item =>
      simp only [completeBody] at h
      simp only
      by_cases hnull : v.nullish = true
      · simp only [hnull, if_true] at h ⊢; exact hleaf _ _ h
      · simp only [hnull, Bool.false_eq_true, if_false] at h ⊢
        cases v with
        | list xs =>
          simp only [listOf]
          simp only at h
          have hk1 := kfExt_items c fuel dfr item rt fp.fieldName fp.fieldNodes p xs 0 [] st
          rcases hS : completeItems c fuel dfr item rt fp.fieldName fp.fieldNodes p xs 0 [] st with ⟨r1, st1⟩
          rw [hS] at h hk1
          rcases hM1 : mItems c alt0 fuel dfr item rt fid fp p xs 0 [] mst with ⟨rM1, mst1⟩
          cases r1 with
          | ok js =>
            simp only [Prod.mk.injEq] at h
            obtain ⟨rfl, rfl⟩ := h
            have hi := ih.items dfr item rt fid fp p xs 0 [] [] st mst _ _ hn .nil hS (by simp) hkf
            simp only [hM1] at hi
            obtain ⟨ys, hy, hsv⟩ := hi
            subst hy
            exact ⟨_, rfl, .list hsv⟩
          | fail =>
            simp only [Prod.mk.injEq] at h
            obtain ⟨rfl, rfl⟩ := h
            have hi := ih.items dfr item rt fid fp p xs 0 [] [] st mst _ _ hn .nil hS (by simp) hkf
            simp only [hM1] at hi
            subst hi
            exact .inl rfl
          | fuelOut =>
            simp only [Prod.mk.injEq] at h
            exact absurd h.1.symm hr
        | _ => simp only [listOf]; exact hfail _ h
    | named n =>
      simp only [completeBody] at h
      simp only
      by_cases hnull : v.nullish = true
      · simp only [hnull, if_true] at h ⊢; exact hleaf _ _ h
      · simp only [hnull, Bool.false_eq_true, if_false] at h ⊢
        by_cases hleaf' : c.schema.isLeaf n = true
        · simp only [hleaf', if_true] at h ⊢
          cases hs : serializeLeaf c.schema n v with
          | none => simp only [hs] at h ⊢; exact hfail _ h
          | some j => simp only [hs] at h ⊢; exact hleaf _ _ h
        · simp only [hleaf', Bool.false_eq_true, if_false] at h ⊢
          by_cases habs : c.schema.isAbstract n = true
          · simp only [habs, if_true] at h ⊢
            cases hrt : runtimeTypeOf c n v with
            | none => simp only [hrt] at h ⊢; exact hfail _ h
            | some ot =>
              simp only [hrt] at h ⊢
              by_cases hposs : (!(c.schema.isObject ot && c.schema.isPossibleType n ot)) = true
              · simp only [hposs, if_true] at h ⊢; exact hfail _ h
              · simp only [hposs, Bool.false_eq_true, if_false] at h ⊢
                exact hgroups ot h
          · simp only [habs, Bool.false_eq_true, if_false] at h ⊢
            by_cases hobj : c.schema.isObject n = true
            · simp only [hobj, if_true] at h ⊢
              by_cases hito : (objectHasIsTypeOf c.schema n && !c.world.isTypeOfAns n v) = true
              · simp only [hito, if_true] at h ⊢; exact hfail _ h
              · simp only [hito, Bool.false_eq_true, if_false] at h ⊢
                exact hgroups n h
            · simp only [hobj, Bool.false_eq_true, if_false] at h ⊢; exact hfail _ h

/-- phase one of M (memo-free instance) against the algorithm, with deferred values, outside D-04c, for every fuel up to the
request's -/
theorem genP (hac : Acyclic c.frags rank) (hfr : FragsOK c pv) :
    ∀ fuel, fuel ≤ F → GenP c pv rank F fuel
  | 0, _ => genP_zero
  | fuel + 1, hle =>
    have ih := genP hac hfr fuel (Nat.le_of_succ_le hle)
    ⟨genP_groups fuel ih, genP_field fuel ih, genP_complete hac hfr fuel (Nat.le_of_succ_le hle) ih, genP_items fuel ih⟩

end gen

end GqlModel.Plan
