import GqlProofs.PlanMemo
/-! # Memo transparency, continued: forcing, the dethunk loops, the request level -/
namespace GqlModel.Plan
open GqlModel.Exec GqlModel.Coerce

/-- two forcing functions agree on closures that remember their field plan's address -/
def FrcAgree (c : Ctx) (pv : Option Vars) (rootType : String) (root : List FieldPlan)
    (frc frc0 : Closure → MSt → Res PVal × MSt) : Prop :=
  ∀ cl st st0, ClOK c pv rootType root cl → StRel st st0 → Valid c pv rootType root st.memo →
    Agree c pv rootType root (fun v => PVal.AllCl (ClOK c pv rootType root) v) (frc cl st) (frc0 cl st0)

/-- the three depth-first functions agree at this fuel -/
structure DfsP (c : Ctx) (pv : Option Vars) (rootType : String) (root : List FieldPlan)
    (frc frc0 : Closure → MSt → Res PVal × MSt) (fuel : Nat) : Prop where
  val : ∀ v st st0, PVal.AllCl (ClOK c pv rootType root) v → StRel st st0 → Valid c pv rootType root st.memo →
    Agree c pv rootType root (fun v => PVal.AllCl (ClOK c pv rootType root) v) (dfsVal frc fuel v st) (dfsVal frc0 fuel v st0)
  fields : ∀ ks fs st st0, (∀ p ∈ fs, PVal.AllCl (ClOK c pv rootType root) p.2) → StRel st st0 →
    Valid c pv rootType root st.memo →
    Agree c pv rootType root (fun fs => ∀ p ∈ fs, PVal.AllCl (ClOK c pv rootType root) p.2)
      (dfsFields frc fuel ks fs st) (dfsFields frc0 fuel ks fs st0)
  items : ∀ xs acc st st0, (∀ x ∈ xs, PVal.AllCl (ClOK c pv rootType root) x) →
    (∀ x ∈ acc, PVal.AllCl (ClOK c pv rootType root) x) → StRel st st0 → Valid c pv rootType root st.memo →
    Agree c pv rootType root (fun ys => ∀ x ∈ ys, PVal.AllCl (ClOK c pv rootType root) x)
      (dfsItems frc fuel xs acc st) (dfsItems frc0 fuel xs acc st0)

section memo2
variable {c : Ctx} {pv : Option Vars} {rootType : String} {root : List FieldPlan}

local notation "altM" => abstractAlternative c.schema c.frags pv
local notation "alt0" => recompute c.schema c.frags pv
local notation "OK" => PVal.AllCl (ClOK c pv rootType root)

theorem force_agree (hr : KeysNodup root) (fuel : Nat) :
    FrcAgree c pv rootType root (force c altM fuel) (force c alt0 fuel) := by
  intro cl st st0 hcl h hv
  unfold force
  cases hcr : cl.r with
  | none =>
    simp only
    by_cases hnn : cl.t.isNonNull = true
    · simp only [hnn, if_true]; exact agree_fail (h.addErr _ _) hv
    · simp only [hnn, Bool.false_eq_true, if_false]; exact agree_ok (h.addErr _ _) hv (allCl_leaf _)
  | some r =>
    simp only
    have h' := h.logEv (.force cl.path)
    have hv' : Valid c pv rootType root (st.logEv (.force cl.path)).memo := hv
    cases r with
    | err =>
      simp only
      by_cases hnn : cl.t.isNonNull = true
      · simp only [hnn, if_true]; exact agree_fail (h'.addErr _ _) hv'
      · simp only [hnn, Bool.false_eq_true, if_false]; exact agree_ok (h'.addErr _ _) hv' (allCl_leaf _)
    | ok v =>
      simp only
      have hc := (memoP hr fuel).complete true cl.t cl.rt cl.fid cl.fp cl.path v _ _ h' hv' hcl
      generalize hM : mComplete c altM fuel true cl.t cl.rt cl.fid cl.fp cl.path v (st.logEv (.force cl.path)) = xM at hc ⊢
      generalize h0 : mComplete c alt0 fuel true cl.t cl.rt cl.fid cl.fp cl.path v (st0.logEv (.force cl.path)) = x0 at hc ⊢
      obtain ⟨r1, st1⟩ := xM
      obtain ⟨r1', st1'⟩ := x0
      obtain ⟨hr1, hst, hval, hgood⟩ := hc
      simp only at hr1 hst hval hgood
      subst hr1
      cases r1 with
      | ok x => exact agree_ok hst hval (hgood x rfl)
      | fail =>
        simp only
        by_cases hnn : cl.t.isNonNull = true
        · simp only [hnn, if_true]; exact agree_fail hst hval
        · simp only [hnn, Bool.false_eq_true, if_false]; exact agree_ok hst hval (allCl_leaf _)
      | fuelOut => exact agree_fuelOut hst hval

variable {frc frc0 : Closure → MSt → Res PVal × MSt}

/-- the loop at a dethunk site agrees when the forcing functions do -/
theorem forceLoop_agree (hf : FrcAgree c pv rootType root frc frc0) :
    ∀ (n : Nat) (v : PVal) (st st0 : MSt), OK v → StRel st st0 → Valid c pv rootType root st.memo →
    Agree c pv rootType root (fun v => OK v) (forceLoop frc n v st) (forceLoop frc0 n v st0)
  | 0, v, st, st0, _, h, hv => by simp only [forceLoop]; exact agree_fuelOut h hv
  | n + 1, .leaf j, st, st0, hok, h, hv => by simp only [forceLoop]; exact agree_ok h hv hok
  | n + 1, .list xs, st, st0, hok, h, hv => by simp only [forceLoop]; exact agree_ok h hv hok
  | n + 1, .obj fs, st, st0, hok, h, hv => by simp only [forceLoop]; exact agree_ok h hv hok
  | n + 1, .deferred cl, st, st0, hok, h, hv => by
    simp only [forceLoop]
    have ha := hf cl st st0 (allCl_deferred.1 hok) h hv
    generalize hM : frc cl st = xM at ha ⊢
    generalize h0 : frc0 cl st0 = x0 at ha ⊢
    obtain ⟨r1, st1⟩ := xM
    obtain ⟨r1', st1'⟩ := x0
    obtain ⟨hr1, hst, hval, hgood⟩ := ha
    simp only at hr1 hst hval hgood
    subst hr1
    cases r1 with
    | ok x => exact forceLoop_agree hf n x st1 st1' (hgood x rfl) hst hval
    | fail => exact agree_fail hst hval
    | fuelOut => exact agree_fuelOut hst hval

theorem forceAll_agree (hr : KeysNodup root) (fuel : Nat) :
    FrcAgree c pv rootType root (forceAll c altM fuel) (forceAll c alt0 fuel) := by
  intro cl st st0 hcl h hv
  exact forceLoop_agree (force_agree hr fuel) (fuel + 2) (.deferred cl) st st0 (allCl_deferred.2 hcl) h hv

theorem bfsEntries_agree (hf : FrcAgree c pv rootType root frc frc0) (p : Path) :
    ∀ (segs : List PathSeg) (rootV : PVal) (q : List Path) (st st0 : MSt), OK rootV → StRel st st0 →
    Valid c pv rootType root st.memo →
    Agree c pv rootType root (fun (r : PVal × List Path) => OK r.1)
      (bfsEntries frc p segs rootV q st) (bfsEntries frc0 p segs rootV q st0)
  | [], rootV, q, st, st0, hroot, h, hv => by simp only [bfsEntries]; exact agree_ok h hv hroot
  | seg :: rest, rootV, q, st, st0, hroot, h, hv => by
    simp only [bfsEntries]
    cases hg : rootV.getAt (p ++ [seg]) with
    | none => simp only; exact bfsEntries_agree hf p rest rootV q st st0 hroot h hv
    | some x =>
      cases x with
      | deferred cl =>
        simp only
        have hcl : ClOK c pv rootType root cl := allCl_deferred.1 (allCl_getAt _ hroot hg)
        have ha := hf cl st st0 hcl h hv
        generalize hM : frc cl st = xM at ha ⊢
        generalize h0 : frc0 cl st0 = x0 at ha ⊢
        obtain ⟨r1, st1⟩ := xM
        obtain ⟨r1', st1'⟩ := x0
        obtain ⟨hr1, hst, hval, hgood⟩ := ha
        simp only at hr1 hst hval hgood
        subst hr1
        cases r1 with
        | ok v =>
          simp only
          exact bfsEntries_agree hf p rest _ _ st1 st1' (allCl_setAt _ hroot (hgood v rfl)) hst hval
        | fail => exact agree_fail hst hval
        | fuelOut => exact agree_fuelOut hst hval
      | leaf j => simp only; exact bfsEntries_agree hf p rest rootV _ st st0 hroot h hv
      | list xs => simp only; exact bfsEntries_agree hf p rest rootV _ st st0 hroot h hv
      | obj fs => simp only; exact bfsEntries_agree hf p rest rootV _ st st0 hroot h hv

theorem bfsLoop_agree (hf : FrcAgree c pv rootType root frc frc0) :
    ∀ (fuel : Nat) (rootV : PVal) (q : List Path) (st st0 : MSt), OK rootV → StRel st st0 →
    Valid c pv rootType root st.memo →
    Agree c pv rootType root (fun v => OK v) (bfsLoop frc fuel rootV q st) (bfsLoop frc0 fuel rootV q st0)
  | 0, rootV, q, st, st0, _, h, hv => by simp only [bfsLoop]; exact agree_fuelOut h hv
  | fuel + 1, rootV, [], st, st0, hroot, h, hv => by simp only [bfsLoop]; exact agree_ok h hv hroot
  | fuel + 1, rootV, p :: q, st, st0, hroot, h, hv => by
    simp only [bfsLoop]
    cases hg : rootV.getAt p with
    | none => simp only; exact bfsLoop_agree hf fuel rootV q st st0 hroot h hv
    | some cont =>
      simp only
      have he := bfsEntries_agree hf p (childSegs cont) rootV q st st0 hroot h hv
      generalize hM : bfsEntries frc p (childSegs cont) rootV q st = xM at he ⊢
      generalize h0 : bfsEntries frc0 p (childSegs cont) rootV q st0 = x0 at he ⊢
      obtain ⟨r1, st1⟩ := xM
      obtain ⟨r1', st1'⟩ := x0
      obtain ⟨hr1, hst, hval, hgood⟩ := he
      simp only at hr1 hst hval hgood
      subst hr1
      cases r1 with
      | ok x =>
        obtain ⟨rootV', q'⟩ := x
        simp only
        exact bfsLoop_agree hf fuel rootV' q' st1 st1' (hgood _ rfl) hst hval
      | fail => exact agree_fail hst hval
      | fuelOut => exact agree_fuelOut hst hval

theorem dfsP (hf : FrcAgree c pv rootType root frc frc0) : ∀ fuel, DfsP c pv rootType root frc frc0 fuel
  | 0 => by
    refine ⟨?_, ?_, ?_⟩
    · intro v st st0 _ h hv; simp only [dfsVal]; exact agree_fuelOut h hv
    · intro ks fs st st0 _ h hv; simp only [dfsFields]; exact agree_fuelOut h hv
    · intro xs acc st st0 _ _ h hv; simp only [dfsItems]; exact agree_fuelOut h hv
  | fuel + 1 => by
    have ih := dfsP hf fuel
    refine ⟨?_, ?_, ?_⟩
    · -- a value that is not a closure: descend
      have key : ∀ (x : PVal) (st st0 : MSt), (∀ cl, x ≠ .deferred cl) → OK x → StRel st st0 →
          Valid c pv rootType root st.memo →
          Agree c pv rootType root (fun v => OK v) (dfsVal frc (fuel + 1) x st) (dfsVal frc0 (fuel + 1) x st0) := by
        intro x st st0 hnd hx hst hval
        cases x with
        | leaf j => simp only [dfsVal]; exact agree_ok hst hval hx
        | deferred cl => exact absurd rfl (hnd cl)
        | obj fs =>
          simp only [dfsVal]
          have hfs := ih.fields (sortedKeys fs) fs st st0 (allCl_obj.1 hx) hst hval
          generalize hM2 : dfsFields frc fuel (sortedKeys fs) fs st = yM at hfs ⊢
          generalize h02 : dfsFields frc0 fuel (sortedKeys fs) fs st0 = y0 at hfs ⊢
          obtain ⟨r2, st2⟩ := yM
          obtain ⟨r2', st2'⟩ := y0
          obtain ⟨hr2, hst2, hval2, hgood2⟩ := hfs
          simp only at hr2 hst2 hval2 hgood2
          subst hr2
          cases r2 with
          | ok fs' => exact agree_ok hst2 hval2 (allCl_obj.2 (hgood2 fs' rfl))
          | fail => exact agree_fail hst2 hval2
          | fuelOut => exact agree_fuelOut hst2 hval2
        | list xs =>
          simp only [dfsVal]
          have hxs := ih.items xs [] st st0 (allCl_list.1 hx) (fun _ hm => by cases hm) hst hval
          generalize hM2 : dfsItems frc fuel xs [] st = yM at hxs ⊢
          generalize h02 : dfsItems frc0 fuel xs [] st0 = y0 at hxs ⊢
          obtain ⟨r2, st2⟩ := yM
          obtain ⟨r2', st2'⟩ := y0
          obtain ⟨hr2, hst2, hval2, hgood2⟩ := hxs
          simp only at hr2 hst2 hval2 hgood2
          subst hr2
          cases r2 with
          | ok xs' => exact agree_ok hst2 hval2 (allCl_list.2 (hgood2 xs' rfl))
          | fail => exact agree_fail hst2 hval2
          | fuelOut => exact agree_fuelOut hst2 hval2
      intro v st st0 hvok h hv
      cases v with
      | leaf j => exact key _ st st0 (fun _ hh => by cases hh) hvok h hv
      | list xs => exact key _ st st0 (fun _ hh => by cases hh) hvok h hv
      | obj fs => exact key _ st st0 (fun _ hh => by cases hh) hvok h hv
      | deferred cl =>
        simp only [dfsVal]
        have ha := hf cl st st0 (allCl_deferred.1 hvok) h hv
        generalize hM : frc cl st = xM at ha ⊢
        generalize h0 : frc0 cl st0 = x0 at ha ⊢
        obtain ⟨r1, st1⟩ := xM
        obtain ⟨r1', st1'⟩ := x0
        obtain ⟨hr1, hst, hval, hgood⟩ := ha
        simp only at hr1 hst hval hgood
        subst hr1
        cases r1 with
        | fail => exact agree_fail hst hval
        | fuelOut => exact agree_fuelOut hst hval
        | ok x =>
          have hx := hgood x rfl
          cases x with
          | leaf j => exact agree_ok hst hval hx
          | deferred cl' => exact agree_ok hst hval hx
          | obj fs =>
            have := key (.obj fs) st1 st1' (fun _ hh => by cases hh) hx hst hval
            simp only [dfsVal] at this
            exact this
          | list xs =>
            have := key (.list xs) st1 st1' (fun _ hh => by cases hh) hx hst hval
            simp only [dfsVal] at this
            exact this
    · intro ks fs st st0 hfs h hv
      cases ks with
      | nil => simp only [dfsFields]; exact agree_ok h hv hfs
      | cons k ks =>
        simp only [dfsFields]
        cases hl : lookupF fs k with
        | none => simp only; exact ih.fields ks fs st st0 hfs h hv
        | some v =>
          simp only
          have hvv := ih.val v st st0 (hfs _ (lookupF_mem hl)) h hv
          generalize hM : dfsVal frc fuel v st = xM at hvv ⊢
          generalize h0 : dfsVal frc0 fuel v st0 = x0 at hvv ⊢
          obtain ⟨r1, st1⟩ := xM
          obtain ⟨r1', st1'⟩ := x0
          obtain ⟨hr1, hst, hval, hgood⟩ := hvv
          simp only at hr1 hst hval hgood
          subst hr1
          cases r1 with
          | ok v' => simp only; exact ih.fields ks _ st1 st1' (allCl_setF hfs (hgood v' rfl)) hst hval
          | fail => exact agree_fail hst hval
          | fuelOut => exact agree_fuelOut hst hval
    · intro xs acc st st0 hxs hacc h hv
      cases xs with
      | nil => simp only [dfsItems]; exact agree_ok h hv hacc
      | cons x xs =>
        simp only [dfsItems]
        have hvv := ih.val x st st0 (hxs x List.mem_cons_self) h hv
        generalize hM : dfsVal frc fuel x st = xM at hvv ⊢
        generalize h0 : dfsVal frc0 fuel x st0 = x0 at hvv ⊢
        obtain ⟨r1, st1⟩ := xM
        obtain ⟨r1', st1'⟩ := x0
        obtain ⟨hr1, hst, hval, hgood⟩ := hvv
        simp only at hr1 hst hval hgood
        subst hr1
        cases r1 with
        | ok x' =>
          simp only
          refine ih.items xs _ st1 st1' (fun y hy => hxs y (List.mem_cons_of_mem _ hy)) ?_ hst hval
          intro y hy
          rcases List.mem_append.1 hy with hy | hy
          · exact hacc y hy
          · simp only [List.mem_singleton] at hy; rw [hy]; exact hgood x' rfl
        | fail => exact agree_fail hst hval
        | fuelOut => exact agree_fuelOut hst hval

theorem mRootMut_agree (hr : KeysNodup root) (dfuel : Nat) :
    ∀ (fuel : Nat) (fps : List FieldPlan) (acc : List (String × PVal)) (st st0 : MSt),
    (∀ fp ∈ fps, At c.schema c.frags pv rootType root [(rootType, fp.key)] fp) → (∀ p ∈ acc, OK p.2) → StRel st st0 →
    Valid c pv rootType root st.memo →
    Agree c pv rootType root (fun fs => ∀ p ∈ fs, OK p.2)
      (mRootMut c altM dfuel fuel rootType fps acc st) (mRootMut c alt0 dfuel fuel rootType fps acc st0)
  | 0, fps, acc, st, st0, _, _, h, hv => by simp only [mRootMut]; exact agree_fuelOut h hv
  | fuel + 1, [], acc, st, st0, _, hacc, h, hv => by simp only [mRootMut]; exact agree_ok h hv hacc
  | fuel + 1, fp :: rest, acc, st, st0, hat, hacc, h, hv => by
    have hrest : ∀ fp' ∈ rest, At c.schema c.frags pv rootType root [(rootType, fp'.key)] fp' :=
      fun fp' hm => hat fp' (List.mem_cons_of_mem _ hm)
    simp only [mRootMut]
    by_cases hp : (!(fp.pred.eval c.schema c.vars)) = true
    · simp only [hp, if_true]; exact mRootMut_agree hr dfuel fuel rest acc st st0 hrest hacc h hv
    · simp only [hp, Bool.false_eq_true, if_false]
      cases hfd : fp.fieldDef with
      | none => exact mRootMut_agree hr dfuel fuel rest acc st st0 hrest hacc h hv
      | some fd =>
        simp only
        have hf := (memoP hr fuel).field false rootType .nil [.key fp.key] [(rootType, fp.key)] fp fd st st0 h hv
          (hat fp List.mem_cons_self)
        generalize hM : mField c altM fuel false rootType .nil [.key fp.key] [(rootType, fp.key)] fp fd st = xM at hf ⊢
        generalize h0 : mField c alt0 fuel false rootType .nil [.key fp.key] [(rootType, fp.key)] fp fd st0 = x0 at hf ⊢
        obtain ⟨r1, st1⟩ := xM
        obtain ⟨r1', st1'⟩ := x0
        obtain ⟨hr1, hst, hval, hgood⟩ := hf
        simp only at hr1 hst hval hgood
        subst hr1
        cases r1 with
        | fail => exact agree_fail hst hval
        | fuelOut => exact agree_fuelOut hst hval
        | ok v =>
          simp only
          have hd := (dfsP (forceAll_agree (c := c) (pv := pv) (rootType := rootType) hr dfuel) dfuel).val v st1 st1'
            (hgood v rfl) hst hval
          generalize hM2 : dfsVal (forceAll c altM dfuel) dfuel v st1 = yM at hd ⊢
          generalize h02 : dfsVal (forceAll c alt0 dfuel) dfuel v st1' = y0 at hd ⊢
          obtain ⟨r2, st2⟩ := yM
          obtain ⟨r2', st2'⟩ := y0
          obtain ⟨hr2, hst2, hval2, hgood2⟩ := hd
          simp only at hr2 hst2 hval2 hgood2
          subst hr2
          cases r2 with
          | fail => exact agree_fail hst2 hval2
          | fuelOut => exact agree_fuelOut hst2 hval2
          | ok v' =>
            simp only
            refine mRootMut_agree hr dfuel fuel rest _ st2 st2' hrest ?_ hst2 hval2
            intro p hp
            rcases List.mem_append.1 hp with hp | hp
            · exact hacc p hp
            · simp only [List.mem_singleton] at hp; subst hp; exact hgood2 v' rfl

end memo2

/-! ## the request level -/

/-- the memo of plan `p` holds, for every entry, the sub-selection planned from the field plan at that address -/
def Plan.MemoValid (p : Plan) (m : Memo) : Prop :=
  ∀ e ∈ m, ∃ fp, At p.schema p.frags p.planVars p.rootType p.root e.1.1 fp ∧
    e.2 = planMerged p.schema p.frags p.planVars e.1.2 fp.nodes

/-- the walk of `ExecutePlan` with the sub-selections planned again at every use (no memo): the reference for memo transparency -/
def executePlanRef (p : Plan) (inputs : Vars) (w : World) (fuel : Nat) : MResponse :=
  match getVariableValues p.schema p.varDefs inputs with
  | .error e => .requestError ("variables: " ++ e)
  | .ok vars =>
    let q := if p.dynamicDirectives then p.specialise vars else p
    let c : Ctx := { schema := q.schema, frags := q.frags, vars := vars, world := w }
    MResponse.of (runPlan c (recompute q.schema q.frags q.planVars) q fuel { errs := [], events := [], memo := [] })

theorem runPlan_agree (c : Ctx) (q : Plan) (hc1 : c.schema = q.schema) (hc2 : c.frags = q.frags) (hr : KeysNodup q.root)
    (fuel : Nat) (st st0 : MSt) (h : StRel st st0) (hv : Valid c q.planVars q.rootType q.root st.memo) :
    Agree c q.planVars q.rootType q.root (fun _ => True)
      (runPlan c (abstractAlternative q.schema q.frags q.planVars) q fuel st)
      (runPlan c (recompute q.schema q.frags q.planVars) q fuel st0) := by
  rw [← hc1, ← hc2]
  have hroot : ∀ fp ∈ q.root, At c.schema c.frags q.planVars q.rootType q.root [(q.rootType, fp.key)] fp :=
    fun fp hm => .root hm
  unfold runPlan
  by_cases hmut : q.isMutation = true
  · simp only [hmut, if_true]
    have hm := mRootMut_agree (c := c) (pv := q.planVars) hr fuel fuel q.root [] st st0 hroot (fun _ hm => by cases hm) h hv
    generalize hM : mRootMut c (abstractAlternative c.schema c.frags q.planVars) fuel fuel q.rootType q.root [] st = xM at hm ⊢
    generalize h0 : mRootMut c (recompute c.schema c.frags q.planVars) fuel fuel q.rootType q.root [] st0 = x0 at hm ⊢
    obtain ⟨r1, st1⟩ := xM
    obtain ⟨r1', st1'⟩ := x0
    obtain ⟨hr1, hst, hval, hgood⟩ := hm
    simp only at hr1 hst hval hgood
    subst hr1
    cases r1 with
    | fail => exact agree_fail hst hval
    | fuelOut => exact agree_fuelOut hst hval
    | ok fs =>
      simp only
      have hd := (dfsP (forceAll_agree (c := c) (pv := q.planVars) (rootType := q.rootType) hr fuel) fuel).fields
        (sortedKeys fs) fs st1 st1' (hgood fs rfl) hst hval
      exact ⟨hd.1, hd.2.1, hd.2.2.1, fun _ _ => trivial⟩
  · simp only [hmut, Bool.false_eq_true, if_false]
    have hg := (memoP hr fuel).groups false q.rootType .nil [] [] q.root [] st st0 h hv
      (fun fp hm => by simpa using hroot fp hm) (fun _ hm => by cases hm)
    generalize hM : mGroups c (abstractAlternative c.schema c.frags q.planVars) fuel false q.rootType .nil [] [] q.root [] st = xM at hg ⊢
    generalize h0 : mGroups c (recompute c.schema c.frags q.planVars) fuel false q.rootType .nil [] [] q.root [] st0 = x0 at hg ⊢
    obtain ⟨r1, st1⟩ := xM
    obtain ⟨r1', st1'⟩ := x0
    obtain ⟨hr1, hst, hval, hgood⟩ := hg
    simp only at hr1 hst hval hgood
    subst hr1
    cases r1 with
    | fail => exact agree_fail hst hval
    | fuelOut => exact agree_fuelOut hst hval
    | ok fs =>
      simp only
      have hb := bfsLoop_agree (forceAll_agree (c := c) (pv := q.planVars) (rootType := q.rootType) hr fuel) fuel (.obj fs) [[]]
        st1 st1' (allCl_obj.2 (hgood fs rfl)) hst hval
      generalize hM2 : bfsLoop (forceAll c (abstractAlternative c.schema c.frags q.planVars) fuel) fuel (.obj fs) [[]] st1 = yM at hb ⊢
      generalize h02 : bfsLoop (forceAll c (recompute c.schema c.frags q.planVars) fuel) fuel (.obj fs) [[]] st1' = y0 at hb ⊢
      obtain ⟨r2, st2⟩ := yM
      obtain ⟨r2', st2'⟩ := y0
      obtain ⟨hr2, hst2, hval2, _⟩ := hb
      simp only at hr2 hst2 hval2
      subst hr2
      cases r2 with
      | ok rootV => exact agree_ok hst2 hval2 trivial
      | fail => exact agree_fail hst2 hval2
      | fuelOut => exact agree_fuelOut hst2 hval2

theorem specialise_root_nodup (p : Plan) (vars : Vars) : KeysNodup (p.specialise vars).root :=
  keysNodup_planSelectionSet _ _ _ _ _

/-- **memo transparency at the request level**: with a valid memo, `ExecutePlan` answers what the memo-free reference answers,
and the memo it leaves is valid for the plan it walked -/
theorem executePlanCore_eq_ref (p : Plan) (hr : KeysNodup p.root) (inputs : Vars) (w : World) (m : Memo)
    (hv : p.MemoValid m) (fuel : Nat) :
    (executePlanCore p inputs w m fuel).1 = executePlanRef p inputs w fuel ∧
    (p.dynamicDirectives = false → p.MemoValid (executePlanCore p inputs w m fuel).2) := by
  unfold executePlanCore executePlanRef
  cases hvars : getVariableValues p.schema p.varDefs inputs with
  | error e => exact ⟨rfl, fun _ => hv⟩
  | ok vars =>
    simp only
    by_cases hd : p.dynamicDirectives = true
    · simp only [hd, if_true]
      have ha := runPlan_agree { schema := (p.specialise vars).schema, frags := (p.specialise vars).frags, vars := vars, world := w }
        (p.specialise vars) rfl rfl (specialise_root_nodup p vars) fuel
        { errs := [], events := [], memo := [] } { errs := [], events := [], memo := [] } ⟨rfl, rfl⟩ valid_nil
      generalize runPlan _ (abstractAlternative _ _ _) _ _ _ = xM at ha ⊢
      generalize runPlan _ (recompute _ _ _) _ _ _ = x0 at ha ⊢
      obtain ⟨r1, st1⟩ := xM
      obtain ⟨r1', st1'⟩ := x0
      obtain ⟨h1, h2, _, _⟩ := ha
      simp only at h1 h2
      subst h1
      refine ⟨?_, fun hf => by simp at hf⟩
      cases r1 <;> simp only [MResponse.of, h2.1, h2.2]
    · have hd' : p.dynamicDirectives = false := by simpa using hd
      simp only [hd', Bool.false_eq_true, if_false]
      have ha := runPlan_agree { schema := p.schema, frags := p.frags, vars := vars, world := w } p rfl rfl hr fuel
        { errs := [], events := [], memo := m } { errs := [], events := [], memo := [] } ⟨rfl, rfl⟩ hv
      generalize runPlan _ (abstractAlternative _ _ _) _ _ _ = xM at ha ⊢
      generalize runPlan _ (recompute _ _ _) _ _ _ = x0 at ha ⊢
      obtain ⟨r1, st1⟩ := xM
      obtain ⟨r1', st1'⟩ := x0
      obtain ⟨h1, h2, h3, _⟩ := ha
      simp only at h1 h2 h3
      subst h1
      refine ⟨?_, fun _ => ?_⟩
      · cases r1 <;> simp only [MResponse.of, h2.1, h2.2]
      · exact h3

end GqlModel.Plan
