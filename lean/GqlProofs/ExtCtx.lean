import GqlProofs.ExtReported
/-! Helper lemmas for C17, third part: requests whose context is done. The log of the caller's goroutine with the
resolve events removed is the log of a request that fails at execution with one request error (`ctxReq`), and the
resolve events of the complete log are those of the live run. -/
namespace GqlModel.Ext

theorem topLevel_append (s t : Trace) : topLevel (s ++ t) = topLevel s ++ topLevel t := by simp [topLevel]
theorem resolveOnly_append (s t : Trace) : resolveOnly (s ++ t) = resolveOnly s ++ resolveOnly t := by
  simp [resolveOnly]

theorem topLevel_map (ys : List ExtBehaviour) (h : Hook) (k : Nat) (o : Out) (hh : isResolveHook h = false) :
    topLevel (ys.map (fun b => mkEv b h k o)) = ys.map (fun b => mkEv b h k o) := by
  simp [topLevel, List.filter_eq_self, mkEv, hh]

theorem resolveOnly_map (ys : List ExtBehaviour) (h : Hook) (k : Nat) (o : Out) (hh : isResolveHook h = false) :
    resolveOnly (ys.map (fun b => mkEv b h k o)) = [] := by
  simp [resolveOnly, List.filter_eq_nil_iff, mkEv, hh]

theorem topLevel_grp (xs : List ExtBehaviour) (h : Hook) (o : Out) (hh : isResolveHook h = false) :
    topLevel (grp xs h o) = grp xs h o := topLevel_map xs h 0 o hh
theorem topLevel_grpF (xs : List ExtBehaviour) (hs h : Hook) (o : Out) (hh : isResolveHook h = false) :
    topLevel (grpF xs hs h o) = grpF xs hs h o := topLevel_map _ h 0 o hh
theorem resolveOnly_grp (xs : List ExtBehaviour) (h : Hook) (o : Out) (hh : isResolveHook h = false) :
    resolveOnly (grp xs h o) = [] := resolveOnly_map xs h 0 o hh
theorem resolveOnly_grpF (xs : List ExtBehaviour) (hs h : Hook) (o : Out) (hh : isResolveHook h = false) :
    resolveOnly (grpF xs hs h o) = [] := resolveOnly_map _ h 0 o hh

theorem topLevel_results (xs : List ExtBehaviour) : topLevel (xs.flatMap resEvs) = xs.flatMap resEvs := by
  simp only [topLevel, List.filter_eq_self, List.mem_flatMap]
  rintro e ⟨b, _, he⟩
  rcases resEvs_hook b e he with h | h <;> simp [h, isResolveHook]

theorem resolveOnly_results (xs : List ExtBehaviour) : resolveOnly (xs.flatMap resEvs) = [] := by
  simp only [resolveOnly, List.filter_eq_nil_iff, List.mem_flatMap]
  rintro e ⟨b, _, he⟩
  rcases resEvs_hook b e he with h | h <;> simp [h, isResolveHook]

/-- a log that consists of resolve-hook calls and resolver calls only -/
def AllResolve (t : Trace) : Prop := ∀ e ∈ t, isResolveHook e.hook = true

theorem topLevel_allResolve {t : Trace} (h : AllResolve t) : topLevel t = [] := by
  simp only [topLevel, List.filter_eq_nil_iff]
  intro e he; simp [h e he]

theorem resolveOnly_allResolve {t : Trace} (h : AllResolve t) : resolveOnly t = t := by
  simp only [resolveOnly, List.filter_eq_self]
  intro e he; simp [h e he]

theorem allResolve_executeFields (xs : List ExtBehaviour) (k : Nat) (fs : List FieldOutcome) :
    AllResolve (executeFields xs k fs).1 := by
  intro e he
  rcases executeFields_hooks xs k fs e he with h | h | h <;> simp [h, isResolveHook]

theorem splitAfterResolver_append (j : Nat) (t : Trace) :
    (splitAfterResolver j t).1 ++ (splitAfterResolver j t).2 = t := by
  induction t with
  | nil => rfl
  | cons e t ih =>
    simp only [splitAfterResolver]
    split
    · rfl
    · simp [ih]

theorem ctxSplit_append (xs : List ExtBehaviour) (fs : List FieldOutcome) (c : CtxAt) :
    (ctxSplit xs fs c).1 ++ (ctxSplit xs fs c).2 = (executeFields xs 0 fs).1 := by
  cases c with
  | before => rfl
  | inResolver j => exact splitAfterResolver_append j _

theorem allResolve_ctxSplit (xs : List ExtBehaviour) (fs : List FieldOutcome) (c : CtxAt) :
    AllResolve (ctxSplit xs fs c).1 ∧ AllResolve (ctxSplit xs fs c).2 := by
  have h := allResolve_executeFields xs 0 fs
  rw [← ctxSplit_append xs fs c] at h
  exact ⟨fun e he => h e (List.mem_append_left _ he), fun e he => h e (List.mem_append_right _ he)⟩

/-- removing the executor's events from the closed form of a log -/
theorem topLevel_script (xs : List ExtBehaviour) (req : RequestOutcomeClass) (ev : Trace) (out : Out)
    (hev : AllResolve ev) : topLevel (script xs req ev out) = script xs req [] out := by
  have G := fun h o (hh : isResolveHook h = false) => topLevel_grp xs h o hh
  have GF := fun hs h o (hh : isResolveHook h = false) => topLevel_grpF xs hs h o hh
  have tnil : topLevel [] = [] := rfl
  simp only [script, topLevel_append, apply_ite topLevel, G .init _ rfl, G .parseStart _ rfl, G .parseEnd _ rfl,
    G .valStart _ rfl, G .valEnd _ rfl, G .execStart _ rfl, G .execEnd _ rfl, GF _ .parseEnd _ rfl,
    GF _ .valEnd _ rfl, GF _ .execEnd _ rfl, topLevel_results, topLevel_allResolve hev, List.nil_append, tnil]

theorem resolveOnly_script (xs : List ExtBehaviour) (req : RequestOutcomeClass) (ev : Trace) (out : Out)
    (hev : AllResolve ev) :
    resolveOnly (script xs req ev out) = if reachesBody xs req then ev else [] := by
  have G := fun h o (hh : isResolveHook h = false) => resolveOnly_grp xs h o hh
  have GF := fun hs h o (hh : isResolveHook h = false) => resolveOnly_grpF xs hs h o hh
  have rnil : resolveOnly [] = [] := rfl
  simp only [script, resolveOnly_append, apply_ite resolveOnly, G .init _ rfl, G .parseStart _ rfl, G .parseEnd _ rfl,
    G .valStart _ rfl, G .valEnd _ rfl, G .execStart _ rfl, G .execEnd _ rfl, GF _ .parseEnd _ rfl,
    GF _ .valEnd _ rfl, GF _ .execEnd _ rfl, resolveOnly_results, resolveOnly_allResolve hev, List.nil_append,
    List.append_nil, rnil, ite_self, reachesBody, reachesExec, reachesVal, reachesParse]
  by_cases h1 : anyFault xs .init = true
  · simp [h1]
  by_cases h2 : anyFault xs .parseStart = true
  · simp [h1, h2]
  by_cases hr1 : req = .syntaxErr
  · simp [h1, h2, hr1]
  by_cases h3 : anyFault xs .parseEnd = true
  · simp [h1, h2, hr1, h3]
  by_cases h4 : anyFault xs .valStart = true
  · simp [h1, h2, hr1, h3, h4]
  by_cases hr2 : req = .validationErr
  · simp [h1, h2, hr1, h3, h4, hr2]
  by_cases h5 : anyFault xs .valEnd = true
  · simp [h1, h2, hr1, h3, h4, hr2, h5]
  by_cases hr3 : req = .operationErr
  · simp [h1, h2, hr1, h3, h4, hr2, h5, hr3]
  by_cases h6 : anyFault xs .execStart = true
  · simp [h1, h2, hr1, h3, h4, hr2, h5, hr3, h6]
  simp [h1, h2, hr1, h3, h4, hr2, h5, hr3, h6]

/-! ## The caller's side of a context-done request is the `ctxReq` request -/

theorem pre_snd (t : Trace) (r : Trace × ResultSummary) : (pre t r).2 = r.2 := rfl

/-- the result of `runB` does not depend on the executor's log, only on its errors / data flag -/
theorem runB_snd (xs : List ExtBehaviour) (req : RequestOutcomeClass) (ev ev' : Trace) (errs : List ErrClass)
    (d : Bool) : (runB xs req (ev, errs, d)).2 = (runB xs req (ev', errs, d)).2 := by
  cases req <;>
    simp only [runB, executeB, executePlanB, bodyOutB, pre_snd, apply_ite Prod.snd, early]

theorem runB_exec_eq_variableErr (xs : List ExtBehaviour) (fs : List FieldOutcome) (body : Body) :
    runB xs (.exec fs) body = runB xs .variableErr body := rfl

theorem script_exec_eq_variableErr (xs : List ExtBehaviour) (fs : List FieldOutcome) (ev : Trace) (out : Out) :
    script xs (.exec fs) ev out = script xs .variableErr ev out := by
  simp [script]

theorem runCtx_toplevel (xs : List ExtBehaviour) (hnd : NodupNames xs) (fs : List FieldOutcome) (c : CtxAt) :
    topLevel (runCtx xs fs c).1 = (run xs ctxReq).1 := by
  have e1 : (runCtx xs fs c).1 = script xs (.exec fs) (ctxSplit xs fs c).1 .err := runB_trace xs hnd _ _
  have e2 : (run xs ctxReq).1 = script xs .variableErr [] .err := runB_trace xs hnd _ _
  rw [e1, e2, topLevel_script _ _ _ _ (allResolve_ctxSplit xs fs c).1, script_exec_eq_variableErr]

theorem runCtx_summary (xs : List ExtBehaviour) (fs : List FieldOutcome) (c : CtxAt) :
    (runCtx xs fs c).2 = (run xs ctxReq).2 := by
  simp only [runCtx, ctxBody, runB_exec_eq_variableErr]
  exact runB_snd xs .variableErr _ [] [.request] false

/-- the resolve events of the complete log (at return + afterwards) are those of the live run's executor -/
theorem runCtx_resolveOnly (xs : List ExtBehaviour) (hnd : NodupNames xs) (fs : List FieldOutcome) (c : CtxAt) :
    resolveOnly ((runCtx xs fs c).1 ++ ctxLate xs fs c)
      = if reachesBody xs (.exec fs) then (executeFields xs 0 fs).1 else [] := by
  have e1 : (runCtx xs fs c).1 = script xs (.exec fs) (ctxSplit xs fs c).1 .err := runB_trace xs hnd _ _
  rw [resolveOnly_append, e1, resolveOnly_script _ _ _ _ (allResolve_ctxSplit xs fs c).1]
  simp only [ctxLate]
  by_cases h : reachesBody xs (.exec fs) = true
  · simp only [h, if_true, resolveOnly_allResolve (allResolve_ctxSplit xs fs c).2, ctxSplit_append]
  · simp [h, resolveOnly]

theorem resolvePhases_vFields (b : ExtBehaviour) (fs : List FieldOutcome) (t t' : Trace)
    (h : proj b.name (resolveOnly t') = vFields b 0 fs ∨ proj b.name (resolveOnly t') = []) :
    ((proj b.name (resolveOnly t')).foldl (balStep (expectedOut (.exec fs) t)) (some [.exec]) == some [.exec]
     && (proj b.name (resolveOnly t')).foldl nestStep .exec == .exec
     && (proj b.name (resolveOnly t')).foldl poStep (.saw .execStart 0) != .bad) = true := by
  rcases h with h | h
  · rw [h]
    have h1 := bal_vFields (expectedOut (.exec fs) t) b 0 fs (by
      intro j fo hj
      simp [expectedOut, fieldOut, hj])
    have h2 := nest_vFields b 0 fs
    have h3 := po_vFields b 0 fs (.saw .execStart 0) (Or.inl ⟨0, rfl⟩)
    have h3' : List.foldl poStep (.saw .execStart 0) (vFields b 0 fs) ≠ .bad := by
      rcases h3 with ⟨j, hj⟩ | ⟨j, hj⟩ <;> simp [hj]
    simp [h1, h2, h3']
  · rw [h]; simp

theorem ctx_resolvePhases (xs : List ExtBehaviour) (hnd : NodupNames xs) (fs : List FieldOutcome) (c : CtxAt)
    (b : ExtBehaviour) (hb : b ∈ xs) :
    resolvePhasesFor (.exec fs) b.name ((runCtx xs fs c).1 ++ ctxLate xs fs c) = true := by
  unfold resolvePhasesFor
  apply resolvePhases_vFields
  rw [runCtx_resolveOnly xs hnd fs c]
  by_cases h : reachesBody xs (.exec fs) = true
  · left; simp only [h, if_true]; exact proj_executeFields xs hnd b hb 0 fs
  · right; simp [h, proj]

end GqlModel.Ext
