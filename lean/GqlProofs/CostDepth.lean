import GqlProofs.Cost
/-! # The descent-path guard bounds the depth of execution (repair D-09d)

Every sub-selection that a field plan hands to `planMergedSelectionsForType` is a pair (selection set, chain of
enclosing fragments). `rankOf` = syntactic field depth of the set + (D+1) × (number of fragment definitions − length of
the chain), `D` = deepest fragment body. A field plan produced from such a pair holds only pairs of strictly smaller
rank: either a set written inside the current one (shallower, same chain) or a set inside the body of a fragment
that was not on the chain (chain longer by one, depth ≤ D). Hence the length of every response path along which
objects are completed is bounded by the rank of the operation's selection set — whatever the data. -/
namespace GqlModel.Cost

mutual
/-- nesting of field sub-selections written in a selection (spreads not followed) -/
def depthSel : Selection → Nat
  | .field _ _ _ _ none _ => 0
  | .field _ _ _ _ (some ss) _ => 1 + depthSet ss
  | .spread _ _ _ => 0
  | .inline _ _ ss _ => depthSet ss
def depthSet : SelectionSet → Nat
  | .mk sels _ => depthSels sels
def depthSels : List Selection → Nat
  | [] => 0
  | s :: rest => max (depthSel s) (depthSels rest)
end

/-- deepest fragment body of a table -/
def maxBodyDepth : List (String × String × SelectionSet) → Nat
  | [] => 0
  | f :: rest => max (depthSet f.2.2) (maxBodyDepth rest)

theorem depth_le_maxBodyDepth (frags : List (String × String × SelectionSet)) (f) (h : f ∈ frags) :
    depthSet f.2.2 ≤ maxBodyDepth frags := by
  induction frags with
  | nil => simp at h
  | cons g gs ih =>
    simp only [maxBodyDepth]
    rcases List.mem_cons.1 h with rfl | h
    · omega
    · have := ih h; omega

/-- a chain the guard can have produced: duplicate-free, made of names of the table -/
def GoodChain (frags : List (String × String × SelectionSet)) (ch : Chain) : Prop :=
  ch.Nodup ∧ ∀ x ∈ ch, x ∈ frags.map (·.1)

theorem goodChain_length {frags} {ch : Chain} (h : GoodChain frags ch) : ch.length ≤ frags.length := by
  have := List.Nodup.length_le_of_subset h.1 (fun x hx => h.2 x hx)
  simpa using this

/-- weight of the chain part: (D+1) × (fragments not yet on the chain) -/
def slack (frags : List (String × String × SelectionSet)) (ch : Chain) : Nat :=
  (maxBodyDepth frags + 1) * (frags.length - ch.length)

def rankOf (frags : List (String × String × SelectionSet)) (s : SelectionSet × Chain) : Nat :=
  depthSet s.1 + slack frags s.2

/-- entering a fragment that is not on the chain pays for the whole body -/
theorem slack_cons {frags} {ch : Chain} {n : String} (h : GoodChain frags (n :: ch)) (d : Nat) (hd : d ≤ maxBodyDepth frags) :
    d + slack frags (n :: ch) + 1 ≤ slack frags ch := by
  have hl := goodChain_length h
  simp only [List.length_cons] at hl
  unfold slack
  have e : frags.length - ch.length = (frags.length - (n :: ch).length) + 1 := by
    simp only [List.length_cons]; omega
  rw [e, Nat.mul_succ]
  generalize (maxBodyDepth frags + 1) * (frags.length - (n :: ch).length) = X
  omega

/-- every sub-selection of every field plan is old or below the budget -/
def NewBelow (frags : List (String × String × SelectionSet)) (B : Nat) (a b : St) : Prop :=
  ∀ fp ∈ b.fields, ∀ s ∈ fp.subs, (∃ fp0 ∈ a.fields, s ∈ fp0.subs) ∨ (rankOf frags s + 1 ≤ B ∧ GoodChain frags s.2)

theorem newBelow_refl (frags B) (a : St) : NewBelow frags B a a :=
  fun fp hfp _ hs => Or.inl ⟨fp, hfp, hs⟩

theorem newBelow_trans {frags B} {a b d : St} (h1 : NewBelow frags B a b) (h2 : NewBelow frags B b d) :
    NewBelow frags B a d := by
  intro fp hfp s hs
  rcases h2 fp hfp s hs with ⟨fp0, hfp0, hs0⟩ | h
  · exact h1 fp0 hfp0 s hs0
  · exact Or.inr h

theorem newBelow_mono {frags B B'} {a b : St} (h : NewBelow frags B a b) (hB : B ≤ B') : NewBelow frags B' a b := by
  intro fp hfp s hs
  rcases h fp hfp s hs with h | ⟨h1, h2⟩
  · exact Or.inl h
  · exact Or.inr ⟨by omega, h2⟩

/-- changes that leave `fields` alone -/
theorem newBelow_same_fields {frags B} {a b : St} (h : b.fields = a.fields) : NewBelow frags B a b := by
  intro fp hfp s hs
  rw [h] at hfp
  exact Or.inl ⟨fp, hfp, hs⟩

theorem addField_subs (c : Ctx) (key name : String) (sub : Option (SelectionSet × Chain)) :
    ∀ (fields : List FieldPlan) fp, fp ∈ addField c key name sub fields → ∀ s ∈ fp.subs,
      (∃ fp0 ∈ fields, s ∈ fp0.subs) ∨ sub = some s
  | [], fp, hfp, s, hs => by
    simp only [addField, List.mem_singleton] at hfp
    subst hfp
    right
    cases sub with
    | none => simp at hs
    | some x => simp at hs; simp [hs]
  | g :: rest, fp, hfp, s, hs => by
    simp only [addField] at hfp
    split at hfp
    · rcases List.mem_cons.1 hfp with rfl | hfp
      · simp only [List.mem_append] at hs
        rcases hs with hs | hs
        · exact Or.inl ⟨g, List.mem_cons_self .., hs⟩
        · right
          cases sub with
          | none => simp at hs
          | some x => simp at hs; simp [hs]
      · exact Or.inl ⟨fp, List.mem_cons_of_mem _ hfp, hs⟩
    · rcases List.mem_cons.1 hfp with rfl | hfp
      · exact Or.inl ⟨fp, List.mem_cons_self .., hs⟩
      · rcases addField_subs c key name sub rest fp hfp s hs with ⟨fp0, h0, hs0⟩ | h
        · exact Or.inl ⟨fp0, List.mem_cons_of_mem _ h0, hs0⟩
        · exact Or.inr h

/-- what the call that enters a fragment body must guarantee -/
def RecDepthOK (c : Ctx) (rec : Chain → SelectionSet → St → St) : Prop :=
  ∀ (ch : Chain) (body : SelectionSet) (st : St), GoodChain c.frags ch →
    NewBelow c.frags (depthSet body + slack c.frags ch) st (rec ch body st)

theorem lookup_mem (c : Ctx) (n : String) (f) (h : c.lookup n = some f) : f ∈ c.frags ∧ f.1 = n := by
  unfold Ctx.lookup at h
  exact ⟨List.mem_of_find?_eq_some h, by simpa using List.find?_some h⟩

mutual
theorem collectSel_depth {c : Ctx} {rec} (hrec : RecDepthOK c rec) (ch : Chain) (hch : GoodChain c.frags ch) :
    ∀ (sel : Selection) (st : St),
      NewBelow c.frags (depthSel sel + slack c.frags ch) st (collectSel c rec ch sel st)
  | .field alias name args dirs sub loc, st => by
    simp only [collectSel]
    split
    · exact newBelow_refl _ _ _
    · intro fp hfp s hs
      rcases addField_subs c _ _ _ st.fields fp hfp s hs with h | h
      · exact Or.inl h
      · right
        cases sub with
        | none => simp at h
        | some ss =>
          simp only [Option.map_some, Option.some.injEq] at h
          subst h
          exact ⟨by simp only [rankOf, depthSel]; omega, hch⟩
  | .inline tc dirs ss loc, st => by
    simp only [collectSel, depthSel]
    split
    · exact newBelow_refl _ _ _
    · split
      · exact newBelow_refl _ _ _
      · exact collectSet_depth hrec ch hch ss st
  | .spread name dirs loc, st => by
    simp only [collectSel, depthSel]
    split
    · exact newBelow_refl _ _ _
    · split
      · exact newBelow_refl _ _ _
      · rename_i hv
        split
        · exact newBelow_refl _ _ _
        · rename_i nm cond body hl
          split
          · exact newBelow_same_fields rfl
          · have hmem := lookup_mem c name.value (nm, cond, body) hl
            have hnch : name.value ∉ ch := by
              intro hm
              exact hv (by simp [hm])
            have hgood : GoodChain c.frags (name.value :: ch) := by
              refine ⟨List.nodup_cons.2 ⟨hnch, hch.1⟩, ?_⟩
              intro x hx
              rcases List.mem_cons.1 hx with rfl | hx
              · exact List.mem_map.2 ⟨_, hmem.1, hmem.2⟩
              · exact hch.2 x hx
            have hd := depth_le_maxBodyDepth c.frags (nm, cond, body) hmem.1
            have hs := slack_cons hgood (depthSet body) hd
            have h1 := hrec (name.value :: ch) body
              { st with visited := name.value :: st.visited, entered := name.value :: st.entered } hgood
            have h0 : NewBelow c.frags (depthSet body + slack c.frags (name.value :: ch)) st
                { st with visited := name.value :: st.visited, entered := name.value :: st.entered } :=
              newBelow_same_fields rfl
            exact newBelow_mono (newBelow_trans h0 h1) (by omega)
theorem collectSet_depth {c : Ctx} {rec} (hrec : RecDepthOK c rec) (ch : Chain) (hch : GoodChain c.frags ch) :
    ∀ (ss : SelectionSet) (st : St),
      NewBelow c.frags (depthSet ss + slack c.frags ch) st (collectSet c rec ch ss st)
  | .mk sels loc, st => by
    simp only [collectSet, depthSet]
    have h0 : NewBelow c.frags (depthSels sels + slack c.frags ch) st { st with collect := st.collect + 1 } :=
      newBelow_same_fields rfl
    exact newBelow_trans h0 (collectSels_depth hrec ch hch sels _)
theorem collectSels_depth {c : Ctx} {rec} (hrec : RecDepthOK c rec) (ch : Chain) (hch : GoodChain c.frags ch) :
    ∀ (sels : List Selection) (st : St),
      NewBelow c.frags (depthSels sels + slack c.frags ch) st (collectSels c rec ch sels st)
  | [], st => by simp only [collectSels]; exact newBelow_refl _ _ _
  | s :: rest, st => by
    simp only [collectSels, depthSels]
    have h1 := collectSel_depth hrec ch hch s st
    have h2 := collectSels_depth hrec ch hch rest (collectSel c rec ch s st)
    exact newBelow_trans (newBelow_mono h1 (by omega)) (newBelow_mono h2 (by omega))
end

theorem collectFuel_depth (c : Ctx) : ∀ n, RecDepthOK c (collectFuel c n)
  | 0 => fun ch body st _ => by
    simp only [collectFuel]
    exact newBelow_same_fields rfl
  | n + 1 => fun ch body st hch => by
    simp only [collectFuel]
    exact collectSet_depth (collectFuel_depth c n) ch hch body st

/-- one `planMergedSelectionsForType`: every sub-selection of the resulting field plans ranks strictly below one
of the merged sub-selections it was planned from -/
theorem planMerged_depth (c : Ctx) : ∀ (subs : List (SelectionSet × Chain)) (st : St),
    (∀ s ∈ subs, GoodChain c.frags s.2) →
    ∀ fp ∈ (planMerged c subs st).fields, ∀ s' ∈ fp.subs,
      (∃ fp0 ∈ st.fields, s' ∈ fp0.subs) ∨
      (GoodChain c.frags s'.2 ∧ ∃ s ∈ subs, rankOf c.frags s' + 1 ≤ rankOf c.frags s)
  | [], st, _, fp, hfp, s', hs' => Or.inl ⟨fp, hfp, hs'⟩
  | (ss, ch) :: rest, st, hgood, fp, hfp, s', hs' => by
    simp only [planMerged] at hfp
    have hch : GoodChain c.frags ch := hgood (ss, ch) (List.mem_cons_self ..)
    rcases planMerged_depth c rest (collectTop c ch ss st)
        (fun s hs => hgood s (List.mem_cons_of_mem _ hs)) fp hfp s' hs' with ⟨fp0, h0, hs0⟩ | ⟨hg, s, hs, hr⟩
    · have := collectFuel_depth c (fuelFor c) ch ss st hch fp0 h0 s' hs0
      rcases this with h | ⟨h1, h2⟩
      · exact Or.inl h
      · exact Or.inr ⟨h2, (ss, ch), List.mem_cons_self .., by simp only [rankOf] at *; omega⟩
    · exact Or.inr ⟨hg, s, List.mem_cons_of_mem _ hs, hr⟩

/-- all sub-selections of all field plans rank below `B` and carry good chains -/
def SubsBelow (frags : List (String × String × SelectionSet)) (B : Nat) (fields : List FieldPlan) : Prop :=
  ∀ fp ∈ fields, ∀ s ∈ fp.subs, rankOf frags s + 1 ≤ B ∧ GoodChain frags s.2

mutual
theorem completedW_nil_fields (e : Env) (p : Path) : ∀ w : World, completedW e [] p w = []
  | .node cs => by simp only [completedW]; exact completedCs_nil_fields e p cs
theorem completedCs_nil_fields (e : Env) (p : Path) : ∀ cs : Comps, completedCs e [] p cs = []
  | .nil => by simp [completedCs]
  | .cons k rt ch rest => by simp [completedCs, completedCs_nil_fields e p rest]
end

mutual
theorem completedW_depth (e : Env) : ∀ (w : World) (fields : List FieldPlan) (path : Path) (B : Nat),
    SubsBelow e.frags B fields → ∀ id ∈ completedW e fields path w, id.length ≤ path.length + 1 + B
  | .node cs, fields, path, B, h => by
    simp only [completedW]; exact completedCs_depth e cs fields path B h
theorem completedCs_depth (e : Env) : ∀ (cs : Comps) (fields : List FieldPlan) (path : Path) (B : Nat),
    SubsBelow e.frags B fields → ∀ id ∈ completedCs e fields path cs, id.length ≤ path.length + 1 + B
  | .nil, fields, path, B, h => by simp [completedCs]
  | .cons k rt child rest, fields, path, B, h => by
    intro id hid
    simp only [completedCs, List.mem_append] at hid
    rcases hid with hid | hid
    · revert hid
      split
      · simp
      · rename_i fp hfind
        split
        · simp
        · split
          · simp
          · intro hid
            have hfp : fp ∈ fields := List.mem_of_find?_eq_some hfind
            rcases List.mem_cons.1 hid with rfl | hid
            · simp
            · -- below this completion: the sub-plan's sub-selections rank strictly lower
              cases hsubs : fp.subs with
              | nil =>
                rw [hsubs] at hid
                have : (planMerged (e.ctx rt) [] {}).fields = [] := rfl
                rw [this] at hid
                rw [completedW_nil_fields] at hid
                simp at hid
              | cons s0 srest =>
                have hB : 1 ≤ B := by
                  have := (h fp hfp s0 (by rw [hsubs]; exact List.mem_cons_self ..)).1
                  omega
                have hsub : SubsBelow e.frags (B - 1) (planMerged (e.ctx rt) fp.subs {}).fields := by
                  intro fp' hfp' s' hs'
                  rcases planMerged_depth (e.ctx rt) fp.subs {} (fun s hs => (h fp hfp s hs).2) fp' hfp' s' hs' with
                    ⟨fp0, h0, _⟩ | ⟨hg, s, hs, hr⟩
                  · simp at h0
                  · have := (h fp hfp s hs).1
                    exact ⟨by simp only [Env.ctx] at hr; omega, hg⟩
                have := completedW_depth e child _ (path ++ [(k, rt)]) (B - 1) hsub id hid
                simp only [List.length_append, List.length_cons, List.length_nil] at this
                omega
    · exact completedCs_depth e rest fields path B h id hid
end

/-- every completed response path is bounded by the selection alone -/
theorem completed_depth_le (e : Env) (root : String) (ss : SelectionSet) (world : World) :
    ∀ id ∈ completedW e (rootPlan e root ss).fields [] world,
      id.length ≤ 1 + depthSet ss + (maxBodyDepth e.frags + 1) * e.frags.length := by
  have hgood : GoodChain e.frags [] := ⟨List.nodup_nil, fun _ h => by simp at h⟩
  have hnew := collectFuel_depth (e.ctx root) (fuelFor (e.ctx root)) [] ss {} hgood
  have hsub : SubsBelow e.frags (depthSet ss + slack e.frags []) (rootPlan e root ss).fields := by
    intro fp hfp s hs
    rcases hnew fp hfp s hs with ⟨fp0, h0, _⟩ | h
    · simp at h0
    · exact h
  intro id hid
  have := completedW_depth e world _ [] _ hsub id hid
  simp only [slack, List.length_nil, Nat.sub_zero] at this
  omega

/-- … and so is the position of every lazily planned sub-selection -/
theorem log_depth_le (e : Env) (root : String) (ss : SelectionSet) (world : World) :
    ∀ en ∈ (execW e (rootPlan e root ss).fields [] world {}).log,
      en.id.length ≤ 1 + depthSet ss + (maxBodyDepth e.frags + 1) * e.frags.length := by
  intro en hen
  rcases execW_mem e world _ _ _ en hen with h | h
  · simp at h
  · exact completed_depth_le e root ss world en.id h

end GqlModel.Cost
