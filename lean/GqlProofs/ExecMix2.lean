import GqlProofs.ExecMix
/-! C04 two-world theorem, second paired induction (continued): fields and value completion; the combined invariant. -/
namespace GqlModel.Exec
open GqlModel.Coerce

variable {c : Ctx} {w2 : World} {id0 : Nat} {f0 : String}

/-- a field of non-null type never yields `null` -/
theorem execField_ok_ne_null (c : Ctx) (fuel : Nat) (dfr : Bool) (rt : String) (src : GoVal) (p : Path) (fd : FieldDefS)
    (nodes : List FieldNode) (st st' : St) (j : JVal)
    (h : execField c fuel dfr rt src p fd nodes st = (.ok j, st')) (hnn : fd.type.isNonNull = true) : j ≠ .null := by
  rcases (confP c fuel).field _ _ _ _ _ _ _ _ _ h with ⟨-, hv⟩ | ⟨-, hc⟩
  · rw [hv]; intro e; cases e
  · cases ht : fd.type with
    | nonNull t => rw [ht] at hc; cases hc with | nonNull hv _ => exact hv
    | named n => rw [ht] at hnn; simp [GType.isNonNull] at hnn
    | list t => rw [ht] at hnn; simp [GType.isNonNull] at hnn

theorem maxOK_nil (j1 j2 : JVal) : MaxOK [] j1 j2 := by
  intro r' r'' hp hr hne
  have h2 : r'' = [] := List.prefix_nil.mp hr
  subst h2
  have h1 : r' = [] := List.prefix_nil.mp hp
  exact absurd h1 hne

theorem nna_nil {j : JVal} (h : j ≠ .null) : NNA [] j := by
  intro r hr
  have : r = [] := List.prefix_nil.mp hr
  subst this
  rw [getAt_nil]; intro e; exact h (Option.some.inj e)

theorem mixP_field (ha : AgreeExcept c.world w2 id0 f0) (fuel : Nat) (ih : MixP c w2 id0 f0 fuel) :
    ∀ dfr rt src pf fd nodes rel r1 d1 r2 d2,
    execField c (fuel + 1) dfr rt src pf fd nodes St.empty = (r1, d1) →
    execField (c.withWorld w2) (fuel + 1) dfr rt src pf fd nodes St.empty = (r2, d2) →
    TouchAt id0 f0 (pf ++ rel) d1.log → Mix rel r1 r2 := by
  intro dfr rt src pf fd nodes rel r1 d1 r2 d2 h1 h2 ht
  by_cases hn : (fd.name == "__typename") = true
  · simp only [execField, hn, if_true, Prod.mk.injEq] at h1 h2
    rw [← h1.1, ← h2.1]; exact Mix.same _ _
  · have hn' : (fd.name == "__typename") = false := by simpa using hn
    by_cases hrel : rel = []
    · subst hrel
      refine ⟨fun j1 j2 _ _ => maxOK_nil _ _, ?_, ?_⟩
      · intro j2 e1 e2
        subst e1 e2
        exact nna_nil (execField_ok_ne_null _ _ _ _ _ _ _ _ _ _ _ h2 (execField_fail_nonNull _ _ _ _ _ _ _ _ _ _ h1))
      · intro j1 e1 e2
        subst e1 e2
        exact nna_nil (execField_ok_ne_null _ _ _ _ _ _ _ _ _ _ _ h1
          (execField_fail_nonNull (c.withWorld w2) _ _ _ _ _ _ _ _ _ h2))
    · obtain ⟨ent, hs, hf, hp, hmem⟩ := execField_logs_self c fuel dfr rt src pf fd nodes St.empty _ _ h1 hn'
      have hout : c.world.outcome src fd.name = w2.outcome src fd.name := by
        apply ha.outcome
        rintro ⟨e1, e2⟩
        have := ht ent hmem ⟨hs.trans e1, hf.trans e2⟩
        rw [hp] at this
        have hlen := congrArg List.length this
        simp only [List.length_append] at hlen
        exact hrel (List.length_eq_zero_iff.mp (by omega))
      simp only [execField, hn', Bool.false_eq_true, if_false, Ctx.withWorld_schema, Ctx.withWorld_world,
        Ctx.withWorld_vars, ← hout] at h1 h2
      cases hov : c.world.outcome src fd.name with
      | fail =>
        simp only [hov] at h1 h2
        have := h1.symm.trans h2
        simp only [Prod.mk.injEq] at this
        rw [this.1]; exact Mix.same _ _
      | value v =>
        simp only [hov] at h1 h2
        generalize hst0 : ({ St.empty with log := _ :: St.empty.log } : St) = s0 at h1 h2
        rw [complete_canon] at h1 h2
        rcases hc1 : complete c fuel dfr fd.type rt fd.name nodes pf v St.empty with ⟨rc1, dc1⟩
        rcases hc2 : complete (c.withWorld w2) fuel dfr fd.type rt fd.name nodes pf v St.empty with ⟨rc2, dc2⟩
        rw [hc1] at h1
        rw [hc2] at h2
        have e1 : r1 = absorbR fd.type.isNonNull rc1 ∧ d1 = dc1.app s0 := by
          cases rc1 with
          | ok a => simp only [Prod.mk.injEq] at h1; exact ⟨h1.1.symm, h1.2.symm⟩
          | fuelOut => simp only [Prod.mk.injEq] at h1; exact ⟨h1.1.symm, h1.2.symm⟩
          | fail =>
            simp only at h1
            split at h1 <;> rename_i hnn <;> simp only [Prod.mk.injEq] at h1
            · exact ⟨by simp [absorbR, hnn, ← h1.1], h1.2.symm⟩
            · exact ⟨by simp [absorbR, hnn, ← h1.1], h1.2.symm⟩
        have e2 : r2 = absorbR fd.type.isNonNull rc2 := by
          cases rc2 with
          | ok a => simp only [Prod.mk.injEq] at h2; exact h2.1.symm
          | fuelOut => simp only [Prod.mk.injEq] at h2; exact h2.1.symm
          | fail =>
            simp only at h2
            split at h2 <;> rename_i hnn <;> simp only [Prod.mk.injEq] at h2
            · simp [absorbR, hnn, ← h2.1]
            · simp [absorbR, hnn, ← h2.1]
        obtain ⟨rfl, rfl⟩ := e1
        subst e2
        have hC := ih.complete _ _ _ _ _ _ _ rel _ _ _ _ hc1 hc2
          (fun e he h => ht e (by simp only [St.app]; exact List.mem_append_left _ he) h)
        exact hC.absorb _

theorem mixP_complete (ha : AgreeExcept c.world w2 id0 f0) (fuel : Nat) (ih : MixP c w2 id0 f0 fuel) :
    ∀ dfr t rt fname nodes pos v rel r1 d1 r2 d2,
    complete c (fuel + 1) dfr t rt fname nodes pos v St.empty = (r1, d1) →
    complete (c.withWorld w2) (fuel + 1) dfr t rt fname nodes pos v St.empty = (r2, d2) →
    TouchAt id0 f0 (pos ++ rel) d1.log → Mix rel r1 r2 := by
  intro dfr t rt fname nodes pos v rel r1 d1 r2 d2 h1 h2 ht
  -- both calls computed by the same world-independent expression
  have hsame : ∀ {x : Res JVal × St}, x = (r1, d1) → x = (r2, d2) → Mix rel r1 r2 := by
    intro x e1 e2
    have := e1.symm.trans e2
    simp only [Prod.mk.injEq] at this
    rw [this.1]; exact Mix.same _ _
  -- an object produced by a selection set
  have hgroups : ∀ ot,
      (match execGroups c fuel dfr ot v pos (collectMerged c ot nodes) [] St.empty with
        | (.ok fs, st) => ((Res.ok (JVal.obj fs) : Res JVal), st)
        | (.fail, st) => (.fail, st)
        | (.fuelOut, st) => (.fuelOut, st)) = (r1, d1) →
      (match execGroups (c.withWorld w2) fuel dfr ot v pos (collectMerged c ot nodes) [] St.empty with
        | (.ok fs, st) => ((Res.ok (JVal.obj fs) : Res JVal), st)
        | (.fail, st) => (.fail, st)
        | (.fuelOut, st) => (.fuelOut, st)) = (r2, d2) →
      Mix rel r1 r2 := by
    intro ot h1 h2
    rcases hg1 : execGroups c fuel dfr ot v pos (collectMerged c ot nodes) [] St.empty with ⟨rg1, dg1⟩
    rcases hg2 : execGroups (c.withWorld w2) fuel dfr ot v pos (collectMerged c ot nodes) [] St.empty with ⟨rg2, dg2⟩
    rw [hg1] at h1
    rw [hg2] at h2
    have e1 : r1 = rg1.mapOk .obj ∧ d1 = dg1 := by
      cases rg1 <;> (simp only [Prod.mk.injEq] at h1; exact ⟨h1.1.symm, h1.2.symm⟩)
    have e2 : r2 = rg2.mapOk .obj := by
      cases rg2 <;> (simp only [Prod.mk.injEq] at h2; exact h2.1.symm)
    obtain ⟨rfl, rfl⟩ := e1
    subst e2
    exact ih.groups _ _ _ _ _ rel _ _ _ _ (collectMerged_keys_nodup c ot nodes) hg1 hg2 ht
  cases hnf : v.notFunc with
  | false =>
    cases v with
    | thunk tr =>
      cases tr with
      | err =>
        simp only [complete, Prod.mk.injEq] at h1 h2
        rw [← h1.1, ← h2.1]; exact Mix.fail_fail _
      | ok v' =>
        simp only [complete] at h1 h2
        rcases hc1 : complete c fuel true t rt fname nodes pos v' St.empty with ⟨rc1, dc1⟩
        rcases hc2 : complete (c.withWorld w2) fuel true t rt fname nodes pos v' St.empty with ⟨rc2, dc2⟩
        rw [hc1] at h1
        rw [hc2] at h2
        have e1 : r1 = rc1 ∧ d1.log = dc1.log := by
          cases rc1 <;> (simp only [Prod.mk.injEq] at h1; exact ⟨h1.1.symm, by rw [← h1.2]⟩)
        have e2 : r2 = rc2 := by
          cases rc2 <;> (simp only [Prod.mk.injEq] at h2; exact h2.1.symm)
        rw [e1.1, e2]
        exact ih.complete _ _ _ _ _ _ _ rel _ _ _ _ hc1 hc2 (fun e he h => ht e (by rw [e1.2]; exact he) h)
    | badFunc =>
      simp only [complete, Prod.mk.injEq] at h1 h2
      rw [← h1.1, ← h2.1]; exact Mix.fail_fail _
    | _ => simp [GoVal.notFunc] at hnf
  | true =>
    rw [complete_succ_notFunc _ _ _ _ _ _ _ _ _ _ hnf] at h1 h2
    cases t with
    | nonNull inner =>
      simp only [completeBody] at h1 h2
      rcases hc1 : complete c fuel dfr inner rt fname nodes pos v St.empty with ⟨rc1, dc1⟩
      rcases hc2 : complete (c.withWorld w2) fuel dfr inner rt fname nodes pos v St.empty with ⟨rc2, dc2⟩
      rw [hc1] at h1
      rw [hc2] at h2
      have e1 : r1 = nnPostR rc1 ∧ d1.log = dc1.log := by
        cases rc1 with
        | fail => simp only [Prod.mk.injEq] at h1; exact ⟨h1.1.symm, by rw [← h1.2]⟩
        | fuelOut => simp only [Prod.mk.injEq] at h1; exact ⟨h1.1.symm, by rw [← h1.2]⟩
        | ok a =>
          cases a <;> (simp only [Prod.mk.injEq] at h1; exact ⟨h1.1.symm, by rw [← h1.2]; try rfl⟩)
      have e2 : r2 = nnPostR rc2 := by
        cases rc2 with
        | fail => simp only [Prod.mk.injEq] at h2; exact h2.1.symm
        | fuelOut => simp only [Prod.mk.injEq] at h2; exact h2.1.symm
        | ok a => cases a <;> (simp only [Prod.mk.injEq] at h2; exact h2.1.symm)
      rw [e1.1, e2]
      exact (ih.complete _ _ _ _ _ _ _ rel _ _ _ _ hc1 hc2 (fun e he h => ht e (by rw [e1.2]; exact he) h)).nnPost
    | list item =>
      simp only [completeBody] at h1 h2
      by_cases hnull : v.nullish = true
      · simp only [hnull, if_true] at h1 h2
        exact hsame h1 h2
      · simp only [hnull, Bool.false_eq_true, if_false] at h1 h2
        cases v with
        | list xs =>
          simp only at h1 h2
          rcases hi1 : completeItems c fuel dfr item rt fname nodes pos xs 0 [] St.empty with ⟨ri1, di1⟩
          rcases hi2 : completeItems (c.withWorld w2) fuel dfr item rt fname nodes pos xs 0 [] St.empty with ⟨ri2, di2⟩
          rw [hi1] at h1
          rw [hi2] at h2
          have e1 : r1 = ri1.mapOk (fun js => JVal.list ([] ++ js)) ∧ d1 = di1 := by
            cases ri1 <;> (simp only [Prod.mk.injEq] at h1; exact ⟨by simp [Res.mapOk, ← h1.1], h1.2.symm⟩)
          have e2 : r2 = ri2.mapOk (fun js => JVal.list ([] ++ js)) := by
            cases ri2 <;> (simp only [Prod.mk.injEq] at h2; simp [Res.mapOk, ← h2.1])
          obtain ⟨rfl, rfl⟩ := e1
          subst e2
          exact ih.items _ _ _ _ _ _ _ _ rel _ _ _ _ hi1 hi2 ht [] rfl
        | _ => exact hsame h1 h2
    | named n =>
      simp only [completeBody, Ctx.withWorld_schema, Ctx.withWorld_world, runtimeTypeOf_world c w2 ha,
        collectMerged_world, ← ha.isTypeOf] at h1 h2
      by_cases hnull : v.nullish = true
      · simp only [hnull, if_true] at h1 h2
        exact hsame h1 h2
      · simp only [hnull, Bool.false_eq_true, if_false] at h1 h2
        by_cases hleaf : c.schema.isLeaf n = true
        · simp only [hleaf, if_true] at h1 h2
          exact hsame h1 h2
        · simp only [hleaf, Bool.false_eq_true, if_false] at h1 h2
          by_cases habs : c.schema.isAbstract n = true
          · simp only [habs, if_true] at h1 h2
            cases hrt : runtimeTypeOf c n v with
            | none => simp only [hrt] at h1 h2; exact hsame h1 h2
            | some ot =>
              simp only [hrt] at h1 h2
              by_cases hposs : (!(c.schema.isObject ot && c.schema.isPossibleType n ot)) = true
              · simp only [hposs, if_true] at h1 h2; exact hsame h1 h2
              · simp only [hposs, Bool.false_eq_true, if_false] at h1 h2
                exact hgroups ot h1 h2
          · simp only [habs, Bool.false_eq_true, if_false] at h1 h2
            by_cases hobj : c.schema.isObject n = true
            · simp only [hobj, if_true] at h1 h2
              by_cases hito : (objectHasIsTypeOf c.schema n && !c.world.isTypeOfAns n v) = true
              · simp only [hito, if_true] at h1 h2; exact hsame h1 h2
              · simp only [hito, Bool.false_eq_true, if_false] at h1 h2
                exact hgroups n h1 h2
            · simp only [hobj, Bool.false_eq_true, if_false] at h1 h2; exact hsame h1 h2

theorem mixP (ha : AgreeExcept c.world w2 id0 f0) : ∀ fuel, MixP c w2 id0 f0 fuel
  | 0 => mixP_zero
  | fuel + 1 =>
    have ih := mixP ha fuel
    ⟨mixP_groups ha fuel ih, mixP_field ha fuel ih, mixP_complete ha fuel ih, mixP_items ha fuel ih⟩

end GqlModel.Exec
