import GqlModel.Occurs
/-! # CollectFields: helper lemmas for C01 (part 1: `Groups.add`, the step relation `Reach`, soundness)

Everything `collectList` does to an accumulator `(groups, visited)` is a sequence of two kinds of steps:
`Groups.add` of a node that `Occurs`, and marking a NEW fragment name as visited.  `Reach Q a b` records that;
all invariants (soundness, well-formed groups, key order, monotonicity, `visited.Nodup`) are then proved by
induction on `Reach`. -/
namespace GqlModel.Exec

/-! ## `Groups.add` -/

theorem any_key_iff (g : Groups) (k : String) : g.any (fun p => p.1 == k) = true ↔ k ∈ g.map (·.1) := by
  simp only [List.any_eq_true, beq_iff_eq, List.mem_map]

/-- `Groups.add` appends a new key at the END and never reorders -/
theorem keys_add (g : Groups) (f : FieldNode) :
    (g.add f).map (·.1) = if f.key ∈ g.map (·.1) then g.map (·.1) else g.map (·.1) ++ [f.key] := by
  unfold Groups.add
  by_cases h : g.any (fun p => p.1 == f.key) = true
  · have h' := (any_key_iff g f.key).1 h
    rw [if_pos h, if_pos h', List.map_map]
    apply List.map_congr_left
    intro p _
    by_cases hp : p.1 = f.key <;> simp [hp]
  · have h' : ¬ f.key ∈ g.map (·.1) := fun hm => h ((any_key_iff g f.key).2 hm)
    rw [if_neg h, if_neg h']
    simp

theorem mem_add_old {g : Groups} {f : FieldNode} {p : String × List FieldNode} (hp : p ∈ g) :
    ∃ p' ∈ g.add f, p'.1 = p.1 ∧ ∀ x ∈ p.2, x ∈ p'.2 := by
  unfold Groups.add
  by_cases h : g.any (fun p => p.1 == f.key) = true
  · rw [if_pos h]
    by_cases hk : p.1 == f.key
    · exact ⟨(p.1, p.2 ++ [f]), List.mem_map.2 ⟨p, hp, by simp [hk]⟩, rfl, fun x hx => by simp [hx]⟩
    · exact ⟨p, List.mem_map.2 ⟨p, hp, by simp [hk]⟩, rfl, fun x hx => hx⟩
  · rw [if_neg h]
    exact ⟨p, by simp [hp], rfl, fun x hx => hx⟩

theorem stored_add_old {g : Groups} {f f' : FieldNode} (h : Stored g f') : Stored (g.add f) f' := by
  obtain ⟨p, hp, hk, hm⟩ := h
  obtain ⟨p', hp', hk', hsub⟩ := mem_add_old (f := f) hp
  exact ⟨p', hp', hk'.trans hk, hsub _ hm⟩

theorem stored_add_self (g : Groups) (f : FieldNode) : Stored (g.add f) f := by
  unfold Groups.add
  by_cases h : g.any (fun p => p.1 == f.key) = true
  · rw [if_pos h]
    obtain ⟨p, hp, hk⟩ := List.any_eq_true.1 h
    refine ⟨(p.1, p.2 ++ [f]), List.mem_map.2 ⟨p, hp, by simp [hk]⟩, by simpa using hk, by simp⟩
  · rw [if_neg h]
    exact ⟨(f.key, [f]), by simp, rfl, by simp⟩

/-- every group of `g.add f` is an old group, an old group of key `f.key` extended by `f`, or the new group -/
theorem mem_add_cases {g : Groups} {f : FieldNode} {p : String × List FieldNode} (hp : p ∈ g.add f) :
    p ∈ g ∨ (∃ q ∈ g, q.1 = f.key ∧ p = (q.1, q.2 ++ [f])) ∨ p = (f.key, [f]) := by
  unfold Groups.add at hp
  by_cases h : g.any (fun p => p.1 == f.key) = true
  · rw [if_pos h] at hp
    obtain ⟨q, hq, rfl⟩ := List.mem_map.1 hp
    by_cases hk : q.1 == f.key
    · exact .inr (.inl ⟨q, hq, by simpa using hk, by simp [hk]⟩)
    · exact .inl (by simpa [hk] using hq)
  · rw [if_neg h] at hp
    rcases List.mem_append.1 hp with hp | hp
    · exact .inl hp
    · exact .inr (.inr (by simpa using hp))

/-! ## Invariants of groups -/

/-- every stored node sits in the group of its own key and satisfies `Q` -/
def AllQ (Q : FieldNode → Prop) (g : Groups) : Prop := ∀ p ∈ g, ∀ f ∈ p.2, p.1 = f.key ∧ Q f

theorem allQ_add {Q : FieldNode → Prop} {g : Groups} {f : FieldNode} (hg : AllQ Q g) (hf : Q f) :
    AllQ Q (g.add f) := by
  intro p hp x hx
  rcases mem_add_cases hp with h | ⟨q, hq, hk, rfl⟩ | rfl
  · exact hg p h x hx
  · rcases List.mem_append.1 hx with hx | hx
    · exact hg q hq x hx
    · have : x = f := by simpa using hx
      subst this; exact ⟨hk, hf⟩
  · have : x = f := by simpa using hx
    subst this; exact ⟨rfl, hf⟩

theorem allQ_iff_stored {Q : FieldNode → Prop} {g : Groups} (h : AllQ Q g) {f : FieldNode} (hs : Stored g f) : Q f := by
  obtain ⟨p, hp, _, hm⟩ := hs
  exact (h p hp f hm).2

/-- well-formed groups: pairwise distinct keys, no empty group -/
def GroupsWF (g : Groups) : Prop := (g.map (·.1)).Nodup ∧ ∀ p ∈ g, p.2 ≠ []

theorem groupsWF_nil : GroupsWF [] := ⟨by simp, by simp⟩

theorem groupsWF_add {g : Groups} (f : FieldNode) (hg : GroupsWF g) : GroupsWF (g.add f) := by
  refine ⟨?_, ?_⟩
  · rw [keys_add]
    by_cases h : f.key ∈ g.map (·.1)
    · rw [if_pos h]; exact hg.1
    · rw [if_neg h]
      refine List.nodup_append.2 ⟨hg.1, by simp, ?_⟩
      intro a ha b hb
      have : b = f.key := by simpa using hb
      subst this
      intro hab; subst hab; exact h ha
  · intro p hp
    rcases mem_add_cases hp with h | ⟨q, _, _, rfl⟩ | rfl
    · exact hg.2 p h
    · simp
    · simp

theorem keys_prefix_add (g : Groups) (f : FieldNode) : g.map (·.1) <+: (g.add f).map (·.1) := by
  rw [keys_add]
  by_cases h : f.key ∈ g.map (·.1)
  · rw [if_pos h]; exact List.prefix_refl _
  · rw [if_neg h]; exact List.prefix_append _ _

/-! ## The step relation -/

/-- `b` is obtained from `a` by adding nodes satisfying `Q` and by marking names that were not yet visited -/
inductive Reach (Q : FieldNode → Prop) : Groups × List String → Groups × List String → Prop
  | refl (a) : Reach Q a a
  | add {g vis f} : Q f → Reach Q (g, vis) (g.add f, vis)
  | mark {g vis n} : n ∉ vis → Reach Q (g, vis) (g, n :: vis)
  | trans {a b d} : Reach Q a b → Reach Q b d → Reach Q a d

/-- monotonicity of a call: stored nodes stay stored (under their key), visited names stay visited -/
def Mono (a b : Groups × List String) : Prop := (∀ f, Stored a.1 f → Stored b.1 f) ∧ (∀ n ∈ a.2, n ∈ b.2)

theorem Mono.refl (a : Groups × List String) : Mono a a := ⟨fun _ h => h, fun _ h => h⟩
theorem Mono.trans {a b d : Groups × List String} (h1 : Mono a b) (h2 : Mono b d) : Mono a d :=
  ⟨fun f h => h2.1 f (h1.1 f h), fun n h => h2.2 n (h1.2 n h)⟩

variable {Q : FieldNode → Prop} {a b : Groups × List String}

theorem Reach.mono (h : Reach Q a b) : Mono a b := by
  induction h with
  | refl a => exact Mono.refl a
  | add _ => exact ⟨fun _ h => stored_add_old h, fun _ h => h⟩
  | mark _ => exact ⟨fun _ h => h, fun _ h => List.mem_cons_of_mem _ h⟩
  | trans _ _ ih1 ih2 => exact ih1.trans ih2

theorem Reach.allQ (h : Reach Q a b) (ha : AllQ Q a.1) : AllQ Q b.1 := by
  induction h with
  | refl a => exact ha
  | add hf => exact allQ_add ha hf
  | mark _ => exact ha
  | trans _ _ ih1 ih2 => exact ih2 (ih1 ha)

theorem Reach.wf (h : Reach Q a b) (ha : GroupsWF a.1) : GroupsWF b.1 := by
  induction h with
  | refl a => exact ha
  | add _ => exact groupsWF_add _ ha
  | mark _ => exact ha
  | trans _ _ ih1 ih2 => exact ih2 (ih1 ha)

theorem Reach.keys_prefix (h : Reach Q a b) : a.1.map (·.1) <+: b.1.map (·.1) := by
  induction h with
  | refl a => exact List.prefix_refl _
  | add _ => exact keys_prefix_add _ _
  | mark _ => exact List.prefix_refl _
  | trans _ _ ih1 ih2 => exact ih1.trans ih2

theorem Reach.vis_nodup (h : Reach Q a b) (ha : a.2.Nodup) : b.2.Nodup := by
  induction h with
  | refl a => exact ha
  | add _ => exact ha
  | mark hn => exact List.nodup_cons.2 ⟨hn, ha⟩
  | trans _ _ ih1 ih2 => exact ih2 (ih1 ha)

/-- the visited list only grows at the FRONT (names are pushed, never removed or reordered) -/
theorem Reach.vis_suffix (h : Reach Q a b) : a.2 <:+ b.2 := by
  induction h with
  | refl a => exact List.suffix_refl _
  | add _ => exact List.suffix_refl _
  | mark _ => exact List.suffix_cons _ _
  | trans _ _ ih1 ih2 => exact ih1.trans ih2

theorem Reach.imp {Q' : FieldNode → Prop} (hQ : ∀ f, Q f → Q' f) (h : Reach Q a b) : Reach Q' a b := by
  induction h with
  | refl a => exact .refl a
  | add hf => exact .add (hQ _ hf)
  | mark hn => exact .mark hn
  | trans _ _ ih1 ih2 => exact .trans ih1 ih2

/-! ## `Occurs` is monotone in the selection list -/

theorem Occurs.weaken {c : Ctx} {rt : String} {sels sels' : List Selection} {f : FieldNode}
    (h : Occurs c rt sels f) (hsub : ∀ s ∈ sels, s ∈ sels') : Occurs c rt sels' f := by
  cases h with
  | field hm hi => exact .field (hsub _ hm) hi
  | inline hm hi hc ho => exact .inline (hsub _ hm) hi hc ho
  | spread hm hi hf hc ho => exact .spread (hsub _ hm) hi hf hc ho

/-! ## Soundness: every call is a `Reach` through occurring nodes -/

section sound
variable (c : Ctx) (rt : String)

/-- `expand` only adds nodes that occur in the body of the (defined, applicable) fragment it is asked to expand -/
def ExpReach (Q : FieldNode → Prop) (expand : String → Groups × List String → Groups × List String) : Prop :=
  ∀ n acc, (∀ tc body l, c.frag? n = some (tc, .mk body l) → condApplies c.schema (some tc) rt = true →
      ∀ f, Occurs c rt body f → Q f) → Reach Q acc (expand n acc)

variable {c rt}
variable {expand : String → Groups × List String → Groups × List String}

mutual
theorem collectSel_reach (he : ExpReach c rt Q expand) : ∀ (s : Selection) (acc : Groups × List String),
    (∀ f, Occurs c rt [s] f → Q f) → Reach Q acc (collectSel c rt expand s acc)
  | .field alias name args dirs sel loc, (g, vis), hq => by
    by_cases hi : included c.schema c.vars dirs = true
    · simp only [collectSel, hi, if_true]
      exact .add (hq _ (.field (List.mem_singleton.2 rfl) hi))
    · simp only [collectSel, hi]
      exact .refl _
  | .inline tc dirs (.mk inner l1) l2, acc, hq => by
    by_cases hi : (included c.schema c.vars dirs && condApplies c.schema tc rt) = true
    · simp only [collectSel, hi, if_true, collectSet]
      have hi' := Bool.and_eq_true_iff.1 hi
      exact collectList_reach he inner acc
        (fun f hf => hq f (.inline (List.mem_singleton.2 rfl) hi'.1 hi'.2 hf))
    · simp only [collectSel, hi]
      exact .refl _
  | .spread name dirs l, acc, hq => by
    by_cases hi : included c.schema c.vars dirs = true
    · simp only [collectSel, hi, if_true]
      exact he name.value acc
        (fun tc body l1 hf hc f ho => hq f (.spread (List.mem_singleton.2 rfl) hi hf hc ho))
    · simp only [collectSel, hi]
      exact .refl _
theorem collectList_reach (he : ExpReach c rt Q expand) : ∀ (sels : List Selection) (acc : Groups × List String),
    (∀ f, Occurs c rt sels f → Q f) → Reach Q acc (collectList c rt expand sels acc)
  | [], acc, _ => by simp only [collectList]; exact .refl _
  | s :: rest, acc, hq => by
    simp only [collectList]
    refine .trans (collectSel_reach he s acc (fun f hf => hq f (hf.weaken ?_)))
      (collectList_reach he rest _ (fun f hf => hq f (hf.weaken ?_)))
    · intro x hx; rw [List.mem_singleton.1 hx]; exact List.mem_cons_self
    · intro x hx; exact List.mem_cons_of_mem _ hx
end

theorem collectSet_reach (he : ExpReach c rt Q expand) (sels : List Selection) (l : Loc) (acc : Groups × List String)
    (hq : ∀ f, Occurs c rt sels f → Q f) : Reach Q acc (collectSet c rt expand (.mk sels l) acc) := by
  simp only [collectSet]; exact collectList_reach he sels acc hq

theorem expandSpread_reach (Q : FieldNode → Prop) : ∀ fuel, ExpReach c rt Q (expandSpread c rt fuel)
  | 0 => fun n acc _ => by simp only [expandSpread]; exact .refl _
  | fuel + 1 => fun n (g, vis) hq => by
    simp only [expandSpread]
    by_cases hv : vis.contains n = true
    · rw [if_pos hv]; exact .refl _
    · rw [if_neg hv]
      have hn : n ∉ vis := fun hm => hv (List.contains_iff_mem.2 hm)
      rcases hf : c.frag? n with _ | ⟨tc, ⟨body, l⟩⟩
      · exact .refl _
      · simp only
        by_cases hc : condApplies c.schema (some tc) rt = true
        · rw [if_pos hc]
          exact .trans (.mark hn) (collectSet_reach (expandSpread_reach Q fuel) body l _ (hq tc body l hf hc))
        · rw [if_neg hc]; exact .mark hn

/-- `collect` from any accumulator: a `Reach` through the nodes occurring in the selection list -/
theorem collect_reach (sels : List Selection) (l : Loc) (acc : Groups × List String) :
    Reach (Occurs c rt sels) acc (collect c rt (.mk sels l) acc) :=
  collectSet_reach (expandSpread_reach _ _) sels l acc (fun _ h => h)

end sound

end GqlModel.Exec
