import GqlModel.SchemaBuildBridge
import GqlModel.Introspection
import GqlModel.Coerce
import GqlProofs.TypeInfoStacks
import GqlProofs.SchemaConsistent
/-! C11, part 6: what the translated schema (`BuiltSchema.toSchema`, lean/GqlModel/SchemaBuildBridge.lean) of a
successful construction satisfies — the schema premises of the other properties' theorems. -/
set_option linter.unusedSectionVars false
set_option linter.unusedVariables false
namespace GqlModel.SchemaBuild

variable (cfg : Config)

/-! ## names -/

theorem isNameStart_eq (c : Char) : Introspection.isNameStart c = isNameStart c := by
  unfold Introspection.isNameStart isNameStart
  rw [Bool.eq_iff_iff]
  simp only [decide_eq_true_eq, Bool.or_eq_true, Bool.and_eq_true, beq_iff_eq, Char.le_def, Char.ext_iff]
  have h1 : ('a' : Char).val.toNat = 97 := rfl
  have h2 : ('z' : Char).val.toNat = 122 := rfl
  have h3 : ('A' : Char).val.toNat = 65 := rfl
  have h4 : ('Z' : Char).val.toNat = 90 := rfl
  have h5 : ('_' : Char).val.toNat = 95 := rfl
  simp only [UInt32.le_iff_toNat_le, ← UInt32.toNat_inj, h1, h2, h3, h4, h5, Char.toNat]
  omega

theorem isNameChar_eq (c : Char) : Introspection.isNameChar c = isNameCont c := by
  unfold Introspection.isNameChar isNameCont Introspection.isDigit
  rw [isNameStart_eq]
  congr 1
  rw [Bool.eq_iff_iff]
  simp only [decide_eq_true_eq, Bool.and_eq_true, Char.le_def]
  have h1 : ('0' : Char).val.toNat = 48 := rfl
  have h2 : ('9' : Char).val.toNat = 57 := rfl
  simp only [UInt32.le_iff_toNat_le, h1, h2, Char.toNat]

theorem validName_eq (n : String) : Introspection.validName n = validName n := by
  unfold Introspection.validName validName
  cases n.toList with
  | nil => rfl
  | cons c cs =>
    simp only [isNameStart_eq]
    congr 1
    apply List.all_congr rfl
    intro x; exact isNameChar_eq x

/-! ## sorting keeps the elements -/

theorem insertBy_perm {α : Type} (lt : α → α → Bool) (x : α) : ∀ l : List α, (insertBy lt x l).Perm (x :: l) := by
  intro l
  induction l with
  | nil => exact List.Perm.refl _
  | cons y ys ih =>
    simp only [insertBy]
    split
    · exact List.Perm.refl _
    · exact (List.Perm.cons y ih).trans (List.Perm.swap x y ys)

theorem sortBy_perm {α : Type} (lt : α → α → Bool) : ∀ l : List α, (sortBy lt l).Perm l := by
  intro l
  induction l with
  | nil => exact List.Perm.refl _
  | cons x xs ih => exact (insertBy_perm lt x _).trans (List.Perm.cons x ih)

theorem distinctNames_nodup : ∀ l : List String, distinctNames l = true → l.Nodup := by
  intro l
  induction l with
  | nil => intro _; exact List.nodup_nil
  | cons x xs ih =>
    intro h
    simp only [distinctNames, Bool.and_eq_true, Bool.not_eq_true'] at h
    have hx : x ∉ xs := by
      intro hm
      have : xs.contains x = true := List.contains_iff_mem.mpr hm
      rw [h.1] at this; cases this
    exact List.nodup_cons.mpr ⟨hx, ih h.2⟩

/-! ## keys of the configured maps -/

def KeysOk (t : TypeCfg) : Prop :=
  (t.fields.map (·.name)).Nodup ∧ (∀ f ∈ t.fields, (f.args.map (·.name)).Nodup) ∧
  (t.inputFields.map (·.name)).Nodup ∧ (t.values.map (·.1)).Nodup

theorem builtin_keys : builtinTypes.all (fun t =>
    distinctNames (t.fields.map (·.name)) && t.fields.all (fun f => distinctNames (f.args.map (·.name))) &&
    distinctNames (t.inputFields.map (·.name)) && distinctNames (t.values.map (·.1))) = true := by decide

theorem keysOk_get (hm : cfg.mapsOk = true) (i : Nat) : KeysOk (cfg.get i) := by
  have conv : ∀ t : TypeCfg, (distinctNames (t.fields.map (·.name)) && t.fields.all (fun f => distinctNames (f.args.map (·.name))) &&
      distinctNames (t.inputFields.map (·.name)) && distinctNames (t.values.map (·.1))) = true → KeysOk t := by
    intro t h
    simp only [Bool.and_eq_true, List.all_eq_true] at h
    exact ⟨distinctNames_nodup _ h.1.1.1, fun f hf => distinctNames_nodup _ (h.1.1.2 f hf), distinctNames_nodup _ h.1.2,
      distinctNames_nodup _ h.2⟩
  apply table_forall cfg (P := KeysOk)
  · exact ⟨List.nodup_nil, fun f hf => (by cases hf), List.nodup_nil, List.nodup_nil⟩
  · intro t ht; exact conv t (List.all_eq_true.mp builtin_keys t ht)
  · intro t ht
    simp only [Config.mapsOk, Bool.and_eq_true, List.all_eq_true] at hm
    exact conv t (by simpa [Bool.and_eq_true, List.all_eq_true] using hm.1 t ht)

/-! ## members once (C10 `membersOnce`) -/

theorem ifaceLoop_nodup : ∀ (l : List (Option Nat)) (seen : List String) (r : List Nat), ifaceLoop cfg seen l = .ok r →
    (r.map (nameOf cfg)).Nodup ∧ ∀ j ∈ r, nameOf cfg j ∉ seen := by
  intro l
  induction l with
  | nil => intro seen r h; simp [ifaceLoop] at h; subst h; exact ⟨List.nodup_nil, fun j hj => (by cases hj)⟩
  | cons x rest ih =>
    intro seen r h
    cases x with
    | none => simp [ifaceLoop] at h
    | some v =>
      simp only [ifaceLoop] at h
      split at h
      · cases h
      · rename_i hseen
        cases hr : ifaceLoop cfg (nameOf cfg v :: seen) rest with
        | error e => simp [hr] at h
        | ok l' =>
          simp only [hr, Except.ok.injEq] at h
          subst h
          obtain ⟨hnd, hns⟩ := ih _ l' hr
          have hvs : nameOf cfg v ∉ seen := by simpa using hseen
          refine ⟨?_, ?_⟩
          · simp only [List.map_cons, List.nodup_cons]
            refine ⟨?_, hnd⟩
            intro hm
            obtain ⟨j, hj, hjn⟩ := List.mem_map.mp hm
            exact hns j hj (by rw [hjn]; exact List.mem_cons_self ..)
          · intro j hj
            cases hj with
            | head => exact hvs
            | tail _ hj' => exact fun hm => hns j hj' (List.mem_cons_of_mem _ hm)

theorem unionLoop_nodup {rt : Bool} : ∀ (l : List (Option Nat)) (seen : List String) (r : List Nat),
    unionLoop cfg rt seen l = .ok r → (r.map (nameOf cfg)).Nodup ∧ ∀ j ∈ r, nameOf cfg j ∉ seen := by
  intro l
  induction l with
  | nil => intro seen r h; simp [unionLoop] at h; subst h; exact ⟨List.nodup_nil, fun j hj => (by cases hj)⟩
  | cons x rest ih =>
    intro seen r h
    cases x with
    | none => simp [unionLoop] at h
    | some v =>
      simp only [unionLoop] at h
      split at h
      · cases h
      · rename_i hseen
        split at h
        · cases h
        · cases hr : unionLoop cfg rt (nameOf cfg v :: seen) rest with
          | error e => simp [hr] at h
          | ok l' =>
            simp only [hr, Except.ok.injEq] at h
            subst h
            obtain ⟨hnd, hns⟩ := ih _ l' hr
            have hvs : nameOf cfg v ∉ seen := by simpa using hseen
            refine ⟨?_, ?_⟩
            · simp only [List.map_cons, List.nodup_cons]
              refine ⟨?_, hnd⟩
              intro hm
              obtain ⟨j, hj, hjn⟩ := List.mem_map.mp hm
              exact hns j hj (by rw [hjn]; exact List.mem_cons_self ..)
            · intro j hj
              cases hj with
              | head => exact hvs
              | tail _ hj' => exact fun hm => hns j hj' (List.mem_cons_of_mem _ hm)

theorem interfaces_nodup (i : Nat) : ((orNil (interfacesOf cfg i)).map (nameOf cfg)).Nodup := by
  unfold interfacesOf
  simp only
  split
  · exact List.nodup_nil
  · exact List.nodup_nil
  · cases h : ifaceLoop cfg [] (cfg.get i).refs with
    | error e => exact List.nodup_nil
    | ok r => exact (ifaceLoop_nodup cfg _ _ r h).1

theorem members_nodup (i : Nat) : ((orNil (membersOf cfg i)).map (nameOf cfg)).Nodup := by
  unfold membersOf
  simp only
  split
  · exact List.nodup_nil
  · exact List.nodup_nil
  · split
    · exact List.nodup_nil
    · cases h : unionLoop cfg (cfg.get i).resolver [] (cfg.get i).refs with
      | error e => exact List.nodup_nil
      | ok r => exact (unionLoop_nodup cfg _ _ r h).1

theorem dump_nameAt (s : St) : (dump cfg s).nameAt = nameOf cfg := by
  funext j
  unfold BuiltSchema.nameAt
  rw [dump_get]; rfl

theorem typeDef_membersOnce (s : St) (i : Nat) :
    Introspection.membersOnce ((dump cfg s).typeDef (builtType cfg i)) = true := by
  unfold BuiltSchema.typeDef
  rw [dump_nameAt]
  cases hk : (builtType cfg i).kind with
  | object =>
    simp only [Introspection.membersOnce, decide_eq_true_eq]
    have hk' : kindOf cfg i = .object := hk
    simp only [builtType, hk', beq_self_eq_true, if_true]
    exact interfaces_nodup cfg i
  | union =>
    simp only [Introspection.membersOnce, decide_eq_true_eq]
    have hk' : kindOf cfg i = .union := hk
    simp only [builtType, hk', beq_self_eq_true, if_true]
    exact members_nodup cfg i
  | scalar => rfl
  | interface => rfl
  | enum => rfl
  | inputObject => rfl
  | list => rfl
  | nonNull => rfl

theorem toSchema_types_forall (s : St) {P : TypeDef → Prop} (h : ∀ i, P ((dump cfg s).typeDef (builtType cfg i))) :
    ∀ td ∈ ((dump cfg s).toSchema).types, P td := by
  intro td htd
  simp only [BuiltSchema.toSchema, List.mem_map] at htd
  obtain ⟨p, _, rfl⟩ := htd
  rw [dump_get]
  exact h p.2

/-! ## well-formed enums and input objects (C10 `wfInputTypes`, C05 `inputFieldsNodup`) -/

theorem defineInputLoop_names : ∀ (fs : List ArgCfg) (bs : List BArg), defineInputLoop cfg fs = .ok bs →
    (bs.map (·.name)).Sublist (fs.map (·.name)) ∧ ∀ b ∈ bs, validName b.name = true := by
  intro fs
  induction fs with
  | nil => intro bs h; simp [defineInputLoop] at h; subst h; exact ⟨List.Sublist.refl _, fun b hb => (by cases hb)⟩
  | cons f rest ih =>
    intro bs h
    simp only [defineInputLoop] at h
    split at h
    · obtain ⟨h1, h2⟩ := ih bs h
      exact ⟨List.Sublist.cons _ h1, h2⟩
    · split at h
      · obtain ⟨h1, h2⟩ := ih bs h
        exact ⟨List.Sublist.cons _ h1, h2⟩
      · rename_i hvalid
        split at h
        · cases h
        · split at h
          · cases h
          · cases hr : defineInputLoop cfg rest with
            | error e => simp [hr] at h
            | ok bs' =>
              simp only [hr, Except.ok.injEq] at h
              subst h
              obtain ⟨h1, h2⟩ := ih bs' hr
              refine ⟨List.Sublist.cons_cons _ h1, ?_⟩
              intro b hb
              cases hb with
              | head => simpa using hvalid
              | tail _ hb' => exact h2 b hb'

theorem inputFields_wf (hm : cfg.mapsOk = true) (i : Nat) :
    ((orNil (inputFieldsOf cfg i)).map (·.name)).Nodup ∧ ∀ b ∈ orNil (inputFieldsOf cfg i), validName b.name = true := by
  cases h : inputFieldsOf cfg i with
  | error e => exact ⟨List.nodup_nil, fun b hb => (by cases hb)⟩
  | ok bs =>
    simp only [orNil]
    unfold inputFieldsOf at h
    simp only at h
    by_cases he : (if formGiven (cfg.get i).form = true then (cfg.get i).inputFields else []).isEmpty = true
    · rw [if_pos he] at h; cases h
    · rw [if_neg he] at h
      obtain ⟨h1, h2⟩ := defineInputLoop_names cfg _ bs h
      refine ⟨?_, h2⟩
      apply h1.nodup
      split
      · exact (keysOk_get cfg hm i).2.2.1
      · exact List.nodup_nil

theorem enumErr_none_values {vs : List (String × Bool)} (h : enumErr vs = none) :
    ∀ v ∈ sortBy (fun a b => decide (a.1 < b.1)) vs, validName v.1 = true ∧
      (v.1 == "true" || v.1 == "false" || v.1 == "null") = false := by
  unfold enumErr at h
  cases vs with
  | nil => cases h
  | cons x xs =>
    simp only at h
    rw [List.findSome?_eq_none_iff] at h
    intro v hv
    have := h v hv
    split at this
    · cases this
    · rename_i hp
      split at this
      · cases this
      · rename_i hvalid
        split at this
        · cases this
        · rename_i hres
          exact ⟨by simpa using hvalid, by simpa using hres⟩

theorem enum_values_wf (hm : cfg.mapsOk = true) (i : Nat) :
    (builtType cfg i).values.Nodup ∧ ∀ v ∈ (builtType cfg i).values, validName v = true ∧
      (v == "true" || v == "false" || v == "null") = false := by
  simp only [builtType]
  split
  · rename_i hc
    simp only [Bool.and_eq_true, Option.isNone_iff_eq_none] at hc
    refine ⟨?_, ?_⟩
    · exact ((sortBy_perm _ (cfg.get i).values).map (·.1)).nodup_iff.mpr (keysOk_get cfg hm i).2.2.2
    · intro v hv
      obtain ⟨p, hp, rfl⟩ := List.mem_map.mp hv
      have hce := ctorErrT_none_of_ctorErr cfg hc.2
      unfold ctorErrT at hce
      split at hce
      · cases hce
      · have hk : (cfg.get i).kind = .enum := by simpa [kindOf] using hc.1
        simp only [hk] at hce
        exact enumErr_none_values hce p hp
  · exact ⟨List.nodup_nil, fun v hv => (by cases hv)⟩

theorem typeDef_wfInputType (hm : cfg.mapsOk = true) (s : St) (i : Nat) :
    Introspection.wfInputType ((dump cfg s).typeDef (builtType cfg i)) = true := by
  unfold BuiltSchema.typeDef
  cases hk : (builtType cfg i).kind with
  | enum =>
    obtain ⟨h1, h2⟩ := enum_values_wf cfg hm i
    simp only [Introspection.wfInputType, Bool.and_eq_true, List.all_eq_true, decide_eq_true_eq, List.map_map]
    refine ⟨?_, ?_⟩
    · intro ev hev
      obtain ⟨v, hv, rfl⟩ := List.mem_map.mp hev
      obtain ⟨hv1, hv2⟩ := h2 v hv
      simp only [validName_eq, hv1, Introspection.literalLikeName, hv2, Bool.not_false, and_self]
    · have : ((fun ev : EnumValueS => ev.name) ∘ fun v => ({ name := v, internal := JVal.str v } : EnumValueS)) = id := by
        funext v; rfl
      rw [this, List.map_id]; exact h1
  | inputObject =>
    have hk' : kindOf cfg i = .inputObject := hk
    obtain ⟨h1, h2⟩ := inputFields_wf cfg hm i
    simp only [Introspection.wfInputType, Bool.and_eq_true, List.all_eq_true, decide_eq_true_eq, List.map_map]
    have hif : (builtType cfg i).inputFields = orNil (inputFieldsOf cfg i) := by
      simp only [builtType, hk', beq_self_eq_true, if_true]
    rw [hif]
    refine ⟨?_, ?_⟩
    · intro f hf
      obtain ⟨a, ha, rfl⟩ := List.mem_map.mp hf
      simp only [BuiltSchema.inputField, validName_eq]
      exact h2 a ha
    · have : ((fun f : InputFieldS => f.name) ∘ (dump cfg s).inputField) = (fun a : BArg => a.name) := by
        funext a; rfl
      rw [this]; exact h1
  | scalar => rfl
  | object => rfl
  | interface => rfl
  | union => rfl
  | list => rfl
  | nonNull => rfl

/-! ## argument names (C14 `ArgsUnique`) -/

theorem defineArgs_names : ∀ (as : List ArgCfg) (bs : List BArg), defineArgs cfg as = .ok bs →
    bs.map (·.name) = as.map (·.name) := by
  intro as
  induction as with
  | nil => intro bs h; simp [defineArgs] at h; subst h; rfl
  | cons a rest ih =>
    intro bs h
    simp only [defineArgs] at h
    split at h
    · cases h
    · split at h
      · cases h
      · split at h
        · cases h
        · split at h
          · cases h
          · cases hr : defineArgs cfg rest with
            | error e => simp [hr] at h
            | ok bs' =>
              simp only [hr, Except.ok.injEq] at h
              subst h
              simp only [List.map_cons, ih bs' hr]

theorem defineFieldsLoop_args (keys : ∀ f : FieldCfg, f ∈ fs → (f.args.map (·.name)).Nodup) :
    ∀ (bs : List BField), defineFieldsLoop cfg fs = .ok bs → ∀ b ∈ bs, (b.args.map (·.name)).Nodup := by
  induction fs with
  | nil => intro bs h b hb; simp [defineFieldsLoop] at h; subst h; cases hb
  | cons f rest ih =>
    intro bs h b hb
    have keys' : ∀ g : FieldCfg, g ∈ rest → (g.args.map (·.name)).Nodup := fun g hg => keys g (List.mem_cons_of_mem _ hg)
    simp only [defineFieldsLoop] at h
    split at h
    · exact ih keys' bs h b hb
    · split at h
      · cases h
      · split at h
        · cases h
        · split at h
          · cases h
          · split at h
            · cases h
            · split at h
              · cases h
              · rename_i as has
                cases hr : defineFieldsLoop cfg rest with
                | error e => simp [hr] at h
                | ok bs' =>
                  simp only [hr, Except.ok.injEq] at h
                  subst h
                  cases hb with
                  | head =>
                    simp only
                    rw [defineArgs_names cfg _ as has]
                    exact ((sortBy_perm _ f.args).map (·.name)).nodup_iff.mpr (keys f (List.mem_cons_self ..))
                  | tail _ hb' => exact ih keys' bs' hr b hb'

theorem fields_args_nodup (hm : cfg.mapsOk = true) (i : Nat) :
    ∀ b ∈ (builtType cfg i).fields, (b.args.map (·.name)).Nodup := by
  intro b hb
  simp only [builtType] at hb
  split at hb
  · cases h : fieldsOf cfg i with
    | error e => simp [h, orNil] at hb
    | ok bs =>
      simp only [h, orNil] at hb
      unfold fieldsOf at h
      simp only at h
      by_cases he : (if formGiven (cfg.get i).form = true then (cfg.get i).fields else []).isEmpty = true
      · rw [if_pos he] at h; cases h
      · rw [if_neg he] at h
        refine defineFieldsLoop_args cfg ?_ bs h b hb
        intro f hf
        split at hf
        · exact (keysOk_get cfg hm i).2.1 f hf
        · cases hf
  · cases hb

/-! ## the premises, for the translated schema of any dump of the model -/

theorem toSchema_membersOnce (s : St) : ((dump cfg s).toSchema).types.all Introspection.membersOnce = true := by
  rw [List.all_eq_true]
  exact toSchema_types_forall cfg s (P := fun td => Introspection.membersOnce td = true) (typeDef_membersOnce cfg s)

theorem toSchema_wfInputTypes (hm : cfg.mapsOk = true) (s : St) :
    Introspection.wfInputTypes ((dump cfg s).toSchema).types = true := by
  unfold Introspection.wfInputTypes
  rw [List.all_eq_true]
  exact toSchema_types_forall cfg s (P := fun td => Introspection.wfInputType td = true) (typeDef_wfInputType cfg hm s)

theorem toSchema_inputFieldsNodup (hm : cfg.mapsOk = true) (s : St) : Coerce.inputFieldsNodup ((dump cfg s).toSchema) := by
  intro n n' fields d hfind
  have hmem : TypeDef.inputObject n' fields d ∈ ((dump cfg s).toSchema).types := by
    unfold Schema.find? at hfind
    exact List.mem_of_find?_eq_some hfind
  have := toSchema_types_forall cfg s (P := fun td => Introspection.wfInputType td = true)
    (typeDef_wfInputType cfg hm s) _ hmem
  simp only [Introspection.wfInputType, Bool.and_eq_true, decide_eq_true_eq] at this
  exact this.2

theorem dirDefs_args_nodup (hm : cfg.mapsOk = true) : ∀ d ∈ dirDefs cfg, (d.2.map (·.name)).Nodup := by
  intro d hd
  unfold dirDefs at hd
  split at hd
  · simp only [List.mem_cons, List.not_mem_nil, or_false] at hd
    rcases hd with rfl | rfl | rfl <;> simp
  · rw [List.mem_filterMap] at hd
    obtain ⟨dc, hdc, hde⟩ := hd
    cases dc with
    | none => cases hde
    | some dc =>
      simp only [Option.some.injEq] at hde
      subst hde
      simp only [List.map_map]
      have : ((fun a : BArg => a.name) ∘ fun a : ArgCfg => (⟨a.name, a.type.build⟩ : BArg)) = (fun a : ArgCfg => a.name) := by
        funext a; rfl
      rw [this]
      apply ((sortBy_perm _ dc.args).map (·.name)).nodup_iff.mpr
      simp only [Config.mapsOk, Bool.and_eq_true, List.all_eq_true] at hm
      exact distinctNames_nodup _ (hm.2 (some dc) hdc)

open TypeInfoStacks in
theorem toSchema_argsUniqueB (hm : cfg.mapsOk = true) (s : St) : argsUniqueB ((dump cfg s).toSchema) = true := by
  have argNames : ∀ (l : List BArg), (l.map (dump cfg s).argDef).map (·.name) = l.map (·.name) := by
    intro l; rw [List.map_map]; rfl
  unfold argsUniqueB
  rw [Bool.and_eq_true, Bool.and_eq_true]
  refine ⟨⟨?_, by decide⟩, ?_⟩
  · rw [List.all_append, Bool.and_eq_true]
    refine ⟨?_, by decide⟩
    rw [List.all_eq_true]
    apply toSchema_types_forall cfg s (P := fun td => ((fieldsOfDef td).all fun fd => decide (argNamesNodup fd.args)) = true)
    intro i
    rw [List.all_eq_true]
    intro fd hfd
    simp only [decide_eq_true_eq, argNamesNodup]
    unfold BuiltSchema.typeDef at hfd
    cases hk : (builtType cfg i).kind <;> simp only [hk, fieldsOfDef, List.mem_map, List.not_mem_nil] at hfd
    · obtain ⟨b, hb, rfl⟩ := hfd
      simp only [BuiltSchema.fieldDef, argNames]
      exact decide_eq_true (fields_args_nodup cfg hm i b hb)
    · obtain ⟨b, hb, rfl⟩ := hfd
      simp only [BuiltSchema.fieldDef, argNames]
      exact decide_eq_true (fields_args_nodup cfg hm i b hb)
  · unfold Schema.allDirectives
    rw [List.all_append, Bool.and_eq_true]
    refine ⟨by decide, ?_⟩
    rw [List.all_eq_true]
    intro d hd
    rw [List.mem_filter] at hd
    simp only [BuiltSchema.toSchema, List.mem_map] at hd
    obtain ⟨⟨dd, hdd, rfl⟩, _⟩ := hd
    simp only [decide_eq_true_eq, argNamesNodup, argNames]
    exact dirDefs_args_nodup cfg hm dd hdd

theorem toSchema_argsUnique (hm : cfg.mapsOk = true) (s : St) : TypeInfoStacks.ArgsUnique ((dump cfg s).toSchema) :=
  TypeInfoStacks.argsUnique_of_check _ (toSchema_argsUniqueB cfg hm s)

/-! ## what the executor / validator models may assume (`TranslationConsistent`) -/

theorem typeDef_name (b : BuiltSchema) (t : BType) : (b.typeDef t).name = t.name := by
  unfold BuiltSchema.typeDef
  cases t.kind <;> rfl

theorem gtype_namedName (s : St) : ∀ (t : TRef) (j : Nat), t.strip = .named j →
    ((dump cfg s).gtype t).namedName = nameOf cfg j := by
  intro t
  induction t with
  | nil => intro j h; simp [TRef.strip] at h
  | nilPtr _ => intro j h; simp [TRef.strip] at h
  | ref i =>
    intro j h
    simp only [TRef.strip, Leaf.named.injEq] at h
    subst h
    simp only [BuiltSchema.gtype, GType.namedName, dump_get]; rfl
  | list a ih =>
    intro j h
    simp only [BuiltSchema.gtype, GType.namedName]
    apply ih
    simp only [TRef.strip] at h
    cases ha : a.strip <;> simp [ha] at h
    subst h; rfl
  | nonNull a ih =>
    intro j h
    simp only [BuiltSchema.gtype, GType.namedName]
    apply ih
    simp only [TRef.strip] at h
    cases ha : a.strip <;> simp [ha] at h
    subst h; rfl

theorem userEntries_find {q : String × Nat → Bool} : ∀ (tm : TM), tm.Pairwise (fun a b => nameOf cfg a ≠ nameOf cfg b) →
    ∀ j ∈ tm, q (nameOf cfg j, j) = true →
    ((tm.map (fun i => (nameOf cfg i, i))).filter q).find? (fun e => nameOf cfg e.2 == nameOf cfg j) = some (nameOf cfg j, j) := by
  intro tm
  induction tm with
  | nil => intro _ j hj; cases hj
  | cons x xs ih =>
    intro hp j hj hq
    rw [List.pairwise_cons] at hp
    simp only [List.map_cons, List.filter_cons]
    by_cases hx : x = j
    · subst hx
      simp [hq]
    · have hmem : j ∈ xs := by
        cases hj with
        | head => exact absurd rfl hx
        | tail _ h => exact h
      have hne : (nameOf cfg x == nameOf cfg j) = false := by simpa using hp.1 j hmem
      split
      · simp only [List.find?_cons, hne]
        exact ih hp.2 j hmem hq
      · exact ih hp.2 j hmem hq

variable {cfg}

theorem Good.find_of_mem {tm : TM} (g : Good cfg tm) {j : Nat} (hj : j ∈ tm) (hmeta : nameOf cfg j ∉ metaTypeNames) :
    ((dump cfg ⟨tm⟩).toSchema).find? (nameOf cfg j) = some ((dump cfg ⟨tm⟩).typeDef (builtType cfg j)) := by
  unfold Schema.find? BuiltSchema.toSchema
  simp only [List.find?_map]
  have hfun : ((fun t : TypeDef => t.name == nameOf cfg j) ∘ fun p : String × Nat =>
      (dump cfg ⟨tm⟩).typeDef ((dump cfg ⟨tm⟩).get p.2)) = (fun e : String × Nat => nameOf cfg e.2 == nameOf cfg j) := by
    funext e
    simp only [Function.comp, typeDef_name, dump_get]; rfl
  rw [hfun]
  have hq : (fun p : String × Nat => !metaTypeNames.contains p.1) (nameOf cfg j, j) = true := by
    simp only [Bool.not_eq_true']
    cases hc : metaTypeNames.contains (nameOf cfg j) with
    | false => rfl
    | true => exact absurd (List.contains_iff_mem.mp hc) hmeta
  have := userEntries_find cfg (q := fun p => !metaTypeNames.contains p.1) tm g.inv.2 j hj hq
  unfold BuiltSchema.userEntries
  rw [dump_typeMap, this]
  simp only [Option.map_some, dump_get]

theorem Good.known_of_mem {tm : TM} (g : Good cfg tm) {j : Nat} (hj : j ∈ tm) :
    knownName ((dump cfg ⟨tm⟩).toSchema) (nameOf cfg j) := by
  by_cases hmeta : nameOf cfg j ∈ metaTypeNames
  · exact Or.inr hmeta
  · exact Or.inl (by rw [g.find_of_mem hj hmeta]; rfl)

theorem toSchema_mem_inv {tm : TM} {td : TypeDef} (h : td ∈ ((dump cfg ⟨tm⟩).toSchema).types) :
    ∃ i ∈ tm, td = (dump cfg ⟨tm⟩).typeDef (builtType cfg i) := by
  simp only [BuiltSchema.toSchema, List.mem_map] at h
  obtain ⟨p, hp, rfl⟩ := h
  unfold BuiltSchema.userEntries at hp
  rw [List.mem_filter, dump_typeMap, List.mem_map] at hp
  obtain ⟨⟨i, hi, rfl⟩, _⟩ := hp
  exact ⟨i, hi, by rw [dump_get]⟩

theorem fieldRefNames_known {tm : TM} (g : Good cfg tm) {i : Nat} (hi : i ∈ tm) {n : String}
    (hn : n ∈ ((builtType cfg i).fields.map (dump cfg ⟨tm⟩).fieldDef).flatMap fieldRefNames) :
    knownName ((dump cfg ⟨tm⟩).toSchema) n := by
  rw [List.mem_flatMap] at hn
  obtain ⟨fd, hfd, hnf⟩ := hn
  obtain ⟨bf, hbf, rfl⟩ := List.mem_map.mp hfd
  simp only [fieldRefNames, BuiltSchema.fieldDef, List.mem_cons, List.map_map, List.mem_map] at hnf
  have resolve : ∀ t, t ∈ BuiltSchema.typeRefs (builtType cfg i) →
      knownName ((dump cfg ⟨tm⟩).toSchema) (((dump cfg ⟨tm⟩).gtype t).namedName) := by
    intro t ht
    obtain ⟨j, hj, _, hm⟩ := g.typeRef_resolved hi ht
    rw [gtype_namedName cfg ⟨tm⟩ t j hj]
    exact g.known_of_mem hm
  rcases hnf with rfl | ⟨a, ha, rfl⟩
  · exact resolve _ (field_type_mem_typeRefs hbf)
  · apply resolve
    unfold BuiltSchema.typeRefs
    apply List.mem_append_left
    rw [List.mem_flatMap]
    exact ⟨bf, hbf, List.mem_cons_of_mem _ (List.mem_map.mpr ⟨a, ha, rfl⟩)⟩

theorem Good.translationConsistent {tm : TM} (g : Good cfg tm) (hwt : cfg.wellTyped = true) :
    TranslationConsistent ((dump cfg ⟨tm⟩).toSchema) := by
  refine ⟨?_, ?_, ?_, ?_⟩
  · -- names
    have hnames : ((dump cfg ⟨tm⟩).toSchema).types.map TypeDef.name =
        ((dump cfg ⟨tm⟩).userEntries).map (fun p => nameOf cfg p.2) := by
      simp only [BuiltSchema.toSchema, List.map_map]
      apply List.map_congr_left
      intro p _
      simp only [Function.comp, typeDef_name, dump_get]; rfl
    rw [hnames]
    have hsub : ((dump cfg ⟨tm⟩).userEntries.map (fun p => nameOf cfg p.2)).Sublist (tm.map (nameOf cfg)) := by
      unfold BuiltSchema.userEntries
      rw [dump_typeMap]
      have : tm.map (nameOf cfg) = (tm.map (fun i => (nameOf cfg i, i))).map (fun p => nameOf cfg p.2) := by
        rw [List.map_map]; rfl
      rw [this]
      exact (List.filter_sublist).map _
    apply hsub.nodup
    exact (List.pairwise_map).mpr g.inv.2
  · -- references
    intro td htd n hn
    obtain ⟨i, hi, rfl⟩ := toSchema_mem_inv htd
    unfold BuiltSchema.typeDef at hn
    cases hk : (builtType cfg i).kind <;> simp only [hk, typeRefNames, List.not_mem_nil] at hn
    · -- object
      have hk' : kindOf cfg i = .object := hk
      rw [List.mem_append] at hn
      rcases hn with hn | hn
      · obtain ⟨j, hj, rfl⟩ := List.mem_map.mp hn
        obtain ⟨is, his, hall⟩ := g.iface_mem hi hk'
        have hj' : j ∈ is := by simpa [builtType, hk', his, orNil] using hj
        rw [dump_nameAt]
        exact g.known_of_mem (hall j hj').1
      · exact fieldRefNames_known g hi hn
    · exact fieldRefNames_known g hi hn
    · -- union
      have hk' : kindOf cfg i = .union := hk
      obtain ⟨j, hj, rfl⟩ := List.mem_map.mp hn
      obtain ⟨ms, hms, hall⟩ := g.member_mem hi hk'
      have hj' : j ∈ ms := by simpa [builtType, hk', hms, orNil] using hj
      rw [dump_nameAt]
      exact g.known_of_mem (hall j hj').1
    · -- input object
      simp only [List.map_map, List.mem_map] at hn
      obtain ⟨a, ha, rfl⟩ := hn
      have ht : a.type ∈ BuiltSchema.typeRefs (builtType cfg i) := by
        unfold BuiltSchema.typeRefs
        exact List.mem_append_right _ (List.mem_map.mpr ⟨a, ha, rfl⟩)
      obtain ⟨j, hj, _, hm⟩ := g.typeRef_resolved hi ht
      simp only [Function.comp, BuiltSchema.inputField]
      rw [gtype_namedName cfg ⟨tm⟩ a.type j hj]
      exact g.known_of_mem hm
  · -- roots
    obtain ⟨q, hq, hqm⟩ := g.query
    refine ⟨?_, ?_, ?_⟩
    · have : ((dump cfg ⟨tm⟩).toSchema).query = nameOf cfg q := by
        simp only [BuiltSchema.toSchema]
        have : (dump cfg ⟨tm⟩).query = some q := hq
        rw [this, dump_nameAt]
      rw [this]; exact g.known_of_mem hqm
    · intro m hm
      simp only [BuiltSchema.toSchema, Option.map_eq_some_iff] at hm
      obtain ⟨mi, hmi, rfl⟩ := hm
      rw [dump_nameAt]
      exact g.known_of_mem (g.mutation mi hmi)
    · intro m hm
      simp only [BuiltSchema.toSchema, Option.map_eq_some_iff] at hm
      obtain ⟨mi, hmi, rfl⟩ := hm
      rw [dump_nameAt]
      exact g.known_of_mem (g.subscription mi hmi)
  · -- interface fields
    intro o ifs fs b d hobj iname hin ifs' b' d' hiface f hf
    obtain ⟨i, hi, heq⟩ := toSchema_mem_inv hobj
    obtain ⟨j, hj, heqj⟩ := toSchema_mem_inv hiface
    unfold BuiltSchema.typeDef at heq heqj
    cases hk : (builtType cfg i).kind <;> simp only [hk] at heq <;> try (cases heq)
    cases hkj : (builtType cfg j).kind <;> simp only [hkj] at heqj <;> try (cases heqj)
    have hk' : kindOf cfg i = .object := hk
    -- the declared interface with that name is `j`
    obtain ⟨is, his, hall⟩ := g.iface_mem hi hk'
    rw [dump_nameAt] at hin
    obtain ⟨j', hj', hjn⟩ := List.mem_map.mp hin
    have hj'is : j' ∈ is := by simpa [builtType, hk', his, orNil] using hj'
    have hjj : j' = j := inv_name_inj cfg g.inv (hall j' hj'is).1 hj (by rw [hjn]; rfl)
    subst hjj
    -- the assertion
    have hass := g.asserted
    unfold assertAll at hass
    rw [List.findSome?_eq_none_iff] at hass
    have h1 := hass i ((mem_objects (cfg := cfg)).mpr ⟨hi, hk'⟩)
    rw [List.findSome?_eq_none_iff] at h1
    have h2 := h1 j' (by rw [his]; exact hj'is)
    unfold conformsTo at h2
    rw [List.findSome?_eq_none_iff] at h2
    obtain ⟨bf, hbf, rfl⟩ := List.mem_map.mp hf
    have h3 := h2 bf hbf
    unfold fieldConforms at h3
    cases hfind : (builtType cfg i).fields.find? (fun g => g.name == bf.name) with
    | none => simp [hfind] at h3
    | some og =>
      have hmem := List.mem_of_find?_eq_some hfind
      have hname := List.find?_some hfind
      exact ⟨_, List.mem_map.mpr ⟨og, hmem, rfl⟩, by simpa [BuiltSchema.fieldDef] using hname⟩

end GqlModel.SchemaBuild
