import GqlModel.Conforms
/-! C04: the executable checker `conformsB` (run by the driver on the real executor's output) is sound for the
specification `Conforms`. -/
namespace GqlModel.Exec
open GqlModel.Coerce

theorem fieldConformB_sound (c : Ctx) (self : GType → List FieldNode → JVal → Bool)
    (hself : ∀ t nodes v, self t nodes v = true → Conforms c t nodes v)
    (ot : String) (groups : Groups) (k : String) (v : JVal)
    (h : fieldConformB c self ot groups k v = true) : FieldConforms c ot groups k v := by
  unfold fieldConformB at h
  rw [List.any_eq_true] at h
  obtain ⟨g, hg, h⟩ := h
  obtain ⟨k', ns⟩ := g
  simp only [Bool.and_eq_true, beq_iff_eq] at h
  obtain ⟨rfl, h⟩ := h
  split at h
  · cases h
  · rename_i node hnode
    split at h
    · rename_i hn
      split at h
      · rename_i x
        simp only [beq_iff_eq] at h
        subst h
        exact .typename hg hnode (by simpa using hn)
      · cases h
    · rename_i hn
      split at h
      · cases h
      · rename_i fd hfd
        exact .field hg hnode (by simpa using hn) hfd (hself _ _ _ h)

theorem fieldsConformB_sound (c : Ctx) (self : GType → List FieldNode → JVal → Bool)
    (hself : ∀ t nodes v, self t nodes v = true → Conforms c t nodes v)
    (ot : String) (groups : Groups) (fs : List (String × JVal))
    (h : fieldsConformB c self ot groups fs = true) : FieldsConform c ot groups fs := by
  unfold fieldsConformB at h
  rw [List.all_eq_true] at h
  intro kv hkv
  exact fieldConformB_sound c self hself ot groups kv.1 kv.2 (h kv hkv)

theorem conformsStep_sound (c : Ctx) (self : GType → List FieldNode → JVal → Bool)
    (hself : ∀ t nodes v, self t nodes v = true → Conforms c t nodes v) :
    ∀ t nodes v, conformsStep c self t nodes v = true → Conforms c t nodes v := by
  intro t
  induction t with
  | nonNull t ih =>
    intro nodes v h
    simp only [conformsStep, Bool.and_eq_true, Bool.not_eq_true'] at h
    refine .nonNull ?_ (ih nodes v h.2)
    intro hv; subst hv; simp [JVal.isNull] at h
  | list t ih =>
    intro nodes v h
    simp only [conformsStep] at h
    split at h
    · exact .listNull
    · rename_i xs
      rw [List.all_eq_true] at h
      exact .list (fun x hx => ih nodes x (h x hx))
    · cases h
  | named n =>
    intro nodes v h
    simp only [conformsStep] at h
    split at h
    · exact .null
    · split at h
      · rename_i hleaf
        exact .leaf hleaf h
      · split at h
        · rename_i fs
          split at h
          · rename_i habs
            rw [List.any_eq_true] at h
            obtain ⟨ot, hot, h⟩ := h
            simp only [Bool.and_eq_true] at h
            refine .abstract habs h.1 ?_ (fieldsConformB_sound c self hself _ _ _ h.2)
            simpa [Schema.isPossibleType] using hot
          · split at h
            · rename_i hobj
              exact .object hobj (fieldsConformB_sound c self hself _ _ _ h)
            · cases h
        · cases h

theorem conformsF_sound (c : Ctx) : ∀ n t nodes v, conformsF c n t nodes v = true → Conforms c t nodes v
  | 0 => by intro t nodes v h; simp [conformsF] at h
  | n + 1 => by
    intro t nodes v h
    exact conformsStep_sound c (conformsF c n) (conformsF_sound c n) t nodes v h

/-- soundness of the checker at a position -/
theorem conformsB_sound (c : Ctx) (n : Nat) (t : GType) (nodes : List FieldNode) (v : JVal)
    (h : conformsB c n t nodes v = true) : Conforms c t nodes v := conformsF_sound c n t nodes v h

/-- soundness of the driver op: data accepted by `conformsData` conforms to the request's root selection -/
theorem conformsData_sound (s : Schema) (doc : Document) (opName : String) (inputs : Vars) (w : World)
    (data : List (String × JVal)) (h : conformsData s doc opName inputs w data = true) :
    ∃ c root sel, requestCtx s doc opName inputs w = some (c, root, sel) ∧
      FieldsConform c root (rootGroups c root sel) data := by
  unfold conformsData at h
  split at h
  · cases h
  · rename_i c root sel hc
    exact ⟨c, root, sel, hc, fieldsConformB_sound c _ (conformsF_sound c _) _ _ _ h⟩

end GqlModel.Exec
