import GqlModel.PossibleCost
/-! # C19: validation asks for at most two possible-type tables per visited selection -/
namespace GqlModel.Validate

theorem foldl_max_ge (l : List Nat) (a : Nat) : a ≤ l.foldl max a ∧ ∀ x, x ∈ l → x ≤ l.foldl max a := by
  induction l generalizing a with
  | nil => exact ⟨Nat.le_refl _, fun _ h => by cases h⟩
  | cons y ys ih =>
    simp only [List.foldl_cons]
    have h := ih (max a y)
    refine ⟨by omega, fun x hx => ?_⟩
    rcases List.mem_cons.1 hx with rfl | hx
    · omega
    · exact h.2 x hx

theorem possibleTypes_le_max (s : Schema) (t : String) : (s.possibleTypes t).length ≤ maxPossible s := by
  cases h : s.find? t with
  | none => simp [Schema.possibleTypes, h]
  | some td =>
    have hm : td ∈ s.types := List.mem_of_find?_eq_some h
    have hn : td.name = t := by
      have := List.find?_some h
      simpa using this
    subst hn
    exact (foldl_max_ge _ 0).2 _ (List.mem_map.2 ⟨td, hm, rfl⟩)

theorem overlapTables_le (s : Schema) (t1 t2 : String) : overlapTables s t1 t2 ≤ 2 * maxPossible s := by
  have h1 := possibleTypes_le_max s t1
  have h2 := possibleTypes_le_max s t2
  unfold overlapTables
  repeat' split
  all_goals omega

theorem itemTables_le (s : Schema) (d : Document) (it : Item) : itemTables s d it ≤ 2 * maxPossible s := by
  cases it with
  | inline c tc lc =>
    simp only [itemTables]
    split
    · split
      · exact overlapTables_le s _ _
      · omega
    · omega
  | spread c nm lc =>
    simp only [itemTables]
    split
    · split
      · exact overlapTables_le s _ _
      · omega
    · omega
  | field c nm args sel lc =>
    simp only [itemTables]
    split
    · split
      · have := possibleTypes_le_max s ‹String›; omega
      · omega
    · omega
  | _ => simp [itemTables]

theorem itemTables_zero (s : Schema) (d : Document) (it : Item) (h : it.isSelection = false) : itemTables s d it = 0 := by
  cases it <;> simp_all [itemTables, Item.isSelection]

theorem ptValidation_le (s : Schema) (d : Document) :
    ptValidation s d ≤ 2 * maxPossible s * nSelectionItems s d := by
  unfold ptValidation nSelectionItems
  generalize items s d = l
  induction l with
  | nil => simp
  | cons it rest ih =>
    simp only [List.map_cons, List.sum_cons, List.filter_cons]
    have hi := itemTables_le s d it
    cases hk : it.isSelection with
    | true =>
      simp only [if_true, List.length_cons, Nat.mul_succ]
      omega
    | false =>
      have hz := itemTables_zero s d it hk
      simp only [Bool.false_eq_true, if_false]
      omega

end GqlModel.Validate
